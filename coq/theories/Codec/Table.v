(* Codec/Table.v — model of a sorted table (src/sstable/{table,block,index_block}.rs) at the level
   "list of entries chunked into blocks":
     * a data block / index partition block = its entry list + the restart interval; restart points
       are the entries 0, I, 2I, ...  (BlockWriter::add); the byte layout (prefix compression,
       varints, restart array, compression, checksum) is NOT modelled here;
     * the cut points (which entries share a block, which index entries share a partition) are an
       ARBITRARY chunking argument, so every statement covers every block size / partition size;
     * index key of a block = separator(last key of the block, first key of the next block); for the
       last block separator(last key, successor(last key)) (TableWriter::write_data_block / finish);
       top-level key of a partition = key of its last index entry (IndexWriter::finish);
     * BlockIterator (seek_internal = binary search over restart points + linear scan, advance,
       prev_internal, seek_to_first/last, reset), IndexIterator, Table::get, TableIterator
       (advance_to_valid_entry, retreat_to_valid_entry, bounds, `exhausted`) transcribed branch by
       branch, including the states an iterator is left in when it runs off either end.
   Byte offsets inside a block are represented by entry numbers (offset of entry i <-> i,
   restart_offset <-> number of entries): entries have positive length, so the order is the same.
   Definitions only. *)
From Coq Require Import List NArith Bool Arith.
From SKV Require Import Params Base.Lex Codec.IKey Codec.Separator.
Import ListNotations.

Definition ik0 : ikey := {| ik_uk := []; ik_seq := 0%N; ik_kind := 0%N; ik_ts := 0%N |}.

(* ------------------------------------------------------------------------------------------ *)
(* BlockIterator over one block                                                                *)
(* ------------------------------------------------------------------------------------------ *)
Record biter := {
  b_cur : option nat;   (* Some i: current_key/value describe entry i and is_valid() holds *)
  b_off : nat;          (* `offset`: the entry the next seek_next_entry decodes *)
  b_ceo : nat;          (* `current_entry_offset` *)
  b_cri : nat           (* `current_restart_index` *)
}.
Definition b_new : biter := {| b_cur := None; b_off := 0; b_ceo := 0; b_cri := 0 |}.
Definition b_valid (it : biter) : bool := match b_cur it with Some _ => true | None => false end.

Section Block.
Variable V : Type.
Variable I : nat.                       (* restart interval (>= 1) *)
Variable b : list (ikey * V).

Definition b_key (i : nat) : ikey := match nth_error b i with Some (k, _) => k | None => ik0 end.
(* number of restart points: BlockWriter starts with [0] and adds one every I entries *)
Definition b_nrestarts : nat := Nat.max 1 ((length b + I - 1) / I).

(* reset(): current_entry_offset is NOT reset *)
Definition b_reset (it : biter) : biter :=
  {| b_cur := None; b_off := 0; b_ceo := b_ceo it; b_cri := 0 |}.
(* seek_to_restart_point(r) *)
Definition b_to_restart (r : nat) (it : biter) : biter :=
  {| b_cur := b_cur it; b_off := r * I; b_ceo := r * I; b_cri := r |}.
(* seek_next_entry(): Err(OffsetExceedsRestartOffset) when offset >= restart_offset *)
Definition b_decode (it : biter) : option biter :=
  if length b <=? b_off it then None
  else Some {| b_cur := Some (b_off it); b_off := S (b_off it); b_ceo := b_ceo it; b_cri := b_cri it |}.
(* advance() *)
Definition b_advance (it : biter) : biter * bool :=
  if length b <=? b_off it then (b_reset it, false)
  else ({| b_cur := Some (b_off it); b_off := S (b_off it); b_ceo := b_off it; b_cri := b_cri it |}, true).
(* seek_to_first() *)
Definition b_seek_first (it : biter) : biter :=
  let it := b_to_restart 0 it in
  if length b <=? b_off it then b_reset it
  else match b_decode it with Some it' => it' | None => it end.
(* seek_to_last(): from the last restart point decode to the end *)
Fixpoint b_last_loop (fuel : nat) (last : nat) (it : biter) : nat * biter :=
  match fuel with
  | O => (last, it)
  | S f =>
    if b_off it <? length b then
      match b_decode it with
      | Some it' => b_last_loop f (b_off it) it'
      | None => (last, it)
      end
    else (last, it)
  end.
Definition b_seek_last (it : biter) : biter :=
  let it := b_to_restart (b_nrestarts - 1) it in
  let '(last, it) := b_last_loop (S (length b)) (b_off it) it in
  {| b_cur := b_cur it; b_off := b_off it; b_ceo := last; b_cri := b_cri it |}.

(* seek_internal(target): binary search over restart points for the last one whose key is < target,
   then advance() until the key is >= target *)
Fixpoint b_bsearch (fuel : nat) (target : ikey) (left right : nat) : nat :=
  match fuel with
  | O => left
  | S f =>
    if left <? right then
      let mid := (left + right + 1) / 2 in       (* (left + right).div_ceil(2) *)
      match ik_cmp (b_key (mid * I)) target with
      | Lt => b_bsearch f target mid right
      | _ => b_bsearch f target left (mid - 1)
      end
    else left
  end.
Fixpoint b_scan (fuel : nat) (target : ikey) (it : biter) : biter :=
  match fuel with
  | O => it
  | S f =>
    let '(it', ok) := b_advance it in
    if ok then
      match b_cur it' with
      | Some i => match ik_cmp (b_key i) target with Lt => b_scan f target it' | _ => it' end
      | None => it'
      end
    else it'
  end.
Definition b_seek (target : ikey) (it : biter) : biter :=
  let it := b_reset it in
  let left := b_bsearch b_nrestarts target 0 (b_nrestarts - 1) in
  let it := b_to_restart left it in
  b_scan (S (length b)) target it.

(* prev_internal() *)
Fixpoint b_prev_restart (fuel : nat) (original : nat) (it : biter) : biter * bool :=   (* bool: early `return Ok(false)` *)
  match fuel with
  | O => (it, false)
  | S f =>
    if original <=? b_cri it * I then
      if b_cri it =? 0 then
        ({| b_cur := b_cur it; b_off := 0 * I; b_ceo := b_ceo it; b_cri := b_nrestarts |}, true)
      else b_prev_restart f original {| b_cur := b_cur it; b_off := b_off it; b_ceo := b_ceo it; b_cri := b_cri it - 1 |}
    else (it, false)
  end.
Fixpoint b_prev_scan (fuel : nat) (original prev_off : nat) (it : biter) : biter * bool :=
  match fuel with
  | O => (it, false)
  | S f =>
    match b_decode it with
    | None => (it, false)                          (* "expected EOF" *)
    | Some it1 =>
      if original <=? b_off it1 then
        let it2 := {| b_cur := b_cur it1; b_off := prev_off; b_ceo := prev_off; b_cri := b_cri it1 |} in
        match b_decode it2 with Some it3 => (it3, true) | None => (it2, false) end
      else b_prev_scan f original (b_off it1) it1
    end
  end.
Definition b_prev (it : biter) : biter * bool :=
  let original := b_ceo it in
  if original =? 0 then (b_reset it, false) else
  let '(it, early) := b_prev_restart (S (b_cri it)) original it in
  if early then (it, false) else
  let it := b_to_restart (b_cri it) it in
  b_prev_scan (S (length b)) original (b_off it) it.

Definition b_entry (it : biter) : option (ikey * V) :=
  match b_cur it with Some i => nth_error b i | None => None end.
End Block.
Arguments b_key {V}. Arguments b_nrestarts {V}. Arguments b_decode {V}. Arguments b_advance {V}.
Arguments b_seek_first {V}. Arguments b_seek_last {V}. Arguments b_seek {V}. Arguments b_prev {V}.
Arguments b_entry {V}. Arguments b_last_loop {V}. Arguments b_bsearch {V}. Arguments b_scan {V}.
Arguments b_prev_restart {V}. Arguments b_prev_scan {V}.

(* ------------------------------------------------------------------------------------------ *)
(* The table                                                                                   *)
(* ------------------------------------------------------------------------------------------ *)
Notation entry := (ikey * bytes)%type (only parsing).
Notation ientry := (ikey * nat)%type (only parsing).      (* index entry: key, number of the block it points to *)

Record table := {
  t_ri : nat;                                (* block_restart_interval *)
  t_blocks : list (list entry);              (* data blocks *)
  t_parts : list (list ientry);              (* index partitions: entries point to data blocks *)
  t_top : list ientry;                       (* top-level index (Index.blocks): key, partition number *)
  t_smallest : option ikey;                  (* meta.smallest_point / largest_point *)
  t_largest : option ikey
}.

Fixpoint chunk {A} (l : list A) (cs : list nat) : list (list A) :=
  match cs with
  | [] => []
  | c :: r => firstn c l :: chunk (skipn c l) r
  end.
Definition chunking_ok (n : nat) (cs : list nat) : bool :=
  forallb (fun c => 0 <? c) cs && (fold_right Nat.add 0 cs =? n).

Definition last_key {V} (l : list (ikey * V)) : ikey := match rev l with (k, _) :: _ => k | [] => ik0 end.
Definition first_key {V} (l : list (ikey * V)) : ikey := match l with (k, _) :: _ => k | [] => ik0 end.

(* the index entries the writer produces, one per data block *)
Fixpoint index_entries (i : nat) (blocks : list (list entry)) : list ientry :=
  match blocks with
  | [] => []
  | bl :: rest =>
    let lastk := last_key bl in
    let next := match rest with
                | nb :: _ => first_key nb
                | [] => ik_successor lastk
                end in
    (ik_separator lastk next, i) :: index_entries (S i) rest
  end.
Fixpoint top_entries (j : nat) (parts : list (list ientry)) : list ientry :=
  match parts with
  | [] => []
  | p :: rest => (last_key p, j) :: top_entries (S j) rest
  end.

(* bc: entries per data block, pc: index entries per partition (both as the writer cut them) *)
Definition build_table (ri : nat) (es : list entry) (bc pc : list nat) : option table :=
  if chunking_ok (length es) bc && chunking_ok (length bc) pc && (0 <? length es) && (0 <? ri) then
    let blocks := chunk es bc in
    let parts := chunk (index_entries 0 blocks) pc in
    Some {| t_ri := ri; t_blocks := blocks; t_parts := parts; t_top := top_entries 0 parts;
            t_smallest := Some (first_key es); t_largest := Some (last_key es) |}
  else None.

(* Index::find_block_handle_by_key: partition_point(sep < target), then the `target <= sep` filter *)
Fixpoint partition_point {A} (p : A -> bool) (l : list A) : nat :=   (* first index whose element fails p *)
  match l with
  | [] => 0
  | x :: r => if p x then S (partition_point p r) else 0
  end.
Definition find_partition (top : list ientry) (target : ikey) : option (nat * ientry) :=
  let idx := partition_point (fun e => ik_ltb (fst e) target) top in
  match nth_error top idx with
  | Some e => if ik_leb target (fst e) then Some (idx, e) else None
  | None => None
  end.

Section WithTable.
Variable T : table.
Definition tb_part (j : nat) : list ientry := nth j (t_parts T) [].
(* load_block(&index.blocks[idx]): the partition the idx-th top-level entry points to *)
Definition top_part (idx : nat) : list ientry :=
  match nth_error (t_top T) idx with Some (_, pj) => tb_part pj | None => [] end.
Definition tb_block (i : nat) : list entry := nth i (t_blocks T) [].

(* Table::get; `mc` = the filter's may_contain (const true when the table has no filter block) *)
Definition table_get (mc : bytes -> bool) (u : bytes) (snap : N) : option entry :=
  let key := ik_lookup u snap in
  if negb (mc u) then None else
  match find_partition (t_top T) key with
  | None => None
  | Some (idx, _) =>
    let pit := b_seek (t_ri T) (top_part idx) key b_new in
    match b_entry (top_part idx) pit with
    | None => None
    | Some (_, bi) =>
      let dit := b_seek (t_ri T) (tb_block bi) key b_new in
      match b_entry (tb_block bi) dit with
      | Some (k, v) => if bytes_eqb (ik_uk k) u then Some (k, v) else None
      | None => None
      end
    end
  end.

(* ---------------- IndexIterator ---------------- *)
Record iiter := { i_pidx : nat; i_it : option biter }.
Definition i_new : iiter := {| i_pidx := 0; i_it := None |}.
Definition i_valid (x : iiter) : bool := match i_it x with Some it => b_valid it | None => false end.
(* block_handle(): the data block the current index entry points to *)
Definition i_handle (x : iiter) : option nat :=
  match i_it x with
  | Some it => match b_entry (top_part (i_pidx x)) it with Some (_, h) => Some h | None => None end
  | None => None
  end.
Definition nparts : nat := length (t_top T).

Fixpoint i_next_loop (fuel : nat) (pidx : nat) : iiter :=
  match fuel with
  | O => {| i_pidx := pidx; i_it := None |}
  | S f =>
    let pidx := S pidx in
    if nparts <=? pidx then {| i_pidx := pidx; i_it := None |}
    else
      let it := b_seek_first (t_ri T) (top_part pidx) b_new in
      if b_valid it then {| i_pidx := pidx; i_it := Some it |} else i_next_loop f pidx
  end.
Definition i_next (x : iiter) : iiter :=
  match i_it x with
  | Some it =>
    let '(it', ok) := b_advance (top_part (i_pidx x)) it in
    if ok then {| i_pidx := i_pidx x; i_it := Some it' |} else i_next_loop (S nparts) (i_pidx x)
  | None => i_next_loop (S nparts) (i_pidx x)
  end.
Fixpoint i_prev_loop (fuel : nat) (pidx : nat) : iiter :=
  match fuel with
  | O => {| i_pidx := pidx; i_it := None |}
  | S f =>
    if pidx =? 0 then {| i_pidx := pidx; i_it := None |}
    else
      let pidx := pidx - 1 in
      let it := b_seek_last (t_ri T) (top_part pidx) b_new in
      if b_valid it then {| i_pidx := pidx; i_it := Some it |} else i_prev_loop f pidx
  end.
Definition i_prev (x : iiter) : iiter :=
  match i_it x with
  | Some it =>
    let '(it', ok) := b_prev (t_ri T) (top_part (i_pidx x)) it in
    if ok then {| i_pidx := i_pidx x; i_it := Some it' |} else i_prev_loop (S (i_pidx x)) (i_pidx x)
  | None => i_prev_loop (S (i_pidx x)) (i_pidx x)
  end.
Definition i_seek_first (x : iiter) : iiter :=
  let y := {| i_pidx := 0; i_it := Some (b_seek_first (t_ri T) (top_part 0) b_new) |} in
  if i_valid y then y else i_next y.
Definition i_seek_last (x : iiter) : iiter :=
  let y := {| i_pidx := nparts - 1; i_it := Some (b_seek_last (t_ri T) (top_part (nparts - 1)) b_new) |} in
  if i_valid y then y else i_prev y.
Definition i_seek (target : ikey) (x : iiter) : iiter :=
  match find_partition (t_top T) target with
  | Some (idx, _) =>
    let y := {| i_pidx := idx; i_it := Some (b_seek (t_ri T) (top_part idx) target b_new) |} in
    if i_valid y then y else i_next y
  | None => {| i_pidx := i_pidx x; i_it := None |}
  end.

(* ---------------- TableIterator ---------------- *)
Inductive bound := BUnb | BInc (u : bytes) | BExc (u : bytes).
Record titer := {
  t_first : iiter;
  t_second : option (nat * biter);      (* data block number and its iterator *)
  t_exh : bool
}.
Definition t_new : titer := {| t_first := i_new; t_second := None; t_exh := false |}.

Definition second_valid (s : option (nat * biter)) : bool :=
  match s with Some (_, it) => b_valid it | None => false end.
Definition t_valid (x : titer) : bool := negb (t_exh x) && second_valid (t_second x).
Definition t_entry (x : titer) : option entry :=
  match t_second x with Some (bi, it) => b_entry (tb_block bi) it | None => None end.
Definition t_cur_uk (x : titer) : bytes := match t_entry x with Some (k, _) => ik_uk k | None => [] end.
Definition mark_exhausted (x : titer) : titer := {| t_first := t_first x; t_second := None; t_exh := true |}.

(* init_data_block() *)
Definition init_data_block (x : titer) : titer :=
  if i_valid (t_first x) then
    match i_handle (t_first x) with
    | Some h => {| t_first := t_first x; t_second := Some (h, b_new); t_exh := t_exh x |}
    | None => {| t_first := t_first x; t_second := None; t_exh := t_exh x |}
    end
  else {| t_first := t_first x; t_second := None; t_exh := t_exh x |}.
Definition on_second (f : list entry -> biter -> biter) (x : titer) : titer :=
  match t_second x with
  | Some (bi, it) => {| t_first := t_first x; t_second := Some (bi, f (tb_block bi) it); t_exh := t_exh x |}
  | None => x
  end.
Definition nblocks : nat := length (t_blocks T).

Fixpoint advance_to_valid (fuel : nat) (x : titer) : titer :=
  match fuel with
  | O => x
  | S f =>
    if second_valid (t_second x) then x
    else if negb (i_valid (t_first x)) then {| t_first := t_first x; t_second := None; t_exh := t_exh x |}
    else
      let x := {| t_first := i_next (t_first x); t_second := t_second x; t_exh := t_exh x |} in
      let x := init_data_block x in
      let x := on_second (b_seek_first (t_ri T)) x in
      advance_to_valid f x
  end.
Fixpoint retreat_to_valid (fuel : nat) (x : titer) : titer :=
  match fuel with
  | O => x
  | S f =>
    if second_valid (t_second x) then x
    else if negb (i_valid (t_first x)) then {| t_first := t_first x; t_second := None; t_exh := t_exh x |}
    else
      let x := {| t_first := i_prev (t_first x); t_second := t_second x; t_exh := t_exh x |} in
      let x := init_data_block x in
      let x := on_second (b_seek_last (t_ri T)) x in
      retreat_to_valid f x
  end.
Definition FUEL : nat := S (S nblocks).

Definition seek_internal (target : ikey) (x : titer) : titer :=
  let x := {| t_first := i_seek target (t_first x); t_second := t_second x; t_exh := t_exh x |} in
  let x := init_data_block x in
  let x := on_second (fun b => b_seek (t_ri T) b target) x in
  advance_to_valid FUEL x.
Definition position_to_absolute_last (x : titer) : titer :=
  let x := {| t_first := i_seek_last (t_first x); t_second := t_second x; t_exh := t_exh x |} in
  let x := init_data_block x in
  let x := on_second (b_seek_last (t_ri T)) x in
  retreat_to_valid FUEL x.
Definition advance_internal (x : titer) : titer :=
  match t_second x with
  | Some (bi, it) =>
    let '(it', ok) := b_advance (tb_block bi) it in
    let x := {| t_first := t_first x; t_second := Some (bi, it'); t_exh := t_exh x |} in
    if ok then x else advance_to_valid FUEL x
  | None => advance_to_valid FUEL x
  end.
Definition prev_internal (x : titer) : titer :=
  match t_second x with
  | Some (bi, it) =>
    let '(it', ok) := b_prev (t_ri T) (tb_block bi) it in
    let x := {| t_first := t_first x; t_second := Some (bi, it'); t_exh := t_exh x |} in
    if ok then x else retreat_to_valid FUEL x
  | None => retreat_to_valid FUEL x
  end.

Section Range.
Variables lo hi : bound.
Definition sat_lower (u : bytes) : bool :=
  match lo with
  | BInc s => negb (lex_ltb u s)
  | BExc s => lex_ltb s u
  | BUnb => true
  end.
Definition sat_upper (u : bytes) : bool :=
  match hi with
  | BInc e => lex_leb u e
  | BExc e => lex_ltb u e
  | BUnb => true
  end.

Definition t_seek_first (x : titer) : titer :=
  let x := {| t_first := t_first x; t_second := t_second x; t_exh := false |} in
  let x :=
    match lo with
    | BUnb =>
      let x := {| t_first := i_seek_first (t_first x); t_second := t_second x; t_exh := t_exh x |} in
      let x := init_data_block x in
      let x := on_second (b_seek_first (t_ri T)) x in
      advance_to_valid FUEL x
    | BInc s => seek_internal (ik_max_of s) x
    | BExc s =>
      let x := seek_internal (ik_min_of s) x in
      if t_valid x && bytes_eqb (t_cur_uk x) s then advance_internal x else x
    end in
  if t_valid x && negb (sat_upper (t_cur_uk x)) then mark_exhausted x else x.

Definition t_seek_last (x : titer) : titer :=
  let x := {| t_first := t_first x; t_second := t_second x; t_exh := false |} in
  let x :=
    match hi with
    | BUnb =>
      let x := {| t_first := i_seek_last (t_first x); t_second := t_second x; t_exh := t_exh x |} in
      let x := init_data_block x in
      let x := on_second (b_seek_last (t_ri T)) x in
      retreat_to_valid FUEL x
    | BInc e =>
      let x := seek_internal (ik_min_of e) x in
      if negb (t_valid x) then position_to_absolute_last x
      else if lex_ltb e (t_cur_uk x) then prev_internal x else x
    | BExc e =>
      let x := seek_internal (ik_max_of e) x in
      let x := if negb (t_valid x) then position_to_absolute_last x else x in
      if t_valid x then
        if negb (lex_ltb (t_cur_uk x) e) then prev_internal x else x
      else x
    end in
  if t_valid x && negb (sat_lower (t_cur_uk x)) then mark_exhausted x else x.

Definition t_seek (target : ikey) (x : titer) : titer :=
  let x := {| t_first := t_first x; t_second := t_second x; t_exh := false |} in
  let x := seek_internal target x in
  if t_valid x && negb (sat_upper (t_cur_uk x)) then mark_exhausted x else x.

Definition t_next (x : titer) : titer :=
  if negb (t_valid x) && negb (t_exh x) then t_seek_first x
  else if negb (t_valid x) then x
  else
    let x := advance_internal x in
    if negb (t_valid x) || negb (sat_upper (t_cur_uk x)) then mark_exhausted x else x.

Definition t_prev (x : titer) : titer :=
  if negb (t_valid x) && negb (t_exh x) then t_seek_last x
  else if negb (t_valid x) then x
  else
    let x := prev_internal x in
    if negb (t_valid x) || negb (sat_lower (t_cur_uk x)) then mark_exhausted x else x.
End Range.

(* ---------------- range predicates on the table metadata ---------------- *)
Definition is_key_in_key_range (u : bytes) : bool :=
  match t_smallest T, t_largest T with
  | Some s, Some l => negb (lex_ltb u (ik_uk s)) && lex_leb u (ik_uk l)
  | _, _ => true
  end.
Definition is_before_range (lo : bound) : bool :=
  match t_largest T with
  | None => false
  | Some l =>
    match lo with
    | BUnb => false
    | BInc k => lex_ltb (ik_uk l) k
    | BExc k => lex_leb (ik_uk l) k
    end
  end.
Definition is_after_range (hi : bound) : bool :=
  match t_smallest T with
  | None => false
  | Some s =>
    match hi with
    | BUnb => false
    | BInc k => lex_ltb k (ik_uk s)
    | BExc k => negb (lex_ltb (ik_uk s) k)
    end
  end.
Definition overlaps_with_range (lo hi : bound) : bool := negb (is_before_range lo) && negb (is_after_range hi).
End WithTable.
