(* Codec/TableSpec.v — what a sorted table must return, and the theorem statements about the
   table model (Codec/Table.v).  Every statement is quantified over ALL strictly sorted entry
   lists, ALL chunkings into data blocks and index partitions, and ALL restart intervals >= 1. *)
From Coq Require Import List NArith Bool Arith Sorted.
From SKV Require Import Params Base.Lex Codec.IKey Codec.Separator Codec.SeparatorSpec Codec.Table.
Import ListNotations.
Local Open Scope N_scope.

(* strictly increasing in the internal-key order (what TableWriter::add asserts) *)
Definition sorted (es : list entry) : Prop := StronglySorted (fun a b => ik_lt (fst a) (fst b)) es.

(* ---- point lookup ---- *)
Definition visible (u : bytes) (snap : N) (e : entry) : Prop := ik_uk (fst e) = u /\ ik_seq (fst e) <= snap.
(* r is the newest entry of user key u at or below the snapshot, or None when there is none *)
Definition get_spec (es : list entry) (u : bytes) (snap : N) (r : option entry) : Prop :=
  match r with
  | Some e => In e es /\ visible u snap e /\
              forall e', In e' es -> visible u snap e' -> ik_seq (fst e') <= ik_seq (fst e)
  | None => forall e', In e' es -> ~ visible u snap e'
  end.
Definition get_correct_stmt : Prop :=
  forall ri es bc pc T (mc : bytes -> bool) u snap,
    sorted es -> build_table ri es bc pc = Some T ->
    (forall e, In e es -> mc (ik_uk (fst e)) = true) ->        (* the filter has no false negative *)
    get_spec es u snap (table_get T mc u snap).

(* ---- range predicates ---- *)
Definition in_bounds (lo hi : bound) (u : bytes) : Prop :=
  match lo with BUnb => True | BInc s => lex_le s u | BExc s => lex_lt s u end /\
  match hi with BUnb => True | BInc e => lex_le u e | BExc e => lex_lt u e end.
Definition range_predicates_sound_stmt : Prop :=
  forall ri es bc pc T, sorted es -> build_table ri es bc pc = Some T ->
    (forall lo hi e, is_before_range T lo = true -> In e es -> ~ in_bounds lo hi (ik_uk (fst e))) /\
    (forall lo hi e, is_after_range T hi = true -> In e es -> ~ in_bounds lo hi (ik_uk (fst e))) /\
    (forall lo hi e, overlaps_with_range T lo hi = false -> In e es -> ~ in_bounds lo hi (ik_uk (fst e))) /\
    (forall u e, is_key_in_key_range T u = false -> In e es -> ik_uk (fst e) <> u).

(* ---- iteration ---- *)
Definition in_boundsb (lo hi : bound) (u : bytes) : bool :=
  match lo with BUnb => true | BInc s => lex_leb s u | BExc s => lex_ltb s u end &&
  match hi with BUnb => true | BInc e => lex_leb u e | BExc e => lex_ltb u e end.
(* entries a cursor over (lo, hi) must deliver *)
Definition window (lo hi : bound) (es : list entry) : list entry :=
  filter (fun e => in_boundsb lo hi (ik_uk (fst e))) es.

(* seek_first then next until the cursor is invalid *)
Fixpoint drain (step : titer -> titer) (T : table) (fuel : nat) (x : titer) : list entry :=
  match fuel with
  | O => []
  | S f => if t_valid x then match t_entry T x with Some e => e :: drain step T f (step x) | None => [] end
           else []
  end.
Definition scan_forward (T : table) (lo hi : bound) (n : nat) : list entry :=
  drain (t_next T lo hi) T n (t_seek_first T lo hi t_new).
Definition scan_backward (T : table) (lo hi : bound) (n : nat) : list entry :=
  drain (t_prev T lo hi) T n (t_seek_last T lo hi t_new).

(* sequence numbers are representable (56 bits): the seek keys (u, SEQ_NUM_MAX) the bounds are turned
   into must not lie above a stored key of user key u *)
Definition seq_bounded (es : list entry) : Prop := forall e, In e es -> ik_seq (fst e) <= IK_SEQ_NUM_MAX.

(* forward iteration yields exactly the entries inside the bounds, in order; backward the reverse;
   and the cursor is invalid afterwards (fuel one above the number of entries is not used up) *)
Definition iter_forward_complete_stmt : Prop :=
  forall ri es bc pc T lo hi, sorted es -> seq_bounded es -> build_table ri es bc pc = Some T ->
    scan_forward T lo hi (S (length es)) = window lo hi es.
Definition iter_backward_complete_stmt : Prop :=
  forall ri es bc pc T lo hi, sorted es -> seq_bounded es -> build_table ri es bc pc = Some T ->
    scan_backward T lo hi (S (length es)) = rev (window lo hi es).

(* seek(t) from any cursor state: the first entry >= t, provided it lies below the upper bound *)
Definition first_ge (t : ikey) (es : list entry) : option entry :=
  find (fun e => negb (ik_ltb (fst e) t)) es.
Definition upper_ok (hi : bound) (u : bytes) : bool :=
  match hi with BUnb => true | BInc e => lex_leb u e | BExc e => lex_ltb u e end.
Definition iter_seek_stmt : Prop :=
  forall ri es bc pc T hi t x, sorted es -> build_table ri es bc pc = Some T ->
    let y := t_seek T hi t x in
    (if t_valid y then t_entry T y else None) =
    match first_ge t es with
    | Some e => if upper_ok hi (ik_uk (fst e)) then Some e else None
    | None => None
    end.

(* seek(t) followed by next .. next delivers the entries >= t below the upper bound, in order *)
Definition iter_seek_scan_stmt : Prop :=
  forall ri es bc pc T lo hi t, sorted es -> build_table ri es bc pc = Some T ->
    drain (t_next T lo hi) T (S (length es)) (t_seek T hi t t_new) =
    filter (fun e => upper_ok hi (ik_uk (fst e)))
           (filter (fun e => negb (ik_ltb (fst e) t)) es).

(* ---- arbitrary cursor walks ---- *)
(* every sequence of seek_first / seek_last / seek / next / prev, with direction changes, against a
   reference cursor over the entry list.  The reference leaves two cases unspecified (the walk
   statement says nothing about them): next / prev on a cursor that has become invalid.  A seek
   is NOT clamped to the lower bound: seek(t) lands on the first entry >= t even when t lies below
   the lower bound (this is what the code does; the upper bound is checked). *)
Inductive cop := CFirst | CLast | CSeek (t : ikey) | CNext | CPrev.
Definition cop_run (T : table) (lo hi : bound) (o : cop) (x : titer) : titer :=
  match o with
  | CFirst => t_seek_first T lo hi x
  | CLast => t_seek_last T lo hi x
  | CSeek t => t_seek T hi t x
  | CNext => t_next T lo hi x
  | CPrev => t_prev T lo hi x
  end.
Inductive rcur := RFresh | RAt (p : nat) | RInvalid.
Definition lower_ok (lo : bound) (u : bytes) : bool :=
  match lo with BUnb => true | BInc s => lex_leb s u | BExc s => lex_ltb s u end.
Definition chk (ok : bytes -> bool) (es : list entry) (p : nat) : rcur :=
  match nth_error es p with
  | Some e => if ok (ik_uk (fst e)) then RAt p else RInvalid
  | None => RInvalid
  end.
Definition ref_first (lo hi : bound) (es : list entry) : rcur :=
  chk (upper_ok hi) es (partition_point (fun e => negb (lower_ok lo (ik_uk (fst e)))) es).
Definition ref_last (lo hi : bound) (es : list entry) : rcur :=
  match partition_point (fun e => upper_ok hi (ik_uk (fst e))) es with
  | O => RInvalid
  | S p => chk (lower_ok lo) es p
  end.
Definition ref_step (lo hi : bound) (es : list entry) (o : cop) (r : rcur) : option rcur :=
  match o with
  | CFirst => Some (ref_first lo hi es)
  | CLast => Some (ref_last lo hi es)
  | CSeek t => Some (chk (upper_ok hi) es (partition_point (fun e => ik_ltb (fst e) t) es))
  | CNext => match r with
             | RAt p => Some (chk (upper_ok hi) es (S p))
             | RFresh => Some (ref_first lo hi es)          (* "auto-position on first call" *)
             | RInvalid => None
             end
  | CPrev => match r with
             | RAt O => Some RInvalid
             | RAt (S p) => Some (chk (lower_ok lo) es p)
             | RFresh => Some (ref_last lo hi es)
             | RInvalid => None
             end
  end.
Fixpoint ref_run (lo hi : bound) (es : list entry) (ops : list cop) (r : rcur) : option rcur :=
  match ops with
  | [] => Some r
  | o :: q => match ref_step lo hi es o r with Some r' => ref_run lo hi es q r' | None => None end
  end.
Definition observe (T : table) (x : titer) : option entry := if t_valid x then t_entry T x else None.
Definition iter_walk_stmt : Prop :=
  forall ri es bc pc T lo hi ops r, sorted es -> seq_bounded es -> build_table ri es bc pc = Some T ->
    ref_run lo hi es ops RFresh = Some r ->
    observe T (fold_left (fun x o => cop_run T lo hi o x) ops t_new) =
    match r with RAt p => nth_error es p | _ => None end.
