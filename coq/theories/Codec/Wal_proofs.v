(* Codec/Wal_proofs.v — proofs of the statements of Codec/WalSpec.v about the model Codec/Wal.v. *)
From Coq Require Import List NArith Arith Bool Lia Sorted.
From SKV Require Import Codec.Wal Codec.WalSpec.
Import ListNotations.

Arguments N.add : simpl never.
Arguments N.sub : simpl never.
Arguments N.eqb : simpl never.
Arguments N.ltb : simpl never.
Arguments N.leb : simpl never.
Arguments N.of_nat : simpl never.
Arguments N.to_nat : simpl never.
Arguments Nat.div : simpl never.
Arguments Nat.modulo : simpl never.

(* ------------------------------------------------------------------ list utilities *)
Lemma skipn_skipn' : forall {A} (y x : nat) (l : list A), skipn x (skipn y l) = skipn (y + x) l.
Proof.
  induction y as [|y IH]; intros x l.
  - reflexivity.
  - destruct l as [|a l].
    + cbn [skipn plus]. now rewrite skipn_nil.
    + cbn [skipn plus]. apply IH.
Qed.

Lemma nth_skipn' : forall {A} (o i : nat) (l : list A) d, nth i (skipn o l) d = nth (o + i) l d.
Proof.
  induction o as [|o IH]; intros i l d.
  - reflexivity.
  - destruct l as [|a l].
    + cbn [skipn plus]. now destruct i.
    + cbn [skipn plus nth]. apply IH.
Qed.

Lemma nth_firstn' : forall {A} (w i : nat) (l : list A) d, i < w -> nth i (firstn w l) d = nth i l d.
Proof.
  induction w as [|w IH]; intros i l d Hi.
  - lia.
  - destruct l as [|a l].
    + reflexivity.
    + destruct i as [|i]. reflexivity. cbn [firstn nth]. apply IH. lia.
Qed.

Lemma list_eqb_refl : forall l, list_eqb l l = true.
Proof. induction l as [|a l IH]. reflexivity. cbn [list_eqb]. now rewrite N.eqb_refl, IH. Qed.

Lemma list_eqb_eq : forall a b, list_eqb a b = true -> a = b.
Proof.
  induction a as [|x a IH]; intros [|y b] E; cbn [list_eqb] in E; try discriminate.
  - reflexivity.
  - apply andb_true_iff in E. destruct E as [E1 E2]. apply N.eqb_eq in E1. f_equal; auto.
Qed.

Lemma filter_all_in : forall {A} (P : A -> bool) l, (forall x, In x l -> P x = true) -> filter P l = l.
Proof.
  intros A P l. induction l as [|x l IH]; intro HP. reflexivity.
  cbn [filter]. rewrite HP by (left; reflexivity). f_equal. apply IH.
  intros y Hy. apply HP. right. exact Hy.
Qed.

(* ------------------------------------------------------------------ one reader step *)
Inductive sres :=
| SStop (t : option tail)
| SCont (o' : nat) (st' : rst)
| SDeliv (r : list byte) (o' : nat) (st' : rst).

Section Proofs.
Variable B : nat.
Variable crc : N -> list byte -> list byte.
Variable compress : list byte -> list byte.
Variable decompress : list byte -> option (list byte).

Definition pstep (s : list byte) (o base : nat) (st : rst) : sres :=
  if length s <? H then SStop None else
  let c := firstn 4 s in
  let len := N.to_nat (nth 4 s 0%N) * 256 + N.to_nat (nth 5 s 0%N) in
  let ty := nth 6 s 0%N in
  let o1 := o + H in
  let rem1 := length s - H in
  if negb (valid_type ty) then SStop (Some (Corrupt W_BADTYPE (base + o1))) else
  if N.eqb ty T_EMPTY then
    if all_zero (skipn H s) then SStop None else SStop (Some (Corrupt W_PADDING (base + o1)))
  else if N.eqb ty T_SETCOMP then
    if rem1 <? len then SStop (Some (Corrupt W_COMPTRUNC (base + o1)))
    else if negb (list_eqb (crc ty (firstn len (skipn H s))) c) then SStop (Some (Corrupt W_CHECKSUM (base + o1)))
    else if Nat.eqb len 0 then SCont o1 st
    else
      let cb := nth H s 0%N in
      if N.eqb cb 0 then SCont (o1 + len) {| acc := acc st; idx := idx st; comp := false |}
      else if N.eqb cb 1 then SCont (o1 + len) {| acc := acc st; idx := idx st; comp := true |}
      else SStop (Some (Corrupt W_COMPTYPE (base + o1 + len)))
  else
    if negb (type_ok ty (idx st)) then SStop (Some (Corrupt W_SEQUENCE (base + o1))) else
    if rem1 <? len then SStop (Some (Corrupt W_LENGTH (base + o1))) else
    let d := firstn len (skipn H s) in
    if negb (list_eqb (crc ty d) c) then SStop (Some (Corrupt W_CHECKSUM (base + o1))) else
    let acc' := acc st ++ d in
    let o2 := o1 + len in
    if N.eqb ty T_LAST || N.eqb ty T_FULL then
      let r := if comp st && negb (match acc' with [] => true | _ => false end)
               then decompress acc' else Some acc' in
      match r with
      | None => SStop (Some (Corrupt W_DECOMPRESS (base + o2)))
      | Some rec => SDeliv rec o2 {| acc := []; idx := 0; comp := comp st |}
      end
    else SCont o2 {| acc := acc'; idx := S (idx st); comp := comp st |}.

Notation pblock := (parse_block crc decompress).

Definition after_step (f : nat) (blk : list byte) (base : nat) (st : rst) (r : sres)
  : list (list byte * nat) * rst * option tail :=
  match r with
  | SStop t => ([], st, t)
  | SCont o' st' => pblock f blk o' base st'
  | SDeliv r o' st' =>
      let '(out, st'', t) := pblock f blk o' base st' in
      ((r, base + o') :: out, st'', t)
  end.

Lemma parse_block_S : forall f blk o base st,
  pblock (S f) blk o base st = after_step f blk base st (pstep (skipn o blk) o base st).
Proof.
  intros f blk o base st.
  cbn [parse_block]. unfold pstep, after_step.
  rewrite !Nat.sub_add_distr.
  rewrite <- !skipn_skipn'.
  rewrite <- !nth_skipn'.
  rewrite <- !skipn_length.
  generalize (skipn o blk) as s. intro s.
  repeat match goal with
  | |- context [if ?c then _ else _] => destruct c
  | |- context [match ?c with None => _ | Some _ => _ end] => destruct c
  end; reflexivity.
Qed.

(* boolean hypotheses to propositions *)
Ltac b2p :=
  repeat match goal with
  | E : (_ <? _) = true |- _ => apply Nat.ltb_lt in E
  | E : (_ <? _) = false |- _ => apply Nat.ltb_ge in E
  | E : (_ <=? _) = true |- _ => apply Nat.leb_le in E
  | E : (_ <=? _) = false |- _ => apply Nat.leb_gt in E
  | E : Nat.eqb _ _ = true |- _ => apply Nat.eqb_eq in E
  | E : Nat.eqb _ _ = false |- _ => apply Nat.eqb_neq in E
  | E : negb _ = true |- _ => apply negb_true_iff in E
  | E : negb _ = false |- _ => apply negb_false_iff in E
  end.

(* case analysis following the head conditional of a hypothesis [Hs : (if c then _ else _) = _] *)
Ltac dtop Hs :=
  match type of Hs with
  | (if ?c then _ else _) = _ => let E := fresh "E" in destruct c eqn:E
  | (match ?c with None => _ | Some _ => _ end) = _ => let E := fresh "E" in destruct c eqn:E
  end.

Lemma pstep_bounds : forall s o base st,
  match pstep s o base st with
  | SStop _ => True
  | SCont o' _ => 7 <= length s /\ o + 7 <= o' /\ o' <= o + length s
  | SDeliv _ o' _ => 7 <= length s /\ o + 7 <= o' /\ o' <= o + length s
  end.
Proof.
  intros s o base st.
  destruct (pstep s o base st) as [t|o' st'|r o' st'] eqn:Hs; [exact I| |];
  unfold pstep in Hs; cbv zeta in Hs;
  repeat (dtop Hs; try discriminate Hs); inversion Hs; subst; b2p; unfold H in *; lia.
Qed.

Lemma pstep_short : forall s o base st, length s < 7 -> pstep s o base st = SStop None.
Proof.
  intros s o base st Hl. unfold pstep. destruct (length s <? H) eqn:E. reflexivity.
  b2p. unfold H in *. lia.
Qed.

(* ---------------------------------------------------------- fuel sufficiency *)
Lemma pblock_fuel : forall f1 f2 blk o base st,
  length blk - o < 7 * f1 -> length blk - o < 7 * f2 ->
  pblock f1 blk o base st = pblock f2 blk o base st.
Proof.
  induction f1 as [|f1 IH]; intros f2 blk o base st H1 H2.
  - lia.
  - destruct f2 as [|f2]. lia.
    rewrite !parse_block_S.
    pose proof (pstep_bounds (skipn o blk) o base st) as Hb.
    rewrite skipn_length in Hb.
    destruct (pstep (skipn o blk) o base st) as [t|o' st'|r o' st']; cbn [after_step].
    + reflexivity.
    + apply IH; lia.
    + rewrite (IH f2); [reflexivity| lia | lia].
Qed.

(* fuel-free reader of one block *)
Definition pb (blk : list byte) (o base : nat) (st : rst) := pblock (S (length blk)) blk o base st.

Definition after_pb (blk : list byte) (base : nat) (st : rst) (r : sres)
  : list (list byte * nat) * rst * option tail :=
  match r with
  | SStop t => ([], st, t)
  | SCont o' st' => pb blk o' base st'
  | SDeliv r o' st' =>
      let '(out, st'', t) := pb blk o' base st' in
      ((r, base + o') :: out, st'', t)
  end.

Lemma pb_eq : forall blk o base st,
  pb blk o base st = after_pb blk base st (pstep (skipn o blk) o base st).
Proof.
  intros blk o base st. unfold pb. rewrite parse_block_S.
  pose proof (pstep_bounds (skipn o blk) o base st) as Hb.
  rewrite skipn_length in Hb.
  destruct (pstep (skipn o blk) o base st) as [t|o' st'|r o' st']; cbn [after_step after_pb].
  - reflexivity.
  - apply pblock_fuel; lia.
  - unfold pb. rewrite (pblock_fuel (length blk) (S (length blk))); [reflexivity| lia | lia].
Qed.

Lemma pb_len : forall blk base st, blk <> [] -> pblock (length blk) blk 0 base st = pb blk 0 base st.
Proof.
  intros blk base st Hne. unfold pb. apply pblock_fuel; destruct blk; cbn [length] in *; try congruence; lia.
Qed.

(* ---------------------------------------------------------- end offsets (C12 ends) *)
Lemma SSorted_app : forall (l1 l2 : list nat),
  StronglySorted lt l1 -> StronglySorted lt l2 ->
  (forall x y, In x l1 -> In y l2 -> x < y) -> StronglySorted lt (l1 ++ l2).
Proof.
  induction l1 as [|a l1 IH]; intros l2 S1 S2 Hlt.
  - exact S2.
  - cbn [app]. apply StronglySorted_inv in S1. destruct S1 as [S1 F1].
    constructor.
    + apply IH; auto. intros x y Hx Hy. apply Hlt; [right; exact Hx | exact Hy].
    + apply Forall_app. split. exact F1.
      apply Forall_forall. intros y Hy. apply Hlt; [left; reflexivity | exact Hy].
Qed.

Lemma pblock_ends : forall f blk o base st out st' t,
  pblock f blk o base st = (out, st', t) ->
  StronglySorted lt (map snd out) /\
  Forall (fun e => base + o < e /\ e <= base + length blk) (map snd out).
Proof.
  induction f as [|f IH]; intros blk o base st out st' t Hp.
  - cbn [parse_block] in Hp. inversion Hp; subst. split; constructor.
  - rewrite parse_block_S in Hp.
    pose proof (pstep_bounds (skipn o blk) o base st) as Hb. rewrite skipn_length in Hb.
    destruct (pstep (skipn o blk) o base st) as [t0|o' st0|r o' st0]; cbn [after_step] in Hp.
    + inversion Hp; subst. split; constructor.
    + apply IH in Hp. destruct Hp as [S1 F1]. split. exact S1.
      eapply Forall_impl; [|exact F1]. cbv beta. intros e He. lia.
    + destruct (pblock f blk o' base st0) as [[out1 st1] t1] eqn:Hp1.
      inversion Hp; subst. apply IH in Hp1. destruct Hp1 as [S1 F1].
      cbn [map snd]. split.
      * constructor. exact S1. eapply Forall_impl; [|exact F1]. cbv beta. intros e He. lia.
      * constructor. lia. eapply Forall_impl; [|exact F1]. cbv beta. intros e He. lia.
Qed.

Notation rblocks := (read_blocks crc decompress).

Lemma rblocks_ends : forall blks base st out t,
  rblocks blks base st = (out, t) ->
  StronglySorted lt (map snd out) /\
  Forall (fun e => base < e /\ e <= base + length (concat blks)) (map snd out).
Proof.
  induction blks as [|blk rest IH]; intros base st out t Hr.
  - cbn [read_blocks] in Hr. inversion Hr; subst. split; constructor.
  - cbn [read_blocks] in Hr.
    destruct (pblock (length blk) blk 0 base st) as [[o1 st1] stop] eqn:Hp.
    apply pblock_ends in Hp. destruct Hp as [S1 F1].
    cbn [concat]. rewrite app_length.
    destruct stop as [t1|].
    + inversion Hr; subst. split. exact S1.
      eapply Forall_impl; [|exact F1]. cbv beta; intros e He; lia.
    + destruct (rblocks rest (base + length blk) st1) as [out2 t2] eqn:Hr2.
      inversion Hr; subst. apply IH in Hr2. destruct Hr2 as [S2 F2].
      rewrite map_app. split.
      * apply SSorted_app; auto. intros x y Hx Hy.
        rewrite Forall_forall in F1, F2. apply F1 in Hx. apply F2 in Hy. lia.
      * apply Forall_app. split; (eapply Forall_impl; [| eassumption]); cbv beta; intros e He; lia.
Qed.

Lemma chunks_concat : 0 < B -> forall n l, length l <= n -> concat (chunks B n l) = l.
Proof.
  intros HB. induction n as [|n IH]; intros l Hl.
  - destruct l; cbn [length] in Hl; [reflexivity | lia].
  - destruct l as [|a l]. reflexivity.
    cbn [chunks concat]. rewrite IH. apply firstn_skipn.
    rewrite skipn_length. cbn [length] in *. lia.
Qed.

Lemma read_all_ends : 0 < B -> forall f,
  StronglySorted lt (map snd (fst (read_all B crc decompress f))) /\
  Forall (fun e => 0 < e /\ e <= length f) (map snd (fst (read_all B crc decompress f))).
Proof.
  intros HB f. unfold read_all.
  destruct (rblocks (chunks B (length f) f) 0 rst0) as [out t] eqn:Hr.
  apply rblocks_ends in Hr. rewrite chunks_concat in Hr by auto. exact Hr.
Qed.

(* ---------------------------------------------------------- locality of one step *)
Lemma firstn_agree : forall (s s' : list byte) w m,
  firstn w s = firstn w s' -> m <= w -> firstn m s' = firstn m s.
Proof.
  intros s s' w m Hag Hm.
  rewrite <- (Nat.min_l m w) by lia. rewrite <- !firstn_firstn. now rewrite Hag.
Qed.

Lemma firstn_agree_len : forall (s s' : list byte) w m,
  firstn w s = firstn w s' -> m <= w -> m <= length s -> m <= length s'.
Proof.
  intros s s' w m Hag Hm Hl.
  pose proof (firstn_agree s s' w m Hag Hm) as F.
  assert (L : length (firstn m s') = length (firstn m s)) by now rewrite F.
  rewrite !firstn_length in L. lia.
Qed.

Lemma pstep_local : forall s s' o base st w,
  firstn w s = firstn w s' ->
  match pstep s o base st with
  | SStop _ => True
  | SCont o' st' => o' <= o + w -> pstep s' o base st = SCont o' st'
  | SDeliv r o' st' => o' <= o + w -> pstep s' o base st = SDeliv r o' st'
  end.
Proof.
  intros s s' o base st w Hag.
  destruct (pstep s o base st) as [t|o' st'|r o' st'] eqn:Hs; [exact I| |]; intro Hle;
  unfold pstep in Hs; unfold H in Hs; cbv zeta in Hs;
  remember (N.to_nat (nth 4 s 0%N) * 256 + N.to_nat (nth 5 s 0%N)) as len eqn:Hlen;
  repeat (dtop Hs; try discriminate Hs); inversion Hs; subst;
  remember (N.to_nat (nth 4 s 0%N) * 256 + N.to_nat (nth 5 s 0%N)) as len eqn:Hlen;
  (assert (Hw : 7 + len <= w /\ 7 + len <= length s) by (b2p; lia));
  destruct Hw as [Hw1 Hw2];
  pose proof (firstn_agree_len s s' w (7 + len) Hag Hw1 Hw2) as L1;
  pose proof (firstn_agree s s' w (7 + len) Hag Hw1) as F1;
  (assert (N_ : forall i d, i < 7 + len -> nth i s' d = nth i s d)
    by (intros i d Hi; rewrite <- (nth_firstn' (7 + len) i s') by exact Hi;
        rewrite F1; apply nth_firstn'; exact Hi));
  (assert (C_ : firstn 4 s' = firstn 4 s) by (apply (firstn_agree s s' w); [exact Hag | lia]));
  (assert (D_ : firstn len (skipn 7 s') = firstn len (skipn 7 s))
    by (rewrite !firstn_skipn_comm; now rewrite F1));
  unfold pstep; unfold H; cbv zeta;
  rewrite !(N_ 4), !(N_ 5), !(N_ 6) by lia; rewrite <- Hlen; rewrite C_, ?D_;
  (replace (length s' <? 7) with false by (symmetry; apply Nat.ltb_ge; lia));
  try (replace (length s' - 7 <? len) with false by (symmetry; apply Nat.ltb_ge; lia));
  try (rewrite !(N_ 7) by (b2p; lia));
  repeat match goal with
  | E : ?c = _ |- context [if ?c then _ else _] => rewrite E
  | E : ?c = _ |- context [match ?c with None => _ | Some _ => _ end] => rewrite E
  end; reflexivity.
Qed.

(* ---------------------------------------------------------- prefix stability, one block *)
Definition far (lim : nat) (r : sres) : Prop :=
  match r with
  | SStop _ => True
  | SCont o' _ => lim < o'
  | SDeliv _ o' _ => lim < o'
  end.

Lemma far_dec : forall lim r, far lim r \/ ~ far lim r.
Proof. intros lim [t|o' st'|r o' st']; cbn [far]; [left; exact I | lia | lia]. Qed.

Lemma pstep_dichotomy : forall s s' o base st w,
  firstn w s = firstn w s' ->
  (pstep s o base st = pstep s' o base st /\ ~ far (o + w) (pstep s o base st)) \/
  (far (o + w) (pstep s o base st) /\ far (o + w) (pstep s' o base st)).
Proof.
  intros s s' o base st w Hag.
  pose proof (pstep_local s s' o base st w Hag) as L1.
  pose proof (pstep_local s' s o base st w (eq_sym Hag)) as L2.
  destruct (far_dec (o + w) (pstep s o base st)) as [F1|F1].
  - destruct (far_dec (o + w) (pstep s' o base st)) as [F2|F2].
    + right. split; assumption.
    + exfalso. destruct (pstep s' o base st) as [t|o' st'|r o' st']; cbn [far] in F2.
      * apply F2. exact I.
      * rewrite L2 in F1 by lia. cbn [far] in F1. lia.
      * rewrite L2 in F1 by lia. cbn [far] in F1. lia.
  - left. split; [|exact F1].
    destruct (pstep s o base st) as [t|o' st'|r o' st']; cbn [far] in F1.
    + exfalso. apply F1. exact I.
    + symmetry. apply L1. lia.
    + symmetry. apply L1. lia.
Qed.

Definition upto (p : nat) (out : list (list byte * nat)) := filter (fun r => snd r <=? p) out.

Lemma upto_nil_above : forall p out,
  Forall (fun e => p < e) (map snd out) -> upto p out = [].
Proof.
  intros p out. induction out as [|x out IH]; intro F. reflexivity.
  cbn [map] in F. inversion F as [|a l Hx Hrest]; subst.
  unfold upto. cbn [filter]. destruct (snd x <=? p) eqn:E. b2p. lia. apply IH. exact Hrest.
Qed.

Lemma pblock_quiet : forall f blk o base st out st' t p,
  pblock f blk o base st = (out, st', t) -> p <= base + o -> upto p out = [].
Proof.
  intros f blk o base st out st' t p Hp Hle. apply upto_nil_above.
  apply pblock_ends in Hp. destruct Hp as [_ F].
  eapply Forall_impl; [|exact F]. cbv beta. intros e He. lia.
Qed.

Lemma after_step_quiet : forall f blk base st r out st' t p,
  after_step f blk base st r = (out, st', t) -> far (p - base) r -> upto p out = [].
Proof.
  intros f blk base st r out st' t p Ha Hf.
  destruct r as [t0|o' st0|r o' st0]; cbn [after_step far] in *.
  - inversion Ha; subst. reflexivity.
  - eapply pblock_quiet. exact Ha. lia.
  - destruct (pblock f blk o' base st0) as [[out1 st1] t1] eqn:Hp1.
    inversion Ha; subst. unfold upto. cbn [filter snd].
    destruct (base + o' <=? p) eqn:E. b2p. lia.
    eapply pblock_quiet. exact Hp1. lia.
Qed.

Lemma pblock_prefix : forall f blk blk' o base st q out st1 t out' st1' t',
  firstn q blk = firstn q blk' ->
  pblock f blk o base st = (out, st1, t) ->
  pblock f blk' o base st = (out', st1', t') ->
  upto (base + q) out = upto (base + q) out'.
Proof.
  induction f as [|f IH]; intros blk blk' o base st q out st1 t out' st1' t' Hag Hp Hp'.
  - cbn [parse_block] in Hp, Hp'. inversion Hp; inversion Hp'; subst. reflexivity.
  - destruct (le_lt_dec o q) as [Hoq|Hoq].
    + rewrite parse_block_S in Hp, Hp'.
      assert (Hag' : firstn (q - o) (skipn o blk) = firstn (q - o) (skipn o blk')).
      { rewrite !firstn_skipn_comm. replace (o + (q - o)) with q by lia. now rewrite Hag. }
      destruct (pstep_dichotomy _ _ o base st _ Hag') as [[Heq Hnf]|[Hf Hf']].
      * rewrite <- Heq in Hp'.
        destruct (pstep (skipn o blk) o base st) as [t0|o' st0|r o' st0]; cbn [after_step] in Hp, Hp'.
        -- inversion Hp; inversion Hp'; subst. reflexivity.
        -- eapply IH; eassumption.
        -- destruct (pblock f blk o' base st0) as [[out1 st2] t2] eqn:Hp1.
           destruct (pblock f blk' o' base st0) as [[out1' st2'] t2'] eqn:Hp1'.
           inversion Hp; inversion Hp'; subst. unfold upto. cbn [filter snd].
           pose proof (IH _ _ _ _ _ _ _ _ _ _ _ _ Hag Hp1 Hp1') as IH1. unfold upto in IH1.
           rewrite IH1. reflexivity.
      * replace (o + (q - o)) with (base + q - base) in Hf, Hf' by lia.
        rewrite (after_step_quiet _ _ _ _ _ _ _ _ _ Hp Hf).
        rewrite (after_step_quiet _ _ _ _ _ _ _ _ _ Hp' Hf'). reflexivity.
    + rewrite (pblock_quiet _ _ _ _ _ _ _ _ (base + q) Hp) by lia.
      rewrite (pblock_quiet _ _ _ _ _ _ _ _ (base + q) Hp') by lia. reflexivity.
Qed.

(* ---------------------------------------------------------- fuel-free block reader of a flat file *)
Hypothesis HB : 7 < B.

Lemma chunks_fuel : forall n m l, length l <= n -> length l <= m -> chunks B n l = chunks B m l.
Proof.
  induction n as [|n IH]; intros m l Hn Hm.
  - destruct l; cbn [length] in Hn; [|lia]. destruct m; reflexivity.
  - destruct m as [|m].
    + destruct l; cbn [length] in Hm; [|lia]. reflexivity.
    + destruct l as [|a l]. reflexivity.
      cbn [chunks]. f_equal. apply IH; rewrite skipn_length; cbn [length] in *; lia.
Qed.

Definition rb (l : list byte) (base : nat) (st : rst) : list (list byte * nat) * tail :=
  rblocks (chunks B (length l) l) base st.

Definition rb_body (l : list byte) (base : nat) (st : rst) : list (list byte * nat) * tail :=
  let '(out, st', stop) := pb (firstn B l) 0 base st in
  match stop with
  | Some t => (out, t)
  | None => let '(out2, t) := rb (skipn B l) (base + length (firstn B l)) st' in (out ++ out2, t)
  end.

Lemma rb_nil : forall base st, rb [] base st = ([], Eof).
Proof. reflexivity. Qed.

Lemma rb_cons : forall l base st, l <> [] -> rb l base st = rb_body l base st.
Proof.
  intros l base st Hne. unfold rb, rb_body.
  destruct l as [|a l]. congruence.
  cbn [length chunks read_blocks].
  rewrite pb_len.
  2:{ destruct B as [|b]. lia. cbn [firstn]. discriminate. }
  rewrite (chunks_fuel (length l) (length (skipn B (a :: l)))).
  - reflexivity.
  - rewrite skipn_length. cbn [length]. lia.
  - lia.
Qed.

Lemma read_all_rb : forall f, read_all B crc decompress f = rb f 0 rst0.
Proof. reflexivity. Qed.

Lemma rb_ends : forall l base st,
  StronglySorted lt (map snd (fst (rb l base st))) /\
  Forall (fun e => base < e /\ e <= base + length l) (map snd (fst (rb l base st))).
Proof.
  intros l base st. unfold rb.
  destruct (rblocks (chunks B (length l) l) base st) as [out t] eqn:Hr.
  apply rblocks_ends in Hr. rewrite chunks_concat in Hr by lia. exact Hr.
Qed.

Lemma rb_quiet : forall l base st p, p <= base -> upto p (fst (rb l base st)) = [].
Proof.
  intros l base st p Hle. apply upto_nil_above.
  destruct (rb_ends l base st) as [_ F].
  eapply Forall_impl; [|exact F]. cbv beta. intros e He. lia.
Qed.

Lemma upto_app : forall p a b, upto p (a ++ b) = upto p a ++ upto p b.
Proof. intros. apply filter_app. Qed.

(* only the first block matters below base + B *)
Lemma rb_upto_first : forall l base st p,
  l <> [] -> p < base + B ->
  upto p (fst (rb l base st)) = upto p (fst (fst (pb (firstn B l) 0 base st))).
Proof.
  intros l base st p Hne Hp. rewrite rb_cons by exact Hne. unfold rb_body.
  destruct (pb (firstn B l) 0 base st) as [[out st'] stop].
  destruct stop as [t|]. reflexivity.
  destruct (rb (skipn B l) (base + length (firstn B l)) st') as [out2 t] eqn:Hr.
  cbn [fst]. rewrite upto_app.
  replace (upto p out2) with (@nil (list byte * nat)). now rewrite app_nil_r.
  symmetry.
  destruct (skipn B l) as [|a r] eqn:Hsk.
  - rewrite rb_nil in Hr. inversion Hr. reflexivity.
  - assert (Hlen : B < length l).
    { assert (L : length (skipn B l) = length (a :: r)) by now rewrite Hsk.
      rewrite skipn_length in L. cbn [length] in L. lia. }
    replace out2 with (fst (rb (a :: r) (base + length (firstn B l)) st')) by now rewrite Hr.
    apply rb_quiet. rewrite firstn_length. lia.
Qed.

Lemma rb_prefix : forall n l l' base st p,
  length l <= n ->
  firstn (p - base) l = firstn (p - base) l' ->
  upto p (fst (rb l base st)) = upto p (fst (rb l' base st)).
Proof.
  induction n as [|n IH]; intros l l' base st p Hn Hag.
  - destruct l; cbn [length] in Hn; [|lia].
    destruct l' as [|a' l']. reflexivity.
    rewrite firstn_nil in Hag. destruct (p - base) eqn:Epb; [|discriminate Hag].
    rewrite !rb_quiet by lia. reflexivity.
  - destruct l as [|a l].
    { destruct l' as [|a' l']. reflexivity.
      rewrite firstn_nil in Hag. destruct (p - base) eqn:Epb; [|discriminate Hag].
      rewrite !rb_quiet by lia. reflexivity. }
    destruct l' as [|a' l'].
    { rewrite firstn_nil in Hag. destruct (p - base) eqn:Epb; [|discriminate Hag].
      rewrite !rb_quiet by lia. reflexivity. }
    destruct (le_lt_dec B (p - base)) as [Hq|Hq].
    + (* the whole first block is inside the common prefix *)
      assert (Hblk : firstn B (a' :: l') = firstn B (a :: l)) by (eapply firstn_agree; eassumption).
      rewrite !rb_cons by discriminate. unfold rb_body. rewrite Hblk.
      destruct (pb (firstn B (a :: l)) 0 base st) as [[out st'] stop].
      destruct stop as [t|]. reflexivity.
      set (base' := base + length (firstn B (a :: l))).
      assert (IH1 : upto p (fst (rb (skipn B (a :: l)) base' st')) =
                    upto p (fst (rb (skipn B (a' :: l')) base' st'))).
      { apply IH.
        - rewrite skipn_length. cbn [length] in *. lia.
        - destruct (le_lt_dec B (length (a :: l))) as [Hl|Hl].
          + assert (Eb : p - base' = p - base - B).
            { unfold base'. rewrite firstn_length. lia. }
            rewrite Eb. rewrite !firstn_skipn_comm.
            replace (B + (p - base - B)) with (p - base) by lia. now rewrite Hag.
          + assert (L' : length (firstn B (a' :: l')) = length (firstn B (a :: l))) by now rewrite Hblk.
            rewrite !firstn_length in L'.
            rewrite (skipn_all2 (a :: l)) by lia.
            rewrite (skipn_all2 (a' :: l')) by lia. reflexivity. }
      destruct (rb (skipn B (a :: l)) base' st') as [out2 t2].
      destruct (rb (skipn B (a' :: l')) base' st') as [out2' t2'].
      cbn [fst] in *. rewrite !upto_app. now rewrite IH1.
    + (* the common prefix ends inside the first block *)
      rewrite !rb_upto_first by (try discriminate; lia).
      assert (Hblk : firstn (p - base) (firstn B (a :: l)) = firstn (p - base) (firstn B (a' :: l'))).
      { rewrite !firstn_firstn. rewrite Nat.min_l by lia. exact Hag. }
      unfold pb.
      set (blk := firstn B (a :: l)) in *. set (blk' := firstn B (a' :: l')) in *.
      set (F := S (Nat.max (length blk) (length blk'))).
      rewrite (pblock_fuel (S (length blk)) F) by lia.
      rewrite (pblock_fuel (S (length blk')) F) by lia.
      destruct (pblock F blk 0 base st) as [[out st1] t] eqn:Hp.
      destruct (pblock F blk' 0 base st) as [[out' st1'] t'] eqn:Hp'.
      cbn [fst].
      destruct (le_lt_dec base p) as [Hbp|Hbp].
      * replace p with (base + (p - base)) by lia. eapply pblock_prefix; eassumption.
      * rewrite (pblock_quiet _ _ _ _ _ _ _ _ p Hp) by lia.
        rewrite (pblock_quiet _ _ _ _ _ _ _ _ p Hp') by lia. reflexivity.
Qed.

(* ---------------------------------------------------------- reading from a position (block k, offset o) *)
Definition rb_body_at (l : list byte) (o base : nat) (st : rst) : list (list byte * nat) * tail :=
  let '(out, st', stop) := pb (firstn B l) o base st in
  match stop with
  | Some t => (out, t)
  | None => let '(out2, t) := rb (skipn B l) (base + length (firstn B l)) st' in (out ++ out2, t)
  end.

Definition read_at (file : list byte) (k o : nat) (st : rst) : list (list byte * nat) * tail :=
  match skipn (k * B) file with
  | [] => ([], Eof)
  | _ :: _ => rb_body_at (skipn (k * B) file) o (k * B) st
  end.

Definition prepend (outs : list (list byte * nat)) (r : list (list byte * nat) * tail) :=
  (outs ++ fst r, snd r).

Lemma prepend_nil : forall r, prepend [] r = r.
Proof. intros [a b]. reflexivity. Qed.

Lemma prepend_prepend : forall a b r, prepend a (prepend b r) = prepend (a ++ b) r.
Proof. intros a b [x y]. unfold prepend. cbn [fst snd]. now rewrite app_assoc. Qed.

Lemma read_all_read_at : forall f, read_all B crc decompress f = read_at f 0 0 rst0.
Proof.
  intros f. rewrite read_all_rb. unfold read_at. cbn [Nat.mul skipn].
  destruct f as [|a f]. reflexivity. rewrite rb_cons by discriminate. reflexivity.
Qed.

Lemma read_at_step : forall file k o st,
  skipn (k * B) file <> [] ->
  match pstep (skipn o (firstn B (skipn (k * B) file))) o (k * B) st with
  | SStop _ => True
  | SCont o' st' => read_at file k o st = read_at file k o' st'
  | SDeliv r o' st' => read_at file k o st = prepend [(r, k * B + o')] (read_at file k o' st')
  end.
Proof.
  intros file k o st Hne. unfold read_at.
  destruct (skipn (k * B) file) as [|a l] eqn:Hl. congruence.
  unfold rb_body_at. rewrite (pb_eq _ o).
  destruct (pstep (skipn o (firstn B (a :: l))) o (k * B) st) as [t|o' st'|r o' st']; cbn [after_pb].
  - exact I.
  - reflexivity.
  - destruct (pb (firstn B (a :: l)) o' (k * B) st') as [[out st''] stop].
    destruct stop as [t|]. reflexivity.
    destruct (rb (skipn B (a :: l)) (k * B + length (firstn B (a :: l))) st'') as [out2 t2].
    reflexivity.
Qed.

(* fewer than 7 bytes left in the block: the reader goes to the next block *)
Lemma read_at_next : forall file k o st,
  B - o < 7 -> read_at file k o st = read_at file (S k) 0 st.
Proof.
  intros file k o st Hlo. unfold read_at.
  assert (Hsk : skipn (S k * B) file = skipn B (skipn (k * B) file)).
  { rewrite skipn_skipn'. f_equal. lia. }
  rewrite Hsk.
  destruct (skipn (k * B) file) as [|a l] eqn:Hl.
  - rewrite skipn_nil. reflexivity.
  - unfold rb_body_at at 1. rewrite pb_eq.
    rewrite pstep_short.
    2:{ rewrite skipn_length, firstn_length. lia. }
    cbn [after_pb].
    destruct (skipn B (a :: l)) as [|a2 l2] eqn:Hl2.
    + rewrite rb_nil. reflexivity.
    + assert (Hlen : B < length (a :: l)).
      { assert (L : length (skipn B (a :: l)) = length (a2 :: l2)) by now rewrite Hl2.
        rewrite skipn_length in L. cbn [length] in L. cbn [length]. lia. }
      rewrite firstn_length. rewrite Nat.min_l by lia.
      replace (k * B + B) with (S k * B) by lia.
      rewrite rb_cons by discriminate. unfold rb_body, rb_body_at.
      destruct (pb (firstn B (a2 :: l2)) 0 (S k * B) st) as [[out st'] stop].
      destruct stop as [t|]. reflexivity.
      destruct (rb (skipn B (a2 :: l2)) (S k * B + length (firstn B (a2 :: l2))) st') as [out2 t2].
      reflexivity.
Qed.

(* at the end of the file: end of log *)
Lemma read_at_end : forall file k o st,
  length file = k * B + o -> o <= B -> read_at file k o st = ([], Eof).
Proof.
  intros file k o st Hlen Ho. unfold read_at.
  destruct (skipn (k * B) file) as [|a l] eqn:Hl. reflexivity.
  assert (L : length (a :: l) = o).
  { rewrite <- Hl. rewrite skipn_length. lia. }
  unfold rb_body_at. rewrite pb_eq. rewrite pstep_short.
  2:{ rewrite skipn_length, firstn_length. lia. }
  cbn [after_pb]. rewrite (skipn_all2 (a :: l)) by lia. rewrite rb_nil. reflexivity.
Qed.

(* ---------------------------------------------------------- the reader on a record the writer framed *)
Hypothesis Hcrc : forall t d, length (crc t d) = 4.

Definition data_type (ty : N) : Prop := ty = T_FULL \/ ty = T_FIRST \/ ty = T_MIDDLE \/ ty = T_LAST.

Lemma be_len : forall n, N.to_nat (N.of_nat (n / 256)) * 256 + N.to_nat (N.of_nat (n mod 256)) = n.
Proof.
  intros n. rewrite !Nat2N.id. pose proof (Nat.div_mod n 256). lia.
Qed.

Lemma pstep_record : forall ty d s2 o base st,
  data_type ty -> type_ok ty (idx st) = true -> comp st = false ->
  pstep (phys crc ty d ++ s2) o base st =
  if N.eqb ty T_LAST || N.eqb ty T_FULL
  then SDeliv (acc st ++ d) (o + 7 + length d) {| acc := []; idx := 0; comp := false |}
  else SCont (o + 7 + length d) {| acc := acc st ++ d; idx := S (idx st); comp := false |}.
Proof.
  intros ty d s2 o base st Hty Hok Hcomp.
  unfold phys, header.
  pose proof (Hcrc ty d) as Hc.
  remember (crc ty d) as c eqn:Ec.
  destruct c as [|c0 [|c1 [|c2 [|c3 [|c4 c]]]]]; cbn [length] in Hc; try discriminate Hc.
  cbn [app]. unfold pstep. unfold H.
  cbn [length nth firstn skipn].
  rewrite be_len.
  rewrite app_length.
  rewrite firstn_app, Nat.sub_diag, firstn_O, app_nil_r, firstn_all.
  rewrite <- Ec. rewrite list_eqb_refl. rewrite Hok. rewrite Hcomp.
  replace (S (S (S (S (S (S (S (length d + length s2))))))) <? 7) with false
    by (symmetry; apply Nat.ltb_ge; lia).
  replace (S (S (S (S (S (S (S (length d + length s2))))))) - 7 <? length d) with false
    by (symmetry; apply Nat.ltb_ge; lia).
  cbn [negb andb].
  destruct Hty as [E|[E|[E|E]]]; subst ty; reflexivity.
Qed.

Lemma block_at : forall (P X Sf : list byte) k o,
  length P = k * B + o -> o + length X <= B ->
  skipn o (firstn B (skipn (k * B) (P ++ X ++ Sf))) = X ++ firstn (B - o - length X) Sf.
Proof.
  intros P X Sf k o HP Hfit.
  rewrite skipn_firstn_comm. rewrite skipn_skipn'.
  rewrite skipn_app. rewrite skipn_all2 by lia. cbn [app].
  replace (k * B + o - length P) with 0 by lia. rewrite skipn_O.
  rewrite firstn_app. rewrite firstn_all2 by lia. reflexivity.
Qed.

Lemma skipn_block_nonnil : forall (P X Sf : list byte) k o,
  length P = k * B + o -> X <> [] -> skipn (k * B) (P ++ X ++ Sf) <> [].
Proof.
  intros P X Sf k o HP HX Hnil.
  assert (L : length (skipn (k * B) (P ++ X ++ Sf)) = 0) by now rewrite Hnil.
  rewrite skipn_length, !app_length in L.
  destruct X; [congruence|]. cbn [length] in L. lia.
Qed.

Lemma phys_length : forall ty d, length (phys crc ty d) = 7 + length d.
Proof.
  intros ty d. unfold phys, header. rewrite !app_length, Hcrc. cbn [length]. lia.
Qed.

Lemma read_at_record : forall P ty d Sf k o st,
  length P = k * B + o -> o + 7 + length d <= B ->
  data_type ty -> type_ok ty (idx st) = true -> comp st = false ->
  read_at (P ++ phys crc ty d ++ Sf) k o st =
  if N.eqb ty T_LAST || N.eqb ty T_FULL
  then prepend [(acc st ++ d, k * B + (o + 7 + length d))]
               (read_at (P ++ phys crc ty d ++ Sf) k (o + 7 + length d) rst0)
  else read_at (P ++ phys crc ty d ++ Sf) k (o + 7 + length d)
               {| acc := acc st ++ d; idx := S (idx st); comp := false |}.
Proof.
  intros P ty d Sf k o st HP Hfit Hty Hok Hcomp.
  pose proof (phys_length ty d) as HL.
  assert (Hne : skipn (k * B) (P ++ phys crc ty d ++ Sf) <> []).
  { eapply skipn_block_nonnil. exact HP. intro E. rewrite E in HL. cbn [length] in HL. lia. }
  pose proof (read_at_step _ k o st Hne) as Hstep.
  rewrite block_at in Hstep by (try exact HP; lia).
  rewrite pstep_record in Hstep by assumption.
  destruct (N.eqb ty T_LAST || N.eqb ty T_FULL); exact Hstep.
Qed.

(* ---------------------------------------------------------- the writer *)
Definition off1_of (off : nat) : nat := if B - off <? 7 then 0 else off.
Definition pad_of (off : nat) : list byte := if B - off <? 7 then repeat 0%N (B - off) else [].

Lemma emit_S : forall f off p begin,
  emit B crc (S f) off p begin =
  let off1 := off1_of off in
  let n := Nat.min (length p) (B - off1 - 7) in
  if Nat.eqb n (length p)
  then (pad_of off ++ phys crc (if begin then T_FULL else T_LAST) (firstn n p), off1 + 7 + n)
  else let '(more, off3) := emit B crc f (off1 + 7 + n) (skipn n p) false in
       (pad_of off ++ phys crc (if begin then T_FIRST else T_MIDDLE) (firstn n p) ++ more, off3).
Proof.
  intros f off p begin. cbn [emit]. unfold off1_of, pad_of, H. cbv zeta.
  destruct (B - off <? 7); destruct (Nat.eqb _ (length p)); destruct begin; try reflexivity;
  match goal with |- context [emit B crc f ?a ?b ?c] => destruct (emit B crc f a b c) end;
  rewrite <- app_assoc; reflexivity.
Qed.

Definition need (off : nat) (p : list byte) : nat :=
  2 * length p + (if B - off1_of off - 7 =? 0 then 2 else 1).

Lemma need_step : forall off p n f,
  n = Nat.min (length p) (B - off1_of off - 7) -> n <> length p ->
  need off p <= S f -> need (off1_of off + 7 + n) (skipn n p) <= f.
Proof.
  intros off p n f Hn Hne Hneed. unfold need in *. rewrite skipn_length.
  destruct (B - off1_of off - 7 =? 0) eqn:E1; b2p.
  - assert (N0 : n = 0) by lia. clear Hn. subst n.
    assert (E2 : off1_of (off1_of off + 7 + 0) = 0).
    { unfold off1_of at 1. destruct (B - (off1_of off + 7 + 0) <? 7) eqn:E3; b2p. reflexivity.
      unfold off1_of in *. destruct (B - off <? 7); b2p; lia. }
    rewrite E2. destruct (B - 0 - 7 =? 0) eqn:E4; b2p; lia.
  - destruct (B - off1_of (off1_of off + 7 + n) - 7 =? 0); lia.
Qed.

Lemma type_ok_begin : forall (begin : bool) i t1 t2,
  (if begin then i = 0 else i <> 0) ->
  (t1 = T_FULL \/ t1 = T_FIRST) -> (t2 = T_MIDDLE \/ t2 = T_LAST) ->
  type_ok (if begin then t1 else t2) i = true.
Proof.
  intros begin i t1 t2 Hi H1 H2. destruct begin.
  - subst i. destruct H1; subst t1; reflexivity.
  - destruct i as [|i]. congruence. destruct H2; subst t2; reflexivity.
Qed.

Lemma emit_read : forall fuel p begin off pre k suf st bytes off',
  need off p <= fuel -> off <= B -> length pre = k * B + off ->
  emit B crc fuel off p begin = (bytes, off') ->
  comp st = false -> (if begin then idx st = 0 else idx st <> 0) ->
  exists k', off' <= B /\ length (pre ++ bytes) = k' * B + off' /\
    read_at (pre ++ bytes ++ suf) k off st =
    prepend [(acc st ++ p, k' * B + off')] (read_at (pre ++ bytes ++ suf) k' off' rst0).
Proof.
  induction fuel as [|f IH]; intros p begin off pre k suf st bytes off' Hneed Hoff Hpre Hem Hcomp Hidx.
  - unfold need in Hneed. destruct (B - off1_of off - 7 =? 0) in Hneed; lia.
  - rewrite emit_S in Hem. cbv zeta in Hem.
    assert (Hpad : exists k1, length (pre ++ pad_of off) = k1 * B + off1_of off /\
              off1_of off + 7 <= B /\
              forall file, read_at file k off st = read_at file k1 (off1_of off) st).
    { unfold off1_of, pad_of. destruct (B - off <? 7) eqn:E; b2p.
      - exists (S k). rewrite app_length, repeat_length. split. lia. split. lia.
        intros file. apply read_at_next. exact E.
      - exists k. rewrite app_nil_r. split. lia. split. lia. reflexivity. }
    destruct Hpad as [k1 [Hlen1 [Hfit1 Hrd1]]].
    pose proof (need_step off p _ f eq_refl) as Hneed2.
    remember (off1_of off) as off1 eqn:Eoff1. remember (pad_of off) as pad eqn:Epad.
    remember (Nat.min (length p) (B - off1 - 7)) as n eqn:Endef.
    assert (Hn : length (firstn n p) = n) by (apply firstn_length_le; lia).
    destruct (Nat.eqb n (length p)) eqn:En; b2p.
    + (* last fragment of the record *)
      inversion Hem; subst bytes off'. clear Hem.
      exists k1.
      rewrite En, firstn_all in *.
      split. lia.
      split. { rewrite app_assoc, app_length, Hlen1, phys_length. lia. }
      rewrite Hrd1. rewrite <- app_assoc. rewrite (app_assoc pre pad).
      rewrite read_at_record.
      * replace (N.eqb (if begin then T_FULL else T_LAST) T_LAST ||
                 N.eqb (if begin then T_FULL else T_LAST) T_FULL) with true
          by (destruct begin; reflexivity).
        reflexivity.
      * exact Hlen1.
      * lia.
      * unfold data_type. destruct begin; tauto.
      * apply type_ok_begin; auto.
      * exact Hcomp.
    + (* a fragment followed by more *)
      destruct (emit B crc f (off1 + 7 + n) (skipn n p) false) as [more off3] eqn:Hem2.
      inversion Hem; subst bytes off'. clear Hem.
      set (ty := if begin then T_FIRST else T_MIDDLE) in *.
      set (st2 := {| acc := acc st ++ firstn n p; idx := S (idx st); comp := false |}).
      destruct (IH (skipn n p) false (off1 + 7 + n) ((pre ++ pad) ++ phys crc ty (firstn n p))
                   k1 suf st2 more off3) as [k' [Hoff3 [Hlen' Hread]]].
      * apply Hneed2; assumption.
      * lia.
      * rewrite app_length, Hlen1, phys_length, Hn. lia.
      * exact Hem2.
      * reflexivity.
      * cbn [idx st2]. discriminate.
      * exists k'. split. exact Hoff3.
        assert (Efile : pre ++ (pad ++ phys crc ty (firstn n p) ++ more) ++ suf =
                        ((pre ++ pad) ++ phys crc ty (firstn n p)) ++ more ++ suf)
          by (rewrite <- !app_assoc; reflexivity).
        split.
        { rewrite !app_length in *. lia. }
        assert (Eacc : acc st2 ++ skipn n p = acc st ++ p).
        { unfold st2. cbn [acc]. rewrite <- app_assoc. now rewrite firstn_skipn. }
        rewrite Eacc in Hread.
        rewrite Efile. rewrite <- Hread. rewrite Hrd1.
        rewrite <- (app_assoc (pre ++ pad)).
        rewrite read_at_record.
        -- replace (N.eqb ty T_LAST || N.eqb ty T_FULL) with false
             by (unfold ty; destruct begin; reflexivity).
           rewrite Hn. reflexivity.
        -- exact Hlen1.
        -- lia.
        -- unfold data_type, ty. destruct begin; tauto.
        -- unfold ty. apply type_ok_begin; auto.
        -- exact Hcomp.
Qed.

Lemma last_cons_default : forall {A} (l : list A) a d, last (a :: l) d = last l a.
Proof.
  intros A l. induction l as [|x l IH]; intros a d. reflexivity.
  change (last (a :: x :: l) d) with (last (x :: l) d). rewrite IH.
  symmetry. apply IH.
Qed.

Notation addrecs := (add_records B crc compress false).

Lemma add_records_read : forall ps off pre k suf bytes off',
  off <= B -> length pre = k * B + off ->
  addrecs off ps = (bytes, off') ->
  exists k' outs, off' <= B /\ length (pre ++ bytes) = k' * B + off' /\
    read_at (pre ++ bytes ++ suf) k off rst0 =
      prepend outs (read_at (pre ++ bytes ++ suf) k' off' rst0) /\
    map fst outs = filter nonempty ps /\
    last (map snd outs) (length pre) = length (pre ++ bytes).
Proof.
  induction ps as [|p r IH]; intros off pre k suf bytes off' Hoff Hpre Har.
  - cbn [add_records] in Har. inversion Har; subst bytes off'.
    exists k, []. rewrite app_nil_r. rewrite prepend_nil.
    repeat split; auto.
  - destruct p as [|b p].
    + cbn [add_records] in Har. cbn [filter nonempty]. eapply IH; eassumption.
    + cbn [add_records] in Har. unfold add_record in Har.
      set (rec := b :: p) in *.
      destruct (emit B crc (2 * length rec + 2) off rec true) as [a o1] eqn:Hem.
      destruct (addrecs o1 r) as [b2 o2] eqn:Har2.
      inversion Har; subst bytes off'. clear Har.
      destruct (emit_read (2 * length rec + 2) rec true off pre k (b2 ++ suf) rst0 a o1) as [k1 [Ho1 [Hlen1 Hrd1]]].
      * unfold need. destruct (B - off1_of off - 7 =? 0); lia.
      * exact Hoff.
      * exact Hpre.
      * exact Hem.
      * reflexivity.
      * reflexivity.
      * destruct (IH o1 (pre ++ a) k1 suf b2 o2 Ho1 Hlen1 Har2)
          as [k' [outs [Ho2 [Hlen2 [Hrd2 [Hfst Hlast]]]]]].
        exists k', ((rec, k1 * B + o1) :: outs).
        rewrite <- !app_assoc in *. cbn [acc rst0 app] in Hrd1.
        split. exact Ho2. split. exact Hlen2.
        split. { rewrite Hrd1, Hrd2. rewrite prepend_prepend. reflexivity. }
        split. { cbn [map fst filter nonempty rec]. unfold rec at 1. cbn [nonempty]. now rewrite Hfst. }
        cbn [map snd]. rewrite last_cons_default. rewrite <- Hlen1. exact Hlast.
Qed.

(* ---------------------------------------------------------- the single-writer normal form *)
Definition W (ps : list (list byte)) : list byte := fst (addrecs 0 ps).

Lemma read_W : forall ps, exists outs,
  read_all B crc decompress (W ps) = (outs, Eof) /\
  map fst outs = filter nonempty ps /\
  last (map snd outs) 0 = length (W ps).
Proof.
  intros ps. unfold W. destruct (addrecs 0 ps) as [bytes off'] eqn:Har. cbn [fst].
  destruct (add_records_read ps 0 [] 0 [] bytes off')
    as [k' [outs [Ho [Hlen [Hrd [Hfst Hlast]]]]]]; [lia | reflexivity | exact Har |].
  cbn [app length] in *. rewrite app_nil_r in *.
  exists outs. rewrite read_all_read_at, Hrd. rewrite read_at_end by assumption.
  unfold prepend; cbn [fst snd]. rewrite app_nil_r. auto.
Qed.

Lemma add_records_app : forall c ps1 ps2 off,
  add_records B crc compress c off (ps1 ++ ps2) =
  let '(a, o1) := add_records B crc compress c off ps1 in
  let '(b, o2) := add_records B crc compress c o1 ps2 in (a ++ b, o2).
Proof.
  intros c. induction ps1 as [|p r IH]; intros ps2 off.
  - cbn [app add_records]. destruct (add_records B crc compress c off ps2). reflexivity.
  - destruct p as [|x p].
    + cbn [app add_records]. apply IH.
    + cbn [app add_records].
      destruct (add_record B crc compress c off (x :: p)) as [a o1].
      rewrite IH.
      destruct (add_records B crc compress c o1 r) as [b o2].
      destruct (add_records B crc compress c o2 ps2) as [b3 o3].
      now rewrite app_assoc.
Qed.

Lemma off1_of_B : off1_of B = 0.
Proof. unfold off1_of. rewrite Nat.sub_diag. reflexivity. Qed.
Lemma off1_of_0 : off1_of 0 = 0.
Proof. unfold off1_of. destruct (B - 0 <? 7); reflexivity. Qed.
Lemma pad_of_B : pad_of B = [].
Proof. unfold pad_of. rewrite Nat.sub_diag. reflexivity. Qed.
Lemma pad_of_0 : pad_of 0 = [].
Proof. unfold pad_of. destruct (B - 0 <? 7) eqn:E; b2p. lia. reflexivity. Qed.

Lemma emit_B_0 : forall f p b, emit B crc (S f) B p b = emit B crc (S f) 0 p b.
Proof.
  intros f p b. rewrite !emit_S. rewrite off1_of_B, off1_of_0, pad_of_B, pad_of_0. reflexivity.
Qed.

Lemma add_records_B_0 : forall ps, fst (addrecs B ps) = fst (addrecs 0 ps).
Proof.
  induction ps as [|p r IH]. reflexivity.
  destruct p as [|x p].
  - cbn [add_records]. exact IH.
  - cbn [add_records]. unfold add_record.
    replace (2 * length (x :: p) + 2) with (S (2 * length (x :: p) + 1)) by lia.
    rewrite emit_B_0. reflexivity.
Qed.

Lemma add_records_off : forall ps off a o1,
  off <= B -> addrecs off ps = (a, o1) ->
  o1 <= B /\ exists k, off + length a = k * B + o1.
Proof.
  intros ps off a o1 Hoff Har.
  destruct (add_records_read ps off (repeat 0%N off) 0 [] a o1)
    as [k' [outs [Ho [Hlen _]]]].
  - exact Hoff.
  - rewrite repeat_length. lia.
  - exact Har.
  - split. exact Ho. exists k'. rewrite app_length, repeat_length in Hlen. exact Hlen.
Qed.

Lemma phys_head : forall ty d x,
  7 <= length (phys crc ty d ++ x) /\ nth 6 (phys crc ty d ++ x) 0%N = ty.
Proof.
  intros ty d x. unfold phys, header.
  pose proof (Hcrc ty d) as Hc.
  destruct (crc ty d) as [|c0 [|c1 [|c2 [|c3 [|c4 c]]]]]; cbn [length] in Hc; try discriminate Hc.
  cbn [app length nth]. split. lia. reflexivity.
Qed.

Lemma W_head : forall ps (file : list byte) o1,
  addrecs 0 ps = (file, o1) ->
  file = [] \/ (7 <= length file /\ (nth 6 file 0%N = T_FULL \/ nth 6 file 0%N = T_FIRST)).
Proof.
  induction ps as [|p r IH]; intros file o1 Har.
  - cbn [add_records] in Har. inversion Har. left. reflexivity.
  - destruct p as [|x p].
    + cbn [add_records] in Har. eapply IH. exact Har.
    + right. cbn [add_records] in Har. unfold add_record in Har.
      replace (2 * length (x :: p) + 2) with (S (2 * length (x :: p) + 1)) in Har by lia.
      rewrite emit_S in Har. cbv zeta in Har. rewrite off1_of_0, pad_of_0 in Har.
      cbn [app] in Har.
      destruct (Nat.min (length (x :: p)) (B - 0 - 7) =? length (x :: p)).
      * destruct (addrecs _ r) as [b2 o2] in Har. inversion Har.
        pose proof (phys_head T_FULL (firstn (Nat.min (length (x :: p)) (B - 0 - 7)) (x :: p)) b2) as [L N6].
        split. exact L. left. exact N6.
      * destruct (emit B crc _ _ _ false) as [more o3] in Har.
        destruct (addrecs _ r) as [b2 o2] in Har. inversion Har.
        rewrite <- app_assoc.
        pose proof (phys_head T_FIRST (firstn (Nat.min (length (x :: p)) (B - 0 - 7)) (x :: p)) (more ++ b2)) as [L N6].
        split. exact L. right. exact N6.
Qed.

Lemma detect_ok : forall file : list byte,
  7 <= length file -> (nth 6 file 0%N = T_FULL \/ nth 6 file 0%N = T_FIRST) ->
  detect_compression file = Some false.
Proof.
  intros file Hl Hty. unfold detect_compression, H.
  destruct (length file <? 7) eqn:E; b2p. reflexivity.
  destruct Hty as [E6|E6]; rewrite E6; reflexivity.
Qed.

Notation session' := (session B crc compress decompress false).
Notation sessions' := (sessions B crc compress decompress false).
Notation droptail := (drop_torn_tail B crc decompress).

(* a file the writer produced has no torn tail: replay ends cleanly at the end of the file *)
Lemma drop_torn_tail_W : forall ps, droptail (W ps) = W ps.
Proof.
  intros ps. destruct (read_W ps) as [outs [Hr [_ Hl]]].
  unfold drop_torn_tail, valid_prefix_len. rewrite Hr. rewrite Hl.
  destruct (Nat.max (length (W ps)) (comp_header_len (W ps)) <? length (W ps)) eqn:E.
  - b2p. lia.
  - reflexivity.
Qed.

Lemma session_W : forall ps0 ps, session' (W ps0) ps = Some (W (ps0 ++ ps)).
Proof.
  intros ps0 ps. unfold session. rewrite drop_torn_tail_W.
  unfold W. rewrite add_records_app.
  destruct (addrecs 0 ps0) as [file o1] eqn:H0.
  destruct (addrecs o1 ps) as [b o2] eqn:H1. cbn [fst].
  destruct (add_records_off ps0 0 file o1 ltac:(lia) H0) as [Ho1 [k Hlen]].
  destruct (W_head ps0 file o1 H0) as [Hnil|[Hl Hty]].
  - subst file. cbn [length] in Hlen. assert (o1 = 0) by lia. subst o1.
    cbn [length app]. rewrite H1. reflexivity.
  - destruct file as [|x file]. cbn [length] in Hl; lia.
    rewrite detect_ok by assumption.
    f_equal. f_equal.
    destruct (Nat.eq_dec o1 B) as [Eo|Eo].
    + replace (length (x :: file) mod B) with 0.
      * rewrite <- add_records_B_0. rewrite Eo in H1. rewrite H1. reflexivity.
      * replace (length (x :: file)) with (S k * B) by lia. symmetry. apply Nat.mod_mul. lia.
    + replace (length (x :: file) mod B) with o1.
      * rewrite H1. reflexivity.
      * replace (length (x :: file)) with (o1 + k * B) by lia.
        rewrite Nat.mod_add by lia. symmetry. apply Nat.mod_small. lia.
Qed.

Lemma sessions_W : forall ss ps0, sessions' (W ps0) ss = Some (W (ps0 ++ concat ss)).
Proof.
  induction ss as [|ps r IH]; intros ps0.
  - cbn [sessions concat]. now rewrite app_nil_r.
  - cbn [sessions concat]. rewrite session_W. rewrite IH. now rewrite app_assoc.
Qed.

Lemma sessions_nil_W : forall ss, sessions' [] ss = Some (W (concat ss)).
Proof. intros ss. exact (sessions_W ss []). Qed.

(* ---------------------------------------------------------- cuts of a written file *)
Notation readall := (read_all B crc decompress).

Lemma read_prefix_stable : forall (f f' : list byte) p,
  firstn p f = firstn p f' -> upto p (fst (readall f)) = upto p (fst (readall f')).
Proof.
  intros f f' p Hag. rewrite !read_all_rb.
  apply (rb_prefix (length f) f f' 0 rst0 p). lia. rewrite Nat.sub_0_r. exact Hag.
Qed.

Lemma upto_all : forall p out, Forall (fun e => e <= p) (map snd out) -> upto p out = out.
Proof.
  intros p out HF. unfold upto. apply filter_all_in. intros x Hx.
  rewrite Forall_forall in HF. apply Nat.leb_le. apply HF. apply in_map. exact Hx.
Qed.

Lemma read_ends_le : forall f, Forall (fun e => e <= length f) (map snd (fst (readall f))).
Proof.
  intros f. destruct (read_all_ends ltac:(lia) f) as [_ HF].
  eapply Forall_impl; [|exact HF]. cbv beta. intros e He. lia.
Qed.

Lemma read_cut : forall (f : list byte) n,
  fst (readall (firstn n f)) = upto n (fst (readall f)).
Proof.
  intros f n.
  rewrite <- (read_prefix_stable (firstn n f) f n)
    by (rewrite firstn_firstn, Nat.min_id; reflexivity).
  symmetry. apply upto_all.
  eapply Forall_impl; [|apply read_ends_le]. cbv beta. intros e He.
  rewrite firstn_length in He. lia.
Qed.

Lemma upto_prefix : forall p out,
  StronglySorted lt (map snd out) -> exists k, upto p out = firstn k out.
Proof.
  intros p out. induction out as [|x out IH]; intro Hs.
  - exists 0. reflexivity.
  - cbn [map] in Hs. apply StronglySorted_inv in Hs. destruct Hs as [Hs HF].
    unfold upto. cbn [filter]. destruct (snd x <=? p) eqn:E.
    + destruct (IH Hs) as [k Hk]. exists (S k). cbn [firstn]. unfold upto in Hk. now rewrite Hk.
    + exists 0. cbn [firstn]. apply upto_nil_above.
      apply Nat.leb_gt in E. eapply Forall_impl; [|exact HF]. cbv beta. intros e He. lia.
Qed.

Lemma add_records_filter : forall ps off, addrecs off ps = addrecs off (filter nonempty ps).
Proof.
  induction ps as [|p r IH]; intros off. reflexivity.
  destruct p as [|x p].
  - cbn [add_records filter nonempty]. apply IH.
  - cbn [filter nonempty add_records].
    destruct (add_record B crc compress false off (x :: p)) as [a o1]. now rewrite IH.
Qed.

Lemma addrecs_all_empty : forall ps off, filter nonempty ps = [] -> addrecs off ps = ([], off).
Proof.
  intros ps off Hf. rewrite add_records_filter, Hf. reflexivity.
Qed.

Lemma W_filter : forall ps, W ps = W (filter nonempty ps).
Proof. intros ps. unfold W. now rewrite add_records_filter. Qed.

Lemma W_app : forall ps1 ps2, exists more, W (ps1 ++ ps2) = W ps1 ++ more.
Proof.
  intros ps1 ps2. unfold W. rewrite add_records_app.
  destruct (addrecs 0 ps1) as [a o1]. destruct (addrecs o1 ps2) as [b o2].
  exists b. reflexivity.
Qed.

Lemma firstn_same_length : forall {A} (l : list A) a b,
  length (firstn a l) = length (firstn b l) -> firstn a l = firstn b l.
Proof.
  intros A l a b Hl. rewrite !firstn_length in Hl.
  destruct (le_lt_dec a (length l)) as [Ha|Ha]; destruct (le_lt_dec b (length l)) as [Hb|Hb].
  - f_equal. lia.
  - rewrite (firstn_all2 (n:=b)) by lia. replace a with (length l) by lia. apply firstn_all.
  - rewrite (firstn_all2 (n:=a)) by lia. replace b with (length l) by lia. symmetry. apply firstn_all.
  - rewrite !firstn_all2 by lia. reflexivity.
Qed.

Lemma In_firstn : forall {A} k (l : list A) x, In x (firstn k l) -> In x l.
Proof.
  intros A k l x Hin. rewrite <- (firstn_skipn k l). apply in_or_app. left. exact Hin.
Qed.

Lemma records_W : forall ps,
  records B crc decompress (W ps) = filter nonempty ps /\ snd (readall (W ps)) = Eof.
Proof.
  intros ps. destruct (read_W ps) as [outs [Hr [Hf _]]].
  unfold records. rewrite Hr. cbn [fst snd]. auto.
Qed.

(* a cut of a written file delivers what a shorter written file delivers, and that file is a prefix *)
Lemma cut_records : forall ps n, exists ps1,
  fst (readall (firstn n (W ps))) = fst (readall (W ps1)) /\
  firstn (length (W ps1)) (W ps) = W ps1.
Proof.
  intros ps n.
  destruct (read_W ps) as [outs [Hr [Hf _]]].
  pose proof (read_cut (W ps) n) as Hcut. rewrite Hr in Hcut. cbn [fst] in Hcut.
  assert (Hsorted : StronglySorted lt (map snd outs)).
  { destruct (read_all_ends ltac:(lia) (W ps)) as [Hs _]. rewrite Hr in Hs. exact Hs. }
  destruct (upto_prefix n outs Hsorted) as [k Hk].
  set (rs := filter nonempty ps) in *.
  exists (firstn k rs).
  assert (Hne1 : filter nonempty (firstn k rs) = firstn k rs).
  { apply filter_all_in. intros x Hx. apply In_firstn in Hx. unfold rs in Hx.
    apply filter_In in Hx. tauto. }
  destruct (W_app (firstn k rs) (skipn k rs)) as [more Hmore].
  rewrite firstn_skipn in Hmore. unfold rs in Hmore at 1. rewrite <- W_filter in Hmore.
  assert (Hpre : firstn (length (W (firstn k rs))) (W ps) = W (firstn k rs)).
  { rewrite Hmore. rewrite firstn_app, Nat.sub_diag, firstn_O, app_nil_r. apply firstn_all. }
  split; [|exact Hpre].
  destruct (read_W (firstn k rs)) as [outs1 [Hr1 [Hf1 _]]].
  rewrite Hcut, Hr1, Hk. cbn [fst].
  (* outs1 is also a prefix of outs *)
  assert (H1 : upto (length (W (firstn k rs))) outs = outs1).
  { pose proof (read_prefix_stable (W ps) (W (firstn k rs)) (length (W (firstn k rs)))) as P.
    rewrite Hr, Hr1 in P. cbn [fst] in P. rewrite P.
    - apply upto_all. pose proof (read_ends_le (W (firstn k rs))) as HF. rewrite Hr1 in HF. exact HF.
    - rewrite Hpre. symmetry. apply firstn_all. }
  destruct (upto_prefix (length (W (firstn k rs))) outs Hsorted) as [k1 Hk1].
  rewrite Hk1 in H1. rewrite <- H1.
  apply firstn_same_length.
  rewrite H1.
  rewrite <- (map_length fst (firstn k outs)), <- (map_length fst outs1).
  rewrite Hf1, Hne1, <- firstn_map, Hf. reflexivity.
Qed.

(* ---------------------------------------------------------- appending after recovery *)
Lemma last_Forall : forall (P : nat -> Prop) l d, Forall P l -> P d -> P (last l d).
Proof.
  intros P l. induction l as [|a l IH]; intros d HF Hd. exact Hd.
  inversion HF as [|a' l' Ha Hl]; subst.
  destruct l as [|n l]. exact Ha.
  change (last (a :: n :: l) d) with (last (n :: l) d). apply IH; assumption.
Qed.

(* a cut of an (uncompressed) written file never starts with a SetCompressionType record *)
Lemma comp_header_len_cut : forall ps n, comp_header_len (firstn n (W ps)) = 0.
Proof.
  intros ps n. unfold comp_header_len, H.
  destruct (length (firstn n (W ps)) <? 7) eqn:E; b2p. reflexivity.
  assert (Hw : W ps = fst (addrecs 0 ps)) by reflexivity.
  destruct (addrecs 0 ps) as [w o1] eqn:H0. cbn [fst] in Hw.
  destruct (W_head ps w o1 H0) as [Hnil|[Hlw Hty]].
  - exfalso. rewrite Hw, Hnil, firstn_nil in E. cbn [length] in E. lia.
  - rewrite firstn_length in E.
    rewrite nth_firstn' by lia. rewrite Hw.
    destruct Hty as [E6|E6]; rewrite E6; reflexivity.
Qed.

(* opening a segment only looks at what is left after the torn tail is dropped *)
Lemma session_drop : forall (t w : list byte) new,
  droptail t = w -> droptail w = w -> session' t new = session' w new.
Proof.
  intros t w new Ht Hw. unfold session. rewrite Ht, Hw. reflexivity.
Qed.

Lemma append_after_recovery_W : forall ps n new,
  exists g,
    session' (recover_file B crc compress decompress (firstn n (W ps))) new = Some g /\
    records B crc decompress g =
      records B crc decompress (firstn n (W ps)) ++ filter nonempty new /\
    snd (readall g) = Eof.
Proof.
  intros ps n new.
  destruct (cut_records ps n) as [ps1 [Hrecs Hpre]].
  destruct (read_W ps1) as [outs1 [Hr1 [Hf1 Hl1]]].
  rewrite Hr1 in Hrecs. cbn [fst] in Hrecs.
  pose proof (comp_header_len_cut ps n) as Hchl.
  set (t := firstn n (W ps)) in *.
  assert (Hrt : records B crc decompress t = filter nonempty ps1).
  { unfold records. rewrite Hrecs. exact Hf1. }
  assert (Hfin : forall g, g = W (ps1 ++ new) ->
            records B crc decompress g = records B crc decompress t ++ filter nonempty new /\
            snd (readall g) = Eof).
  { intros g ->. destruct (records_W (ps1 ++ new)) as [R1 R2]. rewrite R1, Hrt, filter_app. auto. }
  exists (W (ps1 ++ new)). split; [|apply Hfin; reflexivity].
  unfold recover_file.
  destruct (readall t) as [recs tl] eqn:Hread. cbn [fst snd] in *. subst recs.
  destruct tl as [|why pos].
  - (* replay ended cleanly: the torn tail is dropped, what is left is the written file W ps1 *)
    assert (HL1 : length (W ps1) <= n /\ length (W ps1) <= length t).
    { rewrite <- Hl1. apply last_Forall; [|lia].
      pose proof (read_ends_le t) as HF. rewrite Hread in HF. cbn [fst] in HF.
      eapply Forall_impl; [|exact HF]. cbv beta. intros e He.
      split; [|exact He]. unfold t in He. rewrite firstn_length in He. lia. }
    destruct HL1 as [HL1 HL2].
    assert (Hft : firstn (length (W ps1)) t = W ps1).
    { unfold t. rewrite firstn_firstn, Nat.min_l by lia. exact Hpre. }
    assert (Hdrop : droptail t = W ps1).
    { unfold drop_torn_tail, valid_prefix_len. rewrite Hread, Hl1, Hchl, Nat.max_0_r.
      destruct (length (W ps1) <? length t) eqn:E; b2p. exact Hft.
      rewrite <- Hft. symmetry. apply firstn_all2. lia. }
    rewrite (session_drop t (W ps1) new Hdrop (drop_torn_tail_W ps1)).
    apply session_W.
  - (* corruption report: the segment is repaired (or deleted) first *)
    pose proof (session_W ps1 new) as Hs. rewrite (W_filter ps1) in Hs.
    unfold repair. rewrite Hrt.
    destruct (filter nonempty ps1) as [|r rs']; exact Hs.
Qed.

End Proofs.

(* ================================================================== C12 statements *)
Lemma wal_ends_increasing : forall B crc (compress : list byte -> list byte) decompress,
  wal_ends_increasing_stmt B crc decompress.
Proof.
  intros B crc _ decompress HB f. cbv zeta.
  destruct (read_all_ends B crc decompress ltac:(lia) f) as [S1 F1].
  split. exact S1. eapply Forall_impl; [|exact F1]. cbv beta. intros e He. lia.
Qed.
Print Assumptions wal_ends_increasing.

Lemma wal_prefix_stable : forall B crc (compress : list byte -> list byte) decompress,
  wal_prefix_stable_stmt B crc decompress.
Proof.
  intros B crc _ decompress HB f f' p Hag. cbv zeta.
  rewrite !read_all_rb.
  apply (rb_prefix B crc decompress HB (length f) f f' 0 rst0 p). lia.
  rewrite Nat.sub_0_r. exact Hag.
Qed.
Print Assumptions wal_prefix_stable.

Lemma wal_roundtrip : forall B crc compress decompress, wal_roundtrip_stmt B crc compress decompress.
Proof.
  intros B crc compress decompress [HB [_ Hcrc]] ss. cbv zeta.
  exists (W B crc compress (concat ss)).
  split. apply sessions_nil_W; assumption.
  destruct (read_W B crc compress decompress HB Hcrc (concat ss)) as [outs [Hrd [Hfst _]]].
  unfold records. rewrite Hrd. cbn [fst snd]. auto.
Qed.
Print Assumptions wal_roundtrip.

Lemma wal_truncation_prefix : forall B crc compress decompress,
  wal_truncation_prefix_stmt B crc compress decompress.
Proof.
  intros B crc compress decompress Hg ss f n Hsess. cbv zeta.
  pose proof Hg as [HB [_ Hcrc]].
  assert (P1 : fst (read_all B crc decompress (firstn n f)) =
               filter (fun r => snd r <=? n) (fst (read_all B crc decompress f))).
  { pose proof (wal_prefix_stable B crc compress decompress HB (firstn n f) f n) as P. cbv zeta in P.
    rewrite <- P by (rewrite firstn_firstn, Nat.min_id; reflexivity).
    symmetry. apply filter_all_in. intros x Hx.
    destruct (wal_ends_increasing B crc compress decompress HB (firstn n f)) as [_ HF]. cbv zeta in HF.
    rewrite Forall_forall in HF.
    assert (Hle : snd x <= length (firstn n f)) by (apply HF; apply in_map; exact Hx).
    rewrite firstn_length in Hle. apply Nat.leb_le. lia. }
  split. exact P1.
  rewrite P1.
  destruct (wal_ends_increasing B crc compress decompress HB f) as [Hs _]. cbv zeta in Hs.
  destruct (upto_prefix B HB n _ Hs) as [k Hk]. unfold upto in Hk.
  exists k. rewrite Hk. rewrite <- firstn_map.
  destruct (wal_roundtrip B crc compress decompress Hg ss) as [f' [Hs' [Hrec _]]].
  cbv zeta in Hs', Hrec. rewrite Hsess in Hs'. inversion Hs'; subst f'.
  unfold records in Hrec. now rewrite Hrec.
Qed.
Print Assumptions wal_truncation_prefix.

Lemma wal_repair_ok : forall B crc compress decompress, wal_repair_stmt B crc compress decompress.
Proof.
  intros B crc compress decompress [HB [_ Hcrc]] file Hne. cbv zeta in *.
  unfold repair.
  destruct (records B crc decompress file) as [|r rs] eqn:Hr. reflexivity.
  destruct (records_W B crc compress decompress HB Hcrc (r :: rs)) as [Hrec Heof].
  unfold W in Hrec, Heof.
  rewrite filter_all_in in Hrec.
  - split; assumption.
  - intros x Hx. rewrite forallb_forall in Hne. apply Hne. exact Hx.
Qed.
Print Assumptions wal_repair_ok.

Lemma wal_append_after_recovery : forall B crc compress decompress,
  wal_append_after_recovery_stmt B crc compress decompress.
Proof.
  intros B crc compress decompress [HB [_ Hcrc]] ss f n new Hsess. cbv zeta in *.
  rewrite (sessions_nil_W B crc compress decompress HB Hcrc ss) in Hsess. inversion Hsess; subst f.
  apply append_after_recovery_W; assumption.
Qed.
Print Assumptions wal_append_after_recovery.
