(* Codec/Bloom_proofs.v — proof of bloom_no_false_negative (BloomSpec.v). *)
From Coq Require Import List NArith Bool Arith Lia.
From SKV Require Import Params Base.Lex Codec.Bloom Codec.BloomSpec.
Import ListNotations.
Local Open Scope N_scope.
Arguments N.add : simpl never. Arguments N.sub : simpl never. Arguments N.mul : simpl never.
Arguments N.ltb : simpl never. Arguments N.div : simpl never. Arguments N.modulo : simpl never.
Arguments N.shiftl : simpl never. Arguments N.lor : simpl never. Arguments N.testbit : simpl never.

Lemma set_bit_length : forall l p, length (set_bit l p) = length l.
Proof. induction l as [|x r IH]; intros p; simpl; auto. destruct (p <? 8); simpl; auto. Qed.
Lemma get_set_same : forall l p, p < 8 * N.of_nat (length l) -> get_bit (set_bit l p) p = true.
Proof.
  induction l as [|x r IH]; intros p H; simpl in *. lia.
  destruct (p <? 8) eqn:E; simpl; rewrite E.
  - rewrite N.lor_spec. rewrite N.shiftl_spec_high by lia. rewrite N.sub_diag. apply orb_true_r.
  - apply N.ltb_ge in E. apply IH. lia.
Qed.
Lemma get_set_mono : forall l p q, get_bit l q = true -> get_bit (set_bit l p) q = true.
Proof.
  induction l as [|x r IH]; intros p q H; simpl in *. discriminate.
  destruct (p <? 8) eqn:E; simpl; destruct (q <? 8) eqn:F; auto.
  rewrite N.lor_spec, H. reflexivity.
Qed.
Lemma fold_set_mono : forall ps l q, get_bit l q = true -> get_bit (fold_left set_bit ps l) q = true.
Proof. induction ps as [|p r IH]; intros l q H; simpl; auto. apply IH. apply get_set_mono. exact H. Qed.
Lemma fold_set_length : forall ps l, length (fold_left set_bit ps l) = length l.
Proof. induction ps as [|p r IH]; intros l; simpl; auto. rewrite IH. apply set_bit_length. Qed.
Lemma fold_set_all : forall ps l, (forall p, In p ps -> p < 8 * N.of_nat (length l)) ->
  forall p, In p ps -> get_bit (fold_left set_bit ps l) p = true.
Proof.
  induction ps as [|x r IH]; intros l Hb p Hin; simpl in *. contradiction.
  destruct Hin as [<-|Hin].
  - apply fold_set_mono. apply get_set_same. apply Hb. auto.
  - apply IH; auto. intros q Hq. rewrite set_bit_length. apply Hb. auto.
Qed.
Lemma probes_lt : forall k bits h d p, 0 < bits -> In p (probes k bits h d) -> p < bits.
Proof.
  induction k as [|k IH]; intros bits h d p Hb Hin; simpl in *. contradiction.
  destruct Hin as [<-|Hin]. apply N.mod_lt. lia. eapply IH; eauto.
Qed.

Section Fold.
Variable h : bytes -> N.
Variables (k : nat) (bits : N).
Hypothesis bits_pos : 0 < bits.
Let step := fun a key => fold_left set_bit (key_probes h k bits key) a.
Lemma fold_keys_length : forall keys a, length (fold_left step keys a) = length a.
Proof. induction keys as [|x r IH]; intros a; simpl; auto. rewrite IH. unfold step. apply fold_set_length. Qed.
Lemma fold_keys_mono : forall keys a q, get_bit a q = true -> get_bit (fold_left step keys a) q = true.
Proof. induction keys as [|x r IH]; intros a q H; simpl; auto. apply IH. unfold step. apply fold_set_mono. exact H. Qed.
Lemma fold_keys_all : forall keys a key p, bits = 8 * N.of_nat (length a) ->
  In key keys -> In p (key_probes h k bits key) -> get_bit (fold_left step keys a) p = true.
Proof.
  induction keys as [|x r IH]; intros a key p Hb Hin Hp; simpl in *. contradiction.
  destruct Hin as [<-|Hin].
  - apply fold_keys_mono. unfold step. apply fold_set_all; auto.
    intros q Hq. rewrite <- Hb. unfold key_probes in Hq. eapply probes_lt; eauto.
  - eapply IH; eauto. unfold step. rewrite fold_set_length. exact Hb.
Qed.
End Fold.

Theorem bloom_no_false_negative : bloom_no_false_negative_stmt.
Proof.
  unfold bloom_no_false_negative_stmt. intros h bpk k keys key Hbpk Hk Hsz Hin.
  unfold bloom_create. destruct keys as [|k0 kr] eqn:EK. contradiction. rewrite <- EK in *.
  set (n := N.of_nat (length keys)) in *. set (nbytes := (n * bpk + 7) / 8).
  assert (Hn : 1 <= n). { unfold n. rewrite EK. simpl length. lia. }
  assert (Hnb : 1 <= nbytes). { unfold nbytes. apply N.div_le_lower_bound; lia. }
  assert (Hnb2 : nbytes * 8 <= n * bpk + 7). { unfold nbytes. rewrite N.mul_comm. apply N.mul_div_le. lia. }
  set (bits := nbytes * 8).
  assert (Hmod : bits mod U32 = bits). { apply N.mod_small. unfold bits. lia. }
  rewrite Hmod.
  set (arr := fold_left (fun a key0 => fold_left set_bit (key_probes h k bits key0) a) keys (repeat 0 (N.to_nat nbytes))).
  assert (Larr : length arr = N.to_nat nbytes). { unfold arr. rewrite fold_keys_length. apply repeat_length. }
  unfold bloom_may_contain. rewrite app_length. simpl length. rewrite Larr.
  replace (N.to_nat nbytes + 1 <? 2)%nat with false by (symmetry; apply Nat.ltb_ge; lia).
  rewrite last_last.
  replace (30 <? N.of_nat k) with false by (symmetry; apply N.ltb_ge; lia).
  replace (N.to_nat nbytes + 1 - 1)%nat with (N.to_nat nbytes) by lia.
  rewrite N2Nat.id. fold bits. rewrite Hmod. rewrite Nat2N.id.
  rewrite <- Larr. rewrite firstn_app, Nat.sub_diag, firstn_all. simpl firstn. rewrite app_nil_r.
  apply forallb_forall. intros p Hp. unfold arr.
  apply (fold_keys_all h k bits ltac:(unfold bits; lia) keys _ key p); auto.
  rewrite repeat_length, N2Nat.id. unfold bits. lia.
Qed.
