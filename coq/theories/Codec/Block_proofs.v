(* Codec/Block_proofs.v — the block iterator of Codec/Table.v on a strictly sorted block:
   seek_internal (binary search over restart points + linear scan) lands on the first entry >= the
   target; seek_to_first / seek_to_last / advance / prev_internal move as a cursor over the entry
   list.  Every restart interval >= 1. *)
From Coq Require Import List NArith Bool Arith Lia Sorted.
From SKV Require Import Params Base.Lex Codec.IKey Codec.Separator Codec.SeparatorSpec Codec.Separator_proofs Codec.Table.
Import ListNotations.
Arguments Nat.div : simpl never. Arguments Nat.modulo : simpl never.

(* ---------- partition_point ---------- *)
Section PP.
Context {A : Type}.
Variable P : A -> bool.
Lemma pp_le : forall l, partition_point P l <= length l.
Proof. induction l as [|x r IH]; simpl; auto. destruct (P x); simpl; lia. Qed.
Lemma pp_before : forall l i x, i < partition_point P l -> nth_error l i = Some x -> P x = true.
Proof.
  induction l as [|y r IH]; simpl; intros i x Hi Hn. lia.
  destruct (P y) eqn:E; [|lia]. destruct i as [|i]; simpl in Hn. congruence. eapply IH; eauto. lia.
Qed.
Lemma pp_at : forall l x, nth_error l (partition_point P l) = Some x -> P x = false.
Proof.
  induction l as [|y r IH]; simpl; intros x Hn. discriminate.
  destruct (P y) eqn:E; simpl in Hn. auto. congruence.
Qed.
Lemma pp_all : forall l, partition_point P l = length l -> forall x, In x l -> P x = true.
Proof.
  induction l as [|y r IH]; simpl; intros H x Hin. contradiction.
  destruct (P y) eqn:E; [|discriminate]. destruct Hin as [->|Hin]; auto.
Qed.
Lemma pp_split : forall l, exists pre post, l = pre ++ post /\ length pre = partition_point P l /\
    (forall x, In x pre -> P x = true) /\ (forall x r, post = x :: r -> P x = false).
Proof.
  induction l as [|y r IH]; simpl.
  - exists [], []. split; [reflexivity|]. split; [reflexivity|]. split. intros x []. intros x r H. discriminate.
  - destruct (P y) eqn:E.
    + destruct IH as [pre [post [H1 [H2 [H3 H4]]]]]. exists (y :: pre), post.
      split. simpl. congruence. split. simpl. congruence. split. intros x [<-|Hx]; auto. exact H4.
    + exists [], (y :: r). split; [reflexivity|]. split; [reflexivity|]. split. intros x [].
      intros x r' H. inversion H. subst. exact E.
Qed.
End PP.

Notation keyed V := (list (ikey * V)) (only parsing).
Definition ksorted {V} (l : keyed V) : Prop := StronglySorted (fun a b => ik_lt (fst a) (fst b)) l.
Definition ltk {V} (t : ikey) (e : ikey * V) : bool := ik_ltb (fst e) t.

Lemma ksorted_nth_lt : forall V (l : keyed V) i j a b, ksorted l -> i < j ->
  nth_error l i = Some a -> nth_error l j = Some b -> ik_lt (fst a) (fst b).
Proof.
  intros V l. induction l as [|x r IH]; intros i j a b Hs Hij Ha Hb.
  - destruct i; discriminate.
  - inversion Hs as [|? ? Hs' Hall]. subst. destruct j as [|j]. exfalso; lia. simpl in Hb.
    destruct i as [|i]; simpl in Ha.
    + inversion Ha. subst. rewrite Forall_forall in Hall. apply Hall. eapply nth_error_In; eauto.
    + apply (IH i j a b); auto. lia.
Qed.
Lemma ksorted_app : forall V (a b : keyed V), ksorted (a ++ b) ->
  ksorted a /\ ksorted b /\ (forall x y, In x a -> In y b -> ik_lt (fst x) (fst y)).
Proof.
  intros V a. induction a as [|x r IH]; intros b H; simpl in *.
  - split. constructor. split. exact H. intros x y [].
  - inversion H as [|? ? Hs Hall]. subst. destruct (IH b Hs) as [I1 [I2 I3]].
    rewrite Forall_forall in Hall. split; [|split].
    + constructor. exact I1. rewrite Forall_forall. intros y Hy. apply Hall. apply in_or_app. auto.
    + exact I2.
    + intros p q [->|Hp] Hq. apply Hall. apply in_or_app. auto. apply I3; auto.
Qed.
(* on a sorted list the entries below t are exactly those before the partition point *)
Lemma pp_sorted_lt : forall V (l : keyed V) t i e, ksorted l -> nth_error l i = Some e ->
  (ik_lt (fst e) t <-> i < partition_point (ltk t) l).
Proof.
  intros V l t i e Hs Hn. split.
  - intros Hlt. destruct (Nat.lt_ge_cases i (partition_point (ltk t) l)) as [|Hge]; auto. exfalso.
    assert (Hp : partition_point (ltk t) l < length l).
    { apply Nat.le_lt_trans with i; auto. apply nth_error_Some. congruence. }
    destruct (nth_error l (partition_point (ltk t) l)) as [x|] eqn:Ex; [|apply nth_error_None in Ex; lia].
    pose proof (pp_at _ _ _ Ex) as Hx. unfold ltk in Hx. apply ik_ltb_false in Hx.
    destruct (Nat.eq_dec (partition_point (ltk t) l) i) as [Heq|Hne].
    + rewrite Heq in Ex. rewrite Ex in Hn. inversion Hn. subst. eapply ik_lt_not_le; eauto.
    + assert (ik_lt (fst x) (fst e)) by (apply (ksorted_nth_lt V l (partition_point (ltk t) l) i x e); auto; lia).
      eapply ik_lt_not_le. 2: exact Hx. eapply ik_lt_trans; eauto.
  - intros Hi. apply ik_ltb_lt. eapply (pp_before (ltk t)); eauto.
Qed.

(* ---------- block iterator ---------- *)
Section BlockProofs.
Variable V : Type.
Variable I : nat.
Hypothesis Ipos : 0 < I.
Variable b : keyed V.
Hypothesis Hsorted : ksorted b.
Let n := length b.

(* positioned on entry i, in the shape the code leaves the iterator in *)
Definition at_pos (it : biter) (i : nat) : Prop :=
  b_cur it = Some i /\ b_off it = S i /\ b_ceo it = i /\ b_cri it * I <= i /\ i < n.

Lemma nrestarts_pos : 1 <= b_nrestarts I b.
Proof. unfold b_nrestarts. lia. Qed.
Lemma nrestarts_last : 0 < n -> (b_nrestarts I b - 1) * I <= n - 1.
Proof.
  intros Hn. unfold b_nrestarts. fold n.
  assert (H : (n + I - 1) / I * I <= n + I - 1) by (rewrite Nat.mul_comm; apply Nat.mul_div_le; lia).
  assert (1 <= (n + I - 1) / I).
  { apply Nat.div_le_lower_bound; lia. }
  rewrite Nat.max_r by lia. nia.
Qed.

Lemma b_key_nth : forall i e, nth_error b i = Some e -> b_key b i = fst e.
Proof. intros i [k v] H. unfold b_key. rewrite H. reflexivity. Qed.

(* binary search: the result is restart point 0 or a restart point whose key is below the target *)
Lemma bsearch_inv : forall fuel t left right,
  left <= right -> right * I < n \/ right = 0 ->
  (left = 0 \/ ik_lt (b_key b (left * I)) t) ->
  let L := b_bsearch I b fuel t left right in
  L <= right /\ (L = 0 \/ ik_lt (b_key b (L * I)) t).
Proof.
  induction fuel as [|f IH]; intros t left right Hlr Hr Hl; simpl.
  - auto.
  - destruct (left <? right) eqn:E; [|auto].
    apply Nat.ltb_lt in E.
    assert (Hmid : left < (left + right + 1) / 2 <= right).
    { split. apply Nat.div_le_lower_bound; lia. apply Nat.div_le_upper_bound; lia. }
    set (mid := (left + right + 1) / 2) in *.
    destruct (ik_cmp (b_key b (mid * I)) t) eqn:C.
    + destruct (IH t left (mid - 1)) as [H1 H2]; try lia.
      { destruct Hr as [Hr|Hr]; [left|lia]. nia. } auto.
      split; [lia|auto].
    + destruct (IH t mid right) as [H1 H2]; try lia; auto.
    + destruct (IH t left (mid - 1)) as [H1 H2]; try lia.
      { destruct Hr as [Hr|Hr]; [left|lia]. nia. } auto.
      split; [lia|auto].
Qed.

(* linear scan from entry j <= p (every entry in [j, p) is below the target) *)
Lemma scan_spec : forall fuel t it j,
  let p := partition_point (ltk t) b in
  b_off it = j -> j <= p -> n - j < fuel ->
  let r := b_scan b fuel t it in
  if p <? n then b_cur r = Some p /\ b_off r = S p /\ b_ceo r = p /\ b_cri r = b_cri it
  else b_cur r = None.
Proof.
  induction fuel as [|f IH]; intros t it j p Hoff Hj Hf; simpl. exfalso; lia.
  assert (Hp : p <= n) by apply pp_le.
  unfold b_advance. rewrite Hoff. fold n.
  destruct (n <=? j) eqn:E.
  - apply Nat.leb_le in E. assert (p = n) by lia. replace (p <? n) with false by (symmetry; apply Nat.ltb_ge; lia).
    reflexivity.
  - apply Nat.leb_gt in E. simpl.
    destruct (nth_error b j) as [e|] eqn:Ee; [|apply nth_error_None in Ee; fold n in Ee; exfalso; lia].
    rewrite (b_key_nth _ _ Ee).
    destruct (Nat.eq_dec j p) as [Hjp|Hjp].
    + assert (Ee' : nth_error b (partition_point (ltk t) b) = Some e) by (fold p; rewrite <- Hjp; exact Ee).
      pose proof (pp_at _ _ _ Ee') as Hx. unfold ltk in Hx. unfold ik_ltb in Hx.
      replace (p <? n) with true by (symmetry; apply Nat.ltb_lt; lia).
      destruct (ik_cmp (fst e) t); try discriminate; simpl; rewrite Hjp; auto.
    + assert (Hlt : ik_lt (fst e) t) by (eapply pp_sorted_lt; eauto; fold p; lia).
      unfold ik_lt in Hlt. rewrite Hlt.
      specialize (IH t {| b_cur := Some j; b_off := S j; b_ceo := j; b_cri := b_cri it |} (S j)).
      simpl in IH. apply IH; auto; fold p; lia.
Qed.

Theorem b_seek_spec : forall t it,
  let p := partition_point (ltk t) b in
  let r := b_seek I b t it in
  if p <? n then at_pos r p else b_cur r = None.
Proof.
  intros t it p r. unfold r, b_seek.
  set (L := b_bsearch I b (b_nrestarts I b) t 0 (b_nrestarts I b - 1)).
  assert (HL : L <= b_nrestarts I b - 1 /\ (L = 0 \/ ik_lt (b_key b (L * I)) t)).
  { apply bsearch_inv. lia.
    destruct (Nat.eq_dec n 0) as [Hn|Hn].
    - right. unfold b_nrestarts. fold n. rewrite Hn. simpl. rewrite Nat.div_small by lia. reflexivity.
    - left. pose proof (nrestarts_last ltac:(lia)). lia.
    - auto. }
  destruct HL as [HL1 HL2].
  assert (HLp : L * I <= p).
  { destruct HL2 as [->|HL2]. simpl. lia.
    destruct (Nat.eq_dec n 0) as [Hn|Hn].
    - assert (L = 0). { unfold b_nrestarts in HL1. fold n in HL1. rewrite Hn in HL1. simpl in HL1. rewrite Nat.div_small in HL1 by lia. simpl in HL1. lia. }
      subst L. lia.
    - pose proof (nrestarts_last ltac:(lia)) as Hr.
      assert (HLn : L * I < n) by nia.
      destruct (nth_error b (L * I)) as [e|] eqn:Ee; [|apply nth_error_None in Ee; fold n in Ee; exfalso; lia].
      rewrite (b_key_nth _ _ Ee) in HL2. apply Nat.lt_le_incl. eapply pp_sorted_lt; eauto. }
  pose proof (scan_spec (S n) t (b_to_restart I L (b_reset it)) (L * I) eq_refl HLp ltac:(lia)) as Hs.
  fold p in Hs. fold n. destruct (p <? n) eqn:E.
  - destruct Hs as [S1 [S2 [S3 S4]]]. apply Nat.ltb_lt in E. unfold at_pos. repeat split; auto.
    rewrite S4. simpl. exact HLp.
  - exact Hs.
Qed.

Theorem b_seek_first_spec : forall it, 0 < n -> at_pos (b_seek_first I b it) 0.
Proof.
  intros it Hn. unfold b_seek_first, b_decode. simpl. fold n.
  replace (n <=? 0) with false by (symmetry; apply Nat.leb_gt; lia).
  unfold at_pos. simpl. repeat split; auto; lia.
Qed.

Lemma last_loop_spec : forall fuel last it,
  0 < n -> b_off it <= n -> n - b_off it < fuel ->
  (b_off it = n -> b_cur it = Some (n - 1) /\ last = n - 1) ->
  b_cur (snd (b_last_loop b fuel last it)) = Some (n - 1) /\ b_off (snd (b_last_loop b fuel last it)) = n /\
  fst (b_last_loop b fuel last it) = n - 1 /\ b_cri (snd (b_last_loop b fuel last it)) = b_cri it.
Proof.
  induction fuel as [|f IH]; intros last it Hn Hle Hf Hend; simpl. exfalso; lia.
  fold n. destruct (b_off it <? n) eqn:E.
  - apply Nat.ltb_lt in E. unfold b_decode. fold n.
    replace (n <=? b_off it) with false by (symmetry; apply Nat.leb_gt; lia).
    specialize (IH (b_off it) {| b_cur := Some (b_off it); b_off := S (b_off it); b_ceo := b_ceo it; b_cri := b_cri it |}).
    simpl in IH. apply IH; auto; try lia. intros H. split. f_equal. lia. lia.
  - apply Nat.ltb_ge in E. assert (H : b_off it = n) by lia. destruct (Hend H) as [H1 H2]. simpl. repeat split; auto.
Qed.

Theorem b_seek_last_spec : forall it, 0 < n -> at_pos (b_seek_last I b it) (n - 1).
Proof.
  intros it Hn. unfold b_seek_last.
  pose proof (nrestarts_last Hn) as Hr.
  set (it0 := b_to_restart I (b_nrestarts I b - 1) it).
  assert (Hoff : b_off it0 = (b_nrestarts I b - 1) * I) by reflexivity.
  pose proof (last_loop_spec (S (length b)) (b_off it0) it0 Hn) as H.
  destruct (b_last_loop b (S (length b)) (b_off it0) it0) as [l r] eqn:EL.
  cbn [fst snd] in H. fold n in H.
  destruct H as [H1 [H2 [H3 H4]]]; try lia.
  unfold at_pos. cbn [b_cur b_off b_ceo b_cri]. repeat split; auto; try lia. rewrite H4. unfold it0. simpl. lia.
Qed.

Theorem b_advance_spec : forall it i, at_pos it i ->
  if S i <? n then snd (b_advance b it) = true /\ at_pos (fst (b_advance b it)) (S i)
  else snd (b_advance b it) = false /\ b_cur (fst (b_advance b it)) = None.
Proof.
  intros it i [H1 [H2 [H3 [H4 H5]]]]. unfold b_advance. rewrite H2. fold n.
  destruct (S i <? n) eqn:E.
  - apply Nat.ltb_lt in E. replace (n <=? S i) with false by (symmetry; apply Nat.leb_gt; lia).
    simpl. split; auto. unfold at_pos. simpl. repeat split; auto; lia.
  - apply Nat.ltb_ge in E. replace (n <=? S i) with true by (symmetry; apply Nat.leb_le; lia).
    simpl. auto.
Qed.

Lemma prev_restart_spec : forall fuel i it, 0 < i -> b_cri it * I <= i -> b_cri it < fuel ->
  let r := b_prev_restart I b fuel i it in
  snd r = false /\ b_cri (fst r) * I < i /\ b_cur (fst r) = b_cur it.
Proof.
  induction fuel as [|f IH]; intros i it Hi Hc Hf. lia.
  cbn [b_prev_restart]. destruct (i <=? b_cri it * I) eqn:E.
  - apply Nat.leb_le in E. assert (Heq : b_cri it * I = i) by lia.
    destruct (b_cri it =? 0) eqn:E0.
    + apply Nat.eqb_eq in E0. rewrite E0 in Heq. simpl in Heq. lia.
    + apply Nat.eqb_neq in E0.
      specialize (IH i {| b_cur := b_cur it; b_off := b_off it; b_ceo := b_ceo it; b_cri := b_cri it - 1 |} Hi).
      cbn [b_cri b_cur] in IH. apply IH. nia. lia.
  - apply Nat.leb_gt in E. cbn [fst snd]. auto.
Qed.

Lemma prev_scan_spec : forall fuel i po it, b_off it = po -> po < i -> i < n -> i - po <= fuel ->
  b_prev_scan b fuel i po it =
  ({| b_cur := Some (i - 1); b_off := i; b_ceo := i - 1; b_cri := b_cri it |}, true).
Proof.
  induction fuel as [|f IH]; intros i po it Ho Hp Hi Hf. lia.
  cbn [b_prev_scan]. unfold b_decode at 1. rewrite Ho. fold n.
  replace (n <=? po) with false by (symmetry; apply Nat.leb_gt; lia). cbn [b_off].
  destruct (i <=? S po) eqn:E.
  - apply Nat.leb_le in E. assert (Hpo : po = i - 1) by lia. unfold b_decode. cbn [b_off b_cur b_ceo b_cri]. fold n.
    replace (n <=? po) with false by (symmetry; apply Nat.leb_gt; lia).
    rewrite Hpo. replace (S (i - 1)) with i by lia. reflexivity.
  - apply Nat.leb_gt in E.
    rewrite (IH i (S po) {| b_cur := Some po; b_off := S po; b_ceo := b_ceo it; b_cri := b_cri it |}); auto; lia.
Qed.

Theorem b_prev_spec : forall it i, at_pos it i ->
  if i =? 0 then snd (b_prev I b it) = false /\ b_cur (fst (b_prev I b it)) = None
  else snd (b_prev I b it) = true /\ at_pos (fst (b_prev I b it)) (i - 1).
Proof.
  intros it i [H1 [H2 [H3 [H4 H5]]]]. unfold b_prev. rewrite H3.
  destruct (i =? 0) eqn:E0.
  - simpl. auto.
  - apply Nat.eqb_neq in E0.
    pose proof (prev_restart_spec (S (b_cri it)) i it ltac:(lia) H4 ltac:(lia)) as Hr. cbv zeta in Hr.
    destruct (b_prev_restart I b (S (b_cri it)) i it) as [it1 early]. cbn [fst snd] in Hr.
    destruct Hr as [R1 [R2 R3]]. subst early.
    rewrite (prev_scan_spec (S (length b)) i (b_off (b_to_restart I (b_cri it1) it1)) (b_to_restart I (b_cri it1) it1) eq_refl); try (cbn [b_off b_to_restart]; fold n; lia).
    cbn [fst snd]. split. reflexivity. unfold at_pos. cbn [b_cur b_off b_ceo b_cri b_to_restart]. repeat split; auto; lia.
Qed.
End BlockProofs.
