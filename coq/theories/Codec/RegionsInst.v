(* Codec/RegionsInst.v — the readers of Codec/Regions.v instantiated with the concrete CRC-32 and the
   generated parameters, so that the extracted model can be run on real files:
   table blocks store  mask(crc32(payload ++ [type]))  as a little-endian u32 (write_fixedint),
   mask(c) = rotate_right(c, TBL_MASK_ROT) + TBL_MASK_DELTA (mod 2^32);
   value-log entries store crc32(key ++ value) big endian.  Snappy stays a parameter. *)
From Coq Require Import List NArith Arith Bool.
From SKV Require Import Params Base.Crc32 Codec.Wal Codec.Regions.
Import ListNotations.

Definition tbl_mask (c : N) : N :=
  ((N.shiftr c TBL_MASK_ROT + N.shiftl (c mod 2 ^ TBL_MASK_ROT) (32 - TBL_MASK_ROT)) + TBL_MASK_DELTA) mod 2 ^ 32.
Definition tbl_crcm (d : list byte) : list byte := le32 (tbl_mask (crc32 d)).
Definition vlog_crc (d : list byte) : list byte := be32 (crc32 d).

Definition tbl_read_block (decompress : list byte -> option (list byte)) := read_block tbl_crcm decompress.
Definition vlog_get_full := vlog_get vlog_crc.

(* side conditions tying the generated parameters to the fixed layout of the model *)
Definition c16_params_ok : bool :=
  C16_ANCHORS_OK &&
  N.eqb TBL_BLOCK_COMPRESS_LEN 1 && N.eqb TBL_BLOCK_CKSUM_LEN 4 &&
  N.eqb TBL_FOOTER_HANDLES_AT 2 && N.leb (TBL_FOOTER_HANDLES_AT + 40) TBL_FOOTER_LENGTH &&
  N.eqb (TBL_FULL_FOOTER_LENGTH - TBL_FOOTER_LENGTH) (N.of_nat (length TBL_MAGIC)) &&
  N.eqb (fold_right N.add 0%N VLOG_HEADER_FIELDS) VLOG_HEADER_SIZE &&
  Nat.eqb (length VLOG_HEADER_FIELDS) (length vlog_header_classes) &&
  N.eqb VLOG_ENTRY_LEN_FIELD 4 && N.eqb VLOG_ENTRY_CRC_LEN 4 &&
  N.ltb TBL_MASK_ROT 32 && N.eqb WAL_HEADER_SIZE 7.
