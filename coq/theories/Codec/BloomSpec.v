(* Codec/BloomSpec.v — the bloom filter never denies a key it was built from. *)
From Coq Require Import List NArith Bool.
From SKV Require Import Params Base.Lex Codec.Bloom.
Import ListNotations.
Local Open Scope N_scope.

(* for every hash function, every bits-per-key >= 1 and probe count 1..30, and key
   sets small enough for the bit count to fit u32 (the code computes positions `% (bits as u32)`) *)
Definition bloom_no_false_negative_stmt : Prop :=
  forall (h : bytes -> N) (bpk : N) (k : nat) (keys : list bytes) (key : bytes),
    1 <= bpk -> (1 <= k <= 30)%nat ->
    N.of_nat (length keys) * bpk + 7 < U32 ->
    In key keys ->
    bloom_may_contain h (bloom_create h bpk k keys) key = true.
