(* Codec/IKey.v — internal keys (src/lib.rs `InternalKey`): encoding
     user_key ++ be64(trailer) ++ be64(timestamp),  trailer = (seq << 8) | kind
   and the order of `InternalKeyComparator::compare` (src/comparator.rs): user key ascending
   (bytewise), then sequence number DESCENDING; kind and timestamp are not compared.
   Definitions only. *)
From Coq Require Import List NArith Bool.
From SKV Require Import Params Base.Lex.
Import ListNotations.
Local Open Scope N_scope.

Record ikey := { ik_uk : bytes; ik_seq : N; ik_kind : N; ik_ts : N }.

Definition U64 : N := 18446744073709551616.

(* big-endian fixed width *)
Fixpoint be_bytes (w : nat) (x : N) : bytes :=
  match w with
  | O => []
  | S w' => be_bytes w' (x / 256) ++ [x mod 256]
  end.
Fixpoint be_value_go (acc : N) (l : bytes) : N :=
  match l with [] => acc | b :: r => be_value_go (acc * 256 + b) r end.
Definition be_value (l : bytes) : N := be_value_go 0 l.

(* InternalKey::new: trailer = (seq_num << 8) | kind as u64   (u64 shift: high bits fall off) *)
Definition trailer_of (seq kd : N) : N := N.lor ((seq * 256) mod U64) kd.
(* trailer_to_seq_num / `trailer as u8` *)
Definition trailer_seq (t : N) : N := t / 256.
Definition trailer_kind (t : N) : N := t mod 256.

(* InternalKey::encode *)
Definition ik_encode (k : ikey) : bytes :=
  ik_uk k ++ be_bytes 8 (trailer_of (ik_seq k) (ik_kind k)) ++ be_bytes 8 (ik_ts k).

(* InternalKey::decode (panics on fewer than 16 bytes: None) *)
Definition ik_decode (e : bytes) : option ikey :=
  let n := length e in
  if Nat.ltb n 16 then None else
  let u := firstn (n - 16) e in
  let t := be_value (firstn 8 (skipn (n - 16) e)) in
  let s := be_value (skipn (n - 8) e) in
  Some {| ik_uk := u; ik_seq := trailer_seq t; ik_kind := trailer_kind t; ik_ts := s |}.

(* InternalKeyComparator::compare *)
Definition ik_cmp (a b : ikey) : comparison :=
  match lex_cmp (ik_uk a) (ik_uk b) with
  | Eq => N.compare (ik_seq b) (ik_seq a)
  | c => c
  end.
Definition ik_ltb (a b : ikey) : bool := match ik_cmp a b with Lt => true | _ => false end.
Definition ik_leb (a b : ikey) : bool := match ik_cmp a b with Gt => false | _ => true end.

(* well-formed = representable: bytes, 56-bit sequence number, kind byte, 64-bit timestamp *)
Definition bytes_ok (l : bytes) : Prop := Forall (fun x => x < 256) l.
Definition ik_ok (k : ikey) : Prop :=
  bytes_ok (ik_uk k) /\ ik_seq k <= IK_SEQ_NUM_MAX /\ ik_kind k < 256 /\ ik_ts k <= IK_TIMESTAMP_MAX.

(* the seek keys the engine builds *)
Definition ik_max_of (u : bytes) : ikey :=   (* (u, SEQ_NUM_MAX, Max, TIMESTAMP_MAX): smallest key of user key u *)
  {| ik_uk := u; ik_seq := IK_SEQ_NUM_MAX; ik_kind := IK_KIND_MAX; ik_ts := IK_TIMESTAMP_MAX |}.
Definition ik_min_of (u : bytes) : ikey :=   (* (u, 0, Set, 0): largest key of user key u *)
  {| ik_uk := u; ik_seq := 0; ik_kind := IK_KIND_SET; ik_ts := 0 |}.
Definition ik_lookup (u : bytes) (snap : N) : ikey :=   (* Snapshot::get: (key, snapshot seq, Set, 0) *)
  {| ik_uk := u; ik_seq := snap; ik_kind := IK_KIND_SET; ik_ts := 0 |}.
