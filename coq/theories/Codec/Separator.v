(* Codec/Separator.v — `separator` / `successor` of BytewiseComparator and InternalKeyComparator
   (src/comparator.rs), transcribed.  Definitions only.

   BytewiseComparator::separator(a, b), by position in the common prefix:
     while a[i] == b[i]            -> keep the byte, continue            (first loop)
     one is a prefix of the other  -> a unchanged                        (`diff_index >= min_length`)
     a[i] >= b[i]                  -> a unchanged
     i < b.len()-1 || a[i]+1 < b[i]-> a[..=i] with the last byte + 1
     otherwise                     -> scan a[i+1..] for the first byte < 0xff, increment it and
                                      truncate after it; none: a unchanged                      *)
From Coq Require Import List NArith Bool.
From SKV Require Import Params Base.Lex Codec.IKey.
Import ListNotations.
Local Open Scope N_scope.

Fixpoint bw_scan (r : bytes) : bytes :=
  match r with
  | [] => []
  | z :: t => if z <? 255 then [z + 1] else z :: bw_scan t
  end.

Fixpoint bw_separator (a b : bytes) : bytes :=
  match a, b with
  | x :: r, y :: q =>
    if x =? y then x :: bw_separator r q
    else if y <=? x then a
    else if negb (match q with [] => true | _ => false end) || (x + 1 <? y) then [x + 1]
    else x :: bw_scan r
  | _, _ => a
  end.

(* BytewiseComparator::successor: first byte != 0xff incremented, rest dropped; all 0xff: unchanged *)
Fixpoint bw_successor (k : bytes) : bytes :=
  match k with
  | [] => []
  | x :: r => if x =? 255 then x :: bw_successor r else [x + 1]
  end.

Definition ik_sep_key (u : bytes) : ikey :=
  {| ik_uk := u; ik_seq := IK_SEQ_NUM_MAX; ik_kind := IK_KIND_SEPARATOR; ik_ts := IK_TIMESTAMP_MAX |}.

(* InternalKeyComparator::separator on decoded keys.  (The code first returns `a` when the two
   encodings are byte-equal; that case also ends in the fallback below.) *)
Definition ik_separator (a b : ikey) : ikey :=
  match lex_cmp (ik_uk a) (ik_uk b) with
  | Eq => a
  | _ =>
    let sep := bw_separator (ik_uk a) (ik_uk b) in
    if Nat.leb (length sep) (length (ik_uk a)) && lex_ltb (ik_uk a) sep then ik_sep_key sep else a
  end.

(* InternalKeyComparator::successor *)
Definition ik_successor (a : ikey) : ikey :=
  let s := bw_successor (ik_uk a) in
  if Nat.leb (length s) (length (ik_uk a)) && lex_ltb (ik_uk a) s then ik_sep_key s else a.

(* the same two functions on encoded keys, as the trait exposes them (None = the code panics:
   fewer than 16 bytes) *)
Definition ik_separator_enc (a b : bytes) : option bytes :=
  if bytes_eqb a b then Some a else
  match ik_decode a, ik_decode b with
  | Some ka, Some kb =>
    match lex_cmp (ik_uk ka) (ik_uk kb) with
    | Eq => Some a
    | _ =>
      let sep := bw_separator (ik_uk ka) (ik_uk kb) in
      if Nat.leb (length sep) (length (ik_uk ka)) && lex_ltb (ik_uk ka) sep
      then Some (ik_encode (ik_sep_key sep)) else Some a
    end
  | _, _ => None
  end.
Definition ik_successor_enc (a : bytes) : option bytes :=
  match ik_decode a with
  | Some ka =>
    let s := bw_successor (ik_uk ka) in
    if Nat.leb (length s) (length (ik_uk ka)) && lex_ltb (ik_uk ka) s
    then Some (ik_encode (ik_sep_key s)) else Some a
  | None => None
  end.
