(* Codec/SeparatorSpec.v — statements about separator / successor (Codec/Separator.v) and the
   internal-key codec (Codec/IKey.v). *)
From Coq Require Import List NArith Bool.
From SKV Require Import Params Base.Lex Codec.IKey Codec.Separator.
Import ListNotations.
Local Open Scope N_scope.

Definition lex_lt (a b : bytes) : Prop := lex_cmp a b = Lt.
Definition lex_le (a b : bytes) : Prop := lex_cmp a b <> Gt.
Definition ik_lt (a b : ikey) : Prop := ik_cmp a b = Lt.
Definition ik_le (a b : ikey) : Prop := ik_cmp a b <> Gt.

(* BytewiseComparator: a < b  ->  a <= separator(a,b) < b, never longer than a, stays a byte string *)
Definition bw_separator_between_stmt : Prop :=
  forall a b, lex_lt a b ->
    lex_le a (bw_separator a b) /\ lex_lt (bw_separator a b) b /\
    (length (bw_separator a b) <= length a)%nat /\
    (bytes_ok a -> bytes_ok b -> bytes_ok (bw_separator a b)).
(* a >= b: a is returned unchanged *)
Definition bw_separator_unchanged_stmt : Prop :=
  forall a b, ~ lex_lt a b -> bw_separator a b = a.
Definition bw_successor_ge_stmt : Prop :=
  forall a, lex_le a (bw_successor a) /\ (length (bw_successor a) <= length a)%nat /\
            (bytes_ok a -> bytes_ok (bw_successor a)).

(* InternalKeyComparator (decoded keys) *)
Definition ik_separator_between_stmt : Prop :=
  forall a b, ik_lt a b -> ik_le a (ik_separator a b) /\ ik_lt (ik_separator a b) b.
Definition ik_successor_ge_stmt : Prop :=
  forall a, ik_le a (ik_successor a).
(* a separator that is not `a` itself carries a user key no table entry has: strictly between *)
Definition ik_separator_shape_stmt : Prop :=
  forall a b, ik_separator a b = a \/
              (lex_lt (ik_uk a) (ik_uk (ik_separator a b)) /\ lex_lt (ik_uk (ik_separator a b)) (ik_uk b) /\
               ik_seq (ik_separator a b) = IK_SEQ_NUM_MAX).

(* the order is a total preorder whose equivalence is "same user key and sequence number" *)
Definition ik_order_stmt : Prop :=
  (forall a, ik_cmp a a = Eq) /\
  (forall a b, ik_cmp b a = CompOpp (ik_cmp a b)) /\
  (forall a b c, ik_lt a b -> ik_lt b c -> ik_lt a c) /\
  (forall a b c, ik_le a b -> ik_le b c -> ik_le a c) /\
  (forall a b, ik_cmp a b = Eq <-> ik_uk a = ik_uk b /\ ik_seq a = ik_seq b).

(* codec: decode inverts encode on representable keys; the encoded-key versions of separator and
   successor are the decoded ones *)
Definition ik_roundtrip_stmt : Prop :=
  forall k, ik_ok k -> ik_decode (ik_encode k) = Some k.
Definition ik_separator_enc_stmt : Prop :=
  forall a b, ik_ok a -> ik_ok b ->
    ik_separator_enc (ik_encode a) (ik_encode b) = Some (ik_encode (ik_separator a b)).
Definition ik_successor_enc_stmt : Prop :=
  forall a, ik_ok a -> ik_successor_enc (ik_encode a) = Some (ik_encode (ik_successor a)).
