(* Codec/Regions.v — region maps of the three checksummed file formats and the readers' validation
   steps (property C16).  Definitions only; statements in RegionsSpec.v, proofs in Regions_proofs.v.

   A region map is a list of (offset, length, class) produced by laying fields out one after the
   other (`lay`), exactly as the writers append them:
     * table file (src/sstable/table.rs TableWriter::finish, index_block.rs IndexWriter::finish):
       data blocks, optional filter block, index partitions, top-level index, meta-index block —
       each `payload | compression-type byte | masked crc32 (4)` (write_block_at_offset) — then the
       footer: format byte, checksum-type byte, the two varint block handles, zero padding up to
       TABLE_FOOTER_LENGTH, magic;
     * commit-log segment (src/wal/writer.rs, reader.rs; framing of Codec/Wal.v): physical records
       `crc(4) len(2) type(1) payload`, zero padding where fewer than 7 bytes remain in a block;
       the map is computed from the BYTES of a segment (any bytes), walking the length fields as
       the reader does;
     * value-log file (src/vlog.rs): 31-byte file header (magic, version, file id, created_at,
       max_file_size, compression, reserved), then entries `key_len(4) value_len(4) key value crc32(4)`;
       the map is computed from the bytes of a file.
   Offsets are nat (the files of the sweeps are a few kB). *)
From Coq Require Import List NArith Arith Bool Lia.
From SKV Require Import Params Codec.Wal.
Import ListNotations.

Inductive rclass :=
| DataPayload | DataType | DataCrc
| FilterPayload | FilterType | FilterCrc
| PartPayload | PartType | PartCrc
| TopPayload | TopType | TopCrc
| MetaPayload | MetaType | MetaCrc
| FooterFormat | FooterCksum | FooterHandles | FooterPadding | FooterMagic
| RecCrc | RecLen | RecType | RecPayload | WalPadding | WalTail
| HdrMagic | HdrVersion | HdrFileId | HdrCreated | HdrMaxSize | HdrCompression | HdrReserved
| EntKlen | EntVlen | EntKey | EntValue | EntCrc | VlogTail.

Record region := { r_off : nat; r_len : nat; r_cls : rclass }.
Definition field := (nat * rclass)%type.

(* fields appended one after the other from offset `start` *)
Fixpoint lay (start : nat) (fs : list field) : list region :=
  match fs with
  | [] => []
  | (n, c) :: r => {| r_off := start; r_len := n; r_cls := c |} :: lay (start + n) r
  end.
Fixpoint total (fs : list field) : nat :=
  match fs with [] => 0 | (n, _) :: r => n + total r end.

Definition in_region (x : nat) (r : region) : bool := (r_off r <=? x) && (x <? r_off r + r_len r).
Definition count_in (x : nat) (rs : list region) : nat := length (filter (in_region x) rs).
Definition class_at (x : nat) (rs : list region) : option rclass :=
  match filter (in_region x) rs with r :: _ => Some (r_cls r) | [] => None end.

(* ------------------------------------------------------------------------------------ table *)
Definition CKL : nat := N.to_nat TBL_BLOCK_CKSUM_LEN.
Definition CTL : nat := N.to_nat TBL_BLOCK_COMPRESS_LEN.
Definition FOOTER_LEN : nat := N.to_nat TBL_FOOTER_LENGTH.
Definition FULL_FOOTER_LEN : nat := N.to_nat TBL_FULL_FOOTER_LENGTH.
Definition MAGIC_LEN : nat := length TBL_MAGIC.
Definition HANDLES_AT : nat := N.to_nat TBL_FOOTER_HANDLES_AT.

(* description of a table file: payload length of every block, in file order *)
Record table_descr := {
  td_data : list nat;
  td_filter : option nat;
  td_parts : list nat;
  td_top : nat;
  td_meta : nat
}.

Definition block_fields (p t c : rclass) (n : nat) : list field := [(n, p); (CTL, t); (CKL, c)].
Definition trailer : nat := CTL + CKL.

(* LEB128 length of an unsigned integer (integer_encoding required_space) *)
Definition varint_len (n : nat) : nat :=
  if n =? 0 then 1 else N.to_nat (N.log2 (N.of_nat n) / 7) + 1.

Definition body_fields (d : table_descr) : list field :=
  flat_map (block_fields DataPayload DataType DataCrc) (td_data d) ++
  match td_filter d with Some n => block_fields FilterPayload FilterType FilterCrc n | None => [] end ++
  flat_map (block_fields PartPayload PartType PartCrc) (td_parts d) ++
  block_fields TopPayload TopType TopCrc (td_top d) ++
  block_fields MetaPayload MetaType MetaCrc (td_meta d).

(* offsets of the top-level index block and of the meta-index block (what the footer handles say) *)
Definition top_offset (d : table_descr) : nat :=
  total (flat_map (block_fields DataPayload DataType DataCrc) (td_data d)) +
  total (match td_filter d with Some n => block_fields FilterPayload FilterType FilterCrc n | None => [] end) +
  total (flat_map (block_fields PartPayload PartType PartCrc) (td_parts d)).
Definition meta_offset (d : table_descr) : nat := top_offset d + td_top d + trailer.

(* encoded length of the two footer handles: (meta offset, meta size) (index offset, index size) *)
Definition handles_len (d : table_descr) : nat :=
  varint_len (meta_offset d) + varint_len (td_meta d) + varint_len (top_offset d) + varint_len (td_top d).

Definition footer_fields (hl : nat) : list field :=
  [(1, FooterFormat); (HANDLES_AT - 1, FooterCksum); (hl, FooterHandles);
   (FOOTER_LEN - HANDLES_AT - hl, FooterPadding); (FULL_FOOTER_LEN - FOOTER_LEN, FooterMagic)].

Definition table_fields (d : table_descr) : list field := body_fields d ++ footer_fields (handles_len d).
Definition table_regions (d : table_descr) : list region := lay 0 (table_fields d).
Definition table_len (d : table_descr) : nat := total (table_fields d).
(* Footer::encode for two zero handles (format 1, checksum type 1, four zero varints, padding, magic) *)
Definition footer_zero : list byte := [1%N; 1%N] ++ repeat 0%N (FOOTER_LEN - HANDLES_AT) ++ TBL_MAGIC.
(* the footer of a well-formed description has its fixed length *)
Definition table_descr_ok (d : table_descr) : bool := handles_len d <=? FOOTER_LEN - HANDLES_AT.

(* ------------------------------------------------------------------------------------ commit log *)
Inductive witem := WRec (ty : N) (n : nat) | WPad (n : nat) | WTail (n : nat).

Section WalScan.
Variable B : nat.
(* walk a segment as Reader::next does: `pos` = file offset of `rest` *)
Fixpoint wal_scan (fuel : nat) (pos : nat) (rest : list byte) : list witem :=
  match fuel with
  | O => match rest with [] => [] | _ => [WTail (length rest)] end
  | S f =>
    match rest with
    | [] => []
    | _ =>
      let left := B - pos mod B in
      if left <? H then
        let n := Nat.min left (length rest) in
        WPad n :: wal_scan f (pos + n) (skipn n rest)
      else if length rest <? H then [WTail (length rest)]
      else
        let len := N.to_nat (nth 4 rest 0%N) * 256 + N.to_nat (nth 5 rest 0%N) in
        let ty := nth 6 rest 0%N in
        if N.eqb ty 0 then
          (* zero type: the reader treats the rest of the block as (pre-allocated) padding *)
          let n := Nat.min left (length rest) in
          WPad n :: wal_scan f (pos + n) (skipn n rest)
        else
          let n := Nat.min len (Nat.min (left - H) (length rest - H)) in
          WRec ty n :: wal_scan f (pos + H + n) (skipn (H + n) rest)
    end
  end.
Definition wal_descr (file : list byte) : list witem := wal_scan (length file) 0 file.
End WalScan.

Definition witem_fields (w : witem) : list field :=
  match w with
  | WRec _ n => [(4, RecCrc); (2, RecLen); (1, RecType); (n, RecPayload)]
  | WPad n => [(n, WalPadding)]
  | WTail n => [(n, WalTail)]
  end.
Definition wal_fields (d : list witem) : list field := flat_map witem_fields d.
Definition wal_regions (B : nat) (file : list byte) : list region := lay 0 (wal_fields (wal_descr B file)).

(* offsets just after the physical records that end a logical record (Full = 1, Last = 4) *)
Fixpoint wal_rec_ends (pos : nat) (d : list witem) : list nat :=
  match d with
  | [] => []
  | WRec ty n :: r =>
    let e := pos + H + n in
    if N.eqb ty 1 || N.eqb ty 4 then e :: wal_rec_ends e r else wal_rec_ends e r
  | WPad n :: r => wal_rec_ends (pos + n) r
  | WTail n :: r => wal_rec_ends (pos + n) r
  end.

(* ------------------------------------------------------------------------------------ value log *)
Definition VH : nat := N.to_nat VLOG_HEADER_SIZE.
Definition VLF : nat := N.to_nat VLOG_ENTRY_LEN_FIELD.
Definition VCL : nat := N.to_nat VLOG_ENTRY_CRC_LEN.
Definition vlog_header_classes : list rclass :=
  [HdrMagic; HdrVersion; HdrFileId; HdrCreated; HdrMaxSize; HdrCompression; HdrReserved].
Definition vlog_header_fields : list field :=
  combine (map N.to_nat VLOG_HEADER_FIELDS) vlog_header_classes.

Definition be_N (l : list byte) : N := fold_left (fun a b => (a * 256 + b)%N) l 0%N.
Definition be_nat (l : list byte) : nat := N.to_nat (be_N l).

Inductive vitem := VEnt (k v : nat) | VTail (n : nat).
Fixpoint vlog_scan (fuel : nat) (rest : list byte) : list vitem :=
  match fuel with
  | O => match rest with [] => [] | _ => [VTail (length rest)] end
  | S f =>
    match rest with
    | [] => []
    | _ =>
      if length rest <? 2 * VLF then [VTail (length rest)] else
      let k := be_nat (firstn VLF rest) in
      let v := be_nat (firstn VLF (skipn VLF rest)) in
      let n := 2 * VLF + k + v + VCL in
      if length rest <? n then [VTail (length rest)]
      else VEnt k v :: vlog_scan f (skipn n rest)
    end
  end.
Definition vitem_fields (i : vitem) : list field :=
  match i with
  | VEnt k v => [(VLF, EntKlen); (VLF, EntVlen); (k, EntKey); (v, EntValue); (VCL, EntCrc)]
  | VTail n => [(n, VlogTail)]
  end.
Definition vlog_fields (file : list byte) : list field :=
  if length file <? VH then [(length file, VlogTail)]
  else vlog_header_fields ++ flat_map vitem_fields (vlog_scan (length file) (skipn VH file)).
Definition vlog_regions (file : list byte) : list region := lay 0 (vlog_fields file).

(* ------------------------------------------------------------------------------------ readers *)
(* one byte of a file replaced *)
Definition alter (f : list byte) (x : nat) (v : byte) : list byte :=
  if x <? length f then firstn x f ++ v :: skipn (S x) f else f.

(* read_bytes: a buffer of n zero bytes filled by read_at; a short read leaves zeros (the count
   returned by read_at is ignored) *)
Definition slice_z (f : list byte) (o n : nat) : list byte :=
  let s := firstn n (skipn o f) in s ++ repeat 0%N (n - length s).

Section Readers.
Variable crcm : list byte -> list byte.                 (* stored form of the masked CRC-32 of payload ++ [type] *)
Variable decompress : list byte -> option (list byte).  (* snappy *)
Variable vcrc : list byte -> list byte.                 (* value log: big-endian CRC-32 of key ++ value *)

(* read_table_block(file, handle (o, n)) *)
Definition read_block (f : list byte) (o n : nat) : option (list byte) :=
  let payload := slice_z f o n in
  let ty := slice_z f (o + n) CTL in
  let stored := slice_z f (o + n + CTL) CKL in
  if negb (list_eqb (crcm (payload ++ ty)) stored) then None
  else match ty with
       | [t] => if N.eqb t 0 then Some payload else if N.eqb t 1 then decompress payload else None
       | _ => None
       end.

(* Footer::read_from + the unconditional checks of Footer::decode; the varint handles are returned raw *)
Definition footer_check (f : list byte) : option (list byte) :=
  if length f <? FULL_FOOTER_LEN then None else
  let buf := skipn (length f - FULL_FOOTER_LEN) f in
  if negb (list_eqb (skipn (FULL_FOOTER_LEN - MAGIC_LEN) buf) TBL_MAGIC) then None else
  if negb (N.eqb (nth 0 buf 0%N) 1) then None else
  if negb (N.eqb (nth 1 buf 0%N) 1) then None else
  Some (firstn (FULL_FOOTER_LEN - MAGIC_LEN - HANDLES_AT) (skipn HANDLES_AT buf)).

(* VLog::get with VLogChecksumLevel::Full: pointer = (offset, key size, value size, checksum) *)
Record vptr := { vp_off : nat; vp_k : nat; vp_v : nat; vp_crc : list byte }.
Definition vlog_get (f : list byte) (p : vptr) : option (list byte) :=
  let e := slice_z f (vp_off p) (2 * VLF + vp_k p + vp_v p + VCL) in
  if negb (N.eqb (be_N (firstn VLF e)) (N.of_nat (vp_k p))) then None else
  if negb (N.eqb (be_N (firstn VLF (skipn VLF e))) (N.of_nat (vp_v p))) then None else
  let key := firstn (vp_k p) (skipn (2 * VLF) e) in
  let value := firstn (vp_v p) (skipn (2 * VLF + vp_k p) e) in
  let stored := firstn VCL (skipn (2 * VLF + vp_k p + vp_v p) e) in
  if negb (list_eqb stored (vp_crc p)) then None else
  if negb (list_eqb (vcrc (key ++ value)) (vp_crc p)) then None else
  Some value.
End Readers.
