(* Codec/VlogPtrSpec.v — statements about the codecs of Codec/VlogPtr.v (property C11).
   Proved in VlogPtr_proofs.v; restated in Props/C11.v. *)
From Coq Require Import List NArith Arith Bool.
From SKV Require Import Params Codec.VlogParams Codec.Wal Codec.VlogPtr.
Import ListNotations.
Local Open Scope N_scope.

Definition bytes_wf (l : list byte) : Prop := Forall (fun b => b < 256) l.

(* big-endian fields: decoding what was encoded gives the value truncated to the field width *)
Definition be_roundtrip_stmt : Prop :=
  forall (n : nat) (x : N), be_dec (be_enc n x) = x mod 256 ^ N.of_nat n.

(* A1. ValuePointer: every pointer whose fields fit their widths survives encode/decode; the encoding
   has the fixed size; any other length is refused; every string of VP_SIZE bytes decodes (no field is
   validated) and re-encodes to itself *)
Definition vpointer_roundtrip_stmt : Prop :=
  vlog_params_ok = true ->
  forall p, vpointer_in_range p = true -> vpointer_decode (vpointer_encode p) = Some p.
Definition vpointer_encode_size_stmt : Prop :=
  vlog_params_ok = true -> forall p, nlen (vpointer_encode p) = VP_SIZE.
Definition vpointer_decode_length_stmt : Prop :=
  forall l, nlen l <> VP_SIZE -> vpointer_decode l = None.
Definition vpointer_decode_total_stmt : Prop :=
  vlog_params_ok = true ->
  forall l, nlen l = VP_SIZE -> bytes_wf l ->
    exists p, vpointer_decode l = Some p /\ vpointer_in_range p = true /\ vpointer_encode p = l.

(* A2. ValueLocation *)
Definition vloc_roundtrip_stmt : Prop :=
  forall l, vloc_in_range l = true -> vloc_decode (vloc_encode l) = Some l.
Definition vloc_decode_short_stmt : Prop :=
  forall d, (length d < 2)%nat -> vloc_decode d = None.
Definition vloc_pointer_roundtrip_stmt : Prop :=
  vlog_params_ok = true ->
  forall p, vpointer_in_range p = true ->
    vloc_pointer_of (vloc_encode (vloc_with_pointer p)) = Some p.
Definition vloc_inline_roundtrip_stmt : Prop :=
  vlog_params_ok = true ->
  forall v, vloc_decode (vloc_encode (vloc_inline v)) = Some (vloc_inline v) /\
            vloc_pointer_of (vloc_encode (vloc_inline v)) = None.

(* A3. entries: what `append` writes at the end of a file (any content before, anything appended later)
   is what `get` returns for the pointer `append` gave back — any key, any value below 4 GiB, any
   checksum level, ANY checksum function *)
Definition entry_fits (k v : list byte) : Prop := fits ELF (nlen k) = true /\ fits ELF (nlen v) = true.
Definition append_get_stmt : Prop :=
  vlog_params_ok = true ->
  forall (crc : list byte -> N) (level id : N) (pre post k v : list byte),
    entry_fits k v ->
    vlog_read crc level (fst (vwriter_append crc id pre k v) ++ post) (snd (vwriter_append crc id pre k v)) = Some v.
Definition append_pointer_in_range_stmt : Prop :=
  vlog_params_ok = true ->
  forall (crc : list byte -> N) (id : N) (pre k v : list byte),
    id < 2 ^ 32 -> nlen pre < 2 ^ 64 ->
    vpointer_in_range (snd (vwriter_append crc id pre k v)) = true.
(* appending never changes what an earlier pointer reads *)
Definition read_stable_under_append_stmt : Prop :=
  forall (crc : list byte -> N) (level : N) (f more : list byte) (p : vpointer),
    (N.to_nat (vpt_offset p) + (ELF + ELF + N.to_nat (vpt_ksize p) + N.to_nat (vpt_vsize p) + ECL) <= length f)%nat ->
    vlog_read crc level (f ++ more) p = vlog_read crc level f p.
Definition vheader_size_stmt : Prop :=
  vlog_params_ok = true -> forall id created maxsize, nlen (vheader_bytes id created maxsize) = VLOG_HEADER_SIZE.

(* A4. inline or pointer: a value goes to the value log iff `threshold < length value` *)
Definition separate_iff_stmt : Prop :=
  forall threshold len : N, separate_dec threshold len = true <-> threshold < len.
Definition maybe_separate_inline_stmt : Prop :=
  vlog_params_ok = true ->
  forall (have_vlog : bool) (threshold : N) (v : list byte),
    maybe_separate have_vlog threshold (vloc_encode (vloc_inline v)) =
    if have_vlog && (threshold <? nlen v) then VSepAppend v else VSepPass.
Definition maybe_separate_pointer_passes_stmt : Prop :=
  vlog_params_ok = true ->
  forall (have_vlog : bool) (threshold : N) (p : vpointer),
    maybe_separate have_vlog threshold (vloc_encode (vloc_with_pointer p)) = VSepPass.
