(* Codec/Regions_proofs.v — proofs of the statements of RegionsSpec.v. *)
From Coq Require Import List NArith Arith Bool Lia.
From SKV Require Import Params Codec.Wal Codec.WalSpec Codec.Wal_proofs Codec.Regions Codec.RegionsSpec.
Import ListNotations.

(* ------------------------------------------------------------------------------------ tiling *)
Lemma count_in_cons : forall x r rs,
  count_in x (r :: rs) = if in_region x r then S (count_in x rs) else count_in x rs.
Proof. intros. unfold count_in. simpl. destruct (in_region x r); reflexivity. Qed.

Lemma lay_count : forall fs s x,
  (s <= x < s + total fs -> count_in x (lay s fs) = 1) /\
  ((x < s \/ s + total fs <= x) -> count_in x (lay s fs) = 0).
Proof.
  induction fs as [|[n c] fs IH]; intros s x.
  - simpl. split; intros; [lia | reflexivity].
  - simpl lay. simpl total. rewrite count_in_cons. unfold in_region. simpl.
    destruct (IH (s + n) x) as [I1 I0].
    destruct (Nat.leb_spec s x) as [E1|E1]; destruct (Nat.ltb_spec x (s + n)) as [E2|E2]; simpl; split; intros Hx.
    + rewrite I0 by lia. reflexivity.
    + lia.
    + apply I1. lia.
    + apply I0. lia.
    + lia.
    + apply I0. lia.
    + lia.
    + apply I0. lia.
Qed.

Lemma lay_tiles : forall fs, tiles (lay 0 fs) (total fs).
Proof.
  intros fs x. destruct (lay_count fs 0 x) as [A B]. split; intros.
  - apply A. lia.
  - apply B. right. lia.
Qed.

Lemma total_app : forall a b, total (a ++ b) = total a + total b.
Proof. induction a as [|[n c] a IH]; intros; simpl; [reflexivity | rewrite IH; lia]. Qed.

Theorem table_regions_cover : table_regions_cover_stmt.
Proof. intros d. unfold table_regions, table_len. apply lay_tiles. Qed.

Theorem table_len_footer : table_len_footer_stmt.
Proof.
  intros d Hok. unfold table_len, table_fields. rewrite total_app. f_equal.
  unfold table_descr_ok in Hok. apply Nat.leb_le in Hok.
  unfold footer_fields. cbn [total].
  change HANDLES_AT with 2 in *. change FOOTER_LEN with 42 in *. change FULL_FOOTER_LEN with 50 in *.
  lia.
Qed.

(* commit log *)
Lemma wal_fields_cons : forall w d, wal_fields (w :: d) = witem_fields w ++ wal_fields d.
Proof. reflexivity. Qed.

Lemma wal_scan_S : forall B f pos rest, rest <> [] ->
  wal_scan B (S f) pos rest =
      let left := B - pos mod B in
      if left <? H then
        let n := Nat.min left (length rest) in
        WPad n :: wal_scan B f (pos + n) (skipn n rest)
      else if length rest <? H then [WTail (length rest)]
      else
        let len := N.to_nat (nth 4 rest 0%N) * 256 + N.to_nat (nth 5 rest 0%N) in
        let ty := nth 6 rest 0%N in
        if N.eqb ty 0 then
          let n := Nat.min left (length rest) in
          WPad n :: wal_scan B f (pos + n) (skipn n rest)
        else
          let n := Nat.min len (Nat.min (left - H) (length rest - H)) in
          WRec ty n :: wal_scan B f (pos + H + n) (skipn (H + n) rest).
Proof. intros B f pos rest Hne. destruct rest; [congruence | reflexivity]. Qed.

Lemma wal_scan_total : forall B, 0 < B -> forall fuel pos rest,
  length rest <= fuel -> total (wal_fields (wal_scan B fuel pos rest)) = length rest.
Proof.
  intros B HB. induction fuel as [|f IH]; intros pos rest Hl.
  - destruct rest; simpl in *; [reflexivity | lia].
  - destruct rest as [|b rest'] eqn:ER; [reflexivity|].
    rewrite <- ER in *.
    assert (Hne : rest <> []) by (rewrite ER; discriminate).
    assert (Hlen : 1 <= length rest) by (rewrite ER; simpl; lia).
    assert (Hleft : 1 <= B - pos mod B) by (pose proof (Nat.mod_upper_bound pos B); lia).
    rewrite (wal_scan_S B f pos rest Hne). cbv zeta.
    assert (Pad : forall n, n = Nat.min (B - pos mod B) (length rest) ->
              total (wal_fields (WPad n :: wal_scan B f (pos + n) (skipn n rest))) = length rest).
    { intros n Hn. rewrite wal_fields_cons, total_app. cbn [witem_fields total].
      rewrite IH by (rewrite skipn_length; lia). rewrite skipn_length. lia. }
    destruct (B - pos mod B <? H) eqn:E1.
    + apply Pad. reflexivity.
    + destruct (length rest <? H) eqn:E2.
      * rewrite wal_fields_cons. cbn [witem_fields wal_fields flat_map app total]. lia.
      * apply Nat.ltb_ge in E2.
        destruct (N.eqb (nth 6 rest 0%N) 0).
        { apply Pad. reflexivity. }
        { rewrite wal_fields_cons, total_app. cbn [witem_fields total].
          unfold H in *. rewrite IH by (rewrite skipn_length; lia). rewrite skipn_length. lia. }
Qed.

Theorem wal_regions_cover : wal_regions_cover_stmt.
Proof.
  intros B file HB. unfold wal_regions, wal_descr.
  rewrite <- (wal_scan_total B HB (length file) 0 file (le_n _)) at 2.
  apply lay_tiles.
Qed.

(* value log *)
Lemma vlog_scan_S : forall f rest, rest <> [] ->
  vlog_scan (S f) rest =
      if length rest <? 2 * VLF then [VTail (length rest)] else
      let k := be_nat (firstn VLF rest) in
      let v := be_nat (firstn VLF (skipn VLF rest)) in
      let n := 2 * VLF + k + v + VCL in
      if length rest <? n then [VTail (length rest)]
      else VEnt k v :: vlog_scan f (skipn n rest).
Proof. intros f rest Hne. destruct rest; [congruence | reflexivity]. Qed.

Lemma vlog_scan_total : forall fuel rest,
  length rest <= fuel -> total (flat_map vitem_fields (vlog_scan fuel rest)) = length rest.
Proof.
  induction fuel as [|f IH]; intros rest Hl.
  - destruct rest; simpl in *; [reflexivity | lia].
  - destruct rest as [|b rest'] eqn:ER; [reflexivity|].
    rewrite <- ER in *.
    assert (Hne : rest <> []) by (rewrite ER; discriminate).
    assert (Hlen : 1 <= length rest) by (rewrite ER; simpl; lia).
    rewrite (vlog_scan_S f rest Hne). cbv zeta.
    assert (EV : VLF = 4) by reflexivity. assert (EC : VCL = 4) by reflexivity.
    destruct (length rest <? 2 * VLF) eqn:E1.
    + cbn [flat_map vitem_fields app total]. lia.
    + apply Nat.ltb_ge in E1.
      match goal with |- context [length rest <? ?n] => set (n0 := n); destruct (length rest <? n0) eqn:E2 end.
      * cbn [flat_map vitem_fields app total]. lia.
      * apply Nat.ltb_ge in E2. cbn [flat_map]. rewrite total_app.
        rewrite IH by (rewrite skipn_length; unfold n0 in *; lia).
        rewrite skipn_length. unfold n0 in *. cbn [vitem_fields total]. lia.
Qed.

Lemma vlog_header_total : total vlog_header_fields = VH.
Proof. reflexivity. Qed.

Theorem vlog_regions_cover : vlog_regions_cover_stmt.
Proof.
  intros file. unfold vlog_regions.
  assert (E : total (vlog_fields file) = length file).
  { unfold vlog_fields. destruct (length file <? VH) eqn:E1.
    - simpl. lia.
    - apply Nat.ltb_ge in E1. rewrite total_app, vlog_header_total.
      rewrite vlog_scan_total; rewrite skipn_length; lia. }
  rewrite <- E. apply lay_tiles.
Qed.

(* ------------------------------------------------------------------------------------ segments of a file *)
Definition seg (l : list byte) (o n : nat) : list byte := firstn n (skipn o l).

Lemma seg_length : forall l o n, length (seg l o n) = Nat.min n (length l - o).
Proof. intros. unfold seg. rewrite firstn_length, skipn_length. reflexivity. Qed.

Lemma seg_nth : forall l o n i d, i < n -> nth i (seg l o n) d = nth (o + i) l d.
Proof. intros. unfold seg. rewrite nth_firstn' by assumption. apply nth_skipn'. Qed.

Lemma alter_length : forall f x v, length (alter f x v) = length f.
Proof.
  intros. unfold alter. destruct (Nat.ltb_spec x (length f)); [|reflexivity].
  rewrite app_length, firstn_length. cbn [length]. rewrite skipn_length. lia.
Qed.

Lemma alter_nth_other : forall f x v y d, y <> x -> nth y (alter f x v) d = nth y f d.
Proof.
  intros f x v y d Hne. unfold alter. destruct (Nat.ltb_spec x (length f)) as [Hx|Hx]; [|reflexivity].
  destruct (Nat.lt_ge_cases y x) as [Hy|Hy].
  - rewrite app_nth1 by (rewrite firstn_length; lia). apply nth_firstn'. assumption.
  - rewrite app_nth2 by (rewrite firstn_length; lia). rewrite firstn_length.
    replace (Nat.min x (length f)) with x by lia.
    destruct (y - x) as [|k] eqn:E; [lia|]. cbn [nth]. rewrite nth_skipn'. f_equal. lia.
Qed.

Lemma alter_nth_same : forall f x v d, x < length f -> nth x (alter f x v) d = v.
Proof.
  intros f x v d Hx. unfold alter. destruct (Nat.ltb_spec x (length f)); [|lia].
  rewrite app_nth2 by (rewrite firstn_length; lia). rewrite firstn_length.
  replace (x - Nat.min x (length f)) with 0 by lia. reflexivity.
Qed.

Lemma seg_alter_outside : forall f x v o n, (x < o \/ o + n <= x) -> seg (alter f x v) o n = seg f o n.
Proof.
  intros f x v o n Hout. apply nth_ext with (d := 0%N) (d' := 0%N).
  - rewrite !seg_length, alter_length. reflexivity.
  - intros i Hi. rewrite seg_length in Hi. rewrite !seg_nth by lia. apply alter_nth_other. lia.
Qed.

Lemma seg_alter_inside : forall f x v o n,
  o <= x < o + n -> x < length f -> v <> nth x f 0%N -> seg (alter f x v) o n <> seg f o n.
Proof.
  intros f x v o n Hin Hx Hv Heq. apply Hv.
  assert (E : nth (x - o) (seg (alter f x v) o n) 0%N = nth (x - o) (seg f o n) 0%N) by (rewrite Heq; reflexivity).
  rewrite !seg_nth in E by lia. replace (o + (x - o)) with x in E by lia.
  rewrite alter_nth_same in E by assumption. assumption.
Qed.

Lemma slice_z_seg : forall f o n, o + n <= length f -> slice_z f o n = seg f o n.
Proof.
  intros. unfold slice_z. fold (seg f o n). rewrite seg_length.
  replace (n - Nat.min n (length f - o)) with 0 by lia. simpl. apply app_nil_r.
Qed.

Lemma firstn_plus : forall {A} a b (l : list A), firstn (a + b) l = firstn a l ++ firstn b (skipn a l).
Proof. induction a as [|a IH]; intros b l; [reflexivity|]. destruct l; simpl; [destruct b; reflexivity | rewrite IH; reflexivity]. Qed.

Lemma seg_app : forall f o a b, seg f o a ++ seg f (o + a) b = seg f o (a + b).
Proof. intros. unfold seg. rewrite firstn_plus, skipn_skipn'. reflexivity. Qed.

Lemma seg_seg : forall f o n b a, b + a <= n -> firstn a (skipn b (seg f o n)) = seg f (o + b) a.
Proof.
  intros f o n b a Hle. unfold seg. rewrite skipn_firstn_comm, firstn_firstn, skipn_skipn'.
  f_equal. lia.
Qed.

Lemma list_eqb_neq : forall a b, a <> b -> list_eqb a b = false.
Proof. intros a b Hne. destruct (list_eqb a b) eqn:E; [|reflexivity]. exfalso. apply Hne. apply list_eqb_eq. assumption. Qed.

(* ------------------------------------------------------------------------------------ table blocks *)
Section ReaderProofs.
Variable crcm : list byte -> list byte.
Variable decompress : list byte -> option (list byte).
Variable vcrc : list byte -> list byte.

Lemma read_block_inbounds : forall f o n, o + n + CTL + CKL <= length f ->
  read_block crcm decompress f o n =
    if negb (list_eqb (crcm (seg f o (n + CTL))) (seg f (o + n + CTL) CKL)) then None
    else match seg f (o + n) CTL with
         | [t] => if N.eqb t 0 then Some (seg f o n) else if N.eqb t 1 then decompress (seg f o n) else None
         | _ => None
         end.
Proof.
  intros f o n Hb. unfold read_block.
  rewrite (slice_z_seg f o n), (slice_z_seg f (o + n) CTL), (slice_z_seg f (o + n + CTL) CKL) by lia.
  rewrite seg_app. reflexivity.
Qed.

Theorem block_damage_detected : block_damage_detected_stmt crcm decompress.
Proof.
  intros Hcl f o n x v [Hb Hok] Hx Hv Hnc.
  fold (seg f o (n + CTL)) in Hok. fold (seg f (o + n + CTL) CKL) in Hok.
  fold (seg (alter f x v) o (n + CTL)) in Hnc. fold (seg f o (n + CTL)) in Hnc.
  rewrite read_block_inbounds by (rewrite alter_length; assumption).
  assert (Hxl : x < length f) by lia.
  destruct (Nat.lt_ge_cases x (o + n + CTL)) as [Hp|Hc].
  - (* payload or type byte: the stored checksum is unchanged, the computed one differs *)
    rewrite (seg_alter_outside f x v (o + n + CTL) CKL) by lia.
    rewrite list_eqb_neq; [reflexivity|]. rewrite <- Hok. apply Hnc. assumption.
  - (* a byte of the stored checksum *)
    rewrite (seg_alter_outside f x v o (n + CTL)) by lia.
    rewrite list_eqb_neq; [reflexivity|]. rewrite Hok. intro E. symmetry in E. revert E.
    apply seg_alter_inside; [lia | assumption | assumption].
Qed.

Theorem block_read_local : block_read_local_stmt crcm decompress.
Proof.
  intros f o n x v Hb Hout.
  rewrite !read_block_inbounds by (try rewrite alter_length; assumption).
  rewrite (seg_alter_outside f x v o (n + CTL)), (seg_alter_outside f x v (o + n + CTL) CKL),
          (seg_alter_outside f x v (o + n) CTL), (seg_alter_outside f x v o n) by lia.
  reflexivity.
Qed.

(* ------------------------------------------------------------------------------------ footer *)
Theorem footer_fixed_fields_detected : footer_fixed_fields_detected_stmt.
Proof.
  intros f x v hs Hok Hv Hx. unfold footer_check in *.
  rewrite alter_length.
  destruct (length f <? FULL_FOOTER_LEN) eqn:EL; [discriminate|]. apply Nat.ltb_ge in EL.
  set (base := length f - FULL_FOOTER_LEN) in *.
  assert (EF : FULL_FOOTER_LEN = 50) by reflexivity. assert (EM : MAGIC_LEN = 8) by reflexivity.
  assert (EH : HANDLES_AT = 2) by reflexivity.
  rewrite !skipn_skipn' in *.
  destruct (list_eqb (skipn (base + (FULL_FOOTER_LEN - MAGIC_LEN)) f) TBL_MAGIC) eqn:Emag; [|discriminate].
  simpl negb in Hok. cbv iota in Hok.
  rewrite !nth_skipn' in *.
  destruct (N.eqb (nth (base + 0) f 0%N) 1) eqn:E0; [|discriminate].
  destruct (N.eqb (nth (base + 1) f 0%N) 1) eqn:E1; [|discriminate].
  apply N.eqb_eq in E0, E1. apply list_eqb_eq in Emag.
  assert (Hxl : x < length f) by (unfold base in *; lia).
  assert (Hseg : forall l k, skipn k l = seg l k (length l - k)).
  { intros l k. unfold seg. rewrite <- (skipn_length k l). symmetry. apply firstn_all. }
  destruct Hx as [Hx|Hx].
  - (* format / checksum-type byte *)
    assert (Emag' : list_eqb (skipn (base + (FULL_FOOTER_LEN - MAGIC_LEN)) (alter f x v)) TBL_MAGIC = true).
    { rewrite Hseg, alter_length, seg_alter_outside by (unfold base in *; lia). rewrite <- Hseg, Emag. apply list_eqb_refl. }
    rewrite Emag'. simpl negb. cbv iota.
    destruct (Nat.eq_dec x (base + 0)) as [X0|X0].
    + subst x. rewrite alter_nth_same by assumption.
      destruct (N.eqb v 1) eqn:Ev; [apply N.eqb_eq in Ev; congruence | reflexivity].
    + assert (X1 : x = base + 1) by (unfold base in *; lia). subst x.
      rewrite alter_nth_other by lia. rewrite E0. simpl negb. cbv iota.
      rewrite alter_nth_same by assumption.
      destruct (N.eqb v 1) eqn:Ev; [apply N.eqb_eq in Ev; congruence | reflexivity].
  - (* magic *)
    rewrite list_eqb_neq; [reflexivity|]. rewrite <- Emag.
    rewrite (Hseg (alter f x v)), (Hseg f), alter_length.
    apply seg_alter_inside; [unfold base in *; lia | assumption | assumption].
Qed.

Theorem reader_total : reader_total_stmt crcm decompress vcrc.
Proof.
  intros f o n p. repeat split.
  - destruct (read_block crcm decompress f o n); [right; eexists; reflexivity | left; reflexivity].
  - destruct (footer_check f); [right; eexists; reflexivity | left; reflexivity].
  - destruct (vlog_get vcrc f p); [right; eexists; reflexivity | left; reflexivity].
Qed.
End ReaderProofs.

(* ------------------------------------------------------------------------------------ commit log corollary *)
Lemma alter_firstn : forall f x v, firstn x (alter f x v) = firstn x f.
Proof.
  intros. unfold alter. destruct (Nat.ltb_spec x (length f)); [|reflexivity].
  rewrite firstn_app, firstn_firstn, firstn_length.
  replace (Nat.min x x) with x by lia. replace (x - Nat.min x (length f)) with 0 by lia.
  simpl. apply app_nil_r.
Qed.

Theorem wal_damage_prefix : wal_damage_prefix_stmt.
Proof.
  intros B crc decompress HB f x v. split.
  - apply (wal_prefix_stable B crc (fun l => l) decompress HB (alter f x v) f x). apply alter_firstn.
  - apply (wal_prefix_stable B crc (fun l => l) decompress HB (firstn x f) f x).
    rewrite firstn_firstn. f_equal. lia.
Qed.

(* ------------------------------------------------------------------------------------ value log *)
Lemma be_N_acc : forall l a, fold_left (fun a b => (a * 256 + b)%N) l a = (a * 256 ^ N.of_nat (length l) + be_N l)%N.
Proof.
  unfold be_N. induction l as [|b l IH]; intros a.
  - simpl. lia.
  - cbn [fold_left length]. rewrite IH. rewrite (IH (0 * 256 + b)%N).
    rewrite Nat2N.inj_succ, N.pow_succ_r'. lia.
Qed.

Lemma be_N_bound : forall l, (forall b, In b l -> (b < 256)%N) -> (be_N l < 256 ^ N.of_nat (length l))%N.
Proof.
  induction l as [|b l IH]; intros Hb.
  - simpl. unfold be_N. simpl. lia.
  - unfold be_N. cbn [fold_left]. rewrite be_N_acc. cbn [length]. rewrite Nat2N.inj_succ, N.pow_succ_r'.
    assert (b < 256)%N by (apply Hb; left; reflexivity).
    assert (be_N l < 256 ^ N.of_nat (length l))%N by (apply IH; intros; apply Hb; right; assumption).
    nia.
Qed.

Lemma be_N_inj : forall l1 l2, length l1 = length l2 ->
  (forall b, In b l1 -> (b < 256)%N) -> (forall b, In b l2 -> (b < 256)%N) -> be_N l1 = be_N l2 -> l1 = l2.
Proof.
  induction l1 as [|a l1 IH]; intros l2 Hl H1 H2 He; destruct l2 as [|b l2]; try discriminate; [reflexivity|].
  simpl in Hl. injection Hl as Hl.
  unfold be_N in He. cbn [fold_left] in He. rewrite !be_N_acc in He. rewrite <- Hl in He.
  assert (B1 : (be_N l1 < 256 ^ N.of_nat (length l1))%N) by (apply be_N_bound; intros; apply H1; right; assumption).
  assert (B2 : (be_N l2 < 256 ^ N.of_nat (length l1))%N) by (rewrite Hl; apply be_N_bound; intros; apply H2; right; assumption).
  set (P := (256 ^ N.of_nat (length l1))%N) in *.
  assert (Eab : a = b).
  { destruct (N.lt_trichotomy a b) as [L|[E|L]]; [exfalso|assumption|exfalso].
    - assert ((a + 1) * P <= b * P)%N by (apply N.mul_le_mono_r; lia). lia.
    - assert ((b + 1) * P <= a * P)%N by (apply N.mul_le_mono_r; lia). lia. }
  subst b. assert (El : be_N l1 = be_N l2) by lia.
  f_equal. apply IH.
  - assumption.
  - intros c Hc. apply H1. right. assumption.
  - intros c Hc. apply H2. right. assumption.
  - assumption.
Qed.

Lemma alter_bytes : forall (f : list byte) x (v : byte), (forall b, In b f -> (b < 256)%N) -> (v < 256)%N ->
  forall b, In b (alter f x v) -> (b < 256)%N.
Proof.
  intros f x v Hf Hv b. unfold alter. destruct (x <? length f); intros Hin; [|apply Hf; assumption].
  apply in_app_or in Hin. destruct Hin as [Hin|[Hin|Hin]].
  - apply Hf. eapply In_firstn. eassumption.
  - subst. assumption.
  - apply Hf. revert Hin. generalize (S x). intros k. revert f Hf. induction k; intros f Hf Hin; [assumption|].
    destruct f; [destruct Hin|]. simpl in Hin. right. apply IHk with (f := f); [intros; apply Hf; right|]; assumption.
Qed.

Lemma seg_bytes : forall (f : list byte) o n, (forall b, In b f -> (b < 256)%N) -> forall b, In b (seg f o n) -> (b < 256)%N.
Proof.
  intros f o n Hf b Hin. unfold seg in Hin. apply In_firstn in Hin.
  apply Hf. revert f Hf Hin. induction o; intros f Hf Hin; [assumption|].
  destruct f; [destruct Hin|]. simpl in Hin. right. apply IHo with (f := f); [intros; apply Hf; right|]; assumption.
Qed.

Section VlogProofs.
Variable vcrc : list byte -> list byte.

Definition vlog_get_segs (f : list byte) (p : vptr) : option (list byte) :=
  let o := vp_off p in
  if negb (N.eqb (be_N (seg f o VLF)) (N.of_nat (vp_k p))) then None else
  if negb (N.eqb (be_N (seg f (o + VLF) VLF)) (N.of_nat (vp_v p))) then None else
  if negb (list_eqb (seg f (o + 2 * VLF + vp_k p + vp_v p) VCL) (vp_crc p)) then None else
  if negb (list_eqb (vcrc (seg f (o + 2 * VLF) (vp_k p + vp_v p))) (vp_crc p)) then None else
  Some (seg f (o + 2 * VLF + vp_k p) (vp_v p)).

Lemma firstn_seg : forall f o n a, a <= n -> firstn a (seg f o n) = seg f o a.
Proof. intros f o n a Ha. pose proof (seg_seg f o n 0 a Ha) as E. rewrite Nat.add_0_r in E. exact E. Qed.

Lemma vlog_get_inbounds : forall f p,
  vp_off p + (2 * VLF + vp_k p + vp_v p + VCL) <= length f -> vlog_get vcrc f p = vlog_get_segs f p.
Proof.
  intros f p Hb. unfold vlog_get, vlog_get_segs. rewrite slice_z_seg by assumption.
  set (T := 2 * VLF + vp_k p + vp_v p + VCL). set (o := vp_off p).
  rewrite (firstn_seg f o T VLF) by (unfold T; lia).
  rewrite (seg_seg f o T VLF VLF) by (unfold T; lia).
  rewrite (seg_seg f o T (2 * VLF) (vp_k p)) by (unfold T; lia).
  rewrite (seg_seg f o T (2 * VLF + vp_k p) (vp_v p)) by (unfold T; lia).
  rewrite (seg_seg f o T (2 * VLF + vp_k p + vp_v p) VCL) by (unfold T; lia).
  rewrite !Nat.add_assoc. rewrite seg_app. reflexivity.
Qed.

Lemma be_nat_seg_changed : forall (f : list byte) x (w : byte) o,
  (forall b, In b f -> (b < 256)%N) -> (w < 256)%N ->
  o + VLF <= length f -> o <= x < o + VLF -> w <> nth x f 0%N ->
  be_N (seg (alter f x w) o VLF) <> be_N (seg f o VLF).
Proof.
  intros f x w o Hf Hw Hb Hx Hne E.
  apply be_N_inj in E.
  - revert E. apply seg_alter_inside; [assumption | unfold byte in *; lia | assumption].
  - rewrite !seg_length, alter_length. reflexivity.
  - apply seg_bytes. apply alter_bytes; assumption.
  - apply seg_bytes. assumption.
Qed.

Theorem vlog_full_detected : vlog_full_detected_stmt vcrc.
Proof.
  intros f p x w Hf Hw [Hb [val Hok]] Hx Hne Hnc.
  fold (seg (alter f x w) (vp_off p + 2 * VLF) (vp_k p + vp_v p)) in Hnc.
  fold (seg f (vp_off p + 2 * VLF) (vp_k p + vp_v p)) in Hnc.
  rewrite vlog_get_inbounds in Hok by assumption.
  rewrite vlog_get_inbounds by (rewrite alter_length; assumption).
  unfold vlog_get_segs in *.
  set (o := vp_off p) in *. set (k := vp_k p) in *. set (v := vp_v p) in *.
  destruct (N.eqb (be_N (seg f o VLF)) (N.of_nat k)) eqn:E1; [|discriminate]. apply N.eqb_eq in E1.
  destruct (N.eqb (be_N (seg f (o + VLF) VLF)) (N.of_nat v)) eqn:E2; [|discriminate]. apply N.eqb_eq in E2.
  destruct (list_eqb (seg f (o + 2 * VLF + k + v) VCL) (vp_crc p)) eqn:E3; [|discriminate]. apply list_eqb_eq in E3.
  destruct (list_eqb (vcrc (seg f (o + 2 * VLF) (k + v))) (vp_crc p)) eqn:E4; [|discriminate]. apply list_eqb_eq in E4.
  clear Hok.
  assert (Hxl : x < length f) by lia.
  destruct (Nat.lt_ge_cases x (o + VLF)) as [C1|C1].
  { (* key length field *)
    assert (N1 : be_N (seg (alter f x w) o VLF) <> N.of_nat k) by (rewrite <- E1; apply be_nat_seg_changed; try assumption; lia).
    apply N.eqb_neq in N1. rewrite N1. reflexivity. }
  rewrite (seg_alter_outside f x w o VLF) by lia.
  rewrite E1, N.eqb_refl. cbn [negb].
  destruct (Nat.lt_ge_cases x (o + 2 * VLF)) as [C2|C2].
  { (* value length field *)
    assert (N2 : be_N (seg (alter f x w) (o + VLF) VLF) <> N.of_nat v) by (rewrite <- E2; apply be_nat_seg_changed; try assumption; lia).
    apply N.eqb_neq in N2. rewrite N2. reflexivity. }
  rewrite (seg_alter_outside f x w (o + VLF) VLF) by lia.
  rewrite E2, N.eqb_refl. cbn [negb].
  destruct (Nat.lt_ge_cases x (o + 2 * VLF + k + v)) as [C3|C3].
  { (* key or value byte: stored checksum unchanged, computed one differs *)
    rewrite (seg_alter_outside f x w (o + 2 * VLF + k + v) VCL) by lia.
    rewrite E3, list_eqb_refl. cbn [negb].
    rewrite list_eqb_neq; [reflexivity|]. rewrite <- E4. apply Hnc. lia. }
  (* stored checksum *)
  rewrite list_eqb_neq; [reflexivity|]. rewrite <- E3.
  apply seg_alter_inside; [lia | assumption | assumption].
Qed.
End VlogProofs.
