(* Codec/Wal.v — executable model of the commit-log framing (src/wal/writer.rs,
   src/wal/reader.rs, src/wal/manager.rs create_writer, src/wal/recovery.rs repair).
   Definitions only; proofs are in Wal_proofs.v.
   B = BLOCK_SIZE (parameter), header = crc(4, big endian) len(2, big endian) type(1). *)
From Coq Require Import List NArith Arith Bool Lia.
Import ListNotations.

Definition byte := N.

Inductive tail := Eof | Corrupt (why : N) (pos : nat).

(* corruption kinds, numbered as the harness numbers the implementation's messages *)
Definition W_BADTYPE : N := 1.      (* Invalid Record Type *)
Definition W_PADDING : N := 2.      (* non-zero byte in padding area *)
Definition W_SEQUENCE : N := 3.     (* Unexpected full/first/middle/last record, Invalid record type *)
Definition W_LENGTH : N := 4.       (* bad record length - exceeds block boundary *)
Definition W_CHECKSUM : N := 5.     (* checksum mismatch *)
Definition W_COMPTRUNC : N := 6.    (* truncated compression type record *)
Definition W_COMPTYPE : N := 7.     (* Invalid Compression Type *)
Definition W_DECOMPRESS : N := 8.   (* LZ4 decompression failed *)
Definition W_FUEL : N := 99.        (* model fuel exhausted: never reached, see Wal_proofs *)

Fixpoint list_eqb (a b : list byte) : bool :=
  match a, b with
  | [], [] => true
  | x :: r, y :: q => N.eqb x y && list_eqb r q
  | _, _ => false
  end.

Section WalModel.
Variable B : nat.                               (* BLOCK_SIZE *)
Definition H : nat := 7.                        (* HEADER_SIZE: fixed by the layout 4+2+1 *)
Variable crc : N -> list byte -> list byte.     (* type byte, data -> 4 bytes *)
Variable compress : list byte -> list byte.
Variable decompress : list byte -> option (list byte).

Definition T_EMPTY : N := 0.
Definition T_FULL : N := 1.
Definition T_FIRST : N := 2.
Definition T_MIDDLE : N := 3.
Definition T_LAST : N := 4.
Definition T_SETCOMP : N := 9.

(* ------------------------------------------------------------------ writer *)
Definition header (ty : N) (d : list byte) : list byte :=
  crc ty d ++ [N.of_nat (length d / 256); N.of_nat (length d mod 256); ty].
Definition phys (ty : N) (d : list byte) : list byte := header ty d ++ d.

(* Writer::add_record's loop; returns emitted bytes and the new block_offset *)
Fixpoint emit (fuel : nat) (off : nat) (p : list byte) (begin : bool) : list byte * nat :=
  match fuel with
  | O => ([], off)
  | S f =>
    let leftover := B - off in
    let pad := if leftover <? H then repeat 0%N leftover else [] in
    let off1 := if leftover <? H then 0 else off in
    let avail := B - off1 - H in
    let n := Nat.min (length p) avail in
    let frag := firstn n p in
    let rest := skipn n p in
    let is_end := Nat.eqb n (length p) in
    let ty := if begin then (if is_end then T_FULL else T_FIRST)
              else (if is_end then T_LAST else T_MIDDLE) in
    let out := pad ++ phys ty frag in
    let off2 := off1 + H + n in
    if is_end then (out, off2)
    else let '(more, off3) := emit f off2 rest false in (out ++ more, off3)
  end.

Definition add_record (comp : bool) (off : nat) (p : list byte) : list byte * nat :=
  let d := if comp then compress p else p in
  emit (2 * length d + 2) off d true.

(* Wal::append rejects the empty record; other records are framed *)
Fixpoint add_records (comp : bool) (off : nat) (ps : list (list byte)) : list byte * nat :=
  match ps with
  | [] => ([], off)
  | p :: r =>
    match p with
    | [] => add_records comp off r
    | _ => let '(a, o1) := add_record comp off p in
           let '(b, o2) := add_records comp o1 r in (a ++ b, o2)
    end
  end.

(* Wal::create_writer on an existing (possibly empty) segment: compression is
   detected from the first header of an existing non-empty file *)
Definition detect_compression (file : list byte) : option bool :=
  if length file <? H then Some false else
  let ty := nth 6 file 0%N in
  if negb (N.eqb ty 0 || N.eqb ty 1 || N.eqb ty 2 || N.eqb ty 3 || N.eqb ty 4 || N.eqb ty 9) then None else
  if N.eqb ty T_SETCOMP then
    let len := N.to_nat (nth 4 file 0%N) * 256 + N.to_nat (nth 5 file 0%N) in
    if 1 <=? len then
      match nth_error file 7 with
      | None => None
      | Some c => if N.eqb c 0 then Some false else if N.eqb c 1 then Some true else None
      end
    else Some false
  else Some false.

(* ------------------------------------------------------------------ reader *)
Record rst := { acc : list byte; idx : nat; comp : bool }.
Definition rst0 : rst := {| acc := []; idx := 0; comp := false |}.

Definition valid_type (ty : N) : bool :=
  N.eqb ty 0 || N.eqb ty 1 || N.eqb ty 2 || N.eqb ty 3 || N.eqb ty 4 || N.eqb ty 9.

(* validate_record_type: Full/First need index 0, Middle/Last need index <> 0 *)
Definition type_ok (ty : N) (i : nat) : bool :=
  if N.eqb ty T_FULL || N.eqb ty T_FIRST then Nat.eqb i 0
  else if N.eqb ty T_MIDDLE || N.eqb ty T_LAST then negb (Nat.eqb i 0)
  else false.

Definition all_zero (l : list byte) : bool := forallb (N.eqb 0) l.

(* Reader::next inside one buffered block.  o = buffer_offset, base = file offset of the
   block start.  Result: delivered (record, offset after it), state, Some tail if reading stops. *)
Fixpoint parse_block (fuel : nat) (blk : list byte) (o base : nat) (st : rst)
  : list (list byte * nat) * rst * option tail :=
  match fuel with
  | O => ([], st, Some (Corrupt W_FUEL 0))
  | S f =>
    if length blk - o <? H then ([], st, None) else
    let c := firstn 4 (skipn o blk) in
    let len := N.to_nat (nth (o + 4) blk 0%N) * 256 + N.to_nat (nth (o + 5) blk 0%N) in
    let ty := nth (o + 6) blk 0%N in
    let o1 := o + H in
    let rem1 := length blk - o1 in
    if negb (valid_type ty) then ([], st, Some (Corrupt W_BADTYPE (base + o1))) else
    if N.eqb ty T_EMPTY then
      if all_zero (skipn o1 blk) then ([], st, None)
      else ([], st, Some (Corrupt W_PADDING (base + o1)))
    else if N.eqb ty T_SETCOMP then
      if rem1 <? len then ([], st, Some (Corrupt W_COMPTRUNC (base + o1)))
      else if negb (list_eqb (crc ty (firstn len (skipn o1 blk))) c) then ([], st, Some (Corrupt W_CHECKSUM (base + o1)))
      else if Nat.eqb len 0 then parse_block f blk o1 base st
      else
        let cb := nth o1 blk 0%N in
        if N.eqb cb 0 then parse_block f blk (o1 + len) base {| acc := acc st; idx := idx st; comp := false |}
        else if N.eqb cb 1 then parse_block f blk (o1 + len) base {| acc := acc st; idx := idx st; comp := true |}
        else ([], st, Some (Corrupt W_COMPTYPE (base + o1 + len)))
    else
      if negb (type_ok ty (idx st)) then ([], st, Some (Corrupt W_SEQUENCE (base + o1))) else
      if rem1 <? len then ([], st, Some (Corrupt W_LENGTH (base + o1))) else
      let d := firstn len (skipn o1 blk) in
      if negb (list_eqb (crc ty d) c) then ([], st, Some (Corrupt W_CHECKSUM (base + o1))) else
      let acc' := acc st ++ d in
      let o2 := o1 + len in
      if N.eqb ty T_LAST || N.eqb ty T_FULL then
        let r := if comp st && negb (match acc' with [] => true | _ => false end)
                 then decompress acc' else Some acc' in
        match r with
        | None => ([], st, Some (Corrupt W_DECOMPRESS (base + o2)))
        | Some rec =>
          let '(out, st', t) := parse_block f blk o2 base {| acc := []; idx := 0; comp := comp st |} in
          ((rec, base + o2) :: out, st', t)
        end
      else parse_block f blk o2 base {| acc := acc'; idx := S (idx st); comp := comp st |}
  end.

(* the file as the reader buffers it: blocks of B bytes, the last possibly short *)
Fixpoint chunks (fuel : nat) (l : list byte) : list (list byte) :=
  match fuel with
  | O => []
  | S f => match l with
           | [] => []
           | _ => firstn B l :: chunks f (skipn B l)
           end
  end.

Fixpoint read_blocks (blks : list (list byte)) (base : nat) (st : rst)
  : list (list byte * nat) * tail :=
  match blks with
  | [] => ([], Eof)
  | blk :: rest =>
    let '(out, st', stop) := parse_block (length blk) blk 0 base st in
    match stop with
    | Some t => (out, t)
    | None => let '(out2, t) := read_blocks rest (base + length blk) st' in (out ++ out2, t)
    end
  end.

Definition read_all (file : list byte) : list (list byte * nat) * tail :=
  read_blocks (chunks (length file) file) 0 rst0.

Definition records (file : list byte) : list (list byte) := map fst (fst (read_all file)).

(* ------------------------------------------------------------------ sessions *)
(* Wal::create_writer on an existing segment first drops a torn tail: the segment is cut back to the
   prefix that replay delivers when replay ends with a clean end of log (a leading
   SetCompressionType record is kept); a damaged segment (corruption report) is left as it is. *)
Definition comp_header_len (file : list byte) : nat :=
  if length file <? H then 0 else
  if N.eqb (nth 6 file 0%N) T_SETCOMP then
    let len := N.to_nat (nth 4 file 0%N) * 256 + N.to_nat (nth 5 file 0%N) in
    if H + len <=? length file then H + len else 0
  else 0.
Definition valid_prefix_len (file : list byte) : option nat :=
  let '(recs, t) := read_all file in
  match t with
  | Eof => Some (Nat.max (last (map snd recs) 0) (comp_header_len file))
  | Corrupt _ _ => None
  end.
Definition drop_torn_tail (file : list byte) : list byte :=
  match valid_prefix_len file with
  | Some e => if e <? length file then firstn e file else file
  | None => file
  end.

(* one session: open, append all, close.  None = open failed *)
Definition session (want_comp : bool) (file0 : list byte) (ps : list (list byte)) : option (list byte) :=
  let file := drop_torn_tail file0 in
  match file with
  | [] =>
    let pre := if want_comp then phys T_SETCOMP [1%N] else [] in
    Some (pre ++ fst (add_records want_comp (length pre) ps))
  | _ =>
    match detect_compression file with
    | None => None
    | Some c => Some (file ++ fst (add_records c (length file mod B) ps))
    end
  end.

Fixpoint sessions (want_comp : bool) (file : list byte) (ss : list (list (list byte))) : option (list byte) :=
  match ss with
  | [] => Some file
  | ps :: r => match session want_comp file ps with
               | None => None
               | Some f => sessions want_comp f r
               end
  end.

(* ------------------------------------------------------------------ repair *)
(* repair_corrupted_wal_segment: re-append the delivered records to a fresh segment
   (Options::default(): no compression); no delivered record -> the segment is deleted *)
Definition repair (file : list byte) : option (list byte) :=
  match records file with
  | [] => None
  | rs => Some (fst (add_records false 0 rs))
  end.

(* ------------------------------------------------------- known class F10/F11 *)
(* A file has a *clean tail* when replay repairs it (corruption report) or when everything after
   the last delivered record is (part of) the zero padding that ends a block.  Otherwise the
   reader skips bytes as a clean end of log which the writer then appends after: those are the
   inputs on which the pinned code loses appended records (known_unparsed_tail). *)
Definition last_end (l : list (list byte * nat)) : nat := last (map snd l) 0.
Definition clean_tail (file : list byte) : bool :=
  let '(recs, t) := read_all file in
  match t with
  | Corrupt _ _ => true
  | Eof =>
    let e := last_end recs in
    let rest := skipn e file in
    match rest with
    | [] => true
    | _ => all_zero rest && (B - e mod B <? H) && (length rest <=? B - e mod B)
    end
  end.
Definition known_unparsed_tail (file : list byte) : bool := negb (clean_tail file).

End WalModel.
