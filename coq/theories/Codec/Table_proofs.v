(* Codec/Table_proofs.v — structure of a built table (blocks, index entries, partitions, top-level
   index) and the proofs of get_correct and range_predicates_sound (TableSpec.v). *)
From Coq Require Import List NArith Bool Arith Lia Sorted.
From SKV Require Import Params Base.Lex Codec.IKey Codec.Separator Codec.SeparatorSpec Codec.Separator_proofs
  Codec.Table Codec.TableSpec Codec.Block_proofs.
Import ListNotations.
Arguments Nat.div : simpl never. Arguments Nat.modulo : simpl never.

(* ---------- chunk ---------- *)
Definition sum (cs : list nat) : nat := fold_right Nat.add 0 cs.
Definition all_pos (cs : list nat) : Prop := Forall (fun c => 0 < c) cs.
Definition nonempty_all {A} (bs : list (list A)) : Prop := Forall (fun c => c <> []) bs.

Lemma chunking_ok_spec : forall n cs, chunking_ok n cs = true <-> all_pos cs /\ sum cs = n.
Proof.
  intros n cs. unfold chunking_ok, all_pos, sum. rewrite andb_true_iff, forallb_forall, Forall_forall, Nat.eqb_eq.
  split; intros [H1 H2]; split; auto; intros x Hx; specialize (H1 x Hx); [apply Nat.ltb_lt in H1|apply Nat.ltb_lt]; auto.
Qed.
Lemma chunk_concat : forall A cs (l : list A), sum cs = length l -> concat (chunk l cs) = l.
Proof.
  intros A cs. induction cs as [|c r IH]; intros l H; simpl in *.
  - destruct l; simpl in *; auto. discriminate.
  - rewrite IH. apply firstn_skipn. rewrite skipn_length. lia.
Qed.
Lemma chunk_length : forall A cs (l : list A), length (chunk l cs) = length cs.
Proof. intros A cs. induction cs; intros l; simpl; auto. Qed.
Lemma chunk_nonempty : forall A cs (l : list A), all_pos cs -> sum cs = length l -> nonempty_all (chunk l cs).
Proof.
  intros A cs. induction cs as [|c r IH]; intros l Hp H; simpl in *. constructor.
  inversion Hp. subst. constructor.
  - intros E. apply (f_equal (@length A)) in E. rewrite firstn_length in E. simpl in E. lia.
  - apply IH; auto. rewrite skipn_length. lia.
Qed.

(* ---------- first / last key ---------- *)
Lemma last_key_app : forall V (pre : keyed V) x, last_key (pre ++ [x]) = fst x.
Proof. intros V pre [k v]. unfold last_key. rewrite rev_app_distr. reflexivity. Qed.
Lemma nonempty_last : forall A (l : list A), l <> [] -> exists pre x, l = pre ++ [x].
Proof. intros A l H. destruct (exists_last H) as [pre [x E]]. eauto. Qed.
Lemma le_last_key : forall V (l : keyed V) e, ksorted l -> In e l -> ik_le (fst e) (last_key l).
Proof.
  intros V l e Hs Hin. destruct l as [|y r]. contradiction.
  destruct (nonempty_last _ (y :: r)) as [pre [x E]]. discriminate. rewrite E in *. rewrite last_key_app.
  apply in_app_or in Hin. destruct Hin as [Hin|[<-|[]]].
  - apply ik_lt_le. apply ksorted_app in Hs. destruct Hs as [_ [_ H]]. apply H; simpl; auto.
  - apply ik_le_refl.
Qed.
Lemma last_key_in : forall V (l : keyed V), l <> [] -> exists v, In (last_key l, v) l.
Proof.
  intros V l H. destruct (nonempty_last _ l H) as [pre [[k v] E]]. subst. rewrite last_key_app. exists v.
  apply in_or_app. right. simpl. auto.
Qed.
Lemma first_key_in : forall V (l : keyed V), l <> [] -> exists v, In (first_key l, v) l.
Proof. intros V [|[k v] r] H. contradiction. exists v. simpl. auto. Qed.
Lemma first_key_le : forall V (l : keyed V) e, ksorted l -> In e l -> ik_le (first_key l) (fst e).
Proof.
  intros V [|[k v] r] e Hs Hin. contradiction. simpl. destruct Hin as [<-|Hin]. apply ik_le_refl.
  inversion Hs. subst. rewrite Forall_forall in H2. apply ik_lt_le. apply (H2 e Hin).
Qed.

Lemma ik_separator_ge : forall a b, ik_le a (ik_separator a b).
Proof.
  intros a b. destruct (ik_separator_shape a b) as [H|[H _]]. rewrite H. apply ik_le_refl.
  apply ik_lt_le. apply uk_lt_ik_lt. exact H.
Qed.

(* ---------- index entries ---------- *)
Lemma index_entries_length : forall bl i, length (index_entries i bl) = length bl.
Proof. induction bl as [|b r IH]; intros i; simpl; auto. Qed.

Lemma index_entries_nth : forall bl i k key h,
  nth_error (index_entries i bl) k = Some (key, h) ->
  h = i + k /\ exists blk, nth_error bl k = Some blk /\ ik_le (last_key blk) key /\
    (forall nb, nth_error bl (S k) = Some nb -> key = ik_separator (last_key blk) (first_key nb)).
Proof.
  induction bl as [|b r IH]; intros i k key h H; simpl in H.
  - destruct k; discriminate.
  - destruct k as [|k]; simpl in H.
    + inversion H. subst. split. lia. exists b. split. reflexivity. split. apply ik_separator_ge.
      intros nb Hn. simpl in Hn. destruct r; simpl in Hn. discriminate. inversion Hn. reflexivity.
    + apply IH in H. destruct H as [H1 [blk [H2 [H3 H4]]]]. split. lia. exists blk. auto.
Qed.

Lemma ksorted_concat_cons : forall V (b : keyed V) r, ksorted (concat (b :: r)) ->
  ksorted b /\ ksorted (concat r) /\ (forall x y, In x b -> In y (concat r) -> ik_lt (fst x) (fst y)).
Proof. intros V b r H. simpl in H. apply ksorted_app. exact H. Qed.

Lemma index_entries_sorted : forall bl i, nonempty_all bl -> ksorted (concat bl) -> ksorted (index_entries i bl).
Proof.
  intros bl i Hne Hs. apply Sorted_StronglySorted.
  { intros x y z. apply ik_lt_trans. }
  revert i Hne Hs. induction bl as [|b r IH]; intros i Hne Hs; simpl. constructor.
  inversion Hne as [|? ? Hb Hr]. subst. destruct (ksorted_concat_cons _ _ _ Hs) as [S1 [S2 S3]].
  constructor. apply IH; auto.
  destruct r as [|nb r']; simpl. constructor. constructor. simpl.
  inversion Hr as [|? ? Hnb Hr']. subst.
  destruct (last_key_in _ b Hb) as [v1 L1]. destruct (first_key_in _ nb Hnb) as [v2 F2].
  assert (Hlt : ik_lt (last_key b) (first_key nb)).
  { apply (S3 (last_key b, v1) (first_key nb, v2) L1). simpl. apply in_or_app. left. exact F2. }
  eapply ik_lt_le_trans. apply (ik_separator_between _ _ Hlt).
  destruct (ksorted_concat_cons _ _ _ S2) as [S1' _].
  eapply ik_le_trans. 2: apply ik_separator_ge.
  destruct (last_key_in _ nb Hnb) as [v3 L3]. apply (first_key_le _ nb _ S1' L3).
Qed.

(* ---------- top-level entries ---------- *)
Lemma top_entries_length : forall ps j, length (top_entries j ps) = length ps.
Proof. induction ps as [|p r IH]; intros j; simpl; auto. Qed.
Lemma top_entries_nth : forall ps j k key h,
  nth_error (top_entries j ps) k = Some (key, h) ->
  h = j + k /\ exists part, nth_error ps k = Some part /\ key = last_key part.
Proof.
  induction ps as [|p r IH]; intros j k key h H; simpl in H.
  - destruct k; discriminate.
  - destruct k as [|k]; simpl in H.
    + inversion H. subst. split. lia. exists p. auto.
    + apply IH in H. destruct H as [H1 [part [H2 H3]]]. split. lia. exists part. auto.
Qed.

(* ---------- find_partition ---------- *)
Lemma find_partition_none : forall top t, find_partition top t = None -> forall e, In e top -> ik_lt (fst e) t.
Proof.
  intros top t H e Hin. unfold find_partition in H.
  destruct (nth_error top (partition_point (fun e => ik_ltb (fst e) t) top)) as [x|] eqn:E.
  - pose proof (pp_at _ _ _ E) as Hx. simpl in Hx. apply ik_ltb_false in Hx. apply ik_leb_le in Hx. rewrite Hx in H. discriminate.
  - apply nth_error_None in E. pose proof (pp_le (fun e => ik_ltb (fst e) t) top).
    apply ik_ltb_lt. apply (pp_all (fun e => ik_ltb (fst e) t) top); auto. apply Nat.le_antisymm; [exact H0 | exact E].
Qed.
Lemma find_partition_some : forall top t idx e, find_partition top t = Some (idx, e) ->
  nth_error top idx = Some e /\ ik_le t (fst e) /\
  (forall i x, i < idx -> nth_error top i = Some x -> ik_lt (fst x) t).
Proof.
  intros top t idx e H. unfold find_partition in H.
  destruct (nth_error top (partition_point (fun e => ik_ltb (fst e) t) top)) as [x|] eqn:E; [|discriminate].
  destruct (ik_leb t (fst x)) eqn:L; [|discriminate]. inversion H. subst. split. exact E. split.
  apply ik_leb_le. exact L. intros i y Hi Hy. apply ik_ltb_lt. apply (pp_before (fun e => ik_ltb (fst e) t) top i y Hi Hy).
Qed.

(* ---------- locating the index entry of a target ---------- *)
Lemma nth_error_split : forall A (l : list A) i x, nth_error l i = Some x ->
  exists a b, l = a ++ x :: b /\ length a = i.
Proof. intros A l i x H. apply nth_error_split in H. exact H. Qed.
Lemma in_concat_nth : forall A (ls : list (list A)) x, In x (concat ls) ->
  exists i l, nth_error ls i = Some l /\ In x l.
Proof.
  intros A ls x H. apply in_concat in H. destruct H as [l [H1 H2]]. apply In_nth_error in H1.
  destruct H1 as [i H1]. eauto.
Qed.

Section Locate.
Variable ix : list ientry.
Variable parts : list (list ientry).
Hypothesis ix_sorted : ksorted ix.
Hypothesis parts_concat : concat parts = ix.
Hypothesis parts_nonempty : nonempty_all parts.
Let top := top_entries 0 parts.

Lemma part_sorted : forall j part, nth_error parts j = Some part -> ksorted part.
Proof.
  intros j part H. destruct (nth_error_split _ _ _ _ H) as [a [b [E _]]].
  rewrite <- parts_concat in ix_sorted. rewrite E, concat_app in ix_sorted. simpl in ix_sorted.
  apply ksorted_app in ix_sorted. destruct ix_sorted as [_ [H2 _]]. apply ksorted_app in H2. tauto.
Qed.

Lemma locate_none : forall t, find_partition top t = None -> forall x, In x ix -> ik_lt (fst x) t.
Proof.
  intros t H x Hx. rewrite <- parts_concat in Hx. destruct (in_concat_nth _ _ _ Hx) as [j [part [Hj Hin]]].
  assert (Hlen : j < length top). { unfold top. rewrite top_entries_length. apply nth_error_Some. congruence. }
  destruct (nth_error top j) as [[k h]|] eqn:Et; [|apply nth_error_None in Et; lia].
  pose proof (find_partition_none _ _ H _ (nth_error_In _ _ Et)) as Hk. simpl in Hk.
  destruct (top_entries_nth _ _ _ _ _ Et) as [_ [part' [Hp Hkey]]]. rewrite Hj in Hp. inversion Hp. subst part'. subst k.
  eapply ik_le_lt_trans. 2: exact Hk. apply le_last_key; auto. eapply part_sorted; eauto.
Qed.

Lemma locate_some : forall t idx e, find_partition top t = Some (idx, e) ->
  exists part, nth_error parts idx = Some part /\ snd e = idx /\
    let p := partition_point (ltk t) part in
    exists x pre post, nth_error part p = Some x /\ ix = pre ++ x :: post /\
      (forall y, In y pre -> ik_lt (fst y) t) /\ ik_le t (fst x) /\
      length pre = length (concat (firstn idx parts)) + p.
Proof.
  intros t idx [k h] H. destruct (find_partition_some _ _ _ _ H) as [Hn [Hle Hbefore]]. simpl in Hle.
  destruct (top_entries_nth _ _ _ _ _ Hn) as [Hh [part [Hp Hkey]]]. exists part. split. exact Hp. split. simpl. lia.
  intros p. pose proof (part_sorted _ _ Hp) as Sp.
  destruct (pp_split (ltk t) part) as [pre' [post' [E1 [E2 [E3 E4]]]]].
  destruct post' as [|x r'].
  - (* the whole partition below t: contradicts its last key >= t *)
    exfalso. rewrite app_nil_r in E1. subst pre'.
    assert (Hne : part <> []). { unfold nonempty_all in parts_nonempty. rewrite Forall_forall in parts_nonempty. apply parts_nonempty. eapply nth_error_In; eauto. }
    destruct (last_key_in _ part Hne) as [v Hv]. specialize (E3 _ Hv). unfold ltk in E3. simpl in E3.
    apply ik_ltb_lt in E3. rewrite <- Hkey in E3. eapply ik_lt_not_le; eauto.
  - destruct (nth_error_split _ _ _ _ Hp) as [P1 [P2 [EP LP]]].
    exists x, (concat P1 ++ pre'), (r' ++ concat P2). split.
    + unfold p. rewrite <- E2. rewrite E1. rewrite nth_error_app2 by lia. rewrite Nat.sub_diag. reflexivity.
    + split.
      * rewrite <- parts_concat. rewrite EP, concat_app. simpl. rewrite E1. rewrite <- !app_assoc. reflexivity.
      * split.
        -- intros y Hy. apply in_app_or in Hy. destruct Hy as [Hy|Hy].
           ++ destruct (in_concat_nth _ _ _ Hy) as [j [pj [Hj Hin]]].
              assert (Hjl : j < idx). { rewrite <- LP. apply nth_error_Some. congruence. }
              assert (Hpj : nth_error parts j = Some pj). { rewrite EP. rewrite nth_error_app1 by lia. exact Hj. }
              assert (Hlen : j < length top). { unfold top. rewrite top_entries_length. apply nth_error_Some. congruence. }
              destruct (nth_error top j) as [[kj hj]|] eqn:Et; [|apply nth_error_None in Et; lia].
              pose proof (Hbefore _ _ Hjl Et) as Hk. simpl in Hk.
              destruct (top_entries_nth _ _ _ _ _ Et) as [_ [part' [Hp' Hkey']]]. rewrite Hpj in Hp'. inversion Hp'. subst part' kj.
              eapply ik_le_lt_trans. 2: exact Hk. apply le_last_key; auto. eapply part_sorted; eauto.
           ++ apply ik_ltb_lt. apply (E3 _ Hy).
        -- split. apply ik_ltb_false. apply (E4 x r' eq_refl).
           rewrite app_length. unfold p. rewrite <- E2. f_equal. f_equal.
           rewrite EP. rewrite <- LP. rewrite firstn_app, Nat.sub_diag, firstn_all. simpl. rewrite app_nil_r. reflexivity.
Qed.
End Locate.

(* ---------- generic facts about chunks of a sorted list ---------- *)
Lemma chunk_sorted : forall V (ls : list (keyed V)) j l, ksorted (concat ls) -> nth_error ls j = Some l -> ksorted l.
Proof.
  intros V ls j l Hs H. destruct (nth_error_split _ _ _ _ H) as [a [b [E _]]].
  rewrite E, concat_app in Hs. simpl in Hs.
  apply ksorted_app in Hs. destruct Hs as [_ [H2 _]]. apply ksorted_app in H2. tauto.
Qed.
Lemma nth_error_nth' : forall A (l : list A) i x d, nth_error l i = Some x -> nth i l d = x.
Proof. intros A l i x d H. apply nth_error_nth. exact H. Qed.

(* what build_table = Some T says *)
Lemma build_table_inv : forall ri es bc pc T, build_table ri es bc pc = Some T ->
  let blocks := chunk es bc in
  let ix := index_entries 0 blocks in
  let parts := chunk ix pc in
  T = {| t_ri := ri; t_blocks := blocks; t_parts := parts; t_top := top_entries 0 parts;
         t_smallest := Some (first_key es); t_largest := Some (last_key es) |} /\
  0 < ri /\ es <> [] /\ concat blocks = es /\ nonempty_all blocks /\ concat parts = ix /\ nonempty_all parts.
Proof.
  intros ri es bc pc T H. unfold build_table in H.
  destruct (chunking_ok (length es) bc) eqn:C1; simpl in H; [|discriminate].
  destruct (chunking_ok (length bc) pc) eqn:C2; simpl in H; [|discriminate].
  destruct (0 <? length es) eqn:C3; simpl in H; [|discriminate].
  destruct (0 <? ri) eqn:C4; simpl in H; [|discriminate].
  apply chunking_ok_spec in C1. apply chunking_ok_spec in C2. destruct C1 as [P1 S1]. destruct C2 as [P2 S2].
  apply Nat.ltb_lt in C3. apply Nat.ltb_lt in C4.
  inversion H. subst T. clear H. intros blocks ix parts.
  assert (Lix : length ix = length bc). { unfold ix. rewrite index_entries_length. unfold blocks. apply chunk_length. }
  split. reflexivity. split. exact C4. split. { intros E. subst es. simpl in C3. lia. }
  split. apply chunk_concat. exact S1. split. apply chunk_nonempty; auto.
  split. apply chunk_concat. rewrite Lix. exact S2. apply chunk_nonempty; auto. rewrite Lix. exact S2.
Qed.

(* ---------- visibility and the order ---------- *)
Lemma visible_ge : forall u snap e, visible u snap e -> ik_le (ik_lookup u snap) (fst e).
Proof.
  intros u snap e [H1 H2]. unfold ik_le, ik_cmp. simpl. rewrite <- H1, lexc_refl.
  intros C. apply N.compare_gt_iff in C. lia.
Qed.
Lemma ge_visible : forall u snap (e : entry), ik_uk (fst e) = u -> ik_le (ik_lookup u snap) (fst e) -> visible u snap e.
Proof.
  intros u snap e H1 H2. split. exact H1. unfold ik_le, ik_cmp in H2. simpl in H2. rewrite <- H1, lexc_refl in H2.
  destruct (N.compare (ik_seq (fst e)) snap) eqn:C.
  - apply N.compare_eq in C. lia.
  - change (ik_seq (fst e) < snap)%N in C. lia.
  - exfalso. apply H2. reflexivity.
Qed.
Lemma le_same_uk_seq : forall a b, ik_le a b -> ik_uk a = ik_uk b -> (ik_seq b <= ik_seq a)%N.
Proof.
  intros a b H E. unfold ik_le, ik_cmp in H. rewrite E, lexc_refl in H.
  destruct (N.compare (ik_seq b) (ik_seq a)) eqn:C.
  - apply N.compare_eq in C. lia.
  - change (ik_seq b < ik_seq a)%N in C. lia.
  - exfalso. apply H. reflexivity.
Qed.
Lemma lex_le_antisym : forall a b, lex_le a b -> lex_le b a -> a = b.
Proof.
  unfold lex_le. intros a b H1 H2. rewrite (lexc_antisym a b) in H2. destruct (lex_cmp a b) eqn:E.
  apply lexc_eq. exact E. simpl in H2. congruence. congruence.
Qed.
Lemma lex_lt_neq : forall a b, lex_lt a b -> a <> b.
Proof. unfold lex_lt. intros a b H E. subst. rewrite lexc_refl in H. discriminate. Qed.

Theorem get_correct : get_correct_stmt.
Proof.
  unfold get_correct_stmt. intros ri es bc pc T mc u snap Hs Hb Hmc.
  pose proof (build_table_inv _ _ _ _ _ Hb) as Inv. cbv zeta in Inv.
  set (blocks := chunk es bc) in *. set (ix := index_entries 0 blocks) in *. set (parts := chunk ix pc) in *.
  destruct Inv as [HT [Hri [Hne [Hcb [Hnb [Hcp Hnp]]]]]].
  assert (Sb : ksorted (concat blocks)) by (rewrite Hcb; exact Hs).
  assert (Six : ksorted ix) by (apply index_entries_sorted; auto).
  set (t := ik_lookup u snap).
  unfold table_get. fold t.
  destruct (mc u) eqn:Emc; simpl.
  2: { intros e' Hin [Hv _]. rewrite <- Hv, (Hmc _ Hin) in Emc. discriminate. }
  assert (Etop : t_top T = top_entries 0 parts) by (rewrite HT; reflexivity).
  rewrite Etop.
  destruct (find_partition (top_entries 0 parts) t) as [[idx e0]|] eqn:Ef.
  2: { (* beyond all partitions: every entry is below the target *)
    intros e' Hin Hv. apply visible_ge in Hv. fold t in Hv.
    pose proof (locate_none ix parts Six Hcp t Ef) as Hall.
    rewrite <- Hcb in Hin. destruct (in_concat_nth _ _ _ Hin) as [i [blk [Hi Hin']]].
    assert (Hil : i < length ix). { unfold ix. rewrite index_entries_length. apply nth_error_Some. congruence. }
    destruct (nth_error ix i) as [[k h]|] eqn:Ek; [|apply nth_error_None in Ek; lia].
    destruct (index_entries_nth _ _ _ _ _ Ek) as [_ [blk' [Hb' [Hle _]]]]. rewrite Hi in Hb'. inversion Hb'. subst blk'.
    specialize (Hall _ (nth_error_In _ _ Ek)). simpl in Hall.
    eapply ik_lt_not_le. 2: exact Hv.
    eapply ik_le_lt_trans. 2: exact Hall. eapply ik_le_trans. 2: exact Hle.
    apply le_last_key; auto. eapply chunk_sorted; eauto. }
  destruct (locate_some ix parts Six Hcp Hnp t idx e0 Ef) as [part [Hpart [Hsnd Hloc]]]. cbv zeta in Hloc.
  destruct Hloc as [x [pre [post [Hx [Eix [Hpre [Hxge _]]]]]]].
  (* the partition iterator lands on x *)
  assert (Etp : top_part T idx = part).
  { unfold top_part. rewrite Etop. destruct (find_partition_some _ _ _ _ Ef) as [Hn _]. rewrite Hn.
    destruct e0 as [k0 h0]. simpl in Hsnd. subst h0. unfold tb_part. rewrite HT. simpl. apply nth_error_nth'. exact Hpart. }
  rewrite Etp. assert (Eri : t_ri T = ri) by (rewrite HT; reflexivity). rewrite Eri.
  pose proof (b_seek_spec _ ri Hri part (part_sorted ix parts Six Hcp _ _ Hpart) t b_new) as Hseek. cbv zeta in Hseek.
  match type of Hseek with (if ?c then _ else _) =>
    assert (Hc : c = true) by (apply Nat.ltb_lt; apply nth_error_Some; rewrite Hx; discriminate) end.
  rewrite Hc in Hseek. destruct Hseek as [Hcur _].
  unfold b_entry at 1. rewrite Hcur, Hx. destruct x as [sep g].
  (* the data block it points to *)
  assert (Hg : nth_error ix (length pre) = Some (sep, g)).
  { rewrite Eix. rewrite nth_error_app2 by lia. rewrite Nat.sub_diag. reflexivity. }
  destruct (index_entries_nth _ _ _ _ _ Hg) as [Hgn [blk [Hblk [Hlast Hnext]]]]. simpl in Hgn. subst g.
  assert (Etb : tb_block T (length pre) = blk). { unfold tb_block. rewrite HT. simpl. apply nth_error_nth'. exact Hblk. }
  rewrite Etb.
  destruct (nth_error_split _ _ _ _ Hblk) as [B1 [B2 [EB LB]]].
  assert (Ees : es = concat B1 ++ blk ++ concat B2). { rewrite <- Hcb, EB, concat_app. reflexivity. }
  assert (Sblk : ksorted blk) by (eapply chunk_sorted; eauto).
  (* every entry of an earlier block is below the target *)
  assert (HB1 : forall e, In e (concat B1) -> ik_lt (fst e) t).
  { intros e Hin. destruct (in_concat_nth _ _ _ Hin) as [i [bi [Hi Hin']]].
    assert (Hil : i < length pre). { rewrite <- LB. apply nth_error_Some. congruence. }
    assert (Hbi : nth_error blocks i = Some bi). { rewrite EB. rewrite nth_error_app1 by lia. exact Hi. }
    destruct (nth_error pre i) as [[k h]|] eqn:Ek; [|apply nth_error_None in Ek; lia].
    assert (Hk : nth_error ix i = Some (k, h)). { rewrite Eix. rewrite nth_error_app1 by lia. exact Ek. }
    destruct (index_entries_nth _ _ _ _ _ Hk) as [_ [blk' [Hb' [Hle _]]]]. rewrite Hbi in Hb'. inversion Hb'. subst blk'.
    pose proof (Hpre _ (nth_error_In _ _ Ek)) as Hlt. simpl in Hlt.
    eapply ik_le_lt_trans. 2: exact Hlt. eapply ik_le_trans. 2: exact Hle.
    apply le_last_key; auto. eapply chunk_sorted; eauto. }
  pose proof (b_seek_spec _ ri Hri blk Sblk t b_new) as Hseek2. cbv zeta in Hseek2.
  rewrite Ees in Hs. destruct (ksorted_app _ _ _ Hs) as [_ [S23 _]]. destruct (ksorted_app _ _ _ S23) as [_ [_ Hcross]].
  destruct (partition_point (ltk t) blk <? length blk) eqn:Eq.
  - (* the block holds an entry >= t: the first one overall *)
    destruct Hseek2 as [Hcur2 _]. unfold b_entry. rewrite Hcur2.
    apply Nat.ltb_lt in Eq. destruct (nth_error blk (partition_point (ltk t) blk)) as [[k v]|] eqn:Ee; [|apply nth_error_None in Ee; lia].
    pose proof (pp_at _ _ _ Ee) as Hnlt. unfold ltk in Hnlt. simpl in Hnlt. apply ik_ltb_false in Hnlt.
    assert (Hmin : forall e', In e' es -> ik_le t (fst e') -> ik_le k (fst e')).
    { intros e' Hin Hge. rewrite Ees in Hin. apply in_app_or in Hin. destruct Hin as [Hin|Hin].
      - exfalso. eapply ik_lt_not_le. apply (HB1 _ Hin). exact Hge.
      - apply in_app_or in Hin. destruct Hin as [Hin|Hin].
        + destruct (In_nth_error _ _ Hin) as [j Hj].
          destruct (Nat.lt_ge_cases j (partition_point (ltk t) blk)) as [Hlt|Hge'].
          * exfalso. eapply ik_lt_not_le. 2: exact Hge. apply (proj2 (pp_sorted_lt _ blk t j e' Sblk Hj)). exact Hlt.
          * destruct (Nat.eq_dec j (partition_point (ltk t) blk)) as [Hej|Hnj].
            -- subst j. rewrite Ee in Hj. inversion Hj. subst e'. apply ik_le_refl.
            -- apply ik_lt_le. apply (ksorted_nth_lt _ blk (partition_point (ltk t) blk) j (k, v) e' Sblk); auto. lia.
        + apply ik_lt_le. apply (Hcross (k, v) e'); auto. eapply nth_error_In; eauto. }
    assert (Hin_es : In (k, v) es). { rewrite Ees. apply in_or_app. right. apply in_or_app. left. eapply nth_error_In; eauto. }
    destruct (bytes_eqb (ik_uk k) u) eqn:Eu.
    + apply beqb_eq in Eu. simpl. split. exact Hin_es. split. apply ge_visible; auto.
      intros e' Hin' Hv'. pose proof (Hmin _ Hin' (visible_ge _ _ _ Hv')) as Hle. destruct Hv' as [Hu' _].
      apply le_same_uk_seq in Hle. exact Hle. simpl. congruence.
    + simpl. intros e' Hin' Hv'. pose proof (visible_ge _ _ _ Hv') as Hge. fold t in Hge.
      pose proof (Hmin _ Hin' Hge) as Hle. destruct Hv' as [Hu' _].
      assert (ik_uk k = u).
      { apply lex_le_antisym. rewrite <- Hu'. apply ik_le_uk_le. exact Hle.
        change u with (ik_uk t). apply ik_le_uk_le. exact Hnlt. }
      apply beqb_eq in H. rewrite H in Eu. discriminate.
  - (* the target falls into the gap between the last key of the block and its separator *)
    unfold b_entry. rewrite Hseek2. simpl.
    apply Nat.ltb_ge in Eq. pose proof (pp_le (ltk t) blk) as Hple.
    assert (Hall : forall e, In e blk -> ik_lt (fst e) t).
    { intros e Hin. apply ik_ltb_lt. apply (pp_all (ltk t) blk); auto. lia. }
    intros e' Hin' Hv'. pose proof (visible_ge _ _ _ Hv') as Hge. fold t in Hge. destruct Hv' as [Hu' _].
    rewrite Ees in Hin'. apply in_app_or in Hin'. destruct Hin' as [Hin'|Hin'].
    { eapply ik_lt_not_le. apply (HB1 _ Hin'). exact Hge. }
    apply in_app_or in Hin'. destruct Hin' as [Hin'|Hin'].
    { eapply ik_lt_not_le. apply (Hall _ Hin'). exact Hge. }
    (* e' lies in a later block *)
    destruct B2 as [|nb B2']. { simpl in Hin'. contradiction. }
    assert (Hnb' : nth_error blocks (S (length pre)) = Some nb).
    { rewrite EB. rewrite nth_error_app2 by lia. rewrite LB. replace (S (length pre) - length pre) with 1 by lia. reflexivity. }
    pose proof (Hnext _ Hnb') as Hsep.
    assert (Hblkne : blk <> []). { unfold nonempty_all in Hnb. rewrite Forall_forall in Hnb. apply Hnb. eapply nth_error_In; eauto. }
    destruct (last_key_in _ blk Hblkne) as [vl Hvl].
    destruct (ik_separator_shape (last_key blk) (first_key nb)) as [Hsh|[_ [Hsh _]]].
    + (* separator = last key: but the last key is below t <= separator *)
      rewrite <- Hsep in Hsh. eapply ik_lt_not_le. apply (Hall _ Hvl). simpl. rewrite <- Hsh. exact Hxge.
    + rewrite <- Hsep in Hsh.
      assert (Snb : ksorted (concat (nb :: B2'))). { apply ksorted_app in S23. tauto. }
      assert (Hfirst : ik_le (first_key nb) (fst e')).
      { destruct (ksorted_concat_cons _ _ _ Snb) as [Snb1 [_ Hcc]].
        assert (Hnbne : nb <> []). { unfold nonempty_all in Hnb. rewrite Forall_forall in Hnb. apply Hnb. eapply nth_error_In; eauto. }
        simpl in Hin'. apply in_app_or in Hin'. destruct Hin' as [Hin'|Hin'].
        - apply first_key_le; auto.
        - destruct (first_key_in _ nb Hnbne) as [vf Hvf]. apply ik_lt_le. apply (Hcc (first_key nb, vf) e'); auto. }
      assert (Hlt : lex_lt u (ik_uk (fst e'))).
      { eapply lex_le_lt_trans. change u with (ik_uk t). apply ik_le_uk_le. exact Hxge. simpl.
        eapply lex_lt_le_trans. exact Hsh. apply ik_le_uk_le. exact Hfirst. }
      apply lex_lt_neq in Hlt. congruence.
Qed.

(* ---------- range predicates ---------- *)
Lemma lex_lt_not_le : forall a b, lex_lt a b -> ~ lex_le b a.
Proof. unfold lex_lt, lex_le. intros a b H. rewrite (lexc_antisym a b), H. simpl. auto. Qed.
Lemma lex_le_not_lt : forall a b, lex_le a b -> ~ lex_lt b a.
Proof. intros a b H1 H2. apply (lex_lt_not_le _ _ H2 H1). Qed.

Theorem range_predicates_sound : range_predicates_sound_stmt.
Proof.
  unfold range_predicates_sound_stmt. intros ri es bc pc T Hs Hb.
  pose proof (build_table_inv _ _ _ _ _ Hb) as Inv. cbv zeta in Inv. destruct Inv as [HT _].
  assert (Hlo : forall e, In e es -> lex_le (ik_uk (first_key es)) (ik_uk (fst e))).
  { intros e Hin. apply ik_le_uk_le. apply first_key_le; auto. }
  assert (Hhi : forall e, In e es -> lex_le (ik_uk (fst e)) (ik_uk (last_key es))).
  { intros e Hin. apply ik_le_uk_le. apply le_last_key; auto. }
  assert (Hbefore : forall lo hi e, is_before_range T lo = true -> In e es -> ~ in_bounds lo hi (ik_uk (fst e))).
  { intros lo hi e H Hin [B1 _]. unfold is_before_range in H. rewrite HT in H. simpl in H. destruct lo as [|k|k]; try discriminate.
    - apply lex_ltb_lt in H. eapply lex_lt_not_le. 2: exact B1. eapply lex_le_lt_trans. apply (Hhi _ Hin). exact H.
    - apply lex_leb_le in H. eapply lex_le_not_lt. 2: exact B1. eapply lex_le_trans. apply (Hhi _ Hin). exact H. }
  assert (Hafter : forall lo hi e, is_after_range T hi = true -> In e es -> ~ in_bounds lo hi (ik_uk (fst e))).
  { intros lo hi e H Hin [_ B2]. unfold is_after_range in H. rewrite HT in H. simpl in H. destruct hi as [|k|k]; try discriminate.
    - apply lex_ltb_lt in H. eapply lex_lt_not_le. 2: exact B2. eapply lex_lt_le_trans. exact H. apply (Hlo _ Hin).
    - apply negb_true_iff in H. apply lex_ltb_false in H. eapply lex_le_not_lt. 2: exact B2. eapply lex_le_trans. exact H. apply (Hlo _ Hin). }
  split. exact Hbefore. split. exact Hafter. split.
  - intros lo hi e H Hin. unfold overlaps_with_range in H. apply andb_false_iff in H. destruct H as [H|H]; apply negb_false_iff in H.
    apply Hbefore; auto. apply Hafter; auto.
  - intros u e H Hin Hu. unfold is_key_in_key_range in H. rewrite HT in H. simpl in H. apply andb_false_iff in H. destruct H as [H|H].
    + apply negb_false_iff in H. apply lex_ltb_lt in H. subst u. eapply lex_lt_not_le. exact H. apply (Hlo _ Hin).
    + apply lex_leb_false in H. subst u. eapply lex_lt_not_le. exact H. apply (Hhi _ Hin).
Qed.
