(* Codec/VlogPtr_proofs.v — proofs of the statements of VlogPtrSpec.v. *)
From Coq Require Import List NArith Arith Bool Lia.
From SKV Require Import Params Codec.VlogParams Codec.Wal Codec.VlogPtr Codec.VlogPtrSpec.
Import ListNotations.
Local Open Scope N_scope.

Arguments N.add : simpl never.
Arguments N.sub : simpl never.
Arguments N.mul : simpl never.
Arguments N.div : simpl never.
Arguments N.modulo : simpl never.
Arguments N.pow : simpl never.
Arguments N.eqb : simpl never.
Arguments N.ltb : simpl never.
Arguments N.leb : simpl never.
Arguments N.of_nat : simpl never.
Arguments N.to_nat : simpl never.

(* ------------------------------------------------------------------------------ big endian *)
Lemma be_enc_length : forall n x, length (be_enc n x) = n.
Proof.
  induction n as [|n IH]; intros x; cbn [be_enc]; [reflexivity|].
  rewrite app_length, IH. cbn [length]. lia.
Qed.

Lemma be_dec_app1 : forall l b, be_dec (l ++ [b]) = be_dec l * 256 + b.
Proof. intros l b. unfold be_dec. rewrite fold_left_app. reflexivity. Qed.

Lemma pow256_succ : forall n : nat, 256 ^ N.of_nat (S n) = 256 * 256 ^ N.of_nat n.
Proof. intros n. rewrite Nnat.Nat2N.inj_succ, N.pow_succ_r'. reflexivity. Qed.

Lemma pow256_pos : forall n : nat, 256 ^ N.of_nat n <> 0.
Proof. intros n. apply N.pow_nonzero. discriminate. Qed.

Lemma be_roundtrip : be_roundtrip_stmt.
Proof.
  intros n. induction n as [|n IH]; intros x.
  - cbn [be_enc]. unfold be_dec. cbn [fold_left]. change (N.of_nat 0) with 0. rewrite N.pow_0_r, N.mod_1_r. reflexivity.
  - cbn [be_enc]. rewrite be_dec_app1, IH, pow256_succ.
    rewrite (N.mod_mul_r x 256 (256 ^ N.of_nat n)) by (try discriminate; apply pow256_pos). lia.
Qed.

Lemma be_enc_wf : forall n x, bytes_wf (be_enc n x).
Proof.
  induction n as [|n IH]; intros x; cbn [be_enc]; [constructor|].
  apply Forall_app. split; [apply IH|]. constructor; [|constructor]. apply N.mod_lt. discriminate.
Qed.

Lemma be_dec_bound : forall l, bytes_wf l -> be_dec l < 256 ^ N.of_nat (length l).
Proof.
  intros l. induction l as [|b l IH] using rev_ind; intros H.
  - unfold be_dec. cbn. reflexivity.
  - apply Forall_app in H. destruct H as [Hl Hb]. inversion Hb as [|? ? Hb' _]; subst.
    rewrite be_dec_app1, app_length. cbn [length]. replace (length l + 1)%nat with (S (length l)) by lia.
    rewrite pow256_succ. specialize (IH Hl). lia.
Qed.

Lemma be_enc_dec : forall l, bytes_wf l -> be_enc (length l) (be_dec l) = l.
Proof.
  intros l. induction l as [|b l IH] using rev_ind; intros H; [reflexivity|].
  apply Forall_app in H. destruct H as [Hl Hb]. inversion Hb as [|? ? Hb' _]; subst.
  rewrite app_length. cbn [length]. replace (length l + 1)%nat with (S (length l)) by lia.
  cbn [be_enc]. rewrite be_dec_app1.
  replace ((be_dec l * 256 + b) / 256) with (be_dec l).
  2:{ rewrite N.div_add_l by discriminate. rewrite (N.div_small b 256) by exact Hb'. lia. }
  replace ((be_dec l * 256 + b) mod 256) with b.
  2:{ rewrite N.add_comm, N.mod_add by discriminate. symmetry. apply N.mod_small. exact Hb'. }
  rewrite IH by exact Hl. reflexivity.
Qed.

Lemma be_enc_mod : forall n x, be_enc n (x mod 256 ^ N.of_nat n) = be_enc n x.
Proof.
  intros n x.
  rewrite <- (be_roundtrip n x).
  rewrite <- (be_enc_length n x) at 1.
  apply be_enc_dec. apply be_enc_wf.
Qed.

Lemma fits_mod : forall w v, fits w v = true -> v mod 256 ^ N.of_nat w = v.
Proof. intros w v H. unfold fits in H. apply N.ltb_lt in H. apply N.mod_small. exact H. Qed.

(* ------------------------------------------------------------------------------ field lists *)
Lemma firstn_be_app : forall n x r, firstn n (be_enc n x ++ r) = be_enc n x.
Proof.
  intros n x r. rewrite firstn_app, be_enc_length, Nat.sub_diag. cbn [firstn]. rewrite app_nil_r.
  rewrite firstn_all2 by (rewrite be_enc_length; lia). reflexivity.
Qed.
Lemma skipn_be_app : forall n x r, skipn n (be_enc n x ++ r) = r.
Proof.
  intros n x r. rewrite skipn_app, be_enc_length, Nat.sub_diag. cbn [skipn].
  rewrite skipn_all2 by (rewrite be_enc_length; lia). reflexivity.
Qed.

Lemma enc_fields_length : forall fs, length (enc_fields fs) = fold_right Nat.add 0%nat (map fst fs).
Proof.
  induction fs as [|[w v] r IH]; [reflexivity|].
  unfold enc_fields in *. cbn [flat_map map fold_right fst snd]. rewrite app_length, be_enc_length, IH. reflexivity.
Qed.

Lemma dec_fields_enc : forall fs,
  dec_fields (map fst fs) (enc_fields fs) = Some (map (fun f => snd f mod 256 ^ N.of_nat (fst f)) fs).
Proof.
  induction fs as [|[w v] r IH]; [reflexivity|].
  unfold enc_fields in *. cbn [flat_map map dec_fields fst snd].
  rewrite app_length, be_enc_length.
  destruct (Nat.ltb_spec (w + length (flat_map (fun f => be_enc (fst f) (snd f)) r)) w) as [Hlt|_]; [lia|].
  rewrite skipn_be_app, firstn_be_app, IH, be_roundtrip. reflexivity.
Qed.

Lemma map_fit_id : forall fs, fields_fit fs = true -> map (fun f => snd f mod 256 ^ N.of_nat (fst f)) fs = map snd fs.
Proof.
  induction fs as [|[w v] r IH]; intros H; [reflexivity|].
  cbn [fields_fit] in H. apply andb_true_iff in H. destruct H as [H1 H2].
  cbn [map fst snd]. rewrite (fits_mod _ _ H1), (IH H2). reflexivity.
Qed.

Lemma dec_fields_wf : forall ws l,
  length l = fold_right Nat.add 0%nat ws -> bytes_wf l ->
  exists vs, dec_fields ws l = Some vs /\ length vs = length ws /\
             fields_fit (combine ws vs) = true /\ enc_fields (combine ws vs) = l.
Proof.
  induction ws as [|w r IH]; intros l Hlen Hwf.
  - destruct l; [|discriminate]. exists []. repeat split; reflexivity.
  - cbn [fold_right] in Hlen. cbn [dec_fields].
    destruct (Nat.ltb_spec (length l) w) as [Hlt|Hge]; [lia|].
    assert (Hs : length (skipn w l) = fold_right Nat.add 0%nat r) by (rewrite skipn_length; lia).
    assert (Hwf2 : bytes_wf (skipn w l)).
    { unfold bytes_wf in *. rewrite <- (firstn_skipn w l) in Hwf. apply Forall_app in Hwf. apply Hwf. }
    assert (Hwf1 : bytes_wf (firstn w l)).
    { unfold bytes_wf in *. rewrite <- (firstn_skipn w l) in Hwf. apply Forall_app in Hwf. apply Hwf. }
    destruct (IH _ Hs Hwf2) as [vs [Hd [Hl [Hf He]]]].
    rewrite Hd. exists (be_dec (firstn w l) :: vs). split; [reflexivity|]. split; [cbn [length]; lia|].
    assert (Hfl : length (firstn w l) = w) by (rewrite firstn_length; lia).
    split.
    + cbn [combine fields_fit]. rewrite Hf, andb_true_r. unfold fits. apply N.ltb_lt.
      rewrite <- Hfl at 2. apply be_dec_bound. exact Hwf1.
    + cbn [combine]. unfold enc_fields in *. cbn [flat_map fst snd]. rewrite He.
      rewrite <- Hfl at 1. rewrite be_enc_dec by exact Hwf1. apply firstn_skipn.
Qed.

(* ------------------------------------------------------------------------------ parameters *)
Ltac split_ok H :=
  repeat match type of H with (_ && _) = true => let H' := fresh "Hok" in apply andb_true_iff in H; destruct H as [H H'] end.

Lemma six_fields : forall (W : list N), length W = 6%nat -> exists a b c d e f, W = [a; b; c; d; e; f].
Proof.
  intros W H. do 6 (destruct W as [|? W]; [discriminate|]). destruct W; [|discriminate].
  repeat eexists.
Qed.

Lemma params_vp : vlog_params_ok = true ->
  length VP_FIELDS = 6%nat /\ fold_right N.add 0 VP_FIELDS = VP_SIZE.
Proof.
  intros H. unfold vlog_params_ok in H. split_ok H.
  split; [apply Nat.eqb_eq; assumption | apply N.eqb_eq; assumption].
Qed.

Lemma sum_to_nat : forall W : list N, fold_right Nat.add 0%nat (map N.to_nat W) = N.to_nat (fold_right N.add 0 W).
Proof.
  induction W as [|a W IH]; [reflexivity|]. cbn [map fold_right]. rewrite IH, Nnat.N2Nat.inj_add. reflexivity.
Qed.

Lemma vpointer_fields_widths : vlog_params_ok = true -> forall p, map fst (vpointer_fields p) = VPW.
Proof.
  intros H p. destruct (params_vp H) as [H6 _]. unfold vpointer_fields, VPW.
  destruct (six_fields _ H6) as (a & b & c & d & e & f & E). rewrite E. reflexivity.
Qed.
Lemma vpointer_fields_values : vlog_params_ok = true -> forall p,
  map snd (vpointer_fields p) = [vpt_version p; vpt_file p; vpt_offset p; vpt_ksize p; vpt_vsize p; vpt_crc p].
Proof.
  intros H p. destruct (params_vp H) as [H6 _]. unfold vpointer_fields, VPW.
  destruct (six_fields _ H6) as (a & b & c & d & e & f & E). rewrite E. reflexivity.
Qed.

(* ------------------------------------------------------------------------------ A1 *)
Lemma vpointer_encode_size : vpointer_encode_size_stmt.
Proof.
  intros H p. unfold nlen, vpointer_encode. rewrite enc_fields_length, (vpointer_fields_widths H).
  unfold VPW. rewrite sum_to_nat. destruct (params_vp H) as [_ Hs]. rewrite Hs. apply Nnat.N2Nat.id.
Qed.

Lemma vpointer_roundtrip : vpointer_roundtrip_stmt.
Proof.
  intros H p Hr. unfold vpointer_decode.
  rewrite (vpointer_encode_size H p), N.eqb_refl. cbn [negb].
  unfold vpointer_encode. rewrite <- (vpointer_fields_widths H p), dec_fields_enc.
  unfold vpointer_in_range in Hr. rewrite (map_fit_id _ Hr), (vpointer_fields_values H p).
  destruct p; reflexivity.
Qed.

Lemma vpointer_decode_length : vpointer_decode_length_stmt.
Proof.
  intros l H. unfold vpointer_decode. apply N.eqb_neq in H. rewrite H. reflexivity.
Qed.

Lemma vpointer_decode_total : vpointer_decode_total_stmt.
Proof.
  intros H l Hl Hwf. destruct (params_vp H) as [H6 Hs].
  assert (Hlen : length l = fold_right Nat.add 0%nat VPW).
  { unfold VPW. rewrite sum_to_nat, Hs, <- Hl. unfold nlen. rewrite Nnat.Nat2N.id. reflexivity. }
  destruct (dec_fields_wf VPW l Hlen Hwf) as [vs [Hd [Hlv [Hf He]]]].
  assert (HW : length VPW = 6%nat) by (unfold VPW; rewrite map_length; exact H6).
  rewrite HW in Hlv.
  do 6 (destruct vs as [|? vs]; [discriminate|]). destruct vs; [|discriminate].
  unfold vpointer_decode. rewrite Hl, N.eqb_refl. cbn [negb]. rewrite Hd.
  eexists. split; [reflexivity|].
  unfold vpointer_in_range, vpointer_encode, vpointer_fields. cbn [vpt_version vpt_file vpt_offset vpt_ksize vpt_vsize vpt_crc].
  split; assumption.
Qed.

(* ------------------------------------------------------------------------------ A2 *)
Lemma be_enc_1 : forall x, be_enc 1 x = [x mod 256].
Proof. intros x. reflexivity. Qed.

Lemma vloc_roundtrip : vloc_roundtrip_stmt.
Proof.
  intros [m v r] H. unfold vloc_in_range in H. cbn [vlc_meta vlc_version] in H.
  apply andb_true_iff in H. destruct H as [Hm Hv].
  unfold vloc_encode. cbn [vlc_meta vlc_version vlc_value]. rewrite !be_enc_1. cbn [app vloc_decode].
  apply fits_mod in Hm. apply fits_mod in Hv. change (256 ^ N.of_nat 1) with 256 in Hm, Hv. rewrite Hm, Hv. reflexivity.
Qed.

Lemma vloc_decode_short : vloc_decode_short_stmt.
Proof. intros d H. destruct d as [|a [|b d]]; cbn [length] in H; try reflexivity. lia. Qed.

Lemma params_loc : vlog_params_ok = true ->
  fits 1 VL_VERSION = true /\ fits 1 VL_BIT_VALUE_POINTER = true /\ VL_BIT_VALUE_POINTER <> 0.
Proof.
  intros H. unfold vlog_params_ok in H. split_ok H.
  repeat split; try assumption. apply N.eqb_neq. apply negb_true_iff. assumption.
Qed.

Lemma land_self_nonzero : forall b, b <> 0 -> N.eqb (N.land b b) 0 = false.
Proof. intros b H. rewrite N.land_diag. apply N.eqb_neq. exact H. Qed.

Lemma vloc_with_pointer_decode : vlog_params_ok = true -> forall p,
  vloc_decode (vloc_encode (vloc_with_pointer p)) = Some (vloc_with_pointer p).
Proof.
  intros H p. destruct (params_loc H) as [Hv [Hb _]]. apply vloc_roundtrip.
  unfold vloc_in_range, vloc_with_pointer. cbn [vlc_meta vlc_version]. rewrite Hv, Hb. reflexivity.
Qed.

Lemma vloc_pointer_roundtrip : vloc_pointer_roundtrip_stmt.
Proof.
  intros H p Hr. unfold vloc_pointer_of. rewrite (vloc_with_pointer_decode H).
  destruct (params_loc H) as [_ [_ Hnz]].
  unfold vloc_is_pointer, vloc_with_pointer. cbn [vlc_meta vlc_value].
  rewrite (land_self_nonzero _ Hnz). cbn [negb]. apply (vpointer_roundtrip H). exact Hr.
Qed.

Lemma vloc_inline_roundtrip : vloc_inline_roundtrip_stmt.
Proof.
  intros H v. destruct (params_loc H) as [Hv _].
  assert (E : vloc_decode (vloc_encode (vloc_inline v)) = Some (vloc_inline v)).
  { apply vloc_roundtrip. unfold vloc_in_range, vloc_inline. cbn [vlc_meta vlc_version]. rewrite Hv. reflexivity. }
  split; [exact E|]. unfold vloc_pointer_of. rewrite E. reflexivity.
Qed.

(* ------------------------------------------------------------------------------ A3 *)
Lemma vslice_inside : forall f o n, (o + n <= length f)%nat -> vslice f o n = firstn n (skipn o f).
Proof.
  intros f o n H. unfold vslice. rewrite firstn_length, skipn_length.
  replace (n - Nat.min n (length f - o))%nat with 0%nat by lia. cbn [repeat]. apply app_nil_r.
Qed.

Lemma vslice_app : forall f g o n, (o + n <= length f)%nat -> vslice (f ++ g) o n = vslice f o n.
Proof.
  intros f g o n H. rewrite !vslice_inside by (try rewrite app_length; lia).
  rewrite skipn_app. replace (o - length f)%nat with 0%nat by lia. cbn [skipn].
  rewrite firstn_app, skipn_length. replace (n - (length f - o))%nat with 0%nat by lia. cbn [firstn]. apply app_nil_r.
Qed.

Lemma read_stable_under_append : read_stable_under_append_stmt.
Proof.
  intros crc level f more p H. unfold vlog_read. rewrite vslice_app by exact H. reflexivity.
Qed.

Lemma params_entry : vlog_params_ok = true -> ELF = 4%nat /\ ECL = 4%nat /\ VLOG_CK_DISABLED <> VLOG_CK_FULL.
Proof.
  intros H. unfold vlog_params_ok in H. split_ok H.
  unfold ELF, ECL. split; [|split].
  - match goal with Hx : N.eqb VLOG_ENTRY_LEN_FIELD 4 = true |- _ => apply N.eqb_eq in Hx; rewrite Hx end. reflexivity.
  - match goal with Hx : N.eqb VLOG_ENTRY_CRC_LEN 4 = true |- _ => apply N.eqb_eq in Hx; rewrite Hx end. reflexivity.
  - apply N.eqb_neq. apply negb_true_iff. assumption.
Qed.

Lemma vslice_entry : forall pre e post, vslice (pre ++ e ++ post) (length pre) (length e) = e.
Proof.
  intros pre e post. rewrite vslice_inside by (rewrite !app_length; lia).
  rewrite skipn_app, Nat.sub_diag, skipn_all2 by lia. cbn [app skipn].
  rewrite firstn_app, Nat.sub_diag. cbn [firstn]. rewrite app_nil_r. apply firstn_all2. lia.
Qed.

Lemma firstn_app_exact : forall (a b : list byte) n, length a = n -> firstn n (a ++ b) = a.
Proof. intros a b n H. subst n. rewrite firstn_app, Nat.sub_diag. cbn [firstn]. rewrite app_nil_r. apply firstn_all2. lia. Qed.
Lemma skipn_app_exact : forall (a b : list byte) n, length a = n -> skipn n (a ++ b) = b.
Proof. intros a b n H. subst n. rewrite skipn_app, Nat.sub_diag, skipn_all2 by lia. reflexivity. Qed.

Lemma slice_mid : forall (pre x post : list byte) n m,
  length pre = n -> length x = m -> firstn m (skipn n (pre ++ x ++ post)) = x.
Proof.
  intros pre x post n m Hn Hm. rewrite (skipn_app_exact pre (x ++ post) n Hn). apply firstn_app_exact. exact Hm.
Qed.

Lemma entry_parts : forall (a b k v c : list byte) la lb lk lv lc,
  length a = la -> length b = lb -> length k = lk -> length v = lv -> length c = lc ->
  let E := a ++ b ++ k ++ v ++ c in
  firstn la E = a /\ firstn lb (skipn la E) = b /\ firstn lk (skipn (la + lb) E) = k /\
  firstn lv (skipn (la + lb + lk) E) = v /\ firstn lc (skipn (la + lb + lk + lv) E) = c.
Proof.
  intros a b k v c la lb lk lv lc Ha Hb Hk Hv Hc E. unfold E. repeat split.
  - apply firstn_app_exact. exact Ha.
  - apply slice_mid; assumption.
  - replace (a ++ b ++ k ++ v ++ c) with ((a ++ b) ++ k ++ v ++ c) by (rewrite <- app_assoc; reflexivity).
    apply slice_mid; [rewrite app_length; lia | assumption].
  - replace (a ++ b ++ k ++ v ++ c) with ((a ++ b ++ k) ++ v ++ c) by (rewrite <- !app_assoc; reflexivity).
    apply slice_mid; [rewrite !app_length; lia | assumption].
  - replace (a ++ b ++ k ++ v ++ c) with ((a ++ b ++ k ++ v) ++ c ++ []) by (rewrite <- !app_assoc, app_nil_r; reflexivity).
    apply slice_mid; [rewrite !app_length; lia | assumption].
Qed.

Lemma append_get : append_get_stmt.
Proof.
  intros H crc level id pre post k v [Hk Hv].
  destruct (params_entry H) as [HL [HC Hlv]].
  unfold vwriter_append. cbn [fst snd]. unfold vlog_read.
  cbn [vpt_offset vpt_ksize vpt_vsize vpt_crc].
  rewrite (fits_mod _ _ Hk), (fits_mod _ _ Hv).
  unfold nlen. rewrite !Nnat.Nat2N.id.
  set (e := ventry_bytes crc k v).
  assert (He : length e = (ELF + ELF + length k + length v + ECL)%nat).
  { unfold e, ventry_bytes. rewrite !app_length, !be_enc_length. lia. }
  rewrite <- app_assoc. rewrite <- He. rewrite vslice_entry.
  destruct (entry_parts (be_enc ELF (nlen k)) (be_enc ELF (nlen v)) k v (be_enc ECL (crc (k ++ v)))
              ELF ELF (length k) (length v) ECL
              (be_enc_length _ _) (be_enc_length _ _) eq_refl eq_refl (be_enc_length _ _)) as (E1 & E2 & E3 & E4 & E5).
  fold (ventry_bytes crc k v) in E1, E2, E3, E4, E5. fold e in E1, E2, E3, E4, E5.
  rewrite E1, E2, E3, E4, E5, !be_roundtrip.
  fold (nlen k). fold (nlen v).
  rewrite (fits_mod _ _ Hk), (fits_mod _ _ Hv), !N.eqb_refl. cbn [negb orb].
  rewrite !andb_false_r. reflexivity.
Qed.

Lemma pow256_4 : 256 ^ N.of_nat 4 = 2 ^ 32.
Proof. reflexivity. Qed.
Lemma pow256_8 : 256 ^ N.of_nat 8 = 2 ^ 64.
Proof. reflexivity. Qed.

Lemma append_pointer_in_range : append_pointer_in_range_stmt.
Proof.
  intros H crc id pre k v Hid Hpre.
  destruct (params_entry H) as [HL [HC _]].
  destruct (params_vp H) as [H6 Hs].
  unfold vpointer_in_range, vwriter_append, vpointer_fields. cbn [snd vpt_version vpt_file vpt_offset vpt_ksize vpt_vsize vpt_crc].
  unfold vlog_params_ok in H. split_ok H.
  (* the widths are the generated list: its shape is fixed by the anchors, its values are used as they are *)
  unfold VPW. destruct (six_fields _ H6) as (a & b & c & d & e & f & E).
  assert (Hc : VP_FIELDS = [1; 4; 8; 4; 4; 4]) by reflexivity.
  rewrite Hc. cbn [map combine fields_fit].
  change (N.to_nat 1) with 1%nat. change (N.to_nat 4) with 4%nat. change (N.to_nat 8) with 8%nat.
  unfold fits. rewrite HL. unfold crc32u. rewrite HC.
  repeat (apply andb_true_iff; split); try reflexivity; apply N.ltb_lt.
  - rewrite pow256_4. exact Hid.
  - rewrite pow256_8. exact Hpre.
  - apply N.mod_lt. apply pow256_pos.
  - apply N.mod_lt. apply pow256_pos.
  - apply N.mod_lt. apply pow256_pos.
Qed.

Lemma params_hdr : vlog_params_ok = true ->
  length VLOG_HEADER_FIELDS = 7%nat /\ fold_right N.add 0 VLOG_HEADER_FIELDS = VLOG_HEADER_SIZE.
Proof.
  intros H. unfold vlog_params_ok in H. split_ok H.
  split; [apply Nat.eqb_eq; assumption | apply N.eqb_eq; assumption].
Qed.

Lemma vheader_size : vheader_size_stmt.
Proof.
  intros H id created maxsize. destruct (params_hdr H) as [H7 Hs].
  unfold nlen, vheader_bytes. rewrite enc_fields_length.
  assert (E : map fst (combine VHW [VLOG_MAGIC; VLOG_FORMAT_VERSION; id; created; maxsize; VLOG_COMPRESSION_NONE; 0]) = VHW).
  { unfold VHW. remember VLOG_HEADER_FIELDS as W. clear HeqW Hs.
    do 7 (destruct W as [|? W]; [discriminate|]). destruct W; [|discriminate]. reflexivity. }
  rewrite E. unfold VHW. rewrite sum_to_nat, Hs. apply Nnat.N2Nat.id.
Qed.

(* ------------------------------------------------------------------------------ A4 *)
Lemma separate_iff : separate_iff_stmt.
Proof.
  intros th len. unfold separate_dec, VLOG_SEPARATE_CMP. apply N.ltb_lt.
Qed.

Lemma maybe_separate_inline : maybe_separate_inline_stmt.
Proof.
  intros H b th v. destruct (vloc_inline_roundtrip H v) as [E _].
  unfold maybe_separate. rewrite E.
  assert (Hne : vloc_encode (vloc_inline v) <> []).
  { unfold vloc_encode. rewrite be_enc_1. discriminate. }
  destruct (vloc_encode (vloc_inline v)) as [|x r] eqn:Ee; [contradiction|].
  unfold vloc_is_pointer, vloc_inline. cbn [vlc_meta vlc_value]. rewrite N.land_0_l. cbn [N.eqb negb].
  change (N.eqb 0 0) with true. cbn [negb].
  unfold separate_dec, VLOG_SEPARATE_CMP. reflexivity.
Qed.

Lemma maybe_separate_pointer_passes : maybe_separate_pointer_passes_stmt.
Proof.
  intros H b th p. unfold maybe_separate. rewrite (vloc_with_pointer_decode H).
  destruct (params_loc H) as [_ [_ Hnz]].
  assert (Hne : vloc_encode (vloc_with_pointer p) <> []).
  { unfold vloc_encode. rewrite be_enc_1. discriminate. }
  destruct (vloc_encode (vloc_with_pointer p)) as [|x r] eqn:Ee; [contradiction|].
  unfold vloc_is_pointer, vloc_with_pointer. cbn [vlc_meta]. rewrite (land_self_nonzero _ Hnz). reflexivity.
Qed.
