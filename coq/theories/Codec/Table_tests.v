(* Codec/Table_tests.v — exhaustive evaluation of the C13 statements on small instances
   (all sub-lists with at most 4 (point lookups, predicates) / 3 (cursors) entries of a small sorted key universe x all chunkings x all index chunkings x restart
   intervals x all targets / bounds).  Tests, not proofs of the general statements. *)
From Coq Require Import List NArith Bool Arith.
From SKV Require Import Params Base.Lex Codec.IKey Codec.Separator Codec.SeparatorSpec Codec.Table Codec.TableSpec.
Import ListNotations.
Local Open Scope N_scope.

Fixpoint sublists {A} (l : list A) : list (list A) :=
  match l with
  | [] => [[]]
  | x :: r => let s := sublists r in map (cons x) s ++ s
  end.
(* compositions of n (ordered lists of positive numbers summing to n) *)
Fixpoint compositions (fuel n : nat) : list (list nat) :=
  match fuel with
  | O => [[]]
  | S f =>
    match n with
    | O => [[]]
    | _ => flat_map (fun c => map (cons c) (compositions f (n - c))) (seq 1 n)
    end
  end.

Definition mk (u : bytes) (s : N) : entry := ({| ik_uk := u; ik_seq := s; ik_kind := 2; ik_ts := s + 1 |}, u ++ [s]).
(* sorted universe: 4 user keys (one a prefix of the next, one ending in 0xff) x 3 versions *)
Definition universe : list entry :=
  [mk [1] 5; mk [1] 3; mk [1] 0; mk [1; 255] 4; mk [1; 255] 3; mk [1; 255; 0] 9; mk [1; 255; 0] 2; mk [2] 5; mk [2] 1].
Definition uks : list bytes := [[]; [0]; [1]; [1; 0]; [1; 254]; [1; 255]; [1; 255; 0]; [1; 255; 1]; [2]; [3]].
Definition snaps : list N := [0; 1; 2; 3; 4; 5; 9; 72057594037927935].

Definition entry_eqb (a b : entry) : bool :=
  bytes_eqb (ik_uk (fst a)) (ik_uk (fst b)) && (ik_seq (fst a) =? ik_seq (fst b)) && bytes_eqb (snd a) (snd b).
Definition opt_entry_eqb (a b : option entry) : bool :=
  match a, b with Some x, Some y => entry_eqb x y | None, None => true | _, _ => false end.
Fixpoint list_entry_eqb (a b : list entry) : bool :=
  match a, b with [], [] => true | x :: r, y :: q => entry_eqb x y && list_entry_eqb r q | _, _ => false end.

(* reference answer of a point lookup: in a sorted list the first visible entry is the newest *)
Definition ref_get (es : list entry) (u : bytes) (snap : N) : option entry :=
  find (fun e => bytes_eqb (ik_uk (fst e)) u && (ik_seq (fst e) <=? snap)) es.

Definition tables_of (es : list entry) : list table :=
  flat_map (fun ri =>
    flat_map (fun bc =>
      flat_map (fun pc => match build_table ri es bc pc with Some T => [T] | None => [] end)
               (compositions (length bc) (length bc)))
      (compositions (length es) (length es)))
    [1; 2; 3]%nat.

Definition small_lists : list (list entry) :=
  filter (fun l => (0 <? length l)%nat && (length l <=? 4)%nat) (sublists universe).

Definition check_get (es : list entry) : bool :=
  forallb (fun T => forallb (fun u => forallb (fun s =>
    opt_entry_eqb (table_get T (fun _ => true) u s) (ref_get es u s)) snaps) uks) (tables_of es).

Example get_correct_small : forallb check_get small_lists = true.
Proof. vm_compute. reflexivity. Qed.

Definition bounds : list bound := BUnb :: flat_map (fun u => [BInc u; BExc u]) [[1]; [1; 255]; [1; 255; 0]; [2]; [0]; [3]].
Definition check_scan (es : list entry) : bool :=
  forallb (fun T => forallb (fun lo => forallb (fun hi =>
    list_entry_eqb (scan_forward T lo hi (S (length es))) (window lo hi es) &&
    list_entry_eqb (scan_backward T lo hi (S (length es))) (rev (window lo hi es))) bounds) bounds) (tables_of es).
Definition smaller_lists : list (list entry) :=
  filter (fun l => (0 <? length l)%nat && (length l <=? 3)%nat) (sublists universe).
Example iter_complete_small : forallb check_scan smaller_lists = true.
Proof. vm_compute. reflexivity. Qed.

Definition targets : list ikey :=
  flat_map (fun u => map (fun s => {| ik_uk := u; ik_seq := s; ik_kind := 2; ik_ts := 0 |}) [0; 2; 3; 5; 72057594037927935]) uks.
Definition his : list bound := [BUnb; BInc [1]; BExc [1; 255]; BInc [1; 255]; BExc [2]; BInc [2]; BExc [0]].
Definition check_seek (es : list entry) : bool :=
  forallb (fun T => forallb (fun hi => forallb (fun t =>
    let y := t_seek T hi t t_new in
    opt_entry_eqb (if t_valid y then t_entry T y else None)
                  (match first_ge t es with Some e => if upper_ok hi (ik_uk (fst e)) then Some e else None | None => None end) &&
    list_entry_eqb (drain (t_next T BUnb hi) T (S (length es)) y)
                   (filter (fun e => upper_ok hi (ik_uk (fst e))) (filter (fun e => negb (ik_ltb (fst e) t)) es)))
    targets) his) (tables_of es).
Example iter_seek_small : forallb check_seek smaller_lists = true.
Proof. vm_compute. reflexivity. Qed.

(* range predicates *)
Definition check_pred (es : list entry) : bool :=
  forallb (fun T =>
    forallb (fun lo => forallb (fun hi =>
      let inside := existsb (fun e => in_boundsb lo hi (ik_uk (fst e))) es in
      implb (is_before_range T lo) (negb inside) && implb (is_after_range T hi) (negb inside) &&
      implb (negb (overlaps_with_range T lo hi)) (negb inside)) bounds) bounds &&
    forallb (fun u => implb (negb (is_key_in_key_range T u)) (negb (existsb (fun e => bytes_eqb (ik_uk (fst e)) u) es))) uks)
    (match build_table 1 es [length es] [1%nat] with Some T => [T] | None => [] end).
Example range_predicates_small : forallb check_pred small_lists = true.
Proof. vm_compute. reflexivity. Qed.

(* separators: all pairs over {0,1,254,255}^<=3 *)
Fixpoint words (alpha : list N) (n : nat) : list bytes :=
  match n with
  | O => [[]]
  | S m => let w := words alpha m in w ++ flat_map (fun x => map (cons x) (filter (fun l => Nat.eqb (length l) m) w)) alpha
  end.
Definition W : list bytes := words [0; 1; 254; 255] 3.
Definition check_sep (a b : bytes) : bool :=
  let s := bw_separator a b in
  if lex_ltb a b then lex_leb a s && lex_ltb s b && (length s <=? length a)%nat && forallb (fun x => x <? 256) s
  else bytes_eqb s a.
Example bw_separator_small : forallb (fun a => forallb (check_sep a) W) W = true.
Proof. vm_compute. reflexivity. Qed.
Example bw_successor_small : forallb (fun a => lex_leb a (bw_successor a) && (length (bw_successor a) <=? length a)%nat) W = true.
Proof. vm_compute. reflexivity. Qed.
Definition IK : list ikey := flat_map (fun u => map (fun s => {| ik_uk := u; ik_seq := s; ik_kind := 2; ik_ts := 0 |}) [0; 7; 72057594037927935]) (words [0; 254; 255] 2).
Example ik_separator_small :
  forallb (fun a => forallb (fun b => if ik_ltb a b then ik_leb a (ik_separator a b) && ik_ltb (ik_separator a b) b else true) IK
                    && ik_leb a (ik_successor a)) IK = true.
Proof. vm_compute. reflexivity. Qed.
