(* Codec/Separator_proofs.v — proofs of the statements in SeparatorSpec.v. *)
From Coq Require Import List NArith Bool Arith Lia.
From SKV Require Import Params Base.Lex Codec.IKey Codec.Separator Codec.SeparatorSpec.
Import ListNotations.
Local Open Scope N_scope.
Arguments N.add : simpl never. Arguments N.sub : simpl never. Arguments N.eqb : simpl never.
Arguments N.ltb : simpl never. Arguments N.leb : simpl never. Arguments N.mul : simpl never.
Arguments N.div : simpl never. Arguments N.modulo : simpl never.

(* ---------- the bytewise order ---------- *)
Lemma lexc_refl : forall a, lex_cmp a a = Eq.
Proof. induction a as [|x r IH]; simpl; auto. rewrite N.compare_refl. exact IH. Qed.
Lemma lexc_eq : forall a b, lex_cmp a b = Eq -> a = b.
Proof.
  induction a as [|x r IH]; destruct b as [|y q]; simpl; intros H; try discriminate; auto.
  destruct (N.compare x y) eqn:E; try discriminate. apply N.compare_eq in E. subst. f_equal. auto.
Qed.
Lemma lexc_antisym : forall a b, lex_cmp b a = CompOpp (lex_cmp a b).
Proof.
  induction a as [|x r IH]; destruct b as [|y q]; simpl; auto.
  rewrite (N.compare_antisym x y). destruct (N.compare x y); simpl; auto.
Qed.
Lemma lexc_lt_trans : forall a b c, lex_cmp a b = Lt -> lex_cmp b c = Lt -> lex_cmp a c = Lt.
Proof.
  induction a as [|x r IH]; destruct b as [|y q]; destruct c as [|z s]; simpl; intros H1 H2; try discriminate; auto.
  destruct (N.compare x y) eqn:E1; try discriminate; destruct (N.compare y z) eqn:E2; try discriminate.
  - apply N.compare_eq in E1. apply N.compare_eq in E2. subst. rewrite N.compare_refl. eauto.
  - apply N.compare_eq in E1. subst. rewrite E2. auto.
  - apply N.compare_eq in E2. subst. rewrite E1. auto.
  - rewrite N.compare_lt_iff in *. assert (x < z) by lia. rewrite <- N.compare_lt_iff in H. rewrite H. auto.
Qed.
Lemma lexc_gt_lt : forall a b, lex_cmp a b = Gt <-> lex_cmp b a = Lt.
Proof. intros. rewrite (lexc_antisym a b). destruct (lex_cmp a b); simpl; split; congruence. Qed.
Lemma lex_le_refl : forall a, lex_le a a.
Proof. intros a. unfold lex_le. rewrite lexc_refl. discriminate. Qed.
Lemma lex_lt_le : forall a b, lex_lt a b -> lex_le a b.
Proof. unfold lex_lt, lex_le. intros a b H. rewrite H. discriminate. Qed.
Lemma lex_le_lt_trans : forall a b c, lex_le a b -> lex_lt b c -> lex_lt a c.
Proof.
  unfold lex_le, lex_lt. intros a b c H1 H2. destruct (lex_cmp a b) eqn:E; try congruence.
  - apply lexc_eq in E. subst. auto.
  - eapply lexc_lt_trans; eauto.
Qed.
Lemma lex_lt_le_trans : forall a b c, lex_lt a b -> lex_le b c -> lex_lt a c.
Proof.
  unfold lex_le, lex_lt. intros a b c H1 H2. destruct (lex_cmp b c) eqn:E; try congruence.
  - apply lexc_eq in E. subst. auto.
  - eapply lexc_lt_trans; eauto.
Qed.
Lemma lex_le_trans : forall a b c, lex_le a b -> lex_le b c -> lex_le a c.
Proof.
  intros a b c H1 H2. unfold lex_le in H2. destruct (lex_cmp b c) eqn:E; try congruence.
  - apply lexc_eq in E. subst. auto.
  - apply lex_lt_le. eapply lex_le_lt_trans; eauto.
Qed.
Lemma lex_ltb_lt : forall a b, lex_ltb a b = true <-> lex_lt a b.
Proof. unfold lex_ltb, lex_lt. intros. destruct (lex_cmp a b); split; congruence. Qed.
Lemma lex_leb_le : forall a b, lex_leb a b = true <-> lex_le a b.
Proof. unfold lex_leb, lex_le. intros. destruct (lex_cmp a b); split; congruence. Qed.
Lemma lex_ltb_false : forall a b, lex_ltb a b = false <-> lex_le b a.
Proof.
  unfold lex_ltb, lex_le. intros. rewrite (lexc_antisym a b). destruct (lex_cmp a b); simpl; split; congruence.
Qed.
Lemma lex_leb_false : forall a b, lex_leb a b = false <-> lex_lt b a.
Proof.
  unfold lex_leb, lex_lt. intros. rewrite (lexc_antisym a b). destruct (lex_cmp a b); simpl; split; congruence.
Qed.
Lemma beqb_eq : forall a b, bytes_eqb a b = true <-> a = b.
Proof.
  induction a as [|x r IH]; destruct b as [|y q]; simpl; split; intros H; try discriminate; auto.
  - apply andb_true_iff in H. destruct H as [H1 H2]. apply N.eqb_eq in H1. apply IH in H2. subst. auto.
  - inversion H. subst. apply andb_true_iff. split. apply N.eqb_refl. apply IH. auto.
Qed.
Lemma bytes_ok_cons : forall x r, bytes_ok (x :: r) <-> x < 256 /\ bytes_ok r.
Proof. unfold bytes_ok. intros. split; intros H. inversion H; auto. destruct H. constructor; auto. Qed.

(* ---------- bytewise separator / successor ---------- *)
Lemma bw_scan_ge : forall r, lex_le r (bw_scan r) /\ (length (bw_scan r) <= length r)%nat /\ (bytes_ok r -> bytes_ok (bw_scan r)).
Proof.
  induction r as [|z t IH]; simpl.
  - split. apply lex_le_refl. split; auto.
  - destruct (z <? 255) eqn:E.
    + apply N.ltb_lt in E. split; [|split].
      * unfold lex_le. simpl. assert (H : (z ?= z + 1) = Lt) by (apply N.compare_lt_iff; lia). rewrite H. discriminate.
      * simpl. lia.
      * intros _. apply bytes_ok_cons. split. lia. constructor.
    + destruct IH as [I1 [I2 I3]]. split; [|split].
      * unfold lex_le in *. simpl. rewrite N.compare_refl. exact I1.
      * simpl. lia.
      * intros H. apply bytes_ok_cons in H. destruct H. apply bytes_ok_cons. split; auto.
Qed.

Theorem bw_separator_between : bw_separator_between_stmt.
Proof.
  unfold bw_separator_between_stmt, lex_lt.
  induction a as [|x r IH]; intros b Hlt.
  - simpl. split. apply lex_le_refl. split. exact Hlt. split; auto.
  - destruct b as [|y q]; simpl in Hlt; try discriminate.
    simpl. destruct (x =? y) eqn:Exy.
    + apply N.eqb_eq in Exy. subst y. rewrite N.compare_refl in Hlt.
      destruct (IH q Hlt) as [I1 [I2 [I3 I4]]]. split; [|split; [|split]].
      * unfold lex_le in *. simpl. rewrite N.compare_refl. exact I1.
      * unfold lex_lt in *. simpl. rewrite N.compare_refl. exact I2.
      * simpl. lia.
      * intros Ha Hb. apply bytes_ok_cons in Ha. apply bytes_ok_cons in Hb. apply bytes_ok_cons. split. tauto. apply I4; tauto.
    + apply N.eqb_neq in Exy. destruct (N.compare x y) eqn:Ec; try discriminate.
      { apply N.compare_eq in Ec. contradiction. }
      assert (Hxy : x < y) by exact Ec.
      assert (Hle : (y <=? x) = false) by (apply N.leb_gt; exact Hxy). rewrite Hle.
      destruct (negb match q with [] => true | _ :: _ => false end || (x + 1 <? y)) eqn:Ed.
      * split; [|split; [|split]].
        -- unfold lex_le. simpl. assert (H : (x ?= x + 1) = Lt) by (apply N.compare_lt_iff; lia). rewrite H. discriminate.
        -- unfold lex_lt. simpl. apply orb_true_iff in Ed. destruct Ed as [Ed|Ed].
           ++ destruct (N.compare (x + 1) y) eqn:E2; auto.
              ** destruct q; simpl in Ed; [discriminate|auto].
              ** apply N.compare_gt_iff in E2. exfalso; lia.
           ++ apply N.ltb_lt in Ed. apply N.compare_lt_iff in Ed. rewrite Ed. auto.
        -- simpl. lia.
        -- intros Ha Hb. apply bytes_ok_cons in Hb. apply bytes_ok_cons. split. lia. constructor.
      * destruct (bw_scan_ge r) as [S1 [S2 S3]]. split; [|split; [|split]].
        -- unfold lex_le in *. simpl. rewrite N.compare_refl. exact S1.
        -- unfold lex_lt. simpl. rewrite Ec. auto.
        -- simpl. lia.
        -- intros Ha Hb. apply bytes_ok_cons in Ha. apply bytes_ok_cons. split. tauto. apply S3. tauto.
Qed.

Theorem bw_separator_unchanged : bw_separator_unchanged_stmt.
Proof.
  unfold bw_separator_unchanged_stmt, lex_lt.
  induction a as [|x r IH]; intros b H; simpl; auto.
  destruct b as [|y q]; auto. simpl in H.
  destruct (x =? y) eqn:Exy.
  - apply N.eqb_eq in Exy. subst. rewrite N.compare_refl in H. f_equal. apply IH. exact H.
  - apply N.eqb_neq in Exy. destruct (N.compare x y) eqn:Ec.
    + apply N.compare_eq in Ec. contradiction.
    + congruence.
    + apply N.compare_gt_iff in Ec. assert (Hle : (y <=? x) = true) by (apply N.leb_le; lia). rewrite Hle. auto.
Qed.

Theorem bw_successor_ge : bw_successor_ge_stmt.
Proof.
  unfold bw_successor_ge_stmt.
  induction a as [|x r IH]; simpl.
  - split. apply lex_le_refl. split; auto.
  - destruct IH as [I1 [I2 I3]]. destruct (x =? 255) eqn:E.
    + split; [|split].
      * unfold lex_le in *. simpl. rewrite N.compare_refl. exact I1.
      * simpl. lia.
      * intros H. apply bytes_ok_cons in H. apply bytes_ok_cons. split. tauto. apply I3. tauto.
    + apply N.eqb_neq in E. split; [|split].
      * unfold lex_le. simpl. assert (H : (x ?= x + 1) = Lt) by (apply N.compare_lt_iff; lia). rewrite H. discriminate.
      * simpl. lia.
      * intros H. apply bytes_ok_cons in H. apply bytes_ok_cons. split. lia. constructor.
Qed.

(* ---------- the internal-key order ---------- *)
Lemma ikc_refl : forall a, ik_cmp a a = Eq.
Proof. intros a. unfold ik_cmp. rewrite lexc_refl. apply N.compare_refl. Qed.
Lemma ikc_antisym : forall a b, ik_cmp b a = CompOpp (ik_cmp a b).
Proof.
  intros a b. unfold ik_cmp. rewrite (lexc_antisym (ik_uk a) (ik_uk b)).
  destruct (lex_cmp (ik_uk a) (ik_uk b)); simpl; auto. apply N.compare_antisym.
Qed.
Lemma ikc_eq_iff : forall a b, ik_cmp a b = Eq <-> ik_uk a = ik_uk b /\ ik_seq a = ik_seq b.
Proof.
  intros a b. unfold ik_cmp. split.
  - destruct (lex_cmp (ik_uk a) (ik_uk b)) eqn:E; try discriminate. intros H. apply lexc_eq in E.
    apply N.compare_eq in H. auto.
  - intros [H1 H2]. rewrite H1, lexc_refl, H2. apply N.compare_refl.
Qed.
Lemma ikc_congr_l : forall a a' c, ik_uk a = ik_uk a' -> ik_seq a = ik_seq a' -> ik_cmp a c = ik_cmp a' c.
Proof. intros a a' c H1 H2. unfold ik_cmp. rewrite H1, H2. reflexivity. Qed.
Lemma ikc_congr_r : forall a c c', ik_uk c = ik_uk c' -> ik_seq c = ik_seq c' -> ik_cmp a c = ik_cmp a c'.
Proof. intros a c c' H1 H2. unfold ik_cmp. rewrite H1, H2. reflexivity. Qed.
Lemma ik_lt_trans : forall a b c, ik_lt a b -> ik_lt b c -> ik_lt a c.
Proof.
  unfold ik_lt, ik_cmp. intros a b c H1 H2.
  destruct (lex_cmp (ik_uk a) (ik_uk b)) eqn:E1; try discriminate;
  destruct (lex_cmp (ik_uk b) (ik_uk c)) eqn:E2; try discriminate.
  - apply lexc_eq in E1. apply lexc_eq in E2. rewrite E1, E2, lexc_refl.
    change (ik_seq b < ik_seq a) in H1. change (ik_seq c < ik_seq b) in H2. change (ik_seq c < ik_seq a). lia.
  - apply lexc_eq in E1. rewrite E1, E2. reflexivity.
  - apply lexc_eq in E2. rewrite <- E2, E1. reflexivity.
  - rewrite (lexc_lt_trans _ _ _ E1 E2). reflexivity.
Qed.
Lemma ik_le_cases : forall a b, ik_le a b <-> ik_lt a b \/ ik_cmp a b = Eq.
Proof. unfold ik_le, ik_lt. intros a b. destruct (ik_cmp a b); split; intros H; auto; try congruence; destruct H; congruence. Qed.
Lemma ik_lt_le : forall a b, ik_lt a b -> ik_le a b.
Proof. intros a b H. apply ik_le_cases. auto. Qed.
Lemma ik_le_refl : forall a, ik_le a a.
Proof. intros a. apply ik_le_cases. right. apply ikc_refl. Qed.
Lemma ik_le_lt_trans : forall a b c, ik_le a b -> ik_lt b c -> ik_lt a c.
Proof.
  intros a b c H1 H2. apply ik_le_cases in H1. destruct H1 as [H1|H1].
  - eapply ik_lt_trans; eauto.
  - apply ikc_eq_iff in H1. destruct H1. unfold ik_lt. rewrite (ikc_congr_l a b c); auto.
Qed.
Lemma ik_lt_le_trans : forall a b c, ik_lt a b -> ik_le b c -> ik_lt a c.
Proof.
  intros a b c H1 H2. apply ik_le_cases in H2. destruct H2 as [H2|H2].
  - eapply ik_lt_trans; eauto.
  - apply ikc_eq_iff in H2. destruct H2. unfold ik_lt. rewrite <- (ikc_congr_r a b c); auto.
Qed.
Lemma ik_le_trans : forall a b c, ik_le a b -> ik_le b c -> ik_le a c.
Proof.
  intros a b c H1 H2. apply ik_le_cases in H2. destruct H2 as [H2|H2].
  - apply ik_lt_le. eapply ik_le_lt_trans; eauto.
  - apply ikc_eq_iff in H2. destruct H2. unfold ik_le. rewrite <- (ikc_congr_r a b c); auto.
Qed.
Lemma ik_ltb_lt : forall a b, ik_ltb a b = true <-> ik_lt a b.
Proof. unfold ik_ltb, ik_lt. intros. destruct (ik_cmp a b); split; congruence. Qed.
Lemma ik_leb_le : forall a b, ik_leb a b = true <-> ik_le a b.
Proof. unfold ik_leb, ik_le. intros. destruct (ik_cmp a b); split; congruence. Qed.
Lemma ik_ltb_false : forall a b, ik_ltb a b = false <-> ik_le b a.
Proof. unfold ik_ltb, ik_le. intros. rewrite (ikc_antisym a b). destruct (ik_cmp a b); simpl; split; congruence. Qed.
Lemma ik_lt_irrefl : forall a, ~ ik_lt a a.
Proof. unfold ik_lt. intros a. rewrite ikc_refl. discriminate. Qed.
Lemma ik_lt_not_le : forall a b, ik_lt a b -> ~ ik_le b a.
Proof. unfold ik_lt, ik_le. intros a b H. rewrite (ikc_antisym a b), H. simpl. auto. Qed.
Lemma ik_lt_uk_le : forall a b, ik_lt a b -> lex_le (ik_uk a) (ik_uk b).
Proof. unfold ik_lt, ik_cmp, lex_le. intros a b. destruct (lex_cmp (ik_uk a) (ik_uk b)); congruence. Qed.
Lemma ik_le_uk_le : forall a b, ik_le a b -> lex_le (ik_uk a) (ik_uk b).
Proof. unfold ik_le, ik_cmp, lex_le. intros a b. destruct (lex_cmp (ik_uk a) (ik_uk b)); congruence. Qed.
Lemma uk_lt_ik_lt : forall a b, lex_lt (ik_uk a) (ik_uk b) -> ik_lt a b.
Proof. unfold ik_lt, ik_cmp, lex_lt. intros a b H. rewrite H. reflexivity. Qed.

Theorem ik_order : ik_order_stmt.
Proof.
  unfold ik_order_stmt. split. exact ikc_refl. split. exact ikc_antisym. split. exact ik_lt_trans.
  split. exact ik_le_trans. exact ikc_eq_iff.
Qed.

(* ---------- internal separator / successor ---------- *)
Theorem ik_separator_shape : ik_separator_shape_stmt.
Proof.
  unfold ik_separator_shape_stmt. intros a b. unfold ik_separator.
  destruct (lex_cmp (ik_uk a) (ik_uk b)) eqn:E; auto.
  - destruct ((length (bw_separator (ik_uk a) (ik_uk b)) <=? length (ik_uk a))%nat && lex_ltb (ik_uk a) (bw_separator (ik_uk a) (ik_uk b))) eqn:C; auto.
    right. apply andb_true_iff in C. destruct C as [_ C]. apply lex_ltb_lt in C. simpl.
    split. exact C. split. apply (bw_separator_between (ik_uk a) (ik_uk b) E). reflexivity.
  - destruct ((length (bw_separator (ik_uk a) (ik_uk b)) <=? length (ik_uk a))%nat && lex_ltb (ik_uk a) (bw_separator (ik_uk a) (ik_uk b))) eqn:C; auto.
    exfalso. apply andb_true_iff in C. destruct C as [_ C]. apply lex_ltb_lt in C.
    rewrite bw_separator_unchanged in C. unfold lex_lt in C. rewrite lexc_refl in C. discriminate.
    unfold lex_lt. rewrite E. discriminate.
Qed.

Theorem ik_separator_between : ik_separator_between_stmt.
Proof.
  unfold ik_separator_between_stmt. intros a b Hab.
  destruct (ik_separator_shape a b) as [H|[H1 [H2 _]]].
  - rewrite H. split. apply ik_le_refl. exact Hab.
  - split. apply ik_lt_le. apply uk_lt_ik_lt. exact H1. apply uk_lt_ik_lt. exact H2.
Qed.

Theorem ik_successor_ge : ik_successor_ge_stmt.
Proof.
  unfold ik_successor_ge_stmt. intros a. unfold ik_successor.
  destruct ((length (bw_successor (ik_uk a)) <=? length (ik_uk a))%nat && lex_ltb (ik_uk a) (bw_successor (ik_uk a))) eqn:C.
  - apply andb_true_iff in C. destruct C as [_ C]. apply lex_ltb_lt in C. apply ik_lt_le. apply uk_lt_ik_lt. exact C.
  - apply ik_le_refl.
Qed.

(* ---------- codec ---------- *)
Lemma be_bytes_length : forall w x, length (be_bytes w x) = w.
Proof. induction w; intros x; simpl; auto. rewrite app_length, IHw. simpl. lia. Qed.
Lemma be_value_go_app : forall l acc b, be_value_go acc (l ++ [b]) = be_value_go acc l * 256 + b.
Proof. induction l as [|y r IH]; intros acc b; simpl; auto. Qed.
Lemma be_value_go_bytes : forall w x acc, be_value_go acc (be_bytes w x) = acc * 256 ^ N.of_nat w + x mod 256 ^ N.of_nat w.
Proof.
  induction w as [|w IH]; intros x acc.
  - simpl. change (256 ^ 0) with 1. rewrite N.mod_1_r. lia.
  - change (be_bytes (S w) x) with (be_bytes w (x / 256) ++ [x mod 256]).
    rewrite be_value_go_app, IH. rewrite Nat2N.inj_succ, N.pow_succ_r'.
    rewrite (N.mod_mul_r x 256 (256 ^ N.of_nat w)); try lia.
Qed.
Lemma be_roundtrip : forall w x, x < 256 ^ N.of_nat w -> be_value (be_bytes w x) = x.
Proof. intros w x H. unfold be_value. rewrite be_value_go_bytes. rewrite N.mod_small by exact H. lia. Qed.
Lemma be_bytes_ok : forall w x, bytes_ok (be_bytes w x).
Proof.
  induction w; intros x; simpl. constructor. unfold bytes_ok. apply Forall_app. split. apply IHw.
  constructor; [|constructor]. apply N.mod_lt. lia.
Qed.

Lemma land_shift_low : forall s k, k < 256 -> N.land (s * 256) k = 0.
Proof.
  intros s k Hk. apply N.bits_inj. intros i. rewrite N.land_spec, N.bits_0.
  destruct (N.ltb_spec i 8) as [Hi|Hi].
  - change 256 with (2 ^ 8). rewrite N.mul_pow2_bits_low by exact Hi. reflexivity.
  - destruct (N.eq_dec k 0) as [->|Hk0]. rewrite N.bits_0. apply andb_false_r.
    rewrite (N.bits_above_log2 k i). apply andb_false_r.
    apply N.lt_le_trans with 8; [|exact Hi]. apply N.log2_lt_pow2; lia.
Qed.
Lemma trailer_add : forall s k, s <= IK_SEQ_NUM_MAX -> k < 256 -> trailer_of s k = s * 256 + k.
Proof.
  intros s k Hs Hk. unfold trailer_of. unfold IK_SEQ_NUM_MAX in Hs.
  rewrite N.mod_small by (unfold U64; lia).
  rewrite <- N.lxor_lor by (apply land_shift_low; exact Hk).
  symmetry. apply N.add_nocarry_lxor. apply land_shift_low. exact Hk.
Qed.
Lemma firstn_len_app : forall A (a b : list A), firstn (length a) (a ++ b) = a.
Proof. induction a; intros; simpl; auto. f_equal. auto. Qed.
Lemma skipn_len_app : forall A (a b : list A), skipn (length a) (a ++ b) = b.
Proof. induction a; intros; simpl; auto. Qed.

Theorem ik_roundtrip : ik_roundtrip_stmt.
Proof.
  unfold ik_roundtrip_stmt. intros k [Hb [Hs [Hk Ht]]]. unfold ik_decode, ik_encode.
  set (t := be_bytes 8 (trailer_of (ik_seq k) (ik_kind k))). set (s := be_bytes 8 (ik_ts k)).
  assert (Lt : length t = 8%nat) by apply be_bytes_length.
  assert (Ls : length s = 8%nat) by apply be_bytes_length.
  assert (Ln : length (ik_uk k ++ t ++ s) = (length (ik_uk k) + 16)%nat) by (rewrite !app_length; lia).
  rewrite Ln. replace (length (ik_uk k) + 16 <? 16)%nat with false by (symmetry; apply Nat.ltb_ge; lia).
  replace (length (ik_uk k) + 16 - 16)%nat with (length (ik_uk k)) by lia.
  rewrite firstn_len_app, skipn_len_app.
  assert (F : firstn 8 (t ++ s) = t) by (rewrite <- Lt; apply firstn_len_app). rewrite !F.
  replace (length (ik_uk k) + 16 - 8)%nat with (length (ik_uk k ++ t)) by (rewrite app_length; lia).
  rewrite app_assoc, skipn_len_app.
  unfold t, s. rewrite !be_roundtrip.
  - rewrite trailer_add by assumption. unfold trailer_seq, trailer_kind.
    rewrite N.div_add_l by lia. rewrite N.div_small by exact Hk. rewrite N.add_0_r.
    rewrite N.add_comm, N.mod_add by lia. rewrite N.mod_small by exact Hk.
    destruct k; reflexivity.
  - unfold IK_TIMESTAMP_MAX in Ht. change (256 ^ N.of_nat 8) with 18446744073709551616. lia.
  - rewrite trailer_add by assumption. unfold IK_SEQ_NUM_MAX in Hs. change (256 ^ N.of_nat 8) with 18446744073709551616. lia.
Qed.

Lemma ik_sep_key_ok : forall u, bytes_ok u -> ik_ok (ik_sep_key u).
Proof.
  intros u H. unfold ik_ok, ik_sep_key. simpl. split. exact H. split. lia. split.
  unfold IK_KIND_SEPARATOR. lia. lia.
Qed.
Lemma ik_encode_inj : forall a b, ik_ok a -> ik_ok b -> ik_encode a = ik_encode b -> a = b.
Proof.
  intros a b Ha Hb H. apply ik_roundtrip in Ha. apply ik_roundtrip in Hb. rewrite H in Ha. congruence.
Qed.

Theorem ik_separator_enc_ok : ik_separator_enc_stmt.
Proof.
  unfold ik_separator_enc_stmt. intros a b Ha Hb. unfold ik_separator_enc.
  destruct (bytes_eqb (ik_encode a) (ik_encode b)) eqn:E.
  - apply beqb_eq in E. apply ik_encode_inj in E; auto. subst b.
    unfold ik_separator. rewrite lexc_refl. reflexivity.
  - rewrite (ik_roundtrip a Ha), (ik_roundtrip b Hb). unfold ik_separator.
    destruct (lex_cmp (ik_uk a) (ik_uk b)); auto;
    destruct ((length (bw_separator (ik_uk a) (ik_uk b)) <=? length (ik_uk a))%nat && lex_ltb (ik_uk a) (bw_separator (ik_uk a) (ik_uk b))); auto.
Qed.
Theorem ik_successor_enc_ok : ik_successor_enc_stmt.
Proof.
  unfold ik_successor_enc_stmt. intros a Ha. unfold ik_successor_enc. rewrite (ik_roundtrip a Ha).
  unfold ik_successor.
  destruct ((length (bw_successor (ik_uk a)) <=? length (ik_uk a))%nat && lex_ltb (ik_uk a) (bw_successor (ik_uk a))); auto.
Qed.
