(* Conc/CommitSeq.v — sequential model of the commit critical section around the oracle:
   Transaction::new / commit / rollback (src/transaction.rs), CommitPipeline::commit and
   CommitPipeline::publish (src/commit.rs), CoreInner::oldest_active_start_seq (src/lsm.rs),
   the restore tail of Tree::restore_from_checkpoint (set_seq_num; reset_oracle_for_restore).

   Sequential abstraction: one operation at a time; memtable apply and the visibility update
   happen at once after the critical section (the thread-interleaving model is Conc/Pipeline.v).
   What the code does and the model keeps:
   * Begin: epoch := restore_epoch (read FIRST); start := visible; the transaction registers in the
     active-transaction tracker (read-write and write-only) and, unless write-only, registers a
     snapshot.  `BUnreg` models a caller of the pipeline that registered nowhere and uses the
     epoch-less entry `CommitPipeline::commit` (begin_epoch = None; commit.rs clamps for it; kept
     in the crate for its own tests only).
   * Commit with an empty write set: closes the transaction, no pipeline call.
   * Commit: FIRST (inside the critical section, before the oracle is consulted; repair of finding
     C04-N1) `if let Some(e) = begin_epoch { if e != restore_epoch { return Err(TransactionRetry) } }`:
     a transaction that began before the last restore read a timeline that no longer exists; it
     is refused with Retry with NO oracle call and no state change (no sequence number is
     consumed).  The comparison operator is generated (Params.ORACLE_EPOCH_CMP, applied to
     (begin_epoch, restore_epoch)).
     Then check(keys, start); on Ok: seq := next; next += count (count = number of entries =
     number of keys, duplicates included); publish(keys, seq, count, min(oldest_active, start));
     then either success (the batch becomes visible: visible := max(visible, seq+count-1), the
     transaction closes and leaves the tracker; its snapshot stays registered until End), or a
     WAL/apply failure: rollback(keys, seq+count-1) (restores the stamps this publish overwrote); the allocated sequence numbers stay consumed
     and — commit.rs: the failed batch is marked applied and drained by publish() like any other —
     visible ALSO advances to seq+count-1.  The transaction stays open and registered after any
     error (Conflict, Retry, failure).
   * End (rollback / drop): leaves both trackers.
   * Restore(max): if max > 0 then visible := max, next := max+1 (set_seq_num does nothing for 0);
     oracle reset_for_restore(max); restore_epoch += 1 (the last step, all under write_mutex).
     Open transactions stay as they are (in the trackers too), with the epoch they began in.
   Ghost component `c_done`: the successful commits (stamp, keys), newest first; a restore keeps
   the ones with stamp <= max (the restored store contains exactly those).
   (Since the fix of F13 rollback puts the overwritten stamp back; see Conc/Oracle.v.)
   The machine as it was before the repair of C04-N1 (no epoch test) is kept in
   Conc/CommitSeqOld.v (regression record only). *)
From Coq Require Import List NArith Arith Bool.
From SKV Require Import Params Base.Lex Conc.Oracle.
Import ListNotations.
Local Open Scope N_scope.

Inductive bmode := BRW | BWO | BUnreg.
Record tx := { t_start : N; t_reg : bool; t_snap : bool; t_closed : bool; t_epoch : option N }.

Record cstate := {
  c_txs : list (N * tx);
  c_visible : N;
  c_next : N;
  c_orc : ostate;
  c_done : list (N * list bytes);
  c_epoch : N;
}.
Definition c0 : cstate :=
  {| c_txs := []; c_visible := 0; c_next := COMMIT_FIRST_SEQ; c_orc := o_new; c_done := []; c_epoch := 0 |}.

Inductive cstep :=
| SBegin (id : N) (m : bmode)
| SEnd (id : N)
| SCommit (id : N) (keys : list bytes) (fail : bool)
| SRestore (max : N).

Inductive outcome := OOk | OConflict | ORetry | OFailed | ONoTx | OClosed | OBad.

(* the oracle calls a step makes, in order (the differential engine replays them on the crate's
   CommitOracle through the facade) *)
Inductive ocall :=
| CCheck (keys : list bytes) (start : N)
| CPublish (keys : list bytes) (seq count oldest : N)
| CRollback (keys : list bytes) (stamp : N)
| CReset (max : N).

Fixpoint tx_get (i : N) (l : list (N * tx)) : option tx :=
  match l with [] => None | (j, t) :: r => if N.eqb i j then Some t else tx_get i r end.
Fixpoint tx_set (i : N) (t : tx) (l : list (N * tx)) : list (N * tx) :=
  match l with
  | [] => [(i, t)]
  | (j, u) :: r => if N.eqb i j then (i, t) :: r else (j, u) :: tx_set i t r
  end.

(* SkipSet::front of the (start, id) sets: the smallest registered start *)
Fixpoint min_start (p : tx -> bool) (l : list (N * tx)) : option N :=
  match l with
  | [] => None
  | (_, t) :: r =>
    if p t then Some (match min_start p r with Some m => N.min (t_start t) m | None => t_start t end)
    else min_start p r
  end.

(* CoreInner::oldest_active_start_seq *)
Definition oldest_active (s : cstate) : N :=
  match min_start t_snap (c_txs s), min_start t_reg (c_txs s) with
  | Some a, Some b => N.min a b
  | Some a, None => a
  | None, Some b => b
  | None, None => c_visible s
  end.

Section CommitSeq.
Variable fp : bytes -> N.
Variable G : N.

Definition commit_core (s : cstate) (id : N) (t : tx) (keys : list bytes) (fail : bool)
  : cstate * outcome * list ocall :=
  let start := t_start t in
  if match t_epoch t with Some e => ORACLE_EPOCH_CMP e (c_epoch s) | None => false end then (s, ORetry, [])
  else
  match check fp (c_orc s) keys start with
  | VRetry => (s, ORetry, [CCheck keys start])
  | VConflict => (s, OConflict, [CCheck keys start])
  | VOk =>
    let count := N.of_nat (length keys) in
    let seq := c_next s in
    let oldest := N.min (oldest_active s) start in
    let o1 := publish fp G (c_orc s) keys seq count oldest in
    let stamp := stamp_of seq count in
    if fail then
      ({| c_txs := c_txs s; c_visible := N.max (c_visible s) stamp; c_next := seq + count;
          c_orc := rollback fp o1 keys stamp;
          c_done := c_done s; c_epoch := c_epoch s |},
       OFailed, [CCheck keys start; CPublish keys seq count oldest; CRollback keys stamp])
    else
      ({| c_txs := tx_set id {| t_start := start; t_reg := false; t_snap := t_snap t; t_closed := true; t_epoch := t_epoch t |} (c_txs s);
          c_visible := N.max (c_visible s) stamp; c_next := seq + count;
          c_orc := o1;
          c_done := (stamp, keys) :: c_done s; c_epoch := c_epoch s |},
       OOk, [CCheck keys start; CPublish keys seq count oldest])
  end.

Definition cs_step (s : cstate) (c : cstep) : cstate * outcome * list ocall :=
  match c with
  | SBegin id m =>
    match tx_get id (c_txs s) with
    | Some _ => (s, OBad, [])
    | None =>
      let t := {| t_start := c_visible s;
                  t_reg := match m with BUnreg => false | _ => true end;
                  t_snap := match m with BRW => true | _ => false end;
                  t_closed := false;
                  t_epoch := match m with BUnreg => None | _ => Some (c_epoch s) end |} in
      ({| c_txs := tx_set id t (c_txs s); c_visible := c_visible s; c_next := c_next s;
          c_orc := c_orc s; c_done := c_done s; c_epoch := c_epoch s |}, OOk, [])
    end
  | SEnd id =>
    match tx_get id (c_txs s) with
    | None => (s, ONoTx, [])
    | Some t =>
      ({| c_txs := tx_set id {| t_start := t_start t; t_reg := false; t_snap := false; t_closed := true; t_epoch := t_epoch t |} (c_txs s);
          c_visible := c_visible s; c_next := c_next s; c_orc := c_orc s; c_done := c_done s; c_epoch := c_epoch s |}, OOk, [])
    end
  | SCommit id keys fail =>
    match tx_get id (c_txs s) with
    | None => (s, ONoTx, [])
    | Some t =>
      if t_closed t then (s, OClosed, [])
      else match keys with
           | [] =>
             ({| c_txs := tx_set id {| t_start := t_start t; t_reg := false; t_snap := t_snap t; t_closed := true; t_epoch := t_epoch t |} (c_txs s);
                 c_visible := c_visible s; c_next := c_next s; c_orc := c_orc s; c_done := c_done s; c_epoch := c_epoch s |}, OOk, [])
           | _ => commit_core s id t keys fail
           end
    end
  | SRestore max =>
    let rewind := N.ltb 0 max in
    ({| c_txs := c_txs s;
        c_visible := if rewind then max else c_visible s;
        c_next := if rewind then max + 1 else c_next s;
        c_orc := reset_for_restore (c_orc s) max;
        c_done := filter (fun e => N.leb (fst e) max) (c_done s);
        c_epoch := c_epoch s + 1 |}, OOk, [CReset max])
  end.

Definition step_state (s : cstate) (c : cstep) : cstate := fst (fst (cs_step s c)).
Definition step_outcome (s : cstate) (c : cstep) : outcome := snd (fst (cs_step s c)).
Definition run (l : list cstep) (s : cstate) : cstate := fold_left step_state l s.
Fixpoint outcomes (l : list cstep) (s : cstate) : list outcome :=
  match l with [] => [] | c :: r => step_outcome s c :: outcomes r (step_state s c) end.
End CommitSeq.

Definition is_fail (c : cstep) : bool := match c with SCommit _ _ true => true | _ => false end.
Definition is_restore (c : cstep) : bool := match c with SRestore _ => true | _ => false end.
Definition step_keys (c : cstep) : list bytes := match c with SCommit _ keys _ => keys | _ => [] end.
Definition steps_keys (l : list cstep) : list bytes := concat (map step_keys l).
