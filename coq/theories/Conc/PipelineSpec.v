(* Conc/PipelineSpec.v — statements about the pipeline LTS (Conc/Pipeline.v).  Statements only
   (`Definition x_stmt : Prop`); proofs in Conc/Pipeline_proofs.v, Conc/PipelineRing_proofs.v,
   Conc/PipelineLive_proofs.v.

   Everything is quantified over ALL interleavings: `reachable` = the end of an arbitrary sequence
   of (actor, label) events accepted by `pstep` from the initial state, for any number of committer
   threads `n`, probe readers `m`, initial horizon `v`, and any configuration with at least one slot. *)
From Coq Require Import List Arith Bool.
From SKV Require Import Conc.Pipeline Conc.PipelineExplore.
Import ListNotations.

Definition reachable (c : cfg) (n m v : nat) (s : plstate) : Prop :=
  exists evs, prun c (pinit c n m v) evs = Some s.

Definition horizon_of (r : rpc) : option nat :=
  match r with RLoaded h | RReg h => Some h | RIdle => None end.

(* ------------------------------------------------------------------ C05: invariants *)
(* I1: the visibility horizon never moves backwards (one step; hence along any run) *)
Definition visible_monotone_stmt : Prop :=
  forall c s a l s', pstep c s a l = Some s' -> visible s <= visible s'.
Definition visible_monotone_run_stmt : Prop :=
  forall c s evs s', prun c s evs = Some s' -> visible s <= visible s'.

(* the queue order is the sequence-number order (= WAL order: both fixed under write_mutex) *)
Definition queue_is_seq_order_stmt : Prop :=
  forall c n m v s p q bp bq, 0 < c_slots c -> reachable c n m v s ->
    p < q -> nth_error (qlog s) p = Some bp -> nth_error (qlog s) q = Some bq ->
    b_last bp < b_seq bq /\ 0 < b_cnt bp /\ v < b_seq bp.

(* I2: the horizon is the initial one or the last sequence number of a dequeued batch, and it is
   never strictly inside a batch *)
Definition visible_boundary_stmt : Prop :=
  forall c n m v s, 0 < c_slots c -> reachable c n m v s ->
    (visible s = v \/ exists p b, p < qtail s /\ nth_error (qlog s) p = Some b /\ visible s = b_last b)
    /\ (forall p b, nth_error (qlog s) p = Some b -> ~ (b_seq b <= visible s /\ visible s < b_last b)).

(* I3: every batch at or below the horizon has been dequeued, is marked applied, and — unless its
   commit failed — all its entries are in the memtables *)
Definition visible_applied_stmt : Prop :=
  forall c n m v s p b, 0 < c_slots c -> reachable c n m v s ->
    nth_error (qlog s) p = Some b -> b_last b <= visible s ->
    p < qtail s /\ b_applied b = true /\ (b_fail b = false -> b_ins b = b_cnt b).

(* I4: a successful dequeue CAS takes exactly the batch at the tail position: batches leave the
   queue in queue order, one position at a time (with queue_is_seq_order: in WAL / sequence order) *)
Definition dequeue_in_order_stmt : Prop :=
  forall c n m v s i s', 0 < c_slots c -> reachable c n m v s ->
    pstep c s (ACommit i) LDeqCasOk = Some s' ->
    qtail s' = S (qtail s) /\
    exists t, nth_error (thrs s') i = Some t /\ t_pc t = CDeqWon (qtail s) (qtail s).

(* I5: commit() returns Ok only after the horizon covers its batch (and the batch did not fail) *)
Definition return_after_visible_stmt : Prop :=
  forall c n m v s i t, 0 < c_slots c -> reachable c n m v s ->
    nth_error (thrs s) i = Some t -> t_pc t = CReturned ResOk ->
    exists p b, t_my t = Some p /\ nth_error (qlog s) p = Some b /\ b_fail b = false /\ b_last b <= visible s.

(* ------------------------------------------------------------------ C05: what readers see *)
(* T1: a reader whose loaded horizon is h finds, of every non-failed batch, either all entries
   (iff last <= h) or none; the memtable model: entries are inserted one by one, a reader at h
   finds the inserted entries with sequence number <= h (`seen`) *)
Definition read_all_or_nothing_stmt : Prop :=
  forall c n m v s r rd h p b, 0 < c_slots c -> reachable c n m v s ->
    nth_error (rdrs s) r = Some rd -> horizon_of rd = Some h ->
    nth_error (qlog s) p = Some b -> b_fail b = false ->
    (b_last b <= h /\ seen b h = b_cnt b) \/ (h < b_seq b /\ seen b h = 0).

(* T2: real-time order: if commit() of thread i had returned Ok before reader r loaded its horizon,
   r sees the whole batch *)
Definition real_time_order_stmt : Prop :=
  forall c n m v evs1 evs2 s1 s2 i t r rd h p b, 0 < c_slots c ->
    prun c (pinit c n m v) evs1 = Some s1 -> prun c s1 evs2 = Some s2 ->
    nth_error (thrs s1) i = Some t -> t_pc t = CReturned ResOk -> t_my t = Some p ->
    nth_error (rdrs s1) r = Some RIdle ->
    nth_error (rdrs s2) r = Some rd -> horizon_of rd = Some h ->
    nth_error (qlog s2) p = Some b ->
    b_last b <= h /\ seen b h = b_cnt b.

(* T3: prefix: a reader that sees a batch also sees every non-failed batch ordered before it *)
Definition prefix_order_stmt : Prop :=
  forall c n m v s r rd h p q bp bq, 0 < c_slots c -> reachable c n m v s ->
    nth_error (rdrs s) r = Some rd -> horizon_of rd = Some h ->
    p < q -> nth_error (qlog s) p = Some bp -> nth_error (qlog s) q = Some bq ->
    b_last bq <= h ->
    b_last bp <= h /\ (b_fail bp = false -> seen bp h = b_cnt bp).

(* ------------------------------------------------------------------ N1: the ring buffer *)
Definition failure_label (l : label) : bool :=
  match l with LWalFailed | LAfterApply true => true | _ => false end.
Definition failure_free (evs : list (actor * label)) : Prop :=
  forall a l, In (a, l) evs -> failure_label l = false.

(* N1: as long as permits < slots the queue never holds more than `permits` batches and enqueue never
   finds it full (so the "commit queue overflow" panic is unreachable) — failures of env.write / env.apply
   included: a failed commit keeps its permit until its batch has been dequeued. *)
Definition no_overflow_stmt : Prop :=
  forall c n m v s, c_permits c < c_slots c -> reachable c n m v s ->
    qhead s - qtail s <= c_permits c /\
    forall i t, nth_error (thrs s) i = Some t ->
      t_pc t <> CEnqFullSeen /\ t_pc t <> CEnqPanic /\ t_pc t <> CReturned ResPanic.

(* head/tail are u32 in the code (wrapping_add, index = counter & (slots-1)); the model uses
   unbounded counters.  They agree as long as slots is a power of two dividing 2^32 and
   head - tail <= slots: *)
Definition wrap_ok_stmt : Prop :=
  forall k slots h t, slots = 2 ^ k -> k <= 32 -> t <= h -> h - t <= slots ->
    (h mod 2 ^ 32) mod slots = h mod slots /\
    (((t mod 2 ^ 32) + slots) mod 2 ^ 32 = h mod 2 ^ 32 <-> t + slots = h).
(* FALSE at the edge slots = 2^32 (k = 32, h = t: the wrapped full-test fires on an empty queue);
   what holds (and covers the crate's slots = 8): *)
Definition wrap_ok_partial_stmt : Prop :=
  forall k slots h t, slots = 2 ^ k -> k <= 32 -> t <= h -> h - t <= slots ->
    (h mod 2 ^ 32) mod slots = h mod slots /\
    (k < 32 \/ t < h ->
     (((t mod 2 ^ 32) + slots) mod 2 ^ 32 = h mod 2 ^ 32 <-> t + slots = h)).

(* ------------------------------------------------------------------ memory safety (observation) *)
(* dequeue_applied dereferences the pointer loaded from the tail slot; the CommitBatch may have been
   dequeued, completed and freed in between.  FALSE: *)
Definition no_use_after_free_stmt : Prop :=
  forall c n m v s, 0 < c_slots c -> reachable c n m v s -> uaf s = false.
Definition use_after_free_reachable_stmt (slots permits : nat) : Prop :=
  exists n evs s,
    prun {| c_slots := slots; c_permits := permits; c_memlimit := 2; c_l0limit := 100 |}
         (pinit {| c_slots := slots; c_permits := permits; c_memlimit := 2; c_l0limit := 100 |} n 0 0) evs = Some s
    /\ uaf s = true /\ failure_free evs.

(* ------------------------------------------------------------------ C17 *)
(* a step of the system itself: not chosen by the environment, not an iteration of a busy-wait loop *)
Definition progress_step (c : cfg) (s : plstate) : Prop :=
  exists a l s', env_label a l = false /\ stutter l = false /\ pstep c s a l = Some s'.
Definition unfinished (s : plstate) : Prop :=
  (exists i t, nth_error (thrs s) i = Some t /\ active t = true) \/ closing s = true.

(* the L0 stall depends on what compactions achieve (environment); the liveness statements are about
   runs in which the L0 condition never stalls a writer *)
Definition l0_quiet (evs : list (actor * label)) (c : cfg) : Prop :=
  forall a im l0, In (a, LStallCounted im l0) evs -> l0 < c_l0limit c.

(* In the code an empty batch returns Ok before the stall check (`if batch.is_empty() { return Ok(()) }`) and
   Transaction::commit never submits one; in the LTS a thread with `LEnter 0` would get stuck at `LSeqAllocated`
   (guard 0 < cnt).  The liveness statements are about runs whose batches are non-empty, as in every real run. *)
Definition nonempty_run (evs : list (actor * label)) : Prop := forall a k, In (a, LEnter k) evs -> 0 < k.

(* L1: no deadlock, whole system (rotation, stall protocol, flush and level tasks, close(), failures of env.write /
   env.apply, conflicts): whenever a commit() or close() is under way, some thread of the system can move.
   (Holds since the flush task re-checks for pending immutables after clearing `running` and notifies itself.) *)
Definition deadlock_free_stmt : Prop :=
  forall c n m v evs s, 0 < c_permits c -> c_permits c < c_slots c -> 2 <= c_memlimit c ->
    prun c (pinit c n m v) evs = Some s -> l0_quiet evs c -> nonempty_run evs -> unfinished s -> progress_step c s.
(* the same for the pipeline alone: runs without memtable rotation (no stall, no background work), no failures *)
Definition core_label (l : label) : bool :=
  match l with LArenaFull | LCloseStart | LLevelDone _ | LMemError | LLevelError => false | _ => true end.
Definition core_run (evs : list (actor * label)) : Prop := forall a l, In (a, l) evs -> core_label l = true.
Definition deadlock_free_core_stmt : Prop :=
  forall c n m v evs s, 0 < c_permits c -> c_permits c < c_slots c -> 2 <= c_memlimit c -> 0 < c_l0limit c ->
    prun c (pinit c n m v) evs = Some s -> core_run evs -> failure_free evs -> nonempty_run evs ->
    unfinished s -> progress_step c s.

(* L2: termination: there is a measure into a well-founded order that strictly decreases on every
   step of the system itself; hence no infinite run consists of such steps only *)
Definition terminates_stmt : Prop :=
  forall c n m v, 0 < c_permits c -> c_permits c < c_slots c ->
    exists (A : Type) (lt : A -> A -> Prop) (mu : plstate -> A),
      well_founded lt /\
      forall s a l s', reachable c n m v s -> pstep c s a l = Some s' ->
        env_label a l = false -> stutter l = false -> lt (mu s') (mu s).
