(* Conc/PipeFail_proofs.v — proofs / refutations of the statements of Conc/PipeFailSpec.v. *)
From Coq Require Import List NArith Arith Bool Lia.
From SKV Require Import Conc.PipeFail Conc.PipeFailSpec.
Import ListNotations.

(* ------------------------------------------------------------------ witnesses (8 slots, 7 permits) *)
Definition getst (o : option pst) : pst := match o with Some s => s | None => p0 0 end.

(* apply fails after the first of two entries: publish() moves the horizon over the batch *)
Definition wl_trace : list label := [LAcquire 0; LEnqueue 0 2; LApplyFail 0 1; LFinish 0].
Definition wl_state : pst := Eval vm_compute in getst (prun 8 false (p0 7) wl_trace).
Lemma wl_reach : reach 8 7 false wl_trace wl_state.
Proof. vm_compute. reflexivity. Qed.
Lemma wl_visible : failed wl_state 0 = true /\ visible_of wl_state 0 = [(1, 0)] /\ idle 7 wl_state = true.
Proof. vm_compute. auto. Qed.

Theorem failed_invisible_live_refuted : ~ failed_invisible_live_stmt 8 7 false.
Proof.
  intro H. destruct wl_visible as [W1 [W2 _]].
  specialize (H wl_trace wl_state 0 wl_reach W1). rewrite W2 in H. discriminate.
Qed.
Lemma wl_class : known_partial_apply wl_trace = true.
Proof. reflexivity. Qed.

(* regression of the former finding C15-N9 (commit queue overflow): committer 0 is slow in apply, seven
   commits fail meanwhile.  Before the repair each failing commit returned at once and freed its permit
   with its entry still queued, and the ninth commit found the eight slots taken.  Now a failing commit
   waits (LFinish is not enabled while its entry is queued) and keeps its permit: the seventh failing
   committer does not even get a permit — the old trace is no behaviour of the model any more — and
   the longest prefix of it that is one ends with six entries behind committer 0, no panic. *)
Definition fail_commit (i : nat) : list label := [LAcquire i; LEnqueue i 1; LWalFail i].
Definition wq_trace : list label :=
  Eval vm_compute in [LAcquire 0; LEnqueue 0 1] ++ concat (map fail_commit [1; 2; 3; 4; 5; 6; 7]) ++ [LAcquire 8; LEnqueue 8 1].
Lemma wq_not_a_behaviour : prun 8 true (p0 7) wq_trace = None.
Proof. vm_compute. reflexivity. Qed.
Definition wq_prefix : list label :=
  Eval vm_compute in [LAcquire 0; LEnqueue 0 1] ++ concat (map fail_commit [1; 2; 3; 4; 5; 6]).
Definition wq_state : pst := Eval vm_compute in getst (prun 8 true (p0 7) wq_prefix).
Lemma wq_reach : reach 8 7 true wq_prefix wq_state.
Proof. vm_compute. reflexivity. Qed.
Lemma wq_blocked : p_panic wq_state = false /\ length (p_q wq_state) = 7 /\ p_free wq_state = 0 /\
                   pstep 8 true wq_state (LAcquire 7) = None /\ pstep 8 true wq_state (LFinish 1) = None.
Proof. vm_compute. auto. Qed.
(* once committer 0 has applied, everything drains: all seven commits return, queue empty, permits free *)
Definition wq_drain : list label := Eval vm_compute in LApplyOk 0 :: map LFinish [0; 1; 2; 3; 4; 5; 6].
Lemma wq_drains : match prun 8 true wq_state wq_drain with
                  | Some s => idle 7 s = true /\ failed s 1 = true /\ failed s 6 = true /\ failed s 0 = false
                  | None => False end.
Proof. vm_compute. auto. Qed.

(* ------------------------------------------------------------------ basic facts *)
Lemma ph_get_set_same : forall i p l, ph_get i (ph_set i p l) = p.
Proof.
  intros i p. induction l as [|[j q] l IH]; cbn [ph_set ph_get].
  - now rewrite Nat.eqb_refl.
  - destruct (Nat.eqb i j) eqn:E; cbn [ph_get]; rewrite ?Nat.eqb_refl, ?E; auto.
Qed.
Lemma ph_get_set_other : forall i j p l, j <> i -> ph_get j (ph_set i p l) = ph_get j l.
Proof.
  intros i j p. induction l as [|[k q] l IH]; intros Hne; cbn [ph_set ph_get].
  - destruct (Nat.eqb j i) eqn:E; [apply Nat.eqb_eq in E; congruence|reflexivity].
  - destruct (Nat.eqb i k) eqn:E; cbn [ph_get].
    + apply Nat.eqb_eq in E. subst k. destruct (Nat.eqb j i) eqn:E2; [apply Nat.eqb_eq in E2; congruence|reflexivity].
    + destruct (Nat.eqb j k); auto.
Qed.

Lemma seq_entries_owner : forall k seq i e, In e (seq_entries seq k i) -> snd e = i.
Proof.
  induction k as [|k IH]; intros seq i e Hin; cbn [seq_entries] in Hin. destruct Hin.
  destruct Hin as [<-|Hin]. reflexivity. eapply IH; eauto.
Qed.

Lemma filter_owner_other : forall k seq i j, j <> i -> filter (fun e : nat * nat => Nat.eqb (snd e) j) (seq_entries seq k i) = [].
Proof.
  intros k seq i j Hne. induction k as [|k IH] in seq |- *; cbn [seq_entries filter]. reflexivity.
  cbn [snd]. destruct (Nat.eqb i j) eqn:E; [apply Nat.eqb_eq in E; congruence|]. apply IH.
Qed.

Section Live.
Variable SLOTS : nat.
Variable PERMITS : nat.
Variable ATOMIC : bool.

(* the phases a committer goes through once its batch is in the memtable in full *)
Definition landed (p : phase) : bool := match p with PWait true | PDone true => true | _ => false end.
Definition partial_of (i : nat) (t : list label) : bool :=
  existsb (fun l => match l with LApplyFail j (S _) => Nat.eqb j i | _ => false end) t.

(* J: a committer has entries in the memtable only if its apply succeeded or failed part-way *)
Definition J (s : pst) (t : list label) : Prop :=
  forall i, entries_of s i = [] \/ landed (ph_get i (p_ph s)) = true \/ partial_of i t = true.

Lemma partial_of_app : forall i t l, partial_of i (t ++ [l]) = partial_of i t || partial_of i [l].
Proof. intros. unfold partial_of. rewrite existsb_app. reflexivity. Qed.

Lemma entries_upd_mem : forall s free q ph next vis i,
  entries_of (upd s free q ph next vis (p_mem s)) i = entries_of s i.
Proof. reflexivity. Qed.

Lemma aap_fields : forall s i mem ph,
  p_mem (applied_and_publish s i mem ph) = mem /\
  p_ph (applied_and_publish s i mem ph) = ph_set i ph (p_ph s) /\
  p_panic (applied_and_publish s i mem ph) = p_panic s.
Proof.
  intros. unfold applied_and_publish. destruct (publish (q_mark i (p_q s)) (p_visible s)) as [q' v']. auto.
Qed.

Lemma J_step : forall s t l s', J s t -> pstep SLOTS ATOMIC s l = Some s' -> J s' (t ++ [l]).
Proof.
  intros s t l s' HJ Hs i. specialize (HJ i). unfold pstep in Hs.
  destruct (p_panic s); [discriminate|].
  assert (Hmono : partial_of i t = true -> partial_of i (t ++ [l]) = true).
  { intros E. rewrite partial_of_app, E. reflexivity. }
  (* steps that leave the memtable alone and move committer j out of a phase that is not `landed` *)
  assert (Hkeep : forall j p free q next vis,
            landed (ph_get j (p_ph s)) = false -> (j = i -> landed p = false -> True) ->
            s' = upd s free q (ph_set j p (p_ph s)) next vis (p_mem s) ->
            entries_of s' i = [] \/ landed (ph_get i (p_ph s')) = true \/ partial_of i (t ++ [l]) = true).
  { intros j p free q next vis Hnl _ ->. unfold entries_of. cbn [upd p_mem p_ph].
    destruct HJ as [E|[E|E]]; auto.
    destruct (Nat.eq_dec i j) as [->|Hne].
    - rewrite Hnl in E. discriminate.
    - right; left. rewrite ph_get_set_other by auto. exact E. }
  destruct l as [j|j|j cnt|j|j|j k|j].
  - destruct (ph_get j (p_ph s)) eqn:Ep; try discriminate. destruct (p_free s); [discriminate|].
    inversion Hs; subst. eapply Hkeep; eauto. rewrite Ep. reflexivity.
  - destruct (ph_get j (p_ph s)) eqn:Ep; try discriminate.
    inversion Hs; subst. eapply Hkeep; eauto. rewrite Ep. reflexivity.
  - destruct (ph_get j (p_ph s)) eqn:Ep; try discriminate. destruct cnt; [discriminate|].
    destruct (SLOTS <=? length (p_q s)).
    + inversion Hs; subst. unfold entries_of. cbn [p_mem p_ph]. destruct HJ as [E|[E|E]]; auto.
    + inversion Hs; subst. eapply Hkeep; eauto. rewrite Ep. reflexivity.
  - destruct (ph_get j (p_ph s)) eqn:Ep; try discriminate.
    inversion Hs; subst. destruct (aap_fields s j (p_mem s) (PWait false)) as [A [Bq _]].
    unfold entries_of. rewrite A, Bq. destruct HJ as [E|[E|E]]; auto.
    destruct (Nat.eq_dec i j) as [->|Hne]. { rewrite Ep in E. discriminate. }
    right; left. rewrite ph_get_set_other by auto. exact E.
  - destruct (ph_get j (p_ph s)) eqn:Ep; try discriminate. destruct (q_find j (p_q s)) as [e|]; [|discriminate].
    inversion Hs; subst. destruct (aap_fields s j (p_mem s ++ seq_entries (e_seq e) (e_cnt e) j) (PWait true)) as [A [Bq _]].
    unfold entries_of. rewrite A, Bq.
    destruct (Nat.eq_dec i j) as [->|Hne]. { right; left. rewrite ph_get_set_same. reflexivity. }
    rewrite filter_app, filter_owner_other, app_nil_r by auto. rewrite ph_get_set_other by auto.
    destruct HJ as [E|[E|E]]; auto.
  - destruct (ph_get j (p_ph s)) eqn:Ep; try discriminate. destruct (q_find j (p_q s)) as [e|]; [|discriminate].
    destruct ((k <? e_cnt e) && (negb ATOMIC || Nat.eqb k 0)); [|discriminate].
    inversion Hs; subst. destruct (aap_fields s j (p_mem s ++ seq_entries (e_seq e) k j) (PWait false)) as [A [Bq _]].
    unfold entries_of. rewrite A, Bq.
    destruct (Nat.eq_dec i j) as [->|Hne].
    + destruct k as [|k].
      * cbn [seq_entries]. rewrite app_nil_r. destruct HJ as [E|[E|E]]; auto. rewrite Ep in E. discriminate.
      * right; right. rewrite partial_of_app. cbn. rewrite Nat.eqb_refl. apply orb_true_r.
    + rewrite filter_app, filter_owner_other, app_nil_r by auto. rewrite ph_get_set_other by auto.
      destruct HJ as [E|[E|E]]; auto.
  - destruct (ph_get j (p_ph s)) eqn:Ep; try discriminate. destruct (q_find j (p_q s)); [discriminate|].
    inversion Hs; subst. unfold entries_of. cbn [upd p_mem p_ph].
    destruct (Nat.eq_dec i j) as [->|Hne].
    { destruct HJ as [E|[E|E]]; auto. right; left. rewrite ph_get_set_same. rewrite Ep in E. exact E. }
    rewrite ph_get_set_other by auto. destruct HJ as [E|[E|E]]; auto.
Qed.

Lemma J_run : forall t2 s t1 s', J s t1 -> prun SLOTS ATOMIC s t2 = Some s' -> J s' (t1 ++ t2).
Proof.
  induction t2 as [|l t2 IH]; intros s t1 s' HJ Hr; cbn [prun] in Hr.
  - inversion Hr; subst. now rewrite app_nil_r.
  - destruct (pstep SLOTS ATOMIC s l) as [s1|] eqn:Es; [|discriminate].
    replace (t1 ++ l :: t2) with ((t1 ++ [l]) ++ t2) by (rewrite <- app_assoc; reflexivity).
    eapply IH; [|exact Hr]. eapply J_step; eauto.
Qed.

Lemma partial_of_known : forall i t, known_partial_apply t = false -> partial_of i t = false.
Proof.
  intros i t. unfold known_partial_apply, partial_of. induction t as [|l t IH]; cbn [existsb]. auto.
  intros H. apply orb_false_iff in H. destruct H as [H1 H2]. rewrite (IH H2), orb_false_r.
  destruct l; auto. destruct k; [reflexivity|discriminate].
Qed.
End Live.

Theorem failed_invisible_live_outside_known : forall SLOTS PERMITS ATOMIC,
  failed_invisible_live_outside_known_stmt SLOTS PERMITS ATOMIC.
Proof.
  intros SLOTS PERMITS ATOMIC t s i Hr Hf Hk. unfold reach in Hr.
  assert (HJ0 : J (p0 PERMITS) []) by (intros j; left; reflexivity).
  pose proof (J_run SLOTS ATOMIC t (p0 PERMITS) [] s HJ0 Hr i) as HJ. cbn [app] in HJ.
  assert (He : entries_of s i = []).
  { destruct HJ as [E|[E|E]]; auto.
    - unfold failed in Hf. destruct (ph_get i (p_ph s)) as [| | | |[|]]; discriminate.
    - rewrite (partial_of_known i t Hk) in E. discriminate. }
  split. exact He.
  unfold visible_of. unfold entries_of in He.
  induction (p_mem s) as [|e m IH]; cbn [filter] in *. reflexivity.
  destruct (Nat.eqb (snd e) i); cbn [andb]. discriminate. apply IH. exact He.
Qed.

(* ------------------------------------------------------------------ sequential use *)
Lemma idle_inv : forall P s, idle P s = true -> p_free s = P /\ p_q s = [] /\ p_panic s = false.
Proof.
  intros P s H. unfold idle in H. apply andb_true_iff in H. destruct H as [H H3].
  apply andb_true_iff in H. destruct H as [H1 H2]. apply Nat.eqb_eq in H1.
  destruct (p_q s); [|discriminate]. destruct (p_panic s); [discriminate|]. auto.
Qed.

Section Seq.
Variable SLOTS : nat.
Variable PERMITS : nat.
Variable ATOMIC : bool.

Lemma st_acquire : forall s i f, p_panic s = false -> ph_get i (p_ph s) = PIdle -> p_free s = S f ->
  pstep SLOTS ATOMIC s (LAcquire i) = Some (upd s f (p_q s) (ph_set i PPermit (p_ph s)) (p_next s) (p_visible s) (p_mem s)).
Proof. intros s i f H1 H2 H3. unfold pstep. rewrite H1, H2, H3. reflexivity. Qed.

Lemma st_conflict : forall s i, p_panic s = false -> ph_get i (p_ph s) = PPermit ->
  pstep SLOTS ATOMIC s (LConflict i) = Some (upd s (S (p_free s)) (p_q s) (ph_set i (PDone false) (p_ph s)) (p_next s) (p_visible s) (p_mem s)).
Proof. intros s i H1 H2. unfold pstep. rewrite H1, H2. reflexivity. Qed.

Lemma st_enqueue : forall s i c, p_panic s = false -> ph_get i (p_ph s) = PPermit -> length (p_q s) < SLOTS ->
  pstep SLOTS ATOMIC s (LEnqueue i (S c)) =
  Some (upd s (p_free s) (p_q s ++ [{| e_id := i; e_seq := p_next s; e_cnt := S c; e_applied := false |}])
            (ph_set i PQueued (p_ph s)) (p_next s + S c) (p_visible s) (p_mem s)).
Proof.
  intros s i c H1 H2 H3. unfold pstep. rewrite H1, H2.
  destruct (SLOTS <=? length (p_q s)) eqn:E; [apply Nat.leb_le in E; lia|reflexivity].
Qed.

(* the queue holds exactly the (unapplied) entry of i *)
Lemma aap_single : forall s i e mem ph,
  p_q s = [e] -> e_id e = i ->
  applied_and_publish s i mem ph =
  upd s (p_free s) [] (ph_set i ph (p_ph s)) (p_next s)
      (Nat.max (p_visible s) (e_seq e + e_cnt e - 1)) mem.
Proof.
  intros s i e mem ph Hq He. unfold applied_and_publish. rewrite Hq. cbn [q_mark map]. rewrite He, Nat.eqb_refl.
  cbn [publish e_applied e_seq e_cnt]. reflexivity.
Qed.

Lemma st_finish : forall s i ok, p_panic s = false -> ph_get i (p_ph s) = PWait ok -> p_q s = [] ->
  pstep SLOTS ATOMIC s (LFinish i) = Some (upd s (S (p_free s)) (p_q s) (ph_set i (PDone ok) (p_ph s)) (p_next s) (p_visible s) (p_mem s)).
Proof. intros s i ok H1 H2 H3. unfold pstep. rewrite H1, H2, H3. reflexivity. Qed.

(* marking the only entry applied, publishing and finishing leaves an idle pipeline *)
Lemma seq_tail : forall s i e mem ok P,
  p_panic s = false -> p_q s = [e] -> e_id e = i -> p_free s = P ->
  exists s', pstep SLOTS ATOMIC (applied_and_publish s i mem (PWait ok)) (LFinish i) = Some s' /\
             idle (S P) s' = true /\ p_ph s' = ph_set i (PDone ok) (ph_set i (PWait ok) (p_ph s)).
Proof.
  intros s i e mem ok P Hp Hq He Hf. rewrite (aap_single s i e mem _ Hq He).
  rewrite (st_finish _ i ok); cbn [upd p_panic p_ph p_q p_free]; auto using ph_get_set_same.
  eexists. split. reflexivity. unfold idle. cbn [upd p_free p_q p_panic p_ph]. rewrite Hf, Hp, Nat.eqb_refl. auto.
Qed.
End Seq.

Theorem pipeline_not_poisoned_sequential : forall SLOTS PERMITS ATOMIC,
  pipeline_not_poisoned_sequential_stmt SLOTS PERMITS ATOMIC.
Proof.
  intros SLOTS PERMITS ATOMIC HP HS s i cnt k tr Hidle Hph Hcnt Hk Hk0 Hin.
  destruct (idle_inv _ _ Hidle) as [Hfree [Hq Hpan]].
  destruct PERMITS as [|P]; [lia|]. destruct cnt as [|c]; [lia|].
  set (s1 := upd s P (p_q s) (ph_set i PPermit (p_ph s)) (p_next s) (p_visible s) (p_mem s)).
  assert (E1 : pstep SLOTS ATOMIC s (LAcquire i) = Some s1) by (apply st_acquire; auto).
  assert (P1 : p_panic s1 = false /\ ph_get i (p_ph s1) = PPermit /\ p_q s1 = [] /\ p_free s1 = P).
  { unfold s1. cbn [upd p_panic p_ph p_q p_free]. rewrite ph_get_set_same. auto. }
  destruct P1 as [Pa [Pb [Pc Pd]]].
  set (e := {| e_id := i; e_seq := p_next s1; e_cnt := S c; e_applied := false |}).
  set (s2 := upd s1 (p_free s1) (p_q s1 ++ [e]) (ph_set i PQueued (p_ph s1)) (p_next s1 + S c) (p_visible s1) (p_mem s1)).
  assert (E2 : pstep SLOTS ATOMIC s1 (LEnqueue i (S c)) = Some s2).
  { apply st_enqueue; auto. rewrite Pc. cbn. lia. }
  assert (P2 : p_panic s2 = false /\ ph_get i (p_ph s2) = PQueued /\ p_q s2 = [e] /\ p_free s2 = P).
  { unfold s2. cbn [upd p_panic p_ph p_q p_free]. rewrite ph_get_set_same, Pc. auto. }
  destruct P2 as [Qa [Qb [Qc Qd]]].
  assert (Htail : forall mem ok, exists s', pstep SLOTS ATOMIC (applied_and_publish s2 i mem (PWait ok)) (LFinish i) = Some s' /\
             idle (S P) s' = true /\ (forall j, j <> i -> ph_get j (p_ph s') = ph_get j (p_ph s))).
  { intros mem ok. destruct (seq_tail SLOTS ATOMIC s2 i e mem ok P Qa Qc eq_refl Qd) as [s' [A [Bq Cq]]].
    exists s'. split. exact A. split. exact Bq. intros j Hj. rewrite Cq. unfold s2, s1. cbn [upd p_ph].
    now rewrite !ph_get_set_other by auto. }
  cbn [commit_paths In] in Hin.
  destruct Hin as [<-|[<-|[<-|[<-|[]]]]]; cbn [prun]; rewrite E1.
  - rewrite st_conflict by auto. eexists. split. reflexivity.
    unfold idle. cbn [upd p_free p_q p_panic p_ph]. rewrite Pd, Pc, Pa, Nat.eqb_refl. split. reflexivity.
    intros j Hj. unfold s1. cbn [upd p_ph]. now rewrite !ph_get_set_other by auto.
  - rewrite E2. unfold pstep at 1. rewrite Qa, Qb.
    destruct (Htail (p_mem s2) false) as [s' [A Bq]]. rewrite A. exists s'. auto.
  - rewrite E2. unfold pstep at 1. rewrite Qa, Qb, Qc. cbn [q_find e_id e]. rewrite Nat.eqb_refl. cbn [e_cnt e].
    assert (Ek : ((k <? S c) && (negb ATOMIC || Nat.eqb k 0)) = true).
    { apply andb_true_iff. split. apply Nat.ltb_lt; lia. destruct ATOMIC; [|reflexivity]. rewrite (Hk0 eq_refl). reflexivity. }
    rewrite Ek.
    destruct (Htail (p_mem s2 ++ seq_entries (e_seq e) k i) false) as [s' [A Bq]]. cbn [e_seq e] in *. rewrite A. exists s'. auto.
  - rewrite E2. unfold pstep at 1. rewrite Qa, Qb, Qc. cbn [q_find e_id e]. rewrite Nat.eqb_refl.
    destruct (Htail (p_mem s2 ++ seq_entries (e_seq e) (e_cnt e) i) true) as [s' [A Bq]]. cbn [e_seq e_cnt e] in *. rewrite A. exists s'. auto.
Qed.

(* ------------------------------------------------------------------ every interleaving: permits cover the queue *)
Definition holding (p : phase) : bool := match p with PPermit | PQueued | PWait _ => true | _ => false end.
Definition hold_ids (l : list (nat * phase)) : list nat := map fst (filter (fun x => holding (snd x)) l).
Definition inq (p : phase) : bool := match p with PQueued | PWait _ => true | _ => false end.
Definition waiting (p : phase) : bool := match p with PWait _ => true | _ => false end.

Lemma hold_ids_set : forall i p l,
  length (hold_ids (ph_set i p l)) + (if holding (ph_get i l) then 1 else 0) =
  length (hold_ids l) + (if holding p then 1 else 0).
Proof.
  intros i p. induction l as [|[j q] l IH]; cbn [ph_set ph_get].
  - unfold hold_ids. cbn [filter snd]. destruct (holding p); reflexivity.
  - destruct (Nat.eqb i j) eqn:E.
    + unfold hold_ids. cbn [filter snd]. destruct (holding p), (holding q); cbn [map length]; lia.
    + unfold hold_ids in *. cbn [filter snd]. destruct (holding q); cbn [map length]; lia.
Qed.

Lemma hold_ids_in : forall j l, holding (ph_get j l) = true -> In j (hold_ids l).
Proof.
  intros j. induction l as [|[k q] l IH]; cbn [ph_get]; intros H. discriminate.
  unfold hold_ids in *. cbn [filter snd]. destruct (Nat.eqb j k) eqn:E.
  - apply Nat.eqb_eq in E. subst k. rewrite H. left. reflexivity.
  - destruct (holding q); [right|]; apply IH; exact H.
Qed.

Lemma q_mark_ids : forall i q, map e_id (q_mark i q) = map e_id q.
Proof.
  intros i. induction q as [|e q IH]; cbn [q_mark map]. reflexivity.
  f_equal; [destruct (Nat.eqb (e_id e) i); reflexivity|exact IH].
Qed.

Lemma q_find_none : forall i q, q_find i q = None <-> ~ In i (map e_id q).
Proof.
  intros i. induction q as [|e q IH]; cbn [q_find map In]. tauto.
  destruct (Nat.eqb (e_id e) i) eqn:E.
  - apply Nat.eqb_eq in E. split; [discriminate|]. intros H. exfalso. apply H. left. exact E.
  - apply Nat.eqb_neq in E. rewrite IH. tauto.
Qed.

Lemma q_find_some : forall i q e, q_find i q = Some e -> In e q /\ e_id e = i.
Proof.
  intros i. induction q as [|x q IH]; cbn [q_find]; intros e H. discriminate.
  destruct (Nat.eqb (e_id x) i) eqn:E.
  - inversion H; subst. apply Nat.eqb_eq in E. split; [left; reflexivity|exact E].
  - destruct (IH e H). split; [right|]; assumption.
Qed.

(* publish removes a prefix of applied entries; what remains starts with an unapplied entry *)
Lemma publish_split : forall q v q' v', publish q v = (q', v') ->
  exists pre, q = pre ++ q' /\ (forall e, In e pre -> e_applied e = true) /\
              (match q' with e :: _ => e_applied e = false | [] => True end).
Proof.
  induction q as [|e q IH]; intros v q' v' H; cbn [publish] in H.
  - inversion H; subst. exists []. split; [reflexivity|]. split; [intros e []|exact I].
  - destruct (e_applied e) eqn:Ea.
    + destruct (IH _ _ _ H) as [pre [E1 [E2 E3]]]. exists (e :: pre). split. { cbn. now rewrite <- E1. }
      split; [|exact E3]. intros x [<-|Hx]; auto.
    + inversion H; subst. exists []. split; [reflexivity|]. split; [intros x []|exact Ea].
Qed.

Lemma nodup_app_r : forall {A} (a b : list A), NoDup (a ++ b) -> NoDup b.
Proof. intros A a b. induction a as [|x a IH]; cbn [app]; intros H. exact H. inversion H; auto. Qed.
Lemma nodup_snoc : forall {A} (l : list A) x, ~ In x l -> NoDup l -> NoDup (l ++ [x]).
Proof.
  intros A l x Hx Hn. induction l as [|y l IH]; cbn [app]. { constructor; [intros []|constructor]. }
  inversion Hn as [|y' l' Hy Hl]; subst. constructor.
  - intros Hin. apply in_app_or in Hin. destruct Hin as [Hin|[E|[]]]. auto. subst. apply Hx. left. reflexivity.
  - apply IH; auto. intros Hin. apply Hx. right. exact Hin.
Qed.

Section Cover.
Variable SLOTS : nat.
Variable PERMITS : nat.
Variable ATOMIC : bool.
Hypothesis HPS : PERMITS < SLOTS.

Record KInv (s : pst) : Prop := {
  k_perm : p_free s + length (hold_ids (p_ph s)) = PERMITS;
  k_nodup : NoDup (map e_id (p_q s));
  k_own : forall e, In e (p_q s) ->
            (ph_get (e_id e) (p_ph s) = PQueued /\ e_applied e = false) \/
            (waiting (ph_get (e_id e) (p_ph s)) = true /\ e_applied e = true);
  k_head : match p_q s with e :: _ => e_applied e = false | [] => True end;
  k_queued : forall j, ph_get j (p_ph s) = PQueued -> In j (map e_id (p_q s));
  k_nopanic : p_panic s = false;
}.

Lemma K0 : KInv (p0 PERMITS).
Proof.
  constructor; cbn [p0 p_free p_ph p_q p_panic hold_ids filter map length].
  - apply Nat.add_0_r.
  - constructor.
  - intros e [].
  - exact I.
  - intros j H. discriminate.
  - reflexivity.
Qed.

Lemma K_bound : forall s, KInv s -> length (p_q s) + p_free s <= PERMITS.
Proof.
  intros s K. pose proof (k_perm s K) as Hp.
  assert (Hl : length (map e_id (p_q s)) <= length (hold_ids (p_ph s))).
  { apply NoDup_incl_length. exact (k_nodup s K). intros j Hj. apply in_map_iff in Hj. destruct Hj as [e [<- He]].
    apply hold_ids_in. destruct (k_own s K e He) as [[E _]|[E _]]; [rewrite E; reflexivity|destruct (ph_get (e_id e) (p_ph s)); try discriminate; reflexivity]. }
  rewrite map_length in Hl. lia.
Qed.

(* an owner change of committer i that keeps every queue entry's owner phase *)
Lemma own_other : forall s i p e,
  KInv s -> In e (p_q s) -> e_id e <> i ->
  (ph_get (e_id e) (ph_set i p (p_ph s)) = PQueued /\ e_applied e = false) \/
  (waiting (ph_get (e_id e) (ph_set i p (p_ph s))) = true /\ e_applied e = true).
Proof. intros s i p e K He Hne. rewrite ph_get_set_other by auto. exact (k_own s K e He). Qed.

Lemma not_owner : forall s i, KInv s -> inq (ph_get i (p_ph s)) = false -> forall e, In e (p_q s) -> e_id e <> i.
Proof.
  intros s i K Hp e He E. subst i. destruct (k_own s K e He) as [[E _]|[E _]]; [rewrite E in Hp; discriminate|destruct (ph_get (e_id e) (p_ph s)); discriminate].
Qed.

(* marking i's entry and publishing: i goes on waiting (its entry may stay queued), the permit is kept *)
Lemma K_after_publish : forall s i q' v' ok,
  KInv s ->
  publish (q_mark i (p_q s)) (p_visible s) = (q', v') ->
  ph_get i (p_ph s) = PQueued ->
  forall mem, KInv (upd s (p_free s) q' (ph_set i (PWait ok) (p_ph s)) (p_next s) v' mem).
Proof.
  intros s i q' v' ok K Hpub Hq mem.
  assert (Hperm : p_free s + length (hold_ids (ph_set i (PWait ok) (p_ph s))) = PERMITS).
  { pose proof (hold_ids_set i (PWait ok) (p_ph s)) as Hc. rewrite Hq in Hc. cbn in Hc. pose proof (k_perm s K). lia. }
  destruct (publish_split _ _ _ _ Hpub) as [pre [Esplit [Hpre Hhead]]].
  assert (Hids : map e_id (p_q s) = map e_id pre ++ map e_id q').
  { rewrite <- (q_mark_ids i), Esplit, map_app. reflexivity. }
  assert (Hin' : forall e, In e q' -> exists e0, In e0 (p_q s) /\ e_id e0 = e_id e /\
                   ((e_id e = i /\ e_applied e = true) \/ (e_id e <> i /\ e = e0))).
  { intros e He. assert (Hm : In e (q_mark i (p_q s))) by (rewrite Esplit; apply in_or_app; right; exact He).
    unfold q_mark in Hm. apply in_map_iff in Hm. destruct Hm as [e0 [E0 H0]]. exists e0. split. exact H0.
    destruct (Nat.eqb (e_id e0) i) eqn:E; subst e; cbn [e_id e_applied].
    - apply Nat.eqb_eq in E. split. reflexivity. left. auto.
    - apply Nat.eqb_neq in E. split. reflexivity. right. auto. }
  constructor; cbn [upd p_free p_ph p_q p_panic].
  - exact Hperm.
  - pose proof (k_nodup s K) as Hn. rewrite Hids in Hn. exact (nodup_app_r _ _ Hn).
  - intros e He. destruct (Hin' e He) as [e0 [H0 [Eid [[Ei Ea]|[Ei Ee]]]]].
    + rewrite Ei, ph_get_set_same. right. auto.
    + subst e0. rewrite ph_get_set_other by auto. exact (k_own s K e H0).
  - exact Hhead.
  - intros j Hj. destruct (Nat.eq_dec j i) as [->|Hne].
    + rewrite ph_get_set_same in Hj. discriminate.
    + rewrite ph_get_set_other in Hj by auto. pose proof (k_queued s K j Hj) as Hin.
      rewrite Hids in Hin. apply in_app_or in Hin. destruct Hin as [Hin|Hin]; [|exact Hin]. exfalso.
      (* an entry of the dequeued prefix is applied; j is PQueued, its entry is not *)
      apply in_map_iff in Hin. destruct Hin as [e [Ee He]].
      assert (Hm : In e (q_mark i (p_q s))) by (rewrite Esplit; apply in_or_app; left; exact He).
      pose proof (Hpre e He) as Happ.
      unfold q_mark in Hm. apply in_map_iff in Hm. destruct Hm as [e0 [E0 H0]].
      destruct (Nat.eqb (e_id e0) i) eqn:E; subst e; cbn [e_id e_applied] in *.
      * apply Nat.eqb_eq in E. congruence.
      * destruct (k_own s K e0 H0) as [[_ A]|[A _]]; [congruence|]. rewrite Ee, Hj in A. discriminate.
  - exact (k_nopanic s K).
Qed.

Lemma K_step : forall s l s', KInv s -> pstep SLOTS ATOMIC s l = Some s' -> KInv s'.
Proof.
  intros s l s' K Hs. unfold pstep in Hs. rewrite (k_nopanic s K) in Hs.
  pose proof (k_perm s K) as Hperm.
  destruct l as [i|i|i cnt|i|i|i k|i].
  - (* acquire *)
    destruct (ph_get i (p_ph s)) eqn:Ep; try discriminate. destruct (p_free s) as [|f] eqn:Ef; [discriminate|].
    inversion Hs; subst. clear Hs.
    assert (Hno := not_owner s i K ltac:(rewrite Ep; reflexivity)).
    pose proof (hold_ids_set i PPermit (p_ph s)) as Hc. rewrite Ep in Hc. cbn in Hc.
    constructor; cbn [upd p_free p_ph p_q p_panic].
    + lia.
    + exact (k_nodup s K).
    + intros e He. apply own_other; auto.
    + exact (k_head s K).
    + intros j Hj. destruct (Nat.eq_dec j i) as [->|Hn]. { rewrite ph_get_set_same in Hj. discriminate. }
      rewrite ph_get_set_other in Hj by auto. exact (k_queued s K j Hj).
    + exact (k_nopanic s K).
  - (* conflict *)
    destruct (ph_get i (p_ph s)) eqn:Ep; try discriminate. inversion Hs; subst. clear Hs.
    assert (Hno := not_owner s i K ltac:(rewrite Ep; reflexivity)).
    pose proof (hold_ids_set i (PDone false) (p_ph s)) as Hc. rewrite Ep in Hc. cbn in Hc.
    constructor; cbn [upd p_free p_ph p_q p_panic].
    + lia.
    + exact (k_nodup s K).
    + intros e He. apply own_other; auto.
    + exact (k_head s K).
    + intros j Hj. destruct (Nat.eq_dec j i) as [->|Hn]. { rewrite ph_get_set_same in Hj. discriminate. }
      rewrite ph_get_set_other in Hj by auto. exact (k_queued s K j Hj).
    + exact (k_nopanic s K).
  - (* enqueue *)
    destruct (ph_get i (p_ph s)) eqn:Ep; try discriminate. destruct cnt as [|c]; [discriminate|].
    assert (Hno := not_owner s i K ltac:(rewrite Ep; reflexivity)).
    assert (Hni : ~ In i (map e_id (p_q s))).
    { intros Hin. apply in_map_iff in Hin. destruct Hin as [e [E He]]. exact (Hno e He E). }
    (* the queue cannot be full: its owners and i hold distinct permits *)
    assert (Hlen : S (length (p_q s)) <= PERMITS).
    { assert (Hl : length (i :: map e_id (p_q s)) <= length (hold_ids (p_ph s))).
      { apply NoDup_incl_length. constructor; [exact Hni|exact (k_nodup s K)].
        intros j [<-|Hj]. { apply hold_ids_in. rewrite Ep. reflexivity. }
        apply in_map_iff in Hj. destruct Hj as [e [<- He]]. apply hold_ids_in.
        destruct (k_own s K e He) as [[E _]|[E _]]; [rewrite E; reflexivity|destruct (ph_get (e_id e) (p_ph s)); try discriminate; reflexivity]. }
      cbn [length] in Hl. rewrite map_length in Hl. lia. }
    destruct (SLOTS <=? length (p_q s)) eqn:Efull. { apply Nat.leb_le in Efull. lia. }
    inversion Hs; subst. clear Hs.
    pose proof (hold_ids_set i PQueued (p_ph s)) as Hc. rewrite Ep in Hc. cbn in Hc.
    constructor; cbn [upd p_free p_ph p_q p_panic].
    + lia.
    + rewrite map_app. cbn [map e_id]. apply nodup_snoc; [exact Hni|exact (k_nodup s K)].
    + intros e He. apply in_app_or in He. destruct He as [He|[<-|[]]].
      * apply own_other; auto.
      * cbn [e_id e_applied]. rewrite ph_get_set_same. left. auto.
    + pose proof (k_head s K) as Hh. destruct (p_q s); cbn [app]; [reflexivity|exact Hh].
    + intros j Hj. rewrite map_app. apply in_or_app. destruct (Nat.eq_dec j i) as [->|Hn]. { right. left. reflexivity. }
      rewrite ph_get_set_other in Hj by auto. left. exact (k_queued s K j Hj).
    + exact (k_nopanic s K).
  - (* WAL failure: the committer goes on waiting with its failure recorded *)
    destruct (ph_get i (p_ph s)) eqn:Ep; try discriminate. inversion Hs; subst. clear Hs.
    unfold applied_and_publish. destruct (publish (q_mark i (p_q s)) (p_visible s)) as [q' v'] eqn:Hpub.
    apply (K_after_publish s i q' v' false K Hpub Ep).
  - (* apply succeeds *)
    destruct (ph_get i (p_ph s)) eqn:Ep; try discriminate. destruct (q_find i (p_q s)) as [e|]; [|discriminate].
    inversion Hs; subst. clear Hs.
    unfold applied_and_publish. destruct (publish (q_mark i (p_q s)) (p_visible s)) as [q' v'] eqn:Hpub.
    apply (K_after_publish s i q' v' true K Hpub Ep).
  - (* apply fails: as the WAL failure, with the inserted prefix in the memtable *)
    destruct (ph_get i (p_ph s)) eqn:Ep; try discriminate. destruct (q_find i (p_q s)) as [e0|]; [|discriminate].
    destruct ((k <? e_cnt e0) && (negb ATOMIC || Nat.eqb k 0)); [|discriminate]. inversion Hs; subst. clear Hs.
    unfold applied_and_publish. destruct (publish (q_mark i (p_q s)) (p_visible s)) as [q' v'] eqn:Hpub.
    apply (K_after_publish s i q' v' false K Hpub Ep).
  - (* finish *)
    destruct (ph_get i (p_ph s)) eqn:Ep; try discriminate. destruct (q_find i (p_q s)) eqn:Ef; [discriminate|].
    inversion Hs; subst. clear Hs. apply q_find_none in Ef.
    pose proof (hold_ids_set i (PDone ok) (p_ph s)) as Hc. rewrite Ep in Hc. cbn in Hc.
    constructor; cbn [upd p_free p_ph p_q p_panic].
    + lia.
    + exact (k_nodup s K).
    + intros e He. apply own_other; auto. intros E. apply Ef. rewrite <- E. apply in_map. exact He.
    + exact (k_head s K).
    + intros j Hj. destruct (Nat.eq_dec j i) as [->|Hn]. { rewrite ph_get_set_same in Hj. discriminate. }
      rewrite ph_get_set_other in Hj by auto. exact (k_queued s K j Hj).
    + exact (k_nopanic s K).
Qed.

Lemma K_run : forall t s s', KInv s -> prun SLOTS ATOMIC s t = Some s' -> KInv s'.
Proof.
  induction t as [|l t IH]; intros s s' K Hr; cbn [prun] in Hr.
  - inversion Hr; subst. exact K.
  - destruct (pstep SLOTS ATOMIC s l) as [s1|] eqn:Es; [|discriminate].
    eapply IH; [|exact Hr]. eapply K_step; eauto.
Qed.
End Cover.

(* the full statement: no overflow, and the queue plus the free permits never exceed the permits *)
Theorem pipeline_not_poisoned : forall SLOTS PERMITS ATOMIC, pipeline_not_poisoned_stmt SLOTS PERMITS ATOMIC.
Proof.
  intros SLOTS PERMITS ATOMIC HPS t s Hr. unfold reach in Hr.
  pose proof (K_run SLOTS PERMITS ATOMIC HPS t (p0 PERMITS) s (K0 PERMITS) Hr) as K.
  split. { destruct K; assumption. } eapply K_bound; eauto.
Qed.

(* ------------------------------------------------------------------ all-or-nothing add: the plain statement in full *)
Lemma atomic_no_partial : forall SLOTS t s s', prun SLOTS true s t = Some s' -> known_partial_apply t = false.
Proof.
  intros SLOTS. induction t as [|l t IH]; intros s s' Hr. reflexivity.
  cbn [prun] in Hr. destruct (pstep SLOTS true s l) as [s1|] eqn:Es; [|discriminate].
  unfold known_partial_apply in *. cbn [existsb]. rewrite (IH _ _ Hr), orb_false_r.
  destruct l as [i|i|i c|i|i|i k|i]; auto. destruct k as [|k]; [reflexivity|].
  unfold pstep in Es. destruct (p_panic s); [discriminate|].
  destruct (ph_get i (p_ph s)); try discriminate. destruct (q_find i (p_q s)); [|discriminate].
  cbn [negb orb Nat.eqb] in Es. rewrite andb_false_r in Es. discriminate.
Qed.

Theorem failed_invisible_live_full : forall SLOTS PERMITS ATOMIC, failed_invisible_live_full_stmt SLOTS PERMITS ATOMIC.
Proof.
  intros SLOTS PERMITS ATOMIC -> t s i Hr Hf.
  apply (failed_invisible_live_outside_known SLOTS PERMITS true t s i Hr Hf).
  exact (atomic_no_partial SLOTS t _ _ Hr).
Qed.

(* the old partial-apply trace is no behaviour of the all-or-nothing add *)
Lemma wl_not_a_behaviour : prun 8 true (p0 7) wl_trace = None.
Proof. vm_compute. reflexivity. Qed.
(* the same commit failing in apply now: nothing of it is in the memtable *)
Definition wl0_trace : list label := [LAcquire 0; LEnqueue 0 2; LApplyFail 0 0; LFinish 0].
Lemma wl0_invisible : match prun 8 true (p0 7) wl0_trace with
                      | Some s => failed s 0 = true /\ entries_of s 0 = [] /\ p_visible s = 2 /\ idle 7 s = true
                      | None => False end.
Proof. vm_compute. auto. Qed.
