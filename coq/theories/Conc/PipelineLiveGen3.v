(* Conc/PipelineLiveGen3.v — the invariant of the whole system, part 3: the batches *)
From Coq Require Import List Arith Bool Lia.
From SKV Require Import Conc.Pipeline Conc.PipelineExplore Conc.PipelineSpec Conc.PipelineLiveBase Conc.PipelineLiveGen.
Import ListNotations.

Lemma qf_gframe : forall c s s0 i x, GInv c s -> qhead s0 = qhead s -> logrel sameA (qlog s) (qlog s0) -> QF (put_thr s0 i x).
Proof.
  intros c s s0 i x HI Hh [_ Hl] b Hb. psimpl_in Hb. rewrite Hh in Hb.
  destruct (Hl _ _ Hb) as [b0 [Hb0 Ha]]. rewrite Ha. apply (g_qf c s HI b0 Hb0).
Qed.
Lemma qref_gframe : forall c s s0 i x, GInv c s -> qtail s <= qtail s0 -> logrel sameQ (qlog s) (qlog s0) -> QREF (put_thr s0 i x).
Proof.
  intros c s s0 i x HI Hh [_ Hl] p b Hp Hb. psimpl_in Hb. psimpl_in Hp.
  destruct (Hl _ _ Hb) as [b0 [Hb0 Ha]]. rewrite Ha. apply (g_qref c s HI p b0); auto. lia.
Qed.
Lemma qf_gstep : forall c s i t l s', GInv c s -> thr_at s i t -> step_commit c s i t l = Some s' -> QF s'.
Proof.
  intros c s i t l s' HI Ht H.
  gstart c s i t l H HI Ht.
  all: try exact (g_qf c s HI).
  all: try (eapply qf_gframe; try exact HI; psimpl; auto; logrel_tac).
  (* LMarked, three times *)
  all: try solve [ intros b Hb; simpl in Hb; apply my_batch_inv in Hm as [Hm1 Hm2];
    destruct Hti as [_ [_ Hq]]; unfold my_lt in Hq; rewrite Hm1 in Hq;
    rewrite nth_error_set_nth_neq in Hb by lia; apply (g_qf c s HI b Hb) ].
  - (* LEnqStored *)
    intros b Hb. simpl in Hb. specialize (Hls2 ltac:(discriminate)). rewrite <- Hls2 in Hb.
    rewrite nth_error_app_last in Hb. injection Hb as <-. reflexivity.
  - (* LEnqDone *)
    intros b Hb. psimpl_in Hb. destruct (Hls1 eq_refl) as [Hlen _].
    apply nth_error_lt in Hb. lia.
Qed.

Lemma qref_gstep : forall c s i t l s', GInv c s -> thr_at s i t -> step_commit c s i t l = Some s' -> QREF s'.
Proof.
  intros c s i t l s' HI Ht H.
  gstart c s i t l H HI Ht.
  all: try exact (g_qref c s HI).
  all: try (eapply qref_gframe; try exact HI; psimpl; auto; try lia; logrel_tac).
  - (* LEnqStored *)
    intros q b Hq Hb. psimpl_in Hb. psimpl_in Hq.
    apply nth_error_snoc_inv in Hb as [[_ Hb]|[_ ->]]; [apply (g_qref c s HI q b Hq Hb)|reflexivity].
  - (* LDeqLoaded, dropping the Arc of the batch completed before *)
    intros q b Hq Hb. psimpl_in Hb. psimpl_in Hq. destruct Hti as [_ [_ [_ Hp]]].
    rewrite nth_error_set_nth_neq in Hb by lia. apply (g_qref c s HI q b Hq Hb).
Qed.


