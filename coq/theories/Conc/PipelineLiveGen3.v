(* Conc/PipelineLiveGen3.v — the invariant of the whole system, part 3: the batches *)
From Coq Require Import List Arith Bool Lia.
From SKV Require Import Conc.Pipeline Conc.PipelineExplore Conc.PipelineSpec Conc.PipelineLiveCore Conc.PipelineLiveCore2
  Conc.PipelineLiveCore3 Conc.PipelineLiveCore4 Conc.PipelineLiveGen.
Import ListNotations.

Lemma qf_gframe : forall c s s0 i x, GInv c s -> qhead s0 = qhead s -> logrel sameA (qlog s) (qlog s0) -> QF (put_thr s0 i x).
Proof.
  intros c s s0 i x HI Hh [_ Hl] b Hb. psimpl_in Hb. rewrite Hh in Hb.
  destruct (Hl _ _ Hb) as [b0 [Hb0 Ha]]. rewrite Ha. apply (g_qf c s HI b0 Hb0).
Qed.
Lemma qref_gframe : forall c s s0 i x, GInv c s -> qtail s <= qtail s0 -> logrel sameQ (qlog s) (qlog s0) -> QREF (put_thr s0 i x).
Proof.
  intros c s s0 i x HI Hh [_ Hl] p b Hp Hb. psimpl_in Hb. psimpl_in Hp.
  destruct (Hl _ _ Hb) as [b0 [Hb0 Ha]]. rewrite Ha. apply (g_qref c s HI p b0); auto. lia.
Qed.
Lemma qf_gstep : forall c s i t l s', GInv c s -> thr_at s i t -> step_commit c s i t l = Some s' -> QF s'.
Proof.
  intros c s i t l s' HI Ht H.
  gstart c s i t l H HI Ht.
  all: try exact (g_qf c s HI).
  all: try (eapply qf_gframe; try exact HI; psimpl; auto; logrel_tac).
  (* LMarked, three times *)
  all: try solve [ intros b Hb; simpl in Hb; apply my_batch_inv in Hm as [Hm1 Hm2];
    destruct Hti as [_ [_ Hq]]; unfold my_lt in Hq; rewrite Hm1 in Hq;
    rewrite nth_error_set_nth_neq in Hb by lia; apply (g_qf c s HI b Hb) ].
  - (* LEnqStored *)
    intros b Hb. simpl in Hb. specialize (Hls2 ltac:(discriminate)). rewrite <- Hls2 in Hb.
    rewrite nth_error_app_last in Hb. injection Hb as <-. reflexivity.
  - (* LEnqDone *)
    intros b Hb. psimpl_in Hb. destruct (Hls1 eq_refl) as [Hlen _].
    apply nth_error_lt in Hb. lia.
Qed.

Lemma qref_gstep : forall c s i t l s', GInv c s -> thr_at s i t -> step_commit c s i t l = Some s' -> QREF s'.
Proof.
  intros c s i t l s' HI Ht H.
  gstart c s i t l H HI Ht.
  all: try exact (g_qref c s HI).
  all: try (eapply qref_gframe; try exact HI; psimpl; auto; try lia; logrel_tac).
  - (* LEnqStored *)
    intros q b Hq Hb. psimpl_in Hb. psimpl_in Hq.
    apply nth_error_snoc_inv in Hb as [[_ Hb]|[_ ->]]; [apply (g_qref c s HI q b Hq Hb)|reflexivity].
  - (* LDeqLoaded, dropping the Arc of the batch completed before *)
    intros q b Hq Hb. psimpl_in Hb. psimpl_in Hq. destruct Hti as [_ [_ [_ Hp]]].
    rewrite nth_error_set_nth_neq in Hb by lia. apply (g_qref c s HI q b Hq Hb).
Qed.


Lemma resg_gframe : forall c s s0 i x, GInv c s -> qtail s <= qtail s0 -> logrel sameR (qlog s) (qlog s0) -> RESG (put_thr s0 i x).
Proof.
  intros c s s0 i x HI Hh [_ Hl] p b Hb Hr. psimpl_in Hb. psimpl.
  destruct (Hl _ _ Hb) as [b0 [Hb0 Ha]]. unfold sameR in Ha. rewrite Ha in Hr.
  pose proof (g_res c s HI p b0 Hb0 Hr). lia.
Qed.

Lemma resg_gstep : forall c s i t l s', GInv c s -> thr_at s i t -> step_commit c s i t l = Some s' -> RESG s'.
Proof.
  intros c s i t l s' HI Ht H.
  gstart c s i t l H HI Ht.
  all: try exact (g_res c s HI).
  all: try (eapply resg_gframe; try exact HI; psimpl; auto; try lia; logrel_tac).
  (* LFailCompleted, twice: an error is sent only if nothing was sent before *)
  all: try solve [ intros q b Hb Hr; psimpl_in Hb; psimpl; apply my_batch_inv in Hm as [Hm1 Hm2];
    apply nth_error_set_nth_inv in Hb as [[-> ->]|[Hne Hb]]; [|apply (g_res c s HI q b Hb Hr)];
    simpl in Hr; destruct (b_res p0) as [[|]|] eqn:E; try discriminate Hr; apply (g_res c s HI n p0 Hm2 E) ].
  - (* LEnqStored *)
    intros q b Hb Hr. psimpl_in Hb. psimpl.
    apply nth_error_snoc_inv in Hb as [[_ Hb]|[_ ->]]; [apply (g_res c s HI q b Hb Hr)|discriminate Hr].
  - (* LPubCompleted *)
    intros q b Hb Hr. psimpl_in Hb. psimpl. destruct Hti as [_ [_ [_ Hp]]].
    apply nth_error_set_nth_inv in Hb as [[-> ->]|[Hne Hb]]; [exact Hp|apply (g_res c s HI q b Hb Hr)].
Qed.

Lemma uniq_gframe : forall c s s0 i t x, GInv c s -> thr_at s i t -> thrs s0 = thrs s ->
  length (qlog s) <= length (qlog s0) -> t_my x = t_my t -> UNIQ (put_thr s0 i x).
Proof.
  intros c s s0 i t x HI Ht Hth Hlen Hmy. destruct (g_uniq c s HI) as [U1 U2]. split.
  - intros j tj p Hj Hp. psimpl. apply thr_at_put in Hj as [[-> ->]|[Hne Hj]].
    + rewrite Hmy in Hp. pose proof (U1 i t p Ht Hp). lia.
    + unfold thr_at in Hj. rewrite Hth in Hj. pose proof (U1 j tj p Hj Hp). lia.
  - intros j1 j2 t1 t2 p H1 H2 Hp1 Hp2.
    apply thr_at_put in H1 as [[-> ->]|[Hne1 H1]]; apply thr_at_put in H2 as [[-> ->]|[Hne2 H2]]; auto;
      unfold thr_at in *; rewrite ?Hth in *; rewrite ?Hmy in *.
    + apply (U2 i j2 t t2 p); auto.
    + apply (U2 j1 i t1 t p); auto.
    + apply (U2 j1 j2 t1 t2 p); auto.
Qed.

Lemma uniq_gstep : forall c s i t l s', GInv c s -> thr_at s i t -> step_commit c s i t l = Some s' -> UNIQ s'.
Proof.
  intros c s i t l s' HI Ht H.
  gstart c s i t l H HI Ht.
  all: try exact (g_uniq c s HI).
  all: try solve [eapply uniq_gframe; try exact HI; try exact Ht; psimpl; rewrite ?app_length, ?set_nth_length; auto; lia].
  (* LEnqStored: the new position is the old length of the log *)
  specialize (Hls2 ltac:(discriminate)). destruct (g_uniq c s HI) as [U1 U2]. split.
  - intros j tj p Hj Hp. psimpl. rewrite app_length. simpl. thr_cases Hj Hne.
    + simpl in Hp. injection Hp as <-. lia.
    + pose proof (U1 j tj p Hj Hp). lia.
  - intros j1 j2 t1 t2 p H1 H2 Hp1 Hp2. thr_cases H1 Hne1; thr_cases H2 Hne2; auto; simpl in *.
    + injection Hp1 as <-. pose proof (U1 j2 t2 _ H2 Hp2). lia.
    + injection Hp2 as <-. pose proof (U1 j1 t1 _ H1 Hp1). lia.
    + apply (U2 j1 j2 t1 t2 p); auto.
Qed.

Definition relF (b0 b' : pbatch) : Prop := b_res b' = Some false -> b_res b0 = Some false.

Lemma err_gframe : forall c s s0 i t x, GInv c s -> thr_at s i t -> thrs s0 = thrs s ->
  logrel relF (qlog s) (qlog s0) -> t_my x = t_my t -> (t_err t = true -> t_err x = true) -> ERR (put_thr s0 i x).
Proof.
  intros c s s0 i t x HI Ht Hth [_ Hl] Hmy He j tj p b Hj Hp Hb Hr. psimpl_in Hb.
  destruct (Hl _ _ Hb) as [b0 [Hb0 Ha]]. specialize (Ha Hr).
  apply thr_at_put in Hj as [[-> ->]|[Hne Hj]].
  - rewrite Hmy in Hp. apply He. apply (g_err c s HI i t p b0); auto.
  - unfold thr_at in Hj. rewrite Hth in Hj. apply (g_err c s HI j tj p b0); auto.
Qed.

Ltac relF_refl := solve [ unfold relF; intros; simpl in *; auto ].
Ltac logrelF_tac :=
  psimpl;
  first [ apply logrel_refl; relF_refl
        | match goal with Hr8 : _ \/ _ |- _ => eapply logrel_ret; [relF_refl | relF_refl | exact Hr8] end
        | match goal with Hm : my_batch _ _ = Some _ |- _ => eapply logrel_my; [ relF_refl | exact Hm | relF_refl ] end
        | match goal with Hm : get_b _ _ = Some _ |- _ => eapply logrel_getb; [ relF_refl | exact Hm | relF_refl ] end ].

Lemma err_gstep : forall c s i t l s', GInv c s -> thr_at s i t -> step_commit c s i t l = Some s' -> ERR s'.
Proof.
  intros c s i t l s' HI Ht H.
  gstart c s i t l H HI Ht.
  all: try exact (g_err c s HI).
  all: try solve [eapply err_gframe; try exact HI; try exact Ht; psimpl; auto; try logrelF_tac].
  (* LFailCompleted, twice *)
  all: try solve [ intros j tj q b Hj Hq Hb Hr; psimpl_in Hb; apply my_batch_inv in Hm as [Hm1 Hm2];
    thr_cases Hj Hne; [ reflexivity | ];
    apply nth_error_set_nth_inv in Hb as [[-> ->]|[Hne2 Hb]];
    [ exfalso; apply Hne; destruct (g_uniq c s HI) as [_ U2]; apply (U2 j i tj t n Hj Ht Hq Hm1)
    | apply (g_err c s HI j tj q b Hj Hq Hb Hr) ] ].
  - (* LEnqStored *)
    intros j tj q b Hj Hq Hb Hr. psimpl_in Hb. specialize (Hls2 ltac:(discriminate)).
    apply nth_error_snoc_inv in Hb as [[Hlt Hb]|[_ ->]]; [|discriminate Hr].
    thr_cases Hj Hne.
    + simpl in Hq. injection Hq as <-. lia.
    + apply (g_err c s HI j tj q b Hj Hq Hb Hr).
  - (* LPubCompleted: Ok is sent only if nothing was sent before *)
    eapply err_gframe; try exact HI; try exact Ht; psimpl; auto.
    eapply logrel_getb; [relF_refl | exact Hm | ]. unfold relF. simpl. destruct (b_res p0) as [[|]|]; auto; discriminate.
Qed.
