(* Conc/PipelineLiveGen6.v — who can move, in the whole system; deadlock freedom except for the whole system *)
From Coq Require Import List Arith Bool Lia.
From SKV Require Import Conc.Pipeline Conc.PipelineExplore Conc.PipelineSpec Conc.PipelineLiveBase
  Conc.PipelineLiveGen Conc.PipelineLiveGen2 Conc.PipelineLiveGen3 Conc.PipelineLiveGen4 Conc.PipelineLiveGen5.
Import ListNotations.

Definition nonblockingG (p : ppc) : bool :=
  match p with
  | CIdle | CReturned _ | CStallOk | CWantLock | CEnqLoaded | CWaitDone | CStallBlocked _ => false
  | _ => true
  end.

Lemma slot_exists_g : forall c s p, GInv c s -> exists o, get_slot c s p = Some o.
Proof.
  intros c s p HI. destruct (g_slots c s HI) as [Hl Hs]. unfold get_slot, slot_ix.
  destruct (nth_error (slotv s) (p mod c_slots c)) as [o|] eqn:E; [eauto|].
  apply nth_error_None in E. pose proof (Nat.mod_upper_bound p (c_slots c) ltac:(lia)). lia.
Qed.

Lemma local_progress_g : forall c s i t, GInv c s -> thr_at s i t -> nonblockingG (t_pc t) = true -> progress_step c s.
Proof.
  intros c s i t HI Ht Hnb.
  pose proof (g_thr c s HI i t Ht) as [Htp [Hta Htq]].
  pose proof (g_ht c s HI) as [Hht1 [Hht2 [Hht3 Hht4]]].
  unfold active in Hta.
  destruct (t_pc t) eqn:Hpc; try discriminate Hnb; try specialize (Hta eq_refl).
  - (* CEntered *)
    destruct (g_pipe_sd (bg s) || g_bgerr (bg s)) eqn:E.
    + prog Ht (LRet ResErr). unfold step_commit. rewrite Hpc, E. reflexivity.
    + apply orb_false_iff in E as [E1 E2]. prog Ht LStallRegistered. unfold step_commit. rewrite Hpc, E1, E2. reflexivity.
  - (* CStallReg *)
    destruct (g_stall_sd (bg s)) eqn:E.
    + prog Ht (LRet ResErr). unfold step_commit. rewrite Hpc, E. reflexivity.
    + prog Ht (LStallCounted (g_imm (bg s)) (g_l0 (bg s))). unfold step_commit. rewrite Hpc, E, !Nat.eqb_refl. reflexivity.
  - (* CStallCounted *)
    destruct stalled.
    + prog Ht LStallWait. unfold step_commit. rewrite Hpc. reflexivity.
    + prog Ht LStallOk. unfold step_commit. rewrite Hpc. reflexivity.
  - (* CHasPermit *) prog Ht LWantLock. unfold step_commit. rewrite Hpc. reflexivity.
  - (* CLocked *) prog Ht LChecked. unfold step_commit. rewrite Hpc. reflexivity.
  - (* CChecked *) prog Ht (LSeqAllocated (next_seq s) (t_cnt t)). unfold step_commit. rewrite Hpc, !Nat.eqb_refl.
    assert (Hc : (0 <? t_cnt t) = true) by (apply Nat.ltb_lt; exact Hta). rewrite Hc. reflexivity.
  - (* CAlloc *) prog Ht LOraclePublished. unfold step_commit. rewrite Hpc. reflexivity.
  - (* COrPub *) prog Ht (LEnqLoaded (qhead s) (qtail s)). unfold step_commit. rewrite Hpc, !Nat.eqb_refl. reflexivity.
  - (* CEnqFullSeen *) prog Ht LEnqFull. unfold step_commit. rewrite Hpc. reflexivity.
  - (* CEnqPanic *) prog Ht (LRet ResPanic). unfold step_commit. rewrite Hpc. reflexivity.
  - (* CEnqStored *) prog Ht LEnqDone. unfold step_commit. rewrite Hpc. reflexivity.
  - (* CEnqDone *) prog Ht LEnqueued. unfold step_commit. rewrite Hpc. reflexivity.
  - (* CEnqueued *) prog Ht LUnlocked. unfold step_commit. rewrite Hpc. reflexivity.
  - (* CWalFailed *)
    destruct (my_batch_exists s t _ Htq Hht3) as [p [b [Hmb _]]].
    prog Ht LFailCompleted. unfold step_commit. rewrite Hpc, Hmb. reflexivity.
  - (* CFailDoneLocked *)
    destruct (my_batch_exists s t _ Htq Hht3) as [p [b [Hmb _]]].
    prog Ht LMarked. unfold step_commit. rewrite Hpc, Hmb. reflexivity.
  - (* CMarkedLocked *) prog Ht LUnlocked. unfold step_commit. rewrite Hpc. reflexivity.
  - (* CApplying *)
    destruct Htq as [Hmy Hi]. destruct (my_batch_exists s t _ Hmy Hht3) as [p [b [Hmb _]]].
    destruct (Nat.eq_dec (t_i t) (t_cnt t)) as [Heq|Hne].
    + prog Ht (LAfterApply false). unfold step_commit. rewrite Hpc. rewrite Heq, Nat.eqb_refl. reflexivity.
    + prog Ht (LMemInsert (t_seq t + t_i t)). unfold step_commit. rewrite Hpc, Hmb, Nat.eqb_refl.
      assert (Hc : (t_i t <? t_cnt t) = true) by (apply Nat.ltb_lt; lia). rewrite Hc. reflexivity.
  - (* CArenaFull *) prog Ht LRotated. unfold step_commit. rewrite Hpc. reflexivity.
  - (* CRotated *)
    destruct (g_frunning (bg s)) eqn:E.
    + prog Ht LApplyWoke. unfold step_commit. rewrite Hpc, E. reflexivity.
    + prog Ht LWakeMem. unfold step_commit. rewrite Hpc, E. reflexivity.
  - (* CWokeMem *) prog Ht LApplyWoke. unfold step_commit. rewrite Hpc. reflexivity.
  - (* CApplied *)
    destruct (my_batch_exists s t _ Htq Hht3) as [p [b [Hmb _]]].
    prog Ht LMarked. unfold step_commit. rewrite Hpc, Hmb. reflexivity.
  - (* CApplyFailed *)
    destruct (my_batch_exists s t _ Htq Hht3) as [p [b [Hmb _]]].
    prog Ht LFailCompleted. unfold step_commit. rewrite Hpc, Hmb. reflexivity.
  - (* CFailDone *)
    destruct (my_batch_exists s t _ Htq Hht3) as [p [b [Hmb _]]].
    prog Ht LMarked. unfold step_commit. rewrite Hpc, Hmb. reflexivity.
  - (* CPubTop *) prog Ht (LDeqLoaded (qhead s) (qtail s)). unfold step_commit. rewrite Hpc, !Nat.eqb_refl. reflexivity.
  - (* CPubHold *)
    destruct Htq as [_ Hq]. destruct (getb_exists s p ltac:(lia)) as [b Hb].
    prog Ht (LDeqLoaded (qhead s) (qtail s)). unfold step_commit. rewrite Hpc, Hb, !Nat.eqb_refl. reflexivity.
  - (* CDeqLoaded *)
    destruct (slot_exists_g c s t0 HI) as [[q|] Ho].
    + prog Ht (LDeqSlot t0 false). unfold step_commit. rewrite Hpc, Ho, Nat.eqb_refl. reflexivity.
    + prog Ht (LDeqSlot t0 true). unfold step_commit. rewrite Hpc, Ho, Nat.eqb_refl. reflexivity.
  - (* CDeqSlot *)
    destruct Htq as [_ [_ [_ [_ [Hp _]]]]]. destruct (getb_exists s p Hp) as [b Hb].
    destruct (b_freed b) eqn:Hf.
    + prog Ht (LDeqChecked t0 true). unfold step_commit. rewrite Hpc, Hb, Hf, Nat.eqb_refl. reflexivity.
    + prog Ht (LDeqChecked t0 (b_applied b)). unfold step_commit. rewrite Hpc, Hb, Hf, Nat.eqb_refl, Bool.eqb_reflx. reflexivity.
  - (* CDeqChecked *)
    destruct ((h =? qhead s) && (t0 =? qtail s)) eqn:E.
    + prog Ht LDeqCasOk. unfold step_commit. rewrite Hpc, E. reflexivity.
    + prog Ht LDeqCasFail. unfold step_commit. rewrite Hpc, E. reflexivity.
  - (* CDeqNone *) prog Ht LPubExit. unfold step_commit. rewrite Hpc. reflexivity.
  - (* CDeqWon *) prog Ht LDeqCleared. unfold step_commit. rewrite Hpc. reflexivity.
  - (* CDeqOwned *)
    destruct Htq as [_ Hq]. destruct (getb_exists s p ltac:(lia)) as [b Hb].
    prog Ht (LPubDeq (b_last b) (b_cnt b)). unfold step_commit. rewrite Hpc, Hb, !Nat.eqb_refl. reflexivity.
  - (* CVisTop *)
    destruct Htq as [_ Hq]. destruct (getb_exists s p ltac:(lia)) as [b Hb].
    prog Ht (LVisLoaded (b_last b) (visible s)). unfold step_commit. rewrite Hpc, Hb, !Nat.eqb_refl. reflexivity.
  - (* CVisLoaded *)
    destruct Htq as [_ Hq]. destruct (getb_exists s p ltac:(lia)) as [b Hb].
    destruct (b_last b <=? cur) eqn:E1.
    + prog Ht LVisSkip. unfold step_commit. rewrite Hpc, Hb, E1. reflexivity.
    + assert (E2 : (cur <? b_last b) = true) by (apply Nat.ltb_lt; apply Nat.leb_gt in E1; exact E1).
      destruct (cur =? visible s) eqn:E3.
      * prog Ht LVisCasOk. unfold step_commit. rewrite Hpc, Hb, E2, E3. reflexivity.
      * prog Ht LVisCasFail. unfold step_commit. rewrite Hpc, Hb, E2, E3. reflexivity.
  - (* CVisDone *)
    destruct Htq as [_ Hq]. destruct (getb_exists s p ltac:(lia)) as [b Hb].
    prog Ht LPubCompleted. unfold step_commit. rewrite Hpc, Hb. reflexivity.
  - (* CPubExit *) prog Ht LPublished. unfold step_commit. rewrite Hpc. reflexivity.
Qed.


Lemma premarkG_nonblocking : forall p, premarkG p = true -> nonblockingG p = true.
Proof. destruct p; simpl; auto; discriminate. Qed.
Lemma helperG_nonblocking : forall tl t, helperG tl t = true -> nonblockingG (t_pc t) = true.
Proof. unfold helperG, helper. intros tl t. destruct (t_pc t); simpl; auto; discriminate. Qed.
Lemma holds_nonblockingG : forall p t, holds p t = true -> nonblockingG (t_pc t) = true.
Proof. unfold holds. intros p t. destruct (t_pc t); simpl; auto; discriminate. Qed.
Lemma won_nonblockingG : forall p t, won p t = true -> nonblockingG (t_pc t) = true.
Proof. unfold won. intros p t. destruct (t_pc t); simpl; auto; discriminate. Qed.

(* A: a committer waiting for its completion *)
Lemma wait_done_progress_g : forall c s i t, GInv c s -> thr_at s i t -> t_pc t = CWaitDone -> progress_step c s.
Proof.
  intros c s i t HI Ht Hpc.
  pose proof (g_thr c s HI i t Ht) as [_ [_ Htq]]. rewrite Hpc in Htq.
  pose proof (g_ht c s HI) as [Hht1 [Hht2 [Hht3 Hht4]]].
  destruct (my_batch_exists s t _ Htq Hht3) as [p [b [Hmb [Hmy [Hb Hp]]]]].
  destruct (b_res b) as [[|]|] eqn:Hr.
  - prog Ht (LRet ResOk). unfold step_commit. rewrite Hpc, Hmb, Hr. reflexivity.
  - prog Ht (LRet ResErr). unfold step_commit. rewrite Hpc, Hmb, Hr. reflexivity.
  - destruct (Nat.lt_ge_cases p (qtail s)) as [Hlt|Hge].
    + (* dequeued: somebody holds it *)
      pose proof (g_deq c s HI p b Hlt Hb Hr) as Hd.
      apply existsb_nth in Hd as [j [tj [Hj Hh]]].
      apply (local_progress_g c s j tj HI Hj). eapply holds_nonblockingG; eauto.
    + (* still queued: look at the tail batch *)
      destruct (getb_exists s (qtail s) ltac:(lia)) as [bt Hbt]. unfold get_b in Hbt.
      destruct (g_own c s HI (qtail s) bt (le_n _) Hbt) as [Hap|Ho].
      * destruct (Nat.eq_dec (qtail s) (qhead s)) as [Heq|Hne].
        -- rewrite Heq in Hbt. rewrite (g_qf c s HI bt Hbt) in Hap. discriminate.
        -- pose proof (g_help c s HI bt ltac:(lia) Hbt Hap) as Hh.
           apply existsb_nth in Hh as [k [tk [Hk Hh]]].
           apply (local_progress_g c s k tk HI Hk). eapply helperG_nonblocking; eauto.
      * apply existsb_nth in Ho as [j [tj [Hj Ho]]]. unfold ownsP in Ho.
        apply andb_true_iff in Ho as [_ Ho].
        apply (local_progress_g c s j tj HI Hj). apply premarkG_nonblocking; auto.
Qed.

(* B: the holder of the mutex *)
Lemma locked_progress_g : forall c s i t, GInv c s -> thr_at s i t -> locked_pc (t_pc t) = true -> progress_step c s.
Proof.
  intros c s i t HI Ht Hl.
  destruct (nonblockingG (t_pc t)) eqn:Hnb; [eapply local_progress_g; eauto|].
  assert (Hpc : t_pc t = CEnqLoaded) by (destruct (t_pc t); simpl in *; try discriminate; reflexivity).
  destruct (gls_facts c s i t HI Ht Hl) as [Hmx [_ [Hls2 Hls3]]].
  specialize (Hls2 ltac:(rewrite Hpc; discriminate)). specialize (Hls3 (or_introl Hpc)).
  pose proof (g_ht c s HI) as [Hht1 _]. destruct (g_slots c s HI) as [_ Hsl].
  destruct (slot_exists_g c s (qhead s) HI) as [[q|] Ho].
  - unfold get_slot, slot_ix in Ho. destruct (g_r1 c s HI _ _ Ho) as [Hk [[Hq1 Hq2]|Hw]].
    + exfalso. rewrite Hls2 in Hq2. symmetry in Hk. pose proof (mod_eq_gap _ _ _ Hsl Hq2 Hk). lia.
    + apply existsb_nth in Hw as [j [tj [Hj Hw]]].
      apply (local_progress_g c s j tj HI Hj). eapply won_nonblockingG; eauto.
  - prog Ht LEnqStored. unfold step_commit. rewrite Hpc, Ho. reflexivity.
Qed.

(* C: a committer waiting for the mutex *)
Lemma want_lock_progress_g : forall c s i t, GInv c s -> thr_at s i t -> t_pc t = CWantLock -> progress_step c s.
Proof.
  intros c s i t HI Ht Hpc. pose proof (g_ls c s HI) as Hls. unfold LS in Hls.
  destruct (mutex s) as [h|] eqn:Hm.
  - destruct Hls as [th [Hth [Hlk _]]]. eapply locked_progress_g; eauto.
  - prog Ht LLocked. unfold step_commit. rewrite Hpc, Hm. reflexivity.
Qed.

(* a committer that holds a permit *)
Lemma permit_progress_g : forall c s i t, GInv c s -> thr_at s i t -> t_permit t = true -> progress_step c s.
Proof.
  intros c s i t HI Ht Hp.
  pose proof (g_thr c s HI i t Ht) as [Htp _]. rewrite Hp in Htp.
  destruct (nonblockingG (t_pc t)) eqn:Hnb; [eapply local_progress_g; eauto|].
  destruct (t_pc t) eqn:Hpc; simpl in *; try discriminate.
  - eapply want_lock_progress_g; eauto.
  - eapply locked_progress_g; eauto. rewrite Hpc. reflexivity.
  - eapply wait_done_progress_g; eauto.
Qed.

(* D: a committer waiting for a permit *)
Lemma stall_ok_progress_g : forall c s i t, GInv c s -> 0 < c_permits c -> thr_at s i t -> t_pc t = CStallOk -> progress_step c s.
Proof.
  intros c s i t HI Hperm Ht Hpc.
  destruct (avail s) as [|k] eqn:Ha.
  - pose proof (g_pm c s HI) as Hpm. unfold PM in Hpm. rewrite Ha in Hpm.
    destruct (held_pos (thrs s) ltac:(lia)) as [j [tj [Hj Hp]]].
    eapply permit_progress_g; eauto.
  - prog Ht LSemAcquired. unfold step_commit. rewrite Hpc, Ha. reflexivity.
Qed.

Lemma flush_progress : forall c s l s', step_flush s l = Some s' -> progress_step c s.
Proof.
  intros c s l s' H. exists AFlush, l, s'. repeat split; auto.
  - destruct l; try reflexivity; unfold step_flush in H; destruct (g_fpc (bg s)); discriminate H.
  - destruct l; try reflexivity; unfold step_flush in H; destruct (g_fpc (bg s)); discriminate H.
Qed.

Lemma level_progress : forall c s l s', step_level s l = Some s' -> progress_step c s.
Proof.
  intros c s l s' H. exists ALevel, l, s'. repeat split; auto.
  - destruct l; try reflexivity; unfold step_level in H; destruct (g_lpc (bg s)); discriminate H.
  - destruct l; try reflexivity; unfold step_level in H; destruct (g_lpc (bg s)); discriminate H.
Qed.

Lemma closer_progress : forall c s l s', step_closer s l = Some s' -> env_label ACloser l = false -> stutter l = false ->
  progress_step c s.
Proof. intros c s l s' H He Hs. exists ACloser, l, s'. repeat split; auto. Qed.

(* the flush task can move unless it sleeps without a wake-up permit or has exited *)
Lemma flusher_moves : forall c s, GInv c s ->
  g_fpc (bg s) = FExit \/ (g_fpc (bg s) = FWait /\ g_fpermit (bg s) = false) \/ progress_step c s.
Proof.
  intros c s HI. destruct (g_bgi c s HI) as [_ [_ [_ [_ [_ [_ [B7 _]]]]]]].
  destruct (g_fpc (bg s)) eqn:Hf.
  - right; right. eapply (flush_progress c s LMemWait). unfold step_flush. rewrite Hf. reflexivity.
  - destruct (g_fpermit (bg s)) eqn:Hp; [|auto].
    right; right. eapply (flush_progress c s LMemWoken). unfold step_flush. rewrite Hf, Hp. reflexivity.
  - right; right. destruct (g_stop (bg s)) eqn:Hs.
    + eapply (flush_progress c s LMemExit). unfold step_flush. rewrite Hf, Hs. reflexivity.
    + eapply (flush_progress c s LMemRunning). unfold step_flush. rewrite Hf, Hs. reflexivity.
  - right; right. eapply (flush_progress c s LMemFlushed). unfold step_flush. rewrite Hf. reflexivity.
  - right; right. eapply (flush_progress c s (LSignal false)). unfold step_flush. rewrite Hf. reflexivity.
  - right; right. destruct (g_imm (bg s)) eqn:Hi.
    + eapply (flush_progress c s LMemNoPending). unfold step_flush. rewrite Hf, Hi. reflexivity.
    + eapply (flush_progress c s LMemFlushed). unfold step_flush. rewrite Hf, Hi. reflexivity.
  - right; right. eapply (flush_progress c s LMemNotifiedLevel). unfold step_flush. rewrite Hf.
    assert (Hc : (0 <? g_fcount (bg s)) = true) by (apply Nat.ltb_lt; apply B7; reflexivity). rewrite Hc. reflexivity.
  - right; right. eapply (flush_progress c s (LSignal true)). unfold step_flush. rewrite Hf. reflexivity.
  - right; right. destruct (g_fcount (bg s)) eqn:Hc.
    + eapply (flush_progress c s LMemIdle). unfold step_flush. rewrite Hf, Hc. reflexivity.
    + eapply (flush_progress c s LMemNotifiedLevel). unfold step_flush. rewrite Hf, Hc. reflexivity.
  - right; right. eapply (flush_progress c s LMemIdle). unfold step_flush. rewrite Hf. reflexivity.
  - right; right. destruct (negb (g_ffailed (bg s)) && (0 <? g_imm (bg s))) eqn:E.
    + eapply (flush_progress c s LMemRecheck). unfold step_flush. rewrite Hf, E. reflexivity.
    + eapply (flush_progress c s LMemWait). unfold step_flush. rewrite Hf.
      assert (E2 : g_ffailed (bg s) || (g_imm (bg s) =? 0) = true).
      { destruct (g_ffailed (bg s)); simpl in *; auto. destruct (g_imm (bg s)); simpl in *; auto; try discriminate. }
      rewrite E2. reflexivity.
  - right; right. eapply (flush_progress c s LMemWait). unfold step_flush. rewrite Hf. reflexivity.
  - left. reflexivity.
Qed.

Lemma nrot_pos : forall l, 0 < nrot l -> exists j tj, nth_error l j = Some tj /\ t_pc tj = CRotated.
Proof.
  induction l as [|a l IH]; simpl; intros H; [lia|].
  destruct (t_pc a) eqn:E; try (destruct (IH ltac:(lia)) as [j [tj [Hj Hp]]]; exists (S j), tj; auto).
  exists 0, a. auto.
Qed.

Lemma leveler_moves : forall c s, GInv c s ->
  g_lpc (bg s) = LExit \/ (g_lpc (bg s) = LWait /\ g_lpermit (bg s) = false) \/ progress_step c s.
Proof.
  intros c s HI.
  destruct (g_lpc (bg s)) eqn:Hf.
  - right; right. eapply (level_progress c s LLevelWait). unfold step_level. rewrite Hf. reflexivity.
  - destruct (g_lpermit (bg s)) eqn:Hp; [|auto].
    right; right. eapply (level_progress c s LLevelWoken). unfold step_level. rewrite Hf, Hp. reflexivity.
  - right; right. destruct (g_stop (bg s)) eqn:Hs.
    + eapply (level_progress c s LLevelExit). unfold step_level. rewrite Hf, Hs. reflexivity.
    + eapply (level_progress c s LLevelRunning). unfold step_level. rewrite Hf, Hs. reflexivity.
  - right; right. eapply (level_progress c s (LLevelDone 0)). unfold step_level. rewrite Hf. reflexivity.
  - right; right. eapply (level_progress c s (LSignal false)). unfold step_level. rewrite Hf. reflexivity.
  - right; right. eapply (level_progress c s (LSignal true)). unfold step_level. rewrite Hf. reflexivity.
  - right; right. eapply (level_progress c s LLevelIdle). unfold step_level. rewrite Hf. reflexivity.
  - right; right. eapply (level_progress c s LLevelWait). unfold step_level. rewrite Hf. reflexivity.
  - left. reflexivity.
Qed.

(* E: a stalled committer *)
Lemma stall_blocked_progress : forall c s i t ep, GInv c s -> 2 <= c_memlimit c -> thr_at s i t ->
  t_pc t = CStallBlocked ep -> progress_step c s.
Proof.
  intros c s i t ep HI Hmem Ht Hpc.
  destruct (Nat.eq_dec ep (g_epoch (bg s))) as [Heq|Hne].
  - destruct (g_stall c s HI i t ep Ht (or_intror Hpc) Heq) as [Hsd Him].
    destruct (g_bgi c s HI) as [B1 [_ [_ [B4 [_ [_ [_ [_ [B9 _]]]]]]]]].
    destruct (flusher_moves c s HI) as [Hf|[[Hf Hp]|Hprog]]; auto.
    + rewrite (B1 (B4 Hf)) in Hsd. discriminate.
    + (* the flush task sleeps without a permit: a rotated committer still owes its wake-up *)
      destruct (g_ffailed (bg s)) eqn:Hff; [rewrite (B9 eq_refl) in Hsd; discriminate|].
      pose proof (g_acc c s HI (or_intror Hf) Hp Hff) as Ha.
      destruct Him as [Him|Him]; [|congruence].
      destruct (nrot_pos (thrs s) ltac:(lia)) as [j [tj [Hj Hr]]].
      apply (local_progress_g c s j tj HI Hj). rewrite Hr. reflexivity.
  - prog Ht LStallRegistered. unfold step_commit. rewrite Hpc.
    assert (Hc : (ep =? g_epoch (bg s)) = false) by (apply Nat.eqb_neq; exact Hne). rewrite Hc. reflexivity.
Qed.

(* F: close() under way *)
Lemma closing_progress : forall c s, GInv c s -> closing s = true -> progress_step c s.
Proof.
  intros c s HI Hcl. unfold closing in Hcl.
  destruct (g_bgi c s HI) as [B1 [B2 [B3 [B4 [B5 [B6 [B7 [B8 _]]]]]]]].
  destruct (g_xpc (bg s)) eqn:Hx; try discriminate Hcl.
  - eapply (closer_progress c s LClosePipeDown); [unfold step_closer; rewrite Hx; reflexivity | reflexivity | reflexivity].
  - eapply (closer_progress c s (LSignal true)); [unfold step_closer; rewrite Hx; reflexivity | reflexivity | reflexivity].
  - eapply (closer_progress c s LStopFlag); [unfold step_closer; rewrite Hx; reflexivity | reflexivity | reflexivity].
  - eapply (closer_progress c s LStopNotified); [unfold step_closer; rewrite Hx; reflexivity | reflexivity | reflexivity].
  - (* XNotified: waiting for both tasks to be idle *)
    destruct (g_frunning (bg s)) eqn:Hfr.
    + specialize (B5 eq_refl). destruct (flusher_moves c s HI) as [Hf|[[Hf Hp]|Hprog]]; auto;
        rewrite Hf in B5; discriminate B5.
    + destruct (g_lrunning (bg s)) eqn:Hlr.
      * specialize (B6 eq_refl). destruct (leveler_moves c s HI) as [Hf|[[Hf Hp]|Hprog]]; auto;
          rewrite Hf in B6; discriminate B6.
      * eapply (closer_progress c s LStopJoin); [unfold step_closer; rewrite Hx, Hfr, Hlr; reflexivity | reflexivity | reflexivity].
  - (* XJoin: waiting for both tasks to exit *)
    destruct (B8 eq_refl) as [Hn1 Hn2].
    destruct (flusher_moves c s HI) as [Hf|[[Hf Hp]|Hprog]]; auto.
    2: { exfalso. destruct Hn1 as [Hn|[Hn|Hn]]; congruence. }
    destruct (leveler_moves c s HI) as [Hl|[[Hl Hp]|Hprog]]; auto.
    2: { exfalso. destruct Hn2 as [Hn|[Hn|Hn]]; congruence. }
    eapply (closer_progress c s LCloseTasksStopped); [unfold step_closer; rewrite Hx, Hf, Hl; reflexivity | reflexivity | reflexivity].
  - eapply (closer_progress c s LCloseSynced); [unfold step_closer; rewrite Hx; reflexivity | reflexivity | reflexivity].
  - eapply (closer_progress c s LCloseEnd); [unfold step_closer; rewrite Hx; reflexivity | reflexivity | reflexivity].
  - eapply (closer_progress c s (LRet ResOk)); [unfold step_closer; rewrite Hx; reflexivity | reflexivity | reflexivity].
Qed.

Theorem gen_progress : forall c s, GInv c s -> 0 < c_permits c -> 2 <= c_memlimit c -> unfinished s -> progress_step c s.
Proof.
  intros c s HI Hperm Hmem [[i [t [Ht Hact]]]|Hcl].
  - destruct (nonblockingG (t_pc t)) eqn:Hnb; [eapply local_progress_g; eauto|].
    unfold active in Hact. destruct (t_pc t) eqn:Hpc; simpl in *; try discriminate.
    + eapply stall_blocked_progress; eauto.
    + eapply stall_ok_progress_g; eauto.
    + eapply want_lock_progress_g; eauto.
    + eapply locked_progress_g; eauto. rewrite Hpc. reflexivity.
    + eapply wait_done_progress_g; eauto.
  - eapply closing_progress; eauto.
Qed.
