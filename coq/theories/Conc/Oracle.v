(* Conc/Oracle.v — transcription of src/oracle.rs (CommitOracle): the in-memory map
   fingerprint(key) -> stamp of the most recent publisher, with its garbage collection.
   Executable definitions only.  The fingerprint function (xxh3_64 in the crate) is a Section
   variable `fp`; the GC interval is the Section variable `G` (instantiated with
   Params.ORACLE_GC_INTERVAL by the driver and by Props/C04.v).  The comparison operators of the
   decision sites come from Params.v (generated from the source text on every run).

   Numbers are N (no wrap-around): the crate computes `seq_num + count - 1` in u64; sequence
   numbers below 2^64 and count >= 1 are assumed (the commit pipeline never publishes an empty
   batch).  The publish counter is a saturating u32 as in the crate. *)
From Coq Require Import List NArith Bool.
From SKV Require Import Params Base.Lex.
Import ListNotations.
Local Open Scope N_scope.

(* HashMap<u64,(u64,Option<u64>)> as an association list: fingerprint -> (stamp of the last
   publisher, stamp that publisher overwrote).  fm_remove deletes every occurrence and fm_insert
   conses after removing, so keys stay unique (proved in Oracle_proofs.v) *)
Definition entry := (N * option N)%type.
Definition fmap := list (N * entry).
Fixpoint fm_get (f : N) (m : fmap) : option entry :=
  match m with
  | [] => None
  | (g, v) :: r => if N.eqb f g then Some v else fm_get f r
  end.
Fixpoint fm_remove (f : N) (m : fmap) : fmap :=
  match m with
  | [] => []
  | (g, v) :: r => if N.eqb f g then fm_remove f r else (g, v) :: fm_remove f r
  end.
Definition fm_insert (f : N) (v : entry) (m : fmap) : fmap := (f, v) :: fm_remove f m.
Definition fm_retain (p : entry -> bool) (m : fmap) : fmap := filter (fun e => p (snd e)) m.
(* the stamp recorded for a fingerprint *)
Definition fm_stamp (f : N) (m : fmap) : option N := option_map fst (fm_get f m).

Record ostate := { recent : fmap; kept_since : N; commits_since_gc : N }.
Definition o_new : ostate := {| recent := []; kept_since := 0; commits_since_gc := 0 |}.

Inductive verdict := VOk | VConflict | VRetry.

(* u32::saturating_add(1) *)
Definition sat_inc (c : N) : N := if N.ltb c ORACLE_COUNTER_MAX then c + 1 else c.

Definition stamp_of (seq count : N) : N := seq + count - 1.

Section Oracle.
Variable fp : bytes -> N.
Variable G : N.

(* CommitOracle::check — Retry when the window was pruned, Conflict when some key has a stamp
   newer than the caller's start; first offending key decides (all offenders give the same answer) *)
Definition check (s : ostate) (keys : list bytes) (start : N) : verdict :=
  if ORACLE_RETRY_CMP start (kept_since s) then VRetry
  else if existsb (fun k => match fm_get (fp k) (recent s) with
                            | Some (committed, _) => ORACLE_CONFLICT_CMP committed start
                            | None => false
                            end) keys
       then VConflict else VOk.


(* CommitOracle::publish — per key: an entry that already carries this batch's stamp (the same
   key twice in one batch) is left alone; otherwise the entry becomes (stamp, Some current stamp)
   or (stamp, None) *)
Definition pub_step (stamp : N) (m : fmap) (k : bytes) : fmap :=
  match fm_get (fp k) m with
  | Some (current, _) =>
    if ORACLE_PUBLISH_SAME_CMP current stamp then m else fm_insert (fp k) (stamp, Some current) m
  | None => fm_insert (fp k) (stamp, None) m
  end.
Definition publish (s : ostate) (keys : list bytes) (seq count oldest_active : N) : ostate :=
  let stamp := stamp_of seq count in
  let r := fold_left (pub_step stamp) keys (recent s) in
  let c := sat_inc (commits_since_gc s) in
  if ORACLE_GC_COUNT_CMP c G && ORACLE_GC_MARK_CMP oldest_active (kept_since s) then
    {| recent := fm_retain (fun v => ORACLE_RETAIN_CMP (fst v) oldest_active) r;
       kept_since := oldest_active; commits_since_gc := 0 |}
  else {| recent := r; kept_since := kept_since s; commits_since_gc := c |}.

(* CommitOracle::rollback — when the entry still carries the caller's stamp, the stamp it had
   overwritten is put back (with nothing remembered behind it: a one-level undo), or the entry is
   removed if it had overwritten nothing *)
Definition rb_step (my_seq : N) (m : fmap) (k : bytes) : fmap :=
  match fm_get (fp k) m with
  | Some (v, previous) =>
    if ORACLE_ROLLBACK_CMP v my_seq
    then match previous with Some p => fm_insert (fp k) (p, None) m | None => fm_remove (fp k) m end
    else m
  | None => m
  end.
Definition rollback (s : ostate) (keys : list bytes) (my_seq : N) : ostate :=
  {| recent := fold_left (rb_step my_seq) keys (recent s);
     kept_since := kept_since s; commits_since_gc := commits_since_gc s |}.

(* CommitOracle::reset_for_restore *)
Definition reset_for_restore (s : ostate) (max_seq : N) : ostate :=
  {| recent := []; kept_since := max_seq; commits_since_gc := 0 |}.

(* what a caller can observe of the state: the least start that is not answered Retry, and for a
   key the least start >= that which is answered Ok (the harness finds both by bisection over
   `check`; the driver prints them from the state) *)
Definition observe_key (s : ostate) (k : bytes) : N :=
  match fm_stamp (fp k) (recent s) with
  | Some v => N.max v (kept_since s)
  | None => kept_since s
  end.
End Oracle.
