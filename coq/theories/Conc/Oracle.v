(* Conc/Oracle.v — transcription of src/oracle.rs (CommitOracle): the in-memory map
   fingerprint(key) -> stamp of the most recent publisher, with its garbage collection.
   Executable definitions only.  The fingerprint function (xxh3_64 in the crate) is a Section
   variable `fp`; the GC interval is the Section variable `G` (instantiated with
   Params.ORACLE_GC_INTERVAL by the driver and by Props/C04.v).  The comparison operators of the
   decision sites come from Params.v (generated from the source text on every run).

   Numbers are N (no wrap-around): the crate computes `seq_num + count - 1` in u64; sequence
   numbers below 2^64 and count >= 1 are assumed (the commit pipeline never publishes an empty
   batch).  The publish counter is a saturating u32 as in the crate. *)
From Coq Require Import List NArith Bool.
From SKV Require Import Params Base.Lex.
Import ListNotations.
Local Open Scope N_scope.

(* HashMap<u64,u64> as an association list; fm_remove deletes every occurrence and fm_insert
   conses after removing, so keys stay unique (proved in Oracle_proofs.v) *)
Definition fmap := list (N * N).
Fixpoint fm_get (f : N) (m : fmap) : option N :=
  match m with
  | [] => None
  | (g, v) :: r => if N.eqb f g then Some v else fm_get f r
  end.
Fixpoint fm_remove (f : N) (m : fmap) : fmap :=
  match m with
  | [] => []
  | (g, v) :: r => if N.eqb f g then fm_remove f r else (g, v) :: fm_remove f r
  end.
Definition fm_insert (f v : N) (m : fmap) : fmap := (f, v) :: fm_remove f m.
Definition fm_retain (p : N -> bool) (m : fmap) : fmap := filter (fun e => p (snd e)) m.

Record ostate := { recent : fmap; kept_since : N; commits_since_gc : N }.
Definition o_new : ostate := {| recent := []; kept_since := 0; commits_since_gc := 0 |}.

Inductive verdict := VOk | VConflict | VRetry.

(* u32::saturating_add(1) *)
Definition sat_inc (c : N) : N := if N.ltb c ORACLE_COUNTER_MAX then c + 1 else c.

Section Oracle.
Variable fp : bytes -> N.
Variable G : N.

(* CommitOracle::check — Retry when the window was pruned, Conflict when some key has a stamp
   newer than the caller's start; first offending key decides (all offenders give the same answer) *)
Definition check (s : ostate) (keys : list bytes) (start : N) : verdict :=
  if ORACLE_RETRY_CMP start (kept_since s) then VRetry
  else if existsb (fun k => match fm_get (fp k) (recent s) with
                            | Some committed => ORACLE_CONFLICT_CMP committed start
                            | None => false
                            end) keys
       then VConflict else VOk.

Definition stamp_of (seq count : N) : N := seq + count - 1.

(* CommitOracle::publish *)
Definition publish (s : ostate) (keys : list bytes) (seq count oldest_active : N) : ostate :=
  let stamp := stamp_of seq count in
  let r := fold_left (fun m k => fm_insert (fp k) stamp m) keys (recent s) in
  let c := sat_inc (commits_since_gc s) in
  if ORACLE_GC_COUNT_CMP c G && ORACLE_GC_MARK_CMP oldest_active (kept_since s) then
    {| recent := fm_retain (fun v => ORACLE_RETAIN_CMP v oldest_active) r;
       kept_since := oldest_active; commits_since_gc := 0 |}
  else {| recent := r; kept_since := kept_since s; commits_since_gc := c |}.

(* CommitOracle::rollback — REMOVES the entry when its stamp is still the caller's *)
Definition rollback (s : ostate) (keys : list bytes) (my_seq : N) : ostate :=
  {| recent := fold_left (fun m k => match fm_get (fp k) m with
                                     | Some v => if ORACLE_ROLLBACK_CMP v my_seq then fm_remove (fp k) m else m
                                     | None => m
                                     end) keys (recent s);
     kept_since := kept_since s; commits_since_gc := commits_since_gc s |}.

(* CommitOracle::reset_for_restore *)
Definition reset_for_restore (s : ostate) (max_seq : N) : ostate :=
  {| recent := []; kept_since := max_seq; commits_since_gc := 0 |}.

(* ---- the repaired rollback (NOT in the crate; documents what a fix must achieve) ----
   publish additionally hands back, for every key, the stamp the map held before this publish;
   rollback_restore puts that stamp back (or removes the entry if there was none) when the entry
   still carries the failed commit's stamp. *)
Definition undo := list (N * option N).
Definition publish_undo (s : ostate) (keys : list bytes) : undo :=
  map (fun k => (fp k, fm_get (fp k) (recent s))) keys.
Definition restore1 (stamp : N) (m : fmap) (e : N * option N) : fmap :=
  match fm_get (fst e) m with
  | Some v => if N.eqb v stamp
              then match snd e with Some p => fm_insert (fst e) p m | None => fm_remove (fst e) m end
              else m
  | None => m
  end.
Definition rollback_restore (s : ostate) (u : undo) (stamp : N) : ostate :=
  {| recent := fold_left (restore1 stamp) u (recent s);
     kept_since := kept_since s; commits_since_gc := commits_since_gc s |}.

(* what a caller can observe of the state: the least start that is not answered Retry, and for a
   key the least start >= that which is answered Ok (the harness finds both by bisection over
   `check`; the driver prints them from the state) *)
Definition observe_key (s : ostate) (k : bytes) : N :=
  match fm_get (fp k) (recent s) with
  | Some v => N.max v (kept_since s)
  | None => kept_since s
  end.
End Oracle.
