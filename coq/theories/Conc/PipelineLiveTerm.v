(* Conc/PipelineLiveTerm.v — termination (L2): a natural-number measure that strictly decreases on every
   step of the system itself (not an environment label, not a busy-wait iteration).

   The measure is a sum of per-thread potentials plus potentials of the background tasks, the
   closer, the wake-up permits, the immutable memtables and the queued batches.  The loops of the
   code are paid for as follows:
   - a failed dequeue CAS / visibility CAS only happens when the word changed since the thread
     loaded it ("stale"); a stale thread carries an extra potential, and the step that changes the
     word pays that extra for every thread (weights K, Kv);
   - the stall loop needs a new notify_waiters epoch per iteration; every step that bumps the epoch
     pays for one iteration of every thread (weight EPS);
   - a flush-task round is paid by the wake-up permit (CYC), a flush by the immutable memtable (FL),
     a level-task round by its permit (LCYC);
   - the self-notification of the flush task (LMemRecheck) is paid by a bonus RB that the task carries in
     the last part of its round while an immutable memtable is pending and the round did not fail; the bonus
     can only appear through a rotation (paid by the rotating committer) and disappears with LMemRecheck. *)
From Coq Require Import List Arith Bool Lia Wf_nat.
From SKV Require Import Conc.Pipeline Conc.PipelineExplore Conc.PipelineSpec Conc.PipelineLiveBase.
Import ListNotations.

Definition Ls : nat := 3.
Definition Lq : nat := 4.
Definition Lv : nat := 2.
Definition EPS (N : nat) : nat := Ls * N + 1.
Definition Kv (N : nat) : nat := Lv * N + 1.
Definition KZ (N : nat) : nat := 12 + Kv N.
Definition KQ (N : nat) : nat := KZ N + Lq * N + 1.
Definition KE (N : nat) : nat := KQ N + Lq * N + 1.
Definition LCYC (N : nat) : nat := 6 + EPS N.
Definition CYC (N : nat) : nat := 9 + LCYC N + 2 * EPS N.
Definition FL (N : nat) : nat := EPS N + 2.
Definition RB (N : nat) : nat := CYC N + 2.

Definition psiF (N : nat) (f : fpc) : nat :=
  match f with
  | FWait | FExit => 0
  | FIdle | FInit | FRenotified => 1
  | FNotified => 2
  | FNoPending | FErrSignaled => 3 + LCYC N
  | FError => 4 + LCYC N + EPS N
  | FSignaled => 5 + LCYC N + EPS N
  | FFlushed => 6 + LCYC N + 2 * EPS N
  | FRunning => 7 + LCYC N + 2 * EPS N
  | FWoken => 8 + LCYC N + 2 * EPS N
  end.
Definition psiL (N : nat) (l : lpc) : nat :=
  match l with
  | LWait | LExit => 0
  | LIdle | LInit => 1
  | LSignaled => 2
  | LDone | LError => 3 + EPS N
  | LRunning => 4 + EPS N
  | LWoken => 5 + EPS N
  end.
Definition psiX (N : nat) (x : xpc) : nat :=
  match x with
  | XIdle | XReturned => 0
  | XEnd => 1 | XSynced => 2 | XTasksStopped => 3 | XJoin => 4 | XNotified => 5
  | XStopFlag => 6 + CYC N + LCYC N
  | XSignaled => 7 + CYC N + LCYC N
  | XPipeDown => 8 + CYC N + LCYC N + EPS N
  | XStarted => 9 + CYC N + LCYC N + EPS N
  end.
(* the pcs of the flush task after its flush loop *)
Definition late (f : fpc) : bool := match f with FNoPending | FErrSignaled | FNotified | FIdle => true | _ => false end.
Definition G (N : nat) (g : bgstate) : nat :=
  psiF N (g_fpc g) + psiL N (g_lpc g) + psiX N (g_xpc g)
  + (if g_fpermit g then CYC N else 0) + (if g_lpermit g then LCYC N else 0) + FL N * g_imm g
  + (if late (g_fpc g) && Nat.ltb 0 (g_imm g) && negb (g_ffailed g) then RB N else 0).

Definition staleq (hd tl h t0 : nat) : nat := if (h =? hd) && (t0 =? tl) then 0 else Lq.
Definition stalev (vis cur : nat) : nat := if cur =? vis then 0 else Lv.
Definition stalee (ep e : nat) : nat := if e =? ep then 0 else Ls.

(* potential of a committer; hd tl vis ep: the shared words it may have stale copies of *)
Definition phiG (N hd tl vis ep : nat) (t : thr) : nat :=
  let B := 15 + 2 * t_cnt t + CYC N + FL N + RB N in
  let C0 := B + 10 + KE N in
  match t_pc t with
  | CIdle | CReturned _ => 0
  | CWaitDone | CEnqPanic => 1
  | CPubExit | CEnqFullSeen => 2
  | CDeqNone => 3
  | CDeqChecked h t0 _ => 4 + staleq hd tl h t0
  | CDeqSlot h t0 _ => 5 + staleq hd tl h t0
  | CDeqLoaded h t0 => 6 + staleq hd tl h t0
  | CPubTop | CPubHold _ => 7
  | CVisDone _ | CMarkedLocked | CApplied | CFailDone => 8
  | CVisLoaded _ cur => 9 + Kv N + stalev vis cur
  | CVisTop _ => 10 + Kv N
  | CDeqOwned _ => 11 + Kv N
  | CDeqWon _ _ => 12 + Kv N
  | CFailDoneLocked | CApplyFailed => 9
  | CWalFailed => 10
  | CApplying true => 10 + (t_cnt t - t_i t)
  | CWokeMem => 11 + t_cnt t
  | CRotated => 12 + t_cnt t + CYC N
  | CArenaFull => 13 + t_cnt t + CYC N + FL N + RB N
  | CApplying false => 14 + t_cnt t + CYC N + FL N + RB N + (t_cnt t - t_i t)
  | CEnqueued => B
  | CEnqDone => B + 1
  | CEnqStored => B + 2 + KE N
  | CEnqLoaded => B + 3 + KE N
  | COrPub => B + 4 + KE N
  | CAlloc => B + 5 + KE N
  | CChecked => B + 6 + KE N
  | CLocked => B + 7 + KE N
  | CWantLock => B + 8 + KE N
  | CHasPermit => B + 9 + KE N
  | CStallOk => C0
  | CStallBlocked e => C0 + 1 + stalee ep e
  | CStallCounted e _ => C0 + 2 + stalee ep e
  | CStallReg e => C0 + 3 + stalee ep e
  | CEntered => C0 + 4
  end.
Definition phi (N : nat) (s : plstate) (t : thr) : nat :=
  phiG N (qhead s) (qtail s) (visible s) (g_epoch (bg s)) t.

Fixpoint sumf (f : thr -> nat) (l : list thr) : nat :=
  match l with [] => 0 | t :: r => f t + sumf f r end.

Definition M (N : nat) (s : plstate) : nat :=
  sumf (phi N s) (thrs s) + KQ N * (qhead s - qtail s) + G N (bg s).
Definition mu (s : plstate) : nat := M (length (thrs s)) s.

Lemma sum_le : forall (f f' : thr -> nat) l d, (forall u, f' u <= f u + d) -> sumf f' l <= sumf f l + d * length l.
Proof. intros f f' l d Hle. induction l as [|b l IHl]; simpl; [lia|]. specialize (Hle b). lia. Qed.

Lemma sum_step : forall (f f' : thr -> nat) l i t t' d, nth_error l i = Some t ->
  (forall u, f' u <= f u + d) -> sumf f' (set_nth i t' l) + f t <= sumf f l + d * length l + f' t'.
Proof.
  induction l as [|a l IH]; intros [|i] t t' d Hn Hle; simpl in *; try discriminate.
  - injection Hn as ->. pose proof (sum_le f f' l d Hle). lia.
  - specialize (IH i t t' d Hn Hle). specialize (Hle a). lia.
Qed.

Lemma phi_le_word : forall N hd tl hd' tl' vis ep u, phiG N hd' tl' vis ep u <= phiG N hd tl vis ep u + Lq.
Proof.
  intros. unfold phiG, staleq, Lq. destruct (t_pc u); try lia;
    repeat match goal with |- context [if ?b then _ else _] => destruct b end; lia.
Qed.
Lemma phi_le_vis : forall N hd tl vis vis' ep u, phiG N hd tl vis' ep u <= phiG N hd tl vis ep u + Lv.
Proof.
  intros. unfold phiG, stalev, Lv. destruct (t_pc u); try lia;
    repeat match goal with |- context [if ?b then _ else _] => destruct b end; lia.
Qed.
Lemma phi_le_ep : forall N hd tl vis ep ep' u, phiG N hd tl vis ep' u <= phiG N hd tl vis ep u + Ls.
Proof.
  intros. unfold phiG, stalee, Ls. destruct (t_pc u); try lia;
    repeat match goal with |- context [if ?b then _ else _] => destruct b end; lia.
Qed.

(* ------------------------------------------------------------------ the little invariant needed *)
Definition tord (t : thr) : Prop :=
  match t_pc t with
  | CDeqLoaded h t0 | CDeqSlot h t0 _ | CDeqChecked h t0 _ => t0 < h
  | _ => True
  end.
Definition TI (s : plstate) : Prop := qtail s <= qhead s /\ forall j tj, thr_at s j tj -> tord tj.

(* all cases of a committer step, nothing excluded *)
Ltac all_cases l t H :=
  unfold step_commit in H;
  destruct l; destruct (t_pc t) eqn:Hpc; try discriminate H;
  inv_guard H; try (injection H as <-); boolp; subst;
  try (match goal with |- context [g_dirty ?g] => destruct (g_dirty g) eqn:Hdirty end).

Lemma ti_commit_step : forall c s i t l s', TI s -> thr_at s i t -> step_commit c s i t l = Some s' -> TI s'.
Proof.
  intros c s i t l s' [Hq HT] Ht H. pose proof (HT i t Ht) as Hti. unfold tord in Hti.
  all_cases l t H; ret_shape.
  all: try (split; [exact Hq | exact HT]).
  all: split; [ psimpl; try lia | ].
  all: try (intros j tj Hj; thr_cases Hj Hne; [ | exact (HT j tj Hj) ]; unfold tord; simpl; rewrite ?Hpc;
            repeat match goal with |- context [if ?b then _ else _] => destruct b eqn:? end; boolp; auto; try lia).
Qed.

Lemma ti_step : forall c s a l s', TI s -> pstep c s a l = Some s' -> TI s'.
Proof.
  intros c s a l s' HT H. destruct a as [i|i| | | | ]; unfold pstep in H.
  - unfold get_thr in H. destruct (nth_error (thrs s) i) as [t|] eqn:Ht; [|discriminate].
    eapply ti_commit_step; eauto.
  - destruct (nth_error (rdrs s) i) as [r|]; [|discriminate]. unfold step_reader in H.
    destruct l; destruct r; try discriminate H; inv_guard H; try (injection H as <-); exact HT.
  - unfold step_flush in H. destruct l; destruct (g_fpc (bg s)); try discriminate H; inv_guard H;
      try (injection H as <-); exact HT.
  - unfold step_level in H. destruct l; destruct (g_lpc (bg s)); try discriminate H; inv_guard H;
      try (injection H as <-); exact HT.
  - unfold step_closer in H. destruct l; destruct (g_xpc (bg s)); try discriminate H; inv_guard H;
      try (injection H as <-); exact HT.
  - destruct l; try discriminate H. inv_guard H. injection H as <-. exact HT.
Qed.

Lemma ti_init : forall c n m v, TI (pinit c n m v).
Proof.
  intros. split; simpl; [lia|]. intros j tj Hj. unfold thr_at in Hj. simpl in Hj.
  assert (tj = thr0). { clear -Hj. revert j Hj. induction n; intros [|j] Hj; simpl in Hj; try discriminate; [congruence|eauto]. }
  subst. exact I.
Qed.

Lemma ti_run : forall c evs s s', TI s -> prun c s evs = Some s' -> TI s'.
Proof.
  intros c evs. induction evs as [|[a l] r IH]; intros s s' HT H; simpl in H.
  - injection H as <-. exact HT.
  - destruct (pstep c s a l) as [s1|] eqn:Hs; [|discriminate]. apply (IH s1 s'); [eapply ti_step; eauto | exact H].
Qed.

(* ------------------------------------------------------------------ the measure decreases *)
Lemma mu_put : forall s s0 i t t' d, thr_at s i t -> thrs s0 = thrs s ->
  (forall u, phi (length (thrs s)) s0 u <= phi (length (thrs s)) s u + d) ->
  phi (length (thrs s)) s0 t' + d * length (thrs s) + KQ (length (thrs s)) * (qhead s0 - qtail s0) + G (length (thrs s)) (bg s0)
    < phi (length (thrs s)) s t + KQ (length (thrs s)) * (qhead s - qtail s) + G (length (thrs s)) (bg s) ->
  mu (put_thr s0 i t') < mu s.
Proof.
  intros s s0 i t t' d Ht Hth Hle Hlt. unfold mu, M. psimpl. rewrite Hth, set_nth_length.
  pose proof (sum_step (phi (length (thrs s)) s) (phi (length (thrs s)) s0) (thrs s) i t t' d Ht Hle) as Hs.
  change (phi (length (thrs s)) (put_thr s0 i t')) with (phi (length (thrs s)) s0).
  lia.
Qed.

Lemma phi_same : forall N s s0, qhead s0 = qhead s -> qtail s0 = qtail s -> visible s0 = visible s ->
  g_epoch (bg s0) = g_epoch (bg s) -> forall u, phi N s0 u <= phi N s u + 0.
Proof. intros N s s0 H1 H2 H3 H4 u. unfold phi. rewrite H1, H2, H3, H4. lia. Qed.

Ltac unfold_consts := unfold RB, KE, KQ, KZ, Kv, CYC, LCYC, FL, EPS, Ls, Lq, Lv in *.
Ltac stale_tac :=
  unfold staleq, stalev, stalee; rewrite ?Nat.eqb_refl; simpl;
  repeat match goal with H : ?b = false |- context [if ?b then _ else _] => rewrite H end;
  repeat (match goal with |- context [if ?b then _ else _] => destruct b eqn:? end;
          unfold staleq, stalev, stalee; rewrite ?Nat.eqb_refl; simpl);
  boolp.

Lemma do_return_shape2 : forall s i t r, exists s2,
  do_return s i t r = put_thr s2 i (with_permit (with_pc t (CReturned r)) false) /\
  thrs s2 = thrs s /\ qhead s2 = qhead s /\ qtail s2 = qtail s /\ visible s2 = visible s /\ bg s2 = bg s.
Proof.
  intros s i t r. unfold do_return, my_batch, get_b.
  destruct (t_permit t); simpl; destruct (t_my t) as [p|]; simpl;
    try (destruct (nth_error (qlog s) p) as [b|] eqn:Hb); simpl;
    eexists; (split; [reflexivity|]); simpl; repeat split; auto.
Qed.
Ltac ret_shape2 :=
  try match goal with |- context [do_return ?s0 ?i0 ?t0 ?r] =>
    destruct (do_return_shape2 s0 i0 t0 r) as [s2 [Hs2 [Hr1 [Hr2 [Hr3 [Hr4 Hr6]]]]]];
    rewrite Hs2; clear Hs2; simpl in Hr1, Hr2, Hr3, Hr4, Hr6
  end.

Lemma dec_commit : forall c s i t l s', TI s -> thr_at s i t -> step_commit c s i t l = Some s' ->
  env_label (ACommit i) l = false -> stutter l = false -> mu s' < mu s.
Proof.
  intros c s i t l s' [Hq HT] Ht H He Hst. pose proof (HT i t Ht) as Hti. unfold tord in Hti.
  all_cases l t H; ret_shape2; try discriminate He; try discriminate Hst.
  all: try solve [ eapply mu_put with (d := 0); [ exact Ht | auto | apply phi_same; auto; try (rewrite Hr6; reflexivity)
                 | unfold phi, phiG, G; psimpl; simpl; rewrite ?Hpc, ?Hr2, ?Hr3, ?Hr4, ?Hr6; stale_tac; unfold_consts; lia ] ].
  - (* LEnqDone: the head moves; every other thread's copy of the word may become stale *)
    eapply mu_put with (d := Lq); [ exact Ht | reflexivity | intros u; unfold phi; psimpl; apply phi_le_word | ].
    unfold phi, phiG, G; psimpl; cbn [t_pc with_pc t_cnt t_i]; rewrite ?Hpc. rewrite Nat.sub_succ_l by exact Hq.
    unfold_consts. lia.
  - (* LDeqCasOk: the tail moves *)
    eapply mu_put with (d := Lq); [ exact Ht | reflexivity | intros u; unfold phi; psimpl; apply phi_le_word | ].
    unfold phi, phiG, G; psimpl; cbn [t_pc with_pc t_cnt t_i]; rewrite ?Hpc.
    unfold staleq. rewrite !Nat.eqb_refl. cbn [andb].
    replace (qhead s - qtail s) with (S (qhead s - S (qtail s))) by lia.
    unfold_consts. lia.
  - (* LVisCasOk: the horizon moves *)
    eapply mu_put with (d := Lv); [ exact Ht | reflexivity | intros u; unfold phi; psimpl; apply phi_le_vis | ].
    unfold phi, phiG, G; psimpl; cbn [t_pc with_pc t_cnt t_i]; rewrite ?Hpc.
    unfold stalev. rewrite !Nat.eqb_refl. unfold_consts. lia.
Qed.

Lemma mu_bg : forall s g' d,
  (forall u, phi (length (thrs s)) (st_bg s g') u <= phi (length (thrs s)) s u + d) ->
  d * length (thrs s) + G (length (thrs s)) g' < G (length (thrs s)) (bg s) ->
  mu (st_bg s g') < mu s.
Proof.
  intros s g' d Hle Hlt. unfold mu, M. psimpl.
  pose proof (sum_le (phi (length (thrs s)) s) (phi (length (thrs s)) (st_bg s g')) (thrs s) d Hle). lia.
Qed.

Ltac bg_dec :=
  first [ eapply mu_bg with (d := 0);
          [ intros u; unfold phi; psimpl; simpl; lia
          | unfold G; simpl; repeat match goal with H : _ = _ |- _ => rewrite H end; simpl; unfold_consts; lia ]
        | eapply mu_bg with (d := Ls);
          [ intros u; unfold phi; psimpl; simpl; apply phi_le_ep
          | unfold G; simpl; repeat match goal with H : _ = _ |- _ => rewrite H end; simpl; unfold_consts; lia ] ].

Lemma dec_flush : forall s l s', step_flush s l = Some s' -> mu s' < mu s.
Proof.
  intros s l s' H. unfold step_flush in H.
  destruct l; destruct (g_fpc (bg s)) eqn:Hf; try discriminate H; inv_guard H; try (injection H as <-); boolp.
  all: try bg_dec.
  all: destruct (g_imm (bg s)) eqn:Hi; try lia; bg_dec.
Qed.

Lemma dec_level : forall s l s', step_level s l = Some s' -> mu s' < mu s.
Proof.
  intros s l s' H. unfold step_level in H.
  destruct l; destruct (g_lpc (bg s)) eqn:Hf; try discriminate H; inv_guard H; try (injection H as <-); boolp.
  all: try bg_dec.
Qed.

Lemma dec_closer : forall s l s', step_closer s l = Some s' -> env_label ACloser l = false -> stutter l = false -> mu s' < mu s.
Proof.
  intros s l s' H He Hst. unfold step_closer in H.
  destruct l; destruct (g_xpc (bg s)) eqn:Hf; try discriminate H; try discriminate He; try discriminate Hst;
    inv_guard H; try (injection H as <-); boolp.
  all: try bg_dec.
Qed.

Theorem mu_decreases : forall c n m v s a l s', reachable c n m v s -> pstep c s a l = Some s' ->
  env_label a l = false -> stutter l = false -> mu s' < mu s.
Proof.
  intros c n m v s a l s' [evs Hr] Hs He Hst.
  assert (HT : TI s) by (eapply ti_run; [apply ti_init | exact Hr]).
  destruct a as [i|i| | | | ]; unfold pstep in Hs.
  - unfold get_thr in Hs. destruct (nth_error (thrs s) i) as [t|] eqn:Ht; [|discriminate].
    eapply dec_commit; eauto.
  - destruct (nth_error (rdrs s) i) as [r|]; [|discriminate]. unfold step_reader in Hs.
    destruct l; destruct r; try discriminate Hs; discriminate He.
  - eapply dec_flush; eauto.
  - eapply dec_level; eauto.
  - eapply dec_closer; eauto.
  - destruct l; discriminate He.
Qed.
