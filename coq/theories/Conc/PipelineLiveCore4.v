(* Conc/PipelineLiveCore4.v — invariant preservation, continued: owners, pending completions, helpers *)
From Coq Require Import List Arith Bool Lia.
From SKV Require Import Conc.Pipeline Conc.PipelineExplore Conc.PipelineSpec Conc.PipelineLiveCore Conc.PipelineLiveCore3.
Import ListNotations.

Definition OWN (s : plstate) : Prop :=
  forall p b, qtail s <= p -> nth_error (qlog s) p = Some b -> existsb (owns p (b_applied b)) (thrs s) = true.
Definition DEQ (s : plstate) : Prop :=
  forall p b, p < qtail s -> nth_error (qlog s) p = Some b -> b_res b = Some true \/ existsb (holds p) (thrs s) = true.
Definition HELP (s : plstate) : Prop :=
  forall b, qtail s < qhead s -> nth_error (qlog s) (qtail s) = Some b -> b_applied b = true ->
    existsb (helper (qtail s)) (thrs s) = true.

Lemma own_frame : forall c s s0 i t x, Inv c s -> thr_at s i t -> thrs s0 = thrs s -> qtail s <= qtail s0 ->
  logrel sameA (qlog s) (qlog s0) -> (forall p ap, owns p ap t = true -> owns p ap x = true) -> OWN (put_thr s0 i x).
Proof.
  intros c s s0 i t x HI Ht Hth Htl [_ Hl] Hx p b' Hp Hb. psimpl_in Hp. psimpl_in Hb. psimpl.
  destruct (Hl _ _ Hb) as [b0 [Hb0 Ha]]. rewrite Ha, Hth.
  eapply existsb_set_nth; eauto. apply (i_own c s HI p b0); auto. lia.
Qed.

Ltac own_cond Hpc Hti :=
  intros ? ? Ho; try (destruct Hti as [Hte _]; rewrite Hte); unfold owns, my_is in *; simpl in *; rewrite ?Hpc in *; simpl in *;
  repeat match goal with |- context [if ?b then _ else _] => destruct b end; simpl;
  solve [ exact Ho | rewrite andb_false_r in Ho; discriminate Ho ].

Lemma owns_mono : forall p ap u, owns p ap u = true -> owns p true u = true.
Proof.
  unfold owns. intros p ap u H. apply andb_true_iff in H as [H1 H2]. rewrite H1. simpl.
  apply orb_true_iff in H2 as [H2|H2]; [rewrite H2; reflexivity|].
  apply andb_true_iff in H2 as [H2 _]. rewrite H2. simpl. apply orb_true_r.
Qed.

Lemma owns_my : forall p ap u n, owns p ap u = true -> t_my u = Some n -> n = p.
Proof.
  unfold owns, my_is. intros p ap u n H Hn. rewrite Hn in H. apply andb_true_iff in H as [H _].
  apply Nat.eqb_eq in H. exact H.
Qed.

Lemma own_step : forall c s i t l s', Inv c s -> thr_at s i t -> ok_label l -> step_commit c s i t l = Some s' -> OWN s'.
Proof.
  intros c s i t l s' HI Ht Hok H.
  step_start c s i t l H HI Ht Hok.
  all: try exact (i_own c s HI).
  all: try solve [eapply own_frame; try exact HI; try exact Ht; psimpl; auto; try lia; try logrel_tac; try (own_cond Hpc Hti)].
  - (* LEnqStored *)
    intros p b Hp Hb. psimpl_in Hp. psimpl_in Hb. psimpl. specialize (Hls2 ltac:(discriminate)).
    apply nth_error_snoc_inv in Hb as [[_ Hb]|[-> ->]].
    + eapply existsb_set_nth; [apply (i_own c s HI p b Hp Hb) | exact Ht | | auto].
      unfold owns. rewrite Hpc. simpl. rewrite andb_false_r. discriminate.
    + apply existsb_set_nth_new; [eapply nth_error_lt; exact Ht|].
      unfold owns, my_is. simpl. rewrite Hls2, Nat.eqb_refl. reflexivity.
  - (* LMarked *)
    intros p b Hp Hb. psimpl_in Hp. psimpl_in Hb. psimpl. apply my_batch_inv in Hm as [Hm1 Hm2].
    apply nth_error_set_nth_inv in Hb as [[-> ->]|[Hne Hb]].
    + simpl. eapply existsb_set_nth; [apply (i_own c s HI n p0 Hp Hm2) | exact Ht | | apply owns_mono].
      intros Ho. unfold owns in *. apply andb_true_iff in Ho as [Ho _]. unfold my_is in *. simpl. rewrite Ho. reflexivity.
    + eapply existsb_set_nth; [apply (i_own c s HI p b Hp Hb) | exact Ht | | auto].
      intros Ho. exfalso. apply Hne. symmetry. eapply owns_my; eauto.
  - (* LRet ResOk: the batch was completed, hence dequeued *)
    intros p b Hp Hb. psimpl_in Hp. psimpl_in Hb. psimpl. apply my_batch_inv in Hm0 as [Hm1 Hm3].
    destruct (i_res c s HI n p0 Hm3) as [Hr|[_ Hr]]; [congruence|].
    assert (Hl : logrel sameA (qlog s) (qlog s2)) by (eapply logrel_ret; [rel_refl | rel_refl | exact Hr8]).
    destruct Hl as [_ Hl]. destruct (Hl _ _ Hb) as [b0 [Hb0 Ha]]. rewrite Ha, Hr1.
    eapply existsb_set_nth; [apply (i_own c s HI p b0 ltac:(lia) Hb0) | exact Ht | | auto].
    intros Ho. exfalso. assert (n = p) by (eapply owns_my; eauto). lia.
Qed.

Lemma deq_frame : forall c s s0 i t x, Inv c s -> thr_at s i t -> thrs s0 = thrs s -> qtail s0 = qtail s ->
  logrel sameR (qlog s) (qlog s0) -> (forall p, holds p t = true -> holds p x = true) -> DEQ (put_thr s0 i x).
Proof.
  intros c s s0 i t x HI Ht Hth Htl [_ Hl] Hx p b' Hp Hb. psimpl_in Hp. psimpl_in Hb. psimpl.
  destruct (Hl _ _ Hb) as [b0 [Hb0 Ha]]. rewrite Ha, Hth.
  destruct (i_deq c s HI p b0 ltac:(lia) Hb0) as [Hd|Hd]; auto.
  right. eapply existsb_set_nth; eauto.
Qed.

Ltac holds_cond Hpc :=
  intros ? Ho; unfold holds in *; simpl in *; rewrite ?Hpc in *; simpl in *;
  repeat match goal with |- context [if ?b then _ else _] => destruct b end; simpl;
  solve [ exact Ho | discriminate Ho ].

Lemma deq_step : forall c s i t l s', Inv c s -> thr_at s i t -> ok_label l -> step_commit c s i t l = Some s' -> DEQ s'.
Proof.
  intros c s i t l s' HI Ht Hok H.
  step_start c s i t l H HI Ht Hok.
  all: try exact (i_deq c s HI).
  all: try solve [eapply deq_frame; try exact HI; try exact Ht; psimpl; auto; try lia; try logrel_tac; try (holds_cond Hpc)].
  - (* LEnqStored *)
    intros q b Hq Hb. psimpl_in Hq. psimpl_in Hb. psimpl.
    apply nth_error_snoc_inv in Hb as [[_ Hb]|[-> ->]]; [|lia].
    destruct (i_deq c s HI q b Hq Hb) as [Hd|Hd]; auto. right.
    eapply existsb_set_nth; eauto. unfold holds. rewrite Hpc. discriminate.
  - (* LDeqCasOk *)
    intros q b Hq Hb. psimpl_in Hq. psimpl_in Hb. psimpl.
    destruct (Nat.eq_dec q (qtail s)) as [->|Hne].
    + right. apply existsb_set_nth_new; [eapply nth_error_lt; exact Ht|].
      unfold holds. simpl. destruct Hti as [_ [_ [_ [_ [_ [_ [_ [_ Hp]]]]]]]]. rewrite (Hp eq_refl). apply Nat.eqb_refl.
    + destruct (i_deq c s HI q b ltac:(lia) Hb) as [Hd|Hd]; auto. right.
      eapply existsb_set_nth; eauto. unfold holds. rewrite Hpc. discriminate.
  - (* LPubCompleted *)
    intros q b Hq Hb. psimpl_in Hq. psimpl_in Hb. psimpl.
    apply nth_error_set_nth_inv in Hb as [[-> ->]|[Hne Hb]].
    + left. simpl. destruct (i_res c s HI p p0 Hm) as [->|[-> _]]; reflexivity.
    + destruct (i_deq c s HI q b Hq Hb) as [Hd|Hd]; auto. right.
      eapply existsb_set_nth; eauto. unfold holds. rewrite Hpc. intros Ho. apply Nat.eqb_eq in Ho. congruence.
Qed.

Lemma help_frame : forall c s s0 i t x, Inv c s -> thr_at s i t -> thrs s0 = thrs s -> qtail s0 = qtail s ->
  qhead s0 = qhead s -> logrel sameA (qlog s) (qlog s0) ->
  (helper (qtail s) t = true -> helper (qtail s) x = true) -> HELP (put_thr s0 i x).
Proof.
  intros c s s0 i t x HI Ht Hth Htl Hhd [_ Hl] Hx b' Hlt Hb Ha. psimpl_in Hlt. psimpl_in Hb. psimpl.
  rewrite Htl in *. rewrite Hhd in *.
  destruct (Hl _ _ Hb) as [b0 [Hb0 Ha0]]. rewrite Ha0 in Ha. rewrite Hth.
  eapply existsb_set_nth; eauto. apply (i_help c s HI b0); auto.
Qed.

Lemma help_new : forall s s0 i t x, thr_at s i t -> thrs s0 = thrs s -> helper (qtail s0) x = true -> HELP (put_thr s0 i x).
Proof.
  intros s s0 i t x Ht Hth Hx b _ _ _. psimpl. rewrite Hth. apply existsb_set_nth_new; auto.
  eapply nth_error_lt; exact Ht.
Qed.

Ltac helper_cond Hpc :=
  intros Ho; unfold helper in *; simpl in *; rewrite ?Hpc in *; simpl in *;
  repeat match goal with |- context [if ?b then _ else _] => destruct b end; simpl;
  solve [ exact Ho | discriminate Ho | reflexivity ].

Lemma help_step : forall c s i t l s', Inv c s -> thr_at s i t -> ok_label l -> step_commit c s i t l = Some s' -> HELP s'.
Proof.
  intros c s i t l s' HI Ht Hok H.
  step_start c s i t l H HI Ht Hok.
  all: try exact (i_help c s HI).
  all: try solve [eapply help_frame; try exact HI; try exact Ht; psimpl; auto; try lia; try logrel_tac; try (helper_cond Hpc)].
  - (* LEnqStored *)
    intros b Hlt Hb Ha. psimpl_in Hlt. psimpl_in Hb. psimpl.
    apply nth_error_snoc_inv in Hb as [[_ Hb]|[Hb _]]; [|lia].
    eapply existsb_set_nth; [apply (i_help c s HI b Hlt Hb Ha) | exact Ht | | auto].
    unfold helper. rewrite Hpc. discriminate.
  - (* LEnqDone *)
    intros b Hlt Hb Ha. psimpl_in Hlt. psimpl_in Hb. psimpl.
    destruct (Nat.eq_dec (qtail s) (qhead s)) as [Heq|Hne].
    + rewrite Heq in Hb. rewrite (i_qf c s HI b Hb) in Ha. discriminate.
    + eapply existsb_set_nth; [apply (i_help c s HI b ltac:(lia) Hb Ha) | exact Ht | | auto].
      unfold helper. rewrite Hpc. discriminate.
  - (* LMarked *) eapply help_new; [exact Ht | reflexivity | reflexivity].
  - (* LDeqLoaded at CPubTop *)
    destruct (qhead s =? qtail s) eqn:E; boolp.
    + intros b Hlt. psimpl_in Hlt. lia.
    + eapply help_new; [exact Ht | reflexivity | ]. unfold helper. simpl. apply Nat.eqb_refl.
  - (* LDeqLoaded at CPubHold *)
    destruct (qhead s =? qtail s) eqn:E; boolp.
    + intros b Hlt. psimpl_in Hlt. lia.
    + eapply help_new; [exact Ht | reflexivity | ]. unfold helper. simpl. apply Nat.eqb_refl.
  - (* LDeqSlot, null *)
    destruct (Nat.eq_dec t1 (qtail s)) as [->|Hne].
    + intros b Hlt Hb Ha. psimpl_in Hlt. exfalso. unfold get_slot, slot_ix in Hm.
      rewrite (i_r2 c s HI (qtail s)) in Hm by lia. discriminate.
    + eapply help_frame; try exact HI; try exact Ht; auto; [logrel_tac|].
      unfold helper. rewrite Hpc. intros Ho. apply Nat.eqb_eq in Ho. contradiction.
  - (* LDeqChecked on a freed batch *)
    destruct a; [eapply help_frame; try exact HI; try exact Ht; auto; [logrel_tac | helper_cond Hpc]|].
    destruct (Nat.eq_dec t1 (qtail s)) as [->|Hne].
    + intros b Hlt Hb Ha. psimpl_in Hlt. exfalso. destruct Hti as [_ [_ [_ [_ [_ [_ [_ [_ Hp]]]]]]]].
      rewrite (Hp eq_refl) in Hm. pose proof (i_qref c s HI (qtail s) p0 ltac:(lia) Hm) as Hq.
      unfold b_freed in Hm0. rewrite Hq in Hm0. discriminate.
    + eapply help_frame; try exact HI; try exact Ht; auto; [logrel_tac|].
      unfold helper. rewrite Hpc. intros Ho. apply Nat.eqb_eq in Ho. contradiction.
  - (* LDeqChecked *)
    destruct (b_applied p0) eqn:Eap; [eapply help_frame; try exact HI; try exact Ht; auto; [logrel_tac | helper_cond Hpc]|].
    destruct (Nat.eq_dec t1 (qtail s)) as [->|Hne].
    + intros b Hlt Hb Ha. psimpl_in Hlt. psimpl_in Hb. exfalso. destruct Hti as [_ [_ [_ [_ [_ [_ [_ [_ Hp]]]]]]]].
      rewrite (Hp eq_refl) in Hm. unfold get_b in Hm. congruence.
    + eapply help_frame; try exact HI; try exact Ht; auto; [logrel_tac|].
      unfold helper. rewrite Hpc. intros Ho. apply Nat.eqb_eq in Ho. contradiction.
  - (* LDeqCasOk *) eapply help_new; [exact Ht | reflexivity | reflexivity].
Qed.
