(* Conc/PipelineRing_proofs.v — the ring buffer of the commit pipeline (statements of PipelineSpec, N1):
   wrap-around arithmetic, the use-after-free witness and the overflow theorem (N1, failures of
   env.write / env.apply included). *)
From Coq Require Import List Arith Bool Lia FinFun.
From SKV Require Import Conc.Pipeline Conc.PipelineExplore Conc.PipelineSpec.
Import ListNotations.

(* ================================================================== general-purpose lemmas *)
Lemma mod_mod_divides (h s d : nat) : s <> 0 -> d <> 0 -> (h mod (s * d)) mod s = h mod s.
Proof.
  intros Hs Hd. rewrite (Nat.mod_mul_r h s d) by assumption.
  rewrite (Nat.mul_comm s), Nat.mod_add by assumption. apply Nat.mod_mod; assumption.
Qed.

(* the "queue full" test on wrapped counters, for an abstract modulus M *)
Lemma wrap_full_iff (M slots h t : nat) :
  M <> 0 -> slots <= M -> (slots < M \/ t < h) -> t <= h -> h - t <= slots ->
  ((t mod M + slots) mod M = h mod M <-> t + slots = h).
Proof.
  intros HM Hle Hx Hth Hd. rewrite Nat.add_mod_idemp_l by assumption. split.
  - intros E.
    pose proof (Nat.div_mod (t + slots) M HM) as E1.
    pose proof (Nat.div_mod h M HM) as E2.
    rewrite E in E1.
    remember ((t + slots) / M) as q1. remember (h / M) as q2. remember (h mod M) as r.
    assert (Hq : q2 <= q1) by nia.
    assert (Hc : q1 = q2 \/ q2 < q1) by lia. destruct Hc as [Hc | Hc].
    + subst q1. lia.
    + exfalso. assert (M * q2 + M <= M * q1) by nia. lia.
  - intros <-. reflexivity.
Qed.

Lemma pow2_split k : k <= 32 -> 2 ^ 32 = 2 ^ k * 2 ^ (32 - k).
Proof. intros H. rewrite <- Nat.pow_add_r. f_equal. lia. Qed.

(* ================================================================== set_nth / nth_error *)
Lemma length_set_nth {A} (l : list A) i x : length (set_nth i x l) = length l.
Proof. revert i; induction l as [|y l IH]; intros [|i]; simpl; auto. Qed.

Lemma nth_error_set_nth_eq {A} (l : list A) i x : i < length l -> nth_error (set_nth i x l) i = Some x.
Proof.
  revert i; induction l as [|y l IH]; intros [|i] H; simpl in *; try lia; auto. apply IH; lia.
Qed.

Lemma nth_error_set_nth_neq {A} (l : list A) i j x : i <> j -> nth_error (set_nth i x l) j = nth_error l j.
Proof.
  revert i j; induction l as [|y l IH]; intros [|i] [|j] H; simpl; auto; try congruence.
Qed.

Lemma nth_error_lt {A} (l : list A) i x : nth_error l i = Some x -> i < length l.
Proof. intros H. apply nth_error_Some. congruence. Qed.

Lemma map_set_nth {A B} (f : A -> B) (l : list A) i x : map f (set_nth i x l) = set_nth i (f x) (map f l).
Proof. revert i; induction l as [|y l IH]; intros [|i]; simpl; auto. f_equal; apply IH. Qed.

Lemma set_nth_same {A} (l : list A) i x : nth_error l i = Some x -> set_nth i x l = l.
Proof.
  revert i; induction l as [|y l IH]; intros [|i] H; simpl in *; try discriminate; auto.
  - congruence.
  - f_equal; auto.
Qed.

Lemma nth_error_repeat {A} (x y : A) n i : nth_error (repeat x n) i = Some y -> y = x.
Proof. intros H. apply nth_error_In in H. apply repeat_spec in H. exact H. Qed.

Lemma nth_error_app_last {A} (l : list A) x q y :
  nth_error (l ++ [x]) q = Some y -> (q < length l /\ nth_error l q = Some y) \/ (q = length l /\ y = x).
Proof.
  intros H. destruct (Nat.lt_ge_cases q (length l)) as [Hq | Hq].
  - left. split; auto. rewrite nth_error_app1 in H; auto.
  - right. rewrite nth_error_app2 in H by assumption.
    destruct (q - length l) as [|d] eqn:E; simpl in H.
    + split; [lia | congruence].
    + destruct d; discriminate.
Qed.

Lemma nth_error_set_nth_other {A} (l : list A) k j (x y z : A) :
  nth_error l k = Some x -> nth_error l j = Some y -> x <> y -> nth_error (set_nth k z l) j = Some y.
Proof.
  intros Hk Hj Hne. rewrite nth_error_set_nth_neq; auto. intros ->. congruence.
Qed.

(* ================================================================== 1. wrap-around *)
(* `2 ^ 32` is never computed: Nat.pow stays opaque in this section *)
Section Wrap.
Local Opaque Nat.pow.

(* wrap_ok_stmt is FALSE as stated: for k = 32 (slots = 2^32) and h = t the wrapped "full" test
   (t + slots) mod 2^32 = h mod 2^32 holds although the queue is empty. *)
Theorem wrap_ok_false : ~ wrap_ok_stmt.
Proof.
  intros H.
  assert (Hnz : 2 ^ 32 <> 0) by (apply Nat.pow_nonzero; discriminate).
  assert (Hd : 0 - 0 <= 2 ^ 32) by (simpl; lia).
  destruct (H 32 (2 ^ 32) 0 0 eq_refl (le_n _) (le_n _) Hd) as [_ [H1 _]].
  assert (E : (0 mod 2 ^ 32 + 2 ^ 32) mod 2 ^ 32 = 0 mod 2 ^ 32).
  { rewrite (Nat.mod_0_l _ Hnz). simpl. apply Nat.mod_same; assumption. }
  apply H1 in E. simpl in E. contradiction.
Qed.

(* the strongest true variant: the index part holds for every k <= 32; the "full" test is exact
   unless slots = 2^32 and the queue is empty (k < 32, or t < h) *)
Theorem wrap_ok_partial : wrap_ok_partial_stmt.
Proof.
  intros k slots h t Hs Hk Hth Hd.
  assert (Hnz : forall j, 2 ^ j <> 0) by (intros j; apply Nat.pow_nonzero; discriminate).
  split.
  - rewrite (pow2_split k Hk), <- Hs. apply mod_mod_divides; subst slots; apply Hnz.
  - intros Hx. apply wrap_full_iff; auto.
    + subst slots. apply Nat.pow_le_mono_r; [discriminate | assumption].
    + destruct Hx as [Hx | Hx]; [left | right; assumption].
      subst slots. apply Nat.pow_lt_mono_r; lia.
Qed.
End Wrap.

(* ================================================================== 2. the use-after-free witness *)
Definition cfg87 : cfg := {| c_slots := 8; c_permits := 7; c_memlimit := 2; c_l0limit := 100 |}.

Definition by_thr (i : nat) (ls : list label) : list (actor * label) := map (fun l => (ACommit i, l)) ls.

(* commit() up to the sequence-number allocation; k = number of batches allocated before *)
Definition pre (k : nat) : list label :=
  [LEnter 1; LStallRegistered; LStallCounted 0 0; LStallOk; LSemAcquired; LWantLock; LLocked; LChecked;
   LSeqAllocated (k + 1) 1; LOraclePublished].
(* thread 0: enqueues at position 0, WAL ok, unlocks, and is then not scheduled (batch not applied) *)
Definition queued0 : list label := pre 0 ++ [LEnqLoaded 0 0; LEnqStored; LEnqDone; LEnqueued; LUnlocked].
(* thread 0 commits completely (position 0) *)
Definition commit0 : list label :=
  queued0 ++ [LMemInsert 1; LAfterApply false; LMarked; LDeqLoaded 1 0; LDeqSlot 0 false; LDeqChecked 0 true;
              LDeqCasOk; LDeqCleared; LPubDeq 1 1; LVisLoaded 1 0; LVisCasOk; LPubCompleted].
Definition witness_uaf : list (actor * label) :=
  by_thr 0 commit0
  ++ by_thr 1 (pre 1 ++ [LEnqLoaded 1 1; LEnqStored; LEnqDone])
  (* thread 0 loops in publish(): loads head/tail and the raw pointer of batch 1 *)
  ++ by_thr 0 [LDeqLoaded 2 1; LDeqSlot 1 false]
  (* thread 1 applies, dequeues, completes, drops both references and returns *)
  ++ by_thr 1 [LEnqueued; LUnlocked; LMemInsert 2; LAfterApply false; LMarked; LDeqLoaded 2 1; LDeqSlot 1 false;
               LDeqChecked 1 true; LDeqCasOk; LDeqCleared; LPubDeq 2 1; LVisLoaded 2 1; LVisCasOk; LPubCompleted;
               LDeqLoaded 2 2; LPubExit; LPublished; LRet ResOk]
  (* thread 0 dereferences the pointer *)
  ++ by_thr 0 [LDeqChecked 1 true].

Definition s_uaf : plstate :=
  Eval vm_compute in
    match prun cfg87 (pinit cfg87 2 0 0) witness_uaf with Some s => s | None => pinit cfg87 0 0 0 end.

Lemma failure_free_forallb evs :
  forallb (fun e => negb (failure_label (snd e))) evs = true -> failure_free evs.
Proof.
  intros H a l Hin. rewrite forallb_forall in H. specialize (H _ Hin). simpl in H.
  destruct (failure_label l); [discriminate | reflexivity].
Qed.

Theorem use_after_free_reachable : use_after_free_reachable_stmt 8 7.
Proof.
  exists 2, witness_uaf, s_uaf.
  split; [vm_compute; reflexivity | split; [vm_compute; reflexivity | ]].
  apply failure_free_forallb. vm_compute. reflexivity.
Qed.

(* ================================================================== the invariant of N1 *)
(* ================================================================== counting permit holders *)
Definition b2n (b : bool) : nat := if b then 1 else 0.
Definition cnt (ts : list thr) : nat := length (filter t_permit ts).
Definition owners (ts : list thr) : list (option nat) := map t_my (filter t_permit ts).

Lemma cnt_set_nth ts i t t' :
  nth_error ts i = Some t -> cnt (set_nth i t' ts) + b2n (t_permit t) = cnt ts + b2n (t_permit t').
Proof.
  unfold cnt. revert i; induction ts as [|y ts IH]; intros [|i] H; simpl in *; try discriminate.
  - inversion H; subst. destruct (t_permit t), (t_permit t'); simpl; lia.
  - specialize (IH _ H). destruct (t_permit y); simpl; lia.
Qed.

Lemma owners_length ts : length (owners ts) = cnt ts.
Proof. unfold owners, cnt. apply map_length. Qed.

Lemma owners_in ts i t : nth_error ts i = Some t -> t_permit t = true -> In (t_my t) (owners ts).
Proof.
  intros H Hp. unfold owners. apply in_map. apply filter_In. split; auto. eapply nth_error_In; eauto.
Qed.

Lemma NoDup_map_Some_seq a n : NoDup (map (@Some nat) (seq a n)).
Proof.
  apply FinFun.Injective_map_NoDup; [intros x y E; congruence | apply seq_NoDup].
Qed.

(* every position of [a, a+n) is owned by a permit holder: n <= number of permit holders *)
Lemma owners_bound ts a n :
  (forall q, a <= q < a + n -> exists i t, nth_error ts i = Some t /\ t_my t = Some q /\ t_permit t = true) ->
  n <= cnt ts.
Proof.
  intros H. rewrite <- owners_length, <- (seq_length n a), <- (map_length (@Some nat)).
  apply NoDup_incl_length; [apply NoDup_map_Some_seq |].
  intros x Hx. apply in_map_iff in Hx. destruct Hx as [q [<- Hq]]. apply in_seq in Hq.
  destruct (H q Hq) as [i [t [Hi [Hm Hp]]]]. rewrite <- Hm. eapply owners_in; eauto.
Qed.

(* ... and one more permit holder has no batch in the queue yet *)
Lemma owners_bound_strict ts a n i0 t0 :
  (forall q, a <= q < a + n -> exists i t, nth_error ts i = Some t /\ t_my t = Some q /\ t_permit t = true) ->
  nth_error ts i0 = Some t0 -> t_my t0 = None -> t_permit t0 = true ->
  S n <= cnt ts.
Proof.
  intros H Hi0 Hm0 Hp0.
  rewrite <- owners_length, <- (seq_length n a), <- (map_length (@Some nat)).
  change (S (length (map (@Some nat) (seq a n)))) with (length (None :: map (@Some nat) (seq a n))).
  apply NoDup_incl_length.
  - constructor; [| apply NoDup_map_Some_seq]. intros Hx. apply in_map_iff in Hx.
    destruct Hx as [q [Hq _]]. discriminate.
  - intros x [<- | Hx].
    + rewrite <- Hm0. eapply owners_in; eauto.
    + apply in_map_iff in Hx. destruct Hx as [q [<- Hq]]. apply in_seq in Hq.
      destruct (H q Hq) as [i [t [Hi [Hm Hp]]]]. rewrite <- Hm. eapply owners_in; eauto.
Qed.
(* ================================================================== the invariant *)
(* the part of the state the invariant talks about *)
Record glob := { k_mx : option nat; k_rs : list (option bool); k_hd : nat; k_tl : nat;
                 k_sl : list (option nat); k_av : nat }.
Definition globs (s : plstate) : glob :=
  {| k_mx := mutex s; k_rs := map b_res (qlog s); k_hd := qhead s; k_tl := qtail s;
     k_sl := slotv s; k_av := avail s |}.
Definition kL (g : glob) : nat := length (k_rs g).

(* per-thread invariant, by program counter (a failed commit is an ordinary owner of a stored batch) *)
Definition pcinv (N : nat) (g : glob) (i : nat) (t : thr) : Prop :=
  match t_pc t with
  | CIdle | CEntered | CStallReg _ | CStallCounted _ _ | CStallBlocked _ | CStallOk =>
      t_permit t = false /\ t_my t = None
  | CHasPermit | CWantLock => t_permit t = true /\ t_my t = None
  | CLocked | CChecked | CAlloc | COrPub | CEnqLoaded =>
      t_permit t = true /\ t_my t = None /\ k_mx g = Some i /\ kL g = k_hd g
  | CEnqStored => t_permit t = true /\ t_my t = Some (k_hd g) /\ k_mx g = Some i /\ kL g = S (k_hd g)
  | CEnqDone | CEnqueued | CWalFailed | CFailDoneLocked | CMarkedLocked => k_mx g = Some i /\ kL g = k_hd g
  | CEnqFullSeen | CEnqPanic => False
  | CApplying _ | CArenaFull | CRotated | CWokeMem | CApplied | CApplyFailed | CFailDone
  | CPubTop | CDeqNone | CPubExit | CWaitDone => True
  | CDeqLoaded h tl => tl < h /\ h <= kL g /\ tl <= k_tl g
  | CDeqSlot h tl p | CDeqChecked h tl p => tl < h /\ h <= kL g /\ tl <= k_tl g /\ (k_tl g = tl -> p = tl)
  | CDeqWon tl p => p = tl /\ tl < k_tl g /\ nth_error (k_sl g) (tl mod N) = Some (Some tl)
  | CDeqOwned p | CVisTop p | CVisLoaded p _ | CVisDone p | CPubHold p => p < k_tl g
  | CReturned r => t_permit t = false /\ r <> ResPanic
  end.
Definition tinv (N : nat) (g : glob) (i : nat) (t : thr) : Prop := pcinv N g i t.

Record InvK (N P : nat) (g : glob) (ts : list thr) : Prop := {
  I_perm : k_av g + cnt ts = P;
  I_tail : k_tl g <= k_hd g;
  I_len  : k_hd g <= kL g;
  I_mtx  : k_mx g = None -> kL g = k_hd g;
  I_thr  : forall i t, nth_error ts i = Some t -> tinv N g i t;
  I_own  : forall q, k_tl g <= q < kL g ->
             exists i t, nth_error ts i = Some t /\ t_my t = Some q /\ t_permit t = true;
  I_res  : forall q r, k_tl g <= q -> nth_error (k_rs g) q = Some r -> r = None;
  I_ring : forall q, k_tl g <= q < kL g -> nth_error (k_sl g) (q mod N) = Some (Some q);
  I_won  : forall i j ti tj a p a' p', nth_error ts i = Some ti -> nth_error ts j = Some tj ->
             t_pc ti = CDeqWon a p -> t_pc tj = CDeqWon a' p' -> i <> j -> a <> a';
}.
Definition Inv (c : cfg) (s : plstate) : Prop := InvK (c_slots c) (c_permits c) (globs s) (thrs s).

(* what the invariant gives *)
Lemma invk_bound N P g ts : InvK N P g ts -> kL g - k_tl g <= P.
Proof.
  intros H. pose proof (I_perm _ _ _ _ H) as Hp.
  assert (kL g - k_tl g <= cnt ts); [| lia].
  apply (owners_bound ts (k_tl g)). intros q Hq. apply (I_own _ _ _ _ H). lia.
Qed.

Lemma invk_bound_strict N P g ts i t :
  InvK N P g ts -> nth_error ts i = Some t -> t_my t = None -> t_permit t = true -> S (kL g - k_tl g) <= P.
Proof.
  intros H Hi Hm Hpm. pose proof (I_perm _ _ _ _ H) as Hp.
  assert (S (kL g - k_tl g) <= cnt ts); [| lia].
  apply (owners_bound_strict ts (k_tl g) _ i t); auto. intros q Hq. apply (I_own _ _ _ _ H). lia.
Qed.

(* the generic preservation lemma: thread i moves from t to t', the globals from g to g' *)
Lemma invk_step N P g g' ts i t t' :
  InvK N P g ts -> nth_error ts i = Some t ->
  k_av g' + b2n (t_permit t') = k_av g + b2n (t_permit t) ->
  k_tl g' <= k_hd g' -> k_hd g' <= kL g' ->
  (k_mx g' = None -> kL g' = k_hd g') ->
  tinv N g' i t' ->
  (forall j tj, j <> i -> nth_error ts j = Some tj -> tinv N g j tj -> tinv N g' j tj) ->
  (forall q, k_tl g' <= q < kL g' ->
     (k_tl g <= q < kL g /\ (t_my t = Some q -> t_permit t = true -> t_my t' = Some q /\ t_permit t' = true))
     \/ (t_my t' = Some q /\ t_permit t' = true)) ->
  (forall q r, k_tl g' <= q -> nth_error (k_rs g') q = Some r -> r = None) ->
  (forall q, k_tl g' <= q < kL g' -> nth_error (k_sl g') (q mod N) = Some (Some q)) ->
  (forall a p j tj a' p', t_pc t' = CDeqWon a p -> j <> i -> nth_error ts j = Some tj ->
     t_pc tj = CDeqWon a' p' -> a <> a') ->
  InvK N P g' (set_nth i t' ts).
Proof.
  intros H Hi Hav Htl Hlen Hmx Hti Hfr Hown Hres Hring Hwon.
  pose proof (nth_error_lt _ _ _ Hi) as Hlt.
  constructor; auto.
  - pose proof (I_perm _ _ _ _ H). pose proof (cnt_set_nth ts i t t' Hi). lia.
  - intros j tj Hj. destruct (Nat.eq_dec j i) as [-> | Hne].
    + rewrite nth_error_set_nth_eq in Hj by assumption. inversion Hj; subst. assumption.
    + rewrite nth_error_set_nth_neq in Hj by auto. apply Hfr; auto. apply (I_thr _ _ _ _ H); auto.
  - intros q Hq. destruct (Hown q Hq) as [[Hq0 Hkeep] | [Hm Hp]].
    + destruct (I_own _ _ _ _ H q Hq0) as [j [tj [Hj [Hm Hp]]]].
      destruct (Nat.eq_dec j i) as [-> | Hne].
      * rewrite Hi in Hj. inversion Hj; subst tj. destruct (Hkeep Hm Hp) as [Hm' Hp'].
        exists i, t'. rewrite nth_error_set_nth_eq by assumption. auto.
      * exists j, tj. rewrite nth_error_set_nth_neq by auto. auto.
    + exists i, t'. rewrite nth_error_set_nth_eq by assumption. auto.
  - intros j1 j2 t1 t2 a p a' p' H1 H2 Hp1 Hp2 Hne.
    destruct (Nat.eq_dec j1 i) as [-> | Hn1]; destruct (Nat.eq_dec j2 i) as [-> | Hn2]; try congruence.
    + rewrite nth_error_set_nth_eq in H1 by assumption. inversion H1; subst t1.
      rewrite nth_error_set_nth_neq in H2 by auto. eapply Hwon; eauto.
    + rewrite nth_error_set_nth_eq in H2 by assumption. inversion H2; subst t2.
      rewrite nth_error_set_nth_neq in H1 by auto. intros E. symmetry in E. revert E. eapply Hwon; eauto.
    + rewrite nth_error_set_nth_neq in H1 by auto. rewrite nth_error_set_nth_neq in H2 by auto.
      exact (I_won _ _ _ _ H j1 j2 t1 t2 a p a' p' H1 H2 Hp1 Hp2 Hne).
Qed.

(* thread i moves, the globals stay: the thread keeps batch and permit *)
Lemma invk_pure N P g ts i t t' :
  InvK N P g ts -> nth_error ts i = Some t ->
  t_my t' = t_my t -> t_permit t' = t_permit t -> tinv N g i t' ->
  (forall a p, t_pc t' = CDeqWon a p -> t_pc t = CDeqWon a p) ->
  InvK N P g (set_nth i t' ts).
Proof.
  intros H Hi Hm Hp Hti Hw.
  apply (invk_step N P g g ts i t t'); auto; try apply H.
  - rewrite Hp. reflexivity.
  - intros q Hq. left. split; auto. rewrite Hm, Hp. auto.
  - intros a p j tj a' p' Hpc Hne Hj Hpj. apply Hw in Hpc. intros E.
    eapply (I_won _ _ _ _ H i j); eauto.
Qed.

(* the other threads: their invariant survives a change of the globals that leaves the mutex holder's
   view alone, lets tail and log grow, and keeps the slots of pending clears *)
Lemma tinv_frame N g g' j tj :
  tinv N g j tj ->
  (k_mx g = Some j -> k_mx g' = Some j /\ kL g' = kL g /\ k_hd g' = k_hd g) ->
  kL g <= kL g' -> k_tl g <= k_tl g' ->
  (forall a p, t_pc tj = CDeqWon a p -> nth_error (k_sl g) (a mod N) = Some (Some a) ->
               nth_error (k_sl g') (a mod N) = Some (Some a)) ->
  tinv N g' j tj.
Proof.
  unfold tinv, pcinv. intros Hp Hmx HL Htl Hsl.
  destruct (t_pc tj) eqn:Hpc; auto;
    repeat match goal with H : _ /\ _ |- _ => destruct H end;
    try match goal with Hm : k_mx g = Some j |- _ => destruct (Hmx Hm) as (? & ? & ?) end;
    repeat split; auto; try lia; try congruence;
    try (intros; match goal with Himp : _ -> ?p = _ |- ?p = _ => apply Himp; lia end);
    try (eapply Hsl; eauto).
Qed.

Lemma globs_put_b s p b b' :
  get_b s p = Some b -> b_res b' = b_res b -> globs (put_b s p b') = globs s.
Proof.
  unfold get_b, globs, put_b. intros H E. simpl. f_equal.
  rewrite map_set_nth, E. apply set_nth_same. apply map_nth_error. exact H.
Qed.

Lemma inv_put c s s1 i t' :
  thrs s1 = thrs s -> InvK (c_slots c) (c_permits c) (globs s1) (set_nth i t' (thrs s)) ->
  Inv c (put_thr s1 i t').
Proof. intros E H. unfold Inv, put_thr. simpl. rewrite E. exact H. Qed.

Definition pres (c : cfg) (l : label) : Prop :=
  forall s i t s', c_permits c < c_slots c -> Inv c s -> nth_error (thrs s) i = Some t ->
    step_commit c s i t l = Some s' -> Inv c s'.

Local Ltac crack :=
  repeat match goal with
  | |- match ?x with _ => _ end = Some _ -> _ => destruct x eqn:?; try (intro; discriminate)
  | |- None = Some _ -> _ => intro; discriminate
  end.

Local Ltac norm_hyps :=
  repeat match goal with
  | H : _ && _ = true |- _ => apply andb_prop in H; destruct H
  | H : (_ =? _) = true |- _ => apply Nat.eqb_eq in H
  | H : (_ <? _) = true |- _ => apply Nat.ltb_lt in H
  | H : (_ <=? _) = true |- _ => apply Nat.leb_le in H
  | H : (_ =? _) = false |- _ => apply Nat.eqb_neq in H
  end.

Local Ltac start_case :=
  unfold guard; crack;
  let H := fresh "Hs'" in intro H; injection H as <-; norm_hyps.

Lemma my_batch_some s t p b : my_batch s t = Some (p, b) -> t_my t = Some p /\ get_b s p = Some b.
Proof.
  unfold my_batch. destruct (t_my t) as [q|]; [| discriminate]. destruct (get_b s q) eqn:E; [| discriminate].
  intros [= <- <-]. auto.
Qed.

Local Ltac split_ifs := repeat match goal with |- context [if ?b then _ else _] => destruct b eqn:? end.
Local Ltac my_batch_hyps :=
  repeat match goal with H : my_batch _ _ = Some (_, _) |- _ => apply my_batch_some in H; destruct H end.
Local Ltac tinv_goal :=
  match goal with Ht : tinv _ _ _ _, Hpc : t_pc _ = _ |- _ =>
    unfold tinv, pcinv, kL in *; rewrite Hpc in Ht; simpl in *; rewrite ?Hpc; norm_hyps;
    intuition (try lia; try congruence; auto)
  end.
Local Ltac fin_pure Hinv Hi s t :=
  apply (inv_put _ s); [reflexivity |];
  try (erewrite globs_put_b; [| eassumption | reflexivity]);
  apply invk_pure with (t := t);
  [exact Hinv | exact Hi | reflexivity | reflexivity | tinv_goal | simpl; intros; congruence].

Local Ltac inv_facts Hinv :=
  pose proof (I_perm _ _ _ _ Hinv) as Fperm; pose proof (I_tail _ _ _ _ Hinv) as Ftail;
  pose proof (I_len _ _ _ _ Hinv) as Flen; pose proof (I_mtx _ _ _ _ Hinv) as Fmtx;
  pose proof (I_own _ _ _ _ Hinv) as Fown; pose proof (I_res _ _ _ _ Hinv) as Fres;
  pose proof (I_ring _ _ _ _ Hinv) as Fring; pose proof (I_won _ _ _ _ Hinv) as Fwon.

(* opening of a special case: thread i of s moves to t', the globals become those of s1 *)
Local Ltac open_case Hinv Hi s t :=
  pose proof (I_thr _ _ _ _ Hinv _ _ Hi) as Ht;
  apply (inv_put _ s); [reflexivity |];
  apply invk_step with (g := globs s) (t := t); [exact Hinv | exact Hi | .. ];
  inv_facts Hinv;
  match goal with Hpc : t_pc t = _ |- _ =>
    unfold tinv, pcinv, kL in Ht; rewrite Hpc in Ht; simpl in Ht end;
  unfold kL in *; simpl in *.

Local Ltac frame_tac :=
  let j := fresh "j" in let tj := fresh "tj" in let Hne := fresh "Hne" in
  let Hj := fresh "Hj" in let Htj := fresh "Htj" in
  intros j tj Hne Hj Htj; eapply tinv_frame; [exact Htj | unfold kL; simpl .. ].

(* after open_case the goals are, in this order:
   permits, tail<=head, head<=len, mutex-free => len=head, invariant of the moving thread,
   frame for the others, owners, results, ring, uniqueness of pending clears *)
Lemma pres_sem c s i t n :
  Inv c s -> nth_error (thrs s) i = Some t -> t_pc t = CStallOk -> avail s = S n ->
  Inv c (put_thr (st_avail s n) i (with_permit (with_pc t CHasPermit) true)).
Proof.
  intros Hinv Hi Hpc Hav. open_case Hinv Hi s t.
  - destruct Ht as [-> _]. simpl. lia.
  - assumption.
  - assumption.
  - assumption.
  - unfold tinv, pcinv; simpl. tauto.
  - frame_tac; auto.
  - intros q Hq. left. auto.
  - assumption.
  - assumption.
  - discriminate.
Qed.

Lemma pres_locked c s i t :
  Inv c s -> nth_error (thrs s) i = Some t -> t_pc t = CWantLock -> mutex s = None ->
  Inv c (put_thr (st_mutex s (Some i)) i (with_pc t CLocked)).
Proof.
  intros Hinv Hi Hpc Hmx. open_case Hinv Hi s t.
  - reflexivity.
  - assumption.
  - assumption.
  - discriminate.
  - unfold tinv, pcinv, kL; simpl. intuition.
  - frame_tac; auto. congruence.
  - intros q Hq. left. auto.
  - assumption.
  - assumption.
  - discriminate.
Qed.

Lemma pres_enqdone c s i t :
  Inv c s -> nth_error (thrs s) i = Some t -> t_pc t = CEnqStored ->
  Inv c (put_thr (st_head s (S (qhead s))) i (with_pc t CEnqDone)).
Proof.
  intros Hinv Hi Hpc. open_case Hinv Hi s t.
  - reflexivity.
  - lia.
  - lia.
  - intros E. destruct Ht as (_ & _ & Hm & _). congruence.
  - unfold tinv, pcinv, kL; simpl. intuition.
  - frame_tac; auto. destruct Ht as (_ & _ & Hm & _). intros E. rewrite E in Hm. congruence.
  - intros q Hq. left. auto.
  - assumption.
  - assumption.
  - discriminate.
Qed.

Lemma pres_unlocked c s i t :
  Inv c s -> nth_error (thrs s) i = Some t -> t_pc t = CEnqueued ->
  Inv c (put_thr (st_mutex s None) i (with_i (with_pc t (CApplying false)) 0)).
Proof.
  intros Hinv Hi Hpc. open_case Hinv Hi s t.
  - reflexivity.
  - assumption.
  - assumption.
  - intros _. tauto.
  - unfold tinv, pcinv, kL; simpl. intuition.
  - frame_tac; auto. destruct Ht as (Hm & _). intros E. rewrite E in Hm. congruence.
  - intros q Hq. left. auto.
  - assumption.
  - assumption.
  - discriminate.
Qed.

Lemma pres_unlocked_failed c s i t :
  Inv c s -> nth_error (thrs s) i = Some t -> t_pc t = CMarkedLocked ->
  Inv c (put_thr (st_mutex s None) i (with_pc t CPubTop)).
Proof.
  intros Hinv Hi Hpc. open_case Hinv Hi s t.
  - reflexivity.
  - assumption.
  - assumption.
  - intros _. tauto.
  - unfold tinv, pcinv, kL; simpl. intuition.
  - frame_tac; auto. destruct Ht as (Hm & _). intros E. rewrite E in Hm. congruence.
  - intros q Hq. left. auto.
  - assumption.
  - assumption.
  - discriminate.
Qed.

(* enqueue never finds the queue full: the caller holds a permit and has no batch queued yet *)
Lemma no_full c s i t :
  c_permits c < c_slots c -> Inv c s -> nth_error (thrs s) i = Some t -> t_pc t = COrPub ->
  qtail s + c_slots c <> qhead s.
Proof.
  intros HPN Hinv Hi Hpc. pose proof (I_thr _ _ _ _ Hinv _ _ Hi) as Ht.
  unfold tinv, pcinv in Ht. rewrite Hpc in Ht. destruct Ht as (Hp & Hm & _ & HL).
  pose proof (invk_bound_strict _ _ _ _ i t Hinv Hi Hm Hp) as Hb.
  pose proof (I_tail _ _ _ _ Hinv) as Htl. simpl in *. lia.
Qed.

Lemma pres_enqstored c s i t b :
  Inv c s -> nth_error (thrs s) i = Some t -> t_pc t = CEnqLoaded ->
  get_slot c s (qhead s) = Some None -> b_res b = None ->
  Inv c (put_thr (put_slot c (st_qlog s (qlog s ++ [b])) (qhead s) (Some (qhead s))) i
                 (with_my (with_pc t CEnqStored) (Some (qhead s)))).
Proof.
  intros Hinv Hi Hpc Hslot Hb. unfold get_slot, slot_ix in Hslot.
  open_case Hinv Hi s t; unfold slot_ix in *; rewrite ?map_app, ?app_length in *; simpl in *;
    destruct Ht as (Hp & Hm & Hmx & HL).
  - reflexivity.
  - assumption.
  - lia.
  - congruence.
  - unfold tinv, pcinv, kL; simpl. rewrite map_app, app_length. simpl. intuition lia.
  - frame_tac.
    + intros E. congruence.
    + rewrite map_app, app_length. simpl. lia.
    + lia.
    + intros a p _ Ha. eapply nth_error_set_nth_other; eauto. discriminate.
  - intros q Hq. destruct (Nat.eq_dec q (qhead s)) as [-> | Hne].
    + right. auto.
    + left. split; [lia |]. congruence.
  - intros q r Hq Hr. apply nth_error_app_last in Hr.
    destruct Hr as [[_ Hr] | [_ ->]]; [| assumption]. apply (Fres q); assumption.
  - intros q Hq. destruct (Nat.eq_dec q (qhead s)) as [-> | Hne].
    + apply nth_error_set_nth_eq. eapply nth_error_lt; eauto.
    + eapply nth_error_set_nth_other; eauto; [| discriminate]. apply Fring. lia.
  - discriminate.
Qed.

Lemma pres_deqslot c s i t h t0 p :
  Inv c s -> nth_error (thrs s) i = Some t -> t_pc t = CDeqLoaded h t0 ->
  get_slot c s t0 = Some (Some p) ->
  Inv c (put_thr s i (with_pc t (CDeqSlot h t0 p))).
Proof.
  intros Hinv Hi Hpc Hslot. pose proof (I_thr _ _ _ _ Hinv _ _ Hi) as Ht.
  pose proof (I_ring _ _ _ _ Hinv) as Fring.
  apply (inv_put _ s); [reflexivity |].
  apply invk_pure with (t := t); [exact Hinv | exact Hi | reflexivity | reflexivity | | simpl; intros; congruence].
  unfold tinv, pcinv, kL, get_slot, slot_ix in *. rewrite Hpc in Ht. simpl in *.
  destruct Ht as (H1 & H2 & H3). repeat split; auto.
  intros E. specialize (Fring t0). rewrite Fring in Hslot by lia. congruence.
Qed.

Lemma pres_deqcas c s i t p :
  Inv c s -> nth_error (thrs s) i = Some t -> t_pc t = CDeqChecked (qhead s) (qtail s) p ->
  Inv c (put_thr (st_tail s (S (qtail s))) i (with_pc t (CDeqWon (qtail s) p))).
Proof.
  intros Hinv Hi Hpc. pose proof (I_thr _ _ _ _ Hinv) as Fthr. open_case Hinv Hi s t.
  destruct Ht as (H1 & H2 & H3 & H4). specialize (H4 eq_refl). subst p.
  - reflexivity.
  - lia.
  - assumption.
  - assumption.
  - unfold tinv, pcinv, kL; simpl. destruct Ht as (H1 & H2 & H3 & H4). repeat split; auto.
    apply Fring. lia.
  - frame_tac; auto.
  - intros q Hq. left. split; [lia | auto].
  - intros q r Hq. apply Fres. lia.
  - intros q Hq. apply Fring. lia.
  - intros a p0 j tj a' p' [= <- <-] Hne Hj Hpj. specialize (Fthr _ _ Hj).
    unfold tinv, pcinv in Fthr. rewrite Hpj in Fthr. simpl in Fthr. lia.
Qed.

Lemma pres_deqcleared c s i t t0 p :
  Inv c s -> nth_error (thrs s) i = Some t -> t_pc t = CDeqWon t0 p ->
  Inv c (put_thr (put_slot c s t0 None) i (with_pc t (CDeqOwned p))).
Proof.
  intros Hinv Hi Hpc. open_case Hinv Hi s t; unfold slot_ix; destruct Ht as (-> & H2 & H3).
  - reflexivity.
  - assumption.
  - assumption.
  - assumption.
  - unfold tinv, pcinv, kL; simpl. auto.
  - frame_tac; auto. intros a p Hpj Ha. eapply nth_error_set_nth_other; eauto.
    intros [= E]. revert E. eapply (Fwon i j); eauto.
  - intros q Hq. left. auto.
  - assumption.
  - intros q Hq. eapply nth_error_set_nth_other; eauto. intros [= E]. lia.
  - discriminate.
Qed.

(* a result is delivered to a batch that has left the queue *)
Lemma invk_res_below N P g g' ts p r :
  InvK N P g ts -> p < k_tl g ->
  k_mx g' = k_mx g -> k_rs g' = set_nth p r (k_rs g) -> k_hd g' = k_hd g -> k_tl g' = k_tl g ->
  k_sl g' = k_sl g -> k_av g' = k_av g ->
  InvK N P g' ts.
Proof.
  intros H Hp E1 E2 E3 E4 E5 E6.
  assert (EL : kL g' = kL g) by (unfold kL; rewrite E2; apply length_set_nth).
  destruct H. constructor; rewrite ?EL, ?E1, ?E3, ?E4, ?E5, ?E6; auto.
  - intros i t Hi. eapply tinv_frame; [apply I_thr0; eauto | rewrite ?EL, ?E1, ?E3, ?E4, ?E5 ..]; auto.
  - intros q r0 Hq Hr. rewrite E2, nth_error_set_nth_neq in Hr by lia. eauto.
Qed.

Lemma pres_pubcompleted c s i t p b x :
  Inv c s -> nth_error (thrs s) i = Some t -> t_pc t = CVisDone p ->
  Inv c (put_thr (put_b s p (complete b x)) i (with_pc t (CPubHold p))).
Proof.
  intros Hinv Hi Hpc. pose proof (I_thr _ _ _ _ Hinv _ _ Hi) as Ht.
  unfold tinv, pcinv in Ht. rewrite Hpc in Ht.
  apply (inv_put _ s); [reflexivity |].
  apply invk_pure with (t := t); [ | exact Hi | reflexivity | reflexivity | | simpl; intros; congruence].
  - apply (invk_res_below _ _ (globs s) _ _ p (b_res (complete b x))); auto.
    simpl. apply map_set_nth.
  - unfold tinv, pcinv; simpl. auto.
Qed.

(* commit() returns: the thread owns no queued batch any more *)
Lemma invk_return N P g g' ts i t r :
  InvK N P g ts -> nth_error ts i = Some t ->
  k_av g' = k_av g + b2n (t_permit t) -> k_rs g' = k_rs g -> k_hd g' = k_hd g -> k_tl g' = k_tl g ->
  k_sl g' = k_sl g ->
  (k_mx g' = k_mx g \/ (k_mx g' = None /\ k_mx g = Some i /\ kL g = k_hd g)) ->
  (forall q, t_my t = Some q -> q < k_tl g) -> r <> ResPanic ->
  InvK N P g' (set_nth i (with_permit (with_pc t (CReturned r)) false) ts).
Proof.
  intros H Hi Eav Ers Ehd Etl Esl Hmx Hmy Hr.
  assert (EL : kL g' = kL g) by (unfold kL; rewrite Ers; reflexivity).
  apply invk_step with (g := g) (t := t); auto; rewrite ?EL, ?Ers, ?Ehd, ?Etl, ?Esl; try apply H.
  - simpl. lia.
  - destruct Hmx as [-> | (-> & _ & E)]; [apply H | auto].
  - unfold tinv, pcinv; simpl. auto.
  - intros j tj Hne Hj Htj. eapply tinv_frame; [exact Htj | rewrite ?EL, ?Ehd, ?Etl, ?Esl ..]; auto.
    destruct Hmx as [-> | (_ & E & _)]; [auto | congruence].
  - intros q Hq. left. split; [assumption |]. intros Hm. apply Hmy in Hm. lia.
  - discriminate.
Qed.

Lemma pres_return c s s0 i t r :
  Inv c s -> nth_error (thrs s) i = Some t ->
  thrs s0 = thrs s -> qlog s0 = qlog s -> qhead s0 = qhead s -> qtail s0 = qtail s ->
  slotv s0 = slotv s -> avail s0 = avail s ->
  (mutex s0 = mutex s \/ (mutex s0 = None /\ mutex s = Some i /\ length (qlog s) = qhead s)) ->
  (forall q, t_my t = Some q -> q < qtail s) -> r <> ResPanic ->
  Inv c (do_return s0 i t r).
Proof.
  intros Hinv Hi E1 E2 E3 E4 E5 E6 Hmx Hmy Hr. unfold do_return.
  set (s1 := if t_permit t then st_avail s0 (S (avail s0)) else s0).
  assert (G1 : globs s1 = {| k_mx := mutex s0; k_rs := map b_res (qlog s); k_hd := qhead s; k_tl := qtail s;
                             k_sl := slotv s; k_av := avail s + b2n (t_permit t) |}).
  { unfold s1, globs. destruct (t_permit t); simpl; rewrite E2, E3, E4, E5, E6; f_equal; lia. }
  assert (T1 : thrs s1 = thrs s) by (unfold s1; destruct (t_permit t); simpl; assumption).
  set (s2 := match my_batch s1 t with Some (p, b) => put_b s1 p (drop_oref b) | None => s1 end).
  assert (G2 : globs s2 = globs s1).
  { unfold s2. destruct (my_batch s1 t) as [[p b] |] eqn:Hmb; [| reflexivity].
    apply my_batch_some in Hmb. destruct Hmb as [_ Hb]. eapply globs_put_b; eauto. }
  assert (T2 : thrs s2 = thrs s).
  { unfold s2. destruct (my_batch s1 t) as [[p b] |]; simpl; assumption. }
  apply (inv_put _ s); [exact T2 |]. rewrite G2, G1.
  apply invk_return with (g := globs s); auto.
  simpl. unfold kL. simpl. rewrite map_length. destruct Hmx as [-> | (-> & -> & ->)]; auto.
Qed.

Lemma completed_left_queue c s t p b x :
  Inv c s -> t_my t = Some p -> get_b s p = Some b -> b_res b = Some x ->
  forall q, t_my t = Some q -> q < qtail s.
Proof.
  intros Hinv Hm Hb Hr q Hq. rewrite Hm in Hq. injection Hq as <-.
  destruct (Nat.lt_ge_cases p (qtail s)) as [|Hge]; [assumption | exfalso].
  pose proof (I_res _ _ _ _ Hinv p (b_res b) Hge) as F. simpl in F.
  rewrite F in Hr; [discriminate |]. apply map_nth_error. exact Hb.
Qed.

Local Ltac ht_false Ht Hpc := exfalso; unfold tinv, pcinv in Ht; rewrite Hpc in Ht; tauto.
Local Ltac ht_open Ht Hpc := unfold tinv, pcinv, kL in Ht; rewrite Hpc in Ht; simpl in Ht.

Theorem step_commit_inv c l : pres c l.
Proof.
  intros s i t s' HPN Hinv Hi.
  pose proof (I_thr _ _ _ _ Hinv i t Hi) as Ht.
  pose proof (I_tail _ _ _ _ Hinv) as Htail.
  pose proof (I_len _ _ _ _ Hinv) as Hlen.
  unfold step_commit.
  destruct l; cbv beta iota zeta;
    destruct (t_pc t) eqn:Hpc; try (intro; discriminate).
  all: start_case.
  all: try assumption.
  all: try solve [ht_false Ht Hpc].
  all: my_batch_hyps; split_ifs.
  all: try solve [fin_pure Hinv Hi s t].
  all: subst.
  all: try solve [eapply pres_sem; eauto | eapply pres_locked; eauto | eapply pres_enqstored; eauto
                 | eapply pres_enqdone; eauto | eapply pres_unlocked; eauto | eapply pres_unlocked_failed; eauto | eapply pres_deqslot; eauto
                 | eapply pres_deqcas; eauto | eapply pres_deqcleared; eauto | eapply pres_pubcompleted; eauto ].
  all: try solve [exfalso; norm_hyps; eapply no_full; eauto].
  all: try solve [eapply pres_return; eauto; try discriminate; ht_open Ht Hpc; intuition congruence].
  - eapply pres_return; eauto; [| | discriminate].
    + right. ht_open Ht Hpc. rewrite map_length in Ht. simpl. tauto.
    + ht_open Ht Hpc. intros q Hq. destruct Ht as (_ & Hm & _). congruence.
  - eapply pres_return; eauto; [| discriminate]. eapply completed_left_queue; eauto.
  - eapply pres_return; eauto; [| discriminate]. eapply completed_left_queue; eauto.
Qed.

(* the other actors do not touch the part of the state the invariant talks about *)
Definition same_core (s s' : plstate) : Prop := thrs s' = thrs s /\ globs s' = globs s.

Lemma inv_same c s s' : same_core s s' -> Inv c s -> Inv c s'.
Proof. unfold Inv. intros [-> ->] H. exact H. Qed.

Local Ltac same_case :=
  unfold guard; crack;
  let H := fresh "Hs'" in intro H; injection H as <-; split; reflexivity.

Lemma step_reader_same s i r l s' : step_reader s i r l = Some s' -> same_core s s'.
Proof. unfold step_reader. destruct l; try discriminate; destruct r; try discriminate; same_case. Qed.

Lemma step_flush_same s l s' : step_flush s l = Some s' -> same_core s s'.
Proof.
  unfold step_flush. cbv zeta. destruct l; try discriminate;
    destruct (g_fpc (bg s)) eqn:Hf; try discriminate; same_case.
Qed.

Lemma step_level_same s l s' : step_level s l = Some s' -> same_core s s'.
Proof.
  unfold step_level. cbv zeta. destruct l; try discriminate;
    destruct (g_lpc (bg s)) eqn:Hf; try discriminate; same_case.
Qed.

Lemma step_closer_same s l s' : step_closer s l = Some s' -> same_core s s'.
Proof.
  unfold step_closer. cbv zeta. destruct l; try discriminate;
    destruct (g_xpc (bg s)) eqn:Hf; try discriminate; same_case.
Qed.

Lemma pstep_inv c s a l s' :
  c_permits c < c_slots c -> Inv c s -> pstep c s a l = Some s' -> Inv c s'.
Proof.
  intros HPN Hinv. unfold pstep. destruct a as [i | i | | | |].
  - unfold get_thr. destruct (nth_error (thrs s) i) as [t |] eqn:Hi; [| discriminate].
    intros H. exact (step_commit_inv c l s i t s' HPN Hinv Hi H).
  - destruct (nth_error (rdrs s) i) as [r |]; [| discriminate].
    intros H. eapply inv_same; [eapply step_reader_same; eauto | assumption].
  - intros H. eapply inv_same; [eapply step_flush_same; eauto | assumption].
  - intros H. eapply inv_same; [eapply step_level_same; eauto | assumption].
  - intros H. eapply inv_same; [eapply step_closer_same; eauto | assumption].
  - destruct l; try discriminate. unfold guard. destruct (negb (g_lrunning (bg s))); [| discriminate].
    intros [= <-]. exact Hinv.
Qed.

Lemma inv_init c n m v : Inv c (pinit c n m v).
Proof.
  unfold Inv, pinit. simpl.
  assert (Hc : cnt (repeat thr0 n) = 0).
  { unfold cnt. induction n; simpl; auto. }
  constructor; unfold kL; simpl; auto; try lia.
  - intros i t Hi. apply nth_error_repeat in Hi. subst t. unfold tinv, pcinv. simpl. auto.
  - intros q r _ Hr. destruct q; discriminate.
  - intros i j ti tj a p a' p' Hi _ Hp. apply nth_error_repeat in Hi. subst ti. discriminate.
Qed.

Lemma prun_inv c evs : c_permits c < c_slots c ->
  forall s s', Inv c s -> prun c s evs = Some s' -> Inv c s'.
Proof.
  intros HPN. induction evs as [| [a l] evs IH]; intros s s' Hinv Hrun; simpl in Hrun.
  - injection Hrun as <-. exact Hinv.
  - destruct (pstep c s a l) as [s1 |] eqn:Hstep; [| discriminate].
    apply (IH s1 s'); auto. eapply pstep_inv; eauto.
Qed.

(* ================================================================== 3. N1: no overflow, failures included *)
Theorem no_overflow : no_overflow_stmt.
Proof.
  intros c n m v s HPN [evs Hrun].
  assert (Hinv : Inv c s) by (eapply prun_inv; eauto; apply inv_init).
  split.
  - pose proof (invk_bound _ _ _ _ Hinv) as Hb. pose proof (I_len _ _ _ _ Hinv) as Hl.
    unfold kL in *. simpl in *. lia.
  - intros i t Hi. pose proof (I_thr _ _ _ _ Hinv _ _ Hi) as Ht.
    unfold tinv, pcinv in Ht. repeat split; intros Hpc; rewrite Hpc in Ht; tauto.
Qed.
