(* Conc/PipelineLiveCore5.v — the invariant along core runs; deadlock freedom of the pipeline alone *)
From Coq Require Import List Arith Bool Lia.
From SKV Require Import Conc.Pipeline Conc.PipelineExplore Conc.PipelineSpec Conc.PipelineLiveCore
  Conc.PipelineLiveCore2 Conc.PipelineLiveCore3 Conc.PipelineLiveCore4.
Import ListNotations.

(* ------------------------------------------------------------------ one step of any actor *)
Lemma inv_commit_step : forall c s i t l s', Inv c s -> thr_at s i t -> ok_label l ->
  step_commit c s i t l = Some s' -> Inv c s'.
Proof.
  intros c s i t l s' HI Ht Hok H. constructor.
  - exact (i_cfg c s HI).
  - eapply bg_step; eauto.
  - eapply slots_step; eauto.
  - eapply ht_step; eauto.
  - eapply T_step; eauto.
  - eapply mx_step; eauto.
  - eapply ls_step; eauto.
  - eapply pm_step; eauto.
  - eapply r1_step; eauto.
  - eapply r2_step; eauto.
  - eapply r3_step; eauto.
  - eapply r4_step; eauto.
  - eapply qf_step; eauto.
  - eapply qref_step; eauto.
  - eapply res_step; eauto.
  - eapply own_step; eauto.
  - eapply deq_step; eauto.
  - eapply help_step; eauto.
Qed.

(* a step that only touches the readers, the background state or the uaf flag *)
Lemma inv_frame : forall c s s', Inv c s ->
  thrs s' = thrs s -> qlog s' = qlog s -> qhead s' = qhead s -> qtail s' = qtail s -> slotv s' = slotv s ->
  avail s' = avail s -> mutex s' = mutex s -> bg_core (bg s') -> Inv c s'.
Proof.
  intros c s s' HI H1 H2 H3 H4 H5 H6 H7 Hbg.
  assert (Hg : gle s s') by (unfold gle; rewrite H2, H3, H4; lia).
  destruct HI. constructor; unfold thr_at in *; rewrite ?H1, ?H2, ?H3, ?H4, ?H5, ?H6, ?H7; auto.
  intros j tj Hj. eapply tinv_stable; eauto.
Qed.

Lemma inv_other_step : forall c s a l s', Inv c s -> (forall i, a <> ACommit i) -> ok_label l ->
  pstep c s a l = Some s' -> Inv c s'.
Proof.
  intros c s a l s' HI Ha [Hok1 [Hok2 Hok3]] H.
  pose proof (i_bg c s HI) as Hbg. destruct Hbg as [B1 [B2 [B3 [B4 [B5 [B6 [B7 [B8 [B9 B10]]]]]]]]].
  destruct a as [i|i| | | | ]; [exfalso; apply (Ha i); reflexivity| | | | | ]; unfold pstep in H.
  - (* reader *)
    destruct (nth_error (rdrs s) i) as [r|]; [|discriminate]. unfold step_reader in H.
    destruct l; destruct r; try discriminate H; inv_guard H; try (injection H as <-);
      try exact HI; eapply inv_frame; eauto; exact (i_bg c s HI).
  - (* flush task *)
    unfold step_flush in H.
    destruct l; try discriminate H; destruct B9 as [B9|B9]; rewrite B9 in H; try discriminate H;
      try (destruct shutdown; discriminate H); try (rewrite B8 in H; discriminate H).
    injection H as <-. eapply inv_frame; eauto. unfold bg_core. simpl. repeat split; auto.
  - (* level task *)
    unfold step_level in H.
    destruct l; try discriminate H; try (simpl in Hok1; discriminate Hok1);
      destruct B10 as [B10|[B10|[B10|B10]]]; rewrite B10 in H; try discriminate H;
      try (destruct shutdown; discriminate H); inv_guard H; try (rewrite B6 in *; discriminate);
      injection H as <-; eapply inv_frame; eauto; unfold bg_core; simpl; repeat split; auto.
  - (* closer *)
    unfold step_closer in H. rewrite B7 in H.
    destruct l; try discriminate H; try (simpl in Hok1; discriminate Hok1);
      try (destruct shutdown; discriminate H); try (destruct r; discriminate H).
  - (* main *)
    destruct l; try discriminate H. inv_guard H. injection H as <-.
    eapply inv_frame; eauto. unfold bg_core. simpl. repeat split; auto.
Qed.

(* ------------------------------------------------------------------ the initial state *)
Lemma nth_error_repeat : forall A (x : A) n j y, nth_error (repeat x n) j = Some y -> y = x.
Proof. induction n; intros [|j] y H; simpl in H; try discriminate; [congruence|eauto]. Qed.

Lemma held_repeat0 : forall n, held (repeat thr0 n) = 0.
Proof. induction n; simpl; auto. Qed.

Lemma inv_init : forall c n m v, 0 < c_slots c -> 2 <= c_memlimit c -> 0 < c_l0limit c -> Inv c (pinit c n m v).
Proof.
  intros c n m v Hs Hm Hl. constructor; unfold thr_at; simpl; auto.
  - unfold bg_core, bg0. simpl. repeat split; auto.
  - rewrite repeat_length. auto.
  - lia.
  - intros j tj Hj. apply nth_error_repeat in Hj. subst. unfold tinv, thr0. simpl. repeat split; auto. discriminate.
  - intros j tj Hj Hl0. apply nth_error_repeat in Hj. subst. discriminate.
  - rewrite held_repeat0. lia.
  - intros k q Hk. apply nth_error_repeat in Hk. discriminate.
  - intros p Hp1 Hp2. lia.
  - intros j tj t0 p Hj Hp. apply nth_error_repeat in Hj. subst. discriminate.
  - intros j1 j2 t1 t2 t0 p1 p2 H1 H2 Hp. apply nth_error_repeat in H1. subst. discriminate.
  - intros b Hb. discriminate.
  - intros p b _ Hb. destruct p; discriminate.
  - intros p b Hb. destruct p; discriminate.
  - intros p b _ Hb. destruct p; discriminate.
  - intros p b Hp. lia.
  - intros b Hlt. lia.
Qed.

(* ------------------------------------------------------------------ along a run *)
Definition ok_run (evs : list (actor * label)) : Prop := forall a l, In (a, l) evs -> ok_label l.

Lemma inv_step : forall c s a l s', Inv c s -> ok_label l -> pstep c s a l = Some s' -> Inv c s'.
Proof.
  intros c s a l s' HI Hok H. destruct a as [i|i| | | | ].
  - unfold pstep, get_thr in H. destruct (nth_error (thrs s) i) as [t|] eqn:Ht; [|discriminate].
    eapply inv_commit_step; eauto.
  - eapply inv_other_step; eauto. discriminate.
  - eapply inv_other_step; eauto. discriminate.
  - eapply inv_other_step; eauto. discriminate.
  - eapply inv_other_step; eauto. discriminate.
  - eapply inv_other_step; eauto. discriminate.
Qed.

Lemma inv_run : forall c evs s s', Inv c s -> ok_run evs -> prun c s evs = Some s' -> Inv c s'.
Proof.
  intros c evs. induction evs as [|[a l] r IH]; intros s s' HI Hok H; simpl in H.
  - injection H as <-. exact HI.
  - destruct (pstep c s a l) as [s1|] eqn:Hs; [|discriminate].
    apply (IH s1 s'); auto.
    + eapply inv_step; eauto. apply (Hok a l). left. reflexivity.
    + intros a' l' Hin. apply (Hok a' l'). right. exact Hin.
Qed.

(* ------------------------------------------------------------------ who can move *)
Definition nonblocking (p : ppc) : bool :=
  match p with CIdle | CReturned _ | CStallOk | CWantLock | CEnqLoaded | CWaitDone => false | _ => true end.

Lemma pstep_commit : forall c s i t l, thr_at s i t -> pstep c s (ACommit i) l = step_commit c s i t l.
Proof. intros c s i t l Ht. unfold pstep, get_thr. unfold thr_at in Ht. rewrite Ht. reflexivity. Qed.

Lemma commit_progress : forall c s i t l s', thr_at s i t -> env_label (ACommit i) l = false -> stutter l = false ->
  step_commit c s i t l = Some s' -> progress_step c s.
Proof.
  intros c s i t l s' Ht He Hs H. exists (ACommit i), l, s'. repeat split; auto.
  rewrite (pstep_commit c s i t l Ht). exact H.
Qed.

Lemma slot_exists : forall c s p, Inv c s -> exists o, get_slot c s p = Some o.
Proof.
  intros c s p HI. destruct (i_slots c s HI) as [Hl Hs]. unfold get_slot, slot_ix.
  destruct (nth_error (slotv s) (p mod c_slots c)) as [o|] eqn:E; [eauto|].
  apply nth_error_None in E. pose proof (Nat.mod_upper_bound p (c_slots c) ltac:(lia)). lia.
Qed.

Lemma my_batch_exists : forall s t n, my_lt t n -> n <= length (qlog s) -> exists p b, my_batch s t = Some (p, b) /\ t_my t = Some p /\ nth_error (qlog s) p = Some b /\ p < n.
Proof.
  intros s t n Hm Hn. unfold my_lt in Hm. unfold my_batch, get_b. destruct (t_my t) as [p|]; [|contradiction].
  destruct (nth_error (qlog s) p) as [b|] eqn:E.
  - exists p, b. auto.
  - apply nth_error_None in E. lia.
Qed.

Lemma getb_exists : forall s p, p < length (qlog s) -> exists b, get_b s p = Some b.
Proof.
  intros s p Hp. unfold get_b. destruct (nth_error (qlog s) p) as [b|] eqn:E; [eauto|].
  apply nth_error_None in E. lia.
Qed.

Ltac prog Ht L := eapply (commit_progress _ _ _ _ L); [ exact Ht | reflexivity | reflexivity | ].

Lemma local_progress : forall c s i t, Inv c s -> thr_at s i t -> nonblocking (t_pc t) = true -> progress_step c s.
Proof.
  intros c s i t HI Ht Hnb.
  pose proof (i_thr c s HI i t Ht) as [Hte [Htp [Hta Htq]]].
  pose proof (i_bg c s HI) as [B1 [B2 [B3 [B4 [B5 [B6 [B7 [B8 [B9 B10]]]]]]]]].
  pose proof (i_ht c s HI) as [Hht1 [Hht2 [Hht3 Hht4]]].
  unfold active in Hta.
  destruct (t_pc t) eqn:Hpc; try discriminate Hnb; try contradiction; try specialize (Hta eq_refl).
  - (* CEntered *) prog Ht LStallRegistered. unfold step_commit. rewrite Hpc, B3, B5. reflexivity.
  - (* CStallReg *) prog Ht (LStallCounted (g_imm (bg s)) (g_l0 (bg s))). unfold step_commit. rewrite Hpc, B4, !Nat.eqb_refl. reflexivity.
  - (* CStallCounted *) destruct stalled; [contradiction|]. prog Ht LStallOk. unfold step_commit. rewrite Hpc. reflexivity.
  - (* CHasPermit *) prog Ht LWantLock. unfold step_commit. rewrite Hpc. reflexivity.
  - (* CLocked *) prog Ht LChecked. unfold step_commit. rewrite Hpc. reflexivity.
  - (* CChecked *) prog Ht (LSeqAllocated (next_seq s) (t_cnt t)). unfold step_commit. rewrite Hpc, !Nat.eqb_refl.
    assert (Hc : (0 <? t_cnt t) = true) by (apply Nat.ltb_lt; exact Hta). rewrite Hc. reflexivity.
  - (* CAlloc *) prog Ht LOraclePublished. unfold step_commit. rewrite Hpc. reflexivity.
  - (* COrPub *) prog Ht (LEnqLoaded (qhead s) (qtail s)). unfold step_commit. rewrite Hpc, !Nat.eqb_refl. reflexivity.
  - (* CEnqFullSeen *) prog Ht LEnqFull. unfold step_commit. rewrite Hpc. reflexivity.
  - (* CEnqPanic *) prog Ht (LRet ResPanic). unfold step_commit. rewrite Hpc. reflexivity.
  - (* CEnqStored *) prog Ht LEnqDone. unfold step_commit. rewrite Hpc. reflexivity.
  - (* CEnqDone *) prog Ht LEnqueued. unfold step_commit. rewrite Hpc. reflexivity.
  - (* CEnqueued *) prog Ht LUnlocked. unfold step_commit. rewrite Hpc. reflexivity.
  - (* CApplying *)
    destruct Htq as [Hmy Hi]. destruct (my_batch_exists s t _ Hmy Hht3) as [p [b [Hmb _]]].
    destruct (Nat.eq_dec (t_i t) (t_cnt t)) as [Heq|Hne].
    + prog Ht (LAfterApply false). unfold step_commit. rewrite Hpc. rewrite Heq, Nat.eqb_refl. reflexivity.
    + prog Ht (LMemInsert (t_seq t + t_i t)). unfold step_commit. rewrite Hpc, Hmb, Nat.eqb_refl.
      assert (Hc : (t_i t <? t_cnt t) = true) by (apply Nat.ltb_lt; lia). rewrite Hc. reflexivity.
  - (* CApplied *)
    destruct (my_batch_exists s t _ Htq Hht3) as [p [b [Hmb _]]].
    prog Ht LMarked. unfold step_commit. rewrite Hpc, Hmb. reflexivity.
  - (* CPubTop *) prog Ht (LDeqLoaded (qhead s) (qtail s)). unfold step_commit. rewrite Hpc, !Nat.eqb_refl. reflexivity.
  - (* CPubHold *)
    destruct Htq as [_ Hq]. destruct (getb_exists s p ltac:(lia)) as [b Hb].
    prog Ht (LDeqLoaded (qhead s) (qtail s)). unfold step_commit. rewrite Hpc, Hb, !Nat.eqb_refl. reflexivity.
  - (* CDeqLoaded *)
    destruct (slot_exists c s t0 HI) as [[q|] Ho].
    + prog Ht (LDeqSlot t0 false). unfold step_commit. rewrite Hpc, Ho, Nat.eqb_refl. reflexivity.
    + prog Ht (LDeqSlot t0 true). unfold step_commit. rewrite Hpc, Ho, Nat.eqb_refl. reflexivity.
  - (* CDeqSlot *)
    destruct Htq as [_ [_ [_ [_ [Hp _]]]]]. destruct (getb_exists s p Hp) as [b Hb].
    destruct (b_freed b) eqn:Hf.
    + prog Ht (LDeqChecked t0 true). unfold step_commit. rewrite Hpc, Hb, Hf, Nat.eqb_refl. reflexivity.
    + prog Ht (LDeqChecked t0 (b_applied b)). unfold step_commit. rewrite Hpc, Hb, Hf, Nat.eqb_refl, Bool.eqb_reflx. reflexivity.
  - (* CDeqChecked *)
    destruct ((h =? qhead s) && (t0 =? qtail s)) eqn:E.
    + prog Ht LDeqCasOk. unfold step_commit. rewrite Hpc, E. reflexivity.
    + prog Ht LDeqCasFail. unfold step_commit. rewrite Hpc, E. reflexivity.
  - (* CDeqNone *) prog Ht LPubExit. unfold step_commit. rewrite Hpc. reflexivity.
  - (* CDeqWon *) prog Ht LDeqCleared. unfold step_commit. rewrite Hpc. reflexivity.
  - (* CDeqOwned *)
    destruct Htq as [_ Hq]. destruct (getb_exists s p ltac:(lia)) as [b Hb].
    prog Ht (LPubDeq (b_last b) (b_cnt b)). unfold step_commit. rewrite Hpc, Hb, !Nat.eqb_refl. reflexivity.
  - (* CVisTop *)
    destruct Htq as [_ Hq]. destruct (getb_exists s p ltac:(lia)) as [b Hb].
    prog Ht (LVisLoaded (b_last b) (visible s)). unfold step_commit. rewrite Hpc, Hb, !Nat.eqb_refl. reflexivity.
  - (* CVisLoaded *)
    destruct Htq as [_ Hq]. destruct (getb_exists s p ltac:(lia)) as [b Hb].
    destruct (b_last b <=? cur) eqn:E1.
    + prog Ht LVisSkip. unfold step_commit. rewrite Hpc, Hb, E1. reflexivity.
    + assert (E2 : (cur <? b_last b) = true) by (apply Nat.ltb_lt; apply Nat.leb_gt in E1; exact E1).
      destruct (cur =? visible s) eqn:E3.
      * prog Ht LVisCasOk. unfold step_commit. rewrite Hpc, Hb, E2, E3. reflexivity.
      * prog Ht LVisCasFail. unfold step_commit. rewrite Hpc, Hb, E2, E3. reflexivity.
  - (* CVisDone *)
    destruct Htq as [_ Hq]. destruct (getb_exists s p ltac:(lia)) as [b Hb].
    prog Ht LPubCompleted. unfold step_commit. rewrite Hpc, Hb. reflexivity.
  - (* CPubExit *) prog Ht LPublished. unfold step_commit. rewrite Hpc. reflexivity.
Qed.

Lemma premark_nonblocking : forall p, premark p = true -> nonblocking p = true.
Proof. destruct p; simpl; auto; discriminate. Qed.
Lemma helper_nonblocking : forall tl t, helper tl t = true -> nonblocking (t_pc t) = true.
Proof. unfold helper. intros tl t. destruct (t_pc t); simpl; auto; discriminate. Qed.
Lemma holds_nonblocking : forall p t, holds p t = true -> nonblocking (t_pc t) = true.
Proof. unfold holds. intros p t. destruct (t_pc t); simpl; auto; discriminate. Qed.
Lemma won_nonblocking : forall p t, won p t = true -> nonblocking (t_pc t) = true.
Proof. unfold won. intros p t. destruct (t_pc t); simpl; auto; discriminate. Qed.

(* A: a committer waiting for its completion *)
Lemma wait_done_progress : forall c s i t, Inv c s -> thr_at s i t -> t_pc t = CWaitDone -> progress_step c s.
Proof.
  intros c s i t HI Ht Hpc.
  pose proof (i_thr c s HI i t Ht) as [_ [_ [_ Htq]]]. rewrite Hpc in Htq.
  pose proof (i_ht c s HI) as [Hht1 [Hht2 [Hht3 Hht4]]].
  destruct (my_batch_exists s t _ Htq Hht3) as [p [b [Hmb [Hmy [Hb Hp]]]]].
  destruct (i_res c s HI p b Hb) as [Hr|[Hr Hq]].
  2: { prog Ht (LRet ResOk). unfold step_commit. rewrite Hpc, Hmb, Hr. reflexivity. }
  destruct (Nat.lt_ge_cases p (qtail s)) as [Hlt|Hge].
  - (* dequeued: somebody holds it *)
    destruct (i_deq c s HI p b Hlt Hb) as [Hd|Hd]; [congruence|].
    apply existsb_nth in Hd as [j [tj [Hj Hh]]].
    apply (local_progress c s j tj HI Hj). eapply holds_nonblocking; eauto.
  - (* still queued: look at the tail batch *)
    destruct (getb_exists s (qtail s) ltac:(lia)) as [bt Hbt]. unfold get_b in Hbt.
    pose proof (i_own c s HI (qtail s) bt (le_n _) Hbt) as Ho.
    apply existsb_nth in Ho as [j [tj [Hj Ho]]]. unfold owns in Ho.
    apply andb_true_iff in Ho as [_ Ho]. apply orb_true_iff in Ho as [Ho|Ho].
    + apply (local_progress c s j tj HI Hj). apply premark_nonblocking; auto.
    + apply andb_true_iff in Ho as [_ Hap].
      destruct (Nat.eq_dec (qtail s) (qhead s)) as [Heq|Hne].
      * rewrite Heq in Hbt. rewrite (i_qf c s HI bt Hbt) in Hap. discriminate.
      * pose proof (i_help c s HI bt ltac:(lia) Hbt Hap) as Hh.
        apply existsb_nth in Hh as [k [tk [Hk Hh]]].
        apply (local_progress c s k tk HI Hk). eapply helper_nonblocking; eauto.
Qed.

(* B: the holder of the mutex *)
Lemma locked_progress : forall c s i t, Inv c s -> thr_at s i t -> locked_pc (t_pc t) = true -> progress_step c s.
Proof.
  intros c s i t HI Ht Hl.
  destruct (nonblocking (t_pc t)) eqn:Hnb; [eapply local_progress; eauto|].
  assert (Hpc : t_pc t = CEnqLoaded) by (destruct (t_pc t); simpl in *; try discriminate; reflexivity).
  destruct (ls_facts c s i t HI Ht Hl) as [Hmx [_ [Hls2 Hls3]]].
  specialize (Hls2 ltac:(rewrite Hpc; discriminate)). specialize (Hls3 (or_introl Hpc)).
  pose proof (i_ht c s HI) as [Hht1 _]. destruct (i_slots c s HI) as [_ Hsl].
  destruct (slot_exists c s (qhead s) HI) as [[q|] Ho].
  - unfold get_slot, slot_ix in Ho. destruct (i_r1 c s HI _ _ Ho) as [Hk [[Hq1 Hq2]|Hw]].
    + exfalso. rewrite Hls2 in Hq2. symmetry in Hk. pose proof (mod_eq_gap _ _ _ Hsl Hq2 Hk). lia.
    + apply existsb_nth in Hw as [j [tj [Hj Hw]]].
      apply (local_progress c s j tj HI Hj). eapply won_nonblocking; eauto.
  - prog Ht LEnqStored. unfold step_commit. rewrite Hpc, Ho. reflexivity.
Qed.

(* C: a committer waiting for the mutex *)
Lemma want_lock_progress : forall c s i t, Inv c s -> thr_at s i t -> t_pc t = CWantLock -> progress_step c s.
Proof.
  intros c s i t HI Ht Hpc. pose proof (i_ls c s HI) as Hls.
  destruct (mutex s) as [h|] eqn:Hm.
  - destruct Hls as [th [Hth [Hlk _]]]. eapply locked_progress; eauto.
  - prog Ht LLocked. unfold step_commit. rewrite Hpc, Hm. reflexivity.
Qed.

Lemma held_pos : forall l, 0 < held l -> exists j tj, nth_error l j = Some tj /\ t_permit tj = true.
Proof.
  induction l as [|a l IH]; simpl; intros H; [lia|].
  destruct (t_permit a) eqn:E.
  - exists 0, a. auto.
  - destruct (IH ltac:(lia)) as [j [tj [Hj Hp]]]. exists (S j), tj. auto.
Qed.

(* a committer that holds a permit *)
Lemma permit_progress : forall c s i t, Inv c s -> thr_at s i t -> t_permit t = true -> progress_step c s.
Proof.
  intros c s i t HI Ht Hp.
  pose proof (i_thr c s HI i t Ht) as [_ [Htp _]]. rewrite Hp in Htp.
  destruct (nonblocking (t_pc t)) eqn:Hnb; [eapply local_progress; eauto|].
  destruct (t_pc t) eqn:Hpc; simpl in *; try discriminate.
  - eapply want_lock_progress; eauto.
  - eapply locked_progress; eauto. rewrite Hpc. reflexivity.
  - eapply wait_done_progress; eauto.
Qed.

(* D: a committer waiting for a permit *)
Lemma stall_ok_progress : forall c s i t, Inv c s -> 0 < c_permits c -> thr_at s i t -> t_pc t = CStallOk -> progress_step c s.
Proof.
  intros c s i t HI Hperm Ht Hpc.
  destruct (avail s) as [|k] eqn:Ha.
  - pose proof (i_pm c s HI) as Hpm. rewrite Ha in Hpm.
    destruct (held_pos (thrs s) ltac:(lia)) as [j [tj [Hj Hp]]].
    eapply permit_progress; eauto.
  - prog Ht LSemAcquired. unfold step_commit. rewrite Hpc, Ha. reflexivity.
Qed.

Theorem core_progress : forall c s, Inv c s -> 0 < c_permits c -> unfinished s -> progress_step c s.
Proof.
  intros c s HI Hperm [[i [t [Ht Hact]]]|Hcl].
  - destruct (nonblocking (t_pc t)) eqn:Hnb; [eapply local_progress; eauto|].
    unfold active in Hact. destruct (t_pc t) eqn:Hpc; simpl in *; try discriminate.
    + eapply stall_ok_progress; eauto.
    + eapply want_lock_progress; eauto.
    + eapply locked_progress; eauto. rewrite Hpc. reflexivity.
    + eapply wait_done_progress; eauto.
  - exfalso. pose proof (i_bg c s HI) as [_ [_ [_ [_ [_ [_ [B7 _]]]]]]].
    unfold closing in Hcl. rewrite B7 in Hcl. discriminate.
Qed.
