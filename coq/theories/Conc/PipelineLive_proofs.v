(* Conc/PipelineLive_proofs.v — liveness statements (C17) of Conc/PipelineSpec.v.

   Part 1  `deadlock_free_refuted : deadlock_free_refuted_stmt 8 7 2`: the lost wake-up of the flush task,
           as a concrete 126-event run of 4 committers.
   Part 2a `deadlock_free_core_false`, `deadlock_free_partial_false`: the two positive statements are FALSE as
           stated: a commit() of an empty batch (`LEnter 0`) blocks in the model while holding the mutex.
   Part 2b `deadlock_free_core_partial`: deadlock_free_core_stmt + "no empty batch".
   Part 3  `deadlock_free_partial_nonempty`: deadlock_free_partial_stmt + "no empty batch".
   Part 4  `terminates : terminates_stmt`.
   Supporting files: PipelineLiveCore{,2,3,4,5}.v (core invariant), PipelineLiveGen{,2,3,4,5,6}.v (invariant of the
   whole system), PipelineLiveTerm.v (the measure). *)
From Coq Require Import List Arith Bool Lia Wf_nat.
From SKV Require Import Conc.Pipeline Conc.PipelineExplore Conc.PipelineSpec.
From SKV Require Import Conc.PipelineLiveCore Conc.PipelineLiveCore5 Conc.PipelineLiveTerm.
From SKV Require Import Conc.PipelineLiveGen Conc.PipelineLiveGen5 Conc.PipelineLiveGen6.
Import ListNotations.

(* ================================================================== Part 1: the lost wake-up *)
Module Witness.

Definition wc : cfg := {| c_slots := 8; c_permits := 7; c_memlimit := 2; c_l0limit := 100 |}.

(* commit() of thread i with a one-entry batch, up to and including the rotation of the memtable *)
Definition commit_pre (i imm l0 sq p : nat) : list (actor * label) :=
  map (fun l => (ACommit i, l))
    [LEnter 1; LStallRegistered; LStallCounted imm l0; LStallOk; LSemAcquired; LWantLock; LLocked; LChecked;
     LSeqAllocated sq 1; LOraclePublished; LEnqLoaded p p; LEnqStored; LEnqDone; LEnqueued; LUnlocked;
     LMemInsert sq; LArenaFull; LRotated].
(* the second add, mark applied, publish (dequeues its own batch), return *)
Definition commit_post (i sq p : nat) : list (actor * label) :=
  map (fun l => (ACommit i, l))
    [LApplyWoke; LMemInsert sq; LAfterApply false; LMarked; LDeqLoaded (S p) p; LDeqSlot p false; LDeqChecked p true;
     LDeqCasOk; LDeqCleared; LPubDeq sq 1; LVisLoaded sq (sq - 1); LVisCasOk; LPubCompleted;
     LDeqLoaded (S p) (S p); LPubExit; LPublished; LRet ResOk].

Definition w_evs_def : list (actor * label) :=
  [(AFlush, LMemWait)]
  (* thread 0: rotation, the flush task is asleep and not running: wake_up_memtable notifies it *)
  ++ commit_pre 0 0 0 1 0 ++ [(ACommit 0, LWakeMem)] ++ commit_post 0 1 0
  (* the flush task flushes the only immutable memtable and passes its last has_pending check *)
  ++ map (fun l => (AFlush, l)) [LMemWoken; LMemRunning; LMemFlushed; LSignal false; LMemNoPending]
  (* threads 1 and 2 rotate while `running` is still set: wake_up_memtable does nothing *)
  ++ commit_pre 1 0 1 2 1 ++ commit_post 1 2 1
  ++ commit_pre 2 1 1 3 2 ++ commit_post 2 3 2
  (* the flush task goes to sleep; the level task does its round and goes to sleep *)
  ++ map (fun l => (AFlush, l)) [LMemNotifiedLevel; LMemIdle; LMemWait]
  ++ map (fun l => (ALevel, l)) [LLevelWait; LLevelWoken; LLevelRunning; LLevelDone 1; LSignal false; LLevelIdle; LLevelWait]
  (* thread 3 finds two immutable memtables: stalled, waits for a notification nobody will send *)
  ++ map (fun l => (ACommit 3, l)) [LEnter 1; LStallRegistered; LStallCounted 2 1; LStallWait].

Definition w_evs : list (actor * label) := Eval vm_compute in w_evs_def.

Definition w_run : option plstate := Eval vm_compute in prun wc (pinit wc 4 0 0) w_evs.

Definition s_w : plstate :=
  Eval vm_compute in match w_run with Some s => s | None => pinit wc 0 0 0 end.

Lemma w_run_ok : prun wc (pinit wc 4 0 0) w_evs = Some s_w.
Proof. vm_compute. reflexivity. Qed.

(* l0_quiet as a boolean check *)
Definition l0_quietb (evs : list (actor * label)) (c : cfg) : bool :=
  forallb (fun x => match snd x with LStallCounted _ l0 => Nat.ltb l0 (c_l0limit c) | _ => true end) evs.

Lemma l0_quietb_sound : forall evs c, l0_quietb evs c = true -> l0_quiet evs c.
Proof.
  intros evs c H a im l0 Hin. unfold l0_quietb in H. rewrite forallb_forall in H.
  specialize (H _ Hin). simpl in H. apply Nat.ltb_lt. exact H.
Qed.

Lemma w_quiet : l0_quiet w_evs wc.
Proof. apply l0_quietb_sound. vm_compute. reflexivity. Qed.

Definition w_t3 : thr := Eval vm_compute in match nth_error (thrs s_w) 3 with Some t => t | None => thr0 end.

Lemma w_unfinished : unfinished s_w.
Proof.
  left. exists 3, w_t3. split.
  - vm_compute. reflexivity.
  - reflexivity.
Qed.

Ltac dead H := solve [ discriminate H | vm_compute in H; discriminate H ].

Lemma w_commit_dead : forall i l s', env_label (ACommit i) l = false -> stutter l = false ->
  pstep wc s_w (ACommit i) l = Some s' -> False.
Proof.
  intros i l s' He Hs Hp.
  do 4 (destruct i as [|i];
        [ destruct l; try (match goal with r : result |- _ => destruct r end);
          try (match goal with b : bool |- _ => destruct b end);
          dead He || dead Hs || dead Hp | ]).
  destruct i; vm_compute in Hp; discriminate Hp.
Qed.

Lemma w_other_dead : forall a l s', (forall i, a <> ACommit i) -> env_label a l = false -> stutter l = false ->
  pstep wc s_w a l = Some s' -> False.
Proof.
  intros a l s' Ha He Hs Hp.
  destruct a as [i|i| | | | ].
  - exfalso. apply (Ha i). reflexivity.
  - destruct i; vm_compute in Hp; discriminate Hp.
  - destruct l; try (destruct shutdown); dead He || dead Hs || dead Hp.
  - destruct l; try (destruct shutdown); dead He || dead Hs || dead Hp.
  - destruct l; try (destruct shutdown); try (destruct r); dead He || dead Hs || dead Hp.
  - destruct l; dead He || dead Hs || dead Hp.
Qed.

Lemma w_no_progress : ~ progress_step wc s_w.
Proof.
  intros [a [l [s' [He [Hs Hp]]]]].
  destruct a as [i|i| | | | ].
  - exact (w_commit_dead i l s' He Hs Hp).
  - apply (w_other_dead (AReader i) l s'); auto; discriminate.
  - apply (w_other_dead AFlush l s'); auto; discriminate.
  - apply (w_other_dead ALevel l s'); auto; discriminate.
  - apply (w_other_dead ACloser l s'); auto; discriminate.
  - apply (w_other_dead AMain l s'); auto; discriminate.
Qed.

End Witness.

Theorem deadlock_free_refuted : deadlock_free_refuted_stmt 8 7 2.
Proof.
  exists 4, Witness.w_evs, Witness.s_w.
  split; [ exact Witness.w_run_ok | ].
  split; [ exact Witness.w_quiet | ].
  split; [ exact Witness.w_unfinished | exact Witness.w_no_progress ].
Qed.

(* ================================================================== Part 2a: the core statement is false as stated
   A commit() of an EMPTY batch (`LEnter 0`) takes the mutex and then has no step in the model:
   `LSeqAllocated` requires `0 < cnt`.  With both background tasks parked, nothing can move. *)
Module EmptyBatch.

Definition ec : cfg := {| c_slots := 2; c_permits := 1; c_memlimit := 2; c_l0limit := 1 |}.

Definition e_evs : list (actor * label) :=
  Eval vm_compute in
    map (fun l => (ACommit 0, l))
      [LEnter 0; LStallRegistered; LStallCounted 0 0; LStallOk; LSemAcquired; LWantLock; LLocked; LChecked]
    ++ [(AFlush, LMemWait); (ALevel, LLevelWait)].

Definition s_e : plstate :=
  Eval vm_compute in match prun ec (pinit ec 1 0 0) e_evs with Some s => s | None => pinit ec 0 0 0 end.

Lemma e_run_ok : prun ec (pinit ec 1 0 0) e_evs = Some s_e.
Proof. vm_compute. reflexivity. Qed.

Ltac dead H := solve [ discriminate H | vm_compute in H; discriminate H ].

Lemma e_no_progress : ~ progress_step ec s_e.
Proof.
  intros [a [l [s' [He [Hs Hp]]]]].
  destruct a as [i|i| | | | ].
  - destruct i as [|i].
    + destruct l; try (match goal with r : result |- _ => destruct r end);
        try (match goal with b : bool |- _ => destruct b end);
        try (dead He || dead Hs || dead Hp).
      (* LSeqAllocated sq cnt at CChecked with t_cnt = 0: the guard needs cnt = 0 and 0 < cnt *)
      cbv [pstep get_thr s_e thrs nth_error step_commit t_pc t_cnt guard next_seq] in Hp.
      destruct (Nat.eqb sq 1); simpl in Hp; [ | discriminate Hp ].
      destruct cnt; simpl in Hp; discriminate Hp.
    + destruct i; vm_compute in Hp; discriminate Hp.
  - destruct i; vm_compute in Hp; discriminate Hp.
  - destruct l; try (destruct shutdown); dead He || dead Hs || dead Hp.
  - destruct l; try (destruct shutdown); dead He || dead Hs || dead Hp.
  - destruct l; try (destruct shutdown); try (destruct r); dead He || dead Hs || dead Hp.
  - destruct l; dead He || dead Hs || dead Hp.
Qed.

Lemma e_core : core_run e_evs.
Proof.
  intros a l Hin. unfold e_evs in Hin. simpl in Hin.
  repeat (destruct Hin as [Hin|Hin]; [ inversion Hin; subst; reflexivity | ]). contradiction.
Qed.

Lemma e_failure_free : failure_free e_evs.
Proof.
  intros a l Hin. unfold e_evs in Hin. simpl in Hin.
  repeat (destruct Hin as [Hin|Hin]; [ inversion Hin; subst; reflexivity | ]). contradiction.
Qed.

Lemma e_quiet : l0_quiet e_evs ec.
Proof. apply Witness.l0_quietb_sound. vm_compute. reflexivity. Qed.

Definition e_t0 : thr := Eval vm_compute in match nth_error (thrs s_e) 0 with Some t => t | None => thr0 end.

Lemma e_unfinished : unfinished s_e.
Proof. left. exists 0, e_t0. split; [ vm_compute; reflexivity | reflexivity ]. Qed.

Lemma e_not_starved : ~ flush_starved ec s_e.
Proof. intros [H _]. vm_compute in H. lia. Qed.

End EmptyBatch.

(* counterexample to `deadlock_free_core_stmt` and to `deadlock_free_partial_stmt` *)
Theorem deadlock_free_core_false : ~ deadlock_free_core_stmt.
Proof.
  intros H.
  apply EmptyBatch.e_no_progress.
  apply (H EmptyBatch.ec 1 0 0 EmptyBatch.e_evs EmptyBatch.s_e).
  - simpl; lia.
  - simpl; lia.
  - simpl; lia.
  - simpl; lia.
  - exact EmptyBatch.e_run_ok.
  - exact EmptyBatch.e_core.
  - exact EmptyBatch.e_failure_free.
  - exact EmptyBatch.e_unfinished.
Qed.

Theorem deadlock_free_partial_false : ~ deadlock_free_partial_stmt.
Proof.
  intros H.
  apply EmptyBatch.e_no_progress.
  apply (H EmptyBatch.ec 1 0 0 EmptyBatch.e_evs EmptyBatch.s_e).
  - simpl; lia.
  - simpl; lia.
  - simpl; lia.
  - exact EmptyBatch.e_run_ok.
  - exact EmptyBatch.e_quiet.
  - exact EmptyBatch.e_unfinished.
  - exact EmptyBatch.e_not_starved.
Qed.

(* ================================================================== Part 2b: what holds for the pipeline alone
   `deadlock_free_core_stmt` with the one additional hypothesis that no commit() has an empty batch.
   The invariant (ring buffer, mutex, permits, ownership, pending completions, helper threads) is
   in Conc/PipelineLiveCore*.v. *)


Theorem deadlock_free_core_partial : deadlock_free_core_partial_stmt.
Proof.
  intros c n m v evs s Hp Hps Hm Hl Hrun Hcore Hff Hne Hun.
  apply core_progress; auto.
  apply (inv_run c evs (pinit c n m v) s); auto.
  - apply inv_init; auto. lia.
  - intros a l Hin. repeat split.
    + apply (Hcore a l Hin).
    + apply (Hff a l Hin).
    + intros k ->. apply (Hne a k Hin).
Qed.

(* ================================================================== Part 3: the whole system
   `deadlock_free_partial_stmt` (rotation, stall protocol, background tasks, close(), failures of
   env.write / env.apply, conflicts, queue overflow) with the one additional hypothesis that no commit()
   has an empty batch.  The invariant is in Conc/PipelineLiveGen*.v. *)

Theorem deadlock_free_partial_nonempty : deadlock_free_partial_nonempty_stmt.
Proof.
  intros c n m v evs s Hp Hps Hm Hrun Hq Hne Hun Hns.
  apply gen_progress; auto.
  apply (ginv_run c evs (pinit c n m v) s); auto.
  - apply ginv_init. lia.
  - intros a l Hin. split.
    + intros k ->. apply (Hne a k Hin).
    + intros im l0 ->. apply (Hq a im l0 Hin).
Qed.

(* ================================================================== Part 4: termination (L2)
   The measure `mu` (Conc/PipelineLiveTerm.v) is a natural number that strictly decreases on every
   step of the system itself, from every reachable state. *)
Theorem terminates : terminates_stmt.
Proof.
  intros c n m v _ _. exists nat, lt, mu. split; [exact lt_wf|].
  intros s a l s' Hr Hs He Hst. eapply mu_decreases; eauto.
Qed.
