(* Conc/PipelineLive_proofs.v — liveness statements (C17) of Conc/PipelineSpec.v, for the repaired pipeline.

   `deadlock_free : deadlock_free_stmt`            no deadlock, whole system (rotation, stall protocol, flush and
                                                   level tasks, close(), failures, conflicts)
   `deadlock_free_core : deadlock_free_core_stmt`  corollary: core runs are l0-quiet
   `terminates : terminates_stmt`                  a natural-number measure decreases on every step of the system

   Supporting files: PipelineLiveBase.v (shared lemmas and tactics), PipelineLiveGen{,2,3,4,5,6}.v (the invariant of
   the whole system and who can move), PipelineLiveTerm.v (the measure). *)
From Coq Require Import List Arith Bool Lia Wf_nat.
From SKV Require Import Conc.Pipeline Conc.PipelineExplore Conc.PipelineSpec.
From SKV Require Import Conc.PipelineLiveBase Conc.PipelineLiveGen Conc.PipelineLiveGen5 Conc.PipelineLiveGen6 Conc.PipelineLiveTerm.
Import ListNotations.

(* ================================================================== L1: no deadlock *)
Theorem deadlock_free : deadlock_free_stmt.
Proof.
  intros c n m v evs s Hp Hps Hm Hrun Hq Hne Hun.
  apply gen_progress; auto.
  apply (ginv_run c evs (pinit c n m v) s); auto.
  - apply ginv_init. lia.
  - intros a l Hin. split.
    + intros k ->. apply (Hne a k Hin).
    + intros im l0 ->. apply (Hq a im l0 Hin).
Qed.

(* ================================================================== the pipeline alone
   Along a core run no memtable is ever rotated or flushed, so every stall check sees l0 = 0. *)
Definition CoreI (s : plstate) : Prop :=
  g_imm (bg s) = 0 /\ g_l0 (bg s) = 0 /\ forall j tj, thr_at s j tj -> t_pc tj <> CArenaFull.

Lemma corei_commit_step : forall c s i t l s', CoreI s -> thr_at s i t -> core_label l = true ->
  step_commit c s i t l = Some s' -> CoreI s'.
Proof.
  intros c s i t l s' [H1 [H2 H3]] Ht Hc H. pose proof (H3 i t Ht) as Hnot.
  gcases l t H; ret_shape; try discriminate Hc; try (exfalso; apply Hnot; reflexivity).
  all: try (split; [exact H1 | split; [exact H2 | exact H3]]).
  all: (split; [ psimpl; simpl; rewrite ?Hr6; exact H1 | split; [ psimpl; simpl; rewrite ?Hr6; exact H2 | ] ]).
  all: intros j tj Hj; thr_cases Hj Hne; try exact (H3 j tj Hj); simpl; rewrite ?Hpc;
    repeat match goal with |- context [if ?b then _ else _] => destruct b end; try discriminate; auto.
Qed.

Lemma corei_step : forall c s a l s', CoreI s -> core_label l = true -> pstep c s a l = Some s' -> CoreI s'.
Proof.
  intros c s a l s' HC Hc H. destruct HC as [H1 [H2 H3]]. destruct a as [i|i| | | | ]; unfold pstep in H.
  - unfold get_thr in H. destruct (nth_error (thrs s) i) as [t|] eqn:Ht; [|discriminate].
    eapply corei_commit_step; eauto. split; auto.
  - destruct (nth_error (rdrs s) i) as [r|]; [|discriminate]. unfold step_reader in H.
    destruct l; destruct r; try discriminate H; inv_guard H; try (injection H as <-); split; auto.
  - unfold step_flush in H. destruct l; destruct (g_fpc (bg s)); try discriminate H; inv_guard H;
      try (injection H as <-); rewrite ?H1 in *; simpl in *; try discriminate; try lia; split; simpl; auto.
  - unfold step_level in H. destruct l; destruct (g_lpc (bg s)); try discriminate H; try discriminate Hc; inv_guard H;
      try (injection H as <-); split; simpl; auto.
  - unfold step_closer in H. destruct l; destruct (g_xpc (bg s)); try discriminate H; inv_guard H;
      try (injection H as <-); split; simpl; auto.
  - destruct l; try discriminate H. inv_guard H. injection H as <-. split; simpl; auto.
Qed.

Lemma core_quiet : forall c evs s s', CoreI s -> prun c s evs = Some s' -> core_run evs -> 0 < c_l0limit c -> l0_quiet evs c.
Proof.
  intros c evs. induction evs as [|[a l] r IH]; intros s s' HC H Hcr Hl0; simpl in H.
  - intros a im l0 [].
  - destruct (pstep c s a l) as [s1|] eqn:Hs; [|discriminate].
    assert (Hcl : core_label l = true) by (apply (Hcr a l); left; reflexivity).
    assert (HC1 : CoreI s1) by (eapply corei_step; eauto).
    assert (Hq : l0_quiet r c).
    { apply (IH s1 s'); auto. intros a' l' Hin. apply (Hcr a' l'). right. exact Hin. }
    intros a' im l0 [Heq|Hin]; [|apply (Hq a' im l0 Hin)].
    injection Heq as -> ->. destruct HC as [_ [H2 _]].
    destruct a' as [i|i| | | | ]; unfold pstep in Hs.
    + unfold get_thr in Hs. destruct (nth_error (thrs s) i) as [t|]; [|discriminate].
      unfold step_commit in Hs. destruct (t_pc t); try discriminate Hs. inv_guard Hs. boolp. subst. lia.
    + destruct (nth_error (rdrs s) i) as [rr|]; [|discriminate]. destruct rr; discriminate Hs.
    + unfold step_flush in Hs. destruct (g_fpc (bg s)); discriminate Hs.
    + unfold step_level in Hs. destruct (g_lpc (bg s)); discriminate Hs.
    + unfold step_closer in Hs. destruct (g_xpc (bg s)); discriminate Hs.
    + discriminate Hs.
Qed.

Lemma corei_init : forall c n m v, CoreI (pinit c n m v).
Proof.
  intros. split; [reflexivity|]. split; [reflexivity|]. intros j tj Hj. unfold thr_at in Hj. simpl in Hj.
  apply nth_error_repeat in Hj. subst. discriminate.
Qed.

Theorem deadlock_free_core : deadlock_free_core_stmt.
Proof.
  intros c n m v evs s Hp Hps Hm Hl Hrun Hcore _ Hne Hun.
  apply (deadlock_free c n m v evs s); auto.
  eapply core_quiet; eauto. apply corei_init.
Qed.

(* ================================================================== L2: termination
   The measure `mu` (Conc/PipelineLiveTerm.v) is a natural number that strictly decreases on every
   step of the system itself, from every reachable state. *)
Theorem terminates : terminates_stmt.
Proof.
  intros c n m v _ _. exists nat, lt, mu. split; [exact lt_wf|].
  intros s a l s' Hr Hs He Hst. eapply mu_decreases; eauto.
Qed.
