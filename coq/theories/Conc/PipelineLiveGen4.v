(* Conc/PipelineLiveGen4.v — the invariant of the whole system, part 4: owners, pending completions,
   helpers, the stall protocol, the background flags (committer steps) *)
From Coq Require Import List Arith Bool Lia.
From SKV Require Import Conc.Pipeline Conc.PipelineExplore Conc.PipelineSpec Conc.PipelineLiveBase Conc.PipelineLiveGen.
Import ListNotations.

Lemma ownsP_my : forall p u n, ownsP p u = true -> t_my u = Some n -> n = p.
Proof.
  unfold ownsP, my_is. intros p u n H Hn. rewrite Hn in H. apply andb_true_iff in H as [H _].
  apply Nat.eqb_eq in H. exact H.
Qed.

Lemma own_gframe : forall c s s0 i t x, GInv c s -> thr_at s i t -> thrs s0 = thrs s -> qtail s <= qtail s0 ->
  logrel sameA (qlog s) (qlog s0) -> (forall p, ownsP p t = true -> ownsP p x = true) -> OWNG (put_thr s0 i x).
Proof.
  intros c s s0 i t x HI Ht Hth Htl [_ Hl] Hx p b' Hp Hb. psimpl_in Hp. psimpl_in Hb. psimpl.
  destruct (Hl _ _ Hb) as [b0 [Hb0 Ha]]. unfold sameA in Ha. rewrite Ha, Hth.
  destruct (g_own c s HI p b0 ltac:(lia) Hb0) as [Ho|Ho]; auto.
  right. eapply existsb_set_nth; eauto.
Qed.

Ltac gown_cond Hpc :=
  intros ? Ho; unfold ownsP, my_is in *; simpl in *; rewrite ?Hpc in *; simpl in *;
  repeat match goal with |- context [if ?b then _ else _] => destruct b end; simpl;
  solve [ exact Ho | rewrite andb_false_r in Ho; discriminate Ho ].

Lemma own_gstep : forall c s i t l s', GInv c s -> thr_at s i t -> step_commit c s i t l = Some s' -> OWNG s'.
Proof.
  intros c s i t l s' HI Ht H.
  gstart c s i t l H HI Ht.
  all: try exact (g_own c s HI).
  all: try solve [eapply own_gframe; try exact HI; try exact Ht; psimpl; auto; try lia; try logrel_tac; try (gown_cond Hpc)].
  (* LMarked, three times *)
  all: try solve [ intros q b Hq Hb; psimpl_in Hq; psimpl_in Hb; psimpl; apply my_batch_inv in Hm as [Hm1 Hm2];
    apply nth_error_set_nth_inv in Hb as [[-> ->]|[Hne Hb]]; [ left; reflexivity | ];
    destruct (g_own c s HI q b Hq Hb) as [Ho|Ho]; auto; right;
    eapply existsb_set_nth; [ exact Ho | exact Ht | | auto ];
    intros Hx; exfalso; apply Hne; symmetry; eapply ownsP_my; eauto ].
  (* LEnqStored *)
  intros p b Hp Hb. psimpl_in Hp. psimpl_in Hb. psimpl. specialize (Hls2 ltac:(discriminate)).
  apply nth_error_snoc_inv in Hb as [[_ Hb]|[-> ->]].
  - destruct (g_own c s HI p b Hp Hb) as [Ho|Ho]; auto. right.
    eapply existsb_set_nth; [exact Ho | exact Ht | | auto].
    unfold ownsP. rewrite Hpc. simpl. rewrite andb_false_r. discriminate.
  - right. apply existsb_set_nth_new; [eapply nth_error_lt; exact Ht|].
    unfold ownsP, my_is. simpl. rewrite Hls2, Nat.eqb_refl. reflexivity.
Qed.

Definition relN (b0 b' : pbatch) : Prop := b_res b' = None -> b_res b0 = None.
Ltac relN_refl := solve [ unfold relN; intros; simpl in *; auto
                        | unfold relN; simpl; match goal with |- context [b_res ?b] => destruct (b_res b) end; auto; discriminate ].
Ltac logrelN_tac :=
  psimpl;
  first [ apply logrel_refl; relN_refl
        | match goal with Hr8 : _ \/ _ |- _ => eapply logrel_ret; [relN_refl | relN_refl | exact Hr8] end
        | match goal with Hm : my_batch _ _ = Some _ |- _ => eapply logrel_my; [ relN_refl | exact Hm | relN_refl ] end
        | match goal with Hm : get_b _ _ = Some _ |- _ => eapply logrel_getb; [ relN_refl | exact Hm | relN_refl ] end ].

Lemma deq_gframe : forall c s s0 i t x, GInv c s -> thr_at s i t -> thrs s0 = thrs s -> qtail s0 = qtail s ->
  logrel relN (qlog s) (qlog s0) -> (forall p, holds p t = true -> holds p x = true) -> DEQG (put_thr s0 i x).
Proof.
  intros c s s0 i t x HI Ht Hth Htl [_ Hl] Hx p b' Hp Hb Hn. psimpl_in Hp. psimpl_in Hb. psimpl.
  destruct (Hl _ _ Hb) as [b0 [Hb0 Ha]]. specialize (Ha Hn). rewrite Hth.
  eapply existsb_set_nth; eauto. apply (g_deq c s HI p b0); auto. lia.
Qed.

Lemma deq_gstep : forall c s i t l s', GInv c s -> thr_at s i t -> step_commit c s i t l = Some s' -> DEQG s'.
Proof.
  intros c s i t l s' HI Ht H.
  gstart c s i t l H HI Ht.
  all: try exact (g_deq c s HI).
  all: try solve [eapply deq_gframe; try exact HI; try exact Ht; psimpl; auto; try lia; try logrelN_tac; try (holds_cond Hpc)].
  - (* LEnqStored *)
    intros q b Hq Hb Hn. psimpl_in Hq. psimpl_in Hb. psimpl.
    apply nth_error_snoc_inv in Hb as [[_ Hb]|[-> ->]]; [|lia].
    eapply existsb_set_nth; [apply (g_deq c s HI q b Hq Hb Hn) | exact Ht | | auto].
    unfold holds. rewrite Hpc. discriminate.
  - (* LDeqCasOk *)
    intros q b Hq Hb Hn. psimpl_in Hq. psimpl_in Hb. psimpl.
    destruct (Nat.eq_dec q (qtail s)) as [->|Hne].
    + apply existsb_set_nth_new; [eapply nth_error_lt; exact Ht|].
      unfold holds. simpl. destruct Hti as [_ [_ [_ [_ [_ [_ [_ Hp]]]]]]]. rewrite (Hp eq_refl). apply Nat.eqb_refl.
    + eapply existsb_set_nth; [apply (g_deq c s HI q b ltac:(lia) Hb Hn) | exact Ht | | auto].
      unfold holds. rewrite Hpc. discriminate.
  - (* LPubCompleted *)
    intros q b Hq Hb Hn. psimpl_in Hq. psimpl_in Hb. psimpl.
    apply nth_error_set_nth_inv in Hb as [[-> ->]|[Hne Hb]].
    + simpl in Hn. destruct (b_res p0); discriminate.
    + eapply existsb_set_nth; [apply (g_deq c s HI q b Hq Hb Hn) | exact Ht | | auto].
      unfold holds. rewrite Hpc. intros Ho. apply Nat.eqb_eq in Ho. congruence.
Qed.

Lemma helperG_new : forall s s0 i t x, thr_at s i t -> thrs s0 = thrs s -> helperG (qtail s0) x = true -> HELPG (put_thr s0 i x).
Proof.
  intros s s0 i t x Ht Hth Hx b _ _ _. psimpl. rewrite Hth. apply existsb_set_nth_new; auto.
  eapply nth_error_lt; exact Ht.
Qed.

Lemma help_gframe : forall c s s0 i t x, GInv c s -> thr_at s i t -> thrs s0 = thrs s -> qtail s0 = qtail s ->
  qhead s0 = qhead s -> logrel sameA (qlog s) (qlog s0) ->
  (helperG (qtail s) t = true -> helperG (qtail s) x = true) -> HELPG (put_thr s0 i x).
Proof.
  intros c s s0 i t x HI Ht Hth Htl Hhd [_ Hl] Hx b' Hlt Hb Ha. psimpl_in Hlt. psimpl_in Hb. psimpl.
  rewrite Htl in *. rewrite Hhd in *.
  destruct (Hl _ _ Hb) as [b0 [Hb0 Ha0]]. unfold sameA in Ha0. rewrite Ha0 in Ha. rewrite Hth.
  eapply existsb_set_nth; eauto. apply (g_help c s HI b0); auto.
Qed.

Ltac helperG_cond Hpc :=
  intros Ho; unfold helperG, helper in *; simpl in *; rewrite ?Hpc in *; simpl in *;
  repeat match goal with |- context [if ?b then _ else _] => destruct b end; simpl;
  solve [ exact Ho | discriminate Ho | reflexivity ].

Lemma help_gstep : forall c s i t l s', GInv c s -> thr_at s i t -> step_commit c s i t l = Some s' -> HELPG s'.
Proof.
  intros c s i t l s' HI Ht H.
  gstart c s i t l H HI Ht.
  all: try exact (g_help c s HI).
  all: try solve [eapply help_gframe; try exact HI; try exact Ht; psimpl; auto; try lia; try logrel_tac; try (helperG_cond Hpc)].
  all: try solve [eapply helperG_new; [exact Ht | reflexivity | reflexivity]].
  - (* LEnqStored *)
    intros b Hlt Hb Ha. psimpl_in Hlt. psimpl_in Hb. psimpl.
    apply nth_error_snoc_inv in Hb as [[_ Hb]|[Hb _]]; [|lia].
    eapply existsb_set_nth; [apply (g_help c s HI b Hlt Hb Ha) | exact Ht | | auto].
    unfold helperG, helper. rewrite Hpc. discriminate.
  - (* LEnqDone *)
    intros b Hlt Hb Ha. psimpl_in Hlt. psimpl_in Hb. psimpl.
    destruct (Nat.eq_dec (qtail s) (qhead s)) as [Heq|Hne].
    + rewrite Heq in Hb. rewrite (g_qf c s HI b Hb) in Ha. discriminate.
    + eapply existsb_set_nth; [apply (g_help c s HI b ltac:(lia) Hb Ha) | exact Ht | | auto].
      unfold helperG, helper. rewrite Hpc. discriminate.
  - (* LDeqLoaded at CPubTop *)
    destruct (qhead s =? qtail s) eqn:E; boolp.
    + intros b Hlt. psimpl_in Hlt. lia.
    + eapply helperG_new; [exact Ht | reflexivity | ]. unfold helperG, helper. simpl. rewrite Nat.eqb_refl. reflexivity.
  - (* LDeqLoaded at CPubHold *)
    destruct (qhead s =? qtail s) eqn:E; boolp.
    + intros b Hlt. psimpl_in Hlt. lia.
    + eapply helperG_new; [exact Ht | reflexivity | ]. unfold helperG, helper. simpl. rewrite Nat.eqb_refl. reflexivity.
  - (* LDeqSlot, null *)
    destruct (Nat.eq_dec t1 (qtail s)) as [->|Hne].
    + intros b Hlt Hb Ha. psimpl_in Hlt. exfalso. unfold get_slot, slot_ix in Hm.
      rewrite (g_r2 c s HI (qtail s)) in Hm by lia. discriminate.
    + eapply help_gframe; try exact HI; try exact Ht; auto; [logrel_tac|].
      unfold helperG, helper. rewrite Hpc. rewrite orb_false_r. intros Ho. apply Nat.eqb_eq in Ho. contradiction.
  - (* LDeqChecked on a freed batch *)
    destruct a; [eapply help_gframe; try exact HI; try exact Ht; auto; [logrel_tac | helperG_cond Hpc]|].
    destruct (Nat.eq_dec t1 (qtail s)) as [->|Hne].
    + intros b Hlt Hb Ha. psimpl_in Hlt. exfalso. destruct Hti as [_ [_ [_ [_ [_ [_ [_ Hp]]]]]]].
      rewrite (Hp eq_refl) in Hm. pose proof (g_qref c s HI (qtail s) p0 ltac:(lia) Hm) as Hq.
      unfold b_freed in Hm0. rewrite Hq in Hm0. discriminate.
    + eapply help_gframe; try exact HI; try exact Ht; auto; [logrel_tac|].
      unfold helperG, helper. rewrite Hpc. rewrite orb_false_r. intros Ho. apply Nat.eqb_eq in Ho. contradiction.
  - (* LDeqChecked *)
    destruct (b_applied p0) eqn:Eap; [eapply help_gframe; try exact HI; try exact Ht; auto; [logrel_tac | helperG_cond Hpc]|].
    destruct (Nat.eq_dec t1 (qtail s)) as [->|Hne].
    + intros b Hlt Hb Ha. psimpl_in Hlt. psimpl_in Hb. exfalso. destruct Hti as [_ [_ [_ [_ [_ [_ [_ Hp]]]]]]].
      rewrite (Hp eq_refl) in Hm. unfold get_b in Hm. congruence.
    + eapply help_gframe; try exact HI; try exact Ht; auto; [logrel_tac|].
      unfold helperG, helper. rewrite Hpc. rewrite orb_false_r. intros Ho. apply Nat.eqb_eq in Ho. contradiction.
Qed.

Definition stall_pc (p : ppc) (ep : nat) : Prop := p = CStallCounted ep true \/ p = CStallBlocked ep.

Lemma stall_gframe : forall c s s0 i t x, GInv c s -> thr_at s i t -> thrs s0 = thrs s ->
  g_epoch (bg s0) = g_epoch (bg s) -> g_stall_sd (bg s0) = g_stall_sd (bg s) -> g_fpc (bg s0) = g_fpc (bg s) ->
  g_imm (bg s) <= g_imm (bg s0) ->
  (forall ep, stall_pc (t_pc x) ep -> stall_pc (t_pc t) ep) -> STALL c (put_thr s0 i x).
Proof.
  intros c s s0 i t x HI Ht Hth He Hsd Hf Him Hx j tj ep Hj Hp Hep. psimpl. psimpl_in Hep.
  rewrite He in Hep. rewrite Hsd, Hf.
  assert (Hold : g_stall_sd (bg s) = false /\ (c_memlimit c <= g_imm (bg s) \/ g_fpc (bg s) = FFlushed)).
  { apply thr_at_put in Hj as [[-> ->]|[Hne Hj]].
    - apply (g_stall c s HI i t ep Ht); auto. apply Hx. exact Hp.
    - unfold thr_at in Hj. rewrite Hth in Hj. apply (g_stall c s HI j tj ep Hj); auto. }
  destruct Hold as [H1 [H2|H2]]; split; auto. left. lia.
Qed.

Ltac stall_cond Hpc :=
  unfold stall_pc; intros ep0 Hx; simpl in Hx; rewrite ?Hpc in *;
  repeat match type of Hx with context [if ?b then _ else _] => destruct b end;
  destruct Hx as [Hx|Hx]; try discriminate Hx; try (injection Hx as <-); auto.

Lemma stall_gstep : forall c s i t l s', GInv c s -> thr_at s i t -> gok_label c l -> step_commit c s i t l = Some s' -> STALL c s'.
Proof.
  intros c s i t l s' HI Ht Hok H.
  gstart c s i t l H HI Ht.
  all: try exact (g_stall c s HI).
  all: try solve [eapply stall_gframe; try exact HI; try exact Ht; psimpl; simpl; rewrite ?Hr6; auto; try lia; stall_cond Hpc].
  (* LStallCounted: stalled although the L0 condition holds: too many immutable memtables *)
  intros j tj ep0 Hj Hp Hep. psimpl. psimpl_in Hep. thr_cases Hj Hne.
  - split; [exact H|]. left. simpl in Hp.
    assert (Hst : stalled c (g_imm (bg s)) (g_l0 (bg s)) = true).
    { destruct Hp as [Hp|Hp]; [injection Hp as _ Hp; exact Hp | discriminate Hp]. }
    destruct Hok as [_ Hok2]. specialize (Hok2 _ _ eq_refl).
    unfold stalled in Hst. apply negb_true_iff in Hst. apply andb_false_iff in Hst as [Hst|Hst].
    + apply Nat.ltb_ge in Hst. exact Hst.
    + apply Nat.ltb_ge in Hst. lia.
  - apply (g_stall c s HI j tj ep0 Hj Hp Hep).
Qed.

Lemma bgi_gstep : forall c s i t l s', GInv c s -> thr_at s i t -> step_commit c s i t l = Some s' -> BGI (bg s').
Proof.
  intros c s i t l s' HI Ht H.
  pose proof (g_bgi c s HI) as Hbg.
  gstart c s i t l H HI Ht.
  all: psimpl; try rewrite Hr6; try exact Hbg.
  destruct Hbg as [B1 [B2 [B3 [B4 [B5 [B6 [B7 [B8 [B9 B10]]]]]]]]]. unfold BGI. simpl.
  split; [exact B1|]. split; [exact B2|]. split; [exact B3|]. split; [exact B4|]. split; [exact B5|].
  split; [exact B6|]. split; [exact B7|]. split; [|split; [exact B9|auto]].
  intros Hx. destruct (B8 Hx) as [_ Hn2]. split; auto.
Qed.

Lemma nrot_set_nth : forall l i t x, nth_error l i = Some t ->
  nrot (set_nth i x l) + (match t_pc t with CRotated => 1 | _ => 0 end) = nrot l + (match t_pc x with CRotated => 1 | _ => 0 end).
Proof.
  induction l; intros [|i] t x H; simpl in *; try discriminate.
  - injection H as ->. lia.
  - specialize (IHl i t x H). lia.
Qed.

Lemma acc_gframe : forall c s s0 i t x, GInv c s -> thr_at s i t -> thrs s0 = thrs s ->
  g_fpc (bg s0) = g_fpc (bg s) -> g_fpermit (bg s0) = g_fpermit (bg s) -> g_ffailed (bg s0) = g_ffailed (bg s) ->
  g_imm (bg s0) = g_imm (bg s) -> (t_pc t = CRotated -> t_pc x = CRotated) -> ACC (put_thr s0 i x).
Proof.
  intros c s s0 i t x HI Ht Hth Hf Hp Hff Him Hx. unfold ACC. psimpl. rewrite Hf, Hp, Hff, Him, Hth.
  intros H1 H2 H3. pose proof (g_acc c s HI H1 H2 H3) as Ha.
  pose proof (nrot_set_nth (thrs s) i t x Ht) as Hn.
  destruct (t_pc t) eqn:E; try lia. rewrite (Hx eq_refl) in Hn. lia.
Qed.

Ltac rot_cond Hpc :=
  simpl; rewrite ?Hpc; intros Hx;
  repeat match goal with |- context [if ?b then _ else _] => destruct b end;
  solve [ discriminate Hx | reflexivity | exact Hx ].

Lemma acc_gstep : forall c s i t l s', GInv c s -> thr_at s i t -> step_commit c s i t l = Some s' -> ACC s'.
Proof.
  intros c s i t l s' HI Ht H.
  gstart c s i t l H HI Ht.
  all: try exact (g_acc c s HI).
  all: try solve [eapply acc_gframe; try exact HI; try exact Ht; psimpl; simpl; rewrite ?Hr6; auto; rot_cond Hpc].
  - (* LRotated: one more immutable memtable, one more committer at CRotated *)
    unfold ACC. psimpl. simpl. intros H1 H2 H3. pose proof (g_acc c s HI H1 H2 H3) as Ha.
    pose proof (nrot_set_nth (thrs s) i t (with_pc t CRotated) Ht) as Hn. rewrite Hpc in Hn. simpl in Hn. lia.
  - (* LWakeMem: the permit is set *)
    unfold ACC. psimpl. simpl. intros _ H2. discriminate H2.
  - (* LApplyWoke without a wake-up: the flush task is running *)
    unfold ACC. psimpl. intros H1 _ _. exfalso.
    destruct (g_bgi c s HI) as [_ [_ [_ [_ [B5 _]]]]]. specialize (B5 Hg).
    destruct H1 as [H1|H1]; rewrite H1 in B5; discriminate B5.
Qed.
