(* Conc/PipelineLiveCore3.v — invariant preservation, continued: the batches *)
From Coq Require Import List Arith Bool Lia.
From SKV Require Import Conc.Pipeline Conc.PipelineExplore Conc.PipelineSpec Conc.PipelineLiveCore.
Import ListNotations.

(* projections of rebuilt states, without touching anything else *)
Ltac psimpl :=
  cbn [thrs rdrs qlog qhead qtail slotv visible next_seq avail mutex uaf bg put_thr put_b put_slot
       st_thrs st_rdrs st_qlog st_head st_tail st_slotv st_visible st_next st_avail st_mutex st_uaf st_bg].
Ltac psimpl_in H :=
  cbn [thrs rdrs qlog qhead qtail slotv visible next_seq avail mutex uaf bg put_thr put_b put_slot
       st_thrs st_rdrs st_qlog st_head st_tail st_slotv st_visible st_next st_avail st_mutex st_uaf st_bg] in H.

Lemma nth_error_snoc_inv : forall A (l : list A) x q y, nth_error (l ++ [x]) q = Some y ->
  (q < length l /\ nth_error l q = Some y) \/ (q = length l /\ y = x).
Proof.
  intros A l x q y H. destruct (Nat.lt_ge_cases q (length l)) as [Hlt|Hge].
  - left. rewrite nth_error_app1 in H by auto. auto.
  - right. rewrite nth_error_app2 in H by auto. destruct (q - length l) as [|k] eqn:E; simpl in H.
    + injection H as <-. split; auto. lia.
    + destruct k; discriminate.
Qed.

Definition sameA (b b1 : pbatch) : Prop := b_applied b1 = b_applied b.
Definition sameR (b b1 : pbatch) : Prop := b_res b1 = b_res b.
Definition sameQ (b b1 : pbatch) : Prop := b_qref b1 = b_qref b.
(* the log changed at most in one batch, in a way that preserves R *)
Definition logrel (R : pbatch -> pbatch -> Prop) (l l' : list pbatch) : Prop :=
  length l' = length l /\
  forall q b', nth_error l' q = Some b' -> exists b0, nth_error l q = Some b0 /\ R b0 b'.

Lemma logrel_refl : forall (R : pbatch -> pbatch -> Prop) l, (forall b, R b b) -> logrel R l l.
Proof. intros R l Hr. split; auto. intros q b' H. exists b'. split; auto. Qed.
Lemma logrel_set : forall (R : pbatch -> pbatch -> Prop) l p b b1, (forall b, R b b) ->
  nth_error l p = Some b -> R b b1 -> logrel R l (set_nth p b1 l).
Proof.
  intros R l p b b1 Hr Hp Hc. split; [apply set_nth_length|]. intros q b' Hq.
  apply nth_error_set_nth_inv in Hq as [[-> ->]|[Hne Hq]].
  - exists b. auto.
  - exists b'. split; auto.
Qed.
Lemma logrel_ret : forall (R : pbatch -> pbatch -> Prop) l l' (t : thr), (forall b, R b b) ->
  (forall b, R b (drop_oref b)) ->
  (l' = l \/ exists p b, t_my t = Some p /\ nth_error l p = Some b /\ l' = set_nth p (drop_oref b) l) -> logrel R l l'.
Proof.
  intros R l l' t Hr Hd [->|[p [b [_ [Hp ->]]]]]; [apply logrel_refl; auto|].
  eapply logrel_set; eauto.
Qed.

Lemma my_batch_inv : forall s t n b, my_batch s t = Some (n, b) -> t_my t = Some n /\ nth_error (qlog s) n = Some b.
Proof.
  intros s t n b Hm. unfold my_batch, get_b in Hm. destruct (t_my t) as [pm|]; [|discriminate].
  destruct (nth_error (qlog s) pm) as [bm|] eqn:Hbm; [|discriminate]. injection Hm as <- <-. auto.
Qed.

Lemma logrel_my : forall (R : pbatch -> pbatch -> Prop) s t n b b1, (forall b, R b b) ->
  my_batch s t = Some (n, b) -> R b b1 -> logrel R (qlog s) (set_nth n b1 (qlog s)).
Proof. intros R s t n b b1 Hr Hm Hc. apply my_batch_inv in Hm as [_ Hm]. eapply logrel_set; eauto. Qed.

Lemma logrel_getb : forall (R : pbatch -> pbatch -> Prop) s n b b1, (forall b, R b b) ->
  get_b s n = Some b -> R b b1 -> logrel R (qlog s) (set_nth n b1 (qlog s)).
Proof. intros R s n b b1 Hr Hm Hc. eapply logrel_set; eauto. Qed.

Ltac rel_refl := solve [ unfold sameA, sameR, sameQ; intros; simpl; auto ].

(* discharges the logrel side condition of the frame lemmas *)
Ltac logrel_tac :=
  psimpl;
  first [ apply logrel_refl; rel_refl
        | match goal with Hr8 : _ \/ _ |- _ => eapply logrel_ret; [rel_refl | rel_refl | exact Hr8] end
        | match goal with Hm : my_batch _ _ = Some _ |- _ => eapply logrel_my; [ rel_refl | exact Hm | rel_refl ] end
        | match goal with Hm : get_b _ _ = Some _ |- _ => eapply logrel_getb; [ rel_refl | exact Hm | rel_refl ] end ].

Definition QF (s : plstate) : Prop := forall b, nth_error (qlog s) (qhead s) = Some b -> b_applied b = false.
Definition QREF (s : plstate) : Prop := forall p b, qtail s <= p -> nth_error (qlog s) p = Some b -> b_qref b = true.
Definition RES (s : plstate) : Prop :=
  forall p b, nth_error (qlog s) p = Some b -> b_res b = None \/ (b_res b = Some true /\ p < qtail s).

Lemma qf_frame : forall c s s0 i x, Inv c s -> qhead s0 = qhead s -> logrel sameA (qlog s) (qlog s0) -> QF (put_thr s0 i x).
Proof.
  intros c s s0 i x HI Hh [_ Hl] b Hb. psimpl_in Hb. rewrite Hh in Hb.
  destruct (Hl _ _ Hb) as [b0 [Hb0 Ha]]. rewrite Ha. apply (i_qf c s HI b0 Hb0).
Qed.
Lemma qref_frame : forall c s s0 i x, Inv c s -> qtail s <= qtail s0 -> logrel sameQ (qlog s) (qlog s0) -> QREF (put_thr s0 i x).
Proof.
  intros c s s0 i x HI Hh [_ Hl] p b Hp Hb. psimpl_in Hb. psimpl_in Hp.
  destruct (Hl _ _ Hb) as [b0 [Hb0 Ha]]. rewrite Ha. apply (i_qref c s HI p b0); auto. lia.
Qed.
Lemma res_frame : forall c s s0 i x, Inv c s -> qtail s <= qtail s0 -> logrel sameR (qlog s) (qlog s0) -> RES (put_thr s0 i x).
Proof.
  intros c s s0 i x HI Hh [_ Hl] p b Hb. psimpl_in Hb. psimpl.
  destruct (Hl _ _ Hb) as [b0 [Hb0 Ha]]. rewrite Ha.
  destruct (i_res c s HI p b0 Hb0) as [Hr|[Hr1 Hr2]]; auto. right. split; auto. lia.
Qed.

Lemma qf_step : forall c s i t l s', Inv c s -> thr_at s i t -> ok_label l -> step_commit c s i t l = Some s' -> QF s'.
Proof.
  intros c s i t l s' HI Ht Hok H.
  step_start c s i t l H HI Ht Hok.
  all: try exact (i_qf c s HI).
  all: try (eapply qf_frame; try exact HI; psimpl; auto; logrel_tac).
  - (* LEnqStored *)
    intros b Hb. simpl in Hb. specialize (Hls2 ltac:(discriminate)). rewrite <- Hls2 in Hb.
    rewrite nth_error_app_last in Hb. injection Hb as <-. reflexivity.
  - (* LEnqDone *)
    intros b Hb. psimpl_in Hb. destruct (Hls1 eq_refl) as [Hlen _].
    apply nth_error_lt in Hb. lia.
  - (* LMarked *)
    intros b Hb. simpl in Hb. apply my_batch_inv in Hm as [Hm1 Hm2].
    destruct Hti as [_ [_ [_ Hq]]]. unfold my_lt in Hq. rewrite Hm1 in Hq.
    rewrite nth_error_set_nth_neq in Hb by lia. apply (i_qf c s HI b Hb).
Qed.

Lemma qref_step : forall c s i t l s', Inv c s -> thr_at s i t -> ok_label l -> step_commit c s i t l = Some s' -> QREF s'.
Proof.
  intros c s i t l s' HI Ht Hok H.
  step_start c s i t l H HI Ht Hok.
  all: try exact (i_qref c s HI).
  all: try (eapply qref_frame; try exact HI; psimpl; auto; try lia; logrel_tac).
  - (* LEnqStored *)
    intros q b Hq Hb. psimpl_in Hb. psimpl_in Hq.
    apply nth_error_snoc_inv in Hb as [[_ Hb]|[_ ->]]; [apply (i_qref c s HI q b Hq Hb)|reflexivity].
  - (* LDeqLoaded, dropping the Arc of the batch completed before *)
    intros q b Hq Hb. psimpl_in Hb. psimpl_in Hq. destruct Hti as [_ [_ [_ [_ Hp]]]].
    rewrite nth_error_set_nth_neq in Hb by lia. apply (i_qref c s HI q b Hq Hb).
Qed.

Lemma res_step : forall c s i t l s', Inv c s -> thr_at s i t -> ok_label l -> step_commit c s i t l = Some s' -> RES s'.
Proof.
  intros c s i t l s' HI Ht Hok H.
  step_start c s i t l H HI Ht Hok.
  all: try exact (i_res c s HI).
  all: try (eapply res_frame; try exact HI; psimpl; auto; try lia; logrel_tac).
  - (* LEnqStored *)
    intros q b Hb. psimpl_in Hb. psimpl.
    apply nth_error_snoc_inv in Hb as [[_ Hb]|[_ ->]]; [apply (i_res c s HI q b Hb)|left; reflexivity].
  - (* LPubCompleted *)
    intros q b Hb. psimpl_in Hb. psimpl. destruct Hti as [_ [_ [_ [_ Hp]]]].
    apply nth_error_set_nth_inv in Hb as [[-> ->]|[Hne Hb]]; [|apply (i_res c s HI q b Hb)].
    right. split; auto. simpl. destruct (i_res c s HI p p0 Hm) as [->|[-> _]]; reflexivity.
Qed.
