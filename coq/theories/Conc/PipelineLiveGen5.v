(* Conc/PipelineLiveGen5.v — the invariant of the whole system along runs; deadlock freedom except for
   the starved flush task *)
From Coq Require Import List Arith Bool Lia.
From SKV Require Import Conc.Pipeline Conc.PipelineExplore Conc.PipelineSpec Conc.PipelineLiveBase
  Conc.PipelineLiveGen Conc.PipelineLiveGen2 Conc.PipelineLiveGen3 Conc.PipelineLiveGen4.
Import ListNotations.

Lemma ginv_commit_step : forall c s i t l s', GInv c s -> thr_at s i t -> gok_label c l ->
  step_commit c s i t l = Some s' -> GInv c s'.
Proof.
  intros c s i t l s' HI Ht Hok H. constructor.
  - eapply bgi_gstep; eauto.
  - eapply slots_gstep; eauto.
  - eapply ht_gstep; eauto.
  - eapply T_gstep; eauto.
  - eapply mx_gstep; eauto.
  - eapply ls_gstep; eauto.
  - eapply pm_gstep; eauto.
  - eapply r1_gstep; eauto.
  - eapply r2_gstep; eauto.
  - eapply r3_gstep; eauto.
  - eapply r4_gstep; eauto.
  - eapply qf_gstep; eauto.
  - eapply qref_gstep; eauto.
  - eapply own_gstep; eauto.
  - eapply deq_gstep; eauto.
  - eapply help_gstep; eauto.
  - eapply stall_gstep; eauto.
  - eapply acc_gstep; eauto.
Qed.

(* a step that only touches the readers, the background state or the uaf flag *)
Lemma ginv_frame : forall c s s', GInv c s ->
  thrs s' = thrs s -> qlog s' = qlog s -> qhead s' = qhead s -> qtail s' = qtail s -> slotv s' = slotv s ->
  avail s' = avail s -> mutex s' = mutex s -> g_epoch (bg s) <= g_epoch (bg s') -> BGI (bg s') -> STALL c s' -> ACC s' -> GInv c s'.
Proof.
  intros c s s' HI H1 H2 H3 H4 H5 H6 H7 He Hbg Hst Hacc.
  assert (Hg : gleG s s') by (unfold gleG, gle; rewrite H2, H3, H4; lia).
  destruct HI. constructor;
    unfold MX, LS, PM, R1, R2, R3, R4, QF, QREF, OWNG, DEQG, HELPG, thr_at in *;
    rewrite ?H1, ?H2, ?H3, ?H4, ?H5, ?H6, ?H7; auto.
  intros j tj Hj. eapply gtinv_stable; eauto.
Qed.

Lemma stall_same : forall c s s', GInv c s -> thrs s' = thrs s -> g_epoch (bg s') = g_epoch (bg s) ->
  g_stall_sd (bg s') = g_stall_sd (bg s) -> g_imm (bg s) <= g_imm (bg s') ->
  (g_fpc (bg s) = FFlushed -> g_fpc (bg s') = FFlushed) -> STALL c s'.
Proof.
  intros c s s' HI Hth He Hsd Him Hf j tj ep Hj Hp Hep. unfold thr_at in Hj. rewrite Hth in Hj. rewrite He in Hep.
  destruct (g_stall c s HI j tj ep Hj Hp Hep) as [H1 [H2|H2]]; rewrite Hsd; split; auto. left. lia.
Qed.

Lemma stall_fl : forall c s s', GInv c s -> thrs s' = thrs s -> g_epoch (bg s') = g_epoch (bg s) ->
  g_stall_sd (bg s') = g_stall_sd (bg s) -> g_fpc (bg s') = FFlushed -> STALL c s'.
Proof.
  intros c s s' HI Hth He Hsd Hf j tj ep Hj Hp Hep. unfold thr_at in Hj. rewrite Hth in Hj. rewrite He in Hep.
  destruct (g_stall c s HI j tj ep Hj Hp Hep) as [H1 _]. rewrite Hsd. auto.
Qed.

Lemma stall_epoch : forall c s s', GInv c s -> thrs s' = thrs s -> g_epoch (bg s') = S (g_epoch (bg s)) -> STALL c s'.
Proof.
  intros c s s' HI Hth He j tj ep Hj Hp Hep. exfalso. unfold thr_at in Hj. rewrite Hth in Hj.
  pose proof (g_thr c s HI j tj Hj) as [_ [_ Hq]]. destruct Hp as [Hp|Hp]; rewrite Hp in Hq; lia.
Qed.

Ltac bgi_split Hbg :=
  destruct Hbg as [B1 [B2 [B3 [B4 [B5 [B6 [B7 [B8 [B9 B10]]]]]]]]]; unfold BGI; simpl.

Lemma ginv_flush_step : forall c s l s', GInv c s -> step_flush s l = Some s' -> GInv c s'.
Proof.
  intros c s l s' HI H. pose proof (g_bgi c s HI) as Hbg. pose proof (g_acc c s HI) as Hacc. unfold ACC in Hacc.
  unfold step_flush in H.
  destruct l; destruct (g_fpc (bg s)) eqn:Hf; try discriminate H; inv_guard H; try (injection H as <-); boolp.
  all: try (destruct (g_imm (bg s)) eqn:Himm).
  all: eapply ginv_frame; try exact HI; psimpl; auto; simpl; try lia.
  all: try solve [ eapply stall_epoch; [exact HI | reflexivity | reflexivity] ].
  all: try solve [ eapply stall_fl; [exact HI | reflexivity | reflexivity | reflexivity | reflexivity] ].
  all: try solve [ eapply stall_same; [exact HI | reflexivity | reflexivity | reflexivity | simpl; lia | simpl; rewrite Hf; discriminate] ].
  all: try solve [ (unfold ACC; psimpl; simpl; intros H1 H2 H3;
                   first [ solve [destruct H1 as [H1|H1]; discriminate H1] | discriminate H2 | discriminate H3
                         | solve [apply Hacc; auto] | solve [rewrite ?Himm; apply Hacc; auto] | solve [rewrite ?Himm; lia]
                         | solve [rewrite H3 in *; simpl in *; boolp; lia]
                         | solve [destruct Hbg as [_ [_ [_ [_ [_ [_ [_ [_ [_ B10]]]]]]]]]; unfold BGI in *;
                                  first [ rewrite (B10 eq_refl) in H2 | rewrite (B10 Hf) in H2 ]; discriminate H2] ]) ].
  all: try solve [ (bgi_split Hbg; rewrite ?Hf in *; simpl in *;
    (split; [|split; [|split; [|split; [|split; [|split; [|split; [|split; [|split]]]]]]]]);
    try solve [ auto | intros; discriminate | intros; lia | intros; congruence ];
    intros Hx; destruct (B8 Hx) as [[Hn|[Hn|Hn]] Hn2]; try discriminate Hn; (split; [|first [exact Hn2 | auto]]); auto;
    try (exfalso; assert (g_stop (bg s) = true) by (apply B3; destruct (g_xpc (bg s)); simpl in *; auto; discriminate);
         congruence)) ].
Qed.

Lemma xnot_stopped : forall x, xnotified x = true -> xstopped x = true.
Proof. destruct x; simpl; auto. Qed.

Lemma ginv_level_step : forall c s l s', GInv c s -> step_level s l = Some s' -> GInv c s'.
Proof.
  intros c s l s' HI H. pose proof (g_bgi c s HI) as Hbg. unfold step_level in H.
  destruct l; destruct (g_lpc (bg s)) eqn:Hf; try discriminate H; inv_guard H; try (injection H as <-); boolp.
  all: eapply ginv_frame; try exact HI; psimpl; auto; simpl; try lia.
  all: try solve [ eapply stall_epoch; [exact HI | reflexivity | reflexivity] ].
  all: try solve [ eapply stall_same; [exact HI | reflexivity | reflexivity | reflexivity | simpl; lia | simpl; auto] ].
  all: try solve [ (unfold ACC; psimpl; simpl; intros H1 H2 H3; first [ discriminate H2 | solve [apply (g_acc c s HI); auto] ]) ].
  all: bgi_split Hbg; rewrite ?Hf in *; simpl in *;
    (split; [|split; [|split; [|split; [|split; [|split; [|split; [|split; [|split]]]]]]]]);
    try solve [ auto | intros; discriminate | intros; lia | intros; congruence ].
  all: try solve [ intros Hx; destruct (B8 Hx) as [Hn1 [Hn|[Hn|Hn]]]; try discriminate Hn; (split; [first [exact Hn1 | auto]|]); auto;
    try (exfalso; assert (g_stop (bg s) = true) by (apply B3; apply xnot_stopped; exact Hx); congruence) ].
Qed.

Lemma ginv_closer_step : forall c s l s', GInv c s -> step_closer s l = Some s' -> GInv c s'.
Proof.
  intros c s l s' HI H. pose proof (g_bgi c s HI) as Hbg. unfold step_closer in H.
  destruct l; destruct (g_xpc (bg s)) eqn:Hf; try discriminate H; inv_guard H; try (injection H as <-); boolp;
    try exact HI.
  all: eapply ginv_frame; try exact HI; psimpl; auto; simpl; try lia.
  all: try solve [ eapply stall_epoch; [exact HI | reflexivity | reflexivity] ].
  all: try solve [ eapply stall_same; [exact HI | reflexivity | reflexivity | reflexivity | simpl; lia | simpl; auto] ].
  all: try solve [ (unfold ACC; psimpl; simpl; intros H1 H2 H3; first [ discriminate H2 | solve [apply (g_acc c s HI); auto] ]) ].
  all: bgi_split Hbg; rewrite ?Hf in *; simpl in *;
    (split; [|split; [|split; [|split; [|split; [|split; [|split; [|split; [|split]]]]]]]]);
    try solve [ auto | intros; discriminate | intros; lia | intros; congruence ].
Qed.

Lemma ginv_step : forall c s a l s', GInv c s -> gok_label c l -> pstep c s a l = Some s' -> GInv c s'.
Proof.
  intros c s a l s' HI Hok H. destruct a as [i|i| | | | ]; unfold pstep in H.
  - unfold get_thr in H. destruct (nth_error (thrs s) i) as [t|] eqn:Ht; [|discriminate].
    eapply ginv_commit_step; eauto.
  - destruct (nth_error (rdrs s) i) as [r|]; [|discriminate]. unfold step_reader in H.
    destruct l; destruct r; try discriminate H; inv_guard H; try (injection H as <-); try exact HI;
      eapply ginv_frame; try exact HI; psimpl; auto; try exact (g_bgi c s HI); try exact (g_stall c s HI); exact (g_acc c s HI).
  - eapply ginv_flush_step; eauto.
  - eapply ginv_level_step; eauto.
  - eapply ginv_closer_step; eauto.
  - destruct l; try discriminate H. inv_guard H. injection H as <-.
    pose proof (g_bgi c s HI) as Hbg.
    eapply ginv_frame; try exact HI; psimpl; auto.
    + bgi_split Hbg. (split; [|split; [|split; [|split; [|split; [|split; [|split; [|split; [|split]]]]]]]]); auto.
      intros Hx. destruct (B8 Hx) as [Hn1 Hn2]. auto.
    + eapply stall_same; [exact HI | reflexivity | reflexivity | reflexivity | simpl; lia | simpl; auto].
    + exact (g_acc c s HI).
Qed.

Definition gok_run (c : cfg) (evs : list (actor * label)) : Prop := forall a l, In (a, l) evs -> gok_label c l.

Lemma ginv_run : forall c evs s s', GInv c s -> gok_run c evs -> prun c s evs = Some s' -> GInv c s'.
Proof.
  intros c evs. induction evs as [|[a l] r IH]; intros s s' HI Hok H; simpl in H.
  - injection H as <-. exact HI.
  - destruct (pstep c s a l) as [s1|] eqn:Hs; [|discriminate].
    apply (IH s1 s'); auto.
    + eapply ginv_step; eauto. apply (Hok a l). left. reflexivity.
    + intros a' l' Hin. apply (Hok a' l'). right. exact Hin.
Qed.

Lemma ginv_init : forall c n m v, 0 < c_slots c -> GInv c (pinit c n m v).
Proof.
  intros c n m v Hs. constructor;
    unfold MX, LS, PM, R1, R2, R3, R4, QF, QREF, OWNG, DEQG, HELPG, STALL, ACC, thr_at; simpl; auto.
  - unfold BGI, bg0. simpl. repeat split; auto; intros; discriminate.
  - rewrite repeat_length. auto.
  - lia.
  - intros j tj Hj. apply nth_error_repeat in Hj. subst. unfold gtinv, thr0. simpl. repeat split; auto. discriminate.
  - intros j tj Hj Hl0. apply nth_error_repeat in Hj. subst. discriminate.
  - rewrite held_repeat0. lia.
  - intros k q Hk. apply nth_error_repeat in Hk. discriminate.
  - intros p Hp1 Hp2. lia.
  - intros j tj t0 p Hj Hp. apply nth_error_repeat in Hj. subst. discriminate.
  - intros j1 j2 t1 t2 t0 p1 p2 H1 H2 Hp. apply nth_error_repeat in H1. subst. discriminate.
  - intros b Hb. discriminate.
  - intros p b _ Hb. destruct p; discriminate.
  - intros p b _ Hb. destruct p; discriminate.
  - intros p b Hp. lia.
  - intros b Hlt. lia.
  - intros j tj ep Hj [Hp|Hp]; apply nth_error_repeat in Hj; subst; discriminate.
  - intros. lia.
Qed.
