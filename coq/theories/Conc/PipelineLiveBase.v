(* Conc/PipelineLiveBase.v — shared definitions, list lemmas and tactics of the liveness development *)
From Coq Require Import List Arith Bool Lia.
From SKV Require Import Conc.Pipeline Conc.PipelineExplore Conc.PipelineSpec.
Import ListNotations.

(* ------------------------------------------------------------------ general-purpose lemmas *)
Lemma set_nth_length : forall A (l : list A) i x, length (set_nth i x l) = length l.
Proof. induction l; intros [|i] x; simpl; auto. Qed.

Lemma nth_error_set_nth_eq : forall A (l : list A) i x, i < length l -> nth_error (set_nth i x l) i = Some x.
Proof. induction l; intros [|i] x H; simpl in *; try lia; auto. apply IHl. lia. Qed.

Lemma nth_error_set_nth_neq : forall A (l : list A) i j x, i <> j -> nth_error (set_nth i x l) j = nth_error l j.
Proof. induction l; intros [|i] [|j] x H; simpl; auto; try congruence. Qed.

Lemma nth_error_set_nth_inv : forall A (l : list A) i j x y,
  nth_error (set_nth i x l) j = Some y -> (j = i /\ y = x) \/ (j <> i /\ nth_error l j = Some y).
Proof.
  intros A l i j x y H. destruct (Nat.eq_dec j i) as [->|Hne].
  - left. split; auto. assert (i < length l).
    { assert (H0 : nth_error (set_nth i x l) i <> None) by congruence.
      apply nth_error_Some in H0. rewrite set_nth_length in H0. exact H0. }
    rewrite nth_error_set_nth_eq in H by assumption. congruence.
  - right. split; auto. rewrite nth_error_set_nth_neq in H by auto. exact H.
Qed.

Lemma nth_error_lt : forall A (l : list A) i x, nth_error l i = Some x -> i < length l.
Proof. intros. apply nth_error_Some. congruence. Qed.

Lemma existsb_set_nth : forall A (f g : A -> bool) l i t x,
  existsb f l = true -> nth_error l i = Some t ->
  (f t = true -> g x = true) -> (forall u, f u = true -> g u = true) ->
  existsb g (set_nth i x l) = true.
Proof.
  induction l; intros [|i] t x He Hn Hx Hu; simpl in *; try discriminate.
  - injection Hn as ->. apply orb_true_iff in He as [He|He].
    + rewrite Hx; auto.
    + apply orb_true_iff. right. rewrite existsb_exists in *. destruct He as [u [? ?]]. exists u; auto.
  - apply orb_true_iff in He as [He|He].
    + rewrite Hu; auto.
    + apply orb_true_iff. right. eapply IHl; eauto.
Qed.

Lemma existsb_set_nth_new : forall A (g : A -> bool) l i x, i < length l -> g x = true -> existsb g (set_nth i x l) = true.
Proof.
  induction l; intros [|i] x Hl Hg; simpl in *; try lia.
  - rewrite Hg. reflexivity.
  - apply orb_true_iff. right. apply IHl; auto. lia.
Qed.

Lemma existsb_mono : forall A (f g : A -> bool) l, (forall u, f u = true -> g u = true) -> existsb f l = true -> existsb g l = true.
Proof.
  intros A f g l H He. rewrite existsb_exists in *. destruct He as [u [? ?]]. exists u; auto.
Qed.

Lemma existsb_nth : forall A (f : A -> bool) l, existsb f l = true -> exists i t, nth_error l i = Some t /\ f t = true.
Proof.
  intros A f l H. rewrite existsb_exists in H. destruct H as [u [Hin Hf]].
  apply In_nth_error in Hin. destruct Hin as [i Hi]. exists i, u. auto.
Qed.

Lemma nth_existsb : forall A (f : A -> bool) l i t, nth_error l i = Some t -> f t = true -> existsb f l = true.
Proof. intros. rewrite existsb_exists. exists t. split; auto. eapply nth_error_In; eauto. Qed.

Lemma mod_eq_gap : forall n a b, 0 < n -> a < b -> a mod n = b mod n -> n <= b - a.
Proof.
  intros n a b Hn Hab Hm.
  pose proof (Nat.div_mod a n ltac:(lia)) as Ha. pose proof (Nat.div_mod b n ltac:(lia)) as Hb.
  rewrite Hm in Ha.
  assert (a / n < b / n).
  { destruct (Nat.lt_ge_cases (a / n) (b / n)); auto.
    assert (n * (b / n) <= n * (a / n)) by (apply Nat.mul_le_mono_l; auto). lia. }
  assert (n * (a / n) + n <= n * (b / n)).
  { replace (n * (a / n) + n) with (n * S (a / n)) by lia. apply Nat.mul_le_mono_l. lia. }
  lia.
Qed.

Lemma nth_error_app_last : forall A (l : list A) x, nth_error (l ++ [x]) (length l) = Some x.
Proof. intros. rewrite nth_error_app2 by lia. rewrite Nat.sub_diag. reflexivity. Qed.

Ltac show_all :=
  match goal with |- ?g =>
    idtac "=== GOAL"; try (match goal with H : ?T |- _ => idtac H ":" T; fail end); idtac "|-" g
  end.

(* ------------------------------------------------------------------ the invariant *)
Definition thr_at (s : plstate) (i : nat) (t : thr) : Prop := nth_error (thrs s) i = Some t.

Definition locked_pc (p : ppc) : bool :=
  match p with
  | CLocked | CChecked | CAlloc | COrPub | CEnqLoaded | CEnqFullSeen | CEnqPanic | CEnqStored | CEnqDone | CEnqueued
  | CWalFailed | CFailDoneLocked | CMarkedLocked => true
  | _ => false
  end.

Definition permit_pc (p : ppc) : bool :=
  match p with
  | CIdle | CEntered | CStallReg _ | CStallCounted _ _ | CStallBlocked _ | CStallOk | CReturned _ => false
  | _ => true
  end.

Definition postmark (p : ppc) : bool :=
  match p with
  | CPubTop | CPubHold _ | CDeqLoaded _ _ | CDeqSlot _ _ _ | CDeqChecked _ _ _ | CDeqNone | CDeqWon _ _ | CDeqOwned _
  | CVisTop _ | CVisLoaded _ _ | CVisDone _ | CPubExit | CWaitDone => true
  | _ => false
  end.

Definition my_lt (t : thr) (n : nat) : Prop := match t_my t with Some p => p < n | None => False end.

Definition my_is (p : nat) (t : thr) : bool := match t_my t with Some q => Nat.eqb q p | None => false end.
Definition holds (p : nat) (t : thr) : bool :=
  match t_pc t with
  | CDeqWon _ q | CDeqOwned q | CVisTop q | CVisLoaded q _ | CVisDone q => Nat.eqb q p
  | _ => false
  end.
Definition won (q : nat) (t : thr) : bool :=
  match t_pc t with CDeqWon t0 _ => Nat.eqb t0 q | _ => false end.
Definition helper (tl : nat) (t : thr) : bool :=
  match t_pc t with
  | CPubTop | CPubHold _ | CDeqWon _ _ | CDeqOwned _ | CVisTop _ | CVisLoaded _ _ | CVisDone _ => true
  | CDeqLoaded _ t0 | CDeqSlot _ t0 _ | CDeqChecked _ t0 _ => Nat.eqb t0 tl
  | _ => false
  end.
Fixpoint held (l : list thr) : nat :=
  match l with [] => 0 | t :: r => (if t_permit t then 1 else 0) + held r end.

Definition gle (s s' : plstate) : Prop :=
  qtail s <= qtail s' /\ qhead s <= qhead s' /\ length (qlog s) <= length (qlog s').

Lemma my_lt_mono : forall t n m, my_lt t n -> n <= m -> my_lt t m.
Proof. unfold my_lt. intros t n m H Hle. destruct (t_my t); auto. lia. Qed.

(* ------------------------------------------------------------------ step inversion *)
Ltac inv_guard H :=
  repeat match type of H with
  | guard ?b _ = Some _ => let Hg := fresh "Hg" in destruct b eqn:Hg; [ unfold guard in H | discriminate H ]
  | match ?x with _ => _ end = Some _ => let Hm := fresh "Hm" in destruct x eqn:Hm; try discriminate H
  | (if ?x then _ else _) = Some _ => let Hm := fresh "Hm" in destruct x eqn:Hm; try discriminate H
  end.


Lemma thr_at_put : forall s0 i x j tj, thr_at (put_thr s0 i x) j tj ->
  (j = i /\ tj = x) \/ (j <> i /\ thr_at s0 j tj).
Proof. unfold thr_at, put_thr. simpl. intros. apply nth_error_set_nth_inv in H. exact H. Qed.

Ltac boolp := repeat match goal with
  | H : _ && _ = true |- _ => apply andb_true_iff in H; destruct H
  | H : (_ =? _) = true |- _ => apply Nat.eqb_eq in H
  | H : (_ =? _) = false |- _ => apply Nat.eqb_neq in H
  | H : (_ <? _) = true |- _ => apply Nat.ltb_lt in H
  | H : (_ <? _) = false |- _ => apply Nat.ltb_ge in H
  | H : (_ <=? _) = true |- _ => apply Nat.leb_le in H
  | H : (_ <=? _) = false |- _ => apply Nat.leb_gt in H
  | H : negb _ = true |- _ => apply negb_true_iff in H
  | H : negb _ = false |- _ => apply negb_false_iff in H
  | H : _ || _ = false |- _ => apply orb_false_iff in H; destruct H
  | H : Bool.eqb _ _ = true |- _ => apply Bool.eqb_prop in H
  end.

Lemma do_return_shape : forall s i t r, exists s2,
  do_return s i t r = put_thr s2 i (with_permit (with_pc t (CReturned r)) false) /\
  thrs s2 = thrs s /\ qhead s2 = qhead s /\ qtail s2 = qtail s /\ slotv s2 = slotv s /\ mutex s2 = mutex s /\
  bg s2 = bg s /\ avail s2 = (if t_permit t then S (avail s) else avail s) /\
  (qlog s2 = qlog s \/
   exists p b, t_my t = Some p /\ nth_error (qlog s) p = Some b /\ qlog s2 = set_nth p (drop_oref b) (qlog s)).
Proof.
  intros s i t r. unfold do_return, my_batch, get_b.
  destruct (t_permit t); simpl; destruct (t_my t) as [p|]; simpl;
    try (destruct (nth_error (qlog s) p) as [b|] eqn:Hb); simpl;
    eexists; (split; [reflexivity|]); simpl; repeat split; auto;
    try (right; exists p, b; auto).
Qed.

Lemma nth_error_drop_oref : forall l p b q b', nth_error l p = Some b ->
  nth_error (set_nth p (drop_oref b) l) q = Some b' ->
  exists b0, nth_error l q = Some b0 /\ b_applied b' = b_applied b0 /\ b_res b' = b_res b0 /\ b_qref b' = b_qref b0.
Proof.
  intros l p b q b' Hp Hq. apply nth_error_set_nth_inv in Hq as [[-> ->]|[Hne Hq]].
  - exists b. auto.
  - exists b'. auto.
Qed.

Ltac ret_shape :=
  try match goal with |- context [do_return ?s0 ?i0 ?t0 ?r] =>
    destruct (do_return_shape s0 i0 t0 r) as [s2 [Hs2 [Hr1 [Hr2 [Hr3 [Hr4 [Hr5 [Hr6 [Hr7 Hr8]]]]]]]]];
    rewrite Hs2; clear Hs2; simpl in Hr1, Hr2, Hr3, Hr4, Hr5, Hr6, Hr7, Hr8;
    assert (Hrl : length (qlog s2) = length (qlog s0))
      by (destruct Hr8 as [Hr8|[? [? [_ [_ Hr8]]]]]; rewrite Hr8; rewrite ?set_nth_length; reflexivity);
    simpl in Hrl
  end.

(* who is thread j of the successor state *)
Ltac thr_cases Hj Hne :=
  try (apply thr_at_put in Hj as [[-> ->]|[Hne Hj]]);
  try match goal with Hr1 : thrs ?s2 = _ |- _ => unfold thr_at in Hj; rewrite Hr1 in Hj; fold (thr_at) in Hj end.

Definition LS (c : cfg) (s : plstate) : Prop :=
  match mutex s with
  | None => length (qlog s) = qhead s
  | Some i => exists t, thr_at s i t /\ locked_pc (t_pc t) = true /\
              (t_pc t = CEnqStored -> length (qlog s) = S (qhead s) /\ t_my t = Some (qhead s)) /\
              (t_pc t <> CEnqStored -> length (qlog s) = qhead s) /\
              (t_pc t = CEnqLoaded \/ t_pc t = CEnqStored -> qhead s < qtail s + c_slots c)
  end.

Lemma thr_at_put_eq : forall s s0 i t x, thr_at s i t -> thrs s0 = thrs s -> thr_at (put_thr s0 i x) i x.
Proof.
  intros. unfold thr_at, put_thr. simpl. rewrite H0. apply nth_error_set_nth_eq. eapply nth_error_lt; eauto.
Qed.

Lemma thr_at_put_neq : forall s s0 i j tj x, thr_at s j tj -> thrs s0 = thrs s -> j <> i -> thr_at (put_thr s0 i x) j tj.
Proof.
  intros. unfold thr_at, put_thr. simpl. rewrite H0. rewrite nth_error_set_nth_neq; auto.
Qed.

Ltac exists_new_thr Ht :=
  eexists; split; [ eapply thr_at_put_eq; [ exact Ht | reflexivity ] | ].

Lemma held_set_nth : forall l i t x, nth_error l i = Some t ->
  held (set_nth i x l) + (if t_permit t then 1 else 0) = held l + (if t_permit x then 1 else 0).
Proof.
  induction l; intros [|i] t x H; simpl in *; try discriminate.
  - injection H as ->. lia.
  - specialize (IHl i t x H). lia.
Qed.

(* ------------------------------------------------------------------ the ring *)
Definition R1 (c : cfg) (s : plstate) : Prop :=
  forall k q, nth_error (slotv s) k = Some (Some q) ->
    k = q mod c_slots c /\ ((qtail s <= q /\ q < length (qlog s)) \/ existsb (won q) (thrs s) = true).
Definition R2 (c : cfg) (s : plstate) : Prop :=
  forall p, qtail s <= p -> p < length (qlog s) -> nth_error (slotv s) (p mod c_slots c) = Some (Some p).
Definition R3 (c : cfg) (s : plstate) : Prop :=
  forall j tj t0 p, thr_at s j tj -> t_pc tj = CDeqWon t0 p -> nth_error (slotv s) (t0 mod c_slots c) = Some (Some t0).
Definition R4 (s : plstate) : Prop :=
  forall j1 j2 t1 t2 t0 p1 p2, thr_at s j1 t1 -> thr_at s j2 t2 ->
    t_pc t1 = CDeqWon t0 p1 -> t_pc t2 = CDeqWon t0 p2 -> j1 = j2.

(* projections of rebuilt states, without touching anything else *)
Ltac psimpl :=
  cbn [thrs rdrs qlog qhead qtail slotv visible next_seq avail mutex uaf bg put_thr put_b put_slot
       st_thrs st_rdrs st_qlog st_head st_tail st_slotv st_visible st_next st_avail st_mutex st_uaf st_bg].
Ltac psimpl_in H :=
  cbn [thrs rdrs qlog qhead qtail slotv visible next_seq avail mutex uaf bg put_thr put_b put_slot
       st_thrs st_rdrs st_qlog st_head st_tail st_slotv st_visible st_next st_avail st_mutex st_uaf st_bg] in H.

Lemma nth_error_snoc_inv : forall A (l : list A) x q y, nth_error (l ++ [x]) q = Some y ->
  (q < length l /\ nth_error l q = Some y) \/ (q = length l /\ y = x).
Proof.
  intros A l x q y H. destruct (Nat.lt_ge_cases q (length l)) as [Hlt|Hge].
  - left. rewrite nth_error_app1 in H by auto. auto.
  - right. rewrite nth_error_app2 in H by auto. destruct (q - length l) as [|k] eqn:E; simpl in H.
    + injection H as <-. split; auto. lia.
    + destruct k; discriminate.
Qed.

Definition sameA (b b1 : pbatch) : Prop := b_applied b1 = b_applied b.
Definition sameR (b b1 : pbatch) : Prop := b_res b1 = b_res b.
Definition sameQ (b b1 : pbatch) : Prop := b_qref b1 = b_qref b.
(* the log changed at most in one batch, in a way that preserves R *)
Definition logrel (R : pbatch -> pbatch -> Prop) (l l' : list pbatch) : Prop :=
  length l' = length l /\
  forall q b', nth_error l' q = Some b' -> exists b0, nth_error l q = Some b0 /\ R b0 b'.

Lemma logrel_refl : forall (R : pbatch -> pbatch -> Prop) l, (forall b, R b b) -> logrel R l l.
Proof. intros R l Hr. split; auto. intros q b' H. exists b'. split; auto. Qed.
Lemma logrel_set : forall (R : pbatch -> pbatch -> Prop) l p b b1, (forall b, R b b) ->
  nth_error l p = Some b -> R b b1 -> logrel R l (set_nth p b1 l).
Proof.
  intros R l p b b1 Hr Hp Hc. split; [apply set_nth_length|]. intros q b' Hq.
  apply nth_error_set_nth_inv in Hq as [[-> ->]|[Hne Hq]].
  - exists b. auto.
  - exists b'. split; auto.
Qed.
Lemma logrel_ret : forall (R : pbatch -> pbatch -> Prop) l l' (t : thr), (forall b, R b b) ->
  (forall b, R b (drop_oref b)) ->
  (l' = l \/ exists p b, t_my t = Some p /\ nth_error l p = Some b /\ l' = set_nth p (drop_oref b) l) -> logrel R l l'.
Proof.
  intros R l l' t Hr Hd [->|[p [b [_ [Hp ->]]]]]; [apply logrel_refl; auto|].
  eapply logrel_set; eauto.
Qed.

Lemma my_batch_inv : forall s t n b, my_batch s t = Some (n, b) -> t_my t = Some n /\ nth_error (qlog s) n = Some b.
Proof.
  intros s t n b Hm. unfold my_batch, get_b in Hm. destruct (t_my t) as [pm|]; [|discriminate].
  destruct (nth_error (qlog s) pm) as [bm|] eqn:Hbm; [|discriminate]. injection Hm as <- <-. auto.
Qed.

Lemma logrel_my : forall (R : pbatch -> pbatch -> Prop) s t n b b1, (forall b, R b b) ->
  my_batch s t = Some (n, b) -> R b b1 -> logrel R (qlog s) (set_nth n b1 (qlog s)).
Proof. intros R s t n b b1 Hr Hm Hc. apply my_batch_inv in Hm as [_ Hm]. eapply logrel_set; eauto. Qed.

Lemma logrel_getb : forall (R : pbatch -> pbatch -> Prop) s n b b1, (forall b, R b b) ->
  get_b s n = Some b -> R b b1 -> logrel R (qlog s) (set_nth n b1 (qlog s)).
Proof. intros R s n b b1 Hr Hm Hc. eapply logrel_set; eauto. Qed.

Ltac rel_refl := solve [ unfold sameA, sameR, sameQ; intros; simpl; auto ].

(* discharges the logrel side condition of the frame lemmas *)
Ltac logrel_tac :=
  psimpl;
  first [ apply logrel_refl; rel_refl
        | match goal with Hr8 : _ \/ _ |- _ => eapply logrel_ret; [rel_refl | rel_refl | exact Hr8] end
        | match goal with Hm : my_batch _ _ = Some _ |- _ => eapply logrel_my; [ rel_refl | exact Hm | rel_refl ] end
        | match goal with Hm : get_b _ _ = Some _ |- _ => eapply logrel_getb; [ rel_refl | exact Hm | rel_refl ] end ].

Definition QF (s : plstate) : Prop := forall b, nth_error (qlog s) (qhead s) = Some b -> b_applied b = false.
Definition QREF (s : plstate) : Prop := forall p b, qtail s <= p -> nth_error (qlog s) p = Some b -> b_qref b = true.
Definition RES (s : plstate) : Prop :=
  forall p b, nth_error (qlog s) p = Some b -> b_res b = None \/ (b_res b = Some true /\ p < qtail s).

Ltac holds_cond Hpc :=
  intros ? Ho; unfold holds in *; simpl in *; rewrite ?Hpc in *; simpl in *;
  repeat match goal with |- context [if ?b then _ else _] => destruct b end; simpl;
  solve [ exact Ho | discriminate Ho ].

Lemma nth_error_repeat : forall A (x : A) n j y, nth_error (repeat x n) j = Some y -> y = x.
Proof. induction n; intros [|j] y H; simpl in H; try discriminate; [congruence|eauto]. Qed.

Lemma held_repeat0 : forall n, held (repeat thr0 n) = 0.
Proof. induction n; simpl; auto. Qed.

Lemma pstep_commit : forall c s i t l, thr_at s i t -> pstep c s (ACommit i) l = step_commit c s i t l.
Proof. intros c s i t l Ht. unfold pstep, get_thr. unfold thr_at in Ht. rewrite Ht. reflexivity. Qed.

Lemma commit_progress : forall c s i t l s', thr_at s i t -> env_label (ACommit i) l = false -> stutter l = false ->
  step_commit c s i t l = Some s' -> progress_step c s.
Proof.
  intros c s i t l s' Ht He Hs H. exists (ACommit i), l, s'. repeat split; auto.
  rewrite (pstep_commit c s i t l Ht). exact H.
Qed.

Lemma my_batch_exists : forall s t n, my_lt t n -> n <= length (qlog s) -> exists p b, my_batch s t = Some (p, b) /\ t_my t = Some p /\ nth_error (qlog s) p = Some b /\ p < n.
Proof.
  intros s t n Hm Hn. unfold my_lt in Hm. unfold my_batch, get_b. destruct (t_my t) as [p|]; [|contradiction].
  destruct (nth_error (qlog s) p) as [b|] eqn:E.
  - exists p, b. auto.
  - apply nth_error_None in E. lia.
Qed.

Lemma getb_exists : forall s p, p < length (qlog s) -> exists b, get_b s p = Some b.
Proof.
  intros s p Hp. unfold get_b. destruct (nth_error (qlog s) p) as [b|] eqn:E; [eauto|].
  apply nth_error_None in E. lia.
Qed.

Ltac prog Ht L := eapply (commit_progress _ _ _ _ L); [ exact Ht | reflexivity | reflexivity | ].

Lemma held_pos : forall l, 0 < held l -> exists j tj, nth_error l j = Some tj /\ t_permit tj = true.
Proof.
  induction l as [|a l IH]; simpl; intros H; [lia|].
  destruct (t_permit a) eqn:E.
  - exists 0, a. auto.
  - destruct (IH ltac:(lia)) as [j [tj [Hj Hp]]]. exists (S j), tj. auto.
Qed.

