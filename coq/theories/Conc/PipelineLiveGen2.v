(* Conc/PipelineLiveGen2.v — the invariant of the whole system, part 2: the ring *)
From Coq Require Import List Arith Bool Lia.
From SKV Require Import Conc.Pipeline Conc.PipelineExplore Conc.PipelineSpec Conc.PipelineLiveBase Conc.PipelineLiveGen.
Import ListNotations.

Lemma r1_gframe : forall c s s0 i t x, GInv c s -> thr_at s i t ->
  thrs s0 = thrs s -> slotv s0 = slotv s -> qtail s0 = qtail s -> length (qlog s) <= length (qlog s0) ->
  (forall q, won q t = true -> won q x = true) -> R1 c (put_thr s0 i x).
Proof.
  intros c s s0 i t x HI Ht Hth Hsl Htl Hlen Hw k q Hk. simpl in *. rewrite Hsl in Hk.
  destruct (g_r1 c s HI k q Hk) as [Hk1 [Hk2|Hk2]]; split; auto.
  - left. lia.
  - right. rewrite Hth. eapply existsb_set_nth; eauto.
Qed.

Lemma r1_gstep : forall c s i t l s', GInv c s -> thr_at s i t -> step_commit c s i t l = Some s' -> R1 c s'.
Proof.
  intros c s i t l s' HI Ht H.
  gstart c s i t l H HI Ht.
  all: try exact (g_r1 c s HI).
  all: try (eapply r1_gframe; try exact HI; try exact Ht; simpl; rewrite ?set_nth_length; auto; try lia;
            intros q Hq; unfold won in Hq; rewrite Hpc in Hq; discriminate Hq).
  - (* LEnqStored *)
    intros k q Hk. simpl in Hk. simpl. rewrite app_length. simpl.
    apply nth_error_set_nth_inv in Hk as [[-> Hq]|[Hne Hk]].
    + injection Hq as ->. split; [reflexivity|]. left. specialize (Hls2 ltac:(discriminate)). lia.
    + destruct (g_r1 c s HI k q Hk) as [Hk1 [Hk2|Hk2]]; split; auto.
      * left. lia.
      * right. eapply existsb_set_nth; eauto. intros Hw. unfold won in Hw. rewrite Hpc in Hw. discriminate.
  - (* LDeqCasOk *)
    intros k q Hk. simpl in Hk. simpl.
    destruct (g_r1 c s HI k q Hk) as [Hk1 [Hk2|Hk2]]; split; auto.
    + destruct (Nat.eq_dec q (qtail s)) as [->|Hne].
      * right. apply existsb_set_nth_new; [eapply nth_error_lt; exact Ht|].
        unfold won. simpl. apply Nat.eqb_refl.
      * left. lia.
    + right. eapply existsb_set_nth; eauto. intros Hw. unfold won in Hw. rewrite Hpc in Hw. discriminate.
  - (* LDeqCleared *)
    intros k q Hk. simpl in Hk. simpl.
    apply nth_error_set_nth_inv in Hk as [[-> Hq]|[Hne Hk]]; [discriminate|].
    destruct (g_r1 c s HI k q Hk) as [Hk1 [Hk2|Hk2]]; split; auto.
    right. eapply existsb_set_nth; eauto. intros Hw. unfold won in Hw. rewrite Hpc in Hw.
    apply Nat.eqb_eq in Hw. subst. exfalso. apply Hne. reflexivity.
Qed.

Lemma r2_gframe : forall c s s0 i x, GInv c s ->
  slotv s0 = slotv s -> qtail s <= qtail s0 -> length (qlog s0) = length (qlog s) -> R2 c (put_thr s0 i x).
Proof.
  intros c s s0 i x HI Hsl Htl Hlen p Hp1 Hp2. simpl in *. rewrite Hsl. apply (g_r2 c s HI); lia.
Qed.

Lemma r2_gstep : forall c s i t l s', GInv c s -> thr_at s i t -> step_commit c s i t l = Some s' -> R2 c s'.
Proof.
  intros c s i t l s' HI Ht H.
  gstart c s i t l H HI Ht.
  all: try exact (g_r2 c s HI).
  all: try (eapply r2_gframe; try exact HI; simpl; rewrite ?set_nth_length; auto; lia).
  - (* LEnqStored *)
    intros p Hp1 Hp2. simpl in *. rewrite app_length in Hp2. simpl in Hp2.
    specialize (Hls2 ltac:(discriminate)). unfold get_slot, slot_ix in *.
    destruct (Nat.eq_dec p (qhead s)) as [->|Hne].
    + apply nth_error_set_nth_eq. apply nth_error_lt in Hm. exact Hm.
    + pose proof (g_r2 c s HI p Hp1 ltac:(lia)) as Hp.
      rewrite nth_error_set_nth_neq; auto. intros Heq. rewrite Heq in Hm. congruence.
  - (* LDeqCleared *)
    intros q Hq1 Hq2. simpl in *. pose proof (g_r2 c s HI q Hq1 Hq2) as Hq.
    pose proof (g_r3 c s HI i t t0 p Ht Hpc) as Hw.
    rewrite nth_error_set_nth_neq; auto. unfold slot_ix. intros Heq. rewrite Heq in Hw.
    destruct Hti as [_ [_ [_ [? ?]]]]. assert (q = t0) by congruence. lia.
Qed.

Lemma r3_gframe : forall c s s0 i t x, GInv c s -> thr_at s i t ->
  thrs s0 = thrs s -> slotv s0 = slotv s ->
  (forall t0 p, t_pc x = CDeqWon t0 p -> t_pc t = CDeqWon t0 p) -> R3 c (put_thr s0 i x).
Proof.
  intros c s s0 i t x HI Ht Hth Hsl Hx j tj t0 p Hj Hpc. simpl. rewrite Hsl.
  apply thr_at_put in Hj as [[-> ->]|[Hne Hj]].
  - eapply (g_r3 c s HI); eauto.
  - unfold thr_at in Hj. rewrite Hth in Hj. eapply (g_r3 c s HI); eauto.
Qed.

Ltac gwon_cond Hpc :=
  simpl; intros ? ? Hx; rewrite ?Hpc in *;
  repeat match type of Hx with context [if ?b then _ else _] => destruct b end;
  solve [ discriminate Hx | exact Hx ].

Lemma r3_gstep : forall c s i t l s', GInv c s -> thr_at s i t -> step_commit c s i t l = Some s' -> R3 c s'.
Proof.
  intros c s i t l s' HI Ht H.
  gstart c s i t l H HI Ht.
  all: try exact (g_r3 c s HI).
  all: try (eapply r3_gframe; try exact HI; try exact Ht; auto; gwon_cond Hpc).
  - (* LEnqStored *)
    intros j tj t0' p' Hj Hpc'. thr_cases Hj Hne; [discriminate Hpc'|].
    pose proof (g_r3 c s HI j tj t0' p' Hj Hpc') as Hw. simpl. unfold get_slot, slot_ix in *.
    rewrite nth_error_set_nth_neq; auto. intros Heq. rewrite Heq in Hm. congruence.
  - (* LDeqCasOk *)
    intros j tj t0' p' Hj Hpc'. simpl. thr_cases Hj Hne.
    + simpl in Hpc'. injection Hpc' as <- <-. apply (g_r2 c s HI); lia.
    + apply (g_r3 c s HI j tj t0' p' Hj Hpc').
  - (* LDeqCleared *)
    intros j tj t0' p' Hj Hpc'. thr_cases Hj Hne; [discriminate Hpc'|].
    pose proof (g_r3 c s HI j tj t0' p' Hj Hpc') as Hw. pose proof (g_r3 c s HI i t t0 p Ht Hpc) as Hw0.
    simpl. unfold slot_ix. rewrite nth_error_set_nth_neq; auto. intros Heq. rewrite Heq in Hw0.
    assert (t0 = t0') by congruence. subst t0'.
    apply Hne. apply (g_r4 c s HI j i tj t t0 p' p Hj Ht Hpc' Hpc).
Qed.

Lemma r4_gframe : forall c s s0 i t x, GInv c s -> thr_at s i t -> thrs s0 = thrs s ->
  (forall t0 p, t_pc x = CDeqWon t0 p -> t_pc t = CDeqWon t0 p) -> R4 (put_thr s0 i x).
Proof.
  intros c s s0 i t x HI Ht Hth Hx j1 j2 t1 t2 t0 p1 p2 H1 H2 Hp1 Hp2.
  apply thr_at_put in H1 as [[-> ->]|[Hne1 H1]]; apply thr_at_put in H2 as [[-> ->]|[Hne2 H2]]; auto;
    unfold thr_at in *; rewrite ?Hth in *.
  - apply Hx in Hp1. eapply (g_r4 c s HI); eauto.
  - apply Hx in Hp2. eapply (g_r4 c s HI); eauto.
  - eapply (g_r4 c s HI); eauto.
Qed.

Lemma r4_gstep : forall c s i t l s', GInv c s -> thr_at s i t -> step_commit c s i t l = Some s' -> R4 s'.
Proof.
  intros c s i t l s' HI Ht H.
  gstart c s i t l H HI Ht.
  all: try exact (g_r4 c s HI).
  all: try (eapply r4_gframe; try exact HI; try exact Ht; auto; gwon_cond Hpc).
  (* LDeqCasOk: the other winners hold positions below the tail *)
  intros j1 j2 t1 t2 t0' p1 p2 H1 H2 Hp1 Hp2.
  assert (Hother : forall j tj p', thr_at s j tj -> t_pc tj = CDeqWon (qtail s) p' -> False).
  { intros j tj p' Hj Hpj. pose proof (g_thr c s HI j tj Hj) as [_ [_ Hq]]. rewrite Hpj in Hq. lia. }
  thr_cases H1 Hne1; thr_cases H2 Hne2; auto; simpl in *.
  - injection Hp1 as <- <-. exfalso. eapply Hother; eauto.
  - injection Hp2 as <- <-. exfalso. eapply Hother; eauto.
  - eapply (g_r4 c s HI); eauto.
Qed.
