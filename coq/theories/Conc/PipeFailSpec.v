(* Conc/PipeFailSpec.v — the live C15 statements about the commit pipeline's failure branches
   (model: Conc/PipeFail.v).  Proved or refuted in PipeFail_proofs.v; restated in Props/C15.v.
   A trace is ANY interleaving of the committers' steps that the model enables, from the initial state. *)
From Coq Require Import List NArith Arith Bool.
From SKV Require Import Conc.PipeFail.
Import ListNotations.

Section PipeFailSpec.
Variable SLOTS : nat.
Variable PERMITS : nat.
Variable ATOMIC : bool.        (* MemTable::add all-or-nothing (the code) / entry by entry (the old add) *)

Definition reach (t : list label) (s : pst) : Prop := prun SLOTS ATOMIC (p0 PERMITS) t = Some s.

(* ---- failed_invisible_live ---- *)
(* plain statement: a fresh reader never sees anything of a committer whose commit() returned Err *)
Definition failed_invisible_live_stmt : Prop :=
  forall t s i, reach t s -> failed s i = true -> visible_of s i = [].

(* with an all-or-nothing add (ATOMIC = true, the code) the plain statement holds: see failed_invisible_live_full_stmt
   below.  For any add: unless apply failed after inserting part of the batch, a failed commit has NO entry in
   the memtable at all — nothing to see for any reader at any later horizon (conflict, WAL failure,
   BatchTooLarge, apply failing before the first insert) *)
Definition failed_invisible_live_outside_known_stmt : Prop :=
  forall t s i, reach t s -> failed s i = true -> known_partial_apply t = false ->
    entries_of s i = [] /\ visible_of s i = [].

(* the plain statement in full, for the all-or-nothing add: stated as a Prop of its own so that Props/C15.v can
   instantiate ATOMIC := true; it also gives that the failed committer has no memtable entry at all *)
Definition failed_invisible_live_full_stmt : Prop :=
  ATOMIC = true ->
  forall t s i, reach t s -> failed s i = true -> entries_of s i = [] /\ visible_of s i = [].

(* ---- pipeline_not_poisoned ---- *)
(* the invariant in_flight <= permits < slots, for EVERY interleaving: the queue never overflows and every
   queue entry is covered by a held permit (since the repair of C15-N9 a failing commit keeps its permit
   until its entry has been dequeued) *)
Definition pipeline_not_poisoned_stmt : Prop :=
  PERMITS < SLOTS ->
  forall t s, reach t s -> p_panic s = false /\ length (p_q s) + p_free s <= PERMITS.

(* the four complete commit() paths of one committer *)
Definition commit_paths (i cnt k : nat) : list (list label) :=
  [ [LAcquire i; LConflict i];
    [LAcquire i; LEnqueue i cnt; LWalFail i; LFinish i];
    [LAcquire i; LEnqueue i cnt; LApplyFail i k; LFinish i];
    [LAcquire i; LEnqueue i cnt; LApplyOk i; LFinish i] ].

(* sequential use: whatever the outcome of a commit, the queue slot and the permit are released *)
Definition pipeline_not_poisoned_sequential_stmt : Prop :=
  0 < PERMITS -> 0 < SLOTS ->
  forall s i cnt k tr, idle PERMITS s = true -> ph_get i (p_ph s) = PIdle -> 0 < cnt -> k < cnt -> (ATOMIC = true -> k = 0) ->
    In tr (commit_paths i cnt k) ->
    exists s', prun SLOTS ATOMIC s tr = Some s' /\ idle PERMITS s' = true /\
               (forall j, j <> i -> ph_get j (p_ph s') = ph_get j (p_ph s)).

End PipeFailSpec.
