(* Conc/OracleSpec.v — statements about the commit oracle (Conc/Oracle.v) and the sequential
   commit machine (Conc/CommitSeq.v: the code with the repair of C04-N1, the restore epoch;
   Conc/CommitSeqOld.v: the machine before it, regression records only).  Proofs:
   Conc/Oracle_proofs.v.

   Vocabulary.  `c_done s` lists the successful commits (stamp, keys) of the history that led to
   s.  A transaction T with start s "overlaps" a commit with stamp m iff s < m (T began before
   that commit became visible).  First-committer-wins = a commit of T is accepted only if no
   commit overlapping T wrote one of T's keys. *)
From Coq Require Import List NArith Arith Bool.
From SKV Require Import Params Base.Lex Conc.Oracle Conc.CommitSeq Conc.CommitSeqOld.
Import ListNotations.
Local Open Scope N_scope.

Definition no_fail (l : list cstep) : Prop := forall c, In c l -> is_fail c = false.
Definition no_restore (l : list cstep) : Prop := forall c, In c l -> is_restore c = false.
Definition inj_on (fp : bytes -> N) (ks : list bytes) : Prop :=
  forall a b, In a ks -> In b ks -> fp a = fp b -> a = b.
(* every transaction of the history was created by Transaction::new (the public API): the
   epoch-less entry CommitPipeline::commit, kept for the crate's own tests, is not used *)
Definition api_only (l : list cstep) : Prop := forall id, ~ In (SBegin id BUnreg) l.
(* the transaction began in the current restore epoch (or carries none) *)
Definition epoch_current (s : cstate) (t : tx) : Prop :=
  match t_epoch t with Some e => e = c_epoch s | None => True end.

(* the generated comparison operators are the ones the proofs are about *)
Definition oracle_params_ok : Prop :=
  (forall a b, ORACLE_RETRY_CMP a b = N.ltb a b) /\
  (forall a b, ORACLE_CONFLICT_CMP a b = N.ltb b a) /\
  (forall a b, ORACLE_GC_COUNT_CMP a b = N.leb b a) /\
  (forall a b, ORACLE_GC_MARK_CMP a b = N.ltb b a) /\
  (forall a b, ORACLE_RETAIN_CMP a b = N.leb b a) /\
  (forall a b, ORACLE_ROLLBACK_CMP a b = N.eqb a b) /\
  (forall a b, ORACLE_PUBLISH_SAME_CMP a b = N.eqb a b) /\
  COMMIT_FIRST_SEQ = 1 /\
  (forall a b, ORACLE_EPOCH_CMP a b = negb (N.eqb a b)).

Section Stmts.
Variable fp : bytes -> N.
Variable G : N.

(* ---------- the oracle alone ---------- *)

(* Retry is answered exactly when the caller's window has been pruned *)
Definition retry_only_when_pruned_stmt : Prop :=
  forall s keys start, check fp s keys start = VRetry <-> start < kept_since s.

(* outside the pruned window, Conflict is answered exactly when some key's recorded stamp is
   newer than the caller's start *)
Definition check_conflict_iff_stmt : Prop :=
  forall s keys start, kept_since s <= start ->
    (check fp s keys start = VConflict <->
     exists k v, In k keys /\ fm_stamp (fp k) (recent s) = Some v /\ start < v).

(* ---------- the sequential commit machine ---------- *)

(* OracleSound: every successful commit newer than the pruning mark is still recorded, for each
   of its keys, with a stamp at least its own.
   (DESIGN.md writes `m >= kept_since`; the invariant that holds is `m > kept_since`:
   reset_for_restore(max) empties the map and sets kept_since := max while the commit with stamp
   max exists.  Only stamps > start >= kept_since matter to `check`.) *)
Definition sound (s : cstate) : Prop :=
  forall m ks k, In (m, ks) (c_done s) -> kept_since (c_orc s) < m -> In k ks ->
    exists v, fm_stamp (fp k) (recent (c_orc s)) = Some v /\ m <= v.

(* the pruning mark never passes a registered open transaction *)
Definition watermark_ok (s : cstate) : Prop :=
  forall id t, tx_get id (c_txs s) = Some t -> t_reg t = true -> kept_since (c_orc s) <= t_start t.

(* every recorded stamp belongs to a successful commit that wrote a key with that fingerprint *)
Definition justified (s : cstate) : Prop :=
  forall f v, fm_stamp f (recent (c_orc s)) = Some v ->
    exists ks k, In (v, ks) (c_done s) /\ In k ks /\ fp k = f.

(* OracleSound holds after EVERY history: failed commits (WAL/apply failure followed by
   rollback), restores, every GC position, write-only and unregistered committers *)
Definition oracle_sound_stmt : Prop :=
  forall steps, sound (run fp G steps c0).
Definition watermark_ok_stmt : Prop :=
  forall steps, no_restore steps ->
    let s := run fp G steps c0 in
    watermark_ok s /\ kept_since (c_orc s) <= c_visible s.

(* first committer wins, ALL histories (failures and restores included): an accepted commit of T
   means that no successful commit with a stamp above T's start wrote one of T's keys *)
Definition no_lost_update_stmt : Prop :=
  forall steps id keys fail t m ks k,
    let s := run fp G steps c0 in
    tx_get id (c_txs s) = Some t ->
    step_outcome fp G s (SCommit id keys fail) = OOk ->
    In (m, ks) (c_done s) -> t_start t < m -> In k keys -> ~ In k ks.

(* no false conflict: an open transaction of the current restore epoch (one that began before the
   last restore is answered Retry: stale_epoch_refused_stmt below) that is not behind the pruning
   mark and none of whose keys was written by an overlapping commit is accepted — when fp does not
   collide on the keys of the history.  Holds with failures and restores in the history. *)
Definition accepted (keys : list bytes) (fail : bool) : outcome :=
  match keys with [] => OOk | _ => if fail then OFailed else OOk end.
Definition no_false_conflict_stmt : Prop :=
  forall steps id keys fail t,
    let s := run fp G steps c0 in
    inj_on fp (steps_keys steps ++ keys) ->
    tx_get id (c_txs s) = Some t -> t_closed t = false -> epoch_current s t ->
    kept_since (c_orc s) <= t_start t ->
    (forall m ks k, In (m, ks) (c_done s) -> t_start t < m -> In k keys -> ~ In k ks) ->
    step_outcome fp G s (SCommit id keys fail) = accepted keys fail.

(* a transaction that registered when it began is never answered Retry (no restore in the history) *)
Definition registered_never_retry_stmt : Prop :=
  forall steps id keys fail t,
    no_restore steps ->
    let s := run fp G steps c0 in
    tx_get id (c_txs s) = Some t -> t_reg t = true ->
    step_outcome fp G s (SCommit id keys fail) <> ORetry.

(* the two together: the second sentence of the property *)
Definition commit_accepted_stmt : Prop :=
  forall steps id keys fail t,
    no_restore steps ->
    let s := run fp G steps c0 in
    inj_on fp (steps_keys steps ++ keys) ->
    tx_get id (c_txs s) = Some t -> t_reg t = true ->
    (forall m ks k, In (m, ks) (c_done s) -> t_start t < m -> In k keys -> ~ In k ks) ->
    step_outcome fp G s (SCommit id keys fail) = accepted keys fail.

(* the clamp min(oldest_active, start): whatever the trackers say (ANY state, registered or not),
   a commit that got past the check leaves the pruning mark at or below the committer's start *)
Definition gc_clamp_ok_stmt : Prop :=
  forall s id keys fail t,
    tx_get id (c_txs s) = Some t -> keys <> [] ->
    (step_outcome fp G s (SCommit id keys fail) = OOk \/
     step_outcome fp G s (SCommit id keys fail) = OFailed) ->
    kept_since (c_orc (step_state fp G s (SCommit id keys fail))) <= t_start t.

(* overlap in time is overlap in sequence numbers (restore-free continuation): a transaction that
   begins in state s1 gets start = c_visible s1; every successful commit that happens afterwards
   has a stamp above that.  So `t_start t < m` in the statements above says exactly "the commit
   with stamp m completed after t began".  (Across a restore that rewinds the counter this is
   false: new stamps restart at max+1 and can be <= the start of a transaction that stayed open.) *)
Definition later_commits_have_later_stamps_stmt : Prop :=
  forall pre post m ks, no_restore post ->
    let s1 := run fp G pre c0 in
    In (m, ks) (c_done (run fp G post s1)) -> In (m, ks) (c_done s1) \/ c_visible s1 < m.

(* a refused commit changes nothing *)
Definition refused_has_no_effect_stmt : Prop :=
  forall s c o, step_outcome fp G s c = o ->
    o = OConflict \/ o = ORetry \/ o = ONoTx \/ o = OClosed \/ o = OBad ->
    step_state fp G s c = s.

(* ---------- the repair of C04-N1: the restore epoch ---------- *)

(* (iii) a transaction whose begin epoch is not the current restore epoch (ANY state) is answered
   Retry, with no oracle call and no state change *)
Definition stale_epoch_refused_stmt : Prop :=
  forall s id keys fail t e,
    tx_get id (c_txs s) = Some t -> t_closed t = false -> keys <> [] ->
    t_epoch t = Some e -> e <> c_epoch s ->
    cs_step fp G s (SCommit id keys fail) = (s, ORetry, []).

(* ... in terms of histories: T begins (through the API) after `pre`; a restore happens some time
   later; from then on, whatever else happens (further commits of the new timeline catching up
   with T's old start, further restores), every commit attempt of T changes nothing, makes no
   oracle call and is answered Retry (or Closed, if T had ended before) *)
Definition open_across_restore_refused_stmt : Prop :=
  forall pre id md mid max post keys fail,
    let s1 := run fp G pre c0 in
    let s := run fp G (pre ++ SBegin id md :: mid ++ SRestore max :: post) c0 in
    tx_get id (c_txs s1) = None -> md <> BUnreg -> keys <> [] ->
    cs_step fp G s (SCommit id keys fail) = (s, ORetry, []) \/
    cs_step fp G s (SCommit id keys fail) = (s, OClosed, []).

(* the oracle is consulted (check / publish / rollback) only for transactions of the current epoch *)
Definition oracle_consulted_only_in_epoch_stmt : Prop :=
  forall s id keys fail t,
    tx_get id (c_txs s) = Some t ->
    snd (cs_step fp G s (SCommit id keys fail)) <> [] -> epoch_current s t.

(* the pruning mark never passes `visible`, ALL histories through the API (restores, failures,
   transactions left open across restores included).  The state of the old pathology (b) —
   kept_since > visible, in which every transaction that begins is refused — is unreachable. *)
Definition kept_le_visible_stmt : Prop :=
  forall steps, api_only steps ->
    let s := run fp G steps c0 in kept_since (c_orc s) <= c_visible s.

(* (ii) whatever happened before (restores, transactions left open across them, failures): a
   transaction that begins, registered, after the last restore is never answered Retry *)
Definition registered_after_restore_never_retry_stmt : Prop :=
  forall pre post id keys fail t,
    api_only (pre ++ post) -> no_restore post ->
    let s1 := run fp G pre c0 in
    let s := run fp G post s1 in
    tx_get id (c_txs s1) = None ->
    tx_get id (c_txs s) = Some t -> t_reg t = true ->
    step_outcome fp G s (SCommit id keys fail) <> ORetry.

(* ... and the second sentence of the property for it: it is accepted unless a commit made after
   it began wrote one of its keys *)
Definition commit_accepted_after_restore_stmt : Prop :=
  forall pre post id keys fail t,
    api_only (pre ++ post) -> no_restore post ->
    let s1 := run fp G pre c0 in
    let s := run fp G post s1 in
    inj_on fp (steps_keys (pre ++ post) ++ keys) ->
    tx_get id (c_txs s1) = None ->
    tx_get id (c_txs s) = Some t -> t_reg t = true ->
    (forall m ks k, In (m, ks) (c_done s) -> t_start t < m -> In k keys -> ~ In k ks) ->
    step_outcome fp G s (SCommit id keys fail) = accepted keys fail.

(* (i) first committer wins in terms of TIME, for ALL histories — failures and restores anywhere,
   no proviso: T begins (through the API) after `pre`; if T's commit is accepted after `post`, no
   commit that was made after T began and still exists wrote one of T's keys.  (An accepted commit
   implies that `post` contains no restore, so `not in c_done s1` does mean "made after T began".) *)
Definition no_lost_update_since_begin_stmt : Prop :=
  forall pre id md post keys fail m ks k,
    let s1 := run fp G pre c0 in
    let s := run fp G (pre ++ SBegin id md :: post) c0 in
    tx_get id (c_txs s1) = None -> md <> BUnreg ->
    step_outcome fp G s (SCommit id keys fail) = OOk ->
    In (m, ks) (c_done s) -> ~ In (m, ks) (c_done s1) -> In k keys -> ~ In k ks.
End Stmts.

(* the epoch-less entry is not protected: an unregistered caller left over from before a restore
   can still drag the pruning mark above `visible` (why kept_le_visible_stmt and (ii) are stated
   for api_only histories) *)
Definition epochless_commit_unprotected (fp : bytes -> N) (G : N) : Prop :=
  exists steps, let s := run fp G steps c0 in c_visible s < kept_since (c_orc s).

(* ---------- regression records: the machine before the repair (Conc/CommitSeqOld.v) ---------- *)
(* (b) after a restore that rewinds the counter below the start of a still-open transaction, a
   transaction that begins (registered) after the restore is answered Retry although nothing
   was pruned for it; the state in which that happens has kept_since > visible, so EVERY later
   transaction is answered Retry as well.  The SAME history on the repaired machine: the stale
   commit is refused, the pruning mark stays below `visible`, the fresh transaction is accepted. *)
Definition fresh_retry_after_restore_old (fp : bytes -> N) (G : N) : Prop :=
  exists steps id keys t,
    let s := run_old fp G steps c0 in
    tx_get id (c_txs s) = Some t /\ t_reg t = true /\ t_closed t = false /\
    t_start t = c_visible s /\
    step_outcome_old fp G s (SCommit id keys false) = ORetry /\
    c_visible s < kept_since (c_orc s) /\
    (let s' := run fp G steps c0 in
     step_outcome fp G s' (SCommit id keys false) = OOk /\ kept_since (c_orc s') <= c_visible s').

(* (a) a transaction T (id) open across a restore accepted by the old machine over a commit that
   was made after T began and still exists; the same history on the repaired machine: Retry.
   Two witnesses: T commits right after the restore (its start is above the new stamps), and T
   commits after the new timeline has caught up with its old start (a test `start > visible`
   would not catch that one; the epoch does). *)
Definition lost_update_across_restore_old (fp : bytes -> N) (G : N) (pre post : list cstep) (id : N) : Prop :=
  exists keys m ks k,
    let steps := pre ++ SBegin id BRW :: post in
    let s := run_old fp G steps c0 in
    tx_get id (c_txs (run_old fp G pre c0)) = None /\
    step_outcome_old fp G s (SCommit id keys false) = OOk /\
    In (m, ks) (c_done s) /\ ~ In (m, ks) (c_done (run_old fp G pre c0)) /\ In k keys /\ In k ks /\
    step_outcome fp G (run fp G steps c0) (SCommit id keys false) = ORetry.
