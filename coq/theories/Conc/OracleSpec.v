(* Conc/OracleSpec.v — statements about the commit oracle (Conc/Oracle.v) and the sequential
   commit machine (Conc/CommitSeq.v).  Proofs: Conc/Oracle_proofs.v.

   Vocabulary.  `c_done s` lists the successful commits (stamp, keys) of the history that led to
   s.  A transaction T with start s "overlaps" a commit with stamp m iff s < m (T began before
   that commit became visible).  First-committer-wins = a commit of T is accepted only if no
   commit overlapping T wrote one of T's keys. *)
From Coq Require Import List NArith Arith Bool.
From SKV Require Import Params Base.Lex Conc.Oracle Conc.CommitSeq.
Import ListNotations.
Local Open Scope N_scope.

Definition no_fail (l : list cstep) : Prop := forall c, In c l -> is_fail c = false.
Definition no_restore (l : list cstep) : Prop := forall c, In c l -> is_restore c = false.
Definition inj_on (fp : bytes -> N) (ks : list bytes) : Prop :=
  forall a b, In a ks -> In b ks -> fp a = fp b -> a = b.

(* the generated comparison operators are the ones the proofs are about *)
Definition oracle_params_ok : Prop :=
  (forall a b, ORACLE_RETRY_CMP a b = N.ltb a b) /\
  (forall a b, ORACLE_CONFLICT_CMP a b = N.ltb b a) /\
  (forall a b, ORACLE_GC_COUNT_CMP a b = N.leb b a) /\
  (forall a b, ORACLE_GC_MARK_CMP a b = N.ltb b a) /\
  (forall a b, ORACLE_RETAIN_CMP a b = N.leb b a) /\
  (forall a b, ORACLE_ROLLBACK_CMP a b = N.eqb a b) /\
  (forall a b, ORACLE_PUBLISH_SAME_CMP a b = N.eqb a b) /\
  COMMIT_FIRST_SEQ = 1.

Section Stmts.
Variable fp : bytes -> N.
Variable G : N.

(* ---------- the oracle alone ---------- *)

(* Retry is answered exactly when the caller's window has been pruned *)
Definition retry_only_when_pruned_stmt : Prop :=
  forall s keys start, check fp s keys start = VRetry <-> start < kept_since s.

(* outside the pruned window, Conflict is answered exactly when some key's recorded stamp is
   newer than the caller's start *)
Definition check_conflict_iff_stmt : Prop :=
  forall s keys start, kept_since s <= start ->
    (check fp s keys start = VConflict <->
     exists k v, In k keys /\ fm_stamp (fp k) (recent s) = Some v /\ start < v).

(* ---------- the sequential commit machine ---------- *)

(* OracleSound: every successful commit newer than the pruning mark is still recorded, for each
   of its keys, with a stamp at least its own.
   (DESIGN.md writes `m >= kept_since`; the invariant that holds is `m > kept_since`:
   reset_for_restore(max) empties the map and sets kept_since := max while the commit with stamp
   max exists.  Only stamps > start >= kept_since matter to `check`.) *)
Definition sound (s : cstate) : Prop :=
  forall m ks k, In (m, ks) (c_done s) -> kept_since (c_orc s) < m -> In k ks ->
    exists v, fm_stamp (fp k) (recent (c_orc s)) = Some v /\ m <= v.

(* the pruning mark never passes a registered open transaction *)
Definition watermark_ok (s : cstate) : Prop :=
  forall id t, tx_get id (c_txs s) = Some t -> t_reg t = true -> kept_since (c_orc s) <= t_start t.

(* every recorded stamp belongs to a successful commit that wrote a key with that fingerprint *)
Definition justified (s : cstate) : Prop :=
  forall f v, fm_stamp f (recent (c_orc s)) = Some v ->
    exists ks k, In (v, ks) (c_done s) /\ In k ks /\ fp k = f.

(* OracleSound holds after EVERY history: failed commits (WAL/apply failure followed by
   rollback), restores, every GC position, write-only and unregistered committers *)
Definition oracle_sound_stmt : Prop :=
  forall steps, sound (run fp G steps c0).
Definition watermark_ok_stmt : Prop :=
  forall steps, no_restore steps ->
    let s := run fp G steps c0 in
    watermark_ok s /\ kept_since (c_orc s) <= c_visible s.

(* first committer wins, ALL histories (failures and restores included): an accepted commit of T
   means that no successful commit with a stamp above T's start wrote one of T's keys *)
Definition no_lost_update_stmt : Prop :=
  forall steps id keys fail t m ks k,
    let s := run fp G steps c0 in
    tx_get id (c_txs s) = Some t ->
    step_outcome fp G s (SCommit id keys fail) = OOk ->
    In (m, ks) (c_done s) -> t_start t < m -> In k keys -> ~ In k ks.

(* no false conflict: an open transaction that is not behind the pruning mark and none of whose
   keys was written by an overlapping commit is accepted — when fp does not collide on the keys of
   the history.  Holds with failures and restores in the history. *)
Definition accepted (keys : list bytes) (fail : bool) : outcome :=
  match keys with [] => OOk | _ => if fail then OFailed else OOk end.
Definition no_false_conflict_stmt : Prop :=
  forall steps id keys fail t,
    let s := run fp G steps c0 in
    inj_on fp (steps_keys steps ++ keys) ->
    tx_get id (c_txs s) = Some t -> t_closed t = false ->
    kept_since (c_orc s) <= t_start t ->
    (forall m ks k, In (m, ks) (c_done s) -> t_start t < m -> In k keys -> ~ In k ks) ->
    step_outcome fp G s (SCommit id keys fail) = accepted keys fail.

(* a transaction that registered when it began is never answered Retry (no restore in the history) *)
Definition registered_never_retry_stmt : Prop :=
  forall steps id keys fail t,
    no_restore steps ->
    let s := run fp G steps c0 in
    tx_get id (c_txs s) = Some t -> t_reg t = true ->
    step_outcome fp G s (SCommit id keys fail) <> ORetry.

(* the two together: the second sentence of the property *)
Definition commit_accepted_stmt : Prop :=
  forall steps id keys fail t,
    no_restore steps ->
    let s := run fp G steps c0 in
    inj_on fp (steps_keys steps ++ keys) ->
    tx_get id (c_txs s) = Some t -> t_reg t = true ->
    (forall m ks k, In (m, ks) (c_done s) -> t_start t < m -> In k keys -> ~ In k ks) ->
    step_outcome fp G s (SCommit id keys fail) = accepted keys fail.

(* the clamp min(oldest_active, start): whatever the trackers say (ANY state, registered or not),
   a commit that got past the check leaves the pruning mark at or below the committer's start *)
Definition gc_clamp_ok_stmt : Prop :=
  forall s id keys fail t,
    tx_get id (c_txs s) = Some t -> keys <> [] ->
    (step_outcome fp G s (SCommit id keys fail) = OOk \/
     step_outcome fp G s (SCommit id keys fail) = OFailed) ->
    kept_since (c_orc (step_state fp G s (SCommit id keys fail))) <= t_start t.

(* overlap in time is overlap in sequence numbers (restore-free continuation): a transaction that
   begins in state s1 gets start = c_visible s1; every successful commit that happens afterwards
   has a stamp above that.  So `t_start t < m` in the statements above says exactly "the commit
   with stamp m completed after t began".  (Across a restore that rewinds the counter this is
   false: new stamps restart at max+1 and can be <= the start of a transaction that stayed open.) *)
Definition later_commits_have_later_stamps_stmt : Prop :=
  forall pre post m ks, no_restore post ->
    let s1 := run fp G pre c0 in
    In (m, ks) (c_done (run fp G post s1)) -> In (m, ks) (c_done s1) \/ c_visible s1 < m.

(* a refused commit changes nothing *)
Definition refused_has_no_effect_stmt : Prop :=
  forall s c o, step_outcome fp G s c = o ->
    o = OConflict \/ o = ORetry \/ o = ONoTx \/ o = OClosed \/ o = OBad ->
    step_state fp G s c = s.
End Stmts.

(* ---------- refutation on the model of the pinned code ---------- *)
(* after a restore that rewinds the counter below the start of a still-open transaction, a
   transaction that begins (registered) after the restore is answered Retry although nothing
   was pruned for it; the state in which that happens has kept_since > visible, so EVERY later
   transaction is answered Retry as well *)
Definition fresh_retry_after_restore (fp : bytes -> N) (G : N) : Prop :=
  exists steps id keys t,
    let s := run fp G steps c0 in
    tx_get id (c_txs s) = Some t /\ t_reg t = true /\ t_closed t = false /\
    t_start t = c_visible s /\
    step_outcome fp G s (SCommit id keys false) = ORetry /\
    c_visible s < kept_since (c_orc s).
