(* Conc/CommitSeqOld.v — regression record: the sequential commit machine as it was BEFORE the
   repair of finding C04-N1, i.e. WITHOUT the test `begin_epoch != restore_epoch => Retry` at the
   head of the critical section (the epoch fields are carried along and never looked at).  Same
   text as commit_core / cs_step / run of Conc/CommitSeq.v except for that one test.  Definitions
   only; used by the `_old` statements of Conc/OracleSpec.v, which record that the repair
   separates the two machines (the permanent Retry after a restore and the lost updates across
   a restore exist only here). *)
From Coq Require Import List NArith Arith Bool.
From SKV Require Import Params Base.Lex Conc.Oracle Conc.CommitSeq.
Import ListNotations.
Local Open Scope N_scope.

Section CommitSeqOld.
Variable fp : bytes -> N.
Variable G : N.

Definition commit_core_old (s : cstate) (id : N) (t : tx) (keys : list bytes) (fail : bool)
  : cstate * outcome * list ocall :=
  let start := t_start t in
  match check fp (c_orc s) keys start with
  | VRetry => (s, ORetry, [CCheck keys start])
  | VConflict => (s, OConflict, [CCheck keys start])
  | VOk =>
    let count := N.of_nat (length keys) in
    let seq := c_next s in
    let oldest := N.min (oldest_active s) start in
    let o1 := publish fp G (c_orc s) keys seq count oldest in
    let stamp := stamp_of seq count in
    if fail then
      ({| c_txs := c_txs s; c_visible := N.max (c_visible s) stamp; c_next := seq + count;
          c_orc := rollback fp o1 keys stamp;
          c_done := c_done s; c_epoch := c_epoch s |},
       OFailed, [CCheck keys start; CPublish keys seq count oldest; CRollback keys stamp])
    else
      ({| c_txs := tx_set id {| t_start := start; t_reg := false; t_snap := t_snap t; t_closed := true; t_epoch := t_epoch t |} (c_txs s);
          c_visible := N.max (c_visible s) stamp; c_next := seq + count;
          c_orc := o1;
          c_done := (stamp, keys) :: c_done s; c_epoch := c_epoch s |},
       OOk, [CCheck keys start; CPublish keys seq count oldest])
  end.

Definition cs_step_old (s : cstate) (c : cstep) : cstate * outcome * list ocall :=
  match c with
  | SBegin id m =>
    match tx_get id (c_txs s) with
    | Some _ => (s, OBad, [])
    | None =>
      let t := {| t_start := c_visible s;
                  t_reg := match m with BUnreg => false | _ => true end;
                  t_snap := match m with BRW => true | _ => false end;
                  t_closed := false;
                  t_epoch := match m with BUnreg => None | _ => Some (c_epoch s) end |} in
      ({| c_txs := tx_set id t (c_txs s); c_visible := c_visible s; c_next := c_next s;
          c_orc := c_orc s; c_done := c_done s; c_epoch := c_epoch s |}, OOk, [])
    end
  | SEnd id =>
    match tx_get id (c_txs s) with
    | None => (s, ONoTx, [])
    | Some t =>
      ({| c_txs := tx_set id {| t_start := t_start t; t_reg := false; t_snap := false; t_closed := true; t_epoch := t_epoch t |} (c_txs s);
          c_visible := c_visible s; c_next := c_next s; c_orc := c_orc s; c_done := c_done s; c_epoch := c_epoch s |}, OOk, [])
    end
  | SCommit id keys fail =>
    match tx_get id (c_txs s) with
    | None => (s, ONoTx, [])
    | Some t =>
      if t_closed t then (s, OClosed, [])
      else match keys with
           | [] =>
             ({| c_txs := tx_set id {| t_start := t_start t; t_reg := false; t_snap := t_snap t; t_closed := true; t_epoch := t_epoch t |} (c_txs s);
                 c_visible := c_visible s; c_next := c_next s; c_orc := c_orc s; c_done := c_done s; c_epoch := c_epoch s |}, OOk, [])
           | _ => commit_core_old s id t keys fail
           end
    end
  | SRestore max =>
    let rewind := N.ltb 0 max in
    ({| c_txs := c_txs s;
        c_visible := if rewind then max else c_visible s;
        c_next := if rewind then max + 1 else c_next s;
        c_orc := reset_for_restore (c_orc s) max;
        c_done := filter (fun e => N.leb (fst e) max) (c_done s);
        c_epoch := c_epoch s + 1 |}, OOk, [CReset max])
  end.

Definition step_state_old (s : cstate) (c : cstep) : cstate := fst (fst (cs_step_old s c)).
Definition step_outcome_old (s : cstate) (c : cstep) : outcome := snd (fst (cs_step_old s c)).
Definition run_old (l : list cstep) (s : cstate) : cstate := fold_left step_state_old l s.
Fixpoint outcomes_old (l : list cstep) (s : cstate) : list outcome :=
  match l with [] => [] | c :: r => step_outcome_old s c :: outcomes_old r (step_state_old s c) end.
End CommitSeqOld.
