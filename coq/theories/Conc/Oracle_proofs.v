(* Conc/Oracle_proofs.v — proofs of the statements of Conc/OracleSpec.v. *)
From Coq Require Import List NArith Arith Bool Lia.
From SKV Require Import Params Base.Lex Conc.Oracle Conc.CommitSeq Conc.CommitSeqOld Conc.OracleSpec.
Import ListNotations.
Local Open Scope N_scope.
Arguments N.add : simpl never.
Arguments N.sub : simpl never.
Arguments N.eqb : simpl never.
Arguments N.ltb : simpl never.
Arguments N.leb : simpl never.
Arguments N.min : simpl never.
Arguments N.max : simpl never.

(* ---------- side conditions on the generated parameters ---------- *)
Lemma params_ok : oracle_params_ok.
Proof. repeat split; intros; reflexivity. Qed.

Lemma cmp_retry a b : ORACLE_RETRY_CMP a b = N.ltb a b.
Proof. apply params_ok. Qed.
Lemma cmp_conflict a b : ORACLE_CONFLICT_CMP a b = N.ltb b a.
Proof. apply params_ok. Qed.
Lemma cmp_gc_count a b : ORACLE_GC_COUNT_CMP a b = N.leb b a.
Proof. apply params_ok. Qed.
Lemma cmp_gc_mark a b : ORACLE_GC_MARK_CMP a b = N.ltb b a.
Proof. apply params_ok. Qed.
Lemma cmp_retain a b : ORACLE_RETAIN_CMP a b = N.leb b a.
Proof. apply params_ok. Qed.
Lemma cmp_rollback a b : ORACLE_ROLLBACK_CMP a b = N.eqb a b.
Proof. apply params_ok. Qed.
Lemma cmp_pub_same a b : ORACLE_PUBLISH_SAME_CMP a b = N.eqb a b.
Proof. apply params_ok. Qed.
Lemma first_seq : COMMIT_FIRST_SEQ = 1.
Proof. apply params_ok. Qed.
Lemma cmp_epoch a b : ORACLE_EPOCH_CMP a b = negb (N.eqb a b).
Proof. apply params_ok. Qed.
(* the epoch test at the head of the critical section *)
Lemma epoch_test_false s t :
  (match t_epoch t with Some e => ORACLE_EPOCH_CMP e (c_epoch s) | None => false end) = false <-> epoch_current s t.
Proof.
  unfold epoch_current. destruct (t_epoch t) as [e|]; [|tauto]. rewrite cmp_epoch.
  destruct (N.eqb e (c_epoch s)) eqn:E; cbn [negb].
  - apply N.eqb_eq in E. tauto.
  - apply N.eqb_neq in E. split; [discriminate|contradiction].
Qed.

(* ---------- the association list ---------- *)
Definition fm_wf (m : fmap) : Prop := NoDup (map fst m).

Lemma fm_get_remove_same f m : fm_get f (fm_remove f m) = None.
Proof.
  induction m as [|[g v] r IH]; [reflexivity|]. cbn [fm_remove].
  destruct (N.eqb f g) eqn:E; [exact IH|]. cbn [fm_get]. rewrite E. exact IH.
Qed.
Lemma fm_get_remove_other f g m : f <> g -> fm_get g (fm_remove f m) = fm_get g m.
Proof.
  intros Hne. induction m as [|[h v] r IH]; [reflexivity|]. cbn [fm_remove fm_get].
  destruct (N.eqb f h) eqn:E.
  - apply N.eqb_eq in E. subst h. destruct (N.eqb g f) eqn:E2.
    + apply N.eqb_eq in E2. congruence.
    + exact IH.
  - cbn [fm_get]. destruct (N.eqb g h); [reflexivity|exact IH].
Qed.
Lemma fm_get_insert_same f v m : fm_get f (fm_insert f v m) = Some v.
Proof. unfold fm_insert. cbn [fm_get]. rewrite N.eqb_refl. reflexivity. Qed.
Lemma fm_get_insert_other f g v m : f <> g -> fm_get g (fm_insert f v m) = fm_get g m.
Proof.
  intros Hne. unfold fm_insert. cbn [fm_get]. destruct (N.eqb g f) eqn:E.
  - apply N.eqb_eq in E. congruence.
  - apply fm_get_remove_other. exact Hne.
Qed.
Lemma fm_get_insert f g v m : fm_get g (fm_insert f v m) = if N.eqb f g then Some v else fm_get g m.
Proof.
  destruct (N.eqb f g) eqn:E.
  - apply N.eqb_eq in E. subst g. apply fm_get_insert_same.
  - apply fm_get_insert_other. intros H. subst g. rewrite N.eqb_refl in E. discriminate.
Qed.
Lemma fm_get_remove f g m : fm_get g (fm_remove f m) = if N.eqb f g then None else fm_get g m.
Proof.
  destruct (N.eqb f g) eqn:E.
  - apply N.eqb_eq in E. subst g. apply fm_get_remove_same.
  - apply fm_get_remove_other. intros H. subst g. rewrite N.eqb_refl in E. discriminate.
Qed.

Lemma fm_get_none f m : ~ In f (map fst m) -> fm_get f m = None.
Proof.
  induction m as [|[g v] r IH]; [reflexivity|]. cbn [map fst fm_get]. intros H.
  destruct (N.eqb f g) eqn:E.
  - apply N.eqb_eq in E. subst g. exfalso. apply H. left. reflexivity.
  - apply IH. intros Hin. apply H. right. exact Hin.
Qed.
Lemma fm_remove_keys f m g : In g (map fst (fm_remove f m)) -> In g (map fst m) /\ g <> f.
Proof.
  induction m as [|[h v] r IH]; [intros []|]. cbn [fm_remove].
  destruct (N.eqb f h) eqn:E.
  - intros H. destruct (IH H) as [H1 H2]. split; [right; exact H1|exact H2].
  - cbn [map fst In]. intros [H|H].
    + subst h. split; [left; reflexivity|]. intros H2. subst g. rewrite N.eqb_refl in E. discriminate.
    + destruct (IH H) as [H1 H2]. split; [right; exact H1|exact H2].
Qed.
Lemma fm_wf_remove f m : fm_wf m -> fm_wf (fm_remove f m).
Proof.
  unfold fm_wf. induction m as [|[h v] r IH]; [intros; constructor|]. cbn [fm_remove map fst].
  intros H. inversion H as [|x l Hn Hd]. subst. destruct (N.eqb f h).
  - apply IH. exact Hd.
  - cbn [map fst]. constructor; [|apply IH; exact Hd]. intros Hin. apply fm_remove_keys in Hin. apply Hn. apply Hin.
Qed.
Lemma fm_wf_insert f v m : fm_wf m -> fm_wf (fm_insert f v m).
Proof.
  intros H. unfold fm_wf, fm_insert. cbn [map fst]. constructor.
  - intros Hin. apply fm_remove_keys in Hin. destruct Hin as [_ Hne]. congruence.
  - apply fm_wf_remove. exact H.
Qed.
Lemma fm_retain_keys p m g : In g (map fst (fm_retain p m)) -> In g (map fst m).
Proof.
  unfold fm_retain. induction m as [|[h v] r IH]; [intros []|]. cbn [filter snd].
  destruct (p v); cbn [map fst In]; intros H.
  - destruct H as [H|H]; [left; exact H|right; apply IH; exact H].
  - right. apply IH. exact H.
Qed.
Lemma fm_wf_retain p m : fm_wf m -> fm_wf (fm_retain p m).
Proof.
  unfold fm_wf. induction m as [|[h v] r IH]; [intros; constructor|]. cbn [map fst]. intros H.
  inversion H as [|x l Hn Hd]. subst. unfold fm_retain. cbn [filter snd]. destruct (p v).
  - cbn [map fst]. constructor; [|apply IH; exact Hd]. intros Hin. apply Hn. apply (fm_retain_keys p). exact Hin.
  - apply IH. exact Hd.
Qed.
Lemma fm_get_retain p f m : fm_wf m ->
  fm_get f (fm_retain p m) = match fm_get f m with Some v => if p v then Some v else None | None => None end.
Proof.
  unfold fm_wf. induction m as [|[g v] r IH]; [reflexivity|]. cbn [map fst]. intros H.
  inversion H as [|x l Hn Hd]. subst. unfold fm_retain. cbn [filter snd fm_get].
  destruct (N.eqb f g) eqn:E.
  - apply N.eqb_eq in E. subst g. destruct (p v).
    + cbn [fm_get]. rewrite N.eqb_refl. reflexivity.
    + apply fm_get_none. intros Hin. apply Hn. apply (fm_retain_keys p). exact Hin.
  - destruct (p v).
    + cbn [fm_get]. rewrite E. apply IH. exact Hd.
    + apply IH. exact Hd.
Qed.

(* ---------- folds of publish / rollback ---------- *)
Section Folds.
Variable fp : bytes -> N.

Definition has_fp (f : N) (keys : list bytes) : bool := existsb (fun k => N.eqb (fp k) f) keys.

Lemma has_fp_in f keys : has_fp f keys = true <-> exists k, In k keys /\ fp k = f.
Proof.
  unfold has_fp. rewrite existsb_exists. split; intros [k [H1 H2]]; exists k; split; try exact H1.
  - apply N.eqb_eq. exact H2.
  - apply N.eqb_eq. exact H2.
Qed.

(* what publish leaves behind an entry: the stamp it overwrote, unless the entry already had
   this stamp (then what that one had overwritten) *)
Definition pub_prev (stamp : N) (o : option entry) : option N :=
  match o with Some (cur, pv) => if N.eqb cur stamp then pv else Some cur | None => None end.
Lemma get_pub_step stamp k m f :
  fm_get f (pub_step fp stamp m k) = if N.eqb (fp k) f then Some (stamp, pub_prev stamp (fm_get f m)) else fm_get f m.
Proof.
  unfold pub_step. destruct (N.eqb (fp k) f) eqn:E.
  - apply N.eqb_eq in E. subst f. destruct (fm_get (fp k) m) as [[cur pv]|] eqn:Eg; cbn [pub_prev].
    + rewrite cmp_pub_same. destruct (N.eqb cur stamp) eqn:Ec.
      * apply N.eqb_eq in Ec. subst cur. exact Eg.
      * apply fm_get_insert_same.
    + apply fm_get_insert_same.
  - destruct (fm_get (fp k) m) as [[cur pv]|].
    + rewrite cmp_pub_same. destruct (N.eqb cur stamp); [reflexivity|]. rewrite fm_get_insert. rewrite E. reflexivity.
    + rewrite fm_get_insert. rewrite E. reflexivity.
Qed.
Lemma pub_prev_idem stamp o : pub_prev stamp (Some (stamp, pub_prev stamp o)) = pub_prev stamp o.
Proof. cbn [pub_prev]. rewrite N.eqb_refl. reflexivity. Qed.
Lemma get_pubs stamp keys : forall m f,
  fm_get f (fold_left (pub_step fp stamp) keys m) =
    if has_fp f keys then Some (stamp, pub_prev stamp (fm_get f m)) else fm_get f m.
Proof.
  induction keys as [|k r IH]; intros m f; [reflexivity|]. cbn [fold_left has_fp existsb].
  rewrite IH. fold (has_fp f r). rewrite get_pub_step. destruct (N.eqb (fp k) f); cbn [orb].
  - destruct (has_fp f r); [rewrite pub_prev_idem|]; reflexivity.
  - reflexivity.
Qed.
Lemma wf_pubs stamp keys : forall m, fm_wf m -> fm_wf (fold_left (pub_step fp stamp) keys m).
Proof.
  induction keys as [|k r IH]; intros m H; [exact H|]. cbn [fold_left]. apply IH. unfold pub_step.
  destruct (fm_get (fp k) m) as [[cur pv]|]; [|apply fm_wf_insert; exact H].
  destruct (ORACLE_PUBLISH_SAME_CMP cur stamp); [exact H|apply fm_wf_insert; exact H].
Qed.

(* rollback of one fingerprint *)
Definition rb_val (stamp : N) (o : option entry) : option entry :=
  match o with
  | Some (v, prev) => if N.eqb v stamp then match prev with Some p => Some (p, None) | None => None end else Some (v, prev)
  | None => None
  end.
(* the remembered previous stamp never equals the entry's own stamp *)
Definition prev_ne (stamp : N) (o : option entry) : Prop := forall p, o = Some (stamp, Some p) -> p <> stamp.
Lemma rb_val_prev_ne stamp o : prev_ne stamp (rb_val stamp o).
Proof.
  intros p H. destruct o as [[v prev]|]; [|discriminate]. cbn [rb_val] in H.
  destruct (N.eqb v stamp) eqn:E.
  - destruct prev; [inversion H|discriminate].
  - inversion H. subst v. rewrite N.eqb_refl in E. discriminate.
Qed.
Lemma rb_val_idem stamp o : prev_ne stamp o -> rb_val stamp (rb_val stamp o) = rb_val stamp o.
Proof.
  intros Hp. destruct o as [[v prev]|]; [|reflexivity]. cbn [rb_val]. destruct (N.eqb v stamp) eqn:E.
  - apply N.eqb_eq in E. subst v. destruct prev as [p|]; [|reflexivity]. cbn [rb_val].
    destruct (N.eqb p stamp) eqn:E2; [|reflexivity]. apply N.eqb_eq in E2. exfalso. apply (Hp p); [reflexivity|exact E2].
  - cbn [rb_val]. rewrite E. reflexivity.
Qed.
Lemma get_rb_step stamp k m f :
  fm_get f (rb_step fp stamp m k) = if N.eqb (fp k) f then rb_val stamp (fm_get f m) else fm_get f m.
Proof.
  unfold rb_step. destruct (N.eqb (fp k) f) eqn:E.
  - apply N.eqb_eq in E. subst f. destruct (fm_get (fp k) m) as [[v prev]|] eqn:Eg; cbn [rb_val]; [|exact Eg].
    rewrite cmp_rollback. destruct (N.eqb v stamp); [|exact Eg].
    destruct prev as [p|]; [apply fm_get_insert_same|apply fm_get_remove_same].
  - destruct (fm_get (fp k) m) as [[v prev]|]; [|reflexivity]. rewrite cmp_rollback.
    destruct (N.eqb v stamp); [|reflexivity].
    destruct prev as [p|]; [rewrite fm_get_insert|rewrite fm_get_remove]; rewrite E; reflexivity.
Qed.
Lemma get_rollbacks stamp keys : forall m f, prev_ne stamp (fm_get f m) ->
  fm_get f (fold_left (rb_step fp stamp) keys m) = if has_fp f keys then rb_val stamp (fm_get f m) else fm_get f m.
Proof.
  induction keys as [|k r IH]; intros m f Hp; [reflexivity|]. cbn [fold_left has_fp existsb].
  fold (has_fp f r). destruct (N.eqb (fp k) f) eqn:E; cbn [orb].
  - rewrite IH; rewrite get_rb_step, E; [|apply rb_val_prev_ne].
    destruct (has_fp f r); [apply rb_val_idem; exact Hp|reflexivity].
  - rewrite IH; rewrite get_rb_step, E; [reflexivity|exact Hp].
Qed.
Lemma wf_rollbacks stamp keys : forall m, fm_wf m -> fm_wf (fold_left (rb_step fp stamp) keys m).
Proof.
  induction keys as [|k r IH]; intros m H; [exact H|]. cbn [fold_left]. apply IH. unfold rb_step.
  destruct (fm_get (fp k) m) as [[v prev]|]; [|exact H]. destruct (ORACLE_ROLLBACK_CMP v stamp); [|exact H].
  destruct prev; [apply fm_wf_insert|apply fm_wf_remove]; exact H.
Qed.
End Folds.

(* ---------- the oracle operations ---------- *)
Section OracleOps.
Variable fp : bytes -> N.
Variable G : N.

Lemma fm_stamp_some f m v : fm_stamp f m = Some v <-> exists pv, fm_get f m = Some (v, pv).
Proof.
  unfold fm_stamp. destruct (fm_get f m) as [[w pv]|]; cbn [option_map fst]; split.
  - intros H. inversion H. exists pv. reflexivity.
  - intros [pv' H]. inversion H. reflexivity.
  - discriminate.
  - intros [pv' H]. discriminate.
Qed.

Lemma check_retry : retry_only_when_pruned_stmt fp.
Proof.
  intros s keys start. unfold check. rewrite cmp_retry. destruct (N.ltb start (kept_since s)) eqn:E.
  - split; [intros _; apply N.ltb_lt; exact E|reflexivity].
  - split.
    + destruct (existsb _ keys); discriminate.
    + intros H. apply N.ltb_lt in H. congruence.
Qed.

Lemma check_conflict_iff : check_conflict_iff_stmt fp.
Proof.
  intros s keys start Hk. unfold check. rewrite cmp_retry.
  assert (N.ltb start (kept_since s) = false) as -> by (apply N.ltb_ge; exact Hk).
  destruct (existsb _ keys) eqn:E.
  - split; [|reflexivity]. intros _. apply existsb_exists in E. destruct E as [k [Hin Hc]].
    destruct (fm_get (fp k) (recent s)) as [[v pv]|] eqn:Eg; [|discriminate].
    rewrite cmp_conflict in Hc. apply N.ltb_lt in Hc. exists k, v. split; [exact Hin|]. split; [|exact Hc].
    apply fm_stamp_some. exists pv. exact Eg.
  - split; [discriminate|]. intros [k [v [Hin [Hg Hlt]]]]. exfalso. apply fm_stamp_some in Hg. destruct Hg as [pv Hg].
    assert (existsb (fun k => match fm_get (fp k) (recent s) with
                              | Some (committed, _) => ORACLE_CONFLICT_CMP committed start | None => false end) keys = true) as H.
    { apply existsb_exists. exists k. split; [exact Hin|]. rewrite Hg. rewrite cmp_conflict. apply N.ltb_lt. exact Hlt. }
    congruence.
Qed.

Lemma check_ok_inv s keys start : check fp s keys start = VOk ->
  kept_since s <= start /\ forall k v, In k keys -> fm_stamp (fp k) (recent s) = Some v -> v <= start.
Proof.
  intros H. assert (kept_since s <= start) as Hk.
  { destruct (N.le_gt_cases (kept_since s) start) as [L|L]; [exact L|].
    apply (check_retry s keys start) in L. congruence. }
  split; [exact Hk|]. intros k v Hin Hg. destruct (N.le_gt_cases v start) as [L|L]; [exact L|]. exfalso.
  assert (check fp s keys start = VConflict) as Hc.
  { apply check_conflict_iff; [exact Hk|]. exists k, v. auto. }
  congruence.
Qed.
Lemma check_ok_intro s keys start :
  kept_since s <= start -> (forall k v, In k keys -> fm_stamp (fp k) (recent s) = Some v -> v <= start) ->
  check fp s keys start = VOk.
Proof.
  intros Hk Hall. destruct (check fp s keys start) eqn:E; [reflexivity| |].
  - exfalso. apply check_conflict_iff in E; [|exact Hk]. destruct E as [k [v [Hin [Hg Hlt]]]].
    specialize (Hall k v Hin Hg). lia.
  - exfalso. apply check_retry in E. lia.
Qed.

Definition gc_fires (s : ostate) (oldest : N) : bool :=
  ORACLE_GC_COUNT_CMP (sat_inc (commits_since_gc s)) G && ORACLE_GC_MARK_CMP oldest (kept_since s).

Lemma publish_kept s keys seq count oldest :
  kept_since (publish fp G s keys seq count oldest) = (if gc_fires s oldest then oldest else kept_since s).
Proof. unfold publish, gc_fires. destruct (_ && _); reflexivity. Qed.
Lemma gc_fires_mark s oldest : gc_fires s oldest = true -> kept_since s < oldest.
Proof. unfold gc_fires. rewrite cmp_gc_mark. intros H. apply andb_true_iff in H. apply N.ltb_lt. apply H. Qed.
Lemma publish_kept_ge s keys seq count oldest : kept_since s <= kept_since (publish fp G s keys seq count oldest).
Proof.
  rewrite publish_kept. destruct (gc_fires s oldest) eqn:E; [|lia]. apply gc_fires_mark in E. lia.
Qed.
Lemma publish_kept_le s keys seq count oldest b :
  kept_since s <= b -> oldest <= b -> kept_since (publish fp G s keys seq count oldest) <= b.
Proof. intros H1 H2. rewrite publish_kept. destruct (gc_fires s oldest); assumption. Qed.

Definition gc_val (oldest : N) (o : option entry) : option entry :=
  match o with Some e => if N.leb oldest (fst e) then Some e else None | None => None end.
Definition pub_base (s : ostate) (keys : list bytes) (stamp f : N) : option entry :=
  if has_fp fp f keys then Some (stamp, pub_prev stamp (fm_get f (recent s))) else fm_get f (recent s).
Lemma publish_get s keys seq count oldest f : fm_wf (recent s) ->
  fm_get f (recent (publish fp G s keys seq count oldest)) =
    if gc_fires s oldest then gc_val oldest (pub_base s keys (stamp_of seq count) f) else pub_base s keys (stamp_of seq count) f.
Proof.
  intros Hwf. unfold publish, pub_base. fold (gc_fires s oldest).
  destruct (gc_fires s oldest); cbn [recent].
  - rewrite fm_get_retain by (apply wf_pubs; exact Hwf). rewrite get_pubs.
    destruct (if has_fp fp f keys then _ else _) as [e|]; [|reflexivity]. cbn [gc_val]. rewrite cmp_retain. reflexivity.
  - apply get_pubs.
Qed.
Lemma publish_wf s keys seq count oldest : fm_wf (recent s) -> fm_wf (recent (publish fp G s keys seq count oldest)).
Proof.
  intros Hwf. unfold publish. destruct (_ && _); cbn [recent].
  - apply fm_wf_retain. apply wf_pubs. exact Hwf.
  - apply wf_pubs. exact Hwf.
Qed.
Lemma gc_val_some oldest o e : gc_val oldest o = Some e -> o = Some e.
Proof. destruct o as [w|]; [|discriminate]. cbn. destruct (N.leb oldest (fst w)); [auto|discriminate]. Qed.
Lemma publish_get_cases o keys seq count oldest f e : fm_wf (recent o) ->
  fm_get f (recent (publish fp G o keys seq count oldest)) = Some e ->
  (has_fp fp f keys = true /\ e = (stamp_of seq count, pub_prev (stamp_of seq count) (fm_get f (recent o)))) \/
  (has_fp fp f keys = false /\ fm_get f (recent o) = Some e).
Proof.
  intros Hwf H. rewrite publish_get in H by exact Hwf.
  assert (pub_base o keys (stamp_of seq count) f = Some e) as H2.
  { destruct (gc_fires o oldest); [apply gc_val_some in H|]; exact H. }
  unfold pub_base in H2. destruct (has_fp fp f keys); [left|right]; split; try reflexivity; congruence.
Qed.

(* ---------- soundness / justification of the map w.r.t. a list of successful commits ---------- *)
Definition osound (o : ostate) (done : list (N * list bytes)) : Prop :=
  forall m ks k, In (m, ks) done -> kept_since o < m -> In k ks ->
    exists v, fm_stamp (fp k) (recent o) = Some v /\ m <= v.
Definition ojust (o : ostate) (done : list (N * list bytes)) : Prop :=
  forall f v, fm_stamp f (recent o) = Some v -> exists ks k, In (v, ks) done /\ In k ks /\ fp k = f.
(* every recorded stamp is below `b` *)
Definition obelow (o : ostate) (b : N) : Prop := forall f e, fm_get f (recent o) = Some e -> fst e < b.

Lemma has_fp_self k keys : In k keys -> has_fp fp (fp k) keys = true.
Proof. intros H. apply has_fp_in. exists k. auto. Qed.

Lemma osound_publish o done keys seq count oldest :
  fm_wf (recent o) -> osound o done -> (forall m ks, In (m, ks) done -> m <= stamp_of seq count) ->
  osound (publish fp G o keys seq count oldest) ((stamp_of seq count, keys) :: done).
Proof.
  intros Hwf Hs Hle m ks k Hin Hm Hk. unfold fm_stamp. rewrite publish_get by exact Hwf.
  rewrite publish_kept in Hm.
  assert (exists e, pub_base o keys (stamp_of seq count) (fp k) = Some e /\ m <= fst e) as [e [He Hme]].
  { unfold pub_base. destruct Hin as [Hin|Hin].
    - inversion Hin. subst m ks. rewrite has_fp_self by exact Hk. eexists. split; [reflexivity|]. cbn [fst]. lia.
    - assert (kept_since o < m) as Hm0.
      { destruct (gc_fires o oldest) eqn:E; [apply gc_fires_mark in E; lia|exact Hm]. }
      destruct (Hs m ks k Hin Hm0 Hk) as [v0 [Hg Hv]]. apply fm_stamp_some in Hg. destruct Hg as [pv Hg].
      destruct (has_fp fp (fp k) keys).
      + eexists. split; [reflexivity|]. cbn [fst]. apply (Hle m ks). exact Hin.
      + exists (v0, pv). auto. }
  rewrite He. destruct (gc_fires o oldest); [|exists (fst e); auto]. cbn [gc_val].
  assert (N.leb oldest (fst e) = true) as -> by (apply N.leb_le; lia). exists (fst e). auto.
Qed.

(* after publish, no entry with this stamp remembers this stamp as its predecessor *)
Lemma publish_prev_ne o keys seq count oldest f : fm_wf (recent o) -> obelow o (stamp_of seq count) ->
  prev_ne (stamp_of seq count) (fm_get f (recent (publish fp G o keys seq count oldest))).
Proof.
  intros Hwf Hb p H. destruct (publish_get_cases _ _ _ _ _ _ _ Hwf H) as [[_ He]|[_ Ho]].
  - inversion He as [Hp]. destruct (fm_get f (recent o)) as [[cur pv]|] eqn:Eg; cbn [pub_prev] in Hp; [|discriminate].
    specialize (Hb f _ Eg). cbn [fst] in Hb. destruct (N.eqb cur (stamp_of seq count)) eqn:Ec.
    + apply N.eqb_eq in Ec. lia.
    + inversion Hp. lia.
  - specialize (Hb f _ Ho). cbn [fst] in Hb. lia.
Qed.

Lemma rollback_get o keys seq count oldest f : fm_wf (recent o) -> obelow o (stamp_of seq count) ->
  fm_get f (recent (rollback fp (publish fp G o keys seq count oldest) keys (stamp_of seq count))) =
    let g1 := fm_get f (recent (publish fp G o keys seq count oldest)) in
    if has_fp fp f keys then rb_val (stamp_of seq count) g1 else g1.
Proof.
  intros Hwf Hb. unfold rollback. cbn [recent]. apply get_rollbacks. apply publish_prev_ne; assumption.
Qed.

Lemma osound_publish_rollback o done keys seq count oldest :
  fm_wf (recent o) -> osound o done -> obelow o (stamp_of seq count) ->
  (forall m ks, In (m, ks) done -> m <= stamp_of seq count) ->
  osound (rollback fp (publish fp G o keys seq count oldest) keys (stamp_of seq count)) done.
Proof.
  intros Hwf Hs Hb Hle m ks k Hin Hm Hk. unfold fm_stamp. rewrite rollback_get by assumption. cbv zeta.
  change (kept_since (rollback fp ?x keys ?y)) with (kept_since x) in Hm. rewrite publish_kept in Hm.
  assert (kept_since o < m) as Hm0.
  { destruct (gc_fires o oldest) eqn:E; [apply gc_fires_mark in E; lia|exact Hm]. }
  destruct (Hs m ks k Hin Hm0 Hk) as [v0 [Hg Hv]]. apply fm_stamp_some in Hg. destruct Hg as [pv Hg].
  pose proof (Hb _ _ Hg) as Hv0. cbn [fst] in Hv0.
  rewrite publish_get by exact Hwf. unfold pub_base. rewrite Hg. cbn [pub_prev].
  assert (N.eqb v0 (stamp_of seq count) = false) as -> by (apply N.eqb_neq; lia).
  destruct (has_fp fp (fp k) keys) eqn:Eh.
  - destruct (gc_fires o oldest) eqn:Eg.
    + cbn [gc_val fst]. destruct (N.leb oldest (stamp_of seq count)) eqn:El.
      * cbn [rb_val]. rewrite N.eqb_refl. cbn [option_map fst]. exists v0. auto.
      * exfalso. apply N.leb_gt in El. specialize (Hle m ks Hin). lia.
    + cbn [rb_val]. rewrite N.eqb_refl. cbn [option_map fst]. exists v0. auto.
  - destruct (gc_fires o oldest); [|cbn [option_map fst]; exists v0; auto]. cbn [gc_val fst].
    assert (N.leb oldest v0 = true) as -> by (apply N.leb_le; lia). cbn [option_map fst]. exists v0. auto.
Qed.

Lemma ojust_publish o done keys seq count oldest :
  fm_wf (recent o) -> ojust o done ->
  ojust (publish fp G o keys seq count oldest) ((stamp_of seq count, keys) :: done).
Proof.
  intros Hwf Hj f v Hg. apply fm_stamp_some in Hg. destruct Hg as [pv Hg].
  destruct (publish_get_cases _ _ _ _ _ _ _ Hwf Hg) as [[Hh Hv]|[Hh Ho]].
  - inversion Hv. apply has_fp_in in Hh. destruct Hh as [k [Hin Hf]]. exists keys, k. split; [left; reflexivity|auto].
  - destruct (Hj f v) as [ks [k [H1 H2]]]; [apply fm_stamp_some; exists pv; exact Ho|].
    exists ks, k. split; [right; exact H1|exact H2].
Qed.
Lemma ojust_publish_rollback o done keys seq count oldest :
  fm_wf (recent o) -> ojust o done -> obelow o (stamp_of seq count) ->
  ojust (rollback fp (publish fp G o keys seq count oldest) keys (stamp_of seq count)) done.
Proof.
  intros Hwf Hj Hb f v Hg. apply fm_stamp_some in Hg. destruct Hg as [pv Hg].
  rewrite rollback_get in Hg by assumption. cbv zeta in Hg. destruct (has_fp fp f keys) eqn:Eh.
  - destruct (fm_get f (recent (publish fp G o keys seq count oldest))) as [e1|] eqn:E1; [|discriminate].
    destruct (publish_get_cases _ _ _ _ _ _ _ Hwf E1) as [[_ He]|[Hh _]]; [|congruence]. subst e1.
    cbn [rb_val] in Hg. rewrite N.eqb_refl in Hg.
    destruct (fm_get f (recent o)) as [[cur pv0]|] eqn:Eo; cbn [pub_prev] in Hg; [|discriminate].
    pose proof (Hb _ _ Eo) as Hc. cbn [fst] in Hc.
    assert (N.eqb cur (stamp_of seq count) = false) as Hne by (apply N.eqb_neq; lia). rewrite Hne in Hg.
    inversion Hg. subst v. apply Hj. apply fm_stamp_some. exists pv0. exact Eo.
  - destruct (publish_get_cases _ _ _ _ _ _ _ Hwf Hg) as [[Hh _]|[_ Ho]]; [congruence|].
    apply Hj. apply fm_stamp_some. exists pv. exact Ho.
Qed.
Lemma rollback_wf o keys stamp : fm_wf (recent o) -> fm_wf (recent (rollback fp o keys stamp)).
Proof. intros H. unfold rollback. cbn [recent]. apply (wf_rollbacks fp stamp keys). exact H. Qed.
End OracleOps.
(* ---------- the sequential commit machine ---------- *)
Lemma tx_get_set_same i t l : tx_get i (tx_set i t l) = Some t.
Proof.
  induction l as [|[j u] r IH]; cbn [tx_set tx_get]; [rewrite N.eqb_refl; reflexivity|].
  destruct (N.eqb i j) eqn:E; cbn [tx_get]; [rewrite N.eqb_refl; reflexivity|]. rewrite E. exact IH.
Qed.
Lemma tx_get_set_other i j t l : i <> j -> tx_get j (tx_set i t l) = tx_get j l.
Proof.
  intros Hne. induction l as [|[h u] r IH]; cbn [tx_set tx_get].
  - destruct (N.eqb j i) eqn:E; [apply N.eqb_eq in E; congruence|reflexivity].
  - destruct (N.eqb i h) eqn:E; cbn [tx_get].
    + apply N.eqb_eq in E. subst h. destruct (N.eqb j i) eqn:E2; [apply N.eqb_eq in E2; congruence|reflexivity].
    + destruct (N.eqb j h); [reflexivity|exact IH].
Qed.
Lemma tx_get_set i j t l : tx_get j (tx_set i t l) = if N.eqb i j then Some t else tx_get j l.
Proof.
  destruct (N.eqb i j) eqn:E.
  - apply N.eqb_eq in E. subst j. apply tx_get_set_same.
  - apply tx_get_set_other. intros H. subst j. rewrite N.eqb_refl in E. discriminate.
Qed.

Lemma min_start_le p : forall l id t, tx_get id l = Some t -> p t = true ->
  exists m, min_start p l = Some m /\ m <= t_start t.
Proof.
  induction l as [|[j u] r IH]; intros id t Hg Hp; [discriminate|]. cbn [tx_get] in Hg. cbn [min_start].
  destruct (N.eqb id j).
  - inversion Hg. subst u. rewrite Hp. destruct (min_start p r) as [m|]; eexists; split; try reflexivity; lia.
  - destruct (IH id t Hg Hp) as [m [Hm Hle]]. rewrite Hm. destruct (p u); eexists; split; try reflexivity; lia.
Qed.
Lemma oldest_active_le_reg s id t : tx_get id (c_txs s) = Some t -> t_reg t = true -> oldest_active s <= t_start t.
Proof.
  intros Hg Hr. destruct (min_start_le t_reg _ _ _ Hg Hr) as [b [Hb Hle]]. unfold oldest_active. rewrite Hb.
  destruct (min_start t_snap (c_txs s)); lia.
Qed.

Lemma count_pos (keys : list bytes) : keys <> [] -> 1 <= N.of_nat (length keys).
Proof. destruct keys; [congruence|]. intros _. cbn [length]. lia. Qed.
Lemma stamp_ge seq count : 1 <= count -> seq <= stamp_of seq count /\ stamp_of seq count < seq + count.
Proof. unfold stamp_of. lia. Qed.

Section Machine.
Variable fp : bytes -> N.
Variable G : N.

Record inv (s : cstate) : Prop := {
  i_wf : fm_wf (recent (c_orc s));
  i_sound : osound fp (c_orc s) (c_done s);
  i_next : forall m ks, In (m, ks) (c_done s) -> m < c_next s;
  i_just : ojust fp (c_orc s) (c_done s);
}.
Record winv (s : cstate) : Prop := {
  w_reg : watermark_ok s;
  w_kept : kept_since (c_orc s) <= c_visible s;
  w_start : forall id t, tx_get id (c_txs s) = Some t -> t_start t <= c_visible s;
  w_epoch : forall id t, tx_get id (c_txs s) = Some t -> epoch_current s t;
}.
Definition regopen (s : cstate) : Prop :=
  forall id t, tx_get id (c_txs s) = Some t -> t_reg t = true -> t_closed t = false.

Lemma inv_c0 : inv c0.
Proof. split; cbn; [constructor|intros m ks k []|intros m ks []|intros f v H; discriminate]. Qed.
Lemma winv_c0 : winv c0.
Proof. split; cbn; [intros id t H; discriminate|lia|intros id t H; discriminate|intros id t H; discriminate]. Qed.
Lemma regopen_c0 : regopen c0.
Proof. intros id t H. discriminate. Qed.

(* the three shapes a step can have *)
Inductive shape (s : cstate) (c : cstep) : cstate -> outcome -> Prop :=
| ShSame o : shape s c s o
| ShTxs txs o : shape s c
    {| c_txs := txs; c_visible := c_visible s; c_next := c_next s; c_orc := c_orc s; c_done := c_done s; c_epoch := c_epoch s |} o
| ShOk id t keys :
    c = SCommit id keys false -> tx_get id (c_txs s) = Some t -> t_closed t = false -> keys <> [] ->
    epoch_current s t ->
    check fp (c_orc s) keys (t_start t) = VOk ->
    shape s c
      {| c_txs := tx_set id {| t_start := t_start t; t_reg := false; t_snap := t_snap t; t_closed := true; t_epoch := t_epoch t |} (c_txs s);
         c_visible := N.max (c_visible s) (stamp_of (c_next s) (N.of_nat (length keys)));
         c_next := c_next s + N.of_nat (length keys);
         c_orc := publish fp G (c_orc s) keys (c_next s) (N.of_nat (length keys)) (N.min (oldest_active s) (t_start t));
         c_done := (stamp_of (c_next s) (N.of_nat (length keys)), keys) :: c_done s; c_epoch := c_epoch s |} OOk
| ShFail id t keys :
    c = SCommit id keys true -> tx_get id (c_txs s) = Some t -> t_closed t = false -> keys <> [] ->
    epoch_current s t ->
    check fp (c_orc s) keys (t_start t) = VOk ->
    shape s c
      {| c_txs := c_txs s;
         c_visible := N.max (c_visible s) (stamp_of (c_next s) (N.of_nat (length keys)));
         c_next := c_next s + N.of_nat (length keys);
         c_orc := rollback fp (publish fp G (c_orc s) keys (c_next s) (N.of_nat (length keys)) (N.min (oldest_active s) (t_start t)))
                           keys (stamp_of (c_next s) (N.of_nat (length keys)));
         c_done := c_done s; c_epoch := c_epoch s |} OFailed
| ShRestore max :
    c = SRestore max ->
    shape s c
      {| c_txs := c_txs s;
         c_visible := if N.ltb 0 max then max else c_visible s;
         c_next := if N.ltb 0 max then max + 1 else c_next s;
         c_orc := reset_for_restore (c_orc s) max;
         c_done := filter (fun e => N.leb (fst e) max) (c_done s); c_epoch := c_epoch s + 1 |} OOk.

Lemma step_shape s c : shape s c (step_state fp G s c) (step_outcome fp G s c).
Proof.
  unfold step_state, step_outcome. destruct c as [id m|id|id keys fail|max]; cbn [cs_step].
  - destruct (tx_get id (c_txs s)); cbn [fst snd]; [apply ShSame|apply ShTxs].
  - destruct (tx_get id (c_txs s)); cbn [fst snd]; [apply ShTxs|apply ShSame].
  - destruct (tx_get id (c_txs s)) as [t|] eqn:Et; cbn [fst snd]; [|apply ShSame].
    destruct (t_closed t) eqn:Ec; cbn [fst snd]; [apply ShSame|].
    destruct keys as [|k0 kr]; cbn [fst snd]; [apply ShTxs|].
    unfold commit_core. destruct (match t_epoch t with Some e => ORACLE_EPOCH_CMP e (c_epoch s) | None => false end) eqn:Egd; cbn [fst snd]; [apply ShSame|].
    apply epoch_test_false in Egd.
    destruct (check fp (c_orc s) (k0 :: kr) (t_start t)) eqn:Ech; cbn [fst snd]; try apply ShSame.
    destruct fail; cbn [fst snd].
    + eapply ShFail; eauto. congruence.
    + eapply ShOk; eauto. congruence.
  - cbn [fst snd]. apply ShRestore. reflexivity.
Qed.

Lemma inv_below s : inv s -> obelow (c_orc s) (c_next s).
Proof.
  intros [_ _ Hn Hj] f [v pv] Hg. cbn [fst]. destruct (Hj f v) as [ks [k [Hin _]]].
  - apply fm_stamp_some. exists pv. exact Hg.
  - apply (Hn v ks). exact Hin.
Qed.

Lemma inv_step s c : inv s -> inv (step_state fp G s c).
Proof.
  intros Hi. pose proof (inv_below s Hi) as Hb. destruct Hi as [Hwf Hs Hn Hj].
  destruct (step_shape s c) as [o|txs o|id t keys Hc Hg Hcl Hne Hgd Hch|id t keys Hc Hg Hcl Hne Hgd Hch|max Hc].
  - split; assumption.
  - split; cbn; assumption.
  - pose proof (count_pos keys Hne) as Hcp. destruct (stamp_ge (c_next s) _ Hcp) as [Hs1 Hs2].
    assert (forall m ks, In (m, ks) (c_done s) -> m <= stamp_of (c_next s) (N.of_nat (length keys))) as Hle.
    { intros m ks Hin. specialize (Hn m ks Hin). lia. }
    split; cbn [c_orc c_done c_next].
    + apply publish_wf. exact Hwf.
    + apply osound_publish; assumption.
    + intros m ks [Hin|Hin]; [inversion Hin; subst; lia|]. specialize (Hn m ks Hin). lia.
    + apply ojust_publish; assumption.
  - pose proof (count_pos keys Hne) as Hcp. destruct (stamp_ge (c_next s) _ Hcp) as [Hs1 Hs2].
    assert (forall m ks, In (m, ks) (c_done s) -> m <= stamp_of (c_next s) (N.of_nat (length keys))) as Hle.
    { intros m ks Hin. specialize (Hn m ks Hin). lia. }
    assert (obelow (c_orc s) (stamp_of (c_next s) (N.of_nat (length keys)))) as Hb2.
    { intros f e He. specialize (Hb f e He). lia. }
    split; cbn [c_orc c_done c_next].
    + apply rollback_wf. apply publish_wf. exact Hwf.
    + apply osound_publish_rollback; assumption.
    + intros m ks Hin. specialize (Hn m ks Hin). lia.
    + apply ojust_publish_rollback; assumption.
  - split; cbn [c_orc c_done c_next reset_for_restore recent kept_since].
    + constructor.
    + intros m ks k Hin Hm _. cbn in Hm. apply filter_In in Hin. destruct Hin as [_ Hle]. cbn [fst] in Hle. apply N.leb_le in Hle. lia.
    + intros m ks Hin. apply filter_In in Hin. destruct Hin as [Hin Hle]. cbn [fst] in Hle. apply N.leb_le in Hle.
      specialize (Hn m ks Hin). destruct (N.ltb 0 max); lia.
    + intros f v H. discriminate.
Qed.

Lemma rollback_kept o keys stamp : kept_since (rollback fp o keys stamp) = kept_since o.
Proof. reflexivity. Qed.

Lemma winv_step s c : winv s -> is_restore c = false -> winv (step_state fp G s c).
Proof.
  intros [Hr Hk Hst Hep] Hnr. unfold step_state. destruct c as [id m|id|id keys fail|max]; cbn [cs_step]; [| | |discriminate].
  - destruct (tx_get id (c_txs s)) eqn:Eg; cbn [fst]; [split; assumption|].
    split; cbn [c_txs c_orc c_visible]; [|exact Hk| |].
    + intros id' t'. cbn [c_txs c_orc c_visible]. rewrite tx_get_set. destruct (N.eqb id id').
      * intros H _. inversion H. cbn [t_start]. exact Hk.
      * apply Hr.
    + intros id' t'. rewrite tx_get_set. destruct (N.eqb id id').
      * intros H. inversion H. cbn [t_start]. lia.
      * apply Hst.
    + intros id' t'. rewrite tx_get_set. destruct (N.eqb id id').
      * intros H. inversion H. unfold epoch_current. cbn [t_epoch c_epoch]. destruct m; reflexivity || exact I.
      * intros H. apply (Hep id' t' H).
  - destruct (tx_get id (c_txs s)) as [t|] eqn:Eg; cbn [fst]; [|split; assumption].
    split; cbn [c_txs c_orc c_visible]; [|exact Hk| |].
    + intros id' t'. cbn [c_txs c_orc c_visible]. rewrite tx_get_set. destruct (N.eqb id id').
      * intros H Hreg. inversion H. subst t'. discriminate.
      * apply Hr.
    + intros id' t'. rewrite tx_get_set. destruct (N.eqb id id') eqn:E.
      * intros H. inversion H. cbn [t_start]. apply (Hst id). exact Eg.
      * apply Hst.
    + intros id' t'. rewrite tx_get_set. destruct (N.eqb id id') eqn:E.
      * intros H. inversion H. apply (Hep id t Eg).
      * intros H. apply (Hep id' t' H).
  - destruct (tx_get id (c_txs s)) as [t|] eqn:Eg; cbn [fst]; [|split; assumption].
    destruct (t_closed t); cbn [fst]; [split; assumption|].
    destruct keys as [|k0 kr]; cbn [fst].
    + split; cbn [c_txs c_orc c_visible]; [|exact Hk| |].
      * intros id' t'. cbn [c_txs c_orc c_visible]. rewrite tx_get_set. destruct (N.eqb id id').
        -- intros H Hreg. inversion H. subst t'. discriminate.
        -- apply Hr.
      * intros id' t'. rewrite tx_get_set. destruct (N.eqb id id').
        -- intros H. inversion H. cbn [t_start]. apply (Hst id). exact Eg.
        -- apply Hst.
      * intros id' t'. rewrite tx_get_set. destruct (N.eqb id id').
        -- intros H. inversion H. apply (Hep id t Eg).
        -- intros H. apply (Hep id' t' H).
    + unfold commit_core. destruct (match t_epoch t with Some e => ORACLE_EPOCH_CMP e (c_epoch s) | None => false end); cbn [fst]; [split; assumption|].
      destruct (check fp (c_orc s) (k0 :: kr) (t_start t)) eqn:Ech; cbn [fst]; try (split; assumption).
      pose proof (Hst id t Eg) as Hstart.
      set (keys := k0 :: kr) in *. set (old := N.min (oldest_active s) (t_start t)).
      set (o1 := publish fp G (c_orc s) keys (c_next s) (N.of_nat (length keys)) old).
      assert (kept_since o1 <= c_visible s) as Hk1 by (apply publish_kept_le; [exact Hk|unfold old; lia]).
      assert (forall id' t', tx_get id' (c_txs s) = Some t' -> t_reg t' = true -> kept_since o1 <= t_start t') as Hr1.
      { intros id' t' Hg' Hreg'. apply publish_kept_le; [apply (Hr id'); assumption|].
        pose proof (oldest_active_le_reg s id' t' Hg' Hreg'). unfold old. lia. }
      destruct fail; cbn [fst].
      * assert (kept_since (rollback fp o1 keys (stamp_of (c_next s) (N.of_nat (length keys)))) = kept_since o1) as Hkk
          by reflexivity.
        split; cbn [c_txs c_orc c_visible]; rewrite ?Hkk.
        -- intros id' t'. unfold watermark_ok in *. cbn [c_txs c_orc]. rewrite Hkk. apply Hr1.
        -- lia.
        -- intros id' t' Hg'. specialize (Hst id' t' Hg'). lia.
        -- intros id' t' Hg'. apply (Hep id' t' Hg').
      * split; cbn [c_txs c_orc c_visible].
        -- intros id' t'. cbn [c_txs c_orc c_visible]. rewrite tx_get_set. destruct (N.eqb id id').
           ++ intros H Hreg. inversion H. subst t'. discriminate.
           ++ apply Hr1.
        -- lia.
        -- intros id' t'. rewrite tx_get_set. destruct (N.eqb id id').
           ++ intros H. inversion H. cbn [t_start]. lia.
           ++ intros Hg'. specialize (Hst id' t' Hg'). lia.
        -- intros id' t'. rewrite tx_get_set. destruct (N.eqb id id').
           ++ intros H. inversion H. apply (Hep id t Eg).
           ++ intros H. apply (Hep id' t' H).
Qed.

Lemma regopen_step s c : regopen s -> regopen (step_state fp G s c).
Proof.
  intros Hro. unfold step_state. destruct c as [id m|id|id keys fail|max]; cbn [cs_step].
  - destruct (tx_get id (c_txs s)); cbn [fst]; [exact Hro|]. intros id' t'. cbn [c_txs c_orc c_visible]. rewrite tx_get_set.
    destruct (N.eqb id id'); [intros H _; inversion H; reflexivity|apply Hro].
  - destruct (tx_get id (c_txs s)); cbn [fst]; [|exact Hro]. intros id' t'. cbn [c_txs c_orc c_visible]. rewrite tx_get_set.
    destruct (N.eqb id id'); [intros H Hr; inversion H; subst t'; discriminate|apply Hro].
  - destruct (tx_get id (c_txs s)) as [t|]; cbn [fst]; [|exact Hro]. destruct (t_closed t); cbn [fst]; [exact Hro|].
    destruct keys as [|k0 kr]; cbn [fst].
    + intros id' t'. cbn [c_txs c_orc c_visible]. rewrite tx_get_set.
      destruct (N.eqb id id'); [intros H Hr; inversion H; subst t'; discriminate|apply Hro].
    + unfold commit_core. destruct (match t_epoch t with Some e => ORACLE_EPOCH_CMP e (c_epoch s) | None => false end); cbn [fst]; [exact Hro|].
      destruct (check fp (c_orc s) (k0 :: kr) (t_start t)); cbn [fst]; try exact Hro.
      destruct fail; cbn [fst]; [exact Hro|]. intros id' t'. cbn [c_txs c_orc c_visible]. rewrite tx_get_set.
      destruct (N.eqb id id'); [intros H Hr; inversion H; subst t'; discriminate|apply Hro].
  - cbn [fst]. exact Hro.
Qed.

(* ---------- runs ---------- *)
Lemma run_app a b s : run fp G (a ++ b) s = run fp G b (run fp G a s).
Proof. unfold run. apply fold_left_app. Qed.

Lemma inv_run steps : forall s, inv s -> inv (run fp G steps s).
Proof. induction steps as [|c r IH]; intros s Hi; [exact Hi|]. cbn [run fold_left]. apply IH. apply inv_step. exact Hi. Qed.
Lemma winv_run steps : forall s, winv s -> no_restore steps -> winv (run fp G steps s).
Proof.
  induction steps as [|c r IH]; intros s Hi Hm; [exact Hi|]. cbn [run fold_left]. apply IH.
  - apply winv_step; [exact Hi|apply Hm; left; reflexivity].
  - intros c' Hin. apply Hm. right. exact Hin.
Qed.
Lemma regopen_run steps : forall s, regopen s -> regopen (run fp G steps s).
Proof. induction steps as [|c r IH]; intros s Hi; [exact Hi|]. cbn [run fold_left]. apply IH. apply regopen_step. exact Hi. Qed.

(* keys of the successful commits come from the steps *)
Lemma done_keys_step s c m ks : In (m, ks) (c_done (step_state fp G s c)) ->
  In (m, ks) (c_done s) \/ ks = step_keys c.
Proof.
  destruct (step_shape s c) as [o|txs o|id t keys Hc Hg Hcl Hne Hgd Hch|id t keys Hc Hg Hcl Hne Hgd Hch|max Hc]; cbn [c_done]; auto.
  - intros [H|H]; [right; inversion H; subst c; subst ks; reflexivity|left; exact H].
  - intros H. apply filter_In in H. left. apply H.
Qed.
Lemma done_keys_run steps : forall s m ks k, In (m, ks) (c_done (run fp G steps s)) -> In k ks ->
  (exists m', In (m', ks) (c_done s)) \/ In k (steps_keys steps).
Proof.
  induction steps as [|c r IH]; intros s m ks k Hin Hk; [left; exists m; exact Hin|]. cbn [run fold_left] in Hin.
  destruct (IH _ _ _ _ Hin Hk) as [[m' H]|H].
  - destruct (done_keys_step _ _ _ _ H) as [H2|H2]; [left; exists m'; exact H2|].
    right. unfold steps_keys. cbn [map concat]. apply in_or_app. left. subst ks. exact Hk.
  - right. unfold steps_keys. cbn [map concat]. apply in_or_app. right. exact H.
Qed.

(* ---------- what an accepted / refused commit means ---------- *)
Lemma commit_outcome s id keys fail t : tx_get id (c_txs s) = Some t ->
  step_outcome fp G s (SCommit id keys fail) =
    if t_closed t then OClosed
    else match keys with
         | [] => OOk
         | _ => if match t_epoch t with Some e => ORACLE_EPOCH_CMP e (c_epoch s) | None => false end then ORetry
                else match check fp (c_orc s) keys (t_start t) with
                     | VRetry => ORetry | VConflict => OConflict | VOk => if fail then OFailed else OOk
                     end
         end.
Proof.
  intros Hg. unfold step_outcome. cbn [cs_step]. rewrite Hg. destruct (t_closed t); [reflexivity|].
  destruct keys as [|k0 kr]; [reflexivity|]. unfold commit_core.
  destruct (match t_epoch t with Some e => ORACLE_EPOCH_CMP e (c_epoch s) | None => false end); [reflexivity|].
  destruct (check fp (c_orc s) (k0 :: kr) (t_start t)); try reflexivity. destruct fail; reflexivity.
Qed.

Lemma no_lost_update_from_inv s id keys fail t m ks k :
  inv s -> tx_get id (c_txs s) = Some t ->
  step_outcome fp G s (SCommit id keys fail) = OOk ->
  In (m, ks) (c_done s) -> t_start t < m -> In k keys -> ~ In k ks.
Proof.
  intros [Hwf Hs Hn _] Hg Ho Hin Hlt Hk Hks. rewrite (commit_outcome _ _ _ _ _ Hg) in Ho.
  destruct (t_closed t); [discriminate|]. destruct keys as [|k0 kr]; [destruct Hk|].
  destruct (match t_epoch t with Some e => ORACLE_EPOCH_CMP e (c_epoch s) | None => false end); [discriminate|].
  destruct (check fp (c_orc s) (k0 :: kr) (t_start t)) eqn:Ech; try discriminate.
  apply check_ok_inv in Ech. destruct Ech as [Hkept Hall].
  destruct (Hs m ks k Hin ltac:(lia) Hks) as [v [Hv Hmv]]. specialize (Hall k v Hk Hv). lia.
Qed.

Theorem oracle_sound : oracle_sound_stmt fp G.
Proof. intros steps. apply (inv_run steps c0 inv_c0). Qed.
Theorem watermark_ok_run : watermark_ok_stmt fp G.
Proof. intros steps Hnr. destruct (winv_run steps c0 winv_c0 Hnr) as [H1 H2 _ _]. split; assumption. Qed.

Theorem no_lost_update : no_lost_update_stmt fp G.
Proof.
  intros steps id keys fail t m ks k s. apply no_lost_update_from_inv. apply (inv_run steps c0 inv_c0).
Qed.

Theorem no_false_conflict : no_false_conflict_stmt fp G.
Proof.
  intros steps id keys fail t s Hinj Hg Hcl Hep Hkept Hnone.
  rewrite (commit_outcome _ _ _ _ _ Hg). rewrite Hcl. destruct keys as [|k0 kr]; [reflexivity|].
  apply epoch_test_false in Hep. rewrite Hep.
  set (keys := k0 :: kr) in *.
  assert (check fp (c_orc s) keys (t_start t) = VOk) as ->; [|reflexivity].
  apply check_ok_intro; [exact Hkept|]. intros k v Hk Hv.
  destruct (N.le_gt_cases v (t_start t)) as [L|L]; [exact L|]. exfalso.
  destruct (inv_run steps c0 inv_c0) as [_ _ _ Hj]. fold s in Hj.
  destruct (Hj _ _ Hv) as [ks [k' [Hin [Hk' Hfp]]]].
  assert (In k' (steps_keys steps)) as Hsk.
  { destruct (done_keys_run steps c0 v ks k' Hin Hk') as [[m' H]|H]; [destruct H|exact H]. }
  assert (k' = k) as ->.
  { apply Hinj; [apply in_or_app; left; exact Hsk|apply in_or_app; right; exact Hk|exact Hfp]. }
  apply (Hnone v ks k Hin L Hk Hk').
Qed.

Theorem registered_never_retry : registered_never_retry_stmt fp G.
Proof.
  intros steps id keys fail t Hnr s Hg Hreg. rewrite (commit_outcome _ _ _ _ _ Hg).
  destruct (winv_run steps c0 winv_c0 Hnr) as [Hr _ _ Hep]. fold s in Hr, Hep. specialize (Hr id t Hg Hreg).
  specialize (Hep id t Hg). apply epoch_test_false in Hep.
  destruct (t_closed t); [discriminate|]. destruct keys as [|k0 kr]; [discriminate|]. rewrite Hep.
  destruct (check fp (c_orc s) (k0 :: kr) (t_start t)) eqn:E; try discriminate; [destruct fail; discriminate|].
  apply check_retry in E. lia.
Qed.

Theorem commit_accepted : commit_accepted_stmt fp G.
Proof.
  intros steps id keys fail t Hnr s Hinj Hg Hreg Hnone.
  pose proof (no_false_conflict steps id keys fail t) as H. cbv zeta in H. apply H; try assumption.
  - apply (regopen_run steps c0 regopen_c0 id t Hg Hreg).
  - destruct (winv_run steps c0 winv_c0 Hnr) as [_ _ _ Hep]. apply (Hep id t Hg).
  - destruct (winv_run steps c0 winv_c0 Hnr) as [Hr _ _ _]. apply (Hr id t Hg Hreg).
Qed.

Theorem gc_clamp_ok : gc_clamp_ok_stmt fp G.
Proof.
  intros s id keys fail t Hg Hne Ho. rewrite (commit_outcome _ _ _ _ _ Hg) in Ho.
  unfold step_state. cbn [cs_step]. rewrite Hg. destruct (t_closed t); [destruct Ho; discriminate|].
  destruct keys as [|k0 kr]; [congruence|]. unfold commit_core.
  destruct (match t_epoch t with Some e => ORACLE_EPOCH_CMP e (c_epoch s) | None => false end); [destruct Ho; discriminate|].
  destruct (check fp (c_orc s) (k0 :: kr) (t_start t)) eqn:E; try (destruct Ho; discriminate).
  apply check_ok_inv in E. destruct E as [Hk _].
  destruct fail; cbn [fst c_orc]; [cbn [kept_since rollback]|];
    apply publish_kept_le; lia.
Qed.

Lemma vinv_step s c : c_visible s < c_next s ->
  c_visible (step_state fp G s c) < c_next (step_state fp G s c).
Proof.
  intros H. destruct (step_shape s c) as [o|txs o|id t keys Hc Hg Hcl Hne Hgd Hch|id t keys Hc Hg Hcl Hne Hgd Hch|max Hc];
    cbn [c_visible c_next]; try exact H.
  - pose proof (count_pos keys Hne). unfold stamp_of. lia.
  - pose proof (count_pos keys Hne). unfold stamp_of. lia.
  - destruct (N.ltb 0 max); lia.
Qed.
Lemma vis_mono_step s c : is_restore c = false -> c_visible s <= c_visible (step_state fp G s c).
Proof.
  intros H. destruct (step_shape s c) as [o|txs o|id t keys Hc Hg Hcl Hne Hgd Hch|id t keys Hc Hg Hcl Hne Hgd Hch|max Hc];
    cbn [c_visible]; try lia. subst c. discriminate.
Qed.
Lemma done_step_new s c m ks : In (m, ks) (c_done (step_state fp G s c)) ->
  In (m, ks) (c_done s) \/ c_next s <= m.
Proof.
  destruct (step_shape s c) as [o|txs o|id t keys Hc Hg Hcl Hne Hgd Hch|id t keys Hc Hg Hcl Hne Hgd Hch|max Hc];
    cbn [c_done]; auto.
  - intros [H|H]; [right|left; exact H]. inversion H as [[H1 H2]]. pose proof (count_pos keys Hne) as Hcp. unfold stamp_of in *. rewrite <- H2. lia.
  - intros H. apply filter_In in H. left. apply H.
Qed.
Lemma vinv_run steps : forall s, c_visible s < c_next s -> c_visible (run fp G steps s) < c_next (run fp G steps s).
Proof. induction steps as [|c r IH]; intros s H; [exact H|]. cbn [run fold_left]. apply IH. apply vinv_step. exact H. Qed.

Theorem later_commits_have_later_stamps : later_commits_have_later_stamps_stmt fp G.
Proof.
  intros pre post m ks Hnr s1.
  assert (c_visible s1 < c_next s1) as Hv.
  { apply vinv_run. cbn. rewrite first_seq. lia. }
  assert (forall post s v, v <= c_visible s -> c_visible s < c_next s -> no_restore post ->
            In (m, ks) (c_done (run fp G post s)) -> In (m, ks) (c_done s) \/ v < m) as Hgen.
  { clear. induction post as [|c r IH]; intros s v Hle Hvn Hnr Hin; [left; exact Hin|]. cbn [run fold_left] in Hin.
    assert (is_restore c = false) as Hc by (apply Hnr; left; reflexivity).
    pose proof (vis_mono_step s c Hc) as Hm.
    destruct (IH (step_state fp G s c) v ltac:(lia) (vinv_step s c Hvn)
                 (fun c' H => Hnr c' (or_intror H)) Hin) as [H|H]; [|right; exact H].
    destruct (done_step_new _ _ _ _ H) as [H2|H2]; [left; exact H2|right; lia]. }
  apply (Hgen post s1 (c_visible s1)); [lia|exact Hv|exact Hnr].
Qed.

Theorem refused_has_no_effect : refused_has_no_effect_stmt fp G.
Proof.
  intros s c o Ho Hc. subst o. revert Hc. unfold step_outcome, step_state.
  destruct c as [id m|id|id keys fail|max]; cbn [cs_step].
  - destruct (tx_get id (c_txs s)); cbn [fst snd]; [reflexivity|]. intros [H|[H|[H|[H|H]]]]; discriminate.
  - destruct (tx_get id (c_txs s)); cbn [fst snd]; [|reflexivity]. intros [H|[H|[H|[H|H]]]]; discriminate.
  - destruct (tx_get id (c_txs s)) as [t|]; cbn [fst snd]; [|reflexivity].
    destruct (t_closed t); cbn [fst snd]; [reflexivity|].
    destruct keys as [|k0 kr]; cbn [fst snd]; [intros [H|[H|[H|[H|H]]]]; discriminate|].
    unfold commit_core. destruct (match t_epoch t with Some e => ORACLE_EPOCH_CMP e (c_epoch s) | None => false end); cbn [fst snd]; [reflexivity|].
    destruct (check fp (c_orc s) (k0 :: kr) (t_start t)); cbn [fst snd]; try reflexivity.
    destruct fail; cbn [fst snd]; intros [H|[H|[H|[H|H]]]]; discriminate.
  - cbn [fst snd]. intros [H|[H|[H|[H|H]]]]; discriminate.
Qed.

(* ---------- the repair of C04-N1: the restore epoch ---------- *)
Theorem stale_epoch_refused : stale_epoch_refused_stmt fp G.
Proof.
  intros s id keys fail t e Hg Hcl Hne He Hdiff. cbn [cs_step]. rewrite Hg, Hcl.
  destruct keys as [|k0 kr]; [congruence|]. unfold commit_core. rewrite He, cmp_epoch.
  assert (N.eqb e (c_epoch s) = false) as -> by (apply N.eqb_neq; exact Hdiff). reflexivity.
Qed.

Theorem oracle_consulted_only_in_epoch : oracle_consulted_only_in_epoch_stmt fp G.
Proof.
  intros s id keys fail t Hg. cbn [cs_step]. rewrite Hg. destruct (t_closed t); cbn [snd]; [congruence|].
  destruct keys as [|k0 kr]; cbn [snd]; [congruence|]. unfold commit_core.
  destruct (match t_epoch t with Some e => ORACLE_EPOCH_CMP e (c_epoch s) | None => false end) eqn:E; cbn [snd]; [congruence|]. intros _. apply epoch_test_false. exact E.
Qed.

(* the epoch counter: +1 at a restore, unchanged otherwise *)
Lemma epoch_step s c : c_epoch (step_state fp G s c) = if is_restore c then c_epoch s + 1 else c_epoch s.
Proof.
  unfold step_state. destruct c as [id m|id|id keys fail|max]; cbn [cs_step is_restore].
  - destruct (tx_get id (c_txs s)); reflexivity.
  - destruct (tx_get id (c_txs s)); reflexivity.
  - destruct (tx_get id (c_txs s)) as [t|]; [|reflexivity]. destruct (t_closed t); [reflexivity|].
    destruct keys as [|k0 kr]; [reflexivity|]. unfold commit_core. destruct (match t_epoch t with Some e => ORACLE_EPOCH_CMP e (c_epoch s) | None => false end); [reflexivity|].
    destruct (check fp (c_orc s) (k0 :: kr) (t_start t)); try reflexivity. destruct fail; reflexivity.
  - reflexivity.
Qed.
Lemma epoch_run post : forall s, c_epoch s <= c_epoch (run fp G post s) /\
  (c_epoch (run fp G post s) = c_epoch s -> no_restore post).
Proof.
  induction post as [|c r IH]; intros s; [split; [cbn; lia|intros _ c []]|]. cbn [run fold_left].
  destruct (IH (step_state fp G s c)) as [H1 H2]. fold (run fp G r (step_state fp G s c)) in *.
  pose proof (epoch_step s c) as He. destruct (is_restore c) eqn:Er.
  - split; [lia|]. intros H. exfalso. lia.
  - split; [lia|]. intros H c' [Hc|Hc]; [subst c'; exact Er|]. apply H2; [lia|exact Hc].
Qed.

(* where a transaction of the next state comes from: it was there (same start, same epoch), or it
   has just begun *)
Lemma tx_prov_step s c id t : tx_get id (c_txs (step_state fp G s c)) = Some t ->
  (exists t', tx_get id (c_txs s) = Some t' /\ t_epoch t' = t_epoch t /\ t_start t' = t_start t) \/
  (tx_get id (c_txs s) = None /\ t_start t = c_visible s /\ t_closed t = false /\
   exists m, c = SBegin id m /\ t_epoch t = match m with BUnreg => None | _ => Some (c_epoch s) end).
Proof.
  unfold step_state. destruct c as [i m|i|i keys fail|max]; cbn [cs_step].
  - destruct (tx_get i (c_txs s)) eqn:Ei; cbn [fst c_txs]; [intros H; left; exists t; auto|].
    rewrite tx_get_set. destruct (N.eqb i id) eqn:E; [|intros H; left; exists t; auto].
    apply N.eqb_eq in E. subst i. intros H. inversion H. right. cbn [t_start t_closed t_epoch].
    split; [exact Ei|]. split; [reflexivity|]. split; [reflexivity|]. exists m. auto.
  - destruct (tx_get i (c_txs s)) as [u|] eqn:Ei; cbn [fst c_txs]; [|intros H; left; exists t; auto].
    rewrite tx_get_set. destruct (N.eqb i id) eqn:E; [|intros H; left; exists t; auto]. apply N.eqb_eq in E. subst i.
    intros H. inversion H. left. exists u. auto.
  - destruct (tx_get i (c_txs s)) as [u|] eqn:Ei; cbn [fst c_txs]; [|intros H; left; exists t; auto].
    destruct (t_closed u); cbn [fst]; [intros H; left; exists t; auto|].
    destruct keys as [|k0 kr]; cbn [fst c_txs].
    + rewrite tx_get_set. destruct (N.eqb i id) eqn:E; [|intros H; left; exists t; auto]. apply N.eqb_eq in E. subst i.
      intros H. inversion H. left. exists u. auto.
    + unfold commit_core. destruct (match t_epoch u with Some e => ORACLE_EPOCH_CMP e (c_epoch s) | None => false end); cbn [fst]; [intros H; left; exists t; auto|].
      destruct (check fp (c_orc s) (k0 :: kr) (t_start u)); cbn [fst]; try (intros H; left; exists t; auto; fail).
      destruct fail; cbn [fst c_txs]; [intros H; left; exists t; auto|].
      rewrite tx_get_set. destruct (N.eqb i id) eqn:E; [|intros H; left; exists t; auto]. apply N.eqb_eq in E. subst i.
      intros H. inversion H. left. exists u. auto.
  - cbn [fst c_txs]. intros H. left. exists t. auto.
Qed.
(* an id keeps its start and its epoch for ever (begin refuses an id that exists) *)
Lemma tx_stable_step s c id t : tx_get id (c_txs s) = Some t ->
  exists t', tx_get id (c_txs (step_state fp G s c)) = Some t' /\ t_start t' = t_start t /\ t_epoch t' = t_epoch t.
Proof.
  intros Hg. unfold step_state. destruct c as [i m|i|i keys fail|max]; cbn [cs_step].
  - destruct (tx_get i (c_txs s)) eqn:Ei; cbn [fst c_txs]; [exists t; auto|].
    rewrite tx_get_set. destruct (N.eqb i id) eqn:E; [apply N.eqb_eq in E; subst i; congruence|exists t; auto].
  - destruct (tx_get i (c_txs s)) as [u|] eqn:Ei; cbn [fst c_txs]; [|exists t; auto].
    rewrite tx_get_set. destruct (N.eqb i id) eqn:E; [|exists t; auto]. apply N.eqb_eq in E. subst i.
    eexists. split; [reflexivity|]. cbn [t_start t_epoch]. split; congruence.
  - destruct (tx_get i (c_txs s)) as [u|] eqn:Ei; cbn [fst c_txs]; [|exists t; auto].
    destruct (t_closed u); cbn [fst]; [exists t; auto|].
    destruct keys as [|k0 kr]; cbn [fst c_txs].
    + rewrite tx_get_set. destruct (N.eqb i id) eqn:E; [|exists t; auto]. apply N.eqb_eq in E. subst i.
      eexists. split; [reflexivity|]. cbn [t_start t_epoch]. split; congruence.
    + unfold commit_core. destruct (match t_epoch u with Some e => ORACLE_EPOCH_CMP e (c_epoch s) | None => false end); cbn [fst]; [exists t; auto|].
      destruct (check fp (c_orc s) (k0 :: kr) (t_start u)); cbn [fst]; try (exists t; auto; fail).
      destruct fail; cbn [fst c_txs]; [exists t; auto|].
      rewrite tx_get_set. destruct (N.eqb i id) eqn:E; [|exists t; auto]. apply N.eqb_eq in E. subst i.
      eexists. split; [reflexivity|]. cbn [t_start t_epoch]. split; congruence.
  - cbn [fst c_txs]. exists t. auto.
Qed.
Lemma tx_stable_run steps : forall s id t, tx_get id (c_txs s) = Some t ->
  exists t', tx_get id (c_txs (run fp G steps s)) = Some t' /\ t_start t' = t_start t /\ t_epoch t' = t_epoch t.
Proof.
  induction steps as [|c r IH]; intros s id t Hg; [exists t; auto|]. cbn [run fold_left].
  destruct (tx_stable_step s c id t Hg) as [t1 [H1 [H2 H2']]]. destruct (IH _ _ _ H1) as [t2 [H3 [H4 H4']]].
  exists t2. split; [exact H3|]. split; congruence.
Qed.

(* histories through the API: every transaction carries an epoch; the ones of the CURRENT epoch
   began at or below `visible` and hold the pruning mark; the mark never passes `visible` *)
Record einv (s : cstate) : Prop := {
  e_le : forall id t e, tx_get id (c_txs s) = Some t -> t_epoch t = Some e -> e <= c_epoch s;
  e_some : forall id t, tx_get id (c_txs s) = Some t -> t_epoch t <> None;
  e_start : forall id t, tx_get id (c_txs s) = Some t -> t_epoch t = Some (c_epoch s) -> t_start t <= c_visible s;
  e_reg : forall id t, tx_get id (c_txs s) = Some t -> t_epoch t = Some (c_epoch s) -> t_reg t = true ->
            kept_since (c_orc s) <= t_start t;
  e_kept : kept_since (c_orc s) <= c_visible s;
}.
Lemma einv_c0 : einv c0.
Proof. split; cbn; try (intros; discriminate); try lia. Qed.

(* the part of einv that does not mention the oracle, through a step that only edits c_txs *)
Lemma einv_txs s txs :
  einv s ->
  (forall id t, tx_get id txs = Some t ->
     (exists t', tx_get id (c_txs s) = Some t' /\ t_epoch t' = t_epoch t /\ t_start t' = t_start t /\ (t_reg t = true -> t_reg t' = true)) \/
     (t_start t = c_visible s /\ t_epoch t = Some (c_epoch s))) ->
  einv {| c_txs := txs; c_visible := c_visible s; c_next := c_next s; c_orc := c_orc s; c_done := c_done s; c_epoch := c_epoch s |}.
Proof.
  intros [Hle Hsome Hst Hreg Hk] Hp. split; cbn [c_txs c_visible c_orc c_epoch]; [| | | |exact Hk].
  - intros id t e Hg He. destruct (Hp id t Hg) as [[t' [Hg' [E1 _]]]|[_ E]].
    + apply (Hle id t' e Hg'). congruence.
    + rewrite E in He. inversion He. lia.
  - intros id t Hg. destruct (Hp id t Hg) as [[t' [Hg' [E1 _]]]|[_ E]].
    + rewrite <- E1. apply (Hsome id t' Hg').
    + rewrite E. discriminate.
  - intros id t Hg He. destruct (Hp id t Hg) as [[t' [Hg' [E1 [E2 _]]]]|[E _]].
    + rewrite <- E2. apply (Hst id t' Hg'). congruence.
    + lia.
  - intros id t Hg He Hr. destruct (Hp id t Hg) as [[t' [Hg' [E1 [E2 E3]]]]|[E _]].
    + rewrite <- E2. apply (Hreg id t' Hg'); [congruence|auto].
    + lia.
Qed.

Lemma einv_step s c : einv s -> (forall id, c <> SBegin id BUnreg) -> einv (step_state fp G s c).
Proof.
  intros Hi Hapi. unfold step_state. destruct c as [id m|id|id keys fail|max]; cbn [cs_step].
  - destruct (tx_get id (c_txs s)) eqn:Eg; cbn [fst]; [exact Hi|]. apply einv_txs; [exact Hi|].
    intros id' t'. rewrite tx_get_set. destruct (N.eqb id id') eqn:E.
    + intros H. inversion H. right. cbn [t_start t_epoch]. split; [reflexivity|].
      destruct m; try reflexivity. exfalso. apply (Hapi id). reflexivity.
    + intros H. left. exists t'. auto.
  - destruct (tx_get id (c_txs s)) as [t|] eqn:Eg; cbn [fst]; [|exact Hi]. apply einv_txs; [exact Hi|].
    intros id' t'. rewrite tx_get_set. destruct (N.eqb id id') eqn:E.
    + apply N.eqb_eq in E. subst id'. intros H. inversion H. left. exists t. cbn [t_epoch t_start t_reg].
      repeat split; auto. discriminate.
    + intros H. left. exists t'. auto.
  - destruct (tx_get id (c_txs s)) as [t|] eqn:Eg; cbn [fst]; [|exact Hi].
    destruct (t_closed t); cbn [fst]; [exact Hi|].
    destruct keys as [|k0 kr]; cbn [fst].
    + apply einv_txs; [exact Hi|].
      intros id' t'. rewrite tx_get_set. destruct (N.eqb id id') eqn:E.
      * apply N.eqb_eq in E. subst id'. intros H. inversion H. left. exists t. cbn [t_epoch t_start t_reg].
        repeat split; auto. discriminate.
      * intros H. left. exists t'. auto.
    + unfold commit_core. destruct (match t_epoch t with Some e => ORACLE_EPOCH_CMP e (c_epoch s) | None => false end) eqn:Egd; cbn [fst]; [exact Hi|].
      apply epoch_test_false in Egd.
      destruct (check fp (c_orc s) (k0 :: kr) (t_start t)) eqn:Ech; cbn [fst]; try exact Hi.
      destruct Hi as [Hle Hsome Hst Hreg Hk].
      assert (t_epoch t = Some (c_epoch s)) as Hcur.
      { unfold epoch_current in Egd. pose proof (Hsome id t Eg). destruct (t_epoch t); [congruence|congruence]. }
      pose proof (Hst id t Eg Hcur) as Hstart.
      set (keys := k0 :: kr) in *. set (old := N.min (oldest_active s) (t_start t)).
      set (o1 := publish fp G (c_orc s) keys (c_next s) (N.of_nat (length keys)) old).
      assert (kept_since o1 <= c_visible s) as Hk1 by (apply publish_kept_le; [exact Hk|unfold old; lia]).
      assert (forall id' t', tx_get id' (c_txs s) = Some t' -> t_epoch t' = Some (c_epoch s) -> t_reg t' = true ->
                kept_since o1 <= t_start t') as Hr1.
      { intros id' t' Hg' He' Hreg'. apply publish_kept_le; [apply (Hreg id'); assumption|].
        pose proof (oldest_active_le_reg s id' t' Hg' Hreg'). unfold old. lia. }
      destruct fail; cbn [fst].
      * split; cbn [c_txs c_orc c_visible c_epoch]; rewrite ?rollback_kept.
        -- exact Hle.
        -- exact Hsome.
        -- intros id' t' Hg' He'. specialize (Hst id' t' Hg' He'). lia.
        -- exact Hr1.
        -- fold o1. lia.
      * split; cbn [c_txs c_orc c_visible c_epoch].
        -- intros id' t' e. rewrite tx_get_set. destruct (N.eqb id id').
           ++ intros H. inversion H. cbn [t_epoch]. apply (Hle id t e Eg).
           ++ apply Hle.
        -- intros id' t'. rewrite tx_get_set. destruct (N.eqb id id').
           ++ intros H. inversion H. cbn [t_epoch]. apply (Hsome id t Eg).
           ++ apply Hsome.
        -- intros id' t'. rewrite tx_get_set. destruct (N.eqb id id').
           ++ intros H. inversion H. cbn [t_start t_epoch]. intros _. lia.
           ++ intros Hg' He'. specialize (Hst id' t' Hg' He'). lia.
        -- intros id' t'. rewrite tx_get_set. destruct (N.eqb id id').
           ++ intros H. inversion H. cbn [t_reg]. intros _ Hf. discriminate.
           ++ apply Hr1.
        -- fold o1. lia.
  - cbn [fst]. destruct Hi as [Hle Hsome Hst Hreg Hk]. split; cbn [c_txs c_orc c_visible c_epoch reset_for_restore kept_since].
    + intros id t e Hg He. specialize (Hle id t e Hg He). lia.
    + exact Hsome.
    + intros id t Hg He. specialize (Hle id t _ Hg He). lia.
    + intros id t Hg He. specialize (Hle id t _ Hg He). lia.
    + destruct (N.ltb 0 max) eqn:E; [lia|]. apply N.ltb_ge in E. lia.
Qed.
Lemma api_only_cons c r : api_only (c :: r) -> (forall id, c <> SBegin id BUnreg) /\ api_only r.
Proof.
  intros H. split.
  - intros id Hc. apply (H id). left. exact Hc.
  - intros id Hin. apply (H id). right. exact Hin.
Qed.
Lemma einv_run steps : forall s, einv s -> api_only steps -> einv (run fp G steps s).
Proof.
  induction steps as [|c r IH]; intros s Hi Ha; [exact Hi|]. cbn [run fold_left].
  destruct (api_only_cons c r Ha) as [Hc Hr]. apply IH; [apply einv_step; assumption|exact Hr].
Qed.

Theorem kept_le_visible : kept_le_visible_stmt fp G.
Proof. intros steps Ha s. apply (e_kept _ (einv_run steps c0 einv_c0 Ha)). Qed.

(* the transactions that began after s1, along a restore-free continuation, are of the current epoch *)
Lemma fresh_current post : forall s1 s, no_restore post ->
  c_epoch s = c_epoch s1 ->
  (forall id t, tx_get id (c_txs s1) = None -> tx_get id (c_txs s) = Some t -> epoch_current s t) ->
  forall id t, tx_get id (c_txs s1) = None -> tx_get id (c_txs (run fp G post s)) = Some t ->
    epoch_current (run fp G post s) t.
Proof.
  induction post as [|c r IH]; intros s1 s Hnr He Hcur; [exact Hcur|]. cbn [run fold_left].
  assert (is_restore c = false) as Hc by (apply Hnr; left; reflexivity).
  pose proof (epoch_step s c) as Hes. rewrite Hc in Hes.
  apply (IH s1 (step_state fp G s c)); [intros c' H; apply Hnr; right; exact H|congruence|].
  intros id t Hnew Hg. destruct (tx_prov_step s c id t Hg) as [[t' [Hg' [E1 _]]]|[_ [_ [_ [m [_ E]]]]]].
  - specialize (Hcur id t' Hnew Hg'). unfold epoch_current in *. rewrite <- E1, Hes. exact Hcur.
  - unfold epoch_current. rewrite E, Hes. destruct m; reflexivity || exact I.
Qed.

Lemma api_only_app a b : api_only (a ++ b) -> api_only a /\ api_only b.
Proof. intros H. split; intros id Hin; apply (H id); apply in_or_app; [left|right]; exact Hin. Qed.

Lemma fresh_after_restore_facts pre post id t :
  api_only (pre ++ post) -> no_restore post ->
  let s1 := run fp G pre c0 in
  let s := run fp G post s1 in
  tx_get id (c_txs s1) = None -> tx_get id (c_txs s) = Some t ->
  epoch_current s t /\ (t_reg t = true -> kept_since (c_orc s) <= t_start t).
Proof.
  intros Ha Hnr s1 s Hnew Hg.
  assert (epoch_current s t) as Hep.
  { assert (forall id' t', tx_get id' (c_txs s1) = None -> tx_get id' (c_txs s1) = Some t' -> epoch_current s1 t') as H0
      by (intros id' t' H1 H2; congruence).
    exact (fresh_current post s1 s1 Hnr eq_refl H0 id t Hnew Hg). }
  split; [exact Hep|]. intros Hreg.
  assert (einv s) as Hi.
  { unfold s, s1. rewrite <- run_app. apply (einv_run _ c0 einv_c0 Ha). }
  apply (e_reg _ Hi id t Hg); [|exact Hreg].
  unfold epoch_current in Hep. pose proof (e_some _ Hi id t Hg). destruct (t_epoch t); congruence.
Qed.

Theorem registered_after_restore_never_retry : registered_after_restore_never_retry_stmt fp G.
Proof.
  intros pre post id keys fail t Ha Hnr s1 s Hnew Hg Hreg. rewrite (commit_outcome _ _ _ _ _ Hg).
  destruct (fresh_after_restore_facts pre post id t Ha Hnr Hnew Hg) as [Hep Hk]. fold s1 in Hep, Hk. fold s in Hep, Hk.
  specialize (Hk Hreg). apply epoch_test_false in Hep.
  destruct (t_closed t); [discriminate|]. destruct keys as [|k0 kr]; [discriminate|]. rewrite Hep.
  destruct (check fp (c_orc s) (k0 :: kr) (t_start t)) eqn:E; try discriminate; [destruct fail; discriminate|].
  apply check_retry in E. lia.
Qed.

Theorem commit_accepted_after_restore : commit_accepted_after_restore_stmt fp G.
Proof.
  intros pre post id keys fail t Ha Hnr s1 s Hinj Hnew Hg Hreg Hnone.
  assert (s = run fp G (pre ++ post) c0) as Hs by (unfold s, s1; rewrite run_app; reflexivity).
  destruct (fresh_after_restore_facts pre post id t Ha Hnr Hnew Hg) as [Hep Hk]. fold s1 in Hep, Hk. fold s in Hep, Hk.
  pose proof (no_false_conflict (pre ++ post) id keys fail t) as H. cbv zeta in H. rewrite <- Hs in H.
  apply H; try assumption.
  - rewrite Hs in Hg. apply (regopen_run (pre ++ post) c0 regopen_c0 id t Hg Hreg).
  - apply Hk. exact Hreg.
Qed.

(* T after its begin: present, with the start and the epoch of that moment *)
Lemma begun_tx pre id md post :
  let s1 := run fp G pre c0 in
  tx_get id (c_txs s1) = None ->
  exists t, tx_get id (c_txs (run fp G (pre ++ SBegin id md :: post) c0)) = Some t /\
            t_start t = c_visible s1 /\
            t_epoch t = match md with BUnreg => None | _ => Some (c_epoch s1) end.
Proof.
  intros s1 Hnew. rewrite run_app. cbn [run fold_left]. fold s1. fold (run fp G post (step_state fp G s1 (SBegin id md))).
  assert (exists t0, tx_get id (c_txs (step_state fp G s1 (SBegin id md))) = Some t0 /\ t_start t0 = c_visible s1 /\
                     t_epoch t0 = match md with BUnreg => None | _ => Some (c_epoch s1) end) as [t0 [Hg0 [Hs0 He0]]].
  { unfold step_state. cbn [cs_step]. rewrite Hnew. cbn [fst c_txs]. eexists. split; [apply tx_get_set_same|]. split; reflexivity. }
  destruct (tx_stable_run post _ id t0 Hg0) as [t [Hg [Hs He]]]. exists t. split; [exact Hg|]. split; congruence.
Qed.

Theorem open_across_restore_refused : open_across_restore_refused_stmt fp G.
Proof.
  intros pre id md mid max post keys fail s1 s Hnew Hmd Hne.
  destruct (begun_tx pre id md (mid ++ SRestore max :: post) Hnew) as [t [Hg [_ He]]]. fold s1 in He. fold s in Hg.
  assert (t_epoch t = Some (c_epoch s1)) as He' by (destruct md; [exact He|exact He|congruence]).
  assert (c_epoch s1 < c_epoch s) as Hlt.
  { unfold s. rewrite run_app. cbn [run fold_left]. fold s1.
    fold (run fp G (mid ++ SRestore max :: post) (step_state fp G s1 (SBegin id md))). rewrite run_app. cbn [run fold_left].
    set (s2 := run fp G mid (step_state fp G s1 (SBegin id md))).
    fold (run fp G post (step_state fp G s2 (SRestore max))).
    pose proof (epoch_step s1 (SBegin id md)) as E1. cbn [is_restore] in E1.
    destruct (epoch_run mid (step_state fp G s1 (SBegin id md))) as [E2 _]. fold s2 in E2.
    pose proof (epoch_step s2 (SRestore max)) as E3. cbn [is_restore] in E3.
    destruct (epoch_run post (step_state fp G s2 (SRestore max))) as [E4 _]. lia. }
  destruct (t_closed t) eqn:Ecl.
  - right. cbn [cs_step]. rewrite Hg, Ecl. reflexivity.
  - left. apply (stale_epoch_refused s id keys fail t (c_epoch s1)); try assumption. lia.
Qed.

Lemma later_gen m ks : forall post s v, v <= c_visible s -> c_visible s < c_next s -> no_restore post ->
  In (m, ks) (c_done (run fp G post s)) -> In (m, ks) (c_done s) \/ v < m.
Proof.
  induction post as [|c r IH]; intros s v Hle Hvn Hnr Hin; [left; exact Hin|]. cbn [run fold_left] in Hin.
  assert (is_restore c = false) as Hc by (apply Hnr; left; reflexivity).
  pose proof (vis_mono_step s c Hc) as Hm.
  destruct (IH (step_state fp G s c) v ltac:(lia) (vinv_step s c Hvn)
               (fun c' H => Hnr c' (or_intror H)) Hin) as [H|H]; [|right; exact H].
  destruct (done_step_new _ _ _ _ H) as [H2|H2]; [left; exact H2|right; lia].
Qed.

Theorem no_lost_update_since_begin : no_lost_update_since_begin_stmt fp G.
Proof.
  intros pre id md post keys fail m ks k s1 s Hnew Hmd Ho Hin Hnot Hk.
  destruct (begun_tx pre id md post Hnew) as [t [Hg [Hst He]]]. fold s1 in Hst, He. fold s in Hg.
  assert (t_epoch t = Some (c_epoch s1)) as He' by (destruct md; [exact He|exact He|congruence]).
  set (s1' := step_state fp G s1 (SBegin id md)).
  assert (s = run fp G post s1') as Hs by (unfold s; rewrite run_app; reflexivity).
  assert (c_visible s1' = c_visible s1 /\ c_done s1' = c_done s1 /\ c_next s1' = c_next s1 /\ c_epoch s1' = c_epoch s1)
    as [Hv [Hd [Hn Hee]]].
  { unfold s1', step_state. cbn [cs_step]. rewrite Hnew. cbn [fst c_visible c_done c_next c_epoch]. auto. }
  (* an accepted commit is of the current epoch: no restore since T began *)
  assert (no_restore post) as Hnr.
  { pose proof Ho as Ho'. rewrite (commit_outcome _ _ _ _ _ Hg) in Ho'.
    destruct (t_closed t); [discriminate|]. destruct keys as [|k0 kr]; [destruct Hk|].
    destruct (match t_epoch t with Some e => ORACLE_EPOCH_CMP e (c_epoch s) | None => false end) eqn:Egd; [discriminate|].
    apply epoch_test_false in Egd. unfold epoch_current in Egd. rewrite He' in Egd.
    apply (proj2 (epoch_run post s1')). rewrite <- Hs. congruence. }
  assert (c_visible s1 < c_next s1) as Hvn.
  { apply vinv_run. cbn. rewrite first_seq. lia. }
  rewrite Hs in Hin.
  destruct (later_gen m ks post s1' (c_visible s1) ltac:(lia) ltac:(lia) Hnr Hin) as [H|H].
  - exfalso. apply Hnot. rewrite <- Hd. exact H.
  - rewrite <- Hs in Hin.
    apply (no_lost_update_from_inv s id keys fail t m ks k); try assumption.
    + apply (inv_run _ c0 inv_c0).
    + lia.
Qed.
End Machine.


(* ---------- concrete histories ---------- *)
(* a toy fingerprint, injective on the one-byte keys used below *)
Definition toy_fp (k : bytes) : N := match k with [] => 0 | x :: _ => x + 1 end.
Definition kA : bytes := [7].
Definition kB : bytes := [9].

(* The history that lost an update before the fix of F13 (rollback used to REMOVE the entry):
   T3 begins; T2 begins and commits kA (stamp 1) while T3 is open; T1 begins (start 1), publishes
   kA with stamp 2, its WAL append fails, rollback puts stamp 1 back; T3 (start 0) is refused.
   (An instance of no_lost_update; kept as a regression example, also replayed on the crate.) *)
Definition lu_steps : list cstep :=
  [SBegin 3 BRW; SBegin 2 BRW; SCommit 2 [kA] false; SBegin 1 BRW; SCommit 1 [kA] true].
Lemma lu_steps_refused :
  step_outcome toy_fp ORACLE_GC_INTERVAL (run toy_fp ORACLE_GC_INTERVAL lu_steps c0) (SCommit 3 [kA] false) = OConflict.
Proof. vm_compute. reflexivity. Qed.

(* Restore with an open transaction whose start is above the restored counter (finding C04-N1,
   repaired).  G+100 commits; T1 begins (start G+100); restore to 5 (visible := 5, kept_since := 5,
   counter of publishes := 0); G-1 commits by fresh transactions; then T1 commits.
   BEFORE the repair (run_old): it is the G-th publish since the reset, the only registered
   transaction is T1 itself, so oldest_active = min(T1.start, T1.start) = G+100 > kept_since: the
   GC body runs and sets kept_since := G+100 while visible = G+5.  From then on every transaction
   begins at visible < kept_since and is answered Retry; nothing can commit, so visible never
   catches up.
   WITH the repair (run): T1 began in epoch 0, the restore made it 1: T1's commit is answered
   Retry before the oracle is consulted; kept_since stays 5; the fresh transaction T2 is accepted. *)
Fixpoint many (n : nat) (id : N) : list cstep :=
  match n with
  | O => []
  | S m => [SBegin id BWO; SCommit id [[id]] false] ++ many m (id + 1)
  end.
Definition fr_steps : list cstep :=
  many (N.to_nat ORACLE_GC_INTERVAL + 100) 10 ++ [SBegin 1 BRW; SRestore 5] ++
  many (N.to_nat ORACLE_GC_INTERVAL - 1) 100000 ++ [SCommit 1 [kB] false; SBegin 2 BRW].
Definition fr_state_old : cstate := Eval vm_compute in run_old toy_fp ORACLE_GC_INTERVAL fr_steps c0.
Definition fr_state : cstate := Eval vm_compute in run toy_fp ORACLE_GC_INTERVAL fr_steps c0.
Definition fr_tx : tx := Eval vm_compute in
  match tx_get 2 (c_txs fr_state_old) with
  | Some t => t
  | None => {| t_start := 0; t_reg := false; t_snap := false; t_closed := true; t_epoch := None |}
  end.
Lemma fr_state_old_eq : run_old toy_fp ORACLE_GC_INTERVAL fr_steps c0 = fr_state_old.
Proof. vm_compute. reflexivity. Qed.
Lemma fr_state_eq : run toy_fp ORACLE_GC_INTERVAL fr_steps c0 = fr_state.
Proof. vm_compute. reflexivity. Qed.

Theorem fresh_retry_after_restore_old_holds : fresh_retry_after_restore_old toy_fp ORACLE_GC_INTERVAL.
Proof.
  exists fr_steps, 2, [kA], fr_tx. cbv zeta. rewrite fr_state_old_eq, fr_state_eq.
  split; [vm_compute; reflexivity|]. split; [reflexivity|]. split; [reflexivity|].
  split; [vm_compute; reflexivity|]. split; [vm_compute; reflexivity|]. split; [vm_compute; reflexivity|].
  split; [vm_compute; reflexivity|]. vm_compute. discriminate.
Qed.

(* the same history with an UNREGISTERED committer (the epoch-less entry, begin_epoch = None) next
   to the registered stale transaction: nothing refuses it, oldest_active is the stale start
   G+100, the clamp min(G+100, its own start G+100) does not help: kept_since > visible also on
   the repaired machine *)
Definition un_steps : list cstep :=
  many (N.to_nat ORACLE_GC_INTERVAL + 100) 10 ++ [SBegin 1 BRW; SBegin 3 BUnreg; SRestore 5] ++
  many (N.to_nat ORACLE_GC_INTERVAL - 1) 100000 ++ [SCommit 3 [kB] false].
Theorem epochless_commit_unprotected_holds : epochless_commit_unprotected toy_fp ORACLE_GC_INTERVAL.
Proof. exists un_steps. vm_compute. reflexivity. Qed.

(* (a) of C04-N1, first witness: three commits; T1 begins (start 3); restore to 1; T2 begins and
   commits kA (stamp 2); T1 commits kA.  Old machine: T1's check passes (kept_since 1 <= 3, stamp 2
   is not above its start 3): both commit, T2's update is lost.  Repaired machine: Retry. *)
Definition la_pre : list cstep := many 3 10.
Definition la_post : list cstep := [SRestore 1; SBegin 2 BRW; SCommit 2 [kA] false].
Theorem lost_update_across_restore_old_holds : lost_update_across_restore_old toy_fp ORACLE_GC_INTERVAL la_pre la_post 1.
Proof.
  exists [kA], 2, [kA], kA. cbv zeta.
  split; [vm_compute; reflexivity|]. split; [vm_compute; reflexivity|]. split; [vm_compute; tauto|].
  split; [vm_compute; intros [H|[H|[H|[]]]]; discriminate|]. split; [left; reflexivity|]. split; [left; reflexivity|].
  vm_compute. reflexivity.
Qed.

(* second witness, the catch-up history: four commits; T1 begins (start 4); restore to 2; T2 begins
   and commits kA (stamp 3); T3 begins and commits kB (stamp 4): the new timeline has reached T1's
   start; T1 commits kA.  Old machine: accepted (stamp 3 is not above 4) — and a test
   `start > visible` at the head of the critical section would accept it as well (4 > 4 is
   false).  Repaired machine: T1 is of epoch 0, the store is in epoch 1: Retry. *)
Definition cu_pre : list cstep := many 4 10.
Definition cu_post : list cstep :=
  [SRestore 2; SBegin 2 BRW; SCommit 2 [kA] false; SBegin 3 BRW; SCommit 3 [kB] false].
Theorem lost_update_after_catchup_old_holds : lost_update_across_restore_old toy_fp ORACLE_GC_INTERVAL cu_pre cu_post 1.
Proof.
  exists [kA], 3, [kA], kA. cbv zeta.
  split; [vm_compute; reflexivity|]. split; [vm_compute; reflexivity|]. split; [vm_compute; tauto|].
  split; [vm_compute; intros [H|[H|[H|[H|[]]]]]; discriminate|]. split; [left; reflexivity|]. split; [left; reflexivity|].
  vm_compute. reflexivity.
Qed.
Example cu_state_catches_up :
  let s := run toy_fp ORACLE_GC_INTERVAL (cu_pre ++ SBegin 1 BRW :: cu_post) c0 in
  c_visible s = 4 /\ (exists t, tx_get 1 (c_txs s) = Some t /\ t_start t = 4 /\ t_epoch t = Some 0) /\ c_epoch s = 1.
Proof. vm_compute. split; [reflexivity|]. split; [eexists; split; [reflexivity|split; reflexivity]|reflexivity]. Qed.

(* The undo kept in the map is ONE level deep.  It is sufficient for the commit pipeline because a
   second publisher of a key can only publish after its check passed, i.e. with start >= the first
   publisher's stamp, i.e. after the first batch became visible, which happens after its rollback
   (commit.rs: rollback; complete(Err); mark_applied; the queue is FIFO).  For ARBITRARY call
   sequences it is not: k committed at 5; an in-flight publisher stamps 8, another one 10; the
   second fails (8 is put back, remembering nothing), then the first fails (8 is removed): the
   successful stamp 5 is forgotten and a transaction with start 0 passes the check. *)
Example one_level_undo_needs_pipeline_discipline :
  let o1 := publish toy_fp ORACLE_GC_INTERVAL o_new [kA] 5 1 0 in
  let o2 := publish toy_fp ORACLE_GC_INTERVAL o1 [kA] 8 1 0 in
  let o3 := publish toy_fp ORACLE_GC_INTERVAL o2 [kA] 10 1 0 in
  let o4 := rollback toy_fp o3 [kA] 10 in
  let o5 := rollback toy_fp o4 [kA] 8 in
  check toy_fp o1 [kA] 0 = VConflict /\ check toy_fp o5 [kA] 0 = VOk.
Proof. vm_compute. split; reflexivity. Qed.
