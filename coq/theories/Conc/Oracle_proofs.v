(* Conc/Oracle_proofs.v — proofs of the statements of Conc/OracleSpec.v. *)
From Coq Require Import List NArith Arith Bool Lia.
From SKV Require Import Params Base.Lex Conc.Oracle Conc.CommitSeq Conc.OracleSpec.
Import ListNotations.
Local Open Scope N_scope.
Arguments N.add : simpl never.
Arguments N.sub : simpl never.
Arguments N.eqb : simpl never.
Arguments N.ltb : simpl never.
Arguments N.leb : simpl never.
Arguments N.min : simpl never.
Arguments N.max : simpl never.

(* ---------- side conditions on the generated parameters ---------- *)
Lemma params_ok : oracle_params_ok.
Proof. repeat split; intros; reflexivity. Qed.

Lemma cmp_retry a b : ORACLE_RETRY_CMP a b = N.ltb a b.
Proof. apply params_ok. Qed.
Lemma cmp_conflict a b : ORACLE_CONFLICT_CMP a b = N.ltb b a.
Proof. apply params_ok. Qed.
Lemma cmp_gc_count a b : ORACLE_GC_COUNT_CMP a b = N.leb b a.
Proof. apply params_ok. Qed.
Lemma cmp_gc_mark a b : ORACLE_GC_MARK_CMP a b = N.ltb b a.
Proof. apply params_ok. Qed.
Lemma cmp_retain a b : ORACLE_RETAIN_CMP a b = N.leb b a.
Proof. apply params_ok. Qed.
Lemma cmp_rollback a b : ORACLE_ROLLBACK_CMP a b = N.eqb a b.
Proof. apply params_ok. Qed.
Lemma first_seq : COMMIT_FIRST_SEQ = 1.
Proof. apply params_ok. Qed.

(* ---------- the association list ---------- *)
Definition fm_wf (m : fmap) : Prop := NoDup (map fst m).

Lemma fm_get_remove_same f m : fm_get f (fm_remove f m) = None.
Proof.
  induction m as [|[g v] r IH]; [reflexivity|]. cbn [fm_remove].
  destruct (N.eqb f g) eqn:E; [exact IH|]. cbn [fm_get]. rewrite E. exact IH.
Qed.
Lemma fm_get_remove_other f g m : f <> g -> fm_get g (fm_remove f m) = fm_get g m.
Proof.
  intros Hne. induction m as [|[h v] r IH]; [reflexivity|]. cbn [fm_remove fm_get].
  destruct (N.eqb f h) eqn:E.
  - apply N.eqb_eq in E. subst h. destruct (N.eqb g f) eqn:E2.
    + apply N.eqb_eq in E2. congruence.
    + exact IH.
  - cbn [fm_get]. destruct (N.eqb g h); [reflexivity|exact IH].
Qed.
Lemma fm_get_insert_same f v m : fm_get f (fm_insert f v m) = Some v.
Proof. unfold fm_insert. cbn [fm_get]. rewrite N.eqb_refl. reflexivity. Qed.
Lemma fm_get_insert_other f g v m : f <> g -> fm_get g (fm_insert f v m) = fm_get g m.
Proof.
  intros Hne. unfold fm_insert. cbn [fm_get]. destruct (N.eqb g f) eqn:E.
  - apply N.eqb_eq in E. congruence.
  - apply fm_get_remove_other. exact Hne.
Qed.
Lemma fm_get_insert f g v m : fm_get g (fm_insert f v m) = if N.eqb f g then Some v else fm_get g m.
Proof.
  destruct (N.eqb f g) eqn:E.
  - apply N.eqb_eq in E. subst g. apply fm_get_insert_same.
  - apply fm_get_insert_other. intros H. subst g. rewrite N.eqb_refl in E. discriminate.
Qed.
Lemma fm_get_remove f g m : fm_get g (fm_remove f m) = if N.eqb f g then None else fm_get g m.
Proof.
  destruct (N.eqb f g) eqn:E.
  - apply N.eqb_eq in E. subst g. apply fm_get_remove_same.
  - apply fm_get_remove_other. intros H. subst g. rewrite N.eqb_refl in E. discriminate.
Qed.

Lemma fm_get_none f m : ~ In f (map fst m) -> fm_get f m = None.
Proof.
  induction m as [|[g v] r IH]; [reflexivity|]. cbn [map fst fm_get]. intros H.
  destruct (N.eqb f g) eqn:E.
  - apply N.eqb_eq in E. subst g. exfalso. apply H. left. reflexivity.
  - apply IH. intros Hin. apply H. right. exact Hin.
Qed.
Lemma fm_remove_keys f m g : In g (map fst (fm_remove f m)) -> In g (map fst m) /\ g <> f.
Proof.
  induction m as [|[h v] r IH]; [intros []|]. cbn [fm_remove].
  destruct (N.eqb f h) eqn:E.
  - intros H. destruct (IH H) as [H1 H2]. split; [right; exact H1|exact H2].
  - cbn [map fst In]. intros [H|H].
    + subst h. split; [left; reflexivity|]. intros H2. subst g. rewrite N.eqb_refl in E. discriminate.
    + destruct (IH H) as [H1 H2]. split; [right; exact H1|exact H2].
Qed.
Lemma fm_wf_remove f m : fm_wf m -> fm_wf (fm_remove f m).
Proof.
  unfold fm_wf. induction m as [|[h v] r IH]; [intros; constructor|]. cbn [fm_remove map fst].
  intros H. inversion H as [|x l Hn Hd]. subst. destruct (N.eqb f h).
  - apply IH. exact Hd.
  - cbn [map fst]. constructor; [|apply IH; exact Hd]. intros Hin. apply fm_remove_keys in Hin. apply Hn. apply Hin.
Qed.
Lemma fm_wf_insert f v m : fm_wf m -> fm_wf (fm_insert f v m).
Proof.
  intros H. unfold fm_wf, fm_insert. cbn [map fst]. constructor.
  - intros Hin. apply fm_remove_keys in Hin. destruct Hin as [_ Hne]. congruence.
  - apply fm_wf_remove. exact H.
Qed.
Lemma fm_retain_keys p m g : In g (map fst (fm_retain p m)) -> In g (map fst m).
Proof.
  unfold fm_retain. induction m as [|[h v] r IH]; [intros []|]. cbn [filter snd].
  destruct (p v); cbn [map fst In]; intros H.
  - destruct H as [H|H]; [left; exact H|right; apply IH; exact H].
  - right. apply IH. exact H.
Qed.
Lemma fm_wf_retain p m : fm_wf m -> fm_wf (fm_retain p m).
Proof.
  unfold fm_wf. induction m as [|[h v] r IH]; [intros; constructor|]. cbn [map fst]. intros H.
  inversion H as [|x l Hn Hd]. subst. unfold fm_retain. cbn [filter snd]. destruct (p v).
  - cbn [map fst]. constructor; [|apply IH; exact Hd]. intros Hin. apply Hn. apply (fm_retain_keys p). exact Hin.
  - apply IH. exact Hd.
Qed.
Lemma fm_get_retain p f m : fm_wf m ->
  fm_get f (fm_retain p m) = match fm_get f m with Some v => if p v then Some v else None | None => None end.
Proof.
  unfold fm_wf. induction m as [|[g v] r IH]; [reflexivity|]. cbn [map fst]. intros H.
  inversion H as [|x l Hn Hd]. subst. unfold fm_retain. cbn [filter snd fm_get].
  destruct (N.eqb f g) eqn:E.
  - apply N.eqb_eq in E. subst g. destruct (p v).
    + cbn [fm_get]. rewrite N.eqb_refl. reflexivity.
    + apply fm_get_none. intros Hin. apply Hn. apply (fm_retain_keys p). exact Hin.
  - destruct (p v).
    + cbn [fm_get]. rewrite E. apply IH. exact Hd.
    + apply IH. exact Hd.
Qed.

(* ---------- folds of publish / rollback / rollback_restore ---------- *)
Section Folds.
Variable fp : bytes -> N.

Definition ins_step (stamp : N) := fun (m : fmap) (k : bytes) => fm_insert (fp k) stamp m.
Definition has_fp (f : N) (keys : list bytes) : bool := existsb (fun k => N.eqb (fp k) f) keys.

Lemma has_fp_in f keys : has_fp f keys = true <-> exists k, In k keys /\ fp k = f.
Proof.
  unfold has_fp. rewrite existsb_exists. split; intros [k [H1 H2]]; exists k; split; try exact H1.
  - apply N.eqb_eq. exact H2.
  - apply N.eqb_eq. exact H2.
Qed.

Lemma get_inserts stamp keys : forall m f,
  fm_get f (fold_left (ins_step stamp) keys m) = if has_fp f keys then Some stamp else fm_get f m.
Proof.
  induction keys as [|k r IH]; intros m f; [reflexivity|]. cbn [fold_left has_fp existsb].
  rewrite IH. fold (has_fp f r). destruct (has_fp f r); [rewrite orb_true_r; reflexivity|].
  rewrite orb_false_r. unfold ins_step. apply fm_get_insert.
Qed.
Lemma wf_inserts stamp keys : forall m, fm_wf m -> fm_wf (fold_left (ins_step stamp) keys m).
Proof.
  induction keys as [|k r IH]; intros m H; [exact H|]. cbn [fold_left]. apply IH. apply fm_wf_insert. exact H.
Qed.

Definition rb_step (stamp : N) := fun (m : fmap) (k : bytes) =>
  match fm_get (fp k) m with
  | Some v => if ORACLE_ROLLBACK_CMP v stamp then fm_remove (fp k) m else m
  | None => m
  end.
Definition rb_val (stamp : N) (o : option N) : option N :=
  match o with Some v => if N.eqb v stamp then None else Some v | None => None end.
Lemma rb_val_idem stamp o : rb_val stamp (rb_val stamp o) = rb_val stamp o.
Proof. destruct o as [v|]; [|reflexivity]. cbn. destruct (N.eqb v stamp) eqn:E; [reflexivity|]. cbn. rewrite E. reflexivity. Qed.
Lemma get_rb_step stamp k m f :
  fm_get f (rb_step stamp m k) = if N.eqb (fp k) f then rb_val stamp (fm_get f m) else fm_get f m.
Proof.
  unfold rb_step. destruct (N.eqb (fp k) f) eqn:E.
  - apply N.eqb_eq in E. subst f. destruct (fm_get (fp k) m) as [v|] eqn:Eg; cbn [rb_val].
    + rewrite cmp_rollback. destruct (N.eqb v stamp); [apply fm_get_remove_same|exact Eg].
    + exact Eg.
  - destruct (fm_get (fp k) m) as [v|]; [|reflexivity]. rewrite cmp_rollback.
    destruct (N.eqb v stamp); [|reflexivity]. rewrite fm_get_remove. rewrite E. reflexivity.
Qed.
Lemma get_rollbacks stamp keys : forall m f,
  fm_get f (fold_left (rb_step stamp) keys m) = if has_fp f keys then rb_val stamp (fm_get f m) else fm_get f m.
Proof.
  induction keys as [|k r IH]; intros m f; [reflexivity|]. cbn [fold_left has_fp existsb].
  rewrite IH. fold (has_fp f r). rewrite get_rb_step.
  destruct (N.eqb (fp k) f); cbn [orb].
  - destruct (has_fp f r); [apply rb_val_idem|reflexivity].
  - reflexivity.
Qed.
Lemma wf_rollbacks stamp keys : forall m, fm_wf m -> fm_wf (fold_left (rb_step stamp) keys m).
Proof.
  induction keys as [|k r IH]; intros m H; [exact H|]. cbn [fold_left]. apply IH. unfold rb_step.
  destruct (fm_get (fp k) m) as [v|]; [|exact H]. destruct (ORACLE_ROLLBACK_CMP v stamp); [apply fm_wf_remove|]; exact H.
Qed.

(* rollback_restore: every record of fingerprint f carries the same previous value P *)
Definition rs_val (stamp : N) (P o : option N) : option N :=
  match o with Some v => if N.eqb v stamp then P else Some v | None => None end.
Lemma get_restore1 stamp m e f :
  fm_get f (restore1 stamp m e) = if N.eqb (fst e) f then rs_val stamp (snd e) (fm_get f m) else fm_get f m.
Proof.
  unfold restore1. destruct e as [g p]. cbn [fst snd]. destruct (N.eqb g f) eqn:E.
  - apply N.eqb_eq in E. subst g. destruct (fm_get f m) as [v|] eqn:Eg; cbn [rs_val]; [|exact Eg].
    destruct (N.eqb v stamp); [|exact Eg]. destruct p as [p|]; [apply fm_get_insert_same|apply fm_get_remove_same].
  - destruct (fm_get g m) as [v|]; [|reflexivity]. destruct (N.eqb v stamp); [|reflexivity].
    destruct p as [p|]; [rewrite fm_get_insert|rewrite fm_get_remove]; rewrite E; reflexivity.
Qed.
Lemma rs_val_idem stamp P o : rs_val stamp P (rs_val stamp P o) = rs_val stamp P o.
Proof.
  destruct o as [v|]; [|reflexivity]. cbn. destruct (N.eqb v stamp) eqn:E.
  - destruct P as [p|]; [|reflexivity]. cbn. destruct (N.eqb p stamp); reflexivity.
  - cbn. rewrite E. reflexivity.
Qed.
Lemma get_restores stamp P f : forall u m,
  (forall p, In (f, p) u -> p = P) ->
  fm_get f (fold_left (restore1 stamp) u m) =
    if existsb (fun e => N.eqb (fst e) f) u then rs_val stamp P (fm_get f m) else fm_get f m.
Proof.
  induction u as [|e r IH]; intros m HP; [reflexivity|]. cbn [fold_left existsb].
  rewrite IH by (intros p Hin; apply HP; right; exact Hin). rewrite get_restore1.
  destruct (N.eqb (fst e) f) eqn:E; cbn [orb].
  - assert (snd e = P) as ->.
    { apply HP. left. destruct e as [g p]. cbn [fst snd] in *. apply N.eqb_eq in E. subst g. reflexivity. }
    destruct (existsb _ r); [apply rs_val_idem|reflexivity].
  - reflexivity.
Qed.
Lemma wf_restores stamp : forall u m, fm_wf m -> fm_wf (fold_left (restore1 stamp) u m).
Proof.
  induction u as [|e r IH]; intros m H; [exact H|]. cbn [fold_left]. apply IH. unfold restore1.
  destruct (fm_get (fst e) m) as [v|]; [|exact H]. destruct (N.eqb v stamp); [|exact H].
  destruct (snd e); [apply fm_wf_insert|apply fm_wf_remove]; exact H.
Qed.
Lemma undo_has_fp s keys f :
  existsb (fun e : N * option N => N.eqb (fst e) f) (publish_undo fp s keys) = has_fp f keys.
Proof.
  unfold publish_undo, has_fp. induction keys as [|k r IH]; [reflexivity|]. cbn [map existsb fst]. rewrite IH. reflexivity.
Qed.
Lemma undo_prev s keys f p : In (f, p) (publish_undo fp s keys) -> p = fm_get f (recent s).
Proof.
  unfold publish_undo. rewrite in_map_iff. intros [k [H _]]. inversion H. reflexivity.
Qed.
End Folds.

(* ---------- the oracle operations ---------- *)
Section OracleOps.
Variable fp : bytes -> N.
Variable G : N.

Lemma check_retry : retry_only_when_pruned_stmt fp.
Proof.
  intros s keys start. unfold check. rewrite cmp_retry. destruct (N.ltb start (kept_since s)) eqn:E.
  - split; [intros _; apply N.ltb_lt; exact E|reflexivity].
  - split.
    + destruct (existsb _ keys); discriminate.
    + intros H. apply N.ltb_lt in H. congruence.
Qed.

Definition key_conflicts (s : ostate) (start : N) (k : bytes) : bool :=
  match fm_get (fp k) (recent s) with Some committed => ORACLE_CONFLICT_CMP committed start | None => false end.

Lemma check_conflict_iff : check_conflict_iff_stmt fp.
Proof.
  intros s keys start Hk. unfold check. rewrite cmp_retry.
  assert (N.ltb start (kept_since s) = false) as -> by (apply N.ltb_ge; exact Hk).
  destruct (existsb _ keys) eqn:E.
  - split; [|reflexivity]. intros _. apply existsb_exists in E. destruct E as [k [Hin Hc]].
    destruct (fm_get (fp k) (recent s)) as [v|] eqn:Eg; [|discriminate].
    rewrite cmp_conflict in Hc. apply N.ltb_lt in Hc. exists k, v. auto.
  - split; [discriminate|]. intros [k [v [Hin [Hg Hlt]]]]. exfalso.
    assert (existsb (fun k => match fm_get (fp k) (recent s) with
                              | Some committed => ORACLE_CONFLICT_CMP committed start | None => false end) keys = true) as H.
    { apply existsb_exists. exists k. split; [exact Hin|]. rewrite Hg. rewrite cmp_conflict. apply N.ltb_lt. exact Hlt. }
    congruence.
Qed.

Lemma check_ok_inv s keys start : check fp s keys start = VOk ->
  kept_since s <= start /\ forall k v, In k keys -> fm_get (fp k) (recent s) = Some v -> v <= start.
Proof.
  intros H. assert (kept_since s <= start) as Hk.
  { destruct (N.le_gt_cases (kept_since s) start) as [L|L]; [exact L|].
    apply (check_retry s keys start) in L. congruence. }
  split; [exact Hk|]. intros k v Hin Hg. destruct (N.le_gt_cases v start) as [L|L]; [exact L|]. exfalso.
  assert (check fp s keys start = VConflict) as Hc.
  { apply check_conflict_iff; [exact Hk|]. exists k, v. auto. }
  congruence.
Qed.
Lemma check_ok_intro s keys start :
  kept_since s <= start -> (forall k v, In k keys -> fm_get (fp k) (recent s) = Some v -> v <= start) ->
  check fp s keys start = VOk.
Proof.
  intros Hk Hall. destruct (check fp s keys start) eqn:E; [reflexivity| |].
  - exfalso. apply check_conflict_iff in E; [|exact Hk]. destruct E as [k [v [Hin [Hg Hlt]]]].
    specialize (Hall k v Hin Hg). lia.
  - exfalso. apply check_retry in E. lia.
Qed.

Definition gc_fires (s : ostate) (oldest : N) : bool :=
  ORACLE_GC_COUNT_CMP (sat_inc (commits_since_gc s)) G && ORACLE_GC_MARK_CMP oldest (kept_since s).

Lemma publish_kept s keys seq count oldest :
  kept_since (publish fp G s keys seq count oldest) = (if gc_fires s oldest then oldest else kept_since s).
Proof. unfold publish, gc_fires. destruct (_ && _); reflexivity. Qed.
Lemma gc_fires_mark s oldest : gc_fires s oldest = true -> kept_since s < oldest.
Proof. unfold gc_fires. rewrite cmp_gc_mark. intros H. apply andb_true_iff in H. apply N.ltb_lt. apply H. Qed.
Lemma publish_kept_ge s keys seq count oldest : kept_since s <= kept_since (publish fp G s keys seq count oldest).
Proof.
  rewrite publish_kept. destruct (gc_fires s oldest) eqn:E; [|lia]. apply gc_fires_mark in E. lia.
Qed.
Lemma publish_kept_le s keys seq count oldest b :
  kept_since s <= b -> oldest <= b -> kept_since (publish fp G s keys seq count oldest) <= b.
Proof. intros H1 H2. rewrite publish_kept. destruct (gc_fires s oldest); assumption. Qed.

Definition gc_val (oldest : N) (o : option N) : option N :=
  match o with Some v => if N.leb oldest v then Some v else None | None => None end.
Lemma publish_get s keys seq count oldest f : fm_wf (recent s) ->
  fm_get f (recent (publish fp G s keys seq count oldest)) =
    let base := if has_fp fp f keys then Some (stamp_of seq count) else fm_get f (recent s) in
    if gc_fires s oldest then gc_val oldest base else base.
Proof.
  intros Hwf. unfold publish. fold (ins_step fp (stamp_of seq count)). fold (gc_fires s oldest).
  destruct (gc_fires s oldest); cbn [recent].
  - rewrite fm_get_retain by (apply wf_inserts; exact Hwf). rewrite get_inserts. cbv zeta.
    destruct (if has_fp fp f keys then _ else _) as [v|]; [|reflexivity]. cbn [gc_val]. rewrite cmp_retain. reflexivity.
  - apply get_inserts.
Qed.
Lemma publish_wf s keys seq count oldest : fm_wf (recent s) -> fm_wf (recent (publish fp G s keys seq count oldest)).
Proof.
  intros Hwf. unfold publish. fold (ins_step fp (stamp_of seq count)). destruct (_ && _); cbn [recent].
  - apply fm_wf_retain. apply wf_inserts. exact Hwf.
  - apply wf_inserts. exact Hwf.
Qed.

(* ---------- soundness of the map w.r.t. a list of successful commits ---------- *)
Definition osound (o : ostate) (done : list (N * list bytes)) : Prop :=
  forall m ks k, In (m, ks) done -> kept_since o < m -> In k ks ->
    exists v, fm_get (fp k) (recent o) = Some v /\ m <= v.
Definition ojust (o : ostate) (done : list (N * list bytes)) : Prop :=
  forall f v, fm_get f (recent o) = Some v -> exists ks k, In (v, ks) done /\ In k ks /\ fp k = f.

Lemma has_fp_self k keys : In k keys -> has_fp fp (fp k) keys = true.
Proof. intros H. apply has_fp_in. exists k. auto. Qed.

Lemma osound_publish o done keys seq count oldest :
  fm_wf (recent o) -> osound o done -> (forall m ks, In (m, ks) done -> m <= stamp_of seq count) ->
  osound (publish fp G o keys seq count oldest) ((stamp_of seq count, keys) :: done).
Proof.
  intros Hwf Hs Hle m ks k Hin Hm Hk. rewrite publish_get by exact Hwf. cbv zeta.
  rewrite publish_kept in Hm.
  assert (exists w, (if has_fp fp (fp k) keys then Some (stamp_of seq count) else fm_get (fp k) (recent o)) = Some w /\ m <= w) as [w [Hw Hmw]].
  { destruct Hin as [Hin|Hin].
    - inversion Hin. subst m ks. rewrite has_fp_self by exact Hk. exists (stamp_of seq count). split; [reflexivity|lia].
    - assert (kept_since o < m) as Hm0.
      { destruct (gc_fires o oldest) eqn:E; [apply gc_fires_mark in E; lia|exact Hm]. }
      destruct (Hs m ks k Hin Hm0 Hk) as [v0 [Hg Hv]]. destruct (has_fp fp (fp k) keys).
      + exists (stamp_of seq count). split; [reflexivity|]. apply (Hle m ks). exact Hin.
      + exists v0. auto. }
  rewrite Hw. destruct (gc_fires o oldest); [|exists w; auto]. cbn [gc_val].
  assert (N.leb oldest w = true) as -> by (apply N.leb_le; lia). exists w. auto.
Qed.

Lemma osound_publish_restore o done keys seq count oldest :
  fm_wf (recent o) -> osound o done -> (forall m ks, In (m, ks) done -> m <= stamp_of seq count) ->
  osound (rollback_restore (publish fp G o keys seq count oldest) (publish_undo fp o keys) (stamp_of seq count)) done.
Proof.
  intros Hwf Hs Hle m ks k Hin Hm Hk. unfold rollback_restore in *. cbn [recent kept_since] in *.
  rewrite publish_kept in Hm.
  assert (kept_since o < m) as Hm0.
  { destruct (gc_fires o oldest) eqn:E; [apply gc_fires_mark in E; lia|exact Hm]. }
  destruct (Hs m ks k Hin Hm0 Hk) as [v0 [Hg Hv]].
  rewrite (get_restores (stamp_of seq count) (fm_get (fp k) (recent o)))
    by (intros p Hp; apply (undo_prev fp o keys); exact Hp).
  rewrite undo_has_fp. rewrite publish_get by exact Hwf. cbv zeta.
  destruct (has_fp fp (fp k) keys) eqn:Eh.
  - destruct (gc_fires o oldest) eqn:Eg.
    + cbn [gc_val]. destruct (N.leb oldest (stamp_of seq count)) eqn:El.
      * cbn [rs_val]. rewrite N.eqb_refl. exists v0. auto.
      * exfalso. apply N.leb_gt in El. specialize (Hle m ks Hin). lia.
    + cbn [rs_val]. rewrite N.eqb_refl. exists v0. auto.
  - rewrite Hg. destruct (gc_fires o oldest); [|exists v0; auto]. cbn [gc_val].
    assert (N.leb oldest v0 = true) as -> by (apply N.leb_le; lia). exists v0. auto.
Qed.

Lemma gc_val_some oldest o v : gc_val oldest o = Some v -> o = Some v.
Proof. destruct o as [w|]; [|discriminate]. cbn. destruct (N.leb oldest w); [auto|discriminate]. Qed.

Lemma publish_get_cases o keys seq count oldest f v : fm_wf (recent o) ->
  fm_get f (recent (publish fp G o keys seq count oldest)) = Some v ->
  (has_fp fp f keys = true /\ v = stamp_of seq count) \/ (has_fp fp f keys = false /\ fm_get f (recent o) = Some v).
Proof.
  intros Hwf H. rewrite publish_get in H by exact Hwf. cbv zeta in H.
  assert ((if has_fp fp f keys then Some (stamp_of seq count) else fm_get f (recent o)) = Some v) as H2.
  { destruct (gc_fires o oldest); [apply gc_val_some in H|]; exact H. }
  destruct (has_fp fp f keys); [left|right]; split; try reflexivity; congruence.
Qed.

Lemma ojust_publish o done keys seq count oldest :
  fm_wf (recent o) -> ojust o done ->
  ojust (publish fp G o keys seq count oldest) ((stamp_of seq count, keys) :: done).
Proof.
  intros Hwf Hj f v Hg. destruct (publish_get_cases _ _ _ _ _ _ _ Hwf Hg) as [[Hh Hv]|[Hh Ho]].
  - subst v. apply has_fp_in in Hh. destruct Hh as [k [Hin Hf]]. exists keys, k. split; [left; reflexivity|auto].
  - destruct (Hj f v Ho) as [ks [k [H1 H2]]]. exists ks, k. split; [right; exact H1|exact H2].
Qed.
Lemma ojust_publish_rollback o done keys seq count oldest :
  fm_wf (recent o) -> ojust o done ->
  ojust (rollback fp (publish fp G o keys seq count oldest) keys (stamp_of seq count)) done.
Proof.
  intros Hwf Hj f v Hg. unfold rollback in Hg. cbn [recent] in Hg.
  change (fold_left _ keys ?m) with (fold_left (rb_step fp (stamp_of seq count)) keys m) in Hg.
  rewrite get_rollbacks in Hg. destruct (has_fp fp f keys) eqn:Eh.
  - exfalso. destruct (fm_get f (recent (publish fp G o keys seq count oldest))) as [w|] eqn:Ew; [|discriminate].
    destruct (publish_get_cases _ _ _ _ _ _ _ Hwf Ew) as [[_ Hv]|[Hh _]]; [|congruence].
    subst w. cbn [rb_val] in Hg. rewrite N.eqb_refl in Hg. discriminate.
  - destruct (publish_get_cases _ _ _ _ _ _ _ Hwf Hg) as [[Hh _]|[_ Ho]]; [congruence|]. apply Hj. exact Ho.
Qed.
Lemma ojust_publish_restore o done keys seq count oldest :
  fm_wf (recent o) -> ojust o done ->
  ojust (rollback_restore (publish fp G o keys seq count oldest) (publish_undo fp o keys) (stamp_of seq count)) done.
Proof.
  intros Hwf Hj f v Hg. unfold rollback_restore in Hg. cbn [recent] in Hg.
  rewrite (get_restores (stamp_of seq count) (fm_get f (recent o))) in Hg
    by (intros p Hp; apply (undo_prev fp o keys); exact Hp).
  rewrite undo_has_fp in Hg. destruct (has_fp fp f keys) eqn:Eh.
  - destruct (fm_get f (recent (publish fp G o keys seq count oldest))) as [w|] eqn:Ew; [|discriminate].
    destruct (publish_get_cases _ _ _ _ _ _ _ Hwf Ew) as [[_ Hv]|[Hh _]]; [|congruence].
    subst w. cbn [rs_val] in Hg. rewrite N.eqb_refl in Hg. apply Hj. exact Hg.
  - destruct (publish_get_cases _ _ _ _ _ _ _ Hwf Hg) as [[Hh _]|[_ Ho]]; [congruence|]. apply Hj. exact Ho.
Qed.
Lemma rollback_wf o keys stamp : fm_wf (recent o) -> fm_wf (recent (rollback fp o keys stamp)).
Proof. intros H. unfold rollback. cbn [recent]. apply (wf_rollbacks fp stamp keys). exact H. Qed.
Lemma restore_wf o u stamp : fm_wf (recent o) -> fm_wf (recent (rollback_restore o u stamp)).
Proof. intros H. unfold rollback_restore. cbn [recent]. apply wf_restores. exact H. Qed.
End OracleOps.

(* ---------- the sequential commit machine ---------- *)
Lemma tx_get_set_same i t l : tx_get i (tx_set i t l) = Some t.
Proof.
  induction l as [|[j u] r IH]; cbn [tx_set tx_get]; [rewrite N.eqb_refl; reflexivity|].
  destruct (N.eqb i j) eqn:E; cbn [tx_get]; [rewrite N.eqb_refl; reflexivity|]. rewrite E. exact IH.
Qed.
Lemma tx_get_set_other i j t l : i <> j -> tx_get j (tx_set i t l) = tx_get j l.
Proof.
  intros Hne. induction l as [|[h u] r IH]; cbn [tx_set tx_get].
  - destruct (N.eqb j i) eqn:E; [apply N.eqb_eq in E; congruence|reflexivity].
  - destruct (N.eqb i h) eqn:E; cbn [tx_get].
    + apply N.eqb_eq in E. subst h. destruct (N.eqb j i) eqn:E2; [apply N.eqb_eq in E2; congruence|reflexivity].
    + destruct (N.eqb j h); [reflexivity|exact IH].
Qed.
Lemma tx_get_set i j t l : tx_get j (tx_set i t l) = if N.eqb i j then Some t else tx_get j l.
Proof.
  destruct (N.eqb i j) eqn:E.
  - apply N.eqb_eq in E. subst j. apply tx_get_set_same.
  - apply tx_get_set_other. intros H. subst j. rewrite N.eqb_refl in E. discriminate.
Qed.

Lemma min_start_le p : forall l id t, tx_get id l = Some t -> p t = true ->
  exists m, min_start p l = Some m /\ m <= t_start t.
Proof.
  induction l as [|[j u] r IH]; intros id t Hg Hp; [discriminate|]. cbn [tx_get] in Hg. cbn [min_start].
  destruct (N.eqb id j).
  - inversion Hg. subst u. rewrite Hp. destruct (min_start p r) as [m|]; eexists; split; try reflexivity; lia.
  - destruct (IH id t Hg Hp) as [m [Hm Hle]]. rewrite Hm. destruct (p u); eexists; split; try reflexivity; lia.
Qed.
Lemma oldest_active_le_reg s id t : tx_get id (c_txs s) = Some t -> t_reg t = true -> oldest_active s <= t_start t.
Proof.
  intros Hg Hr. destruct (min_start_le t_reg _ _ _ Hg Hr) as [b [Hb Hle]]. unfold oldest_active. rewrite Hb.
  destruct (min_start t_snap (c_txs s)); lia.
Qed.

Lemma count_pos (keys : list bytes) : keys <> [] -> 1 <= N.of_nat (length keys).
Proof. destruct keys; [congruence|]. intros _. cbn [length]. lia. Qed.
Lemma stamp_ge seq count : 1 <= count -> seq <= stamp_of seq count /\ stamp_of seq count < seq + count.
Proof. unfold stamp_of. lia. Qed.

Section Machine.
Variable fp : bytes -> N.
Variable G : N.

Record inv (s : cstate) : Prop := {
  i_wf : fm_wf (recent (c_orc s));
  i_sound : osound fp (c_orc s) (c_done s);
  i_next : forall m ks, In (m, ks) (c_done s) -> m < c_next s;
}.
Record jinv (s : cstate) : Prop := {
  j_wf : fm_wf (recent (c_orc s));
  j_just : ojust fp (c_orc s) (c_done s);
}.
Record winv (s : cstate) : Prop := {
  w_reg : watermark_ok s;
  w_kept : kept_since (c_orc s) <= c_visible s;
  w_start : forall id t, tx_get id (c_txs s) = Some t -> t_start t <= c_visible s;
}.
Definition regopen (s : cstate) : Prop :=
  forall id t, tx_get id (c_txs s) = Some t -> t_reg t = true -> t_closed t = false.

Lemma inv_c0 : inv c0.
Proof. split; cbn; [constructor|intros m ks k []|intros m ks []]. Qed.
Lemma jinv_c0 : jinv c0.
Proof. split; cbn; [constructor|intros f v H; discriminate]. Qed.
Lemma winv_c0 : winv c0.
Proof. split; cbn; [intros id t H; discriminate|lia|intros id t H; discriminate]. Qed.
Lemma regopen_c0 : regopen c0.
Proof. intros id t H. discriminate. Qed.

(* the three shapes a step can have *)
Inductive shape (fixed : bool) (s : cstate) (c : cstep) : cstate -> outcome -> Prop :=
| ShSame o : shape fixed s c s o
| ShTxs txs o : shape fixed s c
    {| c_txs := txs; c_visible := c_visible s; c_next := c_next s; c_orc := c_orc s; c_done := c_done s |} o
| ShOk id t keys :
    c = SCommit id keys false -> tx_get id (c_txs s) = Some t -> t_closed t = false -> keys <> [] ->
    check fp (c_orc s) keys (t_start t) = VOk ->
    shape fixed s c
      {| c_txs := tx_set id {| t_start := t_start t; t_reg := false; t_snap := t_snap t; t_closed := true |} (c_txs s);
         c_visible := N.max (c_visible s) (stamp_of (c_next s) (N.of_nat (length keys)));
         c_next := c_next s + N.of_nat (length keys);
         c_orc := publish fp G (c_orc s) keys (c_next s) (N.of_nat (length keys)) (N.min (oldest_active s) (t_start t));
         c_done := (stamp_of (c_next s) (N.of_nat (length keys)), keys) :: c_done s |} OOk
| ShFail id t keys :
    c = SCommit id keys true -> tx_get id (c_txs s) = Some t -> t_closed t = false -> keys <> [] ->
    check fp (c_orc s) keys (t_start t) = VOk ->
    shape fixed s c
      {| c_txs := c_txs s;
         c_visible := N.max (c_visible s) (stamp_of (c_next s) (N.of_nat (length keys)));
         c_next := c_next s + N.of_nat (length keys);
         c_orc := (let o1 := publish fp G (c_orc s) keys (c_next s) (N.of_nat (length keys)) (N.min (oldest_active s) (t_start t)) in
                   if fixed then rollback_restore o1 (publish_undo fp (c_orc s) keys) (stamp_of (c_next s) (N.of_nat (length keys)))
                   else rollback fp o1 keys (stamp_of (c_next s) (N.of_nat (length keys))));
         c_done := c_done s |} OFailed
| ShRestore max :
    c = SRestore max ->
    shape fixed s c
      {| c_txs := c_txs s;
         c_visible := if N.ltb 0 max then max else c_visible s;
         c_next := if N.ltb 0 max then max + 1 else c_next s;
         c_orc := reset_for_restore (c_orc s) max;
         c_done := filter (fun e => N.leb (fst e) max) (c_done s) |} OOk.

Lemma step_shape fixed s c : shape fixed s c (step_state fp G fixed s c) (step_outcome fp G fixed s c).
Proof.
  unfold step_state, step_outcome. destruct c as [id m|id|id keys fail|max]; cbn [cs_step].
  - destruct (tx_get id (c_txs s)); cbn [fst snd]; [apply ShSame|apply ShTxs].
  - destruct (tx_get id (c_txs s)); cbn [fst snd]; [apply ShTxs|apply ShSame].
  - destruct (tx_get id (c_txs s)) as [t|] eqn:Et; cbn [fst snd]; [|apply ShSame].
    destruct (t_closed t) eqn:Ec; cbn [fst snd]; [apply ShSame|].
    destruct keys as [|k0 kr]; cbn [fst snd]; [apply ShTxs|].
    unfold commit_core. destruct (check fp (c_orc s) (k0 :: kr) (t_start t)) eqn:Ech; cbn [fst snd]; try apply ShSame.
    destruct fail; cbn [fst snd].
    + eapply ShFail; eauto. congruence.
    + eapply ShOk; eauto. congruence.
  - cbn [fst snd]. apply ShRestore. reflexivity.
Qed.

Lemma inv_step fixed s c : inv s -> fixed = true \/ is_fail c = false -> inv (step_state fp G fixed s c).
Proof.
  intros [Hwf Hs Hn] Hmode. destruct (step_shape fixed s c) as [o|txs o|id t keys Hc Hg Hcl Hne Hch|id t keys Hc Hg Hcl Hne Hch|max Hc].
  - split; assumption.
  - split; cbn; assumption.
  - pose proof (count_pos keys Hne) as Hcp. destruct (stamp_ge (c_next s) _ Hcp) as [Hs1 Hs2].
    assert (forall m ks, In (m, ks) (c_done s) -> m <= stamp_of (c_next s) (N.of_nat (length keys))) as Hle.
    { intros m ks Hin. specialize (Hn m ks Hin). lia. }
    split; cbn [c_orc c_done c_next].
    + apply publish_wf. exact Hwf.
    + apply osound_publish; assumption.
    + intros m ks [Hin|Hin]; [inversion Hin; subst; lia|]. specialize (Hn m ks Hin). lia.
  - destruct Hmode as [Hf|Hf]; [|subst c; discriminate]. subst fixed.
    pose proof (count_pos keys Hne) as Hcp. destruct (stamp_ge (c_next s) _ Hcp) as [Hs1 Hs2].
    assert (forall m ks, In (m, ks) (c_done s) -> m <= stamp_of (c_next s) (N.of_nat (length keys))) as Hle.
    { intros m ks Hin. specialize (Hn m ks Hin). lia. }
    split; cbn [c_orc c_done c_next].
    + apply restore_wf. apply publish_wf. exact Hwf.
    + apply osound_publish_restore; assumption.
    + intros m ks Hin. specialize (Hn m ks Hin). lia.
  - split; cbn [c_orc c_done c_next reset_for_restore recent kept_since].
    + constructor.
    + intros m ks k Hin Hm _. cbn in Hm. apply filter_In in Hin. destruct Hin as [_ Hle]. cbn [fst] in Hle. apply N.leb_le in Hle. lia.
    + intros m ks Hin. apply filter_In in Hin. destruct Hin as [Hin Hle]. cbn [fst] in Hle. apply N.leb_le in Hle.
      specialize (Hn m ks Hin). destruct (N.ltb 0 max); lia.
Qed.

Lemma jinv_step fixed s c : jinv s -> jinv (step_state fp G fixed s c).
Proof.
  intros [Hwf Hj]. destruct (step_shape fixed s c) as [o|txs o|id t keys Hc Hg Hcl Hne Hch|id t keys Hc Hg Hcl Hne Hch|max Hc].
  - split; assumption.
  - split; cbn; assumption.
  - split; cbn [c_orc c_done]; [apply publish_wf; exact Hwf|apply ojust_publish; assumption].
  - split; cbn [c_orc c_done]; cbv zeta; destruct fixed.
    + apply restore_wf. apply publish_wf. exact Hwf.
    + apply rollback_wf. apply publish_wf. exact Hwf.
    + apply ojust_publish_restore; assumption.
    + apply ojust_publish_rollback; assumption.
  - split; cbn [c_orc c_done reset_for_restore recent]; [constructor|intros f v H; discriminate].
Qed.

Lemma rollback_kept o keys stamp : kept_since (rollback fp o keys stamp) = kept_since o.
Proof. reflexivity. Qed.
Lemma restore_kept o u stamp : kept_since (rollback_restore o u stamp) = kept_since o.
Proof. reflexivity. Qed.

Lemma winv_step fixed s c : winv s -> is_restore c = false -> winv (step_state fp G fixed s c).
Proof.
  intros [Hr Hk Hst] Hnr. unfold step_state. destruct c as [id m|id|id keys fail|max]; cbn [cs_step]; [| | |discriminate].
  - destruct (tx_get id (c_txs s)) eqn:Eg; cbn [fst]; [split; assumption|].
    split; cbn [c_txs c_orc c_visible]; [|exact Hk|].
    + intros id' t'. cbn [c_txs c_orc c_visible]. rewrite tx_get_set. destruct (N.eqb id id').
      * intros H _. inversion H. cbn [t_start]. exact Hk.
      * apply Hr.
    + intros id' t'. cbn [c_txs c_orc c_visible]. rewrite tx_get_set. destruct (N.eqb id id').
      * intros H. inversion H. cbn [t_start]. lia.
      * apply Hst.
  - destruct (tx_get id (c_txs s)) as [t|] eqn:Eg; cbn [fst]; [|split; assumption].
    split; cbn [c_txs c_orc c_visible]; [|exact Hk|].
    + intros id' t'. cbn [c_txs c_orc c_visible]. rewrite tx_get_set. destruct (N.eqb id id').
      * intros H Hreg. inversion H. subst t'. discriminate.
      * apply Hr.
    + intros id' t'. cbn [c_txs c_orc c_visible]. rewrite tx_get_set. destruct (N.eqb id id') eqn:E.
      * intros H. inversion H. cbn [t_start]. apply (Hst id). exact Eg.
      * apply Hst.
  - destruct (tx_get id (c_txs s)) as [t|] eqn:Eg; cbn [fst]; [|split; assumption].
    destruct (t_closed t); cbn [fst]; [split; assumption|].
    destruct keys as [|k0 kr]; cbn [fst].
    + split; cbn [c_txs c_orc c_visible]; [|exact Hk|].
      * intros id' t'. cbn [c_txs c_orc c_visible]. rewrite tx_get_set. destruct (N.eqb id id').
        -- intros H Hreg. inversion H. subst t'. discriminate.
        -- apply Hr.
      * intros id' t'. cbn [c_txs c_orc c_visible]. rewrite tx_get_set. destruct (N.eqb id id').
        -- intros H. inversion H. cbn [t_start]. apply (Hst id). exact Eg.
        -- apply Hst.
    + unfold commit_core. destruct (check fp (c_orc s) (k0 :: kr) (t_start t)) eqn:Ech; cbn [fst]; try (split; assumption).
      pose proof (Hst id t Eg) as Hstart.
      set (keys := k0 :: kr) in *. set (old := N.min (oldest_active s) (t_start t)).
      set (o1 := publish fp G (c_orc s) keys (c_next s) (N.of_nat (length keys)) old).
      assert (kept_since o1 <= c_visible s) as Hk1 by (apply publish_kept_le; [exact Hk|unfold old; lia]).
      assert (forall id' t', tx_get id' (c_txs s) = Some t' -> t_reg t' = true -> kept_since o1 <= t_start t') as Hr1.
      { intros id' t' Hg' Hreg'. apply publish_kept_le; [apply (Hr id'); assumption|].
        pose proof (oldest_active_le_reg s id' t' Hg' Hreg'). unfold old. lia. }
      destruct fail; cbn [fst].
      * assert (kept_since (if fixed then rollback_restore o1 (publish_undo fp (c_orc s) keys) (stamp_of (c_next s) (N.of_nat (length keys)))
                            else rollback fp o1 keys (stamp_of (c_next s) (N.of_nat (length keys)))) = kept_since o1) as Hkk
          by (destruct fixed; reflexivity).
        split; cbn [c_txs c_orc c_visible]; rewrite ?Hkk.
        -- intros id' t'. unfold watermark_ok in *. cbn [c_txs c_orc]. rewrite Hkk. apply Hr1.
        -- lia.
        -- intros id' t' Hg'. specialize (Hst id' t' Hg'). lia.
      * split; cbn [c_txs c_orc c_visible].
        -- intros id' t'. cbn [c_txs c_orc c_visible]. rewrite tx_get_set. destruct (N.eqb id id').
           ++ intros H Hreg. inversion H. subst t'. discriminate.
           ++ apply Hr1.
        -- lia.
        -- intros id' t'. cbn [c_txs c_orc c_visible]. rewrite tx_get_set. destruct (N.eqb id id').
           ++ intros H. inversion H. cbn [t_start]. lia.
           ++ intros Hg'. specialize (Hst id' t' Hg'). lia.
Qed.

Lemma regopen_step fixed s c : regopen s -> regopen (step_state fp G fixed s c).
Proof.
  intros Hro. unfold step_state. destruct c as [id m|id|id keys fail|max]; cbn [cs_step].
  - destruct (tx_get id (c_txs s)); cbn [fst]; [exact Hro|]. intros id' t'. cbn [c_txs c_orc c_visible]. rewrite tx_get_set.
    destruct (N.eqb id id'); [intros H _; inversion H; reflexivity|apply Hro].
  - destruct (tx_get id (c_txs s)); cbn [fst]; [|exact Hro]. intros id' t'. cbn [c_txs c_orc c_visible]. rewrite tx_get_set.
    destruct (N.eqb id id'); [intros H Hr; inversion H; subst t'; discriminate|apply Hro].
  - destruct (tx_get id (c_txs s)) as [t|]; cbn [fst]; [|exact Hro]. destruct (t_closed t); cbn [fst]; [exact Hro|].
    destruct keys as [|k0 kr]; cbn [fst].
    + intros id' t'. cbn [c_txs c_orc c_visible]. rewrite tx_get_set.
      destruct (N.eqb id id'); [intros H Hr; inversion H; subst t'; discriminate|apply Hro].
    + unfold commit_core. destruct (check fp (c_orc s) (k0 :: kr) (t_start t)); cbn [fst]; try exact Hro.
      destruct fail; cbn [fst]; [exact Hro|]. intros id' t'. cbn [c_txs c_orc c_visible]. rewrite tx_get_set.
      destruct (N.eqb id id'); [intros H Hr; inversion H; subst t'; discriminate|apply Hro].
  - cbn [fst]. exact Hro.
Qed.

(* ---------- runs ---------- *)
Lemma run_app fixed a b s : run fp G fixed (a ++ b) s = run fp G fixed b (run fp G fixed a s).
Proof. unfold run. apply fold_left_app. Qed.

Lemma inv_run fixed steps : forall s, inv s -> fixed = true \/ no_fail steps -> inv (run fp G fixed steps s).
Proof.
  induction steps as [|c r IH]; intros s Hi Hm; [exact Hi|]. cbn [run fold_left]. apply IH.
  - apply inv_step; [exact Hi|]. destruct Hm as [Hm|Hm]; [left; exact Hm|right; apply Hm; left; reflexivity].
  - destruct Hm as [Hm|Hm]; [left; exact Hm|right]. intros c' Hin. apply Hm. right. exact Hin.
Qed.
Lemma jinv_run fixed steps : forall s, jinv s -> jinv (run fp G fixed steps s).
Proof. induction steps as [|c r IH]; intros s Hi; [exact Hi|]. cbn [run fold_left]. apply IH. apply jinv_step. exact Hi. Qed.
Lemma winv_run fixed steps : forall s, winv s -> no_restore steps -> winv (run fp G fixed steps s).
Proof.
  induction steps as [|c r IH]; intros s Hi Hm; [exact Hi|]. cbn [run fold_left]. apply IH.
  - apply winv_step; [exact Hi|apply Hm; left; reflexivity].
  - intros c' Hin. apply Hm. right. exact Hin.
Qed.
Lemma regopen_run fixed steps : forall s, regopen s -> regopen (run fp G fixed steps s).
Proof. induction steps as [|c r IH]; intros s Hi; [exact Hi|]. cbn [run fold_left]. apply IH. apply regopen_step. exact Hi. Qed.

(* keys of the successful commits come from the steps *)
Lemma done_keys_step fixed s c m ks : In (m, ks) (c_done (step_state fp G fixed s c)) ->
  In (m, ks) (c_done s) \/ ks = step_keys c.
Proof.
  destruct (step_shape fixed s c) as [o|txs o|id t keys Hc Hg Hcl Hne Hch|id t keys Hc Hg Hcl Hne Hch|max Hc]; cbn [c_done]; auto.
  - intros [H|H]; [right; inversion H; subst c; subst ks; reflexivity|left; exact H].
  - intros H. apply filter_In in H. left. apply H.
Qed.
Lemma done_keys_run fixed steps : forall s m ks k, In (m, ks) (c_done (run fp G fixed steps s)) -> In k ks ->
  (exists m', In (m', ks) (c_done s)) \/ In k (steps_keys steps).
Proof.
  induction steps as [|c r IH]; intros s m ks k Hin Hk; [left; exists m; exact Hin|]. cbn [run fold_left] in Hin.
  destruct (IH _ _ _ _ Hin Hk) as [[m' H]|H].
  - destruct (done_keys_step _ _ _ _ _ H) as [H2|H2]; [left; exists m'; exact H2|].
    right. unfold steps_keys. cbn [map concat]. apply in_or_app. left. subst ks. exact Hk.
  - right. unfold steps_keys. cbn [map concat]. apply in_or_app. right. exact H.
Qed.

(* ---------- what an accepted / refused commit means ---------- *)
Lemma commit_outcome fixed s id keys fail t : tx_get id (c_txs s) = Some t ->
  step_outcome fp G fixed s (SCommit id keys fail) =
    if t_closed t then OClosed
    else match keys with
         | [] => OOk
         | _ => match check fp (c_orc s) keys (t_start t) with
                | VRetry => ORetry | VConflict => OConflict | VOk => if fail then OFailed else OOk
                end
         end.
Proof.
  intros Hg. unfold step_outcome. cbn [cs_step]. rewrite Hg. destruct (t_closed t); [reflexivity|].
  destruct keys as [|k0 kr]; [reflexivity|]. unfold commit_core.
  destruct (check fp (c_orc s) (k0 :: kr) (t_start t)); try reflexivity. destruct fail; reflexivity.
Qed.

Lemma no_lost_update_from_inv fixed s id keys fail t m ks k :
  inv s -> tx_get id (c_txs s) = Some t ->
  step_outcome fp G fixed s (SCommit id keys fail) = OOk ->
  In (m, ks) (c_done s) -> t_start t < m -> In k keys -> ~ In k ks.
Proof.
  intros [Hwf Hs Hn] Hg Ho Hin Hlt Hk Hks. rewrite (commit_outcome _ _ _ _ _ _ Hg) in Ho.
  destruct (t_closed t); [discriminate|]. destruct keys as [|k0 kr]; [destruct Hk|].
  destruct (check fp (c_orc s) (k0 :: kr) (t_start t)) eqn:Ech; try discriminate.
  apply check_ok_inv in Ech. destruct Ech as [Hkept Hall].
  destruct (Hs m ks k Hin ltac:(lia) Hks) as [v [Hv Hmv]]. specialize (Hall k v Hk Hv). lia.
Qed.

Theorem oracle_sound_no_failures : oracle_sound_no_failures_stmt fp G.
Proof. intros steps Hnf. apply (inv_run false steps c0 inv_c0). right. exact Hnf. Qed.
Theorem oracle_sound_fixed : oracle_sound_fixed_stmt fp G.
Proof. intros steps. apply (inv_run true steps c0 inv_c0). left. reflexivity. Qed.
Theorem watermark_ok_run : watermark_ok_stmt fp G.
Proof. intros fixed steps Hnr. destruct (winv_run fixed steps c0 winv_c0 Hnr) as [H1 H2 _]. split; assumption. Qed.

Theorem no_lost_update_no_failures : no_lost_update_no_failures_stmt fp G.
Proof.
  intros steps id keys fail t m ks k Hnf s. apply no_lost_update_from_inv.
  apply (inv_run false steps c0 inv_c0). right. exact Hnf.
Qed.
Theorem no_lost_update_fixed : no_lost_update_fixed_stmt fp G.
Proof.
  intros steps id keys fail t m ks k s. apply no_lost_update_from_inv.
  apply (inv_run true steps c0 inv_c0). left. reflexivity.
Qed.

Theorem no_false_conflict : no_false_conflict_stmt fp G.
Proof.
  intros fixed steps id keys fail t s Hinj Hg Hcl Hkept Hnone.
  rewrite (commit_outcome _ _ _ _ _ _ Hg). rewrite Hcl. destruct keys as [|k0 kr]; [reflexivity|].
  set (keys := k0 :: kr) in *.
  assert (check fp (c_orc s) keys (t_start t) = VOk) as ->; [|reflexivity].
  apply check_ok_intro; [exact Hkept|]. intros k v Hk Hv.
  destruct (N.le_gt_cases v (t_start t)) as [L|L]; [exact L|]. exfalso.
  destruct (jinv_run fixed steps c0 jinv_c0) as [_ Hj]. fold s in Hj.
  destruct (Hj _ _ Hv) as [ks [k' [Hin [Hk' Hfp]]]].
  assert (In k' (steps_keys steps)) as Hsk.
  { destruct (done_keys_run fixed steps c0 v ks k' Hin Hk') as [[m' H]|H]; [destruct H|exact H]. }
  assert (k' = k) as ->.
  { apply Hinj; [apply in_or_app; left; exact Hsk|apply in_or_app; right; exact Hk|exact Hfp]. }
  apply (Hnone v ks k Hin L Hk Hk').
Qed.

Theorem registered_never_retry : registered_never_retry_stmt fp G.
Proof.
  intros fixed steps id keys fail t Hnr s Hg Hreg. rewrite (commit_outcome _ _ _ _ _ _ Hg).
  destruct (winv_run fixed steps c0 winv_c0 Hnr) as [Hr _ _]. fold s in Hr. specialize (Hr id t Hg Hreg).
  destruct (t_closed t); [discriminate|]. destruct keys as [|k0 kr]; [discriminate|].
  destruct (check fp (c_orc s) (k0 :: kr) (t_start t)) eqn:E; try discriminate; [destruct fail; discriminate|].
  apply check_retry in E. lia.
Qed.

Theorem commit_accepted : commit_accepted_stmt fp G.
Proof.
  intros fixed steps id keys fail t Hnr s Hinj Hg Hreg Hnone.
  pose proof (no_false_conflict fixed steps id keys fail t) as H. cbv zeta in H. apply H; try assumption.
  - apply (regopen_run fixed steps c0 regopen_c0 id t Hg Hreg).
  - destruct (winv_run fixed steps c0 winv_c0 Hnr) as [Hr _ _]. apply (Hr id t Hg Hreg).
Qed.

Theorem gc_clamp_ok : gc_clamp_ok_stmt fp G.
Proof.
  intros fixed s id keys fail t Hg Hne Ho. rewrite (commit_outcome _ _ _ _ _ _ Hg) in Ho.
  unfold step_state. cbn [cs_step]. rewrite Hg. destruct (t_closed t); [destruct Ho; discriminate|].
  destruct keys as [|k0 kr]; [congruence|]. unfold commit_core.
  destruct (check fp (c_orc s) (k0 :: kr) (t_start t)) eqn:E; try (destruct Ho; discriminate).
  apply check_ok_inv in E. destruct E as [Hk _].
  destruct fail; cbn [fst c_orc]; [destruct fixed; cbn [kept_since rollback rollback_restore]|];
    apply publish_kept_le; lia.
Qed.

Lemma vinv_step fixed s c : c_visible s < c_next s ->
  c_visible (step_state fp G fixed s c) < c_next (step_state fp G fixed s c).
Proof.
  intros H. destruct (step_shape fixed s c) as [o|txs o|id t keys Hc Hg Hcl Hne Hch|id t keys Hc Hg Hcl Hne Hch|max Hc];
    cbn [c_visible c_next]; try exact H.
  - pose proof (count_pos keys Hne). unfold stamp_of. lia.
  - pose proof (count_pos keys Hne). unfold stamp_of. lia.
  - destruct (N.ltb 0 max); lia.
Qed.
Lemma vis_mono_step fixed s c : is_restore c = false -> c_visible s <= c_visible (step_state fp G fixed s c).
Proof.
  intros H. destruct (step_shape fixed s c) as [o|txs o|id t keys Hc Hg Hcl Hne Hch|id t keys Hc Hg Hcl Hne Hch|max Hc];
    cbn [c_visible]; try lia. subst c. discriminate.
Qed.
Lemma done_step_new fixed s c m ks : In (m, ks) (c_done (step_state fp G fixed s c)) ->
  In (m, ks) (c_done s) \/ c_next s <= m.
Proof.
  destruct (step_shape fixed s c) as [o|txs o|id t keys Hc Hg Hcl Hne Hch|id t keys Hc Hg Hcl Hne Hch|max Hc];
    cbn [c_done]; auto.
  - intros [H|H]; [right|left; exact H]. inversion H as [[H1 H2]]. pose proof (count_pos keys Hne) as Hcp. unfold stamp_of in *. rewrite <- H2. lia.
  - intros H. apply filter_In in H. left. apply H.
Qed.
Lemma vinv_run fixed steps : forall s, c_visible s < c_next s -> c_visible (run fp G fixed steps s) < c_next (run fp G fixed steps s).
Proof. induction steps as [|c r IH]; intros s H; [exact H|]. cbn [run fold_left]. apply IH. apply vinv_step. exact H. Qed.

Theorem later_commits_have_later_stamps : later_commits_have_later_stamps_stmt fp G.
Proof.
  intros fixed pre post m ks Hnr s1.
  assert (c_visible s1 < c_next s1) as Hv.
  { apply vinv_run. cbn. rewrite first_seq. lia. }
  assert (forall post s v, v <= c_visible s -> c_visible s < c_next s -> no_restore post ->
            In (m, ks) (c_done (run fp G fixed post s)) -> In (m, ks) (c_done s) \/ v < m) as Hgen.
  { clear. induction post as [|c r IH]; intros s v Hle Hvn Hnr Hin; [left; exact Hin|]. cbn [run fold_left] in Hin.
    assert (is_restore c = false) as Hc by (apply Hnr; left; reflexivity).
    pose proof (vis_mono_step fixed s c Hc) as Hm.
    destruct (IH (step_state fp G fixed s c) v ltac:(lia) (vinv_step fixed s c Hvn)
                 (fun c' H => Hnr c' (or_intror H)) Hin) as [H|H]; [|right; exact H].
    destruct (done_step_new _ _ _ _ _ H) as [H2|H2]; [left; exact H2|right; lia]. }
  apply (Hgen post s1 (c_visible s1)); [lia|exact Hv|exact Hnr].
Qed.

Theorem refused_has_no_effect : refused_has_no_effect_stmt fp G.
Proof.
  intros fixed s c o Ho Hc. subst o. revert Hc. unfold step_outcome, step_state.
  destruct c as [id m|id|id keys fail|max]; cbn [cs_step].
  - destruct (tx_get id (c_txs s)); cbn [fst snd]; [reflexivity|]. intros [H|[H|[H|[H|H]]]]; discriminate.
  - destruct (tx_get id (c_txs s)); cbn [fst snd]; [|reflexivity]. intros [H|[H|[H|[H|H]]]]; discriminate.
  - destruct (tx_get id (c_txs s)) as [t|]; cbn [fst snd]; [|reflexivity].
    destruct (t_closed t); cbn [fst snd]; [reflexivity|].
    destruct keys as [|k0 kr]; cbn [fst snd]; [intros [H|[H|[H|[H|H]]]]; discriminate|].
    unfold commit_core. destruct (check fp (c_orc s) (k0 :: kr) (t_start t)); cbn [fst snd]; try reflexivity.
    destruct fail; cbn [fst snd]; intros [H|[H|[H|[H|H]]]]; discriminate.
  - cbn [fst snd]. intros [H|[H|[H|[H|H]]]]; discriminate.
Qed.
End Machine.

(* ---------- refutations on the model of the pinned code (concrete witnesses) ---------- *)
(* a toy fingerprint, injective on the one-byte keys used below *)
Definition toy_fp (k : bytes) : N := match k with [] => 0 | x :: _ => x + 1 end.
Definition kA : bytes := [7].
Definition kB : bytes := [9].

(* F13.  T3 begins; T2 begins and commits kA (stamp 1) while T3 is open; T1 begins (start 1),
   publishes kA with stamp 2, its WAL append fails, rollback REMOVES kA's entry (it does not put
   stamp 1 back); T3 (start 0) then commits kA: accepted, although T2 wrote kA after T3 began. *)
Definition lu_steps : list cstep :=
  [SBegin 3 BRW; SBegin 2 BRW; SCommit 2 [kA] false; SBegin 1 BRW; SCommit 1 [kA] true].
Definition lu_state : cstate := Eval vm_compute in run toy_fp ORACLE_GC_INTERVAL false lu_steps c0.
Definition lu_tx : tx := {| t_start := 0; t_reg := true; t_snap := true; t_closed := false |}.
Lemma lu_state_eq : run toy_fp ORACLE_GC_INTERVAL false lu_steps c0 = lu_state.
Proof. vm_compute. reflexivity. Qed.

Theorem no_lost_update_refuted : lost_update toy_fp ORACLE_GC_INTERVAL false.
Proof.
  exists lu_steps, 3, [kA], lu_tx, 1, [kA], kA. cbv zeta. rewrite lu_state_eq.
  split; [vm_compute; reflexivity|]. split; [vm_compute; reflexivity|].
  split; [vm_compute; left; reflexivity|]. split; [reflexivity|]. split; left; reflexivity.
Qed.
(* the same history with the repaired rollback: T3 is refused *)
Lemma lu_steps_fixed_refused :
  step_outcome toy_fp ORACLE_GC_INTERVAL true (run toy_fp ORACLE_GC_INTERVAL true lu_steps c0) (SCommit 3 [kA] false) = OConflict.
Proof. vm_compute. reflexivity. Qed.

(* Restore with an open transaction whose start is above the restored counter.  G+100 commits;
   T1 begins (start G+100); restore to 5 (visible := 5, kept_since := 5, counter of publishes := 0);
   G-1 commits by fresh transactions; then T1 commits: it is the G-th publish since the reset, the
   only registered transaction is T1 itself, so oldest_active = min(T1.start, T1.start) = G+100 >
   kept_since: the GC body runs and sets kept_since := G+100 while visible = G+5.  From then on
   every transaction begins at visible < kept_since and is answered Retry; nothing can commit, so
   visible never catches up. *)
Fixpoint many (n : nat) (id : N) : list cstep :=
  match n with
  | O => []
  | S m => [SBegin id BWO; SCommit id [[id]] false] ++ many m (id + 1)
  end.
Definition fr_steps : list cstep :=
  many (N.to_nat ORACLE_GC_INTERVAL + 100) 10 ++ [SBegin 1 BRW; SRestore 5] ++
  many (N.to_nat ORACLE_GC_INTERVAL - 1) 100000 ++ [SCommit 1 [kB] false; SBegin 2 BRW].
Definition fr_state : cstate := Eval vm_compute in run toy_fp ORACLE_GC_INTERVAL false fr_steps c0.
Definition fr_tx : tx := Eval vm_compute in
  match tx_get 2 (c_txs fr_state) with Some t => t | None => {| t_start := 0; t_reg := false; t_snap := false; t_closed := true |} end.
Lemma fr_state_eq : run toy_fp ORACLE_GC_INTERVAL false fr_steps c0 = fr_state.
Proof. vm_compute. reflexivity. Qed.

Theorem fresh_retry_after_restore_holds : fresh_retry_after_restore toy_fp ORACLE_GC_INTERVAL false.
Proof.
  exists fr_steps, 2, [kA], fr_tx. cbv zeta. rewrite fr_state_eq.
  split; [vm_compute; reflexivity|]. split; [reflexivity|]. split; [reflexivity|].
  split; [vm_compute; reflexivity|]. split; [vm_compute; reflexivity|]. vm_compute. reflexivity.
Qed.
