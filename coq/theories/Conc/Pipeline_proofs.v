(* Conc/Pipeline_proofs.v — proofs of the safety statements (C05) of Conc/PipelineSpec.v. *)
From Coq Require Import List Arith Bool Lia.
From SKV Require Import Conc.Pipeline Conc.PipelineExplore Conc.PipelineSpec.
Import ListNotations.
Local Open Scope nat_scope.

(* ------------------------------------------------------------------ general list lemmas *)
Lemma length_set_nth : forall A (l : list A) n x, length (set_nth n x l) = length l.
Proof. induction l; destruct n; simpl; intros; auto. Qed.

Lemma nth_error_set_nth_eq : forall A (l : list A) n x, n < length l -> nth_error (set_nth n x l) n = Some x.
Proof. induction l; destruct n; simpl; intros; try lia; auto. apply IHl. lia. Qed.

Lemma nth_error_set_nth_neq : forall A (l : list A) n m x, n <> m -> nth_error (set_nth n x l) m = nth_error l m.
Proof. induction l; destruct n; destruct m; simpl; intros; try congruence; auto. Qed.

Lemma nth_error_set_nth_inv : forall A (l : list A) n m x y,
  nth_error (set_nth n x l) m = Some y -> (m = n /\ y = x /\ n < length l) \/ (m <> n /\ nth_error l m = Some y).
Proof.
  intros A l n m x y H. destruct (Nat.eq_dec n m) as [->|Hne].
  - left. assert (Hlt : m < length l).
    { rewrite <- (length_set_nth _ l m x). apply nth_error_Some. congruence. }
    rewrite nth_error_set_nth_eq in H by assumption. inversion H. auto.
  - right. rewrite nth_error_set_nth_neq in H by assumption. auto.
Qed.

Lemma nth_error_snoc_inv : forall A (l : list A) x p y,
  nth_error (l ++ [x]) p = Some y -> nth_error l p = Some y \/ (p = length l /\ y = x).
Proof.
  intros A l x p y H. destruct (Nat.lt_ge_cases p (length l)) as [Hlt|Hge].
  - left. rewrite nth_error_app1 in H by assumption. exact H.
  - right. rewrite nth_error_app2 in H by assumption.
    destruct (p - length l) as [|k] eqn:E; simpl in H.
    + inversion H. split; [lia|reflexivity].
    + destruct k; discriminate.
Qed.

Lemma nth_error_lt : forall A (l : list A) p y, nth_error l p = Some y -> p < length l.
Proof. intros. apply nth_error_Some. congruence. Qed.

(* ------------------------------------------------------------------ inversion of a step *)
(* destructs the scrutinee at the head of [H : (match/if ...) = Some _] until H is [Some _ = Some _] *)
Ltac head_destruct H :=
  lazymatch type of H with
  | (if ?b then _ else _) = Some _ => let G := fresh "G" in destruct b eqn:G; try discriminate H
  | (match ?x with _ => _ end) = Some _ => let E := fresh "E" in destruct x eqn:E; try discriminate H
  end.

Ltac bool_hyps :=
  repeat match goal with
  | H : _ && _ = true |- _ => apply andb_true_iff in H; destruct H
  | H : Nat.eqb _ _ = true |- _ => apply Nat.eqb_eq in H
  | H : Nat.eqb _ _ = false |- _ => apply Nat.eqb_neq in H
  | H : Nat.ltb _ _ = true |- _ => apply Nat.ltb_lt in H
  | H : Nat.leb _ _ = true |- _ => apply Nat.leb_le in H
  | H : negb _ = true |- _ => apply negb_true_iff in H
  | H : Bool.eqb _ _ = true |- _ => apply Bool.eqb_prop in H
  end.

Ltac step_commit_inv H :=
  unfold step_commit in H; cbv zeta in H; unfold guard in H;
  repeat head_destruct H;
  injection H as H; symmetry in H.

(* ------------------------------------------------------------------ I1 *)
Lemma step_commit_visible : forall c s i t l s', step_commit c s i t l = Some s' -> visible s <= visible s'.
Proof.
  intros c s i t l s' H. step_commit_inv H; subst s'; unfold do_return; simpl;
  repeat match goal with |- context [match ?x with _ => _ end] => destruct x end; simpl; auto.
  all: bool_hyps; lia.
Qed.

Theorem visible_monotone : visible_monotone_stmt.
Proof.
  intros c s a l s' H. destruct a; simpl in H.
  - destruct (get_thr s i); [|discriminate]. eapply step_commit_visible; eauto.
  - destruct (nth_error (rdrs s) i); [|discriminate]. unfold step_reader, guard in H.
    repeat head_destruct H; injection H as H; subst s'; simpl; auto.
  - unfold step_flush, guard in H; cbv zeta in H. repeat head_destruct H; injection H as H; subst s'; simpl; auto.
  - unfold step_level, guard in H; cbv zeta in H. repeat head_destruct H; injection H as H; subst s'; simpl; auto.
  - unfold step_closer, guard in H; cbv zeta in H. repeat head_destruct H; injection H as H; subst s'; simpl; auto.
  - unfold guard in H. repeat head_destruct H; injection H as H; subst s'; simpl; auto.
Qed.

Theorem visible_monotone_run : visible_monotone_run_stmt.
Proof.
  intros c s evs. revert s. induction evs as [|[a l] r IH]; simpl; intros s s' H.
  - injection H as ->. auto.
  - destruct (pstep c s a l) as [s1|] eqn:E; [|discriminate].
    apply visible_monotone in E. apply IH in H. lia.
Qed.

(* ------------------------------------------------------------------ the invariant *)
Definition locked (p : ppc) : bool :=
  match p with
  | CLocked | CChecked | CAlloc | COrPub | CEnqLoaded | CEnqFullSeen | CEnqPanic | CEnqStored | CEnqDone
  | CEnqueued | CWalFailed | CFailDoneLocked | CMarkedLocked => true
  | _ => false
  end.
Definition prestore (p : ppc) : bool := match p with CAlloc | COrPub | CEnqLoaded => true | _ => false end.
Definition early (p : ppc) : bool :=
  match p with
  | CIdle | CEntered | CStallReg _ | CStallCounted _ _ | CStallBlocked _ | CStallOk | CHasPermit | CWantLock
  | CLocked | CChecked => true
  | _ => false
  end.
(* between storing the batch and marking it applied (the owner has not run LMarked yet) *)
Definition unmarked (p : ppc) : bool :=
  match p with
  | CEnqStored | CEnqDone | CEnqueued | CWalFailed | CApplying _ | CArenaFull | CRotated | CWokeMem
  | CApplyFailed => true
  | _ => false
  end.
Definition pub_pos (p : ppc) : option nat :=
  match p with
  | CDeqOwned p | CVisTop p | CVisLoaded p _ | CVisDone p | CPubHold p => Some p
  | _ => None
  end.

Definition slot_at (c : cfg) (s : plstate) (q : nat) : Prop := get_slot c s q = Some (Some q).

Definition boundary (v : nat) (s : plstate) (h : nat) : Prop :=
  h = v \/ exists p b, p < qtail s /\ nth_error (qlog s) p = Some b /\ h = b_last b.

Record thr_inv (c : cfg) (v : nat) (s : plstate) (i : nat) (t : thr) : Prop := {
  ti_lock : locked (t_pc t) = true -> mutex s = Some i;
  ti_len : locked (t_pc t) = true -> t_pc t <> CEnqStored -> length (qlog s) = qhead s;
  ti_stored : t_pc t = CEnqStored -> length (qlog s) = S (qhead s) /\ slot_at c s (qhead s);
  ti_alloc : prestore (t_pc t) = true ->
     0 < t_cnt t /\ v < t_seq t /\ t_seq t + t_cnt t <= next_seq s /\
     forall p b, nth_error (qlog s) p = Some b -> b_last b < t_seq t;
  ti_early : early (t_pc t) = true -> t_my t = None;
  ti_my_lt : forall p, t_my t = Some p -> p < length (qlog s);
  ti_my : forall p b, t_my t = Some p -> nth_error (qlog s) p = Some b ->
     b_seq b = t_seq t /\ b_cnt b = t_cnt t;
  ti_applying : forall x p b, t_pc t = CApplying x -> t_my t = Some p -> nth_error (qlog s) p = Some b ->
     t_i t <= b_ins b;
  ti_applied : forall p b, t_pc t = CApplied -> t_my t = Some p -> nth_error (qlog s) p = Some b ->
     b_ins b = b_cnt b;
  ti_failed : forall p b, t_pc t = CFailDoneLocked \/ t_pc t = CFailDone -> t_my t = Some p ->
     nth_error (qlog s) p = Some b -> b_fail b = true;
  ti_deqloaded : forall h t0, t_pc t = CDeqLoaded h t0 -> t0 <= qtail s /\ t0 < h /\ h <= qhead s;
  ti_deqslot : forall h t0 p, t_pc t = CDeqSlot h t0 p ->
     t0 <= qtail s /\ t0 < h /\ h <= qhead s /\ (qtail s = t0 -> p = t0);
  ti_deqchecked : forall h t0 p, t_pc t = CDeqChecked h t0 p ->
     t0 <= qtail s /\ t0 < h /\ h <= qhead s /\
     (qtail s = t0 -> p = t0 /\ forall b, nth_error (qlog s) p = Some b -> b_applied b = true);
  ti_won : forall t0 p, t_pc t = CDeqWon t0 p -> p = t0 /\ t0 < qtail s /\ slot_at c s t0;
  ti_pub : forall p, pub_pos (t_pc t) = Some p -> p < qtail s;
  ti_visloaded : forall p cur, t_pc t = CVisLoaded p cur -> cur <= visible s;
  ti_visdone : forall p b, t_pc t = CVisDone p -> nth_error (qlog s) p = Some b -> b_last b <= visible s;
  ti_unmarked : forall p b, unmarked (t_pc t) = true -> t_my t = Some p -> nth_error (qlog s) p = Some b ->
     b_applied b = false;
  ti_retok : t_pc t = CReturned ResOk ->
     exists p b, t_my t = Some p /\ nth_error (qlog s) p = Some b /\ b_last b <= visible s /\ b_fail b = false;
}.

Record batch_inv (v : nat) (s : plstate) (p : nat) (b : pbatch) : Prop := {
  bi_cnt : 0 < b_cnt b;
  bi_seq : v < b_seq b;
  bi_next : b_seq b + b_cnt b <= next_seq s;
  bi_ins : b_ins b <= b_cnt b;
  bi_applied : b_applied b = true -> b_fail b = true \/ b_ins b = b_cnt b;
  bi_deq : p < qtail s -> b_applied b = true;
  bi_qref : b_qref b = false -> p < qtail s;
  bi_res : b_res b = Some true -> b_last b <= visible s /\ b_fail b = false /\ b_applied b = true;
}.

Record Inv (c : cfg) (v : nat) (s : plstate) : Prop := {
  i_thr : forall i t, nth_error (thrs s) i = Some t -> thr_inv c v s i t;
  i_my_inj : forall i j ti tj p, nth_error (thrs s) i = Some ti -> nth_error (thrs s) j = Some tj ->
     t_my ti = Some p -> t_my tj = Some p -> i = j;
  i_won_inj : forall i j ti tj t0 p q, nth_error (thrs s) i = Some ti -> nth_error (thrs s) j = Some tj ->
     t_pc ti = CDeqWon t0 p -> t_pc tj = CDeqWon t0 q -> i = j;
  i_tail_head : qtail s <= qhead s;
  i_head_len : qhead s <= length (qlog s);
  i_unlocked : mutex s = None -> length (qlog s) = qhead s;
  i_next : v < next_seq s;
  i_sorted : forall p q bp bq, p < q -> nth_error (qlog s) p = Some bp -> nth_error (qlog s) q = Some bq ->
     b_last bp < b_seq bq;
  i_batch : forall p b, nth_error (qlog s) p = Some b -> batch_inv v s p b;
  i_ring : forall q, qtail s <= q -> q < qhead s -> slot_at c s q;
  i_boundary : boundary v s (visible s);
  i_rdr : forall r rd h, nth_error (rdrs s) r = Some rd -> horizon_of rd = Some h -> boundary v s h;
}.

(* how a batch may change in one step *)
Definition bmono (b b' : pbatch) : Prop :=
  b_seq b' = b_seq b /\ b_cnt b' = b_cnt b /\ b_ins b <= b_ins b' /\
  (b_applied b = true -> b_applied b' = true) /\ (b_fail b = true -> b_fail b' = true).
Definition bsame (b b' : pbatch) : Prop :=
  b_ins b' = b_ins b /\ b_applied b' = b_applied b /\ b_fail b' = b_fail b.

Lemma bmono_refl : forall b, bmono b b.
Proof. unfold bmono; intuition. Qed.
Lemma bsame_refl : forall b, bsame b b.
Proof. unfold bsame; intuition. Qed.
Lemma bmono_last : forall b b', bmono b b' -> b_last b' = b_last b.
Proof. unfold bmono, b_last; intros b b' (-> & -> & _). reflexivity. Qed.

(* what a step by thread i (whose record was t) does to the shared state, as far as the invariants
   of the OTHER threads are concerned *)
Record step_rel (c : cfg) (s s' : plstate) (i : nat) (t : thr) : Prop := {
  sr_mutex : forall j, j <> i -> mutex s = Some j ->
     mutex s' = Some j /\ length (qlog s') = length (qlog s) /\ qhead s' = qhead s;
  sr_next : next_seq s <= next_seq s';
  sr_tail : qtail s <= qtail s';
  sr_head : qhead s <= qhead s';
  sr_vis : visible s <= visible s';
  sr_log : forall p b, nth_error (qlog s) p = Some b ->
     exists b', nth_error (qlog s') p = Some b' /\ bmono b b' /\ (bsame b b' \/ t_my t = Some p);
  sr_slot : forall q, slot_at c s q -> (forall t0 p, t_pc t = CDeqWon t0 p -> q <> t0) -> slot_at c s' q;
}.

Lemma sr_pre : forall c s s' i t p b', step_rel c s s' i t -> p < length (qlog s) ->
  nth_error (qlog s') p = Some b' ->
  exists b, nth_error (qlog s) p = Some b /\ bmono b b' /\ (bsame b b' \/ t_my t = Some p).
Proof.
  intros c s s' i t p b' R Hlt Hb'. destruct (nth_error (qlog s) p) as [b|] eqn:Hb.
  - exists b. split; [reflexivity|]. destruct (sr_log _ _ _ _ _ R _ _ Hb) as (b'' & Hb'' & Hm & Hs).
    rewrite Hb' in Hb''. injection Hb'' as <-. auto.
  - apply nth_error_None in Hb. lia.
Qed.

Lemma boundary_stable : forall c v s s' i t h, step_rel c s s' i t -> boundary v s h -> boundary v s' h.
Proof.
  intros c v s s' i t h R [->|(p & b & Hp & Hb & ->)]; [left; reflexivity|right].
  destruct (sr_log _ _ _ _ _ R _ _ Hb) as (b' & Hb' & Hm & _).
  exists p, b'. split; [pose proof (sr_tail _ _ _ _ _ R); lia|]. split; [assumption|].
  symmetry. apply bmono_last. assumption.
Qed.

Lemma thr_inv_stable : forall c v s s' i t j tj,
  Inv c v s -> nth_error (thrs s) i = Some t -> nth_error (thrs s) j = Some tj -> j <> i ->
  step_rel c s s' i t -> thr_inv c v s' j tj.
Proof.
  intros c v s s' i t j tj HI Ht Hj Hne R.
  pose proof (i_thr _ _ _ HI _ _ Hj) as Tj. pose proof (i_thr _ _ _ HI _ _ Ht) as Ti.
  pose proof (sr_next _ _ _ _ _ R) as Rn. pose proof (sr_tail _ _ _ _ _ R) as Rt.
  pose proof (sr_head _ _ _ _ _ R) as Rh. pose proof (sr_vis _ _ _ _ _ R) as Rv.
  pose proof (i_tail_head _ _ _ HI) as Gth. pose proof (i_head_len _ _ _ HI) as Ghl.
  assert (Hown : forall p, t_my tj = Some p -> t_my t = Some p -> False).
  { intros p H1 H2. apply Hne. eapply (i_my_inj _ _ _ HI); eauto. }
  constructor.
  - intros L. pose proof (ti_lock _ _ _ _ _ Tj L) as M. apply (sr_mutex _ _ _ _ _ R _ Hne M).
  - intros L N. pose proof (ti_lock _ _ _ _ _ Tj L) as M.
    destruct (sr_mutex _ _ _ _ _ R _ Hne M) as (_ & -> & ->). apply (ti_len _ _ _ _ _ Tj L N).
  - intros E. assert (L : locked (t_pc tj) = true) by (rewrite E; reflexivity).
    pose proof (ti_lock _ _ _ _ _ Tj L) as M.
    destruct (sr_mutex _ _ _ _ _ R _ Hne M) as (_ & -> & ->).
    destruct (ti_stored _ _ _ _ _ Tj E) as (H1 & H2). split; [assumption|].
    apply (sr_slot _ _ _ _ _ R); [assumption|]. intros t0 p0 E0.
    destruct (ti_won _ _ _ _ _ Ti _ _ E0) as (_ & H3 & _). lia.
  - intros P. assert (L : locked (t_pc tj) = true) by (destruct (t_pc tj); try discriminate; reflexivity).
    pose proof (ti_lock _ _ _ _ _ Tj L) as M.
    destruct (sr_mutex _ _ _ _ _ R _ Hne M) as (_ & Hlen & _).
    destruct (ti_alloc _ _ _ _ _ Tj P) as (H1 & H2 & H3 & H4). repeat split; try assumption; try lia.
    intros p b' Hb'. assert (Hlt : p < length (qlog s)) by (rewrite <- Hlen; eapply nth_error_lt; eauto).
    destruct (sr_pre _ _ _ _ _ _ _ R Hlt Hb') as (b & Hb & Hm & _).
    rewrite (bmono_last _ _ Hm). eauto.
  - apply (ti_early _ _ _ _ _ Tj).
  - intros p Hp. pose proof (ti_my_lt _ _ _ _ _ Tj _ Hp) as Hlt.
    destruct (nth_error (qlog s) p) as [b|] eqn:Hb; [|apply nth_error_None in Hb; lia].
    destruct (sr_log _ _ _ _ _ R _ _ Hb) as (b' & Hb' & _). eapply nth_error_lt; eauto.
  - intros p b' Hp Hb'. pose proof (ti_my_lt _ _ _ _ _ Tj _ Hp) as Hlt.
    destruct (sr_pre _ _ _ _ _ _ _ R Hlt Hb') as (b & Hb & Hm & [Hs|Ho]); [|exfalso; eauto].
    destruct (ti_my _ _ _ _ _ Tj _ _ Hp Hb) as (H1 & H2).
    destruct Hm as (-> & -> & _). auto.
  - intros x p b' E Hp Hb'. pose proof (ti_my_lt _ _ _ _ _ Tj _ Hp) as Hlt.
    destruct (sr_pre _ _ _ _ _ _ _ R Hlt Hb') as (b & Hb & Hm & _).
    pose proof (ti_applying _ _ _ _ _ Tj _ _ _ E Hp Hb). destruct Hm as (_ & _ & ? & _). lia.
  - intros p b' E Hp Hb'. pose proof (ti_my_lt _ _ _ _ _ Tj _ Hp) as Hlt.
    destruct (sr_pre _ _ _ _ _ _ _ R Hlt Hb') as (b & Hb & Hm & [Hs|Ho]); [|exfalso; eauto].
    pose proof (ti_applied _ _ _ _ _ Tj _ _ E Hp Hb). destruct Hm as (_ & -> & _). destruct Hs as (-> & _). assumption.
  - intros p b' E Hp Hb'. pose proof (ti_my_lt _ _ _ _ _ Tj _ Hp) as Hlt.
    destruct (sr_pre _ _ _ _ _ _ _ R Hlt Hb') as (b & Hb & Hm & _).
    pose proof (ti_failed _ _ _ _ _ Tj _ _ E Hp Hb). destruct Hm as (_ & _ & _ & _ & Hf). auto.
  - intros h t0 E. pose proof (ti_deqloaded _ _ _ _ _ Tj _ _ E). lia.
  - intros h t0 p E. destruct (ti_deqslot _ _ _ _ _ Tj _ _ _ E) as (H1 & H2 & H3 & H4).
    split; [lia|]. split; [lia|]. split; [lia|]. intros Hq. apply H4. lia.
  - intros h t0 p E. destruct (ti_deqchecked _ _ _ _ _ Tj _ _ _ E) as (H1 & H2 & H3 & H4).
    split; [lia|]. split; [lia|]. split; [lia|]. intros Hq. assert (Hq' : qtail s = t0) by lia.
    destruct (H4 Hq') as (-> & H5). split; [reflexivity|]. intros b' Hb'.
    assert (Hlt : t0 < length (qlog s)) by lia.
    destruct (sr_pre _ _ _ _ _ _ _ R Hlt Hb') as (b & Hb & Hm & _).
    destruct Hm as (_ & _ & _ & Ha & _). auto.
  - intros t0 p E. destruct (ti_won _ _ _ _ _ Tj _ _ E) as (H1 & H2 & H3).
    split; [assumption|]. split; [lia|]. apply (sr_slot _ _ _ _ _ R); [assumption|].
    intros t1 p1 E1 ->. apply Hne. eapply (i_won_inj _ _ _ HI); eauto.
  - intros p E. pose proof (ti_pub _ _ _ _ _ Tj _ E). lia.
  - intros p cur E. pose proof (ti_visloaded _ _ _ _ _ Tj _ _ E). lia.
  - intros p b' E Hb'.
    assert (Hp : p < qtail s) by (apply (ti_pub _ _ _ _ _ Tj); rewrite E; reflexivity).
    assert (Hlt : p < length (qlog s)) by lia.
    destruct (sr_pre _ _ _ _ _ _ _ R Hlt Hb') as (b & Hb & Hm & _).
    rewrite (bmono_last _ _ Hm). pose proof (ti_visdone _ _ _ _ _ Tj _ _ E Hb). lia.
  - intros p b' U Hp Hb'. pose proof (ti_my_lt _ _ _ _ _ Tj _ Hp) as Hlt.
    destruct (sr_pre _ _ _ _ _ _ _ R Hlt Hb') as (b & Hb & Hm & [Hs|Ho]); [|exfalso; eauto].
    pose proof (ti_unmarked _ _ _ _ _ Tj _ _ U Hp Hb). destruct Hs as (_ & -> & _). assumption.
  - intros E. destruct (ti_retok _ _ _ _ _ Tj E) as (p & b & Hp & Hb & Hl & Hf).
    destruct (sr_log _ _ _ _ _ R _ _ Hb) as (b' & Hb' & Hm & [Hs|Ho]); [|exfalso; eauto].
    exists p, b'. repeat split; try assumption.
    + rewrite (bmono_last _ _ Hm). lia.
    + destruct Hs as (_ & _ & ->). assumption.
Qed.

Definition sorted_log_prop (l : list pbatch) : Prop :=
  forall p q bp bq, p < q -> nth_error l p = Some bp -> nth_error l q = Some bq -> b_last bp < b_seq bq.

(* the general preservation lemma: thread i moves from t to t' *)
Lemma inv_step_gen : forall c v s s' i t t',
  Inv c v s -> nth_error (thrs s) i = Some t ->
  thrs s' = set_nth i t' (thrs s) -> rdrs s' = rdrs s ->
  step_rel c s s' i t ->
  thr_inv c v s' i t' ->
  (forall p, t_my t' = Some p -> t_my t = Some p \/ length (qlog s) <= p) ->
  (forall t0 p, t_pc t' = CDeqWon t0 p ->
     (exists p', t_pc t = CDeqWon t0 p') \/
     forall j tj q, j <> i -> nth_error (thrs s) j = Some tj -> t_pc tj <> CDeqWon t0 q) ->
  qtail s' <= qhead s' -> qhead s' <= length (qlog s') ->
  (mutex s' = None -> length (qlog s') = qhead s') ->
  sorted_log_prop (qlog s') ->
  (forall p b, nth_error (qlog s') p = Some b -> batch_inv v s' p b) ->
  (forall q, qtail s' <= q -> q < qhead s' -> slot_at c s' q) ->
  boundary v s' (visible s') ->
  Inv c v s'.
Proof.
  intros c v s s' i t t' HI Ht Hthrs Hrdrs R Tself Hmy Hwon H1 H2 H3 H4 H5 H6 H7.
  assert (Hother : forall j tj, nth_error (thrs s') j = Some tj ->
            (j = i /\ tj = t') \/ (j <> i /\ nth_error (thrs s) j = Some tj)).
  { intros j tj Hj. rewrite Hthrs in Hj. apply nth_error_set_nth_inv in Hj. tauto. }
  constructor; try assumption.
  - intros j tj Hj. destruct (Hother _ _ Hj) as [(-> & ->)|(Hne & Hj')]; [assumption|].
    exact (thr_inv_stable c v s s' i t j tj HI Ht Hj' Hne R).
  - intros j k tj tk p Hj Hk Mj Mk.
    destruct (Hother _ _ Hj) as [(-> & ->)|(Hnej & Hj')]; destruct (Hother _ _ Hk) as [(-> & ->)|(Hnek & Hk')].
    + reflexivity.
    + exfalso. destruct (Hmy _ Mj) as [Ho|Ho].
      * apply Hnek. symmetry. eapply (i_my_inj _ _ _ HI); eauto.
      * pose proof (ti_my_lt _ _ _ _ _ (i_thr _ _ _ HI _ _ Hk') _ Mk). lia.
    + exfalso. destruct (Hmy _ Mk) as [Ho|Ho].
      * apply Hnej. symmetry. eapply (i_my_inj _ _ _ HI); eauto.
      * pose proof (ti_my_lt _ _ _ _ _ (i_thr _ _ _ HI _ _ Hj') _ Mj). lia.
    + eapply (i_my_inj _ _ _ HI); eauto.
  - intros j k tj tk t0 p q Hj Hk Wj Wk.
    destruct (Hother _ _ Hj) as [(-> & ->)|(Hnej & Hj')]; destruct (Hother _ _ Hk) as [(-> & ->)|(Hnek & Hk')].
    + reflexivity.
    + exfalso. destruct (Hwon _ _ Wj) as [(p' & Ho)|Ho].
      * apply Hnek. symmetry. eapply (i_won_inj _ _ _ HI); eauto.
      * eapply Ho; eauto.
    + exfalso. destruct (Hwon _ _ Wk) as [(p' & Ho)|Ho].
      * apply Hnej. symmetry. eapply (i_won_inj _ _ _ HI); eauto.
      * eapply Ho; eauto.
    + eapply (i_won_inj _ _ _ HI); eauto.
  - pose proof (i_next _ _ _ HI). pose proof (sr_next _ _ _ _ _ R). lia.
  - intros r rd h Hr Hh. rewrite Hrdrs in Hr. eapply boundary_stable; eauto. eapply (i_rdr _ _ _ HI); eauto.
Qed.

(* helper lemmas about updating one batch of the log *)
Lemma log_put_sr : forall (l : list pbatch) p0 b0 b0' (my : option nat),
  nth_error l p0 = Some b0 -> bmono b0 b0' -> (bsame b0 b0' \/ my = Some p0) ->
  forall p b, nth_error l p = Some b ->
    exists b', nth_error (set_nth p0 b0' l) p = Some b' /\ bmono b b' /\ (bsame b b' \/ my = Some p).
Proof.
  intros l p0 b0 b0' my H0 Hm Hs p b Hb. destruct (Nat.eq_dec p0 p) as [<-|Hne].
  - rewrite Hb in H0. injection H0 as <-. exists b0'. split; [|auto].
    apply nth_error_set_nth_eq. eapply nth_error_lt; eauto.
  - exists b. rewrite nth_error_set_nth_neq by assumption. split; [assumption|]. split; [apply bmono_refl|left; apply bsame_refl].
Qed.

Lemma log_put_pre : forall (l : list pbatch) p0 b0 b0' p b',
  nth_error l p0 = Some b0 -> nth_error (set_nth p0 b0' l) p = Some b' ->
  (p = p0 /\ b' = b0') \/ (p <> p0 /\ nth_error l p = Some b').
Proof. intros l p0 b0 b0' p b' H0 H. apply nth_error_set_nth_inv in H. tauto. Qed.

Lemma log_put_sorted : forall (l : list pbatch) p0 b0 b0',
  sorted_log_prop l -> nth_error l p0 = Some b0 -> bmono b0 b0' -> sorted_log_prop (set_nth p0 b0' l).
Proof.
  intros l p0 b0 b0' Hs H0 Hm p q bp bq Hlt Hp Hq.
  pose proof (bmono_last _ _ Hm) as Hl. destruct Hm as (Hseq & _).
  destruct (log_put_pre _ _ _ _ _ _ H0 Hp) as [(-> & ->)|(Hnp & Hp')];
  destruct (log_put_pre _ _ _ _ _ _ H0 Hq) as [(-> & ->)|(Hnq & Hq')]; try lia.
  - rewrite Hl. eapply Hs; eauto.
  - rewrite Hseq. eapply Hs; eauto.
  - eapply Hs; eauto.
Qed.

Lemma batch_inv_frame : forall v s s' p b,
  batch_inv v s p b -> next_seq s <= next_seq s' -> qtail s' = qtail s -> visible s <= visible s' ->
  batch_inv v s' p b.
Proof.
  intros v s s' p b [] Hn Ht Hv. constructor; try assumption; try lia.
  - rewrite Ht. assumption.
  - rewrite Ht. assumption.
  - intros Hr. destruct (bi_res0 Hr) as (? & ? & ?). repeat split; auto. lia.
Qed.

Lemma boundary_frame : forall v s s' h,
  boundary v s h -> qlog s' = qlog s -> qtail s <= qtail s' -> boundary v s' h.
Proof.
  intros v s s' h [->|(p & b & Hp & Hb & ->)] Hl Ht; [left; reflexivity|right].
  exists p, b. rewrite Hl. repeat split; auto. lia.
Qed.

Lemma slot_at_frame : forall c s s' q, slotv s' = slotv s -> slot_at c s q -> slot_at c s' q.
Proof. unfold slot_at, get_slot. intros c s s' q ->. auto. Qed.

Definition mutex_step (s s' : plstate) (i : nat) : Prop :=
  mutex s' = mutex s \/ (mutex s = Some i /\ mutex s' = None /\ length (qlog s) = qhead s).

(* G1: only thread i (and possibly the mutex, released by i) changes *)
Lemma inv_thr_only : forall c v s s' i t t',
  Inv c v s -> nth_error (thrs s) i = Some t ->
  thrs s' = set_nth i t' (thrs s) -> rdrs s' = rdrs s ->
  qlog s' = qlog s -> qhead s' = qhead s -> qtail s' = qtail s -> slotv s' = slotv s ->
  visible s' = visible s -> next_seq s' = next_seq s -> mutex_step s s' i ->
  thr_inv c v s' i t' ->
  (forall p, t_my t' = Some p -> t_my t = Some p) ->
  (forall t0 p, t_pc t' = CDeqWon t0 p -> exists p', t_pc t = CDeqWon t0 p') ->
  Inv c v s'.
Proof.
  intros c v s s' i t t' HI Ht Hthrs Hrdrs Eql Eqh Eqt Esl Evis Enx Hmx Tself Hmy Hwon.
  eapply inv_step_gen; eauto.
  - constructor; try lia.
    + intros j Hne M. rewrite Eql, Eqh. destruct Hmx as [->|(M' & _)]; [auto|congruence].
    + intros p b Hb. exists b. rewrite Eql. split; [assumption|]. split; [apply bmono_refl|left; apply bsame_refl].
    + intros q Hq _. eapply slot_at_frame; eauto.
  - rewrite Eqt, Eqh. apply (i_tail_head _ _ _ HI).
  - rewrite Eqh, Eql. apply (i_head_len _ _ _ HI).
  - intros M. rewrite Eqh, Eql. destruct Hmx as [E|(_ & _ & E)]; [|assumption].
    apply (i_unlocked _ _ _ HI). congruence.
  - rewrite Eql. exact (i_sorted _ _ _ HI).
  - intros p b Hb. rewrite Eql in Hb. apply (batch_inv_frame v s); try lia. apply (i_batch _ _ _ HI); assumption.
  - intros q Hq1 Hq2. eapply slot_at_frame; eauto. apply (i_ring _ _ _ HI); lia.
  - rewrite Evis. eapply boundary_frame; eauto; [apply (i_boundary _ _ _ HI)|lia].
Qed.

(* G2: thread i moves and one batch of the log is updated *)
Lemma inv_put_b : forall c v s s' i t t' p0 b0 b0',
  Inv c v s -> nth_error (thrs s) i = Some t ->
  thrs s' = set_nth i t' (thrs s) -> rdrs s' = rdrs s ->
  nth_error (qlog s) p0 = Some b0 ->
  qlog s' = set_nth p0 b0' (qlog s) -> qhead s' = qhead s -> qtail s' = qtail s -> slotv s' = slotv s ->
  visible s' = visible s -> next_seq s' = next_seq s -> mutex_step s s' i ->
  bmono b0 b0' -> (bsame b0 b0' \/ t_my t = Some p0) -> batch_inv v s' p0 b0' ->
  thr_inv c v s' i t' ->
  (forall p, t_my t' = Some p -> t_my t = Some p) ->
  (forall t0 p, t_pc t' = CDeqWon t0 p -> exists p', t_pc t = CDeqWon t0 p') ->
  Inv c v s'.
Proof.
  intros c v s s' i t t' p0 b0 b0' HI Ht Hthrs Hrdrs H0 Eql Eqh Eqt Esl Evis Enx Hmx Hm Hs Hb0' Tself Hmy Hwon.
  assert (Hlen : length (qlog s') = length (qlog s)) by (rewrite Eql; apply length_set_nth).
  assert (R : step_rel c s s' i t).
  { constructor; try lia.
    + intros j Hne M. rewrite Hlen, Eqh. destruct Hmx as [->|(M' & _)]; [auto|congruence].
    + intros p b Hb. rewrite Eql. eapply log_put_sr; eauto.
    + intros q Hq _. eapply slot_at_frame; eauto. }
  eapply inv_step_gen; eauto.
  - rewrite Eqt, Eqh. apply (i_tail_head _ _ _ HI).
  - rewrite Eqh, Hlen. apply (i_head_len _ _ _ HI).
  - intros M. rewrite Eqh, Hlen. destruct Hmx as [E|(_ & _ & E)]; [|assumption].
    apply (i_unlocked _ _ _ HI). congruence.
  - rewrite Eql. eapply log_put_sorted; eauto. exact (i_sorted _ _ _ HI).
  - intros p b Hb. rewrite Eql in Hb. destruct (log_put_pre _ _ _ _ _ _ H0 Hb) as [(-> & ->)|(Hne & Hb')]; [assumption|].
    apply (batch_inv_frame v s); try lia. apply (i_batch _ _ _ HI); assumption.
  - intros q Hq1 Hq2. eapply slot_at_frame; eauto. apply (i_ring _ _ _ HI); lia.
  - rewrite Evis. eapply boundary_stable; eauto. apply (i_boundary _ _ _ HI).
Qed.

(* G3: thread i moves, the log is unchanged, counters only grow *)
Lemma inv_step_samelog : forall c v s s' i t t',
  Inv c v s -> nth_error (thrs s) i = Some t ->
  thrs s' = set_nth i t' (thrs s) -> rdrs s' = rdrs s -> qlog s' = qlog s ->
  next_seq s <= next_seq s' -> qtail s <= qtail s' -> qhead s <= qhead s' -> visible s <= visible s' ->
  (forall j, j <> i -> mutex s = Some j -> mutex s' = Some j /\ qhead s' = qhead s) ->
  (forall q, slot_at c s q -> (forall t0 p, t_pc t = CDeqWon t0 p -> q <> t0) -> slot_at c s' q) ->
  thr_inv c v s' i t' ->
  (forall p, t_my t' = Some p -> t_my t = Some p) ->
  (forall t0 p, t_pc t' = CDeqWon t0 p ->
     (exists p', t_pc t = CDeqWon t0 p') \/
     forall j tj q, j <> i -> nth_error (thrs s) j = Some tj -> t_pc tj <> CDeqWon t0 q) ->
  qtail s' <= qhead s' -> qhead s' <= length (qlog s) ->
  (mutex s' = None -> length (qlog s) = qhead s') ->
  (forall p b, nth_error (qlog s) p = Some b -> p < qtail s' -> b_applied b = true) ->
  (forall q, qtail s' <= q -> q < qhead s' -> slot_at c s' q) ->
  boundary v s' (visible s') ->
  Inv c v s'.
Proof.
  intros c v s s' i t t' HI Ht Hthrs Hrdrs Eql Hn Htl Hh Hv Hmx Hsl Tself Hmy Hwon H1 H2 H3 H4 H5 H6.
  apply (inv_step_gen c v s s' i t t' HI Ht Hthrs Hrdrs); try assumption.
  - constructor; try lia; try assumption.
    + intros j Hne M. destruct (Hmx j Hne M) as (M' & E). rewrite Eql. auto.
    + intros p b Hb. exists b. rewrite Eql. split; [assumption|]. split; [apply bmono_refl|left; apply bsame_refl].
  - intros p Hp. left. auto.
  - rewrite Eql. assumption.
  - rewrite Eql. assumption.
  - rewrite Eql. exact (i_sorted _ _ _ HI).
  - intros p b Hb. rewrite Eql in Hb. destruct (i_batch _ _ _ HI _ _ Hb). constructor; try assumption; try lia.
    + eauto.
    + intros Hq. specialize (bi_qref0 Hq). lia.
    + intros Hr. destruct (bi_res0 Hr) as (? & ? & ?). repeat split; auto. lia.
Qed.

(* ------------------------------------------------------------------ the transitions, one by one *)
(* unpack the invariant of the moving thread, then open the goal [thr_inv c v s' i t'] *)
Ltac self_inv0 Ti E0 :=
  destruct Ti as [Ti1 Ti2 Ti3 Ti4 Ti5 Ti6 Ti7 Ti8 Ti9 Ti10 Ti11 Ti12 Ti13 Ti14 Ti15 Ti16 Ti17 Ti18 Ti19];
  constructor; simpl; rewrite ?E0 in *; simpl in *; intros; try discriminate;
  try (match goal with H : _ = _ \/ _ = _ |- _ => destruct H; discriminate end);
  try (match goal with H : ?x <> ?x |- _ => exfalso; apply H; reflexivity end);
  repeat match goal with
  | H : ?x = ?x -> _ |- _ => specialize (H eq_refl)
  | H : ?a <> ?b -> _ |- _ => let N := fresh in assert (N : a <> b) by discriminate; specialize (H N); clear N
  end;
  try solve [eauto].

Lemma inv_LLocked : forall c v s i t, Inv c v s -> nth_error (thrs s) i = Some t ->
  t_pc t = CWantLock -> mutex s = None ->
  Inv c v (put_thr (st_mutex s (Some i)) i (with_pc t CLocked)).
Proof.
  intros c v s i t HI Ht E0 G. pose proof (i_thr _ _ _ HI _ _ Ht) as Ti.
  apply (inv_step_samelog c v s _ i t (with_pc t CLocked) HI Ht); simpl; try reflexivity; try lia; auto.
  - intros j Hne M. congruence.
  - self_inv0 Ti E0. apply (i_unlocked _ _ _ HI G).
  - intros; discriminate.
  - apply (i_tail_head _ _ _ HI).
  - apply (i_head_len _ _ _ HI).
  - intros; discriminate.
  - intros p b Hb Hp. apply (i_batch _ _ _ HI _ _ Hb). assumption.
  - apply (i_ring _ _ _ HI).
  - apply (i_boundary _ _ _ HI).
Qed.

Lemma inv_LSeqAllocated : forall c v s i t sq cnt, Inv c v s -> nth_error (thrs s) i = Some t ->
  t_pc t = CChecked -> sq = next_seq s -> cnt = t_cnt t -> 0 < cnt ->
  Inv c v (put_thr (st_next s (next_seq s + cnt)) i (with_seq (with_pc t CAlloc) sq)).
Proof.
  intros c v s i t sq cnt HI Ht E0 -> -> Hc. pose proof (i_thr _ _ _ HI _ _ Ht) as Ti.
  apply (inv_step_samelog c v s _ i t (with_seq (with_pc t CAlloc) (next_seq s)) HI Ht); simpl; try reflexivity; try lia; auto.
  - self_inv0 Ti E0; try congruence.
    + split; [assumption|]. split; [apply (i_next _ _ _ HI)|]. split; [lia|].
      intros p b Hb. destruct (i_batch _ _ _ HI _ _ Hb). unfold b_last. lia.
  - intros; discriminate.
  - apply (i_tail_head _ _ _ HI).
  - apply (i_head_len _ _ _ HI).
  - apply (i_unlocked _ _ _ HI).
  - intros p b Hb Hp. apply (i_batch _ _ _ HI _ _ Hb). assumption.
  - apply (i_ring _ _ _ HI).
  - apply (i_boundary _ _ _ HI).
Qed.

Lemma inv_LEnqDone : forall c v s i t, Inv c v s -> nth_error (thrs s) i = Some t ->
  t_pc t = CEnqStored ->
  Inv c v (put_thr (st_head s (S (qhead s))) i (with_pc t CEnqDone)).
Proof.
  intros c v s i t HI Ht E0. pose proof (i_thr _ _ _ HI _ _ Ht) as Ti.
  assert (M : mutex s = Some i) by (apply (ti_lock _ _ _ _ _ Ti); rewrite E0; reflexivity).
  destruct (ti_stored _ _ _ _ _ Ti E0) as (Hlen & Hslot).
  apply (inv_step_samelog c v s _ i t (with_pc t CEnqDone) HI Ht); simpl; try reflexivity; try lia; auto.
  - intros j Hne M'. congruence.
  - self_inv0 Ti E0. 
  - intros; discriminate.
  - pose proof (i_tail_head _ _ _ HI). lia.
  - intros p b Hb Hp. apply (i_batch _ _ _ HI _ _ Hb). assumption.
  - intros q H1 H2. destruct (Nat.eq_dec q (qhead s)) as [->|Hne]; [exact Hslot|].
    apply (i_ring _ _ _ HI); lia.
  - apply (i_boundary _ _ _ HI).
Qed.

Lemma inv_LDeqCasOk : forall c v s i t h t0 p, Inv c v s -> nth_error (thrs s) i = Some t ->
  t_pc t = CDeqChecked h t0 p -> h = qhead s -> t0 = qtail s ->
  Inv c v (put_thr (st_tail s (S t0)) i (with_pc t (CDeqWon t0 p))).
Proof.
  intros c v s i t h t0 p HI Ht E0 -> ->. pose proof (i_thr _ _ _ HI _ _ Ht) as Ti.
  destruct (ti_deqchecked _ _ _ _ _ Ti _ _ _ E0) as (_ & Hlt & _ & Hq).
  destruct (Hq eq_refl) as (-> & Happ).
  pose proof (i_head_len _ _ _ HI) as Hhl.
  apply (inv_step_samelog c v s _ i t (with_pc t (CDeqWon (qtail s) (qtail s))) HI Ht); simpl; try reflexivity; try lia; auto.
  - self_inv0 Ti E0.
    + injection H as <- <-. split; [reflexivity|]. split; [lia|]. apply (i_ring _ _ _ HI); lia.
  - intros t0 p0 E. injection E as <- <-. right. intros j tj q Hne Hj Ej.
    pose proof (ti_won _ _ _ _ _ (i_thr _ _ _ HI _ _ Hj) _ _ Ej). lia.
  - apply (i_unlocked _ _ _ HI).
  - intros p b Hb Hp. destruct (Nat.eq_dec p (qtail s)) as [->|Hne]; [auto|].
    apply (i_batch _ _ _ HI _ _ Hb). lia.
  - intros q H1 H2. apply (i_ring _ _ _ HI); lia.
  - eapply boundary_frame; [apply (i_boundary _ _ _ HI)|reflexivity|simpl; lia].
Qed.

Lemma slot_set_other : forall c s s' q t0 (x y : option nat),
  slot_at c s q -> get_slot c s t0 = Some y -> y <> Some q ->
  slotv s' = set_nth (slot_ix c t0) x (slotv s) -> slot_at c s' q.
Proof.
  unfold slot_at, get_slot. intros c s s' q t0 x y Hq Ht Hne ->.
  rewrite nth_error_set_nth_neq; [assumption|]. intros E. rewrite E in Ht. congruence.
Qed.

Lemma inv_LDeqCleared : forall c v s i t t0 p, Inv c v s -> nth_error (thrs s) i = Some t ->
  t_pc t = CDeqWon t0 p ->
  Inv c v (put_thr (put_slot c s t0 None) i (with_pc t (CDeqOwned p))).
Proof.
  intros c v s i t t0 p HI Ht E0. pose proof (i_thr _ _ _ HI _ _ Ht) as Ti.
  destruct (ti_won _ _ _ _ _ Ti _ _ E0) as (-> & Hlt & Hslot).
  pose proof (i_head_len _ _ _ HI) as Hhl. pose proof (i_tail_head _ _ _ HI) as Hth.
  assert (Hsl : forall q, slot_at c s q -> q <> t0 ->
            slot_at c (put_thr (put_slot c s t0 None) i (with_pc t (CDeqOwned t0))) q).
  { intros q Hq Hne. eapply slot_set_other; [exact Hq|exact Hslot| |reflexivity]. congruence. }
  apply (inv_step_samelog c v s _ i t (with_pc t (CDeqOwned t0)) HI Ht); simpl; try reflexivity; try lia; auto.
  - intros q Hq Hw. apply Hsl; [assumption|]. eapply Hw; eauto.
  - self_inv0 Ti E0.
    + injection H as <-. assumption.
  - intros; discriminate.
  - apply (i_unlocked _ _ _ HI).
  - intros p b Hb Hp. apply (i_batch _ _ _ HI _ _ Hb). assumption.
  - intros q H1 H2. apply Hsl; [|lia]. apply (i_ring _ _ _ HI); lia.
  - apply (i_boundary _ _ _ HI).
Qed.

Lemma inv_LVisCasOk : forall c v s i t p cur b, Inv c v s -> nth_error (thrs s) i = Some t ->
  t_pc t = CVisLoaded p cur -> get_b s p = Some b -> cur < b_last b -> cur = visible s ->
  Inv c v (put_thr (st_visible s (b_last b)) i (with_pc t (CVisDone p))).
Proof.
  intros c v s i t p cur b HI Ht E0 Hb Hlt ->. pose proof (i_thr _ _ _ HI _ _ Ht) as Ti.
  unfold get_b in Hb.
  assert (Hp : p < qtail s) by (apply (ti_pub _ _ _ _ _ Ti); rewrite E0; reflexivity).
  apply (inv_step_samelog c v s _ i t (with_pc t (CVisDone p)) HI Ht); simpl; try reflexivity; try lia; auto.
  - self_inv0 Ti E0.
    + injection H as <-. rewrite Hb in H0. injection H0 as <-. lia.
  - intros; discriminate.
  - apply (i_tail_head _ _ _ HI).
  - apply (i_head_len _ _ _ HI).
  - apply (i_unlocked _ _ _ HI).
  - intros p0 b0 Hb0 Hp0. apply (i_batch _ _ _ HI _ _ Hb0). assumption.
  - apply (i_ring _ _ _ HI).
  - right. exists p, b. auto.
Qed.

Lemma inv_LEnqStored : forall c v s i t, Inv c v s -> nth_error (thrs s) i = Some t ->
  t_pc t = CEnqLoaded -> get_slot c s (qhead s) = Some None ->
  Inv c v (put_thr (put_slot c (st_qlog s (qlog s ++
            [{| b_seq := t_seq t; b_cnt := t_cnt t; b_ins := 0; b_applied := false; b_res := None;
                b_fail := false; b_qref := true; b_oref := true |}])) (qhead s) (Some (qhead s))) i
          (with_my (with_pc t CEnqStored) (Some (qhead s)))).
Proof.
  intros c v s i t HI Ht E0 Hslot. pose proof (i_thr _ _ _ HI _ _ Ht) as Ti.
  set (nb := {| b_seq := t_seq t; b_cnt := t_cnt t; b_ins := 0; b_applied := false; b_res := None;
                b_fail := false; b_qref := true; b_oref := true |}).
  set (t' := with_my (with_pc t CEnqStored) (Some (qhead s))).
  set (s' := put_thr (put_slot c (st_qlog s (qlog s ++ [nb])) (qhead s) (Some (qhead s))) i t').
  assert (M : mutex s = Some i) by (apply (ti_lock _ _ _ _ _ Ti); rewrite E0; reflexivity).
  assert (Hlen : length (qlog s) = qhead s).
  { apply (ti_len _ _ _ _ _ Ti); rewrite E0; [reflexivity|discriminate]. }
  destruct (ti_alloc _ _ _ _ _ Ti) as (A1 & A2 & A3 & A4); [rewrite E0; reflexivity|].
  pose proof (i_tail_head _ _ _ HI) as Hth.
  assert (Hsl : forall q, slot_at c s q -> slot_at c s' q).
  { intros q Hq. eapply slot_set_other; [exact Hq|exact Hslot|discriminate|reflexivity]. }
  assert (Hnew : slot_at c s' (qhead s)).
  { unfold slot_at, get_slot in *. simpl. apply nth_error_set_nth_eq. eapply nth_error_lt; eauto. }
  apply (inv_step_gen c v s s' i t t' HI Ht); try reflexivity.
  - constructor; simpl; try lia.
    + intros j Hne M'. congruence.
    + intros p b Hb. exists b. split; [|split; [apply bmono_refl|left; apply bsame_refl]].
      rewrite nth_error_app1; [assumption|]. eapply nth_error_lt; eauto.
    + intros q Hq _. apply Hsl. assumption.
  - subst t'. self_inv0 Ti E0.
    + split; [|assumption]. rewrite app_length. simpl. lia.
    + injection H as <-. rewrite app_length. simpl. lia.
    + injection H as <-. apply nth_error_snoc_inv in H0. destruct H0 as [H0|(_ & ->)].
      * apply nth_error_lt in H0. lia.
      * simpl. auto.
    + match goal with Hm : Some _ = Some _, Hn : nth_error (_ ++ _) _ = Some _ |- _ =>
        injection Hm as <-; apply nth_error_snoc_inv in Hn; destruct Hn as [Hn|(_ & ->)];
        [apply nth_error_lt in Hn; lia|reflexivity] end.
  - simpl. intros p Hp. injection Hp as <-. right. lia.
  - simpl. intros; discriminate.
  - simpl. assumption.
  - simpl. rewrite app_length. simpl. lia.
  - simpl. intros M'. congruence.
  - simpl. intros p q bp bq Hpq Hp Hq.
    apply nth_error_snoc_inv in Hp. apply nth_error_snoc_inv in Hq.
    destruct Hp as [Hp|(-> & ->)]; destruct Hq as [Hq|(-> & ->)].
    + eapply (i_sorted _ _ _ HI); eauto.
    + simpl. eauto.
    + apply nth_error_lt in Hq. lia.
    + lia.
  - simpl. intros p b Hb. apply nth_error_snoc_inv in Hb. destruct Hb as [Hb|(-> & ->)].
    + apply (batch_inv_frame v s); simpl; try lia. apply (i_batch _ _ _ HI); assumption.
    + constructor; simpl; try assumption; try lia; try discriminate.
  - simpl. intros q H1 H2. apply Hsl. apply (i_ring _ _ _ HI); lia.
  - simpl. destruct (i_boundary _ _ _ HI) as [E|(p & b & Hp & Hb & E)]; [left; assumption|right].
    exists p, b. simpl. split; [assumption|]. split; [|assumption].
    rewrite nth_error_app1; [assumption|]. eapply nth_error_lt; eauto.
Qed.

Lemma my_batch_inv : forall s t p b, my_batch s t = Some (p, b) -> t_my t = Some p /\ nth_error (qlog s) p = Some b.
Proof.
  unfold my_batch, get_b. intros s t p b H. destruct (t_my t) as [q|]; [|discriminate].
  destruct (nth_error (qlog s) q) as [b0|] eqn:E; [|discriminate]. injection H as -> ->. auto.
Qed.

(* the owner updates its own batch *)
Ltac own_batch Hmy Hb :=
  try (rewrite Hmy in *; match goal with H : Some _ = Some _ |- _ => injection H as <- end);
  try (rewrite nth_error_set_nth_eq in * by (eapply nth_error_lt; eauto));
  try (match goal with H : Some _ = Some _ |- _ => injection H as <- end); simpl;
  try solve [rewrite length_set_nth; eauto].

Lemma inv_LFailCompleted : forall c v s i t p b pc', Inv c v s -> nth_error (thrs s) i = Some t ->
  my_batch s t = Some (p, b) ->
  (t_pc t = CWalFailed /\ pc' = CFailDoneLocked) \/ (t_pc t = CApplyFailed /\ pc' = CFailDone) ->
  Inv c v (put_thr (put_b s p (set_fail b)) i (with_pc t pc')).
Proof.
  intros c v s i t p b pc' HI Ht Hmb Hpc. pose proof (i_thr _ _ _ HI _ _ Ht) as Ti.
  destruct (my_batch_inv _ _ _ _ Hmb) as (Hmy & Hb).
  pose proof (i_batch _ _ _ HI _ _ Hb) as Bi.
  assert (Hna : b_applied b = false).
  { apply (ti_unmarked _ _ _ _ _ Ti p b); auto.
    destruct Hpc as [(E0 & _)|(E0 & _)]; rewrite E0; reflexivity. }
  apply (inv_put_b c v s _ i t (with_pc t pc') p b (set_fail b) HI Ht);
    simpl; try reflexivity; auto.
  - left; reflexivity.
  - unfold bmono; simpl. repeat split; auto.
  - destruct Bi as [B1 B2 B3 B4 B5 B6 B7 B8]. constructor; simpl; auto.
    intros Hr. destruct (B8 Hr) as (_ & _ & Ha). congruence.
  - destruct Hpc as [(E0 & ->)|(E0 & ->)]; self_inv0 Ti E0; own_batch Hmy Hb.
    all: try solve [rewrite length_set_nth; eauto].
    all: eauto.
  - destruct Hpc as [(E0 & ->)|(E0 & ->)]; simpl; intros; discriminate.
Qed.

Lemma inv_LMarked : forall c v s i t p b pc', Inv c v s -> nth_error (thrs s) i = Some t ->
  my_batch s t = Some (p, b) ->
  (t_pc t = CFailDoneLocked /\ pc' = CMarkedLocked) \/ (t_pc t = CApplied /\ pc' = CPubTop) \/
  (t_pc t = CFailDone /\ pc' = CPubTop) ->
  Inv c v (put_thr (put_b s p (set_applied b)) i (with_pc t pc')).
Proof.
  intros c v s i t p b pc' HI Ht Hmb Hpc. pose proof (i_thr _ _ _ HI _ _ Ht) as Ti.
  destruct (my_batch_inv _ _ _ _ Hmb) as (Hmy & Hb).
  pose proof (i_batch _ _ _ HI _ _ Hb) as Bi.
  apply (inv_put_b c v s _ i t (with_pc t pc') p b (set_applied b) HI Ht);
    simpl; try reflexivity; auto.
  - left; reflexivity.
  - unfold bmono; simpl. repeat split; auto.
  - destruct Bi as [B1 B2 B3 B4 B5 B6 B7 B8]. constructor; simpl; auto.
    + intros _. destruct Hpc as [(E0 & _)|[(E0 & _)|(E0 & _)]].
      * left. eapply (ti_failed _ _ _ _ _ Ti); eauto.
      * right. eapply (ti_applied _ _ _ _ _ Ti); eauto.
      * left. eapply (ti_failed _ _ _ _ _ Ti); eauto.
    + intros Hr. destruct (B8 Hr) as (? & ? & ?). auto.
  - destruct Hpc as [(E0 & ->)|[(E0 & ->)|(E0 & ->)]]; self_inv0 Ti E0; own_batch Hmy Hb.
    all: try solve [rewrite length_set_nth; eauto].
    all: eauto.
  - destruct Hpc as [(E0 & ->)|[(E0 & ->)|(E0 & ->)]]; simpl; intros; discriminate.
Qed.

Lemma inv_LMemInsert : forall c v s i t p b x g, Inv c v s -> nth_error (thrs s) i = Some t ->
  my_batch s t = Some (p, b) -> t_pc t = CApplying x -> t_i t < t_cnt t ->
  Inv c v (put_thr (put_b (st_bg s g) p (set_ins b (Nat.max (b_ins b) (S (t_i t))))) i (with_i t (S (t_i t)))).
Proof.
  intros c v s i t p b x g HI Ht Hmb E0 Hlt. pose proof (i_thr _ _ _ HI _ _ Ht) as Ti.
  destruct (my_batch_inv _ _ _ _ Hmb) as (Hmy & Hb).
  pose proof (i_batch _ _ _ HI _ _ Hb) as Bi.
  destruct (ti_my _ _ _ _ _ Ti _ _ Hmy Hb) as (Hseq & Hcnt).
  apply (inv_put_b c v s _ i t (with_i t (S (t_i t))) p b (set_ins b (Nat.max (b_ins b) (S (t_i t)))) HI Ht);
    simpl; try reflexivity; auto.
  - left; reflexivity.
  - unfold bmono; simpl. repeat split; auto. lia.
  - destruct Bi as [B1 B2 B3 B4 B5 B6 B7 B8]. constructor; simpl; auto; try lia.
    intros Ha. destruct (B5 Ha); [left; assumption|right; lia].
  - self_inv0 Ti E0; own_batch Hmy Hb.
    all: try solve [rewrite length_set_nth; eauto].
    all: eauto. 
    lia.
  - rewrite E0. intros; discriminate.
Qed.

Lemma inv_LDeqLoaded_hold : forall c v s i t q b pc', Inv c v s -> nth_error (thrs s) i = Some t ->
  t_pc t = CPubHold q -> get_b s q = Some b ->
  pc' = CDeqNone \/ (qhead s <> qtail s /\ pc' = CDeqLoaded (qhead s) (qtail s)) ->
  Inv c v (put_thr (put_b s q (drop_qref b)) i (with_pc t pc')).
Proof.
  intros c v s i t q b pc' HI Ht E0 Hb Hpc. pose proof (i_thr _ _ _ HI _ _ Ht) as Ti.
  unfold get_b in Hb. pose proof (i_batch _ _ _ HI _ _ Hb) as Bi.
  assert (Hq : q < qtail s) by (apply (ti_pub _ _ _ _ _ Ti); rewrite E0; reflexivity).
  pose proof (i_tail_head _ _ _ HI) as Hth.
  apply (inv_put_b c v s _ i t (with_pc t pc') q b (drop_qref b) HI Ht);
    simpl; try reflexivity; auto.
  - left; reflexivity.
  - unfold bmono; simpl. repeat split; auto.
  - left. unfold bsame; simpl; auto.
  - destruct Bi as [B1 B2 B3 B4 B5 B6 B7 B8]. constructor; simpl; auto.
  - destruct Hpc as [->|(Hne & ->)]; self_inv0 Ti E0.
    all: try solve [rewrite length_set_nth; eauto].
    all: try (match goal with H : nth_error (set_nth _ _ _) _ = Some _ |- _ =>
                destruct (log_put_pre _ _ _ _ _ _ Hb H) as [(-> & ->)|(? & ?)]; simpl; eauto end).
    all: try (match goal with H : CDeqLoaded _ _ = CDeqLoaded _ _ |- _ => injection H as <- <-; lia end).
  - destruct Hpc as [->|(Hne & ->)]; simpl; intros; discriminate.
Qed.

Lemma inv_LPubCompleted : forall c v s i t q b, Inv c v s -> nth_error (thrs s) i = Some t ->
  t_pc t = CVisDone q -> get_b s q = Some b ->
  Inv c v (put_thr (put_b s q (complete b (negb (b_fail b)))) i (with_pc t (CPubHold q))).
Proof.
  intros c v s i t q b HI Ht E0 Hb. pose proof (i_thr _ _ _ HI _ _ Ht) as Ti.
  unfold get_b in Hb. pose proof (i_batch _ _ _ HI _ _ Hb) as Bi.
  assert (Hq : q < qtail s) by (apply (ti_pub _ _ _ _ _ Ti); rewrite E0; reflexivity).
  pose proof (ti_visdone _ _ _ _ _ Ti _ _ E0 Hb) as Hvis.
  apply (inv_put_b c v s _ i t (with_pc t (CPubHold q)) q b (complete b (negb (b_fail b))) HI Ht);
    simpl; try reflexivity; auto.
  - left; reflexivity.
  - unfold bmono; simpl. repeat split; auto.
  - left. unfold bsame; simpl; auto.
  - destruct Bi as [B1 B2 B3 B4 B5 B6 B7 B8]. constructor; simpl; auto.
    intros Hr. destruct (b_res b) as [[|]|]; [auto|discriminate|].
    injection Hr as Hr. apply negb_true_iff in Hr. auto.
  - self_inv0 Ti E0.
    all: try solve [rewrite length_set_nth; eauto].
    all: try (match goal with H : nth_error (set_nth _ _ _) _ = Some _ |- _ =>
                destruct (log_put_pre _ _ _ _ _ _ Hb H) as [(-> & ->)|(? & ?)]; simpl; eauto end).
  - intros; discriminate.
Qed.

Lemma unlock_step : forall c v s i t, thr_inv c v s i t -> locked (t_pc t) = true -> t_pc t <> CEnqStored ->
  forall s', mutex s' = None -> mutex_step s s' i.
Proof.
  intros c v s i t Ti L N s' M. right. split; [apply (ti_lock _ _ _ _ _ Ti L)|]. split; [assumption|].
  apply (ti_len _ _ _ _ _ Ti L N).
Qed.

Lemma inv_LUnlocked : forall c v s i t t', Inv c v s -> nth_error (thrs s) i = Some t ->
  (t_pc t = CEnqueued /\ t' = with_i (with_pc t (CApplying false)) 0) \/
  (t_pc t = CMarkedLocked /\ t' = with_pc t CPubTop) ->
  Inv c v (put_thr (st_mutex s None) i t').
Proof.
  intros c v s i t t' HI Ht Hpc. pose proof (i_thr _ _ _ HI _ _ Ht) as Ti.
  apply (inv_thr_only c v s _ i t t' HI Ht); simpl; try reflexivity.
  - destruct Hpc as [(E0 & _)|(E0 & _)]; apply (unlock_step c v s i t Ti); try reflexivity;
      rewrite E0; try reflexivity; discriminate.
  - destruct Hpc as [(E0 & ->)|(E0 & ->)]; self_inv0 Ti E0. lia.
  - destruct Hpc as [(E0 & ->)|(E0 & ->)]; simpl; auto.
  - destruct Hpc as [(E0 & ->)|(E0 & ->)]; simpl; intros; discriminate.
Qed.

Lemma my_batch_qlog : forall s1 s t, qlog s1 = qlog s -> my_batch s1 t = my_batch s t.
Proof. unfold my_batch, get_b. intros s1 s t ->. reflexivity. Qed.

Lemma inv_do_return : forall c v s s0 i t r, Inv c v s -> nth_error (thrs s) i = Some t ->
  (s0 = s \/ (s0 = st_mutex s None /\ locked (t_pc t) = true /\ t_pc t <> CEnqStored)) ->
  (r = ResOk -> exists p b, my_batch s t = Some (p, b) /\ b_res b = Some true) ->
  Inv c v (do_return s0 i t r).
Proof.
  intros c v s s0 i t r HI Ht Hs0 Hok. pose proof (i_thr _ _ _ HI _ _ Ht) as Ti.
  unfold do_return.
  set (s1 := if t_permit t then st_avail s0 (S (avail s0)) else s0).
  set (t' := with_permit (with_pc t (CReturned r)) false).
  assert (Hq : qlog s1 = qlog s /\ qhead s1 = qhead s /\ qtail s1 = qtail s /\ slotv s1 = slotv s /\
               visible s1 = visible s /\ next_seq s1 = next_seq s /\ thrs s1 = thrs s /\ rdrs s1 = rdrs s /\
               mutex_step s s1 i).
  { subst s1. destruct Hs0 as [->|(-> & L & N)]; destruct (t_permit t); simpl; repeat split; try reflexivity.
    - left; reflexivity.
    - left; reflexivity.
    - apply (unlock_step c v s i t Ti L N). reflexivity.
    - apply (unlock_step c v s i t Ti L N). reflexivity. }
  destruct Hq as (Eql & Eqh & Eqt & Esl & Evis & Enx & Eth & Erd & Hmx).
  rewrite (my_batch_qlog s1 s t Eql).
  destruct (my_batch s t) as [[p b]|] eqn:Hmb.
  - destruct (my_batch_inv _ _ _ _ Hmb) as (Hmy & Hb).
    pose proof (i_batch _ _ _ HI _ _ Hb) as Bi.
    apply (inv_put_b c v s _ i t t' p b (drop_oref b) HI Ht); simpl; try assumption; try congruence.
    + unfold bmono; simpl. repeat split; auto.
    + left. unfold bsame; simpl; auto.
    + destruct Bi as [B1 B2 B3 B4 B5 B6 B7 B8]. constructor; simpl; try assumption; try lia;
        rewrite ?Eqt, ?Evis, ?Enx; assumption.
    + destruct Ti as [Ti1 Ti2 Ti3 Ti4 Ti5 Ti6 Ti7 Ti8 Ti9 Ti10 Ti11 Ti12 Ti13 Ti14 Ti15 Ti16 Ti17 Ti18 Ti19].
      constructor; simpl; intros; try discriminate;
        try (match goal with H : _ = _ \/ _ = _ |- _ => destruct H; discriminate end).
      * rewrite Eql, length_set_nth. auto.
      * rewrite Eql in *. destruct (log_put_pre _ _ _ _ _ _ Hb H0) as [(-> & ->)|(? & ?)]; simpl; eauto.
      * injection H as ->. destruct (Hok eq_refl) as (p' & b' & Hmb' & Hres).
        injection Hmb' as <- <-.
        exists p, (drop_oref b). split; [assumption|]. rewrite Eql, Evis.
        split; [apply nth_error_set_nth_eq; eapply nth_error_lt; eauto|].
        destruct Bi as [B1 B2 B3 B4 B5 B6 B7 B8]. destruct (B8 Hres) as (? & ? & ?). split; assumption.
  - apply (inv_thr_only c v s _ i t t' HI Ht); simpl; try assumption; try congruence.
    + destruct Ti as [Ti1 Ti2 Ti3 Ti4 Ti5 Ti6 Ti7 Ti8 Ti9 Ti10 Ti11 Ti12 Ti13 Ti14 Ti15 Ti16 Ti17 Ti18 Ti19].
      constructor; simpl; intros; try discriminate;
        try (match goal with H : _ = _ \/ _ = _ |- _ => destruct H; discriminate end).
      * rewrite Eql. auto.
      * rewrite Eql in *. eauto.
      * injection H as ->. destruct (Hok eq_refl) as (p' & b' & Hmb' & Hres). congruence.
Qed.

Ltac thr_only_start HI Ht t' :=
  match goal with |- Inv ?c ?v ?s' =>
    match type of HI with Inv _ _ ?s =>
      match type of Ht with nth_error _ ?i = Some ?t =>
        apply (inv_thr_only c v s s' i t t' HI Ht); simpl; try reflexivity; [left; reflexivity| | auto | intros; try discriminate]
      end end end.

Lemma inv_LAfterApply_ok : forall c v s i t x, Inv c v s -> nth_error (thrs s) i = Some t ->
  t_pc t = CApplying x -> t_i t = t_cnt t ->
  Inv c v (put_thr s i (with_pc t CApplied)).
Proof.
  intros c v s i t x HI Ht E0 Hi. pose proof (i_thr _ _ _ HI _ _ Ht) as Ti.
  thr_only_start HI Ht (with_pc t CApplied).
  self_inv0 Ti E0.
  destruct (i_batch _ _ _ HI _ _ H1) as [B1 B2 B3 B4 B5 B6 B7 B8].
  destruct (Ti7 _ _ H0 H1) as (_ & Hc). specialize (Ti8 _ _ _ eq_refl H0 H1). lia.
Qed.

Lemma inv_LDeqLoaded_top : forall c v s i t, Inv c v s -> nth_error (thrs s) i = Some t ->
  t_pc t = CPubTop -> qhead s <> qtail s ->
  Inv c v (put_thr s i (with_pc t (CDeqLoaded (qhead s) (qtail s)))).
Proof.
  intros c v s i t HI Ht E0 Hne. pose proof (i_thr _ _ _ HI _ _ Ht) as Ti.
  pose proof (i_tail_head _ _ _ HI) as Hth.
  thr_only_start HI Ht (with_pc t (CDeqLoaded (qhead s) (qtail s))).
  self_inv0 Ti E0. injection H as <- <-. lia.
Qed.

Lemma inv_LDeqSlot : forall c v s i t h t0 p, Inv c v s -> nth_error (thrs s) i = Some t ->
  t_pc t = CDeqLoaded h t0 -> get_slot c s t0 = Some (Some p) ->
  Inv c v (put_thr s i (with_pc t (CDeqSlot h t0 p))).
Proof.
  intros c v s i t h t0 p HI Ht E0 Hs. pose proof (i_thr _ _ _ HI _ _ Ht) as Ti.
  thr_only_start HI Ht (with_pc t (CDeqSlot h t0 p)).
  self_inv0 Ti E0. injection H as <- <- <-. destruct (Ti11 _ _ eq_refl) as (H1 & H2 & H3).
  repeat split; try assumption. intros Hq.
  assert (Hsl : slot_at c s t0) by (apply (i_ring _ _ _ HI); lia).
  unfold slot_at in Hsl. congruence.
Qed.

Lemma inv_LDeqChecked : forall c v s s1 i t h t0 p b, Inv c v s -> nth_error (thrs s) i = Some t ->
  t_pc t = CDeqSlot h t0 p -> get_b s p = Some b ->
  (b_freed b = true /\ s1 = st_uaf s true) \/ (b_applied b = true /\ s1 = s) ->
  Inv c v (put_thr s1 i (with_pc t (CDeqChecked h t0 p))).
Proof.
  intros c v s s1 i t h t0 p b HI Ht E0 Hb Hc. pose proof (i_thr _ _ _ HI _ _ Ht) as Ti.
  unfold get_b in Hb.
  assert (Hs1 : forall P : plstate -> Prop, P (put_thr s i (with_pc t (CDeqChecked h t0 p))) ->
                  P (put_thr (st_uaf s true) i (with_pc t (CDeqChecked h t0 p))) ->
                  P (put_thr s1 i (with_pc t (CDeqChecked h t0 p)))).
  { intros P P1 P2. destruct Hc as [(_ & ->)|(_ & ->)]; assumption. }
  assert (Happ : qtail s = t0 -> p = t0 /\ b_applied b = true).
  { intros Hq. destruct (ti_deqslot _ _ _ _ _ Ti _ _ _ E0) as (_ & _ & _ & H4). specialize (H4 Hq).
    split; [assumption|]. destruct Hc as [(Hf & _)|(Ha & _)]; [|assumption]. exfalso.
    unfold b_freed in Hf. apply andb_true_iff in Hf. destruct Hf as (Hf & _). apply negb_true_iff in Hf.
    pose proof (bi_qref _ _ _ _ (i_batch _ _ _ HI _ _ Hb) Hf). lia. }
  apply Hs1.
  - thr_only_start HI Ht (with_pc t (CDeqChecked h t0 p)).
    self_inv0 Ti E0. injection H as <- <- <-. destruct (Ti12 _ _ _ eq_refl) as (H1 & H2 & H3 & H4).
    repeat split; try assumption; try (apply Happ; assumption).
    intros b0 Hb0. destruct (Happ H) as (_ & Ha). congruence.
  - thr_only_start HI Ht (with_pc t (CDeqChecked h t0 p)).
    self_inv0 Ti E0. injection H as <- <- <-. destruct (Ti12 _ _ _ eq_refl) as (H1 & H2 & H3 & H4).
    repeat split; try assumption; try (apply Happ; assumption).
    intros b0 Hb0. destruct (Happ H) as (_ & Ha). congruence.
Qed.

Lemma inv_LVisLoaded : forall c v s i t p, Inv c v s -> nth_error (thrs s) i = Some t ->
  t_pc t = CVisTop p ->
  Inv c v (put_thr s i (with_pc t (CVisLoaded p (visible s)))).
Proof.
  intros c v s i t p HI Ht E0. pose proof (i_thr _ _ _ HI _ _ Ht) as Ti.
  thr_only_start HI Ht (with_pc t (CVisLoaded p (visible s))).
  self_inv0 Ti E0. injection H as <- <-. lia.
Qed.

Lemma inv_LVisSkip : forall c v s i t p cur b, Inv c v s -> nth_error (thrs s) i = Some t ->
  t_pc t = CVisLoaded p cur -> get_b s p = Some b -> b_last b <= cur ->
  Inv c v (put_thr s i (with_pc t (CVisDone p))).
Proof.
  intros c v s i t p cur b HI Ht E0 Hb Hle. pose proof (i_thr _ _ _ HI _ _ Ht) as Ti.
  unfold get_b in Hb.
  thr_only_start HI Ht (with_pc t (CVisDone p)).
  self_inv0 Ti E0. injection H as <-. specialize (Ti16 _ _ eq_refl). rewrite Hb in H0. injection H0 as <-. lia.
Qed.

(* ------------------------------------------------------------------ preservation *)
Ltac destruct_goal_ifs :=
  repeat match goal with
  | |- context [if ?b then _ else _] => let G := fresh "G" in destruct b eqn:G
  end.

Ltac thr_only_auto HI Ht Ti E0 :=
  match goal with |- Inv ?c ?v ?s' =>
    match type of HI with Inv _ _ ?s =>
      match type of Ht with nth_error _ ?i = Some ?t =>
        eapply (inv_thr_only c v s s' i t _ HI Ht);
        [ reflexivity | reflexivity | reflexivity | reflexivity | reflexivity | reflexivity | reflexivity | reflexivity
        | left; reflexivity
        | self_inv0 Ti E0
        | simpl; intros; solve [auto | discriminate]
        | simpl; intros; solve [eauto | discriminate] ]
      end end end.

Lemma step_commit_Inv : forall c v s i t l s',
  Inv c v s -> nth_error (thrs s) i = Some t -> step_commit c s i t l = Some s' -> Inv c v s'.
Proof.
  intros c v s i t l s' HI Ht H.
  pose proof (i_thr _ _ _ HI _ _ Ht) as Ti.
  step_commit_inv H; subst s'; bool_hyps; subst; destruct_goal_ifs; bool_hyps.
  all: try assumption.
  all: try solve [eapply inv_LLocked; eauto].
  all: try solve [eapply inv_LSeqAllocated; eauto].
  all: try solve [eapply inv_LEnqStored; eauto].
  all: try solve [eapply inv_LEnqDone; eauto].
  all: try solve [eapply inv_LFailCompleted; eauto].
  all: try solve [eapply inv_LMarked; eauto 6].
  all: try solve [eapply inv_LUnlocked; eauto].
  all: try solve [eapply inv_LMemInsert; eauto].
  all: try solve [eapply inv_LAfterApply_ok; eauto].
  all: try solve [eapply inv_LDeqLoaded_top; eauto].
  all: try solve [eapply inv_LDeqLoaded_hold; eauto].
  all: try solve [eapply inv_LDeqSlot; eauto].
  all: try solve [eapply inv_LDeqChecked; eauto].
  all: try solve [eapply inv_LDeqCasOk; eauto].
  all: try solve [eapply inv_LDeqCleared; eauto].
  all: try solve [eapply inv_LVisLoaded; eauto].
  all: try solve [eapply inv_LVisSkip; eauto].
  all: try solve [eapply inv_LVisCasOk; eauto].
  all: try solve [eapply inv_LPubCompleted; eauto].
  all: match goal with Hpc : t_pc _ = _ |- _ => rename Hpc into Epc end.
  all: try solve [thr_only_auto HI Ht Ti Epc].
  all: try solve [thr_only_auto HI Ht Ti Epc; (congruence || lia)].
  all: try solve [eapply inv_do_return; eauto; intros; discriminate].
  all: try solve [eapply inv_do_return; eauto;
                  [ right; rewrite Epc; split; [reflexivity|]; split; [reflexivity|discriminate]
                  | intros; discriminate ]].
Qed.

(* the invariant only reads thrs, rdrs, qlog, qhead, qtail, slotv, visible, next_seq, mutex *)
Lemma thr_inv_frame : forall c v s s' i t,
  qlog s' = qlog s -> qhead s' = qhead s -> qtail s' = qtail s -> slotv s' = slotv s ->
  visible s' = visible s -> next_seq s' = next_seq s -> mutex s' = mutex s ->
  thr_inv c v s i t -> thr_inv c v s' i t.
Proof.
  intros c v s s' i t E1 E2 E3 E4 E5 E6 E7 [].
  constructor; unfold slot_at, get_slot in *; rewrite ?E1, ?E2, ?E3, ?E4, ?E5, ?E6, ?E7; assumption.
Qed.

Lemma inv_frame : forall c v s s',
  thrs s' = thrs s -> qlog s' = qlog s -> qhead s' = qhead s -> qtail s' = qtail s -> slotv s' = slotv s ->
  visible s' = visible s -> next_seq s' = next_seq s -> mutex s' = mutex s ->
  (forall r rd h, nth_error (rdrs s') r = Some rd -> horizon_of rd = Some h -> boundary v s h) ->
  Inv c v s -> Inv c v s'.
Proof.
  intros c v s s' E0 E1 E2 E3 E4 E5 E6 E7 Hr [I1 I2 I3 I4 I5 I6 I7 I8 I9 I10 I11 I12].
  assert (Hb : forall h, boundary v s h -> boundary v s' h).
  { intros h Hh. eapply boundary_frame; eauto. lia. }
  constructor; unfold slot_at, get_slot in *; rewrite ?E0, ?E1, ?E2, ?E3, ?E4, ?E5, ?E6, ?E7; try assumption.
  - intros i t Hi. apply (thr_inv_frame c v s s'); auto.
  - intros p b Hb0. destruct (I9 _ _ Hb0) as [B1 B2 B3 B4 B5 B6 B7 B8]. constructor; rewrite ?E3, ?E5, ?E6; assumption.
  - apply Hb. assumption.
  - intros r rd h H1 H2. apply Hb. eauto.
Qed.

Lemma pstep_Inv : forall c v s a l s', Inv c v s -> pstep c s a l = Some s' -> Inv c v s'.
Proof.
  intros c v s a l s' HI H. destruct a; simpl in H.
  - unfold get_thr in H. destruct (nth_error (thrs s) i) as [t|] eqn:Ht; [|discriminate].
    eapply step_commit_Inv; eauto.
  - destruct (nth_error (rdrs s) i) as [r|] eqn:Hr; [|discriminate]. unfold step_reader, guard in H.
    repeat head_destruct H; injection H as H; subst s'; try assumption; bool_hyps; subst.
    + apply (inv_frame c v s); try reflexivity; [|assumption]. simpl. intros r rd h H1 H2.
      apply nth_error_set_nth_inv in H1. destruct H1 as [(-> & -> & _)|(_ & H1)].
      * simpl in H2. injection H2 as <-. apply (i_boundary _ _ _ HI).
      * eapply (i_rdr _ _ _ HI); eauto.
    + apply (inv_frame c v s); try reflexivity; [|assumption]. simpl. intros r rd h H1 H2.
      apply nth_error_set_nth_inv in H1. destruct H1 as [(-> & -> & _)|(_ & H1)].
      * simpl in H2. injection H2 as <-. eapply (i_rdr _ _ _ HI); eauto.
      * eapply (i_rdr _ _ _ HI); eauto.
  - unfold step_flush, guard in H; cbv zeta in H.
    repeat head_destruct H; injection H as H; subst s';
      (apply (inv_frame c v s); try reflexivity; [exact (i_rdr _ _ _ HI)|assumption]).
  - unfold step_level, guard in H; cbv zeta in H.
    repeat head_destruct H; injection H as H; subst s';
      (apply (inv_frame c v s); try reflexivity; [exact (i_rdr _ _ _ HI)|assumption]).
  - unfold step_closer, guard in H; cbv zeta in H.
    repeat head_destruct H; injection H as H; subst s'; try assumption;
      (apply (inv_frame c v s); try reflexivity; [exact (i_rdr _ _ _ HI)|assumption]).
  - unfold guard in H.
    repeat head_destruct H; injection H as H; subst s';
      (apply (inv_frame c v s); try reflexivity; [exact (i_rdr _ _ _ HI)|assumption]).
Qed.

Lemma nth_error_repeat : forall A (x y : A) n k, nth_error (repeat x n) k = Some y -> y = x.
Proof.
  intros A x y n k H. apply nth_error_In in H. apply repeat_spec in H. assumption.
Qed.

Lemma Inv_init : forall c n m v, Inv c v (pinit c n m v).
Proof.
  intros c n m v. constructor; simpl.
  - intros i t Hi. apply nth_error_repeat in Hi. subst t.
    constructor; simpl; intros; try discriminate; auto;
      try (match goal with H : _ = _ \/ _ = _ |- _ => destruct H; discriminate end).
  - intros i j ti tj p Hi Hj. apply nth_error_repeat in Hi. subst ti. discriminate.
  - intros i j ti tj t0 p q Hi Hj. apply nth_error_repeat in Hi. subst ti. discriminate.
  - lia.
  - lia.
  - reflexivity.
  - lia.
  - intros p q bp bq _ Hp. destruct p; discriminate.
  - intros p b Hp. destruct p; discriminate.
  - intros q H1 H2. lia.
  - left. reflexivity.
  - intros r rd h Hr Hh. apply nth_error_repeat in Hr. subst rd. discriminate.
Qed.

Lemma prun_Inv : forall c v evs s s', Inv c v s -> prun c s evs = Some s' -> Inv c v s'.
Proof.
  intros c v evs. induction evs as [|[a l] r IH]; simpl; intros s s' HI H.
  - injection H as <-. assumption.
  - destruct (pstep c s a l) as [s1|] eqn:E; [|discriminate]. eapply IH; [|eassumption]. eapply pstep_Inv; eauto.
Qed.

Lemma reachable_Inv : forall c n m v s, reachable c n m v s -> Inv c v s.
Proof. intros c n m v s (evs & H). eapply prun_Inv; [apply Inv_init|eassumption]. Qed.

(* ------------------------------------------------------------------ consequences of the invariant *)
Lemma seq_le_last : forall b, 0 < b_cnt b -> b_seq b <= b_last b.
Proof. unfold b_last. intros. lia. Qed.

Lemma boundary_cases : forall c v s h p b, Inv c v s -> boundary v s h -> nth_error (qlog s) p = Some b ->
  (b_last b <= h /\ p < qtail s) \/ h < b_seq b.
Proof.
  intros c v s h p b HI Hh Hb. pose proof (i_batch _ _ _ HI _ _ Hb) as Bi.
  destruct Hh as [->|(p' & b' & Hp' & Hb' & ->)].
  - right. apply (bi_seq _ _ _ _ Bi).
  - pose proof (i_batch _ _ _ HI _ _ Hb') as Bi'.
    pose proof (seq_le_last _ (bi_cnt _ _ _ _ Bi')) as Hle.
    destruct (Nat.lt_trichotomy p p') as [Hlt|[->|Hgt]].
    + left. pose proof (i_sorted _ _ _ HI _ _ _ _ Hlt Hb Hb'). lia.
    + left. rewrite Hb in Hb'. injection Hb' as <-. lia.
    + right. apply (i_sorted _ _ _ HI _ _ _ _ Hgt Hb' Hb).
Qed.

Lemma applied_below : forall c v s p b, Inv c v s -> nth_error (qlog s) p = Some b -> p < qtail s ->
  b_applied b = true /\ (b_fail b = false -> b_ins b = b_cnt b).
Proof.
  intros c v s p b HI Hb Hp. destruct (i_batch _ _ _ HI _ _ Hb) as [B1 B2 B3 B4 B5 B6 B7 B8].
  split; [auto|]. intros Hf. destruct (B5 (B6 Hp)) as [Hf'|E]; [congruence|assumption].
Qed.

Lemma seen_full : forall b h, 0 < b_cnt b -> b_ins b = b_cnt b -> b_last b <= h -> seen b h = b_cnt b.
Proof. unfold seen, b_last. intros b h H1 H2 H3. rewrite H2. apply Nat.min_l. lia. Qed.

Lemma seen_none : forall b h, h < b_seq b -> seen b h = 0.
Proof. unfold seen. intros b h H. replace (S h - b_seq b) with 0 by lia. apply Nat.min_0_r. Qed.

Theorem queue_is_seq_order : queue_is_seq_order_stmt.
Proof.
  intros c n m v s p q bp bq _ HR Hpq Hp Hq. apply reachable_Inv in HR.
  destruct (i_batch _ _ _ HR _ _ Hp) as [B1 B2 B3 B4 B5 B6 B7 B8].
  split; [exact (i_sorted _ _ _ HR _ _ _ _ Hpq Hp Hq)|]. split; assumption.
Qed.

Theorem visible_boundary : visible_boundary_stmt.
Proof.
  intros c n m v s _ HR. apply reachable_Inv in HR. split; [exact (i_boundary _ _ _ HR)|].
  intros p b Hb (H1 & H2).
  destruct (boundary_cases _ _ _ _ _ _ HR (i_boundary _ _ _ HR) Hb) as [(H3 & _)|H3]; lia.
Qed.

Theorem visible_applied : visible_applied_stmt.
Proof.
  intros c n m v s p b _ HR Hb Hle. apply reachable_Inv in HR.
  destruct (boundary_cases _ _ _ _ _ _ HR (i_boundary _ _ _ HR) Hb) as [(_ & H3)|H3].
  - split; [assumption|]. eapply applied_below; eauto.
  - pose proof (seq_le_last _ (bi_cnt _ _ _ _ (i_batch _ _ _ HR _ _ Hb))). lia.
Qed.

Theorem dequeue_in_order : dequeue_in_order_stmt.
Proof.
  intros c n m v s i s' _ HR H. apply reachable_Inv in HR. simpl in H. unfold get_thr in H.
  destruct (nth_error (thrs s) i) as [t|] eqn:Ht; [|discriminate].
  pose proof (i_thr _ _ _ HR _ _ Ht) as Ti.
  unfold step_commit, guard in H. destruct (t_pc t) eqn:Epc; try discriminate.
  destruct (Nat.eqb h (qhead s) && Nat.eqb t0 (qtail s)) eqn:G; [|discriminate].
  injection H as <-. bool_hyps. subst.
  destruct (ti_deqchecked _ _ _ _ _ Ti _ _ _ Epc) as (_ & _ & _ & Hq). destruct (Hq eq_refl) as (-> & _).
  simpl. split; [reflexivity|]. eexists. split; [apply nth_error_set_nth_eq; eapply nth_error_lt; eauto|].
  reflexivity.
Qed.

Theorem return_after_visible : return_after_visible_stmt.
Proof.
  intros c n m v s i t _ HR Ht Epc. apply reachable_Inv in HR.
  pose proof (i_thr _ _ _ HR _ _ Ht) as Ti.
  destruct (ti_retok _ _ _ _ _ Ti Epc) as (p & b & Hmy & Hb & Hl & Hf).
  exists p, b. repeat split; assumption.
Qed.

Lemma read_aon : forall c v s h p b, Inv c v s -> boundary v s h ->
  nth_error (qlog s) p = Some b ->
  (b_last b <= h /\ (b_fail b = false -> seen b h = b_cnt b)) \/ (h < b_seq b /\ seen b h = 0).
Proof.
  intros c v s h p b HI Hh Hb.
  destruct (boundary_cases _ _ _ _ _ _ HI Hh Hb) as [(H1 & H2)|H1].
  - left. split; [assumption|]. intros Hf. destruct (applied_below _ _ _ _ _ HI Hb H2) as (_ & Hi).
    apply seen_full; auto. apply (bi_cnt _ _ _ _ (i_batch _ _ _ HI _ _ Hb)).
  - right. split; [assumption|]. apply seen_none. assumption.
Qed.

Theorem read_all_or_nothing : read_all_or_nothing_stmt.
Proof.
  intros c n m v s r rd h p b _ HR Hr Hh Hb Hf. apply reachable_Inv in HR.
  destruct (read_aon _ _ _ _ _ _ HR (i_rdr _ _ _ HR _ _ _ Hr Hh) Hb) as [(H1 & H2)|H]; auto.
Qed.

Theorem prefix_order : prefix_order_stmt.
Proof.
  intros c n m v s r rd h p q bp bq _ HR Hr Hh Hpq Hp Hq Hle. apply reachable_Inv in HR.
  pose proof (i_sorted _ _ _ HR _ _ _ _ Hpq Hp Hq) as Hs.
  pose proof (seq_le_last _ (bi_cnt _ _ _ _ (i_batch _ _ _ HR _ _ Hq))) as Hq'.
  destruct (read_aon _ _ _ _ _ _ HR (i_rdr _ _ _ HR _ _ _ Hr Hh) Hp) as [(H1 & H2)|(H1 & _)]; [auto|].
  pose proof (seq_le_last _ (bi_cnt _ _ _ _ (i_batch _ _ _ HR _ _ Hp))). lia.
Qed.

(* ------------------------------------------------------------------ T2: facts along a run *)
Definition log_mono (l l' : list pbatch) : Prop :=
  forall p b, nth_error l p = Some b -> exists b', nth_error l' p = Some b' /\ bmono b b'.

Lemma bmono_trans : forall a b c, bmono a b -> bmono b c -> bmono a c.
Proof. unfold bmono. intros a b c (A1 & A2 & A3 & A4 & A5) (B1 & B2 & B3 & B4 & B5). repeat split; try congruence; try lia; auto. Qed.

Lemma log_mono_refl : forall l, log_mono l l.
Proof. intros l p b H. exists b. split; [assumption|apply bmono_refl]. Qed.

Lemma log_mono_trans : forall l1 l2 l3, log_mono l1 l2 -> log_mono l2 l3 -> log_mono l1 l3.
Proof.
  intros l1 l2 l3 H1 H2 p b Hb. destruct (H1 _ _ Hb) as (b' & Hb' & M1). destruct (H2 _ _ Hb') as (b'' & Hb'' & M2).
  exists b''. split; [assumption|]. eapply bmono_trans; eauto.
Qed.

Lemma log_mono_snoc : forall l x, log_mono l (l ++ [x]).
Proof.
  intros l x p b H. exists b. split; [|apply bmono_refl]. rewrite nth_error_app1; [assumption|]. eapply nth_error_lt; eauto.
Qed.

Lemma log_mono_put : forall l p0 b0 b0', nth_error l p0 = Some b0 -> bmono b0 b0' -> log_mono l (set_nth p0 b0' l).
Proof.
  intros l p0 b0 b0' H0 Hm p b Hb.
  destruct (log_put_sr l p0 b0 b0' (Some p0) H0 Hm (or_intror eq_refl) p b Hb) as (b' & Hb' & Hm' & _).
  exists b'. auto.
Qed.

Ltac log_mono_tac :=
  first
  [ apply log_mono_refl
  | apply log_mono_snoc
  | eapply log_mono_put;
    [ match goal with
      | H : my_batch _ _ = Some _ |- _ => apply my_batch_inv in H; destruct H as (_ & H); exact H
      | H : get_b _ _ = Some _ |- _ => exact H
      end
    | unfold bmono; simpl; repeat split; auto; lia ] ].

Lemma step_commit_frame : forall c s i t l s', step_commit c s i t l = Some s' ->
  rdrs s' = rdrs s /\ log_mono (qlog s) (qlog s').
Proof.
  intros c s i t l s' H. step_commit_inv H; subst s'; unfold do_return; simpl.
  all: repeat match goal with |- context [match ?x with _ => _ end] => let E := fresh "E" in destruct x eqn:E end; simpl.
  all: split; [reflexivity|log_mono_tac].
Qed.

Definition rdr_next (vis : nat) (rd rd' : rpc) : Prop :=
  match horizon_of rd with
  | Some h => horizon_of rd' = Some h
  | None => horizon_of rd' = None \/ exists h', horizon_of rd' = Some h' /\ vis <= h'
  end.

Lemma rdr_next_refl : forall vis rd, rdr_next vis rd rd.
Proof. unfold rdr_next. intros vis rd. destruct (horizon_of rd); auto. Qed.

Lemma pstep_frame : forall c s a l s', pstep c s a l = Some s' ->
  log_mono (qlog s) (qlog s') /\
  forall r rd, nth_error (rdrs s) r = Some rd ->
    exists rd', nth_error (rdrs s') r = Some rd' /\ rdr_next (visible s) rd rd'.
Proof.
  intros c s a l s' H.
  assert (Hsame : rdrs s' = rdrs s -> forall r rd, nth_error (rdrs s) r = Some rd ->
            exists rd', nth_error (rdrs s') r = Some rd' /\ rdr_next (visible s) rd rd').
  { intros -> r rd Hr. exists rd. split; [assumption|apply rdr_next_refl]. }
  destruct a; simpl in H.
  - destruct (get_thr s i); [|discriminate]. apply step_commit_frame in H. destruct H as (H1 & H2). auto.
  - destruct (nth_error (rdrs s) i) as [r0|] eqn:Hr0; [|discriminate]. unfold step_reader, guard in H.
    repeat head_destruct H; injection H as H; subst s'; simpl; bool_hyps; subst;
      (split; [apply log_mono_refl|]); try (apply Hsame; reflexivity).
    + intros r rd Hr. destruct (Nat.eq_dec i r) as [->|Hne].
      * eexists. split; [apply nth_error_set_nth_eq; eapply nth_error_lt; eauto|].
        rewrite Hr0 in Hr. injection Hr as <-. unfold rdr_next; simpl. right. eauto.
      * exists rd. rewrite nth_error_set_nth_neq by assumption. split; [assumption|apply rdr_next_refl].
    + intros r rd Hr. destruct (Nat.eq_dec i r) as [->|Hne].
      * eexists. split; [apply nth_error_set_nth_eq; eapply nth_error_lt; eauto|].
        rewrite Hr0 in Hr. injection Hr as <-. unfold rdr_next; simpl. reflexivity.
      * exists rd. rewrite nth_error_set_nth_neq by assumption. split; [assumption|apply rdr_next_refl].
  - unfold step_flush, guard in H; cbv zeta in H.
    repeat head_destruct H; injection H as H; subst s'; (split; [apply log_mono_refl|apply Hsame; reflexivity]).
  - unfold step_level, guard in H; cbv zeta in H.
    repeat head_destruct H; injection H as H; subst s'; (split; [apply log_mono_refl|apply Hsame; reflexivity]).
  - unfold step_closer, guard in H; cbv zeta in H.
    repeat head_destruct H; injection H as H; subst s'; (split; [apply log_mono_refl|apply Hsame; reflexivity]).
  - unfold guard in H.
    repeat head_destruct H; injection H as H; subst s'; (split; [apply log_mono_refl|apply Hsame; reflexivity]).
Qed.

Lemma prun_frame : forall c evs s s', prun c s evs = Some s' ->
  log_mono (qlog s) (qlog s') /\
  forall r rd, nth_error (rdrs s) r = Some rd ->
    exists rd', nth_error (rdrs s') r = Some rd' /\ rdr_next (visible s) rd rd'.
Proof.
  intros c evs. induction evs as [|[a l] rest IH]; simpl; intros s s' H.
  - injection H as <-. split; [apply log_mono_refl|]. intros r rd Hr. exists rd. split; [assumption|apply rdr_next_refl].
  - destruct (pstep c s a l) as [s1|] eqn:E; [|discriminate].
    pose proof (visible_monotone _ _ _ _ _ E) as Hv.
    destruct (pstep_frame _ _ _ _ _ E) as (L1 & R1). destruct (IH _ _ H) as (L2 & R2).
    split; [eapply log_mono_trans; eauto|].
    intros r rd Hr. destruct (R1 _ _ Hr) as (rd1 & Hr1 & N1). destruct (R2 _ _ Hr1) as (rd2 & Hr2 & N2).
    exists rd2. split; [assumption|]. unfold rdr_next in *.
    destruct (horizon_of rd) as [h|].
    + rewrite N1 in N2. assumption.
    + destruct N1 as [N1|(h' & N1 & Hle)].
      * rewrite N1 in N2. destruct N2 as [N2|(h' & N2 & Hle)]; [left; assumption|right].
        exists h'. split; [assumption|lia].
      * rewrite N1 in N2. right. exists h'. auto.
Qed.

Theorem real_time_order : real_time_order_stmt.
Proof.
  intros c n m v evs1 evs2 s1 s2 i t r rd h p b _ H1 H2 Ht Epc Hmy Hr1 Hr2 Hh Hb.
  assert (HI1 : Inv c v s1) by (eapply prun_Inv; [apply Inv_init|eassumption]).
  assert (HI2 : Inv c v s2) by (eapply prun_Inv; eassumption).
  pose proof (i_thr _ _ _ HI1 _ _ Ht) as Ti.
  destruct (ti_retok _ _ _ _ _ Ti Epc) as (p' & b1 & Hmy' & Hb1 & Hl & Hf).
  rewrite Hmy in Hmy'. injection Hmy' as <-.
  destruct (boundary_cases _ _ _ _ _ _ HI1 (i_boundary _ _ _ HI1) Hb1) as [(_ & Hp)|Hlt].
  2:{ pose proof (seq_le_last _ (bi_cnt _ _ _ _ (i_batch _ _ _ HI1 _ _ Hb1))). lia. }
  destruct (applied_below _ _ _ _ _ HI1 Hb1 Hp) as (_ & Hins). specialize (Hins Hf).
  destruct (prun_frame _ _ _ _ H2) as (L & R).
  destruct (L _ _ Hb1) as (b' & Hb' & Hm). rewrite Hb in Hb'. injection Hb' as <-.
  destruct (R _ _ Hr1) as (rd' & Hr' & N). rewrite Hr2 in Hr'. injection Hr' as <-.
  unfold rdr_next in N. simpl in N. destruct N as [N|(h' & N & Hle)]; [congruence|].
  rewrite Hh in N. injection N as <-.
  pose proof (bmono_last _ _ Hm) as Hlast. destruct Hm as (Hs & Hc & Hi & _).
  pose proof (i_batch _ _ _ HI2 _ _ Hb) as Bi.
  assert (Hle' : b_last b <= h) by lia.
  split; [assumption|]. apply seen_full; [apply (bi_cnt _ _ _ _ Bi)| |assumption].
  pose proof (bi_ins _ _ _ _ Bi). lia.
Qed.
