(* Conc/PipelineLiveGen.v — the invariant of the whole system (rotation, stall protocol, background
   tasks, close(), failures of env.write / env.apply, conflicts, queue overflow) and its preservation
   by committer steps, part 1: thread-local facts, mutex, permits. *)
From Coq Require Import List Arith Bool Lia.
From SKV Require Import Conc.Pipeline Conc.PipelineExplore Conc.PipelineSpec Conc.PipelineLiveBase.
Import ListNotations.

(* before `mark applied` *)
Definition premarkG (p : ppc) : bool :=
  match p with
  | CEnqStored | CEnqDone | CEnqueued | CWalFailed | CFailDoneLocked | CApplying _ | CArenaFull | CRotated | CWokeMem
  | CApplied | CApplyFailed | CFailDone => true
  | _ => false
  end.
Definition ownsP (p : nat) (t : thr) : bool := my_is p t && premarkG (t_pc t).
Definition helperG (tl : nat) (t : thr) : bool :=
  helper tl t || match t_pc t with CMarkedLocked => true | _ => false end.

Definition frun (f : fpc) : bool :=
  match f with FRunning | FFlushed | FSignaled | FNoPending | FError | FErrSignaled | FNotified => true | _ => false end.
Definition lrun (l : lpc) : bool := match l with LRunning | LDone | LError | LSignaled => true | _ => false end.
Definition fcnt_pc (f : fpc) : bool := match f with FFlushed | FSignaled | FNoPending => true | _ => false end.
Definition xsig (x : xpc) : bool :=
  match x with XIdle | XStarted | XPipeDown => false | _ => true end.
Definition xstopped (x : xpc) : bool :=
  match x with XIdle | XStarted | XPipeDown | XSignaled => false | _ => true end.
Definition xnotified (x : xpc) : bool := match x with XNotified | XJoin => true | _ => false end.

Definition BGI (g : bgstate) : Prop :=
  (g_stop g = true -> g_stall_sd g = true) /\
  (xsig (g_xpc g) = true -> g_stall_sd g = true) /\
  (xstopped (g_xpc g) = true -> g_stop g = true) /\
  (g_fpc g = FExit -> g_stop g = true) /\
  (g_frunning g = true -> frun (g_fpc g) = true) /\
  (g_lrunning g = true -> lrun (g_lpc g) = true) /\
  (fcnt_pc (g_fpc g) = true -> 0 < g_fcount g) /\
  (xnotified (g_xpc g) = true ->
     (g_fpc g = FExit \/ g_fpermit g = true \/ g_fpc g = FWoken) /\
     (g_lpc g = LExit \/ g_lpermit g = true \/ g_lpc g = LWoken)) /\
  (g_ffailed g = true -> g_stall_sd g = true) /\
  (g_fpc g = FRenotified -> g_fpermit g = true).

(* thread-local facts; stable under growth of qtail, qhead, the log and the epoch *)
Definition gtinv (s : plstate) (t : thr) : Prop :=
  t_permit t = permit_pc (t_pc t) /\ (active t = true -> 0 < t_cnt t) /\
  match t_pc t with
  | CStallReg ep | CStallCounted ep _ | CStallBlocked ep => ep <= g_epoch (bg s)
  | CEnqStored => my_lt t (length (qlog s))
  | CEnqDone | CEnqueued | CWalFailed | CFailDoneLocked | CMarkedLocked | CArenaFull | CRotated | CWokeMem
  | CApplied | CApplyFailed | CFailDone | CPubTop | CDeqNone | CPubExit | CWaitDone => my_lt t (qhead s)
  | CApplying _ => my_lt t (qhead s) /\ t_i t <= t_cnt t
  | CPubHold q => my_lt t (qhead s) /\ q < qtail s
  | CDeqLoaded h t0 => my_lt t (qhead s) /\ t0 < h /\ h <= qhead s /\ t0 <= qtail s
  | CDeqSlot h t0 p | CDeqChecked h t0 p =>
      my_lt t (qhead s) /\ t0 < h /\ h <= qhead s /\ t0 <= qtail s /\ p < length (qlog s) /\ (t0 = qtail s -> p = t0)
  | CDeqWon t0 p => my_lt t (qhead s) /\ t0 = p /\ p < qtail s
  | CDeqOwned p | CVisTop p | CVisLoaded p _ | CVisDone p => my_lt t (qhead s) /\ p < qtail s
  | _ => True
  end.

Definition gleG (s s' : plstate) : Prop := gle s s' /\ g_epoch (bg s) <= g_epoch (bg s').

Lemma gtinv_stable : forall s s' t, gleG s s' -> gtinv s t -> gtinv s' t.
Proof.
  intros s s' t [[H1 [H2 H3]] H4] [Ha [Hb Hd]]. unfold gtinv. repeat split; auto.
  destruct (t_pc t); auto;
    repeat match goal with
           | H : _ /\ _ |- _ => destruct H
           end; repeat split; eauto using my_lt_mono; try lia.
Qed.

Definition MX (s : plstate) : Prop := forall j tj, thr_at s j tj -> locked_pc (t_pc tj) = true -> mutex s = Some j.
Definition PM (c : cfg) (s : plstate) : Prop := avail s + held (thrs s) = c_permits c.
Definition OWNG (s : plstate) : Prop :=
  forall p b, qtail s <= p -> nth_error (qlog s) p = Some b -> b_applied b = true \/ existsb (ownsP p) (thrs s) = true.
Definition DEQG (s : plstate) : Prop :=
  forall p b, p < qtail s -> nth_error (qlog s) p = Some b -> b_res b = None -> existsb (holds p) (thrs s) = true.
Definition HELPG (s : plstate) : Prop :=
  forall b, qtail s < qhead s -> nth_error (qlog s) (qtail s) = Some b -> b_applied b = true ->
    existsb (helperG (qtail s)) (thrs s) = true.
Definition STALL (c : cfg) (s : plstate) : Prop :=
  forall j tj ep, thr_at s j tj -> (t_pc tj = CStallCounted ep true \/ t_pc tj = CStallBlocked ep) ->
    ep = g_epoch (bg s) -> g_stall_sd (bg s) = false /\ (c_memlimit c <= g_imm (bg s) \/ g_fpc (bg s) = FFlushed).

(* the flush task sleeps without a permit and its round did not fail: every waiting immutable memtable belongs
   to a committer that has rotated and not yet done its wake-up *)
Fixpoint nrot (l : list thr) : nat :=
  match l with [] => 0 | t :: r => (match t_pc t with CRotated => 1 | _ => 0 end) + nrot r end.
Definition ACC (s : plstate) : Prop :=
  (g_fpc (bg s) = FInit \/ g_fpc (bg s) = FWait) -> g_fpermit (bg s) = false -> g_ffailed (bg s) = false ->
  g_imm (bg s) <= nrot (thrs s).

Record GInv (c : cfg) (s : plstate) : Prop := {
  g_bgi : BGI (bg s);
  g_slots : length (slotv s) = c_slots c /\ 0 < c_slots c;
  g_ht : qtail s <= qhead s /\ qhead s <= qtail s + c_slots c /\ qhead s <= length (qlog s) /\ length (qlog s) <= S (qhead s);
  g_thr : forall j tj, thr_at s j tj -> gtinv s tj;
  g_mx : MX s;
  g_ls : LS c s;
  g_pm : PM c s;
  g_r1 : R1 c s; g_r2 : R2 c s; g_r3 : R3 c s; g_r4 : R4 s;
  g_qf : QF s; g_qref : QREF s;
  g_own : OWNG s; g_deq : DEQG s; g_help : HELPG s;
  g_stall : STALL c s;
  g_acc : ACC s;
}.

(* the labels of the runs considered: no empty batch, the L0 condition never stalls *)
Definition gok_label (c : cfg) (l : label) : Prop :=
  (forall n, l = LEnter n -> 0 < n) /\ (forall im l0, l = LStallCounted im l0 -> l0 < c_l0limit c).

Lemma gls_facts : forall c s i t, GInv c s -> thr_at s i t -> locked_pc (t_pc t) = true ->
  mutex s = Some i /\
  (t_pc t = CEnqStored -> length (qlog s) = S (qhead s) /\ t_my t = Some (qhead s)) /\
  (t_pc t <> CEnqStored -> length (qlog s) = qhead s) /\
  (t_pc t = CEnqLoaded \/ t_pc t = CEnqStored -> qhead s < qtail s + c_slots c).
Proof.
  intros c s i t HI Ht Hl. pose proof (g_mx c s HI i t Ht Hl) as Hm. pose proof (g_ls c s HI) as Hls.
  unfold LS in Hls. rewrite Hm in Hls. destruct Hls as [t' [Ht' [_ Hr]]]. unfold thr_at in *.
  assert (t' = t) by congruence. subst t'. auto.
Qed.

(* all cases of a committer step *)
Ltac gcases l t H :=
  unfold step_commit in H;
  destruct l; destruct (t_pc t) eqn:Hpc; try discriminate H;
  inv_guard H; try (injection H as <-); boolp; subst;
  try (match goal with |- context [g_dirty ?g] => destruct (g_dirty g) eqn:Hdirty end).

Ltac gstart c s i t l H HI Ht :=
  pose proof (g_thr c s HI i t Ht) as Hti; unfold gtinv in Hti;
  pose proof (g_ht c s HI) as [Hht1 [Hht2 [Hht3 Hht4]]];
  pose proof (gls_facts _ s i t HI Ht) as Hls;
  gcases l t H; ret_shape;
  try (specialize (Hls eq_refl); destruct Hls as [Hmx [Hls1 [Hls2 Hls3]]]).

Lemma T_gstep : forall c s i t l s', GInv c s -> thr_at s i t -> gok_label c l -> step_commit c s i t l = Some s' ->
  forall j tj, thr_at s' j tj -> gtinv s' tj.
Proof.
  intros c s i t l s' HI Ht Hok H.
  gstart c s i t l H HI Ht.
  all: intros j tj Hj; try (apply thr_at_put in Hj as [[-> ->]|[Hne Hj]]);
    try exact (g_thr c s HI j tj Hj);
    try (eapply gtinv_stable; [| exact (g_thr c s HI j tj Hj)]; unfold gleG, gle; simpl;
         rewrite ?app_length, ?set_nth_length; simpl; lia);
    try (unfold thr_at in Hj; rewrite Hr1 in Hj; eapply gtinv_stable; [| exact (g_thr c s HI j tj Hj)];
         unfold gleG, gle; simpl; rewrite ?Hr6; lia).
  all: destruct Hti as [Htp [Hta Htq]]; unfold active in Hta; rewrite Hpc in Hta;
    try specialize (Hta eq_refl); try (decompose [and] Htq).
  all: unfold gtinv, active, my_lt in *; simpl in *; rewrite ?Hpc;
    repeat match goal with |- context [if ?b then _ else _] => destruct b eqn:? end; boolp;
    simpl; repeat split; auto; try lia; try (intros _; lia);
    try (destruct (t_my t); [lia|contradiction]).
  - (* LEnter *) intros _. destruct Hok as [Hok3 _]. apply (Hok3 cnt eq_refl).
  - (* LEnqStored *) rewrite app_length. simpl. lia.
  - (* LDeqSlot: the batch read from the slot exists *)
    unfold get_slot, slot_ix in Hm. destruct (g_r1 c s HI _ _ Hm) as [_ [[_ Hq]|Hw]]; auto.
    apply existsb_nth in Hw as [jw [tw [Hw1 Hw2]]]. unfold won in Hw2.
    pose proof (g_thr c s HI jw tw Hw1) as [_ [_ Hw3]].
    destruct (t_pc tw); try discriminate. apply Nat.eqb_eq in Hw2. subst. lia.
  - (* LDeqSlot: the tail position's slot holds the tail batch *)
    intros ->. unfold get_slot, slot_ix in Hm.
    rewrite (g_r2 c s HI (qtail s)) in Hm by lia. congruence.
Qed.

Lemma slots_gstep : forall c s i t l s', GInv c s -> thr_at s i t -> step_commit c s i t l = Some s' ->
  length (slotv s') = c_slots c /\ 0 < c_slots c.
Proof.
  intros c s i t l s' HI Ht H.
  pose proof (g_slots c s HI) as Hsl.
  gstart c s i t l H HI Ht.
  all: simpl; try rewrite Hr4; rewrite ?set_nth_length; try exact Hsl.
Qed.

Lemma ht_gstep : forall c s i t l s', GInv c s -> thr_at s i t -> step_commit c s i t l = Some s' ->
  qtail s' <= qhead s' /\ qhead s' <= qtail s' + c_slots c /\ qhead s' <= length (qlog s') /\ length (qlog s') <= S (qhead s').
Proof.
  intros c s i t l s' HI Ht H.
  gstart c s i t l H HI Ht.
  all: simpl; rewrite ?app_length, ?set_nth_length; simpl; try lia.
  - specialize (Hls2 ltac:(discriminate)). specialize (Hls3 (or_introl eq_refl)). lia.
  - destruct (Hls1 eq_refl) as [Hl1 _]. specialize (Hls3 (or_intror eq_refl)). lia.
Qed.

Lemma mx_gstep : forall c s i t l s', GInv c s -> thr_at s i t -> step_commit c s i t l = Some s' -> MX s'.
Proof.
  intros c s i t l s' HI Ht H.
  gstart c s i t l H HI Ht.
  all: intros j tj Hj Hlk; thr_cases Hj Hne.
  all: try (simpl in Hlk; rewrite ?Hpc in Hlk;
            repeat match type of Hlk with context [if ?b then _ else _] => destruct b end;
            simpl in Hlk; discriminate Hlk).
  all: try (pose proof (g_mx c s HI j tj Hj Hlk) as Hmj); simpl; try congruence.
Qed.

(* a step of a thread outside the critical section that leaves the mutex, the head and the log length alone *)
Lemma ls_gframe : forall c s s0 i t x, GInv c s -> thr_at s i t -> locked_pc (t_pc t) = false ->
  thrs s0 = thrs s -> mutex s0 = mutex s -> length (qlog s0) = length (qlog s) -> qhead s0 = qhead s ->
  qtail s <= qtail s0 -> LS c (put_thr s0 i x).
Proof.
  intros c s s0 i t x HI Ht Hnl Hth Hmu Hlen Hhd Htl. pose proof (g_ls c s HI) as Hl.
  unfold LS in *. simpl. rewrite Hmu. destruct (mutex s) as [h|].
  - destruct Hl as [th [Hth1 [Hth2 [Hth3 [Hth4 Hth5]]]]].
    assert (h <> i). { intros ->. unfold thr_at in *. assert (th = t) by congruence. subst. congruence. }
    exists th. split; [eapply thr_at_put_neq; eauto|]. split; auto.
    rewrite Hlen, Hhd. repeat split; auto; try (apply Hth3; auto). intros Hx. specialize (Hth5 Hx). lia.
  - congruence.
Qed.

Lemma ls_gstep : forall c s i t l s', GInv c s -> thr_at s i t -> step_commit c s i t l = Some s' -> LS c s'.
Proof.
  intros c s i t l s' HI Ht H.
  pose proof (g_ls c s HI) as Hl.
  gstart c s i t l H HI Ht.
  all: try exact Hl.
  all: try (eapply ls_gframe; try exact HI; try exact Ht; try (rewrite Hpc; reflexivity); simpl;
            rewrite ?set_nth_length; auto; lia).
  all: unfold LS; simpl; try rewrite Hmx; try rewrite Hr5;
    try (exists_new_thr Ht; simpl;
         repeat match goal with |- context [if ?b then _ else _] => destruct b eqn:? end; boolp; simpl);
    try (assert (Hq1 : length (qlog s) = qhead s) by (apply Hls2; discriminate));
    try (destruct (Hls1 eq_refl) as [Hq2 Hq3]);
    try (assert (Hq4 : qhead s < qtail s + c_slots c) by (apply Hls3; auto));
    rewrite ?app_length, ?set_nth_length; simpl;
    repeat split; try discriminate; try (intros [Hx|Hx]; try discriminate Hx; lia);
    try (intros; lia); try lia; auto.
  - intros _. unfold LS in Hl. rewrite Hm in Hl. exact Hl.
  - intros Hx. exfalso. apply Hx. reflexivity.
Qed.

Lemma pm_gstep : forall c s i t l s', GInv c s -> thr_at s i t -> step_commit c s i t l = Some s' -> PM c s'.
Proof.
  intros c s i t l s' HI Ht H.
  pose proof (g_pm c s HI) as Hpm. unfold PM in *.
  gstart c s i t l H HI Ht.
  all: try exact Hpm.
  all: destruct Hti as [Htp _]; simpl in Htp.
  all: simpl; try rewrite Hr1;
    match goal with |- context [set_nth ?i0 ?x (thrs ?s0)] => pose proof (held_set_nth (thrs s0) i0 _ x Ht) as Hh end;
    simpl in Hh; rewrite ?Htp in Hh; try rewrite Hr7; rewrite ?Htp; try rewrite Hm in Hpm; lia.
Qed.
