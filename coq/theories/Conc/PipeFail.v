(* Conc/PipeFail.v — the failure branches of CommitPipeline::commit (src/commit.rs) as a labelled
   transition system over several committers (property C15, live part).  Definitions only.

   What the code does and the model keeps:
   * `let _permit = commit_sem.acquire().await` — PERMITS = MAX_CONCURRENT_COMMITS - 1 permits; the
     permit is released when commit() returns, on EVERY path (it is a local).
   * under write_mutex: oracle.check (Conflict: return, nothing allocated); seq := log_seq_num,
     log_seq_num += count; oracle.publish; enqueue into `pending` (SLOTS = MAX_CONCURRENT_COMMITS
     slots; `tail + SLOTS == head` -> panic "commit queue overflow"); env.write (WAL).
   * every CommitBatch carries `failure: Mutex<Option<Error>>`.
   * WAL failure (also BatchTooLarge): oracle.rollback; set_failure(e); mark_applied; drop the mutex;
     publish(); then `complete_rx.await` — commit() WAITS for its queue entry to be dequeued, holding
     its permit, exactly like a successful commit.
   * apply (outside the mutex): MemTable::add reserves the batch's exact arena footprint first and returns
     ArenaFull before inserting anything; the rotation / relog errors of LsmCommitEnv::apply happen before the
     retry's add: a failed apply leaves NO entry of the batch (ATOMIC = true).  The old add inserted entry by
     entry: an error after k entries left those k in the memtable (ATOMIC = false, regression record).  Apply failure: oracle.rollback;
     set_failure(CommitFail); then the common tail.
   * common tail (success and apply failure): mark_applied; publish(); await the completion.
   * publish(): dequeue applied entries from the tail while the oldest is applied; for each one
     visible := max(visible, seq + count - 1) — failed entries included — and
     complete(take_failure() -> Err(e) | Ok(())): the committer is woken with its own outcome only
     once its entry has left the queue.  Permits held == committers between acquire and return;
     every queue entry belongs to one of them.
   A reader that starts at horizon h sees a memtable entry iff its sequence number is <= h.
   The oracle is not part of this model (Conc/CommitSeq.v has it). *)
From Coq Require Import List NArith Arith Bool.
Import ListNotations.

Inductive phase :=
| PIdle | PPermit | PQueued            (* enqueued, not yet marked applied *)
| PWait (ok : bool)                    (* applied (ok = no failure recorded), waiting for its completion *)
| PDone (ok : bool).                   (* commit() returned Ok / Err *)

Record ent := { e_id : nat; e_seq : nat; e_cnt : nat; e_applied : bool }.

Record pst := {
  p_free : nat;                        (* free permits *)
  p_q : list ent;                      (* `pending`, oldest first *)
  p_ph : list (nat * phase);           (* committers that left PIdle *)
  p_next : nat;                        (* log_seq_num *)
  p_visible : nat;                     (* visible_seq_num *)
  p_mem : list (nat * nat);            (* memtable entries: (sequence number, committer) *)
  p_panic : bool;                      (* commit queue overflow *)
}.

Inductive label :=
| LAcquire (i : nat)
| LConflict (i : nat)
| LEnqueue (i cnt : nat)
| LWalFail (i : nat)
| LApplyOk (i : nat)
| LApplyFail (i k : nat)               (* apply fails after inserting k < count entries; k = 0 when ATOMIC *)
| LFinish (i : nat).

Section PipeFail.
Variable SLOTS : nat.
Variable PERMITS : nat.
(* MemTable::add is all-or-nothing (since e6ce312: tower heights drawn first, exact arena footprint reserved before the
   first insert, ArenaFull only BEFORE anything is inserted).  false = the old `add` (entry by entry, ArenaFull possible
   after k inserts), kept as the regression record of C15-N5 *)
Variable ATOMIC : bool.

Definition p0 : pst :=
  {| p_free := PERMITS; p_q := []; p_ph := []; p_next := 1; p_visible := 0; p_mem := []; p_panic := false |}.

Fixpoint ph_get (i : nat) (l : list (nat * phase)) : phase :=
  match l with [] => PIdle | (j, p) :: r => if Nat.eqb i j then p else ph_get i r end.
Fixpoint ph_set (i : nat) (p : phase) (l : list (nat * phase)) : list (nat * phase) :=
  match l with
  | [] => [(i, p)]
  | (j, q) :: r => if Nat.eqb i j then (i, p) :: r else (j, q) :: ph_set i p r
  end.

Fixpoint q_find (i : nat) (q : list ent) : option ent :=
  match q with [] => None | e :: r => if Nat.eqb (e_id e) i then Some e else q_find i r end.
Definition q_mark (i : nat) (q : list ent) : list ent :=
  map (fun e => if Nat.eqb (e_id e) i
                then {| e_id := e_id e; e_seq := e_seq e; e_cnt := e_cnt e; e_applied := true |} else e) q.

(* publish(): (remaining queue, new visible) *)
Fixpoint publish (q : list ent) (vis : nat) : list ent * nat :=
  match q with
  | e :: r => if e_applied e then publish r (Nat.max vis (e_seq e + e_cnt e - 1)) else (q, vis)
  | [] => ([], vis)
  end.

Fixpoint seq_entries (seq k i : nat) : list (nat * nat) :=
  match k with O => [] | S k' => (seq, i) :: seq_entries (S seq) k' i end.

Definition upd (s : pst) (free : nat) (q : list ent) (ph : list (nat * phase)) (next vis : nat) (mem : list (nat * nat)) : pst :=
  {| p_free := free; p_q := q; p_ph := ph; p_next := next; p_visible := vis; p_mem := mem; p_panic := p_panic s |}.

(* mark the entry of i applied, publish, go on waiting with phase ph (the permit is kept) *)
Definition applied_and_publish (s : pst) (i : nat) (mem : list (nat * nat)) (ph : phase) : pst :=
  let '(q', vis') := publish (q_mark i (p_q s)) (p_visible s) in
  upd s (p_free s) q' (ph_set i ph (p_ph s)) (p_next s) vis' mem.

Definition pstep (s : pst) (l : label) : option pst :=
  if p_panic s then None else
  match l with
  | LAcquire i =>
    match ph_get i (p_ph s), p_free s with
    | PIdle, S f => Some (upd s f (p_q s) (ph_set i PPermit (p_ph s)) (p_next s) (p_visible s) (p_mem s))
    | _, _ => None
    end
  | LConflict i =>
    match ph_get i (p_ph s) with
    | PPermit => Some (upd s (S (p_free s)) (p_q s) (ph_set i (PDone false) (p_ph s)) (p_next s) (p_visible s) (p_mem s))
    | _ => None
    end
  | LEnqueue i cnt =>
    match ph_get i (p_ph s), cnt with
    | PPermit, S _ =>
      if SLOTS <=? length (p_q s)
      then Some {| p_free := p_free s; p_q := p_q s; p_ph := p_ph s; p_next := p_next s + cnt;
                   p_visible := p_visible s; p_mem := p_mem s; p_panic := true |}
      else Some (upd s (p_free s) (p_q s ++ [{| e_id := i; e_seq := p_next s; e_cnt := cnt; e_applied := false |}])
                     (ph_set i PQueued (p_ph s)) (p_next s + cnt) (p_visible s) (p_mem s))
    | _, _ => None
    end
  | LWalFail i =>
    match ph_get i (p_ph s) with
    | PQueued => Some (applied_and_publish s i (p_mem s) (PWait false))
    | _ => None
    end
  | LApplyOk i =>
    match ph_get i (p_ph s), q_find i (p_q s) with
    | PQueued, Some e => Some (applied_and_publish s i (p_mem s ++ seq_entries (e_seq e) (e_cnt e) i) (PWait true))
    | _, _ => None
    end
  | LApplyFail i k =>
    match ph_get i (p_ph s), q_find i (p_q s) with
    | PQueued, Some e =>
      if (k <? e_cnt e) && (negb ATOMIC || Nat.eqb k 0)
      then Some (applied_and_publish s i (p_mem s ++ seq_entries (e_seq e) k i) (PWait false))
      else None
    | _, _ => None
    end
  | LFinish i =>
    match ph_get i (p_ph s), q_find i (p_q s) with
    | PWait ok, None => Some (upd s (S (p_free s)) (p_q s) (ph_set i (PDone ok) (p_ph s)) (p_next s) (p_visible s) (p_mem s))
    | _, _ => None
    end
  end.

Fixpoint prun (s : pst) (t : list label) : option pst :=
  match t with
  | [] => Some s
  | l :: r => match pstep s l with Some s1 => prun s1 r | None => None end
  end.

(* what a reader that starts now sees of committer i *)
Definition visible_of (s : pst) (i : nat) : list (nat * nat) :=
  filter (fun e => Nat.eqb (snd e) i && (fst e <=? p_visible s)) (p_mem s).
Definition entries_of (s : pst) (i : nat) : list (nat * nat) := filter (fun e => Nat.eqb (snd e) i) (p_mem s).

Definition failed (s : pst) (i : nat) : bool := match ph_get i (p_ph s) with PDone false => true | _ => false end.
Definition idle (s : pst) : bool := Nat.eqb (p_free s) PERMITS && (match p_q s with [] => true | _ => false end) && negb (p_panic s).

End PipeFail.

(* ---- known classes (executable, over the trace) ---- *)
(* apply fails after inserting part of the batch *)
Definition known_partial_apply (t : list label) : bool :=
  existsb (fun l => match l with LApplyFail _ (S _) => true | _ => false end) t.
