(* Conc/PipelineLiveCore.v — invariant of the commit pipeline along core runs (no rotation, no close,
   no failures, no empty batch) and deadlock freedom of the pipeline alone. *)
From Coq Require Import List Arith Bool Lia.
From SKV Require Import Conc.Pipeline Conc.PipelineExplore Conc.PipelineSpec.
Import ListNotations.

(* ------------------------------------------------------------------ general-purpose lemmas *)
Lemma set_nth_length : forall A (l : list A) i x, length (set_nth i x l) = length l.
Proof. induction l; intros [|i] x; simpl; auto. Qed.

Lemma nth_error_set_nth_eq : forall A (l : list A) i x, i < length l -> nth_error (set_nth i x l) i = Some x.
Proof. induction l; intros [|i] x H; simpl in *; try lia; auto. apply IHl. lia. Qed.

Lemma nth_error_set_nth_neq : forall A (l : list A) i j x, i <> j -> nth_error (set_nth i x l) j = nth_error l j.
Proof. induction l; intros [|i] [|j] x H; simpl; auto; try congruence. Qed.

Lemma nth_error_set_nth_inv : forall A (l : list A) i j x y,
  nth_error (set_nth i x l) j = Some y -> (j = i /\ y = x) \/ (j <> i /\ nth_error l j = Some y).
Proof.
  intros A l i j x y H. destruct (Nat.eq_dec j i) as [->|Hne].
  - left. split; auto. assert (i < length l).
    { assert (H0 : nth_error (set_nth i x l) i <> None) by congruence.
      apply nth_error_Some in H0. rewrite set_nth_length in H0. exact H0. }
    rewrite nth_error_set_nth_eq in H by assumption. congruence.
  - right. split; auto. rewrite nth_error_set_nth_neq in H by auto. exact H.
Qed.

Lemma nth_error_lt : forall A (l : list A) i x, nth_error l i = Some x -> i < length l.
Proof. intros. apply nth_error_Some. congruence. Qed.

Lemma existsb_set_nth : forall A (f g : A -> bool) l i t x,
  existsb f l = true -> nth_error l i = Some t ->
  (f t = true -> g x = true) -> (forall u, f u = true -> g u = true) ->
  existsb g (set_nth i x l) = true.
Proof.
  induction l; intros [|i] t x He Hn Hx Hu; simpl in *; try discriminate.
  - injection Hn as ->. apply orb_true_iff in He as [He|He].
    + rewrite Hx; auto.
    + apply orb_true_iff. right. rewrite existsb_exists in *. destruct He as [u [? ?]]. exists u; auto.
  - apply orb_true_iff in He as [He|He].
    + rewrite Hu; auto.
    + apply orb_true_iff. right. eapply IHl; eauto.
Qed.

Lemma existsb_set_nth_new : forall A (g : A -> bool) l i x, i < length l -> g x = true -> existsb g (set_nth i x l) = true.
Proof.
  induction l; intros [|i] x Hl Hg; simpl in *; try lia.
  - rewrite Hg. reflexivity.
  - apply orb_true_iff. right. apply IHl; auto. lia.
Qed.

Lemma existsb_mono : forall A (f g : A -> bool) l, (forall u, f u = true -> g u = true) -> existsb f l = true -> existsb g l = true.
Proof.
  intros A f g l H He. rewrite existsb_exists in *. destruct He as [u [? ?]]. exists u; auto.
Qed.

Lemma existsb_nth : forall A (f : A -> bool) l, existsb f l = true -> exists i t, nth_error l i = Some t /\ f t = true.
Proof.
  intros A f l H. rewrite existsb_exists in H. destruct H as [u [Hin Hf]].
  apply In_nth_error in Hin. destruct Hin as [i Hi]. exists i, u. auto.
Qed.

Lemma nth_existsb : forall A (f : A -> bool) l i t, nth_error l i = Some t -> f t = true -> existsb f l = true.
Proof. intros. rewrite existsb_exists. exists t. split; auto. eapply nth_error_In; eauto. Qed.

Lemma mod_eq_gap : forall n a b, 0 < n -> a < b -> a mod n = b mod n -> n <= b - a.
Proof.
  intros n a b Hn Hab Hm.
  pose proof (Nat.div_mod a n ltac:(lia)) as Ha. pose proof (Nat.div_mod b n ltac:(lia)) as Hb.
  rewrite Hm in Ha.
  assert (a / n < b / n).
  { destruct (Nat.lt_ge_cases (a / n) (b / n)); auto.
    assert (n * (b / n) <= n * (a / n)) by (apply Nat.mul_le_mono_l; auto). lia. }
  assert (n * (a / n) + n <= n * (b / n)).
  { replace (n * (a / n) + n) with (n * S (a / n)) by lia. apply Nat.mul_le_mono_l. lia. }
  lia.
Qed.

Lemma nth_error_app_last : forall A (l : list A) x, nth_error (l ++ [x]) (length l) = Some x.
Proof. intros. rewrite nth_error_app2 by lia. rewrite Nat.sub_diag. reflexivity. Qed.

Ltac show_all :=
  match goal with |- ?g =>
    idtac "=== GOAL"; try (match goal with H : ?T |- _ => idtac H ":" T; fail end); idtac "|-" g
  end.

(* ------------------------------------------------------------------ the invariant *)
Definition thr_at (s : plstate) (i : nat) (t : thr) : Prop := nth_error (thrs s) i = Some t.

Definition locked_pc (p : ppc) : bool :=
  match p with
  | CLocked | CChecked | CAlloc | COrPub | CEnqLoaded | CEnqFullSeen | CEnqPanic | CEnqStored | CEnqDone | CEnqueued
  | CWalFailed | CFailDoneLocked | CMarkedLocked => true
  | _ => false
  end.

Definition permit_pc (p : ppc) : bool :=
  match p with
  | CIdle | CEntered | CStallReg _ | CStallCounted _ _ | CStallBlocked _ | CStallOk | CReturned _ => false
  | _ => true
  end.

Definition premark (p : ppc) : bool :=
  match p with CEnqStored | CEnqDone | CEnqueued | CApplying _ | CApplied => true | _ => false end.
Definition postmark (p : ppc) : bool :=
  match p with
  | CPubTop | CPubHold _ | CDeqLoaded _ _ | CDeqSlot _ _ _ | CDeqChecked _ _ _ | CDeqNone | CDeqWon _ _ | CDeqOwned _
  | CVisTop _ | CVisLoaded _ _ | CVisDone _ | CPubExit | CWaitDone => true
  | _ => false
  end.

Definition my_lt (t : thr) (n : nat) : Prop := match t_my t with Some p => p < n | None => False end.

Definition my_is (p : nat) (t : thr) : bool := match t_my t with Some q => Nat.eqb q p | None => false end.
Definition owns (p : nat) (ap : bool) (t : thr) : bool :=
  my_is p t && (premark (t_pc t) || (postmark (t_pc t) && ap)).
Definition holds (p : nat) (t : thr) : bool :=
  match t_pc t with
  | CDeqWon _ q | CDeqOwned q | CVisTop q | CVisLoaded q _ | CVisDone q => Nat.eqb q p
  | _ => false
  end.
Definition won (q : nat) (t : thr) : bool :=
  match t_pc t with CDeqWon t0 _ => Nat.eqb t0 q | _ => false end.
Definition helper (tl : nat) (t : thr) : bool :=
  match t_pc t with
  | CPubTop | CPubHold _ | CDeqWon _ _ | CDeqOwned _ | CVisTop _ | CVisLoaded _ _ | CVisDone _ => true
  | CDeqLoaded _ t0 | CDeqSlot _ t0 _ | CDeqChecked _ t0 _ => Nat.eqb t0 tl
  | _ => false
  end.
Fixpoint held (l : list thr) : nat :=
  match l with [] => 0 | t :: r => (if t_permit t then 1 else 0) + held r end.

Definition bg_core (g : bgstate) : Prop :=
  g_imm g = 0 /\ g_l0 g = 0 /\ g_pipe_sd g = false /\ g_stall_sd g = false /\ g_bgerr g = false /\ g_stop g = false /\
  g_xpc g = XIdle /\ g_fpermit g = false /\ (g_fpc g = FInit \/ g_fpc g = FWait) /\
  (g_lpc g = LInit \/ g_lpc g = LWait \/ g_lpc g = LWoken \/ g_lpc g = LRunning).

(* thread-local facts; everything here is stable under growth of qtail, qhead and the log *)
Definition tinv (s : plstate) (t : thr) : Prop :=
  t_err t = false /\ t_permit t = permit_pc (t_pc t) /\ (active t = true -> 0 < t_cnt t) /\
  match t_pc t with
  | CStallCounted _ true | CStallBlocked _ | CWalFailed | CFailDoneLocked | CMarkedLocked
  | CArenaFull | CRotated | CWokeMem | CApplyFailed | CFailDone | CRetErr => False
  | CEnqStored => my_lt t (length (qlog s))
  | CEnqDone | CEnqueued | CApplied | CPubTop | CDeqNone | CPubExit | CWaitDone => my_lt t (qhead s)
  | CApplying _ => my_lt t (qhead s) /\ t_i t <= t_cnt t
  | CPubHold q => my_lt t (qhead s) /\ q < qtail s
  | CDeqLoaded h t0 => my_lt t (qhead s) /\ t0 < h /\ h <= qhead s /\ t0 <= qtail s
  | CDeqSlot h t0 p | CDeqChecked h t0 p =>
      my_lt t (qhead s) /\ t0 < h /\ h <= qhead s /\ t0 <= qtail s /\ p < length (qlog s) /\ (t0 = qtail s -> p = t0)
  | CDeqWon t0 p => my_lt t (qhead s) /\ t0 = p /\ p < qtail s
  | CDeqOwned p | CVisTop p | CVisLoaded p _ | CVisDone p => my_lt t (qhead s) /\ p < qtail s
  | _ => True
  end.

Definition gle (s s' : plstate) : Prop :=
  qtail s <= qtail s' /\ qhead s <= qhead s' /\ length (qlog s) <= length (qlog s').

Lemma my_lt_mono : forall t n m, my_lt t n -> n <= m -> my_lt t m.
Proof. unfold my_lt. intros t n m H Hle. destruct (t_my t); auto. lia. Qed.

Lemma tinv_stable : forall s s' t, gle s s' -> tinv s t -> tinv s' t.
Proof.
  intros s s' t [H1 [H2 H3]] [Ha [Hb [Hc Hd]]]. unfold tinv. repeat split; auto.
  destruct (t_pc t); auto;
    repeat match goal with
           | H : _ /\ _ |- _ => destruct H
           | b : bool |- _ => destruct b
           end; repeat split; eauto using my_lt_mono; try lia.
Qed.

Record Inv (c : cfg) (s : plstate) : Prop := {
  i_cfg : 2 <= c_memlimit c /\ 0 < c_l0limit c;
  i_bg : bg_core (bg s);
  i_slots : length (slotv s) = c_slots c /\ 0 < c_slots c;
  i_ht : qtail s <= qhead s /\ qhead s <= qtail s + c_slots c /\ qhead s <= length (qlog s) /\ length (qlog s) <= S (qhead s);
  i_thr : forall j tj, thr_at s j tj -> tinv s tj;
  (* the mutex and what its holder is doing to the queue *)
  i_mx : forall j tj, thr_at s j tj -> locked_pc (t_pc tj) = true -> mutex s = Some j;
  i_ls : match mutex s with
         | None => length (qlog s) = qhead s
         | Some i => exists t, thr_at s i t /\ locked_pc (t_pc t) = true /\
                     (t_pc t = CEnqStored -> length (qlog s) = S (qhead s) /\ t_my t = Some (qhead s)) /\
                     (t_pc t <> CEnqStored -> length (qlog s) = qhead s) /\
                     (t_pc t = CEnqLoaded \/ t_pc t = CEnqStored -> qhead s < qtail s + c_slots c)
         end;
  i_pm : avail s + held (thrs s) = c_permits c;
  (* the ring *)
  i_r1 : forall k q, nth_error (slotv s) k = Some (Some q) ->
           k = q mod c_slots c /\ ((qtail s <= q /\ q < length (qlog s)) \/ existsb (won q) (thrs s) = true);
  i_r2 : forall p, qtail s <= p -> p < length (qlog s) -> nth_error (slotv s) (p mod c_slots c) = Some (Some p);
  i_r3 : forall j tj t0 p, thr_at s j tj -> t_pc tj = CDeqWon t0 p -> nth_error (slotv s) (t0 mod c_slots c) = Some (Some t0);
  i_r4 : forall j1 j2 t1 t2 t0 p1 p2, thr_at s j1 t1 -> thr_at s j2 t2 ->
           t_pc t1 = CDeqWon t0 p1 -> t_pc t2 = CDeqWon t0 p2 -> j1 = j2;
  (* batches *)
  i_qf : forall b, nth_error (qlog s) (qhead s) = Some b -> b_applied b = false;
  i_qref : forall p b, qtail s <= p -> nth_error (qlog s) p = Some b -> b_qref b = true;
  i_res : forall p b, nth_error (qlog s) p = Some b -> b_res b = None \/ (b_res b = Some true /\ p < qtail s);
  i_own : forall p b, qtail s <= p -> nth_error (qlog s) p = Some b -> existsb (owns p (b_applied b)) (thrs s) = true;
  i_deq : forall p b, p < qtail s -> nth_error (qlog s) p = Some b ->
            b_res b = Some true \/ existsb (holds p) (thrs s) = true;
  i_help : forall b, qtail s < qhead s -> nth_error (qlog s) (qtail s) = Some b -> b_applied b = true ->
             existsb (helper (qtail s)) (thrs s) = true;
}.

(* the labels of the runs considered here *)
Definition ok_label (l : label) : Prop :=
  core_label l = true /\ failure_label l = false /\ (forall n, l = LEnter n -> 0 < n).


(* ------------------------------------------------------------------ step inversion *)
Ltac inv_guard H :=
  repeat match type of H with
  | guard ?b _ = Some _ => let Hg := fresh "Hg" in destruct b eqn:Hg; [ unfold guard in H | discriminate H ]
  | match ?x with _ => _ end = Some _ => let Hm := fresh "Hm" in destruct x eqn:Hm; try discriminate H
  | (if ?x then _ else _) = Some _ => let Hm := fresh "Hm" in destruct x eqn:Hm; try discriminate H
  end.


Lemma thr_at_put : forall s0 i x j tj, thr_at (put_thr s0 i x) j tj ->
  (j = i /\ tj = x) \/ (j <> i /\ thr_at s0 j tj).
Proof. unfold thr_at, put_thr. simpl. intros. apply nth_error_set_nth_inv in H. exact H. Qed.

Lemma stalled_00 : forall c, 2 <= c_memlimit c -> 0 < c_l0limit c -> stalled c 0 0 = false.
Proof.
  intros c Hmem Hl0. unfold stalled. destruct (c_memlimit c) eqn:E1; [lia|]. destruct (c_l0limit c) eqn:E2; [lia|]. reflexivity.
Qed.

Ltac boolp := repeat match goal with
  | H : _ && _ = true |- _ => apply andb_true_iff in H; destruct H
  | H : (_ =? _) = true |- _ => apply Nat.eqb_eq in H
  | H : (_ =? _) = false |- _ => apply Nat.eqb_neq in H
  | H : (_ <? _) = true |- _ => apply Nat.ltb_lt in H
  | H : (_ <? _) = false |- _ => apply Nat.ltb_ge in H
  | H : (_ <=? _) = true |- _ => apply Nat.leb_le in H
  | H : (_ <=? _) = false |- _ => apply Nat.leb_gt in H
  | H : negb _ = true |- _ => apply negb_true_iff in H
  | H : negb _ = false |- _ => apply negb_false_iff in H
  | H : _ || _ = false |- _ => apply orb_false_iff in H; destruct H
  | H : Bool.eqb _ _ = true |- _ => apply Bool.eqb_prop in H
  end.

Lemma do_return_shape : forall s i t r, exists s2,
  do_return s i t r = put_thr s2 i (with_permit (with_pc t (CReturned r)) false) /\
  thrs s2 = thrs s /\ qhead s2 = qhead s /\ qtail s2 = qtail s /\ slotv s2 = slotv s /\ mutex s2 = mutex s /\
  bg s2 = bg s /\ avail s2 = (if t_permit t then S (avail s) else avail s) /\
  (qlog s2 = qlog s \/
   exists p b, t_my t = Some p /\ nth_error (qlog s) p = Some b /\ qlog s2 = set_nth p (drop_oref b) (qlog s)).
Proof.
  intros s i t r. unfold do_return, my_batch, get_b.
  destruct (t_permit t); simpl; destruct (t_my t) as [p|]; simpl;
    try (destruct (nth_error (qlog s) p) as [b|] eqn:Hb); simpl;
    eexists; (split; [reflexivity|]); simpl; repeat split; auto;
    try (right; exists p, b; auto).
Qed.

Lemma nth_error_drop_oref : forall l p b q b', nth_error l p = Some b ->
  nth_error (set_nth p (drop_oref b) l) q = Some b' ->
  exists b0, nth_error l q = Some b0 /\ b_applied b' = b_applied b0 /\ b_res b' = b_res b0 /\ b_qref b' = b_qref b0.
Proof.
  intros l p b q b' Hp Hq. apply nth_error_set_nth_inv in Hq as [[-> ->]|[Hne Hq]].
  - exists b. auto.
  - exists b'. auto.
Qed.

(* case analysis of a committer step; the pcs excluded by the invariant and the labels excluded by
   ok_label are discharged; the three returns are left folded (do_return) *)
Ltac step_cases l t H Hti Hok Hbg :=
  unfold step_commit in H;
  destruct l; destruct (t_pc t) eqn:Hpc; try discriminate H;
  try (exfalso; decompose [and] Hti; contradiction);
  try (exfalso; destruct Hok as [Hok1 [Hok2 Hok3]]; simpl in Hok1, Hok2; discriminate);
  inv_guard H;
  try (exfalso; decompose [and] Hti; contradiction);
  try (exfalso; destruct Hok as [Hok1 [Hok2 Hok3]]; simpl in Hok1, Hok2; discriminate);
  try (exfalso; destruct Hbg as [Hb1 [Hb2 [Hb3 [Hb4 [Hb5 Hb6]]]]];
       match goal with Hg : _ = true |- _ => rewrite ?Hb3, ?Hb4, ?Hb5 in Hg; discriminate Hg end);
  try (injection H as <-); boolp; subst.

Ltac ret_shape :=
  try match goal with |- context [do_return ?s0 ?i0 ?t0 ?r] =>
    destruct (do_return_shape s0 i0 t0 r) as [s2 [Hs2 [Hr1 [Hr2 [Hr3 [Hr4 [Hr5 [Hr6 [Hr7 Hr8]]]]]]]]];
    rewrite Hs2; clear Hs2; simpl in Hr1, Hr2, Hr3, Hr4, Hr5, Hr6, Hr7, Hr8;
    assert (Hrl : length (qlog s2) = length (qlog s0))
      by (destruct Hr8 as [Hr8|[? [? [_ [_ Hr8]]]]]; rewrite Hr8; rewrite ?set_nth_length; reflexivity);
    simpl in Hrl
  end.

Lemma ls_facts : forall c s i t, Inv c s -> thr_at s i t -> locked_pc (t_pc t) = true ->
  mutex s = Some i /\
  (t_pc t = CEnqStored -> length (qlog s) = S (qhead s) /\ t_my t = Some (qhead s)) /\
  (t_pc t <> CEnqStored -> length (qlog s) = qhead s) /\
  (t_pc t = CEnqLoaded \/ t_pc t = CEnqStored -> qhead s < qtail s + c_slots c).
Proof.
  intros c s i t HI Ht Hl. pose proof (i_mx c s HI i t Ht Hl) as Hm. pose proof (i_ls c s HI) as Hls.
  rewrite Hm in Hls. destruct Hls as [t' [Ht' [_ Hr]]]. unfold thr_at in *.
  assert (t' = t) by congruence. subst t'. auto.
Qed.

Ltac step_start c s i t l H HI Ht Hok :=
  pose proof (i_thr c s HI i t Ht) as Hti; unfold tinv in Hti;
  pose proof (i_bg c s HI) as Hbg;
  pose proof (i_ht c s HI) as [Hht1 [Hht2 [Hht3 Hht4]]];
  pose proof (ls_facts _ s i t HI Ht) as Hls;
  step_cases l t H Hti Hok Hbg; ret_shape;
  try (specialize (Hls eq_refl); destruct Hls as [Hmx [Hls1 [Hls2 Hls3]]]).

Lemma T_step : forall c s i t l s', Inv c s -> thr_at s i t -> ok_label l -> step_commit c s i t l = Some s' ->
  forall j tj, thr_at s' j tj -> tinv s' tj.
Proof.
  intros c s i t l s' HI Ht Hok H.
  step_start c s i t l H HI Ht Hok.
  all: intros j tj Hj; try (apply thr_at_put in Hj as [[-> ->]|[Hne Hj]]);
    try exact (i_thr c s HI j tj Hj);
    try (eapply tinv_stable; [| exact (i_thr c s HI j tj Hj)]; unfold gle; simpl;
         rewrite ?app_length, ?set_nth_length; simpl; lia);
    try (unfold thr_at in Hj; rewrite Hr1 in Hj; eapply tinv_stable; [| exact (i_thr c s HI j tj Hj)];
         unfold gle; simpl; lia).
  all: destruct Hti as [Hte [Htp [Hta Htq]]]; unfold active in Hta; rewrite Hpc in Hta;
    try specialize (Hta eq_refl); try (decompose [and] Htq).
  all: unfold tinv, active, my_lt in *; simpl in *; rewrite ?Hpc;
    repeat match goal with |- context [if ?b then _ else _] => destruct b eqn:? end; boolp;
    simpl; repeat split; auto; try lia; try (intros _; lia);
    try (destruct (t_my t); [lia|contradiction]).
  - (* LEnter *) intros _. destruct Hok as [_ [_ Hok3]]. apply (Hok3 cnt eq_refl).
  - (* LStallCounted: never stalled *)
    destruct Hbg as [Hb1 [Hb2 _]]. destruct (i_cfg c s HI) as [Hc1 Hc2]. rewrite Hb1, Hb2, (stalled_00 c Hc1 Hc2) in Heqb. discriminate.
  - (* LEnqStored *) rewrite app_length. simpl. lia.
  - (* LDeqSlot: the batch read from the slot exists *)
    unfold get_slot, slot_ix in Hm. destruct (i_r1 c s HI _ _ Hm) as [_ [[_ Hq]|Hw]]; auto.
    apply existsb_nth in Hw as [jw [tw [Hw1 Hw2]]]. unfold won in Hw2.
    pose proof (i_thr c s HI jw tw Hw1) as [_ [_ [_ Hw3]]].
    destruct (t_pc tw); try discriminate. apply Nat.eqb_eq in Hw2. subst. lia.
  - (* LDeqSlot: the tail position's slot holds the tail batch *)
    intros ->. unfold get_slot, slot_ix in Hm.
    rewrite (i_r2 c s HI (qtail s)) in Hm by lia. congruence.
Qed.

Lemma bg_step : forall c s i t l s', Inv c s -> thr_at s i t -> ok_label l -> step_commit c s i t l = Some s' ->
  bg_core (bg s').
Proof.
  intros c s i t l s' HI Ht Hok H.
  step_start c s i t l H HI Ht Hok.
  all: simpl; try rewrite Hr6; try exact Hbg.
Qed.

Lemma slots_step : forall c s i t l s', Inv c s -> thr_at s i t -> ok_label l -> step_commit c s i t l = Some s' ->
  length (slotv s') = c_slots c /\ 0 < c_slots c.
Proof.
  intros c s i t l s' HI Ht Hok H.
  pose proof (i_slots c s HI) as Hsl.
  step_start c s i t l H HI Ht Hok.
  all: simpl; try rewrite Hr4; rewrite ?set_nth_length; try exact Hsl.
Qed.

Lemma ht_step : forall c s i t l s', Inv c s -> thr_at s i t -> ok_label l -> step_commit c s i t l = Some s' ->
  qtail s' <= qhead s' /\ qhead s' <= qtail s' + c_slots c /\ qhead s' <= length (qlog s') /\ length (qlog s') <= S (qhead s').
Proof.
  intros c s i t l s' HI Ht Hok H.
  step_start c s i t l H HI Ht Hok.
  all: simpl; rewrite ?app_length, ?set_nth_length; simpl; try lia.
  - specialize (Hls2 ltac:(discriminate)). specialize (Hls3 (or_introl eq_refl)). lia.
  - destruct (Hls1 eq_refl) as [Hl1 _]. specialize (Hls3 (or_intror eq_refl)). lia.
Qed.

(* who is thread j of the successor state *)
Ltac thr_cases Hj Hne :=
  try (apply thr_at_put in Hj as [[-> ->]|[Hne Hj]]);
  try match goal with Hr1 : thrs ?s2 = _ |- _ => unfold thr_at in Hj; rewrite Hr1 in Hj; fold (thr_at) in Hj end.

Lemma mx_step : forall c s i t l s', Inv c s -> thr_at s i t -> ok_label l -> step_commit c s i t l = Some s' ->
  forall j tj, thr_at s' j tj -> locked_pc (t_pc tj) = true -> mutex s' = Some j.
Proof.
  intros c s i t l s' HI Ht Hok H.
  step_start c s i t l H HI Ht Hok.
  all: intros j tj Hj Hlk; thr_cases Hj Hne.
  all: try (simpl in Hlk; rewrite ?Hpc in Hlk;
            repeat match type of Hlk with context [if ?b then _ else _] => destruct b end;
            simpl in Hlk; discriminate Hlk).
  all: try (pose proof (i_mx c s HI j tj Hj Hlk) as Hmj); simpl; try congruence.
Qed.

Definition LS (c : cfg) (s : plstate) : Prop :=
  match mutex s with
  | None => length (qlog s) = qhead s
  | Some i => exists t, thr_at s i t /\ locked_pc (t_pc t) = true /\
              (t_pc t = CEnqStored -> length (qlog s) = S (qhead s) /\ t_my t = Some (qhead s)) /\
              (t_pc t <> CEnqStored -> length (qlog s) = qhead s) /\
              (t_pc t = CEnqLoaded \/ t_pc t = CEnqStored -> qhead s < qtail s + c_slots c)
  end.

Lemma thr_at_put_eq : forall s s0 i t x, thr_at s i t -> thrs s0 = thrs s -> thr_at (put_thr s0 i x) i x.
Proof.
  intros. unfold thr_at, put_thr. simpl. rewrite H0. apply nth_error_set_nth_eq. eapply nth_error_lt; eauto.
Qed.

Lemma thr_at_put_neq : forall s s0 i j tj x, thr_at s j tj -> thrs s0 = thrs s -> j <> i -> thr_at (put_thr s0 i x) j tj.
Proof.
  intros. unfold thr_at, put_thr. simpl. rewrite H0. rewrite nth_error_set_nth_neq; auto.
Qed.

(* a step of a thread outside the critical section that leaves the mutex, the head and the log length alone *)
Lemma ls_frame : forall c s s0 i t x, Inv c s -> thr_at s i t -> locked_pc (t_pc t) = false ->
  thrs s0 = thrs s -> mutex s0 = mutex s -> length (qlog s0) = length (qlog s) -> qhead s0 = qhead s ->
  qtail s <= qtail s0 -> LS c (put_thr s0 i x).
Proof.
  intros c s s0 i t x HI Ht Hnl Hth Hmu Hlen Hhd Htl. pose proof (i_ls c s HI) as Hl.
  unfold LS. simpl. rewrite Hmu. destruct (mutex s) as [h|].
  - destruct Hl as [th [Hth1 [Hth2 [Hth3 [Hth4 Hth5]]]]].
    assert (h <> i). { intros ->. unfold thr_at in *. assert (th = t) by congruence. subst. congruence. }
    exists th. split; [eapply thr_at_put_neq; eauto|]. split; auto.
    rewrite Hlen, Hhd. repeat split; auto; try (apply Hth3; auto). intros Hx. specialize (Hth5 Hx). lia.
  - congruence.
Qed.

Ltac exists_new_thr Ht :=
  eexists; split; [ eapply thr_at_put_eq; [ exact Ht | reflexivity ] | ].

Lemma ls_step : forall c s i t l s', Inv c s -> thr_at s i t -> ok_label l -> step_commit c s i t l = Some s' -> LS c s'.
Proof.
  intros c s i t l s' HI Ht Hok H.
  pose proof (i_ls c s HI) as Hl.
  step_start c s i t l H HI Ht Hok.
  all: try exact Hl.
  all: try (eapply ls_frame; try exact HI; try exact Ht; try (rewrite Hpc; reflexivity); simpl;
            rewrite ?set_nth_length; auto; lia).
  all: unfold LS; simpl; try rewrite Hmx; try rewrite Hr5;
    try (exists_new_thr Ht; simpl;
         repeat match goal with |- context [if ?b then _ else _] => destruct b eqn:? end; boolp; simpl);
    try (assert (Hq1 : length (qlog s) = qhead s) by (apply Hls2; discriminate));
    try (destruct (Hls1 eq_refl) as [Hq2 Hq3]);
    try (assert (Hq4 : qhead s < qtail s + c_slots c) by (apply Hls3; auto));
    rewrite ?app_length, ?set_nth_length; simpl;
    repeat split; try discriminate; try (intros [Hx|Hx]; try discriminate Hx; lia);
    try (intros; lia); try lia; auto.
  intros Hx. exfalso. apply Hx. reflexivity.
Qed.
