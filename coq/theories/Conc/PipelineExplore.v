(* Conc/PipelineExplore.v — executable helpers over the pipeline LTS: the candidate labels of a
   plstate (every label that `pstep` could accept, with the arguments computed from the plstate), the
   enabled labels, boolean checkers of the invariants, and a bounded exhaustive exploration used as
   a TEST of the statements of PipelineSpec (never as their proof).  Definitions only. *)
From Coq Require Import List Arith Bool.
From SKV Require Import Conc.Pipeline.
Import ListNotations.

(* what the environment may do in an exploration: pbatch size of each committer, whether env.write /
   env.apply may fail, whether ArenaFull may happen, the L0 counts a compaction may leave *)
Record ecfg := { e_cnts : list nat; e_walfail : bool; e_applyfail : bool; e_rotate : bool; e_l0s : list nat;
                 e_close : bool; e_conflict : bool; e_bgfail : bool }.

Definition cands_commit (e : ecfg) (s : plstate) (i : nat) (t : thr) : list label :=
  let bl := match t_pc t with
            | CDeqOwned p | CVisTop p | CVisLoaded p _ => match get_b s p with Some b => [b] | None => [] end
            | _ => []
            end in
  [LTxnLoaded (visible s); LEnter (nth i (e_cnts e) 1);
   LStallRegistered; LStallCounted (g_imm (bg s)) (g_l0 (bg s)); LStallWait; LStallOk; LSemAcquired; LWantLock; LLocked; LChecked;
   LSeqAllocated (next_seq s) (t_cnt t); LOraclePublished; LEnqLoaded (qhead s) (qtail s); LEnqFull; LEnqStored; LEnqDone; LEnqueued;
   LUnlocked; LMemInsert (t_seq t + t_i t); LAfterApply false; LFailCompleted; LMarked;
   LDeqLoaded (qhead s) (qtail s); LDeqCasOk; LDeqCasFail; LDeqCleared; LVisSkip; LVisCasOk; LVisCasFail;
   LPubCompleted; LPubExit; LPublished; LRet ResOk; LRet ResPanic; LApplyWoke; LWakeMem; LRotated]
  ++ (if e_walfail e then [LWalFailed] else [])
  ++ (if e_applyfail e then [LAfterApply true] else [])
  ++ (if e_rotate e then [LArenaFull] else [])
  ++ match t_pc t with
     | CLocked => if e_conflict e then [LRet ResErr] else []
     | _ => [LRet ResErr]
     end
  ++ match t_pc t with
     | CDeqLoaded _ t0 => [LDeqSlot t0 true; LDeqSlot t0 false]
     | CDeqSlot _ t0 _ => [LDeqChecked t0 true; LDeqChecked t0 false]
     | _ => []
     end
  ++ flat_map (fun b => [LPubDeq (b_last b) (b_cnt b); LVisLoaded (b_last b) (visible s)]) bl.

Definition cands (e : ecfg) (s : plstate) (a : actor) : list label :=
  match a with
  | ACommit i => match get_thr s i with Some t => cands_commit e s i t | None => [] end
  | AReader i => [LTxnLoaded (visible s)]
                 ++ match nth_error (rdrs s) i with Some (RLoaded h) => [LTxnRegistered h] | _ => [] end
  | AFlush => [LMemWait; LMemWoken; LMemRunning; LMemFlushed; LMemNoPending; LMemNotifiedLevel; LMemIdle; LMemRecheck; LMemExit;
               LSignal false; LSignal true] ++ (if e_bgfail e then [LMemError] else [])
  | ALevel => [LLevelWait; LLevelWoken; LLevelRunning; LLevelIdle; LLevelExit; LSignal false; LSignal true]
              ++ map LLevelDone (e_l0s e) ++ (if e_bgfail e then [LLevelError] else [])
  | ACloser => (if e_close e then [LCloseStart] else [])
               ++ [LClosePipeDown; LSignal true; LStopFlag; LStopNotified; LStopJoin; LCloseTasksStopped;
                   LCloseSynced; LCloseEnd; LRet ResOk]
  | AMain => []
  end.

Definition actors (s : plstate) : list actor :=
  map ACommit (seq 0 (length (thrs s))) ++ map AReader (seq 0 (length (rdrs s))) ++ [AFlush; ALevel; ACloser].

(* all (actor, label, successor) triples of a plstate *)
Definition succs (c : cfg) (e : ecfg) (s : plstate) : list (actor * label * plstate) :=
  flat_map (fun a => flat_map (fun l => match pstep c s a l with Some s' => [(a, l, s')] | None => [] end) (cands e s a))
           (actors s).
(* the successors by steps of the system itself (not environment, not a busy-wait iteration) *)
Definition progress_succs (c : cfg) (e : ecfg) (s : plstate) : list (actor * label * plstate) :=
  filter (fun x => match x with (a, l, _) => negb (env_label a l) && negb (stutter l) end) (succs c e s).

(* ---------------------------------------------------------------- boolean invariant checkers *)
Definition forallb_i {A} (f : nat -> A -> bool) (l : list A) : bool :=
  forallb (fun x => f (fst x) (snd x)) (combine (seq 0 (length l)) l).

(* I2 + I3 + sortedness + T1 for every registered horizon; v0 = initial horizon *)
Definition boundary_ok (v0 : nat) (s : plstate) : bool :=
  Nat.eqb (visible s) v0
  || existsb (fun b => Nat.eqb (visible s) (b_last b)) (firstn (qtail s) (qlog s)).
Definition not_inside (s : plstate) (h : nat) : bool :=
  forallb (fun b => negb (Nat.leb (b_seq b) h && Nat.ltb h (b_last b))) (qlog s).
Definition applied_below (s : plstate) : bool :=
  forallb (fun b => negb (Nat.leb (b_last b) (visible s))
                    || (b_applied b && (b_fail b || Nat.eqb (b_ins b) (b_cnt b)))) (qlog s).
Fixpoint sorted_log (prev : nat) (l : list pbatch) : bool :=
  match l with
  | [] => true
  | b :: r => Nat.ltb prev (b_seq b) && Nat.ltb 0 (b_cnt b) && sorted_log (b_last b) r
  end.
Definition horizons (s : plstate) : list nat :=
  flat_map (fun r => match r with RLoaded h | RReg h => [h] | RIdle => [] end) (rdrs s).
Definition all_or_nothing (s : plstate) : bool :=
  forallb (fun h => forallb (fun b => b_fail b
                                      || match classify b h with
                                         | OFull => Nat.leb (b_last b) h
                                         | ONone => Nat.ltb h (b_seq b)
                                         | OPartial => false
                                         end) (qlog s)) (horizons s).
Definition returned_visible (s : plstate) : bool :=
  forallb (fun t => match t_pc t with
                    | CReturned ResOk => match my_batch s t with
                                       | Some (_, b) => Nat.leb (b_last b) (visible s) && negb (b_fail b)
                                       | None => false
                                       end
                    | _ => true
                    end) (thrs s).
Definition horizons_below (s : plstate) : bool := forallb (fun h => Nat.leb h (visible s)) (horizons s).

Definition safe_ok (v0 : nat) (s : plstate) : bool :=
  boundary_ok v0 s && not_inside s (visible s) && applied_below s && sorted_log v0 (qlog s)
  && all_or_nothing s && returned_visible s && horizons_below s && Nat.leb (qtail s) (qhead s).

(* N1 and the ghost flags *)
Definition in_flight (s : plstate) : nat := qhead s - qtail s.
Definition panicking (s : plstate) : bool :=
  existsb (fun t => match t_pc t with CEnqFullSeen | CEnqPanic | CReturned ResPanic => true | _ => false end) (thrs s).
Definition no_overflow_ok (c : cfg) (s : plstate) : bool := Nat.leb (in_flight s) (c_permits c) && negb (panicking s).

Definition active (t : thr) : bool := match t_pc t with CIdle | CReturned _ => false | _ => true end.
Definition closing (s : plstate) : bool := match g_xpc (bg s) with XIdle | XReturned => false | _ => true end.
(* L1 at one plstate *)
Definition deadlocked (c : cfg) (e : ecfg) (s : plstate) : bool :=
  (existsb active (thrs s) || closing s) && match progress_succs c e s with [] => true | _ => false end.

(* ---------------------------------------------------------------- bounded exploration (fuel = depth)
   depth-first over all enabled labels without a visited set: only for tiny instances under vm_compute;
   the driver explores larger ones with a hash table. Returns the first plstate failing `ok`. *)
Fixpoint explore (c : cfg) (e : ecfg) (ok : plstate -> bool) (fuel : nat) (s : plstate) (path : list (actor * label))
  : option (list (actor * label)) :=
  if negb (ok s) then Some (rev path) else
  match fuel with
  | O => None
  | S k =>
      (fix go (l : list (actor * label * plstate)) : option (list (actor * label)) :=
         match l with
         | [] => None
         | (a, lb, s') :: r =>
             match explore c e ok k s' ((a, lb) :: path) with
             | Some w => Some w
             | None => go r
             end
         end) (succs c e s)
  end.
