(* Conc/Pipeline.v — labelled transition system of the commit pipeline, for any number of threads.

   Transcribed from src/commit.rs (CommitQueue::enqueue / dequeue_applied, CommitPipeline::commit /
   publish), src/stall.rs (WriteStallController::check, signal_work_done, signal_shutdown), src/task.rs (the two background
   tasks, wake_up_memtable, stop), src/lsm.rs (LsmCommitEnv::apply, Core::close),
   src/memtable/mod.rs (apply_batch_to_memtable inserts entry by entry) and src/transaction.rs
   (Transaction::new: load the horizon, then register).

   One label per yield point of the instrumented crate (src/verif/yieldp.rs).  A label stands for
   the code segment that ENDS at that yield point, executed atomically: the E3 scheduler lets one
   thread prun at a time, so the recorded trace is the real order of the segments.  Every segment
   contains at most one access to shared pipeline plstate, except the critical section whose segments
   are serialised by `write_mutex` anyway.  Atomics are sequentially consistent in this model.

   (Repaired pipeline: a commit whose env.write / env.apply failed records the error in the batch, marks it
   applied, publishes and then waits for the oneshot like a successful one, keeping its permit; publish()
   completes a dequeued batch with the recorded error or Ok.  The flush task re-checks for pending
   immutables after clearing `running` and notifies itself.)

   Blocking primitives are DISABLED transitions: `LLocked` needs the mutex free, `LSemAcquired` a
   permit, `LStallRegistered` after `LStallWait` a notify_waiters epoch change, `LRet` of a waiting
   committer its completion, `LMemWoken` a notify_one permit, `LStopJoin` both tasks idle.  The two
   busy-wait loops of the code appear as stutter labels (`LEnqSpin`, `LStopPoll`) that are enabled
   exactly while the loop would spin; they are excluded from `progress` (see PipelineSpec).

   Model threads: one `thr` per commit() invocation (an OS thread that commits k times is k model
   threads), one `rdr` per probe transaction, the flush task, the level task, the closer, `AMain`
   (Tree::new's wake_up_level).  Executable definitions only. *)
From Coq Require Import List Arith Bool.
Import ListNotations.

Record cfg := { c_slots : nat; c_permits : nat; c_memlimit : nat; c_l0limit : nat }.

(* ---------------------------------------------------------------- batches (CommitBatch + ghost) *)
Record pbatch := {
  b_seq : nat;              (* first sequence number *)
  b_cnt : nat;              (* number of entries *)
  b_ins : nat;              (* ghost: entries b_seq .. b_seq+b_ins-1 are in some memtable *)
  b_applied : bool;         (* CommitBatch::applied *)
  b_res : option bool;      (* value sent through the oneshot: Some true = Ok(()), Some false = Err *)
  b_fail : bool;            (* CommitBatch::failure is set: env.write or env.apply failed *)
  b_qref : bool;            (* the Arc reference owned by the queue / the dequeuer is alive *)
  b_oref : bool;            (* the committer's own Arc reference is alive *)
}.
Definition b_last (b : pbatch) : nat := b_seq b + b_cnt b - 1.
Definition set_ins (b : pbatch) (n : nat) : pbatch :=
  {| b_seq := b_seq b; b_cnt := b_cnt b; b_ins := n; b_applied := b_applied b; b_res := b_res b;
     b_fail := b_fail b; b_qref := b_qref b; b_oref := b_oref b |}.
Definition set_applied (b : pbatch) : pbatch :=
  {| b_seq := b_seq b; b_cnt := b_cnt b; b_ins := b_ins b; b_applied := true; b_res := b_res b;
     b_fail := b_fail b; b_qref := b_qref b; b_oref := b_oref b |}.
(* CommitBatch::complete: the first sender wins (the Sender is taken out of the Option); the only caller is
   publish(), with Err when CommitBatch::failure is set (take_failure) and Ok otherwise *)
Definition complete (b : pbatch) (r : bool) : pbatch :=
  {| b_seq := b_seq b; b_cnt := b_cnt b; b_ins := b_ins b; b_applied := b_applied b;
     b_res := match b_res b with Some x => Some x | None => Some r end;
     b_fail := b_fail b; b_qref := b_qref b; b_oref := b_oref b |}.
Definition set_fail (b : pbatch) : pbatch :=
  {| b_seq := b_seq b; b_cnt := b_cnt b; b_ins := b_ins b; b_applied := b_applied b; b_res := b_res b;
     b_fail := true; b_qref := b_qref b; b_oref := b_oref b |}.
Definition drop_qref (b : pbatch) : pbatch :=
  {| b_seq := b_seq b; b_cnt := b_cnt b; b_ins := b_ins b; b_applied := b_applied b; b_res := b_res b;
     b_fail := b_fail b; b_qref := false; b_oref := b_oref b |}.
Definition drop_oref (b : pbatch) : pbatch :=
  {| b_seq := b_seq b; b_cnt := b_cnt b; b_ins := b_ins b; b_applied := b_applied b; b_res := b_res b;
     b_fail := b_fail b; b_qref := b_qref b; b_oref := false |}.
Definition b_freed (b : pbatch) : bool := negb (b_qref b) && negb (b_oref b).

(* ---------------------------------------------------------------- program counters *)
Inductive result := ResOk | ResErr | ResPanic.

Inductive ppc :=
| CIdle                      (* before commit(); Transaction::new of the committing transaction *)
| CEntered                   (* commit.enter *)
| CStallReg (ep : nat)       (* stall.registered: Notified created at notify_waiters epoch ep *)
| CStallCounted (ep : nat) (stalled : bool)   (* stall.counted *)
| CStallBlocked (ep : nat)   (* stall.wait: about to await the Notified *)
| CStallOk                   (* commit.stall_ok: check() returned; next: acquire a permit *)
| CHasPermit                 (* commit.sem_acquired *)
| CWantLock                  (* commit.want_lock: CommitBatch allocated; next: write_mutex.lock() *)
| CLocked | CChecked | CAlloc | COrPub
| CEnqLoaded                 (* enq.loaded, queue not full *)
| CEnqFullSeen               (* enq.loaded with qtail + slots = qhead *)
| CEnqPanic                  (* enq.full: about to panic *)
| CEnqStored | CEnqDone | CEnqueued
| CWalFailed | CFailDoneLocked | CMarkedLocked
| CApplying (second : bool)  (* commit.unlocked (WAL ok) .. commit.after_apply; second: the add after a rotation *)
| CArenaFull | CRotated | CWokeMem
| CApplied | CApplyFailed | CFailDone
| CPubTop                    (* about to call dequeue_applied (first time or again) *)
| CPubHold (p : nat)         (* pub.completed: still owns the dequeued Arc p; next: dequeue_applied *)
| CDeqLoaded (h t : nat)
| CDeqSlot (h t p : nat)
| CDeqChecked (h t p : nat)
| CDeqNone                   (* dequeue_applied returned None *)
| CDeqWon (t p : nat)        (* CAS done, slot not yet cleared *)
| CDeqOwned (p : nat)        (* slot cleared, Arc::from_raw *)
| CVisTop (p : nat)
| CVisLoaded (p cur : nat)
| CVisDone (p : nat)
| CPubExit                   (* pub.exit *)
| CWaitDone                  (* commit.published: awaiting the oneshot (success and failure alike, permit held) *)
| CReturned (r : result).

Record thr := {
  t_pc : ppc;
  t_cnt : nat;       (* pbatch.count() *)
  t_seq : nat;       (* allocated first sequence number *)
  t_i : nat;         (* entries inserted by the current memtable.add attempt *)
  t_my : option nat; (* queue position of the CommitBatch once it is stored in a slot *)
  t_permit : bool;   (* holds a commit_sem permit *)
}.
Definition thr0 : thr :=
  {| t_pc := CIdle; t_cnt := 0; t_seq := 0; t_i := 0; t_my := None; t_permit := false |}.
Definition with_pc (t : thr) (p : ppc) : thr :=
  {| t_pc := p; t_cnt := t_cnt t; t_seq := t_seq t; t_i := t_i t; t_my := t_my t; t_permit := t_permit t |}.
Definition with_cnt (t : thr) (n : nat) : thr :=
  {| t_pc := t_pc t; t_cnt := n; t_seq := t_seq t; t_i := t_i t; t_my := t_my t; t_permit := t_permit t |}.
Definition with_seq (t : thr) (n : nat) : thr :=
  {| t_pc := t_pc t; t_cnt := t_cnt t; t_seq := n; t_i := t_i t; t_my := t_my t; t_permit := t_permit t |}.
Definition with_i (t : thr) (n : nat) : thr :=
  {| t_pc := t_pc t; t_cnt := t_cnt t; t_seq := t_seq t; t_i := n; t_my := t_my t; t_permit := t_permit t |}.
Definition with_my (t : thr) (m : option nat) : thr :=
  {| t_pc := t_pc t; t_cnt := t_cnt t; t_seq := t_seq t; t_i := t_i t; t_my := m; t_permit := t_permit t |}.
Definition with_permit (t : thr) (e : bool) : thr :=
  {| t_pc := t_pc t; t_cnt := t_cnt t; t_seq := t_seq t; t_i := t_i t; t_my := t_my t; t_permit := e |}.

(* probe transactions *)
Inductive rpc := RIdle | RLoaded (h : nat) | RReg (h : nat).
Inductive obs := OFull | ONone | OPartial.

(* background tasks and the closer *)
Inductive fpc := FInit | FWait | FWoken | FRunning | FFlushed | FSignaled | FNoPending | FError | FErrSignaled
               | FNotified | FIdle | FRenotified | FExit.
Inductive lpc := LInit | LWait | LWoken | LRunning | LDone | LError | LSignaled | LIdle | LExit.
Inductive xpc := XIdle | XStarted | XPipeDown | XSignaled | XStopFlag | XNotified | XJoin | XTasksStopped
               | XSynced | XEnd | XReturned.

Record bgstate := {
  g_imm : nat;          (* immutable memtables waiting for flush *)
  g_l0 : nat;           (* L0 tables *)
  g_epoch : nat;        (* number of notify_waiters() calls on stall_cleared *)
  g_pipe_sd : bool;     (* CommitPipeline::shutdown *)
  g_stall_sd : bool;    (* WriteStallController::shutdown *)
  g_bgerr : bool;       (* BackgroundErrorHandler holds an error *)
  g_stop : bool;        (* TaskManager::stop_flag *)
  g_fpc : fpc; g_fpermit : bool; g_frunning : bool; g_fcount : nat;
  g_lpc : lpc; g_lpermit : bool; g_lrunning : bool;
  g_xpc : xpc;
  g_dirty : bool;       (* the active memtable holds at least one entry *)
  g_ffailed : bool;     (* the flush task's `flush_failed` of the current round *)
}.

Record plstate := {
  thrs : list thr;
  rdrs : list rpc;
  qlog : list pbatch;           (* every pbatch ever stored in a slot, by queue position *)
  qhead : nat; qtail : nat;      (* CommitQueue::head_tail (unbounded here; see PipelineSpec.wrap_ok) *)
  slotv : list (option nat);   (* CommitQueue::slots: the queue position whose pbatch the pointer denotes *)
  visible : nat;
  next_seq : nat;              (* log_seq_num *)
  avail : nat;                 (* free permits of commit_sem *)
  mutex : option nat;          (* holder of write_mutex *)
  uaf : bool;                  (* ghost: dequeue_applied dereferenced a pointer whose CommitBatch was freed *)
  bg : bgstate;
}.

(* setters *)
Definition st_thrs s x := {| thrs := x; rdrs := rdrs s; qlog := qlog s; qhead := qhead s; qtail := qtail s; slotv := slotv s;
  visible := visible s; next_seq := next_seq s; avail := avail s; mutex := mutex s; uaf := uaf s; bg := bg s |}.
Definition st_rdrs s x := {| thrs := thrs s; rdrs := x; qlog := qlog s; qhead := qhead s; qtail := qtail s; slotv := slotv s;
  visible := visible s; next_seq := next_seq s; avail := avail s; mutex := mutex s; uaf := uaf s; bg := bg s |}.
Definition st_qlog s x := {| thrs := thrs s; rdrs := rdrs s; qlog := x; qhead := qhead s; qtail := qtail s; slotv := slotv s;
  visible := visible s; next_seq := next_seq s; avail := avail s; mutex := mutex s; uaf := uaf s; bg := bg s |}.
Definition st_head s x := {| thrs := thrs s; rdrs := rdrs s; qlog := qlog s; qhead := x; qtail := qtail s; slotv := slotv s;
  visible := visible s; next_seq := next_seq s; avail := avail s; mutex := mutex s; uaf := uaf s; bg := bg s |}.
Definition st_tail s x := {| thrs := thrs s; rdrs := rdrs s; qlog := qlog s; qhead := qhead s; qtail := x; slotv := slotv s;
  visible := visible s; next_seq := next_seq s; avail := avail s; mutex := mutex s; uaf := uaf s; bg := bg s |}.
Definition st_slotv s x := {| thrs := thrs s; rdrs := rdrs s; qlog := qlog s; qhead := qhead s; qtail := qtail s; slotv := x;
  visible := visible s; next_seq := next_seq s; avail := avail s; mutex := mutex s; uaf := uaf s; bg := bg s |}.
Definition st_visible s x := {| thrs := thrs s; rdrs := rdrs s; qlog := qlog s; qhead := qhead s; qtail := qtail s; slotv := slotv s;
  visible := x; next_seq := next_seq s; avail := avail s; mutex := mutex s; uaf := uaf s; bg := bg s |}.
Definition st_next s x := {| thrs := thrs s; rdrs := rdrs s; qlog := qlog s; qhead := qhead s; qtail := qtail s; slotv := slotv s;
  visible := visible s; next_seq := x; avail := avail s; mutex := mutex s; uaf := uaf s; bg := bg s |}.
Definition st_avail s x := {| thrs := thrs s; rdrs := rdrs s; qlog := qlog s; qhead := qhead s; qtail := qtail s; slotv := slotv s;
  visible := visible s; next_seq := next_seq s; avail := x; mutex := mutex s; uaf := uaf s; bg := bg s |}.
Definition st_mutex s x := {| thrs := thrs s; rdrs := rdrs s; qlog := qlog s; qhead := qhead s; qtail := qtail s; slotv := slotv s;
  visible := visible s; next_seq := next_seq s; avail := avail s; mutex := x; uaf := uaf s; bg := bg s |}.
Definition st_uaf s x := {| thrs := thrs s; rdrs := rdrs s; qlog := qlog s; qhead := qhead s; qtail := qtail s; slotv := slotv s;
  visible := visible s; next_seq := next_seq s; avail := avail s; mutex := mutex s; uaf := x; bg := bg s |}.
Definition st_bg s x := {| thrs := thrs s; rdrs := rdrs s; qlog := qlog s; qhead := qhead s; qtail := qtail s; slotv := slotv s;
  visible := visible s; next_seq := next_seq s; avail := avail s; mutex := mutex s; uaf := uaf s; bg := x |}.

Definition bg_imm g x := {| g_imm := x; g_l0 := g_l0 g; g_epoch := g_epoch g; g_pipe_sd := g_pipe_sd g; g_stall_sd := g_stall_sd g;
  g_bgerr := g_bgerr g; g_stop := g_stop g; g_fpc := g_fpc g; g_fpermit := g_fpermit g; g_frunning := g_frunning g; g_fcount := g_fcount g;
  g_lpc := g_lpc g; g_lpermit := g_lpermit g; g_lrunning := g_lrunning g; g_xpc := g_xpc g; g_dirty := g_dirty g; g_ffailed := g_ffailed g |}.
Definition bg_l0 g x := {| g_imm := g_imm g; g_l0 := x; g_epoch := g_epoch g; g_pipe_sd := g_pipe_sd g; g_stall_sd := g_stall_sd g;
  g_bgerr := g_bgerr g; g_stop := g_stop g; g_fpc := g_fpc g; g_fpermit := g_fpermit g; g_frunning := g_frunning g; g_fcount := g_fcount g;
  g_lpc := g_lpc g; g_lpermit := g_lpermit g; g_lrunning := g_lrunning g; g_xpc := g_xpc g; g_dirty := g_dirty g; g_ffailed := g_ffailed g |}.
Definition bg_epoch g x := {| g_imm := g_imm g; g_l0 := g_l0 g; g_epoch := x; g_pipe_sd := g_pipe_sd g; g_stall_sd := g_stall_sd g;
  g_bgerr := g_bgerr g; g_stop := g_stop g; g_fpc := g_fpc g; g_fpermit := g_fpermit g; g_frunning := g_frunning g; g_fcount := g_fcount g;
  g_lpc := g_lpc g; g_lpermit := g_lpermit g; g_lrunning := g_lrunning g; g_xpc := g_xpc g; g_dirty := g_dirty g; g_ffailed := g_ffailed g |}.
Definition bg_pipe_sd g x := {| g_imm := g_imm g; g_l0 := g_l0 g; g_epoch := g_epoch g; g_pipe_sd := x; g_stall_sd := g_stall_sd g;
  g_bgerr := g_bgerr g; g_stop := g_stop g; g_fpc := g_fpc g; g_fpermit := g_fpermit g; g_frunning := g_frunning g; g_fcount := g_fcount g;
  g_lpc := g_lpc g; g_lpermit := g_lpermit g; g_lrunning := g_lrunning g; g_xpc := g_xpc g; g_dirty := g_dirty g; g_ffailed := g_ffailed g |}.
Definition bg_stall_sd g x := {| g_imm := g_imm g; g_l0 := g_l0 g; g_epoch := g_epoch g; g_pipe_sd := g_pipe_sd g; g_stall_sd := x;
  g_bgerr := g_bgerr g; g_stop := g_stop g; g_fpc := g_fpc g; g_fpermit := g_fpermit g; g_frunning := g_frunning g; g_fcount := g_fcount g;
  g_lpc := g_lpc g; g_lpermit := g_lpermit g; g_lrunning := g_lrunning g; g_xpc := g_xpc g; g_dirty := g_dirty g; g_ffailed := g_ffailed g |}.
Definition bg_bgerr g x := {| g_imm := g_imm g; g_l0 := g_l0 g; g_epoch := g_epoch g; g_pipe_sd := g_pipe_sd g; g_stall_sd := g_stall_sd g;
  g_bgerr := x; g_stop := g_stop g; g_fpc := g_fpc g; g_fpermit := g_fpermit g; g_frunning := g_frunning g; g_fcount := g_fcount g;
  g_lpc := g_lpc g; g_lpermit := g_lpermit g; g_lrunning := g_lrunning g; g_xpc := g_xpc g; g_dirty := g_dirty g; g_ffailed := g_ffailed g |}.
Definition bg_stop g x := {| g_imm := g_imm g; g_l0 := g_l0 g; g_epoch := g_epoch g; g_pipe_sd := g_pipe_sd g; g_stall_sd := g_stall_sd g;
  g_bgerr := g_bgerr g; g_stop := x; g_fpc := g_fpc g; g_fpermit := g_fpermit g; g_frunning := g_frunning g; g_fcount := g_fcount g;
  g_lpc := g_lpc g; g_lpermit := g_lpermit g; g_lrunning := g_lrunning g; g_xpc := g_xpc g; g_dirty := g_dirty g; g_ffailed := g_ffailed g |}.
Definition bg_fpc g x := {| g_imm := g_imm g; g_l0 := g_l0 g; g_epoch := g_epoch g; g_pipe_sd := g_pipe_sd g; g_stall_sd := g_stall_sd g;
  g_bgerr := g_bgerr g; g_stop := g_stop g; g_fpc := x; g_fpermit := g_fpermit g; g_frunning := g_frunning g; g_fcount := g_fcount g;
  g_lpc := g_lpc g; g_lpermit := g_lpermit g; g_lrunning := g_lrunning g; g_xpc := g_xpc g; g_dirty := g_dirty g; g_ffailed := g_ffailed g |}.
Definition bg_fpermit g x := {| g_imm := g_imm g; g_l0 := g_l0 g; g_epoch := g_epoch g; g_pipe_sd := g_pipe_sd g; g_stall_sd := g_stall_sd g;
  g_bgerr := g_bgerr g; g_stop := g_stop g; g_fpc := g_fpc g; g_fpermit := x; g_frunning := g_frunning g; g_fcount := g_fcount g;
  g_lpc := g_lpc g; g_lpermit := g_lpermit g; g_lrunning := g_lrunning g; g_xpc := g_xpc g; g_dirty := g_dirty g; g_ffailed := g_ffailed g |}.
Definition bg_frunning g x := {| g_imm := g_imm g; g_l0 := g_l0 g; g_epoch := g_epoch g; g_pipe_sd := g_pipe_sd g; g_stall_sd := g_stall_sd g;
  g_bgerr := g_bgerr g; g_stop := g_stop g; g_fpc := g_fpc g; g_fpermit := g_fpermit g; g_frunning := x; g_fcount := g_fcount g;
  g_lpc := g_lpc g; g_lpermit := g_lpermit g; g_lrunning := g_lrunning g; g_xpc := g_xpc g; g_dirty := g_dirty g; g_ffailed := g_ffailed g |}.
Definition bg_fcount g x := {| g_imm := g_imm g; g_l0 := g_l0 g; g_epoch := g_epoch g; g_pipe_sd := g_pipe_sd g; g_stall_sd := g_stall_sd g;
  g_bgerr := g_bgerr g; g_stop := g_stop g; g_fpc := g_fpc g; g_fpermit := g_fpermit g; g_frunning := g_frunning g; g_fcount := x;
  g_lpc := g_lpc g; g_lpermit := g_lpermit g; g_lrunning := g_lrunning g; g_xpc := g_xpc g; g_dirty := g_dirty g; g_ffailed := g_ffailed g |}.
Definition bg_lpc g x := {| g_imm := g_imm g; g_l0 := g_l0 g; g_epoch := g_epoch g; g_pipe_sd := g_pipe_sd g; g_stall_sd := g_stall_sd g;
  g_bgerr := g_bgerr g; g_stop := g_stop g; g_fpc := g_fpc g; g_fpermit := g_fpermit g; g_frunning := g_frunning g; g_fcount := g_fcount g;
  g_lpc := x; g_lpermit := g_lpermit g; g_lrunning := g_lrunning g; g_xpc := g_xpc g; g_dirty := g_dirty g; g_ffailed := g_ffailed g |}.
Definition bg_lpermit g x := {| g_imm := g_imm g; g_l0 := g_l0 g; g_epoch := g_epoch g; g_pipe_sd := g_pipe_sd g; g_stall_sd := g_stall_sd g;
  g_bgerr := g_bgerr g; g_stop := g_stop g; g_fpc := g_fpc g; g_fpermit := g_fpermit g; g_frunning := g_frunning g; g_fcount := g_fcount g;
  g_lpc := g_lpc g; g_lpermit := x; g_lrunning := g_lrunning g; g_xpc := g_xpc g; g_dirty := g_dirty g; g_ffailed := g_ffailed g |}.
Definition bg_lrunning g x := {| g_imm := g_imm g; g_l0 := g_l0 g; g_epoch := g_epoch g; g_pipe_sd := g_pipe_sd g; g_stall_sd := g_stall_sd g;
  g_bgerr := g_bgerr g; g_stop := g_stop g; g_fpc := g_fpc g; g_fpermit := g_fpermit g; g_frunning := g_frunning g; g_fcount := g_fcount g;
  g_lpc := g_lpc g; g_lpermit := g_lpermit g; g_lrunning := x; g_xpc := g_xpc g; g_dirty := g_dirty g; g_ffailed := g_ffailed g |}.
Definition bg_xpc g x := {| g_imm := g_imm g; g_l0 := g_l0 g; g_epoch := g_epoch g; g_pipe_sd := g_pipe_sd g; g_stall_sd := g_stall_sd g;
  g_bgerr := g_bgerr g; g_stop := g_stop g; g_fpc := g_fpc g; g_fpermit := g_fpermit g; g_frunning := g_frunning g; g_fcount := g_fcount g;
  g_lpc := g_lpc g; g_lpermit := g_lpermit g; g_lrunning := g_lrunning g; g_xpc := x; g_dirty := g_dirty g; g_ffailed := g_ffailed g |}.
Definition bg_dirty g x := {| g_imm := g_imm g; g_l0 := g_l0 g; g_epoch := g_epoch g; g_pipe_sd := g_pipe_sd g; g_stall_sd := g_stall_sd g;
  g_bgerr := g_bgerr g; g_stop := g_stop g; g_fpc := g_fpc g; g_fpermit := g_fpermit g; g_frunning := g_frunning g; g_fcount := g_fcount g;
  g_lpc := g_lpc g; g_lpermit := g_lpermit g; g_lrunning := g_lrunning g; g_xpc := g_xpc g; g_dirty := x; g_ffailed := g_ffailed g |}.
Definition bg_ffailed g x := {| g_imm := g_imm g; g_l0 := g_l0 g; g_epoch := g_epoch g; g_pipe_sd := g_pipe_sd g; g_stall_sd := g_stall_sd g;
  g_bgerr := g_bgerr g; g_stop := g_stop g; g_fpc := g_fpc g; g_fpermit := g_fpermit g; g_frunning := g_frunning g; g_fcount := g_fcount g;
  g_lpc := g_lpc g; g_lpermit := g_lpermit g; g_lrunning := g_lrunning g; g_xpc := g_xpc g; g_dirty := g_dirty g; g_ffailed := x |}.

Definition bg0 : bgstate :=
  {| g_imm := 0; g_l0 := 0; g_epoch := 0; g_pipe_sd := false; g_stall_sd := false; g_bgerr := false; g_stop := false;
     g_fpc := FInit; g_fpermit := false; g_frunning := false; g_fcount := 0;
     g_lpc := LInit; g_lpermit := false; g_lrunning := false; g_xpc := XIdle; g_dirty := false; g_ffailed := false |}.

(* the store just opened with `v` as recovered horizon: set_seq_num(v) *)
Definition pinit (c : cfg) (nthr nrdr v : nat) : plstate :=
  {| thrs := repeat thr0 nthr; rdrs := repeat RIdle nrdr; qlog := []; qhead := 0; qtail := 0;
     slotv := repeat None (c_slots c); visible := v; next_seq := S v; avail := c_permits c;
     mutex := None; uaf := false; bg := bg0 |}.

(* ---------------------------------------------------------------- labels *)
Inductive actor := ACommit (i : nat) | AReader (i : nat) | AFlush | ALevel | ACloser | AMain.

Inductive label :=
| LTxnLoaded (h : nat) | LTxnRegistered (h : nat)
| LEnter (cnt : nat)
| LStallRegistered | LStallCounted (imm l0 : nat) | LStallWait | LStallOk
| LSemAcquired | LWantLock | LLocked | LChecked
| LSeqAllocated (sq cnt : nat) | LOraclePublished
| LEnqLoaded (h t : nat) | LEnqFull | LEnqSpin | LEnqStored | LEnqDone | LEnqueued
| LWalFailed | LFailCompleted | LMarked | LUnlocked
| LMemInsert (sq : nat) | LArenaFull | LRotated | LWakeMem | LApplyWoke | LAfterApply (err : bool)
| LDeqLoaded (h t : nat) | LDeqSlot (t : nat) (isnull : bool) | LDeqChecked (t : nat) (a : bool)
| LDeqCasOk | LDeqCasFail | LDeqCleared
| LPubDeq (nv cnt : nat) | LVisLoaded (nv cur : nat) | LVisSkip | LVisCasOk | LVisCasFail
| LPubCompleted | LPubExit | LPublished
| LRet (r : result)
| LObs (c : nat) (k : obs)
| LSignal (shutdown : bool)
| LMemWait | LMemWoken | LMemRunning | LMemFlushed | LMemNoPending | LMemError | LMemNotifiedLevel | LMemIdle | LMemRecheck | LMemExit
| LLevelWait | LLevelWoken | LLevelRunning | LLevelDone (l0 : nat) | LLevelError | LLevelIdle | LLevelExit
| LWakeLevel
| LCloseStart | LClosePipeDown | LStopFlag | LStopNotified | LStopPoll | LStopJoin | LCloseTasksStopped
| LCloseSynced | LCloseEnd.

(* ---------------------------------------------------------------- list helpers *)
Fixpoint set_nth {A} (n : nat) (x : A) (l : list A) : list A :=
  match l, n with
  | [], _ => []
  | _ :: r, O => x :: r
  | y :: r, S k => y :: set_nth k x r
  end.
Definition get_thr (s : plstate) (i : nat) : option thr := nth_error (thrs s) i.
Definition put_thr (s : plstate) (i : nat) (t : thr) : plstate := st_thrs s (set_nth i t (thrs s)).
Definition get_b (s : plstate) (p : nat) : option pbatch := nth_error (qlog s) p.
Definition put_b (s : plstate) (p : nat) (b : pbatch) : plstate := st_qlog s (set_nth p b (qlog s)).
Definition slot_ix (c : cfg) (p : nat) : nat := p mod (c_slots c).
(* slots[p mod slots]; the outer None stands for "no such slot" (impossible when slots > 0) *)
Definition get_slot (c : cfg) (s : plstate) (p : nat) : option (option nat) := nth_error (slotv s) (slot_ix c p).
Definition put_slot (c : cfg) (s : plstate) (p : nat) (v : option nat) : plstate := st_slotv s (set_nth (slot_ix c p) v (slotv s)).
Definition is_none {A} (o : option A) : bool := match o with None => true | Some _ => false end.

(* number of entries of pbatch b a reader with horizon h finds in the memtables / tables:
   the inserted entries whose sequence number is <= h *)
Definition seen (b : pbatch) (h : nat) : nat := Nat.min (b_ins b) (S h - b_seq b).
Definition classify (b : pbatch) (h : nat) : obs :=
  if Nat.eqb (seen b h) 0 then ONone else if Nat.eqb (seen b h) (b_cnt b) then OFull else OPartial.

Definition stalled (c : cfg) (imm l0 : nat) : bool := negb (Nat.ltb imm (c_memlimit c) && Nat.ltb l0 (c_l0limit c)).

(* ---------------------------------------------------------------- committer steps *)
Definition guard (b : bool) (s : option plstate) : option plstate := if b then s else None.

Definition my_batch (s : plstate) (t : thr) : option (nat * pbatch) :=
  match t_my t with
  | Some p => match get_b s p with Some b => Some (p, b) | None => None end
  | None => None
  end.

(* returning from commit(): the permit (if held) goes back, the committer's Arc is dropped *)
Definition do_return (s : plstate) (i : nat) (t : thr) (r : result) : plstate :=
  let s1 := if t_permit t then st_avail s (S (avail s)) else s in
  let s2 := match my_batch s1 t with Some (p, b) => put_b s1 p (drop_oref b) | None => s1 end in
  put_thr s2 i (with_permit (with_pc t (CReturned r)) false).

Definition step_commit (c : cfg) (s : plstate) (i : nat) (t : thr) (l : label) : option plstate :=
  let go p := Some (put_thr s i (with_pc t p)) in
  match l, t_pc t with
  (* Transaction::new of the committing transaction: horizon load, then registration *)
  | LTxnLoaded h, CIdle => guard (Nat.eqb h (visible s)) (Some s)
  | LTxnRegistered _, CIdle => Some s
  | LEnter cnt, CIdle => Some (put_thr s i (with_cnt (with_pc t CEntered) cnt))
  (* shutdown flag clear, no background error; WriteStallController::check: Notified created *)
  | LStallRegistered, CEntered =>
      guard (negb (g_pipe_sd (bg s)) && negb (g_bgerr (bg s))) (go (CStallReg (g_epoch (bg s))))
  | LStallRegistered, CStallBlocked ep =>
      guard (negb (Nat.eqb ep (g_epoch (bg s)))) (go (CStallReg (g_epoch (bg s))))
  | LStallCounted imm l0, CStallReg ep =>
      guard (negb (g_stall_sd (bg s)) && Nat.eqb imm (g_imm (bg s)) && Nat.eqb l0 (g_l0 (bg s)))
            (go (CStallCounted ep (stalled c imm l0)))
  | LStallWait, CStallCounted ep true => go (CStallBlocked ep)
  | LStallOk, CStallCounted _ false => go CStallOk
  | LSemAcquired, CStallOk =>
      match avail s with
      | O => None
      | S k => Some (put_thr (st_avail s k) i (with_permit (with_pc t CHasPermit) true))
      end
  | LWantLock, CHasPermit => go CWantLock
  | LLocked, CWantLock =>
      match mutex s with
      | None => Some (put_thr (st_mutex s (Some i)) i (with_pc t CLocked))
      | Some _ => None
      end
  | LChecked, CLocked => go CChecked
  | LSeqAllocated sq cnt, CChecked =>
      guard (Nat.eqb sq (next_seq s) && Nat.eqb cnt (t_cnt t) && Nat.ltb 0 cnt)
            (Some (put_thr (st_next s (next_seq s + cnt)) i (with_seq (with_pc t CAlloc) sq)))
  | LOraclePublished, CAlloc => go COrPub
  (* CommitQueue::enqueue *)
  | LEnqLoaded h tl, COrPub =>
      guard (Nat.eqb h (qhead s) && Nat.eqb tl (qtail s))
            (go (if Nat.eqb (tl + c_slots c) h then CEnqFullSeen else CEnqLoaded))
  | LEnqFull, CEnqFullSeen => go CEnqPanic
  | LEnqSpin, CEnqLoaded =>
      match get_slot c s (qhead s) with Some (Some _) => Some s | _ => None end
  | LEnqStored, CEnqLoaded =>
      match get_slot c s (qhead s) with
      | Some None =>
          let b := {| b_seq := t_seq t; b_cnt := t_cnt t; b_ins := 0; b_applied := false; b_res := None;
                      b_fail := false; b_qref := true; b_oref := true |} in
          let s1 := put_slot c (st_qlog s (qlog s ++ [b])) (qhead s) (Some (qhead s)) in
          Some (put_thr s1 i (with_my (with_pc t CEnqStored) (Some (qhead s))))
      | _ => None
      end
  | LEnqDone, CEnqStored => Some (put_thr (st_head s (S (qhead s))) i (with_pc t CEnqDone))
  | LEnqueued, CEnqDone => go CEnqueued
  (* env.write succeeded; the guard is dropped *)
  | LUnlocked, CEnqueued => Some (put_thr (st_mutex s None) i (with_i (with_pc t (CApplying false)) 0))
  (* env.write failed: set_failure, mark_applied, unlock, publish, then wait for the oneshot like everybody *)
  | LWalFailed, CEnqueued => go CWalFailed
  | LFailCompleted, CWalFailed =>
      match my_batch s t with
      | Some (p, b) => Some (put_thr (put_b s p (set_fail b)) i (with_pc t CFailDoneLocked))
      | None => None
      end
  | LMarked, CFailDoneLocked =>
      match my_batch s t with
      | Some (p, b) => Some (put_thr (put_b s p (set_applied b)) i (with_pc t CMarkedLocked))
      | None => None
      end
  | LUnlocked, CMarkedLocked => Some (put_thr (st_mutex s None) i (with_pc t CPubTop))
  (* env.apply: memtable.add inserts the entries in order; ArenaFull -> rotate -> add again *)
  | LMemInsert sq, CApplying _ =>
      match my_batch s t with
      | Some (p, b) =>
          guard (Nat.eqb sq (t_seq t + t_i t) && Nat.ltb (t_i t) (t_cnt t))
                (Some (put_thr (put_b (st_bg s (bg_dirty (bg s) true)) p (set_ins b (Nat.max (b_ins b) (S (t_i t))))) i (with_i t (S (t_i t)))))
      | None => None
      end
  | LArenaFull, CApplying false => go CArenaFull
  (* rotate_memtable: nothing happens when the active memtable is empty *)
  | LRotated, CArenaFull =>
      Some (put_thr (if g_dirty (bg s) then st_bg s (bg_dirty (bg_imm (bg s) (S (g_imm (bg s)))) false) else s) i (with_pc t CRotated))
  | LWakeMem, CRotated =>
      guard (negb (g_frunning (bg s))) (Some (put_thr (st_bg s (bg_fpermit (bg s) true)) i (with_pc t CWokeMem)))
  | LApplyWoke, CRotated => guard (g_frunning (bg s)) (Some (put_thr s i (with_i (with_pc t (CApplying true)) 0)))
  | LApplyWoke, CWokeMem => Some (put_thr s i (with_i (with_pc t (CApplying true)) 0))
  | LAfterApply false, CApplying _ => guard (Nat.eqb (t_i t) (t_cnt t)) (go CApplied)
  | LAfterApply true, CApplying _ => go CApplyFailed
  | LAfterApply true, CArenaFull => go CApplyFailed
  | LFailCompleted, CApplyFailed =>
      match my_batch s t with
      | Some (p, b) => Some (put_thr (put_b s p (set_fail b)) i (with_pc t CFailDone))
      | None => None
      end
  | LMarked, CApplied | LMarked, CFailDone =>
      match my_batch s t with
      | Some (p, b) => Some (put_thr (put_b s p (set_applied b)) i (with_pc t CPubTop))
      | None => None
      end
  (* publish(): dequeue_applied *)
  | LDeqLoaded h tl, CPubTop =>
      guard (Nat.eqb h (qhead s) && Nat.eqb tl (qtail s)) (go (if Nat.eqb h tl then CDeqNone else CDeqLoaded h tl))
  | LDeqLoaded h tl, CPubHold q =>
      (* the Arc of the pbatch completed in the previous iteration is dropped first *)
      match get_b s q with
      | Some b =>
          let s1 := put_b s q (drop_qref b) in
          guard (Nat.eqb h (qhead s) && Nat.eqb tl (qtail s))
                (Some (put_thr s1 i (with_pc t (if Nat.eqb h tl then CDeqNone else CDeqLoaded h tl))))
      | None => None
      end
  | LDeqSlot tl isnull, CDeqLoaded h t0 =>
      match get_slot c s t0 with
      | Some None => guard (Nat.eqb tl t0 && isnull) (go CDeqNone)
      | Some (Some p) => guard (Nat.eqb tl t0 && negb isnull) (go (CDeqSlot h t0 p))
      | None => None
      end
  | LDeqChecked tl a, CDeqSlot h t0 p =>
      match get_b s p with
      | Some b =>
          if b_freed b
          then (* the read returns whatever the freed memory holds *)
            guard (Nat.eqb tl t0) (Some (put_thr (st_uaf s true) i (with_pc t (if a then CDeqChecked h t0 p else CDeqNone))))
          else guard (Nat.eqb tl t0 && Bool.eqb a (b_applied b)) (go (if a then CDeqChecked h t0 p else CDeqNone))
      | None => None
      end
  (* compare_exchange on head_tail: succeeds iff the word is unchanged (no spurious failures) *)
  | LDeqCasOk, CDeqChecked h t0 p =>
      guard (Nat.eqb h (qhead s) && Nat.eqb t0 (qtail s)) (Some (put_thr (st_tail s (S t0)) i (with_pc t (CDeqWon t0 p))))
  | LDeqCasFail, CDeqChecked h t0 p =>
      guard (negb (Nat.eqb h (qhead s) && Nat.eqb t0 (qtail s))) (go CPubTop)
  | LDeqCleared, CDeqWon t0 p => Some (put_thr (put_slot c s t0 None) i (with_pc t (CDeqOwned p)))
  | LPubDeq nv cnt, CDeqOwned p =>
      match get_b s p with
      | Some b => guard (Nat.eqb nv (b_last b) && Nat.eqb cnt (b_cnt b)) (go (CVisTop p))
      | None => None
      end
  | LVisLoaded nv cur, CVisTop p =>
      match get_b s p with
      | Some b => guard (Nat.eqb nv (b_last b) && Nat.eqb cur (visible s)) (go (CVisLoaded p cur))
      | None => None
      end
  | LVisSkip, CVisLoaded p cur =>
      match get_b s p with
      | Some b => guard (Nat.leb (b_last b) cur) (go (CVisDone p))
      | None => None
      end
  | LVisCasOk, CVisLoaded p cur =>
      match get_b s p with
      | Some b => guard (Nat.ltb cur (b_last b) && Nat.eqb cur (visible s))
                        (Some (put_thr (st_visible s (b_last b)) i (with_pc t (CVisDone p))))
      | None => None
      end
  | LVisCasFail, CVisLoaded p cur =>
      match get_b s p with
      | Some b => guard (Nat.ltb cur (b_last b) && negb (Nat.eqb cur (visible s))) (go (CVisTop p))
      | None => None
      end
  | LPubCompleted, CVisDone p =>
      match get_b s p with
      | Some b => Some (put_thr (put_b s p (complete b (negb (b_fail b)))) i (with_pc t (CPubHold p)))
      | None => None
      end
  | LPubExit, CDeqNone => go CPubExit
  | LPublished, CPubExit => go CWaitDone
  (* commit() returns *)
  | LRet ResOk, CWaitDone =>
      match my_batch s t with
      | Some (_, b) => match b_res b with Some true => Some (do_return s i t ResOk) | _ => None end
      | None => None
      end
  | LRet ResErr, CWaitDone =>
      match my_batch s t with
      | Some (_, b) => match b_res b with Some false => Some (do_return s i t ResErr) | _ => None end
      | None => None
      end
  | LRet ResErr, CEntered => guard (g_pipe_sd (bg s) || g_bgerr (bg s)) (Some (do_return s i t ResErr))
  | LRet ResErr, CStallReg _ => guard (g_stall_sd (bg s)) (Some (do_return s i t ResErr))
  | LRet ResErr, CLocked => Some (do_return (st_mutex s None) i t ResErr)      (* oracle.check refused *)
  | LRet ResPanic, CEnqPanic => Some (do_return (st_mutex s None) i t ResPanic) (* unwinding drops guard and permit *)
  | _, _ => None
  end.

(* ---------------------------------------------------------------- readers *)
Definition step_reader (s : plstate) (i : nat) (r : rpc) (l : label) : option plstate :=
  match l, r with
  | LTxnLoaded h, RIdle => guard (Nat.eqb h (visible s)) (Some (st_rdrs s (set_nth i (RLoaded h) (rdrs s))))
  | LTxnRegistered h, RLoaded h0 => guard (Nat.eqb h h0) (Some (st_rdrs s (set_nth i (RReg h) (rdrs s))))
  | LObs c k, RReg h =>
      match get_thr s c with
      | Some t =>
          match my_batch s t with
          | Some (_, b) => match classify b h, k with
                           | OFull, OFull | ONone, ONone | OPartial, OPartial => Some s
                           | _, _ => None
                           end
          | None => match k with ONone => Some s | _ => None end
          end
      | None => None
      end
  | _, _ => None
  end.

(* ---------------------------------------------------------------- background tasks, closer *)
Definition step_flush (s : plstate) (l : label) : option plstate :=
  let g := bg s in
  let go p := Some (st_bg s (bg_fpc g p)) in
  match l, g_fpc g with
  | LMemWait, FInit | LMemWait, FRenotified => go FWait
  (* after `running.store(false)`: nothing pending (or the round failed) -> back to notified().await *)
  | LMemWait, FIdle => guard (g_ffailed g || Nat.eqb (g_imm g) 0) (go FWait)
  (* ... otherwise the task notifies itself: a rotation whose wake-up was skipped while `running` was set *)
  | LMemRecheck, FIdle =>
      guard (negb (g_ffailed g) && Nat.ltb 0 (g_imm g)) (Some (st_bg s (bg_fpc (bg_fpermit g true) FRenotified)))
  | LMemWoken, FWait => guard (g_fpermit g) (Some (st_bg s (bg_fpc (bg_fpermit g false) FWoken)))
  | LMemExit, FWoken => guard (g_stop g) (go FExit)
  | LMemRunning, FWoken => guard (negb (g_stop g)) (Some (st_bg s (bg_ffailed (bg_fcount (bg_fpc (bg_frunning g true) FRunning) 0) false)))
  (* compact_memtable(): flushes the oldest immutable memtable, Ok(()) also when there is none *)
  | LMemFlushed, FRunning | LMemFlushed, FSignaled =>
      guard (match g_fpc g with FSignaled => Nat.ltb 0 (g_imm g) | _ => true end)
            (Some (st_bg s (bg_fcount (bg_fpc (match g_imm g with
                                                | O => g
                                                | S k => bg_l0 (bg_imm g k) (S (g_l0 g))
                                                end) FFlushed) (S (g_fcount g)))))
  | LSignal false, FFlushed => Some (st_bg s (bg_fpc (bg_epoch g (S (g_epoch g))) FSignaled))
  | LMemNoPending, FSignaled => guard (Nat.eqb (g_imm g) 0) (go FNoPending)
  | LMemError, FRunning => go FError
  | LMemError, FSignaled => guard (Nat.ltb 0 (g_imm g)) (go FError)
  (* error_handler().set_error; write_stall.signal_shutdown() *)
  | LSignal true, FError => Some (st_bg s (bg_ffailed (bg_fpc (bg_bgerr (bg_stall_sd (bg_epoch g (S (g_epoch g))) true) true) FErrSignaled) true))
  | LMemNotifiedLevel, FNoPending | LMemNotifiedLevel, FErrSignaled =>
      guard (Nat.ltb 0 (g_fcount g)) (Some (st_bg s (bg_fpc (bg_lpermit g true) FNotified)))
  | LMemIdle, FNotified => Some (st_bg s (bg_fpc (bg_frunning g false) FIdle))
  | LMemIdle, FErrSignaled => guard (Nat.eqb (g_fcount g) 0) (Some (st_bg s (bg_fpc (bg_frunning g false) FIdle)))
  | _, _ => None
  end.

Definition step_level (s : plstate) (l : label) : option plstate :=
  let g := bg s in
  let go p := Some (st_bg s (bg_lpc g p)) in
  match l, g_lpc g with
  | LLevelWait, LInit | LLevelWait, LIdle => go LWait
  | LLevelWoken, LWait => guard (g_lpermit g) (Some (st_bg s (bg_lpc (bg_lpermit g false) LWoken)))
  | LLevelExit, LWoken => guard (g_stop g) (go LExit)
  | LLevelRunning, LWoken => guard (negb (g_stop g)) (Some (st_bg s (bg_lpc (bg_lrunning g true) LRunning)))
  (* the compaction round is the environment: it leaves some number of L0 tables *)
  | LLevelDone n, LRunning => Some (st_bg s (bg_lpc (bg_l0 g n) LDone))
  | LSignal false, LDone => Some (st_bg s (bg_lpc (bg_epoch g (S (g_epoch g))) LSignaled))
  | LLevelError, LRunning => go LError
  | LSignal true, LError => Some (st_bg s (bg_lpc (bg_bgerr (bg_stall_sd (bg_epoch g (S (g_epoch g))) true) true) LSignaled))
  | LLevelIdle, LSignaled => Some (st_bg s (bg_lpc (bg_lrunning g false) LIdle))
  | _, _ => None
  end.

Definition step_closer (s : plstate) (l : label) : option plstate :=
  let g := bg s in
  let go p := Some (st_bg s (bg_xpc g p)) in
  match l, g_xpc g with
  | LCloseStart, XIdle => go XStarted
  | LClosePipeDown, XStarted => Some (st_bg s (bg_xpc (bg_pipe_sd g true) XPipeDown))
  | LSignal true, XPipeDown => Some (st_bg s (bg_xpc (bg_stall_sd (bg_epoch g (S (g_epoch g))) true) XSignaled))
  | LStopFlag, XSignaled => Some (st_bg s (bg_xpc (bg_stop g true) XStopFlag))
  | LStopNotified, XStopFlag => Some (st_bg s (bg_xpc (bg_lpermit (bg_fpermit g true) true) XNotified))
  | LStopPoll, XNotified => guard (g_frunning g || g_lrunning g) (Some s)
  | LStopJoin, XNotified => guard (negb (g_frunning g || g_lrunning g)) (go XJoin)
  | LCloseTasksStopped, XJoin =>
      guard (match g_fpc g, g_lpc g with FExit, LExit => true | _, _ => false end) (go XTasksStopped)
  | LCloseSynced, XTasksStopped => go XSynced
  | LCloseEnd, XSynced => go XEnd
  | LRet ResOk, XEnd => go XReturned
  | LRet ResErr, XTasksStopped | LRet ResErr, XSynced => go XReturned
  | _, _ => None
  end.

(* ---------------------------------------------------------------- the transition function *)
Definition pstep (c : cfg) (s : plstate) (a : actor) (l : label) : option plstate :=
  match a with
  | ACommit i => match get_thr s i with Some t => step_commit c s i t l | None => None end
  | AReader i => match nth_error (rdrs s) i with Some r => step_reader s i r l | None => None end
  | AFlush => step_flush s l
  | ALevel => step_level s l
  | ACloser => step_closer s l
  | AMain => match l with
             | LWakeLevel => guard (negb (g_lrunning (bg s))) (Some (st_bg s (bg_lpermit (bg s) true)))
             | _ => None
             end
  end.

Fixpoint prun (c : cfg) (s : plstate) (evs : list (actor * label)) : option plstate :=
  match evs with
  | [] => Some s
  | (a, l) :: r => match pstep c s a l with Some s' => prun c s' r | None => None end
  end.

(* trace validation with position of the first rejected event *)
Fixpoint prun_pos (c : cfg) (s : plstate) (evs : list (actor * label)) (k : nat) : plstate * option nat :=
  match evs with
  | [] => (s, None)
  | (a, l) :: r => match pstep c s a l with Some s' => prun_pos c s' r (S k) | None => (s, Some k) end
  end.

(* stutter labels: iterations of the two busy-wait loops *)
Definition stutter (l : label) : bool := match l with LEnqSpin | LStopPoll => true | _ => false end.
(* environment labels: the outside world decides whether and when they happen *)
Definition env_label (a : actor) (l : label) : bool :=
  match a, l with
  | _, LEnter _ | _, LTxnLoaded _ | _, LTxnRegistered _ | _, LObs _ _ | _, LCloseStart | AMain, _ => true
  | _, _ => false
  end.
