(* Txn/RangeIter.v — executable transcription of `TransactionRangeIterator` (src/transaction.rs):
   the overlay that merges a snapshot cursor over the committed live keys of the range with the
   write-set entries of the range (values and tombstones).

   Snapshot side: `SnapshotIterator` is taken as an IDEAL cursor over the sorted list of committed
   live (key, value) pairs inside the bounds: its position is `option nat` (None = invalid) and its
   operations are literally the specification cursor `Spec.Cursor.cstep` with `fresh = false`
   (seek_first / seek_last / seek >= target / next / prev; next and prev on an invalid cursor do
   nothing).  Write-set side: the vector `write_set_entries` (sorted by key, one entry per key,
   `None` = tombstone) with the single index `ws_pos`.

   The fields of `ri_state` are the fields of the Rust struct; every function below carries the
   name of the Rust method it transcribes, branch by branch.  Definitions only; the theorems are
   stated in Txn/RangeIterSpec.v and proved in Txn/RangeIter_proofs.v. *)
From Coq Require Import List NArith Arith Bool.
From SKV Require Import Base.Lex Spec.Cursor.
Import ListNotations.

Inductive ri_source := SrcSnapshot | SrcWriteSet | SrcNone.      (* enum CurrentSource *)
Inductive ri_dir := DirForward | DirBackward.                     (* enum MergeDirection *)

Record ri_state := {
  ri_snap : option nat;              (* snapshot_iter: position of the ideal cursor, None = !valid() *)
  ri_ws_pos : option nat;            (* ws_pos *)
  ri_is_key_equal : bool;            (* is_key_equal *)
  ri_current_source : ri_source;     (* current_source *)
  ri_direction : ri_dir;             (* direction *)
  ri_initialized : bool              (* initialized *)
}.

(* TransactionRangeIterator::new_with_options *)
Definition ri_init : ri_state :=
  {| ri_snap := None; ri_ws_pos := None; ri_is_key_equal := false; ri_current_source := SrcNone;
     ri_direction := DirForward; ri_initialized := false |}.

Definition ri_source_eqb (a b : ri_source) : bool :=
  match a, b with
  | SrcSnapshot, SrcSnapshot | SrcWriteSet, SrcWriteSet | SrcNone, SrcNone => true
  | _, _ => false
  end.

Section Overlay.
Variable SN : list (bytes * bytes).            (* committed live pairs inside the bounds, ascending *)
Variable WS : list (bytes * option bytes).     (* write_set_entries, ascending; None = tombstone *)

(* ---- snapshot side: the ideal cursor ---- *)
Definition sn_valid (c : option nat) : bool := match c with Some _ => true | None => false end.
Definition sn_step (c : option nat) (o : cop) : option nat := cstep SN false c o.
Definition sn_key (c : option nat) : bytes := match cget SN c with Some (k, _) => k | None => [] end.

(* ---- write-set side ---- *)
Definition ws_valid (p : option nat) : bool := match p with Some _ => true | None => false end.
Definition ws_key (i : nat) : bytes := match nth_error WS i with Some (k, _) => k | None => [] end.
Definition ws_is_tombstone (i : nat) : bool := match nth_error WS i with Some (_, None) => true | _ => false end.

(* advance_ws: one step in the given direction; does nothing when not positioned *)
Definition advance_ws (d : ri_dir) (p : option nat) : option nat :=
  match p with
  | None => None
  | Some pos =>
    match d with
    | DirForward => if S pos <? length WS then Some (S pos) else None
    | DirBackward => match pos with O => None | S j => Some j end
    end
  end.

(* seek_ws: partition_point(|k| k < target), None when past the end *)
Fixpoint ws_partition_point (l : list (bytes * option bytes)) (t : bytes) (i : nat) : option nat :=
  match l with
  | [] => None
  | (k, _) :: r => if lex_ltb k t then ws_partition_point r t (S i) else Some i
  end.
Definition seek_ws (t : bytes) : option nat := ws_partition_point WS t 0.
Definition seek_ws_first : option nat := match WS with [] => None | _ => Some 0 end.
Definition seek_ws_last : option nat := match WS with [] => None | _ => Some (length WS - 1) end.

(* result of the positioning loops: (snapshot position, ws_pos, is_key_equal, current_source) *)
Definition positioned := (option nat * option nat * bool * ri_source)%type.

(* position_to_min: `advance_ws` inside it reads `self.direction`, which every caller (seek,
   seek_first, next) has set to Forward before -- hence the constant DirForward here (and
   DirBackward in position_to_max, called by seek_last and prev only).
   The `loop { ... continue ... }` runs on fuel; every `continue` moves ws_pos
   forward, so `S (length WS)` iterations always suffice (RangeIterSpec.position_fuel_stmt);
   None = out of fuel *)
Fixpoint position_to_min (fuel : nat) (c p : option nat) : option positioned :=
  match fuel with
  | O => None
  | S f =>
    match c, p with
    | None, None => Some (c, p, false, SrcNone)
    | Some _, None => Some (c, p, false, SrcSnapshot)
    | None, Some i =>
      if ws_is_tombstone i then position_to_min f c (advance_ws DirForward p)
      else Some (c, p, false, SrcWriteSet)
    | Some _, Some i =>
      match lex_cmp (sn_key c) (ws_key i) with
      | Lt => Some (c, p, false, SrcSnapshot)
      | Gt => if ws_is_tombstone i then position_to_min f c (advance_ws DirForward p)
              else Some (c, p, false, SrcWriteSet)
      | Eq => if ws_is_tombstone i then position_to_min f (sn_step c CNext) (advance_ws DirForward p)
              else Some (c, p, true, SrcWriteSet)
      end
    end
  end.

(* position_to_max: mirror image *)
Fixpoint position_to_max (fuel : nat) (c p : option nat) : option positioned :=
  match fuel with
  | O => None
  | S f =>
    match c, p with
    | None, None => Some (c, p, false, SrcNone)
    | Some _, None => Some (c, p, false, SrcSnapshot)
    | None, Some i =>
      if ws_is_tombstone i then position_to_max f c (advance_ws DirBackward p)
      else Some (c, p, false, SrcWriteSet)
    | Some _, Some i =>
      match lex_cmp (sn_key c) (ws_key i) with
      | Gt => Some (c, p, false, SrcSnapshot)
      | Lt => if ws_is_tombstone i then position_to_max f c (advance_ws DirBackward p)
              else Some (c, p, false, SrcWriteSet)
      | Eq => if ws_is_tombstone i then position_to_max f (sn_step c CPrev) (advance_ws DirBackward p)
              else Some (c, p, true, SrcWriteSet)
      end
    end
  end.

Definition ri_fuel : nat := S (length WS).

(* the state after a positioning loop that started in direction d (seek*, next, prev all set
   `initialized = true` before); out of fuel (never happens) = an invalid cursor *)
Definition ri_positioned (r : option positioned) (d : ri_dir) : ri_state :=
  match r with
  | Some (c, p, e, s) =>
    {| ri_snap := c; ri_ws_pos := p; ri_is_key_equal := e; ri_current_source := s;
       ri_direction := d; ri_initialized := true |}
  | None =>
    {| ri_snap := None; ri_ws_pos := None; ri_is_key_equal := false; ri_current_source := SrcNone;
       ri_direction := d; ri_initialized := true |}
  end.

(* LSMIterator::seek / seek_first / seek_last *)
Definition ri_seek (t : bytes) : ri_state :=
  ri_positioned (position_to_min ri_fuel (sn_step None (CSeek t)) (seek_ws t)) DirForward.
Definition ri_seek_first : ri_state :=
  ri_positioned (position_to_min ri_fuel (sn_step None CFirst) seek_ws_first) DirForward.
Definition ri_seek_last : ri_state :=
  ri_positioned (position_to_max ri_fuel (sn_step None CLast) seek_ws_last) DirBackward.

(* "Check if now at equal keys" *)
Definition keys_equal_now (c p : option nat) : bool :=
  match c, p with
  | Some _, Some i => bytes_eqb (sn_key c) (ws_key i)
  | _, _ => false
  end.

(* next(): the block `if self.direction != MergeDirection::Forward { ... }` *)
Definition ri_turn_forward (st : ri_state) : ri_state :=
  match ri_direction st with
  | DirForward => st
  | DirBackward =>
    (* re-position only the side that is NOT current *)
    let '(c, p) :=
      if ri_source_eqb (ri_current_source st) SrcSnapshot then
        (ri_snap st, if ws_valid (ri_ws_pos st) then advance_ws DirForward (ri_ws_pos st) else seek_ws_first)
      else if sn_valid (ri_snap st) then (sn_step (ri_snap st) CNext, ri_ws_pos st)
      else (sn_step (ri_snap st) CFirst, ri_ws_pos st) in
    {| ri_snap := c; ri_ws_pos := p; ri_is_key_equal := keys_equal_now c p;
       ri_current_source := ri_current_source st; ri_direction := DirForward;
       ri_initialized := ri_initialized st |}
  end.

(* next(): "Advance CURRENT source (or both if is_key_equal)" followed by position_to_min *)
Definition ri_next_core (st : ri_state) : ri_state :=
  if ri_is_key_equal st then
    ri_positioned (position_to_min ri_fuel (sn_step (ri_snap st) CNext) (advance_ws DirForward (ri_ws_pos st))) DirForward
  else
    match ri_current_source st with
    | SrcSnapshot => ri_positioned (position_to_min ri_fuel (sn_step (ri_snap st) CNext) (ri_ws_pos st)) DirForward
    | SrcWriteSet => ri_positioned (position_to_min ri_fuel (ri_snap st) (advance_ws DirForward (ri_ws_pos st))) DirForward
    | SrcNone => st                                    (* return Ok(false) *)
    end.

Definition ri_next (st : ri_state) : ri_state :=
  if negb (ri_initialized st) then ri_seek_first else ri_next_core (ri_turn_forward st).

(* prev(): the block `if self.direction != MergeDirection::Backward { ... }` *)
Definition ri_turn_backward (st : ri_state) : ri_state :=
  match ri_direction st with
  | DirBackward => st
  | DirForward =>
    let '(c, p) :=
      if ri_source_eqb (ri_current_source st) SrcSnapshot then
        (ri_snap st, if ws_valid (ri_ws_pos st) then advance_ws DirBackward (ri_ws_pos st) else seek_ws_last)
      else if sn_valid (ri_snap st) then (sn_step (ri_snap st) CPrev, ri_ws_pos st)
      else (sn_step (ri_snap st) CLast, ri_ws_pos st) in
    {| ri_snap := c; ri_ws_pos := p; ri_is_key_equal := keys_equal_now c p;
       ri_current_source := ri_current_source st; ri_direction := DirBackward;
       ri_initialized := ri_initialized st |}
  end.

Definition ri_prev_core (st : ri_state) : ri_state :=
  if ri_is_key_equal st then
    ri_positioned (position_to_max ri_fuel (sn_step (ri_snap st) CPrev) (advance_ws DirBackward (ri_ws_pos st))) DirBackward
  else
    match ri_current_source st with
    | SrcSnapshot => ri_positioned (position_to_max ri_fuel (sn_step (ri_snap st) CPrev) (ri_ws_pos st)) DirBackward
    | SrcWriteSet => ri_positioned (position_to_max ri_fuel (ri_snap st) (advance_ws DirBackward (ri_ws_pos st))) DirBackward
    | SrcNone => st
    end.

Definition ri_prev (st : ri_state) : ri_state :=
  if negb (ri_initialized st) then ri_seek_last else ri_prev_core (ri_turn_backward st).

Definition ri_step (st : ri_state) (o : cop) : ri_state :=
  match o with
  | CFirst => ri_seek_first
  | CLast => ri_seek_last
  | CSeek t => ri_seek t
  | CNext => ri_next st
  | CPrev => ri_prev st
  end.

(* valid() / key().user_key() / value(): None = !valid() *)
Definition ri_get (st : ri_state) : option (bytes * bytes) :=
  match ri_current_source st with
  | SrcNone => None
  | SrcSnapshot => cget SN (ri_snap st)
  | SrcWriteSet =>
    match ri_ws_pos st with
    | Some i => match nth_error WS i with
                | Some (k, ov) => Some (k, match ov with Some v => v | None => [] end)
                | None => None
                end
    | None => None
    end
  end.

(* all observations of a program *)
Fixpoint ri_run (st : ri_state) (prog : list cop) : list (option (bytes * bytes)) :=
  match prog with
  | [] => []
  | o :: r => let st' := ri_step st o in ri_get st' :: ri_run st' r
  end.
End Overlay.

(* the constructor restricts both sides to the bounds [lo, hi) (None = unbounded); an empty or
   inverted range selects nothing on the write-set side, and the ideal snapshot cursor has nothing
   in it either *)
Definition in_bounds (lo hi : option bytes) (k : bytes) : bool :=
  (match lo with Some l => lex_leb l k | None => true end) &&
  (match hi with Some h => lex_ltb k h | None => true end).
Definition restrict {V : Type} (lo hi : option bytes) (l : list (bytes * V)) : list (bytes * V) :=
  filter (fun kv => in_bounds lo hi (fst kv)) l.
Definition ri_run_bounded (lo hi : option bytes) (sn : list (bytes * bytes)) (ws : list (bytes * option bytes))
    (prog : list cop) : list (option (bytes * bytes)) :=
  ri_run (restrict lo hi sn) (restrict lo hi ws) ri_init prog.
