(* Txn/WriteSet_proofs.v — proofs of the statements of Txn/WriteSetSpec.v:
   the write-set model refines the frame-stack specification, and rollback is exact. *)
From Coq Require Import List NArith Arith Bool Lia Sorted Permutation.
From SKV Require Import Base.Lex Txn.WriteSet Txn.WriteSetSpec.
Import ListNotations.

Arguments N.add : simpl never.
Arguments N.sub : simpl never.
Arguments N.eqb : simpl never.
Arguments N.ltb : simpl never.
Arguments N.leb : simpl never.

(* ------------------------------------------------------------------ *)
(* byte-string order *)

Lemma lex_cmp_refl : forall a, lex_cmp a a = Eq.
Proof.
  induction a as [|x a IH]; cbn [lex_cmp]; [reflexivity|].
  rewrite N.compare_refl. exact IH.
Qed.

Lemma lex_cmp_eq : forall a b, lex_cmp a b = Eq -> a = b.
Proof.
  induction a as [|x a IH]; destruct b as [|y b]; cbn [lex_cmp]; intros H; try discriminate; auto.
  destruct (N.compare x y) eqn:E; try discriminate.
  apply N.compare_eq in E. subst. f_equal. auto.
Qed.

Lemma bytes_eqb_eq : forall a b, bytes_eqb a b = true <-> a = b.
Proof.
  induction a as [|x a IH]; destruct b as [|y b]; cbn [bytes_eqb]; split; intros H; try discriminate; auto.
  - apply andb_true_iff in H. destruct H as [H1 H2]. apply N.eqb_eq in H1. apply IH in H2. subst; auto.
  - inversion H; subst. rewrite N.eqb_refl. cbn. apply IH. reflexivity.
Qed.

Lemma bytes_eqb_refl : forall a, bytes_eqb a a = true.
Proof. intros a. apply bytes_eqb_eq. reflexivity. Qed.

Lemma bytes_eqb_neq : forall a b, bytes_eqb a b = false <-> a <> b.
Proof.
  intros a b. split.
  - intros H E. apply bytes_eqb_eq in E. congruence.
  - intros H. destruct (bytes_eqb a b) eqn:E; auto. apply bytes_eqb_eq in E. contradiction.
Qed.

Lemma lex_cmp_antisym : forall a b, lex_cmp b a = CompOpp (lex_cmp a b).
Proof.
  induction a as [|x a IH]; destruct b as [|y b]; cbn [lex_cmp]; auto.
  rewrite (N.compare_antisym x y). destruct (N.compare x y); cbn [CompOpp]; auto.
Qed.

Lemma lex_cmp_lt_trans : forall a b c, lex_cmp a b = Lt -> lex_cmp b c = Lt -> lex_cmp a c = Lt.
Proof.
  induction a as [|x a IH]; destruct b as [|y b]; destruct c as [|z c]; cbn [lex_cmp];
    intros H1 H2; try discriminate; auto.
  destruct (N.compare x y) eqn:E1; try discriminate;
  destruct (N.compare y z) eqn:E2; try discriminate.
  - apply N.compare_eq in E1. apply N.compare_eq in E2. subst. rewrite N.compare_refl. eauto.
  - apply N.compare_eq in E1. subst. rewrite E2. reflexivity.
  - apply N.compare_eq in E2. subst. rewrite E1. reflexivity.
  - apply N.compare_lt_iff in E1. apply N.compare_lt_iff in E2.
    assert (E3 : N.compare x z = Lt) by (apply N.compare_lt_iff; eapply N.lt_trans; eauto). rewrite E3. reflexivity.
Qed.

Lemma lex_cmp_gt_lt : forall a b, lex_cmp a b = Gt -> lex_cmp b a = Lt.
Proof. intros a b H. rewrite lex_cmp_antisym, H. reflexivity. Qed.

(* ------------------------------------------------------------------ *)
(* sorted association lists *)

Fixpoint asorted {V : Type} (m : amap V) : Prop :=
  match m with
  | [] => True
  | (k, _) :: r => (forall k' v', In (k', v') r -> lex_cmp k k' = Lt) /\ asorted r
  end.

Lemma amap_get_set_same : forall V k (v : V) m, amap_get k (amap_set k v m) = Some v.
Proof.
  induction m as [|[k1 v1] r IH]; cbn [amap_set amap_get].
  - rewrite lex_cmp_refl. reflexivity.
  - destruct (lex_cmp k k1) eqn:E; cbn [amap_get]; rewrite ?lex_cmp_refl, ?E; auto.
Qed.

Lemma amap_get_set_other : forall V k k' (v : V) m, k' <> k -> amap_get k' (amap_set k v m) = amap_get k' m.
Proof.
  intros V k k' v m Hne.
  induction m as [|[k1 v1] r IH]; cbn [amap_set amap_get].
  - destruct (lex_cmp k' k) eqn:E; auto. apply lex_cmp_eq in E. contradiction.
  - destruct (lex_cmp k k1) eqn:E; cbn [amap_get].
    + apply lex_cmp_eq in E. subst k1.
      destruct (lex_cmp k' k) eqn:E2; auto. apply lex_cmp_eq in E2. contradiction.
    + destruct (lex_cmp k' k) eqn:E2; auto.
      * apply lex_cmp_eq in E2. contradiction.
      * rewrite (lex_cmp_lt_trans _ _ _ E2 E). reflexivity.
    + destruct (lex_cmp k' k1); auto.
Qed.

Lemma amap_set_in : forall V k (v : V) m k' v',
  In (k', v') (amap_set k v m) -> (k' = k /\ v' = v) \/ In (k', v') m.
Proof.
  induction m as [|[k1 v1] r IH]; cbn [amap_set]; intros k' v' H.
  - destruct H as [H|[]]. inversion H; auto.
  - destruct (lex_cmp k k1) eqn:E.
    + destruct H as [H|H]; [inversion H; auto| right; right; auto].
    + destruct H as [H|H]; [inversion H; auto| right; auto].
    + destruct H as [H|H]; [right; left; auto|].
      apply IH in H. destruct H; auto. right; right; auto.
Qed.

Lemma asorted_set : forall V k (v : V) m, asorted m -> asorted (amap_set k v m).
Proof.
  induction m as [|[k1 v1] r IH]; cbn [amap_set asorted].
  - intros _. split; auto. intros ? ? [].
  - intros [H1 H2]. destruct (lex_cmp k k1) eqn:E; cbn [asorted].
    + apply lex_cmp_eq in E. subst k1. auto.
    + split; [|split; auto]. intros k' v' [H|H].
      * inversion H; subst; auto.
      * eapply lex_cmp_lt_trans; eauto.
    + split; auto. intros k' v' H. apply amap_set_in in H. destruct H as [[-> ->]|H].
      * apply lex_cmp_gt_lt; auto.
      * eauto.
Qed.

Lemma amap_get_above : forall V (r : amap V) k k1,
  (forall k' v', In (k', v') r -> lex_cmp k1 k' = Lt) -> lex_cmp k k1 <> Gt -> amap_get k r = None.
Proof.
  intros V r k k1 H Hc. destruct r as [|[k2 v2] r]; cbn [amap_get]; auto.
  assert (H2 : lex_cmp k1 k2 = Lt) by (eapply H; left; reflexivity).
  assert (H3 : lex_cmp k k2 = Lt).
  { destruct (lex_cmp k k1) eqn:E.
    - apply lex_cmp_eq in E. subst; auto.
    - eapply lex_cmp_lt_trans; eauto.
    - contradiction. }
  rewrite H3. reflexivity.
Qed.

Lemma amap_get_mapv : forall V W (f : V -> W) (m : amap V) k,
  amap_get k (map (fun '(k, v) => (k, f v)) m) = option_map f (amap_get k m).
Proof.
  induction m as [|[k1 v1] r IH]; intros k; cbn [map amap_get]; auto.
  destruct (lex_cmp k k1); cbn [option_map]; auto.
Qed.

Lemma asorted_mapv : forall V W (f : V -> W) (m : amap V),
  asorted m -> asorted (map (fun '(k, v) => (k, f v)) m).
Proof.
  induction m as [|[k1 v1] r IH]; cbn [map asorted]; auto.
  intros [H1 H2]. split; auto.
  intros k' v' H. apply in_map_iff in H. destruct H as [[k2 v2] [H3 H4]]. inversion H3; subst. eauto.
Qed.

Lemma asorted_filter : forall V (P : bytes * V -> bool) (m : amap V), asorted m -> asorted (filter P m).
Proof.
  induction m as [|[k1 v1] r IH]; cbn [filter asorted]; auto.
  intros [H1 H2]. destruct (P (k1, v1)); cbn [asorted]; auto.
  split; auto. intros k' v' H. apply filter_In in H. destruct H. eauto.
Qed.

(* ------------------------------------------------------------------ *)
(* list helpers *)

Lemma list_rcases : forall A (l : list A), l = [] \/ exists l' x, l = l' ++ [x].
Proof.
  intros A l. destruct l as [|a l]; [left; reflexivity|right].
  destruct (@exists_last A (a :: l)) as [l' [x H]]; [discriminate|]. eauto.
Qed.

Lemma filter_map_comm : forall A B (f : A -> B) (P : B -> bool) l,
  filter P (map f l) = map f (filter (fun x => P (f x)) l).
Proof.
  induction l as [|a l IH]; cbn [map filter]; auto.
  destruct (P (f a)); cbn [map]; rewrite IH; reflexivity.
Qed.

Lemma last_map_some : forall A B (f : A -> B) l,
  last (map Some (map f l)) None = option_map f (last (map Some l) None).
Proof.
  intros A B f l. destruct (list_rcases _ l) as [->|[l' [x ->]]]; [reflexivity|].
  rewrite !map_app. cbn [map]. rewrite !last_last. reflexivity.
Qed.

Lemma existsb_map : forall A B (f : A -> B) (P : B -> bool) l,
  existsb P (map f l) = existsb (fun x => P (f x)) l.
Proof. induction l as [|a l IH]; cbn [map existsb]; auto. rewrite IH. reflexivity. Qed.

Lemma filter_none : forall A (P : A -> bool) l, existsb P l = false -> filter P l = [].
Proof.
  induction l as [|a l IH]; cbn [existsb filter]; auto.
  intros H. apply orb_false_iff in H. destruct H as [H1 H2]. rewrite H1. auto.
Qed.

Lemma filter_some : forall A (P : A -> bool) l, existsb P l = true -> filter P l <> [].
Proof.
  induction l as [|a l IH]; cbn [existsb filter]; [discriminate|].
  intros H. destruct (P a); [discriminate|]. cbn in H. auto.
Qed.

Lemma filter_id : forall A (P : A -> bool) l, Forall (fun x => P x = true) l -> filter P l = l.
Proof.
  induction l as [|a l IH]; cbn [filter]; auto.
  intros H. inversion H; subst. rewrite H2. f_equal. auto.
Qed.

Lemma filter_nil : forall A (P : A -> bool) l, Forall (fun x => P x = false) l -> filter P l = [].
Proof.
  induction l as [|a l IH]; cbn [filter]; auto.
  intros H. inversion H; subst. rewrite H2. auto.
Qed.

Lemma filter_filter_comm : forall A (P Q : A -> bool) l, filter P (filter Q l) = filter Q (filter P l).
Proof.
  induction l as [|a l IH]; cbn [filter]; auto.
  destruct (Q a) eqn:EQ, (P a) eqn:EP; cbn [filter]; rewrite ?EQ, ?EP, IH; reflexivity.
Qed.

Lemma filter_split_perm : forall A (P : A -> bool) l,
  Permutation l (filter P l ++ filter (fun x => negb (P x)) l).
Proof.
  induction l as [|a l IH]; cbn [filter]; auto.
  destruct (P a); cbn [negb app].
  - constructor. exact IH.
  - apply Permutation_cons_app. exact IH.
Qed.

(* StronglySorted over an append *)
Lemma ssorted_app_iff : forall A (Rel : A -> A -> Prop) l1 l2,
  StronglySorted Rel (l1 ++ l2) <->
  StronglySorted Rel l1 /\ StronglySorted Rel l2 /\ (forall x y, In x l1 -> In y l2 -> Rel x y).
Proof.
  induction l1 as [|a l1 IH]; intros l2; cbn [app].
  - split.
    + intros H. repeat split; auto. constructor. intros ? ? [].
    + intros [_ [H _]]. exact H.
  - split.
    + intros H. apply StronglySorted_inv in H. destruct H as [H1 H2].
      apply IH in H1. destruct H1 as [Ha [Hb Hc]]. apply Forall_app in H2. destruct H2 as [F1 F2].
      repeat split; auto.
      * constructor; auto.
      * intros x y [->|Hx] Hy; [|auto]. rewrite Forall_forall in F2. auto.
    + intros [Ha [Hb Hc]]. apply StronglySorted_inv in Ha. destruct Ha as [Ha1 Ha2].
      constructor.
      * apply IH. repeat split; auto. intros; apply Hc; auto. right; auto.
      * apply Forall_app. split; auto. apply Forall_forall. intros y Hy. apply Hc; auto. left; auto.
Qed.

(* ------------------------------------------------------------------ *)
(* sorting by seqno *)

Definition sle (a b : nat * bwrite) : Prop := fst a <= fst b.
Definition slt (a b : nat * bwrite) : Prop := fst a < fst b.

Lemma insert_perm : forall x l, Permutation (insert_by_seqno x l) (x :: l).
Proof.
  induction l as [|y r IH]; cbn [insert_by_seqno]; auto.
  destruct (fst x <? fst y); auto.
  eapply perm_trans; [apply perm_skip; exact IH|]. apply perm_swap.
Qed.

Lemma insert_sorted : forall x l, StronglySorted sle l -> StronglySorted sle (insert_by_seqno x l).
Proof.
  induction l as [|y r IH]; cbn [insert_by_seqno]; intros H.
  - constructor; auto.
  - apply StronglySorted_inv in H. destruct H as [H1 H2].
    destruct (fst x <? fst y) eqn:E.
    + apply Nat.ltb_lt in E. constructor.
      * constructor; auto.
      * constructor; [unfold sle; lia|]. eapply Forall_impl; [|exact H2]. unfold sle. intros; lia.
    + apply Nat.ltb_ge in E. constructor; auto.
      apply Forall_forall. intros z Hz.
      apply (Permutation_in _ (insert_perm x r)) in Hz. destruct Hz as [<-|Hz]; [exact E|].
      rewrite Forall_forall in H2. auto.
Qed.

Definition isort (l : list (nat * bwrite)) := fold_left (fun acc x => insert_by_seqno x acc) l [].

Lemma fold_insert_perm : forall l acc,
  Permutation (fold_left (fun acc x => insert_by_seqno x acc) l acc) (l ++ acc).
Proof.
  induction l as [|x l IH]; intros acc; cbn [fold_left app]; auto.
  eapply perm_trans; [apply IH|].
  eapply perm_trans; [apply Permutation_app_head; apply insert_perm|].
  apply Permutation_sym. apply Permutation_middle.
Qed.

Lemma fold_insert_sorted : forall l acc, StronglySorted sle acc ->
  StronglySorted sle (fold_left (fun acc x => insert_by_seqno x acc) l acc).
Proof.
  induction l as [|x l IH]; intros acc H; cbn [fold_left]; auto.
  apply IH. apply insert_sorted. exact H.
Qed.

Lemma sorted_perm_unique : forall B A, StronglySorted slt B -> StronglySorted sle A -> Permutation A B -> A = B.
Proof.
  induction B as [|b B IH]; intros A HB HA HP.
  - apply Permutation_sym in HP. apply Permutation_nil in HP. exact HP.
  - destruct A as [|a A]; [apply Permutation_nil in HP; discriminate|].
    apply StronglySorted_inv in HB. destruct HB as [HB1 HB2].
    apply StronglySorted_inv in HA. destruct HA as [HA1 HA2].
    assert (Eab : a = b).
    { assert (Ha : In a (b :: B)) by (eapply Permutation_in; [exact HP|left; reflexivity]).
      assert (Hb : In b (a :: A)) by (eapply Permutation_in; [apply Permutation_sym; exact HP|left; reflexivity]).
      destruct Ha as [Ha|Ha]; [auto|]. destruct Hb as [Hb|Hb]; [auto|].
      rewrite Forall_forall in HB2, HA2. specialize (HB2 _ Ha). specialize (HA2 _ Hb).
      unfold slt, sle in *. lia. }
    subst a. f_equal. apply IH; auto. eapply Permutation_cons_inv. exact HP.
Qed.

Lemma isort_unique : forall X Y, StronglySorted slt Y -> Permutation X Y -> isort X = Y.
Proof.
  intros X Y HY HP. apply sorted_perm_unique; auto.
  - apply fold_insert_sorted. constructor.
  - unfold isort. eapply perm_trans; [apply fold_insert_perm|]. rewrite app_nil_r. exact HP.
Qed.

(* ------------------------------------------------------------------ *)
(* tagged frames: the frame specification with every write carrying its issue number *)

Definition tpw := (pw * nat)%type.
Definition tframes := list (list tpw).
Definition untag (tfs : tframes) : frames := map (map fst) tfs.
Definition tkeyb (k : bytes) (t : tpw) : bool := bytes_eqb (p_key (fst t)) k.
Definition to_entry (i : nat) (t : tpw) : entry :=
  {| e_kind := p_kind (fst t); e_val := p_val (fst t); e_sp := i; e_seqno := snd t; e_ts := p_ts (fst t) |}.
Definition tagk (i : nat) (t : tpw) : bytes * entry := (p_key (fst t), to_entry i t).

(* all surviving writes as (key, entry), in issue order; e_sp = index of the frame from the bottom *)
Fixpoint tall (tfs : tframes) : list (bytes * entry) :=
  match tfs with
  | [] => []
  | top :: rest => tall rest ++ map (tagk (length rest)) top
  end.

Definition keyb (k : bytes) (x : bytes * entry) : bool := bytes_eqb (fst x) k.
Definition grp (k : bytes) (L : list (bytes * entry)) : list entry := map snd (filter (keyb k) L).
Definition entries_of (m : amap (list entry)) (k : bytes) : list entry :=
  match amap_get k m with None => [] | Some es => es end.
Definition pw_of (x : bytes * entry) : pw :=
  {| p_key := fst x; p_kind := e_kind (snd x); p_val := e_val (snd x); p_ts := e_ts (snd x) |}.
Definition seqs (L : list (bytes * entry)) : list nat := map (fun x => e_seqno (snd x)) L.

Fixpoint tremove_last_of (k : bytes) (f : list tpw) : list tpw :=
  match f with
  | [] => []
  | t :: r => if tkeyb k t && negb (existsb (tkeyb k) r) then r else t :: tremove_last_of k r
  end.
Definition tlast_of (k : bytes) (f : list tpw) : option tpw := last (map Some (filter (tkeyb k) f)) None.
Definition tf_write (tfs : tframes) (t : tpw) : tframes :=
  match tfs with
  | [] => [[t]]
  | top :: rest =>
    match tlast_of (p_key (fst t)) top with
    | Some l => if distinct_explicit (p_ts (fst l)) (p_ts (fst t)) then (top ++ [t]) :: rest
                else (tremove_last_of (p_key (fst t)) top ++ [t]) :: rest
    | None => (top ++ [t]) :: rest
    end
  end.

Lemma existsb_untag : forall k r, existsb (fun x => bytes_eqb (p_key x) k) (map fst r) = existsb (tkeyb k) r.
Proof. induction r as [|t r IH]; cbn [map existsb]; auto. rewrite IH. reflexivity. Qed.

Lemma untag_remove : forall k f, map fst (tremove_last_of k f) = remove_last_of k (map fst f).
Proof.
  induction f as [|t r IH]; cbn [tremove_last_of remove_last_of map]; auto.
  rewrite existsb_untag. fold (tkeyb k t).
  destruct (tkeyb k t && negb (existsb (tkeyb k) r)); cbn [map]; auto.
  rewrite IH. reflexivity.
Qed.

Lemma untag_last_of : forall k f, last_of k (map fst f) = option_map fst (tlast_of k f).
Proof.
  intros k f. unfold last_of, tlast_of. rewrite filter_map_comm. apply last_map_some.
Qed.

Lemma untag_tf_write : forall tfs t, untag (tf_write tfs t) = f_write (untag tfs) (fst t).
Proof.
  intros [|top rest] t; cbn [tf_write untag map f_write]; auto.
  rewrite untag_last_of.
  destruct (tlast_of (p_key (fst t)) top) as [l|]; cbn [option_map].
  - destruct (distinct_explicit (p_ts (fst l)) (p_ts (fst t))); cbn [untag map].
    + rewrite map_app. reflexivity.
    + rewrite map_app, untag_remove. reflexivity.
  - cbn [untag map]. rewrite map_app. reflexivity.
Qed.

Lemma tremove_filter_same : forall k f,
  filter (tkeyb k) (tremove_last_of k f) = removelast (filter (tkeyb k) f).
Proof.
  induction f as [|t r IH]; cbn [tremove_last_of filter]; auto.
  destruct (tkeyb k t) eqn:E1; cbn [andb].
  - destruct (existsb (tkeyb k) r) eqn:E2; cbn [negb].
    + cbn [filter]. rewrite E1, IH.
      pose proof (filter_some _ _ _ E2) as Hne.
      destruct (filter (tkeyb k) r); [contradiction|]. reflexivity.
    + rewrite (filter_none _ _ _ E2). reflexivity.
  - cbn [filter]. rewrite E1. exact IH.
Qed.

Lemma tkeyb_trans_false : forall k k' t, k' <> k -> tkeyb k t = true -> tkeyb k' t = false.
Proof.
  unfold tkeyb. intros k k' t Hne H. apply bytes_eqb_eq in H. apply bytes_eqb_neq. congruence.
Qed.

Lemma tremove_filter_other : forall k k' f, k' <> k ->
  filter (tkeyb k') (tremove_last_of k f) = filter (tkeyb k') f.
Proof.
  intros k k' f Hne. induction f as [|t r IH]; cbn [tremove_last_of filter]; auto.
  destruct (tkeyb k t) eqn:E1; cbn [andb].
  - rewrite (tkeyb_trans_false _ _ _ Hne E1).
    destruct (existsb (tkeyb k) r); cbn [negb]; auto.
    cbn [filter]. rewrite (tkeyb_trans_false _ _ _ Hne E1). exact IH.
  - cbn [filter]. rewrite IH. reflexivity.
Qed.

Lemma tremove_incl : forall k f, incl (tremove_last_of k f) f.
Proof.
  induction f as [|t r IH]; cbn [tremove_last_of]; [apply incl_refl|].
  destruct (tkeyb k t && negb (existsb (tkeyb k) r)).
  - apply incl_tl, incl_refl.
  - apply incl_cons; [left; reflexivity|apply incl_tl; exact IH].
Qed.

Lemma tremove_sorted : forall k f, StronglySorted lt (map snd f) -> StronglySorted lt (map snd (tremove_last_of k f)).
Proof.
  induction f as [|t r IH]; cbn [tremove_last_of map]; auto.
  intros H. apply StronglySorted_inv in H. destruct H as [H1 H2].
  destruct (tkeyb k t && negb (existsb (tkeyb k) r)); auto.
  cbn [map]. constructor; auto.
  apply Forall_forall. intros y Hy. apply in_map_iff in Hy. destruct Hy as [z [<- Hz]].
  apply tremove_incl in Hz. rewrite Forall_forall in H2. apply H2. apply in_map. exact Hz.
Qed.

(* tall / grp / seqs algebra *)
Lemma grp_app : forall k L1 L2, grp k (L1 ++ L2) = grp k L1 ++ grp k L2.
Proof. intros. unfold grp. rewrite filter_app, map_app. reflexivity. Qed.

Lemma grp_tagk : forall k i f, grp k (map (tagk i) f) = map (to_entry i) (filter (tkeyb k) f).
Proof.
  intros k i f. unfold grp. rewrite filter_map_comm, map_map. cbn [tagk snd].
  reflexivity.
Qed.

Lemma grp_tall_cons : forall k top rest,
  grp k (tall (top :: rest)) = grp k (tall rest) ++ map (to_entry (length rest)) (filter (tkeyb k) top).
Proof. intros. cbn [tall]. rewrite grp_app, grp_tagk. reflexivity. Qed.

Lemma seqs_tall_cons : forall top rest, seqs (tall (top :: rest)) = seqs (tall rest) ++ map snd top.
Proof.
  intros. cbn [tall]. unfold seqs. rewrite map_app, map_map. reflexivity.
Qed.

Lemma tall_sp_lt : forall tfs, Forall (fun x => e_sp (snd x) < length tfs) (tall tfs).
Proof.
  induction tfs as [|top rest IH]; cbn [tall length]; [constructor|].
  apply Forall_app. split.
  - eapply Forall_impl; [|exact IH]. cbn. intros; lia.
  - apply Forall_forall. intros x Hx. apply in_map_iff in Hx. destruct Hx as [t [<- _]]. cbn. lia.
Qed.

Lemma pw_of_tagk : forall i t, pw_of (tagk i t) = fst t.
Proof. intros i [[k kd v ts] q]. reflexivity. Qed.

Lemma f_all_untag : forall tfs, f_all (untag tfs) = map pw_of (tall tfs).
Proof.
  unfold f_all. induction tfs as [|top rest IH]; cbn [untag map rev tall]; auto.
  rewrite concat_app, map_app. cbn [concat]. rewrite app_nil_r.
  unfold untag in IH. rewrite IH. f_equal.
  rewrite map_map. apply map_ext. intros t. rewrite pw_of_tagk. reflexivity.
Qed.

(* ------------------------------------------------------------------ *)
(* entries_of through the map operations *)

Lemma entries_of_set : forall m key v k,
  entries_of (amap_set key v m) k = if bytes_eqb k key then v else entries_of m k.
Proof.
  intros m key v k. unfold entries_of. destruct (bytes_eqb k key) eqn:E.
  - apply bytes_eqb_eq in E. subst. rewrite amap_get_set_same. reflexivity.
  - apply bytes_eqb_neq in E. rewrite amap_get_set_other; auto.
Qed.

Lemma entries_of_mapv : forall (f : list entry -> list entry) m k, f [] = [] ->
  entries_of (map (fun '(k, es) => (k, f es)) m) k = f (entries_of m k).
Proof.
  intros f m k Hf. unfold entries_of. rewrite amap_get_mapv.
  destruct (amap_get k m); cbn [option_map]; auto.
Qed.

Definition nonempty_b (p : bytes * list entry) : bool :=
  let '(_, es) := p in match es with [] => false | _ => true end.

Lemma entries_of_filter_nonempty : forall m k, asorted m ->
  entries_of (filter nonempty_b m) k = entries_of m k.
Proof.
  induction m as [|[k1 v1] r IH]; intros k Hs; cbn [filter]; auto.
  destruct Hs as [H1 H2]. specialize (IH k H2).
  destruct v1 as [|e v1]; cbn [nonempty_b].
  - rewrite IH. unfold entries_of. cbn [amap_get].
    destruct (lex_cmp k k1) eqn:E; auto;
      rewrite (amap_get_above _ r k k1 H1) by (rewrite E; discriminate); reflexivity.
  - unfold entries_of in *. cbn [amap_get]. destruct (lex_cmp k k1); auto.
Qed.

(* the flattened map is a permutation of any list it is the grouping of *)
Definition flatE (m : amap (list entry)) : list (bytes * entry) :=
  flat_map (fun '(k, es) => map (pair k) es) m.

Lemma regroup_key : forall k L, map (pair k) (grp k L) = filter (keyb k) L.
Proof.
  intros k L. unfold grp. induction L as [|[k' e] L IH]; cbn [filter map]; auto.
  destruct (keyb k (k', e)) eqn:E; auto.
  cbn [map snd]. unfold keyb in E. cbn [fst] in E. apply bytes_eqb_eq in E. subst. f_equal. exact IH.
Qed.

Lemma flatE_perm : forall m, asorted m -> forall L,
  (forall k, entries_of m k = grp k L) -> Permutation (flatE m) L.
Proof.
  induction m as [|[k1 v1] r IH]; intros Hs L H.
  - destruct L as [|[k e] L]; [constructor|].
    specialize (H k). unfold entries_of, grp in H. cbn [amap_get filter] in H.
    unfold keyb at 1 in H. cbn [fst] in H. rewrite bytes_eqb_refl in H. discriminate.
  - destruct Hs as [H1 H2]. cbn [flatE flat_map]. fold (flatE r).
    eapply perm_trans; [|apply Permutation_sym; apply (filter_split_perm _ (keyb k1))].
    apply Permutation_app.
    + pose proof (H k1) as Hk. unfold entries_of in Hk. cbn [amap_get] in Hk.
      rewrite lex_cmp_refl in Hk. subst v1. rewrite regroup_key. apply Permutation_refl.
    + apply IH; auto. intros k.
      unfold grp.
      destruct (bytes_eqb k k1) eqn:E.
      * apply bytes_eqb_eq in E. subst k.
        rewrite (filter_nil _ (keyb k1) (filter (fun x => negb (keyb k1 x)) L)).
        2:{ apply Forall_forall. intros x Hx. apply filter_In in Hx. destruct Hx as [_ Hx].
            destruct (keyb k1 x); auto; discriminate. }
        unfold entries_of. rewrite (amap_get_above _ r k1 k1 H1); auto.
        rewrite lex_cmp_refl. discriminate.
      * rewrite filter_filter_comm.
        rewrite (filter_id _ (fun x => negb (keyb k1 x)) (filter (keyb k) L)).
        2:{ apply Forall_forall. intros x Hx. apply filter_In in Hx. destruct Hx as [_ Hx].
            unfold keyb in *. apply bytes_eqb_eq in Hx. rewrite Hx, E. reflexivity. }
        fold (grp k L). rewrite <- H. unfold entries_of. cbn [amap_get].
        destruct (lex_cmp k k1) eqn:E2; auto.
        -- apply lex_cmp_eq in E2. subst. rewrite bytes_eqb_refl in E. discriminate.
        -- rewrite (amap_get_above _ r k k1 H1); auto. rewrite E2. discriminate.
Qed.

(* ------------------------------------------------------------------ *)
(* the abstraction relation *)

Record R (s : wset) (tfs : tframes) : Prop := {
  R_sorted : asorted (ws_map s);
  R_grp : forall k, entries_of (ws_map s) k = grp k (tall tfs);
  R_seq : StronglySorted lt (seqs (tall tfs));
  R_bound : forall n, In n (seqs (tall tfs)) -> n <= ws_seqno s;
  R_depth : S (ws_savepoints s) = length tfs }.

Lemma R_init : R ws_empty [[]].
Proof.
  constructor; cbn; auto.
  - constructor.
  - intros n [].
Qed.

(* observables *)
Definition bw_of (x : bytes * entry) : nat * bwrite :=
  (e_seqno (snd x), {| b_kind := e_kind (snd x); b_key := fst x; b_val := e_val (snd x); b_ts := e_ts (snd x) |}).

Lemma ws_batch_flatE : forall s, ws_batch s = map snd (isort (map bw_of (flatE (ws_map s)))).
Proof.
  intros s. unfold ws_batch, isort. do 2 f_equal.
  unfold flatE. induction (ws_map s) as [|[k es] r IH]; cbn [flat_map map]; auto.
  rewrite map_app, IH, map_map. reflexivity.
Qed.

Lemma ssorted_map_slt : forall L, StronglySorted lt (seqs L) -> StronglySorted slt (map bw_of L).
Proof.
  induction L as [|x L IH]; cbn [seqs map]; intros H; [constructor|].
  apply StronglySorted_inv in H. destruct H as [H1 H2]. constructor; auto.
  apply Forall_forall. intros y Hy. apply in_map_iff in Hy. destruct Hy as [z [<- Hz]].
  rewrite Forall_forall in H2. unfold slt, bw_of. cbn [fst]. apply H2.
  unfold seqs. apply in_map_iff. exists z; auto.
Qed.

Lemma R_obs : forall s tfs, R s tfs -> m_obs_eq_frames s (untag tfs).
Proof.
  intros s tfs [Hs Hg Hq Hb Hd]. unfold m_obs_eq_frames. repeat split.
  - intros k. unfold ws_get, f_get, ws_last, last_of.
    rewrite f_all_untag, filter_map_comm.
    change (fun x : bytes * entry => bytes_eqb (p_key (pw_of x)) k) with (keyb k).
    specialize (Hg k). unfold entries_of in Hg.
    assert (Hl : match amap_get k (ws_map s) with Some es => last (map Some es) None | None => None end
                 = option_map snd (last (map Some (filter (keyb k) (tall tfs))) None)).
    { rewrite <- last_map_some. fold (grp k (tall tfs)). rewrite <- Hg.
      destruct (amap_get k (ws_map s)); reflexivity. }
    rewrite Hl, last_map_some.
    destruct (last (map Some (filter (keyb k) (tall tfs))) None) as [[k' e]|]; reflexivity.
  - rewrite ws_batch_flatE. unfold f_batch. rewrite f_all_untag, map_map.
    rewrite (isort_unique _ (map bw_of (tall tfs))).
    + rewrite map_map. apply map_ext. intros [k e]. reflexivity.
    + apply ssorted_map_slt; auto.
    + apply Permutation_map. apply flatE_perm; auto.
  - unfold untag. rewrite map_length. exact Hd.
  - unfold ws_rollback_to_savepoint. intros H.
    destruct (ws_savepoints s) eqn:E; [|discriminate].
    destruct tfs as [|t1 [|t2 tfs]]; cbn in *; auto; discriminate.
  - unfold ws_rollback_to_savepoint. intros H.
    destruct (ws_savepoints s) eqn:E; auto.
    destruct tfs as [|t1 [|t2 tfs]]; cbn in *; discriminate.
Qed.

(* ------------------------------------------------------------------ *)
(* steps preserve the relation *)

Lemma R_savepoint : forall s tfs, R s tfs -> R (ws_set_savepoint s) ([] :: tfs).
Proof.
  intros s tfs [Hs Hg Hq Hb Hd].
  constructor; cbn [ws_set_savepoint ws_map ws_savepoints ws_seqno tall map length]; rewrite ?app_nil_r; auto.
Qed.

Lemma R_rollback : forall s top next rest, R s (top :: next :: rest) ->
  exists s', ws_rollback_to_savepoint s = Some s' /\ R s' (next :: rest).
Proof.
  intros s top next rest [Hs Hg Hq Hb Hd].
  unfold ws_rollback_to_savepoint. cbn [length] in Hd.
  destruct (ws_savepoints s) as [|n] eqn:En; [discriminate|].
  eexists. split; [reflexivity|].
  set (P := fun e : entry => negb (e_sp e =? S n)).
  constructor; cbn [ws_map ws_savepoints ws_seqno].
  - apply asorted_filter. apply (asorted_mapv _ _ (filter P)). exact Hs.
  - intros k.
    change (fun '(_, es) => match es with [] => false | _ :: _ => true end) with nonempty_b.
    rewrite entries_of_filter_nonempty by (apply (asorted_mapv _ _ (filter P)); exact Hs).
    rewrite (entries_of_mapv (filter P)) by reflexivity.
    rewrite Hg, (grp_tall_cons k top (next :: rest)), filter_app.
    rewrite filter_id, filter_nil, app_nil_r; auto.
    + apply Forall_forall. intros e He. apply in_map_iff in He. destruct He as [t [<- _]].
      unfold P. cbn [to_entry e_sp length]. replace (length rest) with n by lia.
      rewrite Nat.eqb_refl. reflexivity.
    + apply Forall_forall. intros e He. unfold grp in He. apply in_map_iff in He.
      destruct He as [x [<- Hx]]. apply filter_In in Hx. destruct Hx as [Hx _].
      pose proof (tall_sp_lt (next :: rest)) as Hlt. rewrite Forall_forall in Hlt.
      specialize (Hlt _ Hx). cbn [length] in Hlt. unfold P.
      destruct (Nat.eqb_spec (e_sp (snd x)) (S n)); [lia|reflexivity].
  - rewrite seqs_tall_cons in Hq. apply ssorted_app_iff in Hq. tauto.
  - intros m Hm. apply Hb. rewrite seqs_tall_cons. apply in_app_iff. auto.
  - cbn [length]. lia.
Qed.

Definition new_entries (es : list entry) (e : entry) (ts : N) : list entry :=
  match rev es with
  | [] => [e]
  | l :: before =>
    if Nat.eqb (e_sp l) (e_sp e) then
      if negb (N.eqb (e_ts l) COMMIT_TIME) && negb (N.eqb ts COMMIT_TIME) && negb (N.eqb (e_ts l) ts)
      then es ++ [e] else rev before ++ [e]
    else es ++ [e]
  end.

Lemma ws_write_map : forall s key k v ts,
  ws_map (ws_write s key k v ts) =
  amap_set key (new_entries (entries_of (ws_map s) key)
     {| e_kind := k; e_val := v; e_sp := ws_savepoints s; e_seqno := S (ws_seqno s); e_ts := ts |} ts) (ws_map s).
Proof.
  intros. unfold ws_write, entries_of, new_entries. cbn [ws_map].
  destruct (amap_get key (ws_map s)); reflexivity.
Qed.

Definition new_top_filter (F : list tpw) (t : tpw) : list tpw :=
  match last (map Some F) None with
  | Some l => if distinct_explicit (p_ts (fst l)) (p_ts (fst t)) then F ++ [t] else removelast F ++ [t]
  | None => F ++ [t]
  end.

Lemma new_entries_spec : forall G F d t, Forall (fun e => e_sp e < d) G ->
  new_entries (G ++ map (to_entry d) F) (to_entry d t) (p_ts (fst t)) =
  G ++ map (to_entry d) (new_top_filter F t).
Proof.
  intros G F d t HG. unfold new_entries, new_top_filter.
  destruct (list_rcases _ F) as [->|[F' [l ->]]].
  - cbn [map last app]. rewrite app_nil_r.
    destruct (list_rcases _ G) as [->|[G' [g ->]]]; [reflexivity|].
    rewrite rev_unit. apply Forall_app in HG. destruct HG as [_ HG]. inversion HG; subst.
    cbn [to_entry e_sp].
    destruct (Nat.eqb_spec (e_sp g) d); [lia|reflexivity].
  - rewrite (map_app Some). cbn [map]. rewrite last_last.
    rewrite map_app. cbn [map]. rewrite app_assoc, rev_unit.
    cbn [to_entry e_sp e_ts]. rewrite Nat.eqb_refl.
    change (negb (N.eqb (p_ts (fst l)) COMMIT_TIME) && negb (N.eqb (p_ts (fst t)) COMMIT_TIME) &&
            negb (N.eqb (p_ts (fst l)) (p_ts (fst t)))) with (distinct_explicit (p_ts (fst l)) (p_ts (fst t))).
    destruct (distinct_explicit (p_ts (fst l)) (p_ts (fst t))).
    + rewrite !map_app. cbn [map]. rewrite <- !app_assoc. reflexivity.
    + rewrite rev_involutive, removelast_last, map_app. cbn [map]. rewrite <- app_assoc. reflexivity.
Qed.

Lemma tf_write_shape : forall top rest t, exists top',
  tf_write (top :: rest) t = top' :: rest /\
  filter (tkeyb (p_key (fst t))) top' = new_top_filter (filter (tkeyb (p_key (fst t))) top) t /\
  (forall k', k' <> p_key (fst t) -> filter (tkeyb k') top' = filter (tkeyb k') top) /\
  exists X, top' = X ++ [t] /\ incl X top /\ (StronglySorted lt (map snd top) -> StronglySorted lt (map snd X)).
Proof.
  intros top rest t. set (key := p_key (fst t)).
  assert (Kt : tkeyb key t = true) by (unfold tkeyb, key; apply bytes_eqb_refl).
  assert (Kt' : forall k', k' <> key -> tkeyb k' t = false).
  { intros k' Hne. unfold tkeyb. apply bytes_eqb_neq. fold key. congruence. }
  assert (Push : forall top', top' = top ++ [t] ->
    filter (tkeyb key) top' = filter (tkeyb key) top ++ [t] /\
    (forall k', k' <> key -> filter (tkeyb k') top' = filter (tkeyb k') top) /\
    exists X, top' = X ++ [t] /\ incl X top /\ (StronglySorted lt (map snd top) -> StronglySorted lt (map snd X))).
  { intros top' ->. split; [|split].
    - rewrite filter_app. cbn [filter]. rewrite Kt. reflexivity.
    - intros k' Hne. rewrite filter_app. cbn [filter]. rewrite (Kt' _ Hne), app_nil_r. reflexivity.
    - exists top. split; [reflexivity|]. split; [apply incl_refl|auto]. }
  cbn [tf_write]. fold key. unfold new_top_filter, tlast_of.
  destruct (last (map Some (filter (tkeyb key) top)) None) as [l|].
  - destruct (distinct_explicit (p_ts (fst l)) (p_ts (fst t))).
    + eexists. split; [reflexivity|]. apply Push. reflexivity.
    + eexists. split; [reflexivity|]. split; [|split].
      * rewrite filter_app, tremove_filter_same. cbn [filter]. rewrite Kt. reflexivity.
      * intros k' Hne. rewrite filter_app, tremove_filter_other by exact Hne.
        cbn [filter]. rewrite (Kt' _ Hne), app_nil_r. reflexivity.
      * exists (tremove_last_of key top). split; [reflexivity|]. split; [apply tremove_incl|apply tremove_sorted].
  - eexists. split; [reflexivity|]. apply Push. reflexivity.
Qed.

Lemma seq_step : forall A B X q b,
  StronglySorted lt (A ++ B) -> (forall n, In n (A ++ B) -> n <= b) -> b < q ->
  StronglySorted lt X -> incl X B ->
  StronglySorted lt (A ++ X ++ [q]) /\ (forall n, In n (A ++ X ++ [q]) -> n <= q).
Proof.
  intros A B X q b HS HB Hq HX Hi.
  apply ssorted_app_iff in HS. destruct HS as [HA [HB' HC]].
  assert (BA : forall n, In n A -> n <= b) by (intros; apply HB; apply in_app_iff; auto).
  assert (BX : forall n, In n X -> n <= b) by (intros; apply HB; apply in_app_iff; auto).
  split.
  - apply ssorted_app_iff. split; [auto|]. split.
    + apply ssorted_app_iff. split; [auto|]. split; [repeat constructor|].
      intros x y Hx [<-|[]]. specialize (BX _ Hx). lia.
    + intros x y Hx Hy. apply in_app_iff in Hy. destruct Hy as [Hy|[<-|[]]].
      * apply HC; auto.
      * specialize (BA _ Hx). lia.
  - intros n Hn. apply in_app_iff in Hn. destruct Hn as [Hn|Hn]; [specialize (BA _ Hn); lia|].
    apply in_app_iff in Hn. destruct Hn as [Hn|[<-|[]]]; [specialize (BX _ Hn); lia|lia].
Qed.

Lemma R_write : forall s tfs w, R s tfs ->
  R (ws_write s (p_key w) (p_kind w) (p_val w) (p_ts w)) (tf_write tfs (w, S (ws_seqno s))).
Proof.
  intros s tfs w [Hs Hg Hq Hb Hd].
  destruct tfs as [|top rest]; [discriminate|]. cbn [length] in Hd.
  set (t := (w, S (ws_seqno s))).
  destruct (tf_write_shape top rest t) as [top' [Etf [Fk [Fo [X [EX [IX SX]]]]]]].
  rewrite Etf. cbn [fst t] in Fk, Fo.
  assert (Hd' : ws_savepoints s = length rest) by lia.
  rewrite seqs_tall_cons in Hq.
  assert (Hb' : forall n, In n (seqs (tall rest) ++ map snd top) -> n <= ws_seqno s)
    by (intros n Hn; apply Hb; rewrite seqs_tall_cons; exact Hn).
  apply ssorted_app_iff in Hq as Hq'. destruct Hq' as [_ [HsT _]].
  destruct (seq_step _ _ (map snd X) (S (ws_seqno s)) _ Hq Hb' (Nat.lt_succ_diag_r _) (SX HsT)
              (incl_map snd IX)) as [S1 S2].
  constructor.
  - rewrite ws_write_map. apply asorted_set. exact Hs.
  - intros k. rewrite ws_write_map, entries_of_set, grp_tall_cons.
    destruct (bytes_eqb k (p_key w)) eqn:E.
    + apply bytes_eqb_eq in E. subst k. rewrite Fk, Hg, grp_tall_cons, Hd'.
      change {| e_kind := p_kind w; e_val := p_val w; e_sp := length rest;
                e_seqno := S (ws_seqno s); e_ts := p_ts w |} with (to_entry (length rest) t).
      change (p_ts w) with (p_ts (fst t)) at 1.
      apply new_entries_spec.
      apply Forall_forall. intros e He. unfold grp in He. apply in_map_iff in He.
      destruct He as [x [<- Hx]]. apply filter_In in Hx. destruct Hx as [Hx _].
      pose proof (tall_sp_lt rest) as Hlt. rewrite Forall_forall in Hlt. auto.
    + apply bytes_eqb_neq in E. rewrite (Fo _ E), Hg, grp_tall_cons. reflexivity.
  - rewrite seqs_tall_cons, EX, map_app. exact S1.
  - cbn [ws_write ws_seqno]. rewrite seqs_tall_cons, EX, map_app. exact S2.
  - cbn [ws_write ws_savepoints length]. lia.
Qed.

(* ------------------------------------------------------------------ *)
(* simulation *)

Lemma R_step : forall s tfs o, R s tfs ->
  exists tfs', R (m_step s o) tfs' /\ untag tfs' = f_step (untag tfs) o.
Proof.
  intros s tfs o HR. destruct o as [w| |].
  - exists (tf_write tfs (w, S (ws_seqno s))). split.
    + cbn [m_step]. apply R_write. exact HR.
    + rewrite untag_tf_write. reflexivity.
  - exists ([] :: tfs). split; [apply R_savepoint; exact HR|reflexivity].
  - cbn [m_step f_step].
    destruct tfs as [|top [|next rest]].
    + exists []. split; [|reflexivity]. destruct HR as [_ _ _ _ Hd]. discriminate.
    + exists [top]. split; [|reflexivity].
      unfold ws_rollback_to_savepoint. destruct HR as [Hs Hg Hq Hb Hd]. cbn [length] in Hd.
      replace (ws_savepoints s) with 0 by lia. constructor; auto.
    + destruct (R_rollback _ _ _ _ HR) as [s' [E HR']]. rewrite E.
      exists (next :: rest). split; [exact HR'|reflexivity].
Qed.

Lemma R_run : forall p s tfs, R s tfs ->
  exists tfs', R (m_run p s) tfs' /\ untag tfs' = f_run p (untag tfs).
Proof.
  induction p as [|o p IH]; intros s tfs HR.
  - exists tfs. split; [exact HR|reflexivity].
  - destruct (R_step _ _ o HR) as [tfs1 [HR1 E1]].
    destruct (IH _ _ HR1) as [tfs2 [HR2 E2]].
    exists tfs2. split; [exact HR2|]. cbn [f_run fold_left]. fold (f_run p). rewrite <- E1. exact E2.
Qed.

Lemma R_reach : forall p, exists tfs, R (m_run p ws_empty) tfs /\ untag tfs = f_run p [[]].
Proof. intros p. apply (R_run p ws_empty [[]] R_init). Qed.

Lemma ws_refines_frames : ws_refines_frames_stmt.
Proof.
  intros p. destruct (R_reach p) as [tfs [HR E]]. rewrite <- E. apply R_obs. exact HR.
Qed.

(* ------------------------------------------------------------------ *)
(* frames: savepoint; balanced body; rollback is the identity *)

Lemma f_write_shape : forall top rest w, exists top', f_write (top :: rest) w = top' :: rest.
Proof.
  intros top rest w. cbn [f_write].
  destruct (last_of (p_key w) top) as [l|]; [destruct (distinct_explicit (p_ts l) (p_ts w))|]; eauto.
Qed.

Lemma f_run_balanced : forall body d extra top0 base,
  balanced d body = true -> length extra = d -> base <> [] ->
  exists top0', f_run body (extra ++ top0 :: base) = top0' :: base.
Proof.
  induction body as [|o body IH]; intros d extra top0 base Hb Hl Hne.
  - cbn [balanced] in Hb. apply Nat.eqb_eq in Hb. subst d.
    destruct extra; [|discriminate]. exists top0. reflexivity.
  - cbn [f_run fold_left]. fold (f_run body). destruct o as [w| |]; cbn [balanced] in Hb; cbn [f_step].
    + destruct extra as [|e ex]; cbn [app].
      * destruct (f_write_shape top0 base w) as [top' ->].
        apply (IH d [] top' base); auto.
      * destruct (f_write_shape e (ex ++ top0 :: base) w) as [e' ->].
        apply (IH d (e' :: ex) top0 base); auto.
    + unfold f_savepoint. apply (IH (S d) ([] :: extra) top0 base); auto. cbn [length]. lia.
    + destruct d as [|n]; [discriminate|].
      destruct extra as [|e ex]; [discriminate|]. cbn [length] in Hl.
      assert (E : f_rollback ((e :: ex) ++ top0 :: base) = Some (ex ++ top0 :: base)).
      { cbn [app f_rollback]. destruct (ex ++ top0 :: base) eqn:E; [destruct ex; discriminate|reflexivity]. }
      rewrite E. apply (IH n ex top0 base); auto.
Qed.

Lemma f_run_save_body_roll : forall body fs, balanced 0 body = true -> fs <> [] ->
  f_run (OSave :: body ++ [ORoll]) fs = fs.
Proof.
  intros body fs Hb Hne.
  assert (E0 : f_run (OSave :: body ++ [ORoll]) fs = f_step (f_run body ([] :: fs)) ORoll).
  { unfold f_run. cbn [fold_left]. rewrite fold_left_app. reflexivity. }
  rewrite E0.
  destruct (f_run_balanced body 0 [] [] fs Hb eq_refl Hne) as [top0' E].
  cbn [app] in E. rewrite E. cbn [f_step f_rollback].
  destruct fs; [contradiction|reflexivity].
Qed.

Lemma rollback_exact : rollback_exact_stmt.
Proof.
  intros pre body Hb s0 s1.
  destruct (R_reach pre) as [tfs0 [HR0 E0]]. fold s0 in HR0.
  destruct (R_run (OSave :: body ++ [ORoll]) _ _ HR0) as [tfs1 [HR1 E1]]. fold s1 in HR1.
  assert (Hne : untag tfs0 <> []).
  { destruct HR0 as [_ _ _ _ Hd]. destruct tfs0; discriminate. }
  rewrite (f_run_save_body_roll body _ Hb Hne) in E1.
  apply R_obs in HR0. apply R_obs in HR1. rewrite E1 in HR1.
  destruct HR0 as [G0 [B0 [D0 _]]]. destruct HR1 as [G1 [B1 [D1 _]]].
  split; [|split].
  - intros k. rewrite G1, G0. reflexivity.
  - rewrite B1, B0. reflexivity.
  - lia.
Qed.

Print Assumptions ws_refines_frames.
Print Assumptions rollback_exact.
