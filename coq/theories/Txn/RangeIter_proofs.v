(* Txn/RangeIter_proofs.v — proofs of the statements of Txn/RangeIterSpec.v: the overlay of
   Txn/RangeIter.v refines the specification cursor over the merged live list.

   Method: a simulation relation.  A positioned overlay state is described by a split of both
   sorted lists around the current key k:   SN = S1 ++ Seq ++ S2,  WS = W1 ++ Weq ++ W2  with all
   keys of S1, W1 below k and all keys of S2, W2 above k; then
       merged_live SN WS = merged_live S1 W1 ++ [(k, v)] ++ merged_live S2 W2
   and the specification position is  length (merged_live S1 W1).  `FI` describes the states in
   which the cursor moves forward (the non-current side waits at the first entry above k), `BI`
   the states in which it moves backward (the non-current side waits at the last entry below k).
   position_to_min / position_to_max establish FI / BI from a pair of suffixes / prefixes, the
   direction-change blocks map BI to FI and FI to BI at the same position. *)
From Coq Require Import List NArith Arith Bool Lia Sorted.
From SKV Require Import Base.Lex Spec.Cursor Txn.RangeIter Txn.RangeIterSpec Txn.WriteSet_proofs.
Import ListNotations.

(* ------------------------------------------------------------------ *)
(* positions in a list described by a split *)

Definition idx_first {A : Type} (pre rest : list A) : option nat :=
  match rest with [] => None | _ => Some (length pre) end.
Definition idx_last {A : Type} (pre : list A) : option nat :=
  match pre with [] => None | _ => Some (length pre - 1) end.

Definition ix_next (n : nat) (c : option nat) : option nat :=
  match c with Some i => if S i <? n then Some (S i) else None | None => None end.
Definition ix_prev (c : option nat) : option nat :=
  match c with Some (S j) => Some j | _ => None end.
Definition ix_first (n : nat) : option nat := match n with O => None | _ => Some 0 end.
Definition ix_last (n : nat) : option nat := match n with O => None | _ => Some (n - 1) end.
Definition ix_valid (c : option nat) : bool := match c with Some _ => true | None => false end.

Lemma idx_last_snoc : forall A (l : list A) x, idx_last (l ++ [x]) = Some (length l).
Proof.
  intros A l x. unfold idx_last. destruct (l ++ [x]) eqn:E.
  - destruct l; discriminate.
  - rewrite <- E. rewrite app_length. cbn [length]. f_equal. lia.
Qed.

Lemma idx_first_cons : forall A (l : list A) x r, idx_first l (x :: r) = Some (length l).
Proof. reflexivity. Qed.

Lemma nth_error_mid : forall A (l : list A) x r, nth_error (l ++ x :: r) (length l) = Some x.
Proof. intros. rewrite nth_error_app2 by lia. rewrite Nat.sub_diag. reflexivity. Qed.

Lemma ix_next_mid : forall A (l : list A) x r,
  ix_next (length (l ++ x :: r)) (Some (length l)) = idx_first (l ++ [x]) r.
Proof.
  intros. unfold ix_next, idx_first. rewrite !app_length. cbn [length].
  destruct r as [|y r]; cbn [length].
  - destruct (Nat.ltb_spec (S (length l)) (length l + 1)); [lia|reflexivity].
  - destruct (Nat.ltb_spec (S (length l)) (length l + S (S (length r)))); [|lia]. f_equal. lia.
Qed.

Lemma ix_prev_mid : forall A (l : list A), ix_prev (Some (length l)) = idx_last l.
Proof. intros A [|a l]; cbn; [reflexivity|]. f_equal. lia. Qed.

Lemma ix_first_split : forall A (l : list A), ix_first (length l) = idx_first [] l.
Proof. intros A [|a l]; reflexivity. Qed.

Lemma ix_last_split : forall A (l : list A), ix_last (length l) = idx_last l.
Proof. intros A [|a l]; reflexivity. Qed.

(* the waiting side, turned around: from the last entry of the prefix to the first of the rest *)
Lemma fwd_of_last : forall A (l r : list A),
  (if ix_valid (idx_last l) then ix_next (length (l ++ r)) (idx_last l) else ix_first (length (l ++ r)))
  = idx_first l r.
Proof.
  intros A l r. destruct (list_rcases _ l) as [->|[l' [x ->]]].
  - cbn. apply ix_first_split.
  - rewrite idx_last_snoc. cbn [ix_valid]. rewrite <- app_assoc. cbn [app]. apply ix_next_mid.
Qed.

Lemma bwd_of_first : forall A (l r : list A),
  (if ix_valid (idx_first l r) then ix_prev (idx_first l r) else ix_last (length (l ++ r)))
  = idx_last l.
Proof.
  intros A l [|y r].
  - cbn [idx_first ix_valid]. rewrite app_nil_r. apply ix_last_split.
  - cbn [idx_first ix_valid]. apply ix_prev_mid.
Qed.

(* the model's cursor operations are these index operations *)
Lemma sn_step_next : forall sn c, sn_step sn c CNext = ix_next (length sn) c.
Proof. intros sn [i|]; reflexivity. Qed.
Lemma sn_step_prev : forall sn c, sn_step sn c CPrev = ix_prev c.
Proof. intros sn [[|i]|]; reflexivity. Qed.
Lemma sn_step_first : forall sn c, sn_step sn c CFirst = ix_first (length sn).
Proof. intros [|x sn] c; reflexivity. Qed.
Lemma sn_step_last : forall sn c, sn_step sn c CLast = ix_last (length sn).
Proof. intros [|x sn] c; reflexivity. Qed.
Lemma advance_ws_fwd : forall ws p, advance_ws ws DirForward p = ix_next (length ws) p.
Proof. intros ws [i|]; reflexivity. Qed.
Lemma advance_ws_bwd : forall ws p, advance_ws ws DirBackward p = ix_prev p.
Proof. intros ws [[|i]|]; reflexivity. Qed.
Lemma seek_ws_first_ix : forall ws, seek_ws_first ws = ix_first (length ws).
Proof. intros [|x ws]; reflexivity. Qed.
Lemma seek_ws_last_ix : forall ws, seek_ws_last ws = ix_last (length ws).
Proof. intros [|x ws]; reflexivity. Qed.
Lemma sn_valid_ix : forall c, sn_valid c = ix_valid c.
Proof. reflexivity. Qed.
Lemma ws_valid_ix : forall c, ws_valid c = ix_valid c.
Proof. reflexivity. Qed.

(* ------------------------------------------------------------------ *)
(* key bounds *)

Definition klt_all (ks : list bytes) (k : bytes) : Prop := Forall (fun x => lex_cmp x k = Lt) ks.
Definition kgt_all (ks : list bytes) (k : bytes) : Prop := Forall (fun x => lex_cmp k x = Lt) ks.

Lemma sorted_mid : forall l k r, keys_sorted (l ++ k :: r) ->
  keys_sorted l /\ keys_sorted r /\ klt_all l k /\ kgt_all r k.
Proof.
  intros l k r H. apply ssorted_app_iff in H. destruct H as [Hl [Hr Hlr]].
  apply StronglySorted_inv in Hr. destruct Hr as [Hr Hk].
  repeat split; auto.
  apply Forall_forall. intros x Hx. apply Hlr; [exact Hx|left; reflexivity].
Qed.

Lemma sorted_app : forall l r, keys_sorted (l ++ r) ->
  keys_sorted l /\ keys_sorted r /\ (forall x y, In x l -> In y r -> lex_cmp x y = Lt).
Proof. intros l r H. apply ssorted_app_iff in H. exact H. Qed.

Lemma klt_all_trans : forall ks k k', klt_all ks k -> lex_cmp k k' = Lt -> klt_all ks k'.
Proof.
  intros ks k k' H E. unfold klt_all in *. rewrite Forall_forall in *. intros x Hx.
  eapply lex_cmp_lt_trans; [apply H; exact Hx|exact E].
Qed.
Lemma kgt_all_trans : forall ks k k', kgt_all ks k -> lex_cmp k' k = Lt -> kgt_all ks k'.
Proof.
  intros ks k k' H E. unfold kgt_all in *. rewrite Forall_forall in *. intros x Hx.
  eapply lex_cmp_lt_trans; [exact E|apply H; exact Hx].
Qed.
Lemma klt_all_app : forall a b k, klt_all (a ++ b) k <-> klt_all a k /\ klt_all b k.
Proof. intros. apply Forall_app. Qed.
Lemma kgt_all_app : forall a b k, kgt_all (a ++ b) k <-> kgt_all a k /\ kgt_all b k.
Proof. intros. apply Forall_app. Qed.
Lemma klt_all_in : forall ks k x, klt_all ks k -> In x ks -> lex_cmp x k = Lt.
Proof. intros ks k x H. unfold klt_all in H. rewrite Forall_forall in H. auto. Qed.
Lemma kgt_all_in : forall ks k x, kgt_all ks k -> In x ks -> lex_cmp k x = Lt.
Proof. intros ks k x H. unfold kgt_all in H. rewrite Forall_forall in H. auto. Qed.

Lemma lex_lt_gt : forall a b, lex_cmp a b = Lt -> lex_cmp b a = Gt.
Proof. intros a b H. rewrite lex_cmp_antisym, H. reflexivity. Qed.
Lemma lex_lt_irrefl : forall a, lex_cmp a a = Lt -> False.
Proof. intros a H. rewrite lex_cmp_refl in H. discriminate. Qed.

(* ------------------------------------------------------------------ *)
(* the merged live list *)

Definition ws_live (ws : list (bytes * option bytes)) : list (bytes * bytes) :=
  flat_map (fun e => ws_emit (fst e) (snd e)) ws.

Lemma ml_nil_l : forall ws, merged_live [] ws = ws_live ws.
Proof. induction ws as [|[kw ow] ws IH]; [reflexivity|]. cbn [merged_live ws_live flat_map fst snd] in *. rewrite IH. reflexivity. Qed.

Lemma ml_nil_r : forall sn, merged_live sn [] = sn.
Proof. intros [|[ks vs] sn]; reflexivity. Qed.

Lemma ml_cons : forall ks vs sn kw ow ws,
  merged_live ((ks, vs) :: sn) ((kw, ow) :: ws) =
  match lex_cmp ks kw with
  | Lt => (ks, vs) :: merged_live sn ((kw, ow) :: ws)
  | Gt => ws_emit kw ow ++ merged_live ((ks, vs) :: sn) ws
  | Eq => ws_emit kw ow ++ merged_live sn ws
  end.
Proof. reflexivity. Qed.

Definition compat (S1 : list (bytes * bytes)) (W1 : list (bytes * option bytes))
                  (S2 : list (bytes * bytes)) (W2 : list (bytes * option bytes)) : Prop :=
  (forall x y, In x S1 -> In y W2 -> lex_cmp (fst x) (fst y) = Lt) /\
  (forall y x, In y W1 -> In x S2 -> lex_cmp (fst y) (fst x) = Lt).

Lemma ws_live_app : forall a b, ws_live (a ++ b) = ws_live a ++ ws_live b.
Proof. intros. unfold ws_live. apply flat_map_app. Qed.

Lemma merge_app : forall S1 W1 S2 W2, compat S1 W1 S2 W2 ->
  merged_live (S1 ++ S2) (W1 ++ W2) = merged_live S1 W1 ++ merged_live S2 W2.
Proof.
  induction S1 as [|[ks vs] S1 IHS].
  - (* S1 = [] *)
    induction W1 as [|[kw ow] W1 IHW]; intros S2 W2 [H1 H2].
    + reflexivity.
    + cbn [app]. rewrite ml_nil_l. destruct S2 as [|[k2 v2] S2].
      * rewrite ml_nil_l, ml_nil_l. rewrite <- ws_live_app. reflexivity.
      * rewrite ml_cons.
        assert (E : lex_cmp k2 kw = Gt).
        { apply lex_lt_gt. apply (H2 (kw, ow) (k2, v2)); left; reflexivity. }
        rewrite E. cbn [ws_live flat_map fst snd]. rewrite <- app_assoc. f_equal.
        specialize (IHW ((k2, v2) :: S2) W2). cbn [app] in IHW. rewrite ml_nil_l in IHW. apply IHW.
        split; [intros ? ? []|]. intros y x Hy Hx. apply H2; [right; exact Hy|exact Hx].
  - induction W1 as [|[kw ow] W1 IHW]; intros S2 W2 [H1 H2].
    + cbn [app]. rewrite ml_nil_r. destruct W2 as [|[k2 o2] W2].
      * rewrite !ml_nil_r. reflexivity.
      * rewrite ml_cons.
        assert (E : lex_cmp ks k2 = Lt) by (apply (H1 (ks, vs) (k2, o2)); left; reflexivity).
        rewrite E. cbn [app]. f_equal.
        specialize (IHS [] S2 ((k2, o2) :: W2)). cbn [app] in IHS. rewrite ml_nil_r in IHS. apply IHS.
        split; [|intros ? ? []]. intros x y Hx Hy. apply H1; [right; exact Hx|exact Hy].
    + cbn [app]. rewrite !ml_cons. destruct (lex_cmp ks kw) eqn:E.
      * rewrite <- app_assoc. f_equal. apply IHS. split.
        -- intros x y Hx Hy. apply H1; [right; exact Hx|exact Hy].
        -- intros y x Hy Hx. apply H2; [right; exact Hy|exact Hx].
      * cbn [app]. f_equal. apply (IHS ((kw, ow) :: W1) S2 W2). split.
        -- intros x y Hx Hy. apply H1; [right; exact Hx|exact Hy].
        -- exact H2.
      * rewrite <- app_assoc. f_equal. apply (IHW S2 W2). split.
        -- exact H1.
        -- intros y x Hy Hx. apply H2; [right; exact Hy|exact Hx].
Qed.

(* bounds on the keys of lists of pairs *)
Definition kge_all (ks : list bytes) (k : bytes) : Prop := Forall (fun x => lex_leb k x = true) ks.
Definition kle_all (ks : list bytes) (k : bytes) : Prop := Forall (fun x => lex_leb x k = true) ks.

Lemma lex_leb_refl : forall k, lex_leb k k = true.
Proof. intros k. unfold lex_leb. rewrite lex_cmp_refl. reflexivity. Qed.
Lemma lex_lt_leb : forall a b, lex_cmp a b = Lt -> lex_leb a b = true.
Proof. intros a b H. unfold lex_leb. rewrite H. reflexivity. Qed.
Lemma lex_lt_le_trans : forall a k b, lex_cmp a k = Lt -> lex_leb k b = true -> lex_cmp a b = Lt.
Proof.
  intros a k b H1 H2. unfold lex_leb in H2. destruct (lex_cmp k b) eqn:E; try discriminate.
  - apply lex_cmp_eq in E. subst. exact H1.
  - eapply lex_cmp_lt_trans; eauto.
Qed.
Lemma lex_le_lt_trans : forall a k b, lex_leb a k = true -> lex_cmp k b = Lt -> lex_cmp a b = Lt.
Proof.
  intros a k b H1 H2. unfold lex_leb in H1. destruct (lex_cmp a k) eqn:E; try discriminate.
  - apply lex_cmp_eq in E. subst. exact H2.
  - eapply lex_cmp_lt_trans; eauto.
Qed.
Lemma kgt_kge : forall ks k, kgt_all ks k -> kge_all ks k.
Proof. intros ks k H. eapply Forall_impl; [|exact H]. intros a Ha. apply lex_lt_leb. exact Ha. Qed.
Lemma klt_kle : forall ks k, klt_all ks k -> kle_all ks k.
Proof. intros ks k H. eapply Forall_impl; [|exact H]. intros a Ha. apply lex_lt_leb. exact Ha. Qed.

Lemma in_fst : forall V (l : list (bytes * V)) x, In x l -> In (fst x) (map fst l).
Proof. intros. apply in_map. assumption. Qed.

Lemma compat_lt_ge : forall k S1 W1 S2 W2,
  klt_all (map fst S1) k -> klt_all (map fst W1) k -> kge_all (map fst S2) k -> kge_all (map fst W2) k ->
  compat S1 W1 S2 W2.
Proof.
  intros k S1 W1 S2 W2 A B C D. unfold klt_all, kge_all in *. rewrite Forall_forall in *. split.
  - intros x y Hx Hy. eapply lex_lt_le_trans; [apply A, in_fst, Hx|apply D, in_fst, Hy].
  - intros y x Hy Hx. eapply lex_lt_le_trans; [apply B, in_fst, Hy|apply C, in_fst, Hx].
Qed.
Lemma compat_le_gt : forall k S1 W1 S2 W2,
  kle_all (map fst S1) k -> kle_all (map fst W1) k -> kgt_all (map fst S2) k -> kgt_all (map fst W2) k ->
  compat S1 W1 S2 W2.
Proof.
  intros k S1 W1 S2 W2 A B C D. unfold kle_all, kgt_all in *. rewrite Forall_forall in *. split.
  - intros x y Hx Hy. eapply lex_le_lt_trans; [apply A, in_fst, Hx|apply D, in_fst, Hy].
  - intros y x Hy Hx. eapply lex_le_lt_trans; [apply B, in_fst, Hy|apply C, in_fst, Hx].
Qed.

(* appending one entry at the end of the prefixes *)
Lemma merge_snoc_w : forall S1 W1 w, (forall x, In x S1 -> lex_cmp (fst x) (fst w) = Lt) ->
  merged_live S1 (W1 ++ [w]) = merged_live S1 W1 ++ ws_emit (fst w) (snd w).
Proof.
  intros S1 W1 [kw ow] H. pose proof (merge_app S1 W1 [] [(kw, ow)]) as M. rewrite app_nil_r in M.
  rewrite M.
  - rewrite ml_nil_l. cbn. rewrite app_nil_r. reflexivity.
  - split; [|intros ? ? ? []]. intros x y Hx [<-|[]]. apply H. exact Hx.
Qed.
Lemma merge_snoc_s : forall S1 W1 s, (forall y, In y W1 -> lex_cmp (fst y) (fst s) = Lt) ->
  merged_live (S1 ++ [s]) W1 = merged_live S1 W1 ++ [s].
Proof.
  intros S1 W1 s H. pose proof (merge_app S1 W1 [s] []) as M. rewrite app_nil_r in M.
  rewrite M.
  - rewrite ml_nil_r. reflexivity.
  - split; [intros ? ? ? []|]. intros y x Hy [<-|[]]. apply H. exact Hy.
Qed.
Lemma merge_snoc_both : forall S1 W1 k sv ow,
  (forall x, In x S1 -> lex_cmp (fst x) k = Lt) -> (forall y, In y W1 -> lex_cmp (fst y) k = Lt) ->
  merged_live (S1 ++ [(k, sv)]) (W1 ++ [(k, ow)]) = merged_live S1 W1 ++ ws_emit k ow.
Proof.
  intros S1 W1 k sv ow H1 H2. rewrite (merge_app S1 W1 [(k, sv)] [(k, ow)]).
  - rewrite ml_cons, lex_cmp_refl, ml_nil_r, app_nil_r. reflexivity.
  - split.
    + intros x y Hx [<-|[]]. apply H1. exact Hx.
    + intros y x Hy [<-|[]]. apply H2. exact Hy.
Qed.

(* the head of the suffixes *)
Lemma ml_head_snap : forall k v S2 W2, kgt_all (map fst W2) k ->
  merged_live ((k, v) :: S2) W2 = (k, v) :: merged_live S2 W2.
Proof.
  intros k v S2 [|[kw ow] W2] H.
  - rewrite !ml_nil_r. reflexivity.
  - rewrite ml_cons. apply Forall_inv in H. cbn [fst] in H. rewrite H. reflexivity.
Qed.
Lemma ml_head_ws_gt : forall kw ow S2 W2, kgt_all (map fst S2) kw ->
  merged_live S2 ((kw, ow) :: W2) = ws_emit kw ow ++ merged_live S2 W2.
Proof.
  intros kw ow [|[ks vs] S2] W2 H.
  - rewrite !ml_nil_l. reflexivity.
  - rewrite ml_cons. apply Forall_inv in H. cbn [fst] in H. rewrite (lex_lt_gt _ _ H). reflexivity.
Qed.
Lemma ml_head_both : forall k sv ow S2 W2,
  merged_live ((k, sv) :: S2) ((k, ow) :: W2) = ws_emit k ow ++ merged_live S2 W2.
Proof. intros. rewrite ml_cons, lex_cmp_refl. reflexivity. Qed.

(* the accessors of the model at the index given by a split *)
Lemma sn_key_mid : forall sn S1 k v S2, sn = S1 ++ (k, v) :: S2 -> sn_key sn (Some (length S1)) = k.
Proof. intros sn S1 k v S2 ->. unfold sn_key, cget. rewrite nth_error_mid. reflexivity. Qed.
Lemma ws_key_mid : forall ws W1 k o W2, ws = W1 ++ (k, o) :: W2 -> ws_key ws (length W1) = k.
Proof. intros ws W1 k o W2 ->. unfold ws_key. rewrite nth_error_mid. reflexivity. Qed.
Lemma ws_tomb_mid : forall ws W1 k o W2, ws = W1 ++ (k, o) :: W2 ->
  ws_is_tombstone ws (length W1) = match o with None => true | Some _ => false end.
Proof. intros ws W1 k o W2 ->. unfold ws_is_tombstone. rewrite nth_error_mid. destruct o; reflexivity. Qed.
Lemma sn_next_mid : forall sn S1 s S2, sn = S1 ++ s :: S2 ->
  sn_step sn (Some (length S1)) CNext = idx_first (S1 ++ [s]) S2.
Proof. intros sn S1 s S2 ->. rewrite sn_step_next. apply ix_next_mid. Qed.
Lemma ws_next_mid : forall ws W1 w W2, ws = W1 ++ w :: W2 ->
  advance_ws ws DirForward (Some (length W1)) = idx_first (W1 ++ [w]) W2.
Proof. intros ws W1 w W2 ->. rewrite advance_ws_fwd. apply ix_next_mid. Qed.
Lemma sn_prev_mid : forall sn A (S1 : list A), sn_step sn (Some (length S1)) CPrev = idx_last S1.
Proof. intros. rewrite sn_step_prev. apply ix_prev_mid. Qed.
Lemma ws_prev_mid : forall ws A (W1 : list A), advance_ws ws DirBackward (Some (length W1)) = idx_last W1.
Proof. intros. rewrite advance_ws_bwd. apply ix_prev_mid. Qed.

Lemma map_fst_mid : forall V (a : list (bytes * V)) k v b, map fst (a ++ (k, v) :: b) = map fst a ++ k :: map fst b.
Proof. intros. rewrite map_app. reflexivity. Qed.

Lemma compat_klt_S1 : forall S1 W1 S2 w W2, compat S1 W1 S2 (w :: W2) -> klt_all (map fst S1) (fst w).
Proof.
  intros S1 W1 S2 w W2 [C1 _]. apply Forall_forall. intros x Hx. apply in_map_iff in Hx.
  destruct Hx as [y [<- Hy]]. apply C1; [exact Hy|left; reflexivity].
Qed.
Lemma compat_klt_W1 : forall S1 W1 s S2 W2, compat S1 W1 (s :: S2) W2 -> klt_all (map fst W1) (fst s).
Proof.
  intros S1 W1 s S2 W2 [_ C2]. apply Forall_forall. intros x Hx. apply in_map_iff in Hx.
  destruct Hx as [y [<- Hy]]. apply C2; [exact Hy|left; reflexivity].
Qed.
Lemma compat_kgt_S2 : forall S1 w S2 W2, compat S1 [w] S2 W2 -> kgt_all (map fst S2) (fst w).
Proof.
  intros S1 w S2 W2 [_ C2]. apply Forall_forall. intros x Hx. apply in_map_iff in Hx.
  destruct Hx as [y [<- Hy]]. apply C2; [left; reflexivity|exact Hy].
Qed.

Lemma compat_kgt_S2r : forall S1 W1 w S2 W2, compat S1 (W1 ++ [w]) S2 W2 -> kgt_all (map fst S2) (fst w).
Proof.
  intros S1 W1 w S2 W2 [_ C2]. apply Forall_forall. intros x Hx. apply in_map_iff in Hx.
  destruct Hx as [y [<- Hy]]. apply C2; [apply in_or_app; right; left; reflexivity|exact Hy].
Qed.
Lemma compat_kgt_W2r : forall S1 s W1 S2 W2, compat (S1 ++ [s]) W1 S2 W2 -> kgt_all (map fst W2) (fst s).
Proof.
  intros S1 s W1 S2 W2 [C1 _]. apply Forall_forall. intros x Hx. apply in_map_iff in Hx.
  destruct Hx as [y [<- Hy]]. apply C1; [apply in_or_app; right; left; reflexivity|exact Hy].
Qed.
Lemma klt_all_snoc : forall V (l : list (bytes * V)) k v k', klt_all (map fst l) k -> lex_cmp k k' = Lt ->
  klt_all (map fst (l ++ [(k, v)])) k'.
Proof.
  intros V l k v k' H E. rewrite map_app. apply Forall_app. split.
  - eapply klt_all_trans; eauto.
  - cbn. constructor; [exact E|constructor].
Qed.

Lemma lex_lt_neqb : forall a b, lex_cmp a b = Lt -> bytes_eqb a b = false.
Proof. intros a b H. apply bytes_eqb_neq. intros ->. rewrite lex_cmp_refl in H. discriminate. Qed.
Lemma lex_gt_neqb : forall a b, lex_cmp b a = Lt -> bytes_eqb a b = false.
Proof. intros a b H. apply bytes_eqb_neq. intros ->. rewrite lex_cmp_refl in H. discriminate. Qed.

(* splitting a sorted list at a seek target *)
Lemma split_at : forall V (l : list (bytes * V)) t, keys_sorted (map fst l) ->
  exists A B, l = A ++ B /\ klt_all (map fst A) t /\ kge_all (map fst B) t.
Proof.
  intros V l t. induction l as [|[k v] l IH]; intros H.
  - exists [], []. repeat split; constructor.
  - cbn [map fst] in H. apply StronglySorted_inv in H. destruct H as [H1 H2].
    destruct (lex_leb t k) eqn:E.
    + exists [], ((k, v) :: l). repeat split; [constructor|]. cbn [map fst]. constructor; [exact E|].
      eapply Forall_impl; [|exact H2]. intros a Ha. apply lex_lt_leb. eapply lex_le_lt_trans; eauto.
    + destruct (IH H1) as [A [B [-> [HA HB]]]]. exists ((k, v) :: A), B. repeat split; auto.
      cbn [map fst]. constructor; [|exact HA]. unfold lex_leb in E.
      destruct (lex_cmp t k) eqn:E2; try discriminate. apply lex_cmp_gt_lt. exact E2.
Qed.

Lemma seek_idx_split : forall A B t n, klt_all (map fst A) t -> kge_all (map fst B) t ->
  seek_idx (A ++ B) t n = match B with [] => None | _ => Some (n + length A) end.
Proof.
  induction A as [|[k v] A IH]; intros B t n HA HB.
  - cbn [app length]. destruct B as [|[k v] B]; [reflexivity|]. cbn [seek_idx].
    apply Forall_inv in HB. cbn [fst] in HB. rewrite HB. f_equal. lia.
  - cbn [app seek_idx]. cbn [map fst] in HA. pose proof (Forall_inv HA) as Hk. apply Forall_inv_tail in HA.
    cbn beta in Hk. unfold lex_leb. rewrite (lex_lt_gt _ _ Hk).
    rewrite (IH B t (S n) HA HB). destruct B; [reflexivity|]. cbn [length]. f_equal. lia.
Qed.

Lemma ws_pp_split : forall A B t n, klt_all (map fst A) t -> kge_all (map fst B) t ->
  ws_partition_point (A ++ B) t n = match B with [] => None | _ => Some (n + length A) end.
Proof.
  induction A as [|[k v] A IH]; intros B t n HA HB.
  - cbn [app length]. destruct B as [|[k v] B]; [reflexivity|]. cbn [ws_partition_point].
    apply Forall_inv in HB. cbn [fst] in HB. unfold lex_leb in HB. unfold lex_ltb.
    rewrite (lex_cmp_antisym t k). destruct (lex_cmp t k); try discriminate; cbn [CompOpp]; f_equal; lia.
  - cbn [app ws_partition_point]. cbn [map fst] in HA. pose proof (Forall_inv HA) as Hk. apply Forall_inv_tail in HA.
    cbn beta in Hk. unfold lex_ltb. rewrite Hk.
    rewrite (IH B t (S n) HA HB). destruct B; [reflexivity|]. cbn [length]. f_equal. lia.
Qed.

(* keys of the merged list come from the two lists *)
Lemma ws_live_keys : forall ws x, In x (ws_live ws) -> In (fst x) (map fst ws).
Proof.
  induction ws as [|[kw [v|]] ws IH]; intros x H; cbn in H.
  - contradiction.
  - destruct H as [<-|H]; [left; reflexivity|right; apply IH; exact H].
  - right. apply IH. exact H.
Qed.
Lemma merged_keys : forall sn ws x, In x (merged_live sn ws) -> In (fst x) (map fst sn) \/ In (fst x) (map fst ws).
Proof.
  induction sn as [|[ks vs] sn IHS].
  - intros ws x H. rewrite ml_nil_l in H. right. apply ws_live_keys. exact H.
  - induction ws as [|[kw ow] ws IHW]; intros x H.
    + rewrite ml_nil_r in H. left. apply in_map. exact H.
    + rewrite ml_cons in H. destruct (lex_cmp ks kw).
      * apply in_app_or in H. destruct H as [H|H].
        -- right. destruct ow; cbn in H; [|contradiction]. destruct H as [<-|[]]. left. reflexivity.
        -- apply IHS in H. destruct H as [H|H]; [left; right; exact H|right; right; exact H].
      * destruct H as [<-|H]; [left; left; reflexivity|].
        apply IHS in H. destruct H as [H|H]; [left; right; exact H|right; exact H].
      * apply in_app_or in H. destruct H as [H|H].
        -- right. destruct ow; cbn in H; [|contradiction]. destruct H as [<-|[]]. left. reflexivity.
        -- apply IHW in H. destruct H as [H|H]; [left; exact H|right; right; exact H].
Qed.
Lemma merged_bound : forall (Pr : bytes -> Prop) sn ws,
  Forall Pr (map fst sn) -> Forall Pr (map fst ws) -> Forall Pr (map fst (merged_live sn ws)).
Proof.
  intros Pr sn ws H1 H2. apply Forall_forall. intros k Hk. apply in_map_iff in Hk.
  destruct Hk as [x [<- Hx]]. apply merged_keys in Hx. rewrite Forall_forall in H1, H2.
  destruct Hx; auto.
Qed.

(* the specification cursor at a position given by a split of its list *)
Lemma cstep_next_mid : forall P x R fresh, cstep (P ++ x :: R) fresh (Some (length P)) CNext = idx_first (P ++ [x]) R.
Proof. intros. cbn [cstep]. apply (ix_next_mid _ P x R). Qed.
Lemma cstep_prev_mid : forall items P fresh, cstep items fresh (Some (length P)) CPrev = @idx_last (bytes * bytes) P.
Proof. intros. cbn [cstep]. apply (ix_prev_mid _ P). Qed.
Lemma cstep_first : forall items fresh pos, cstep items fresh pos CFirst = idx_first [] items.
Proof. intros [|x items] fresh pos; reflexivity. Qed.
Lemma cstep_last : forall items fresh pos, cstep items fresh pos CLast = idx_last items.
Proof. intros [|x items] fresh pos; reflexivity. Qed.

Lemma kle_all_snoc : forall V (l : list (bytes * V)) k v, klt_all (map fst l) k -> kle_all (map fst (l ++ [(k, v)])) k.
Proof.
  intros V l k v H. rewrite map_app. apply Forall_app. split; [apply klt_kle; exact H|].
  cbn. constructor; [apply lex_leb_refl|constructor].
Qed.
Lemma kge_all_cons : forall V (l : list (bytes * V)) k v, kgt_all (map fst l) k -> kge_all (map fst ((k, v) :: l)) k.
Proof. intros V l k v H. cbn [map fst]. constructor; [apply lex_leb_refl|apply kgt_kge; exact H]. Qed.

(* ------------------------------------------------------------------ *)
(* the simulation *)

Definition mkst (c p : option nat) (e : bool) (s : ri_source) (d : ri_dir) : ri_state :=
  {| ri_snap := c; ri_ws_pos := p; ri_is_key_equal := e; ri_current_source := s;
     ri_direction := d; ri_initialized := true |}.

Definition seq_shape (k : bytes) (Seq : list (bytes * bytes)) : Prop := Seq = [] \/ exists sv, Seq = [(k, sv)].
Lemma kle_seq : forall k Seq, seq_shape k Seq -> kle_all (map fst Seq) k.
Proof. intros k Seq [->|[sv ->]]; cbn; constructor; [apply lex_leb_refl|constructor]. Qed.
Lemma kge_seq : forall k Seq, seq_shape k Seq -> kge_all (map fst Seq) k.
Proof. intros k Seq [->|[sv ->]]; cbn; constructor; [apply lex_leb_refl|constructor]. Qed.

(* an unpositioned, initialised overlay: stays unpositioned under next / prev *)
Definition Dead (st : ri_state) : Prop :=
  ri_current_source st = SrcNone /\ ri_ws_pos st = None /\ ri_is_key_equal st = false /\ ri_initialized st = true.

(* the direction-change blocks, unfolded *)
Lemma turn_fwd_snap : forall sn ws c p e,
  ri_turn_forward sn ws (mkst c p e SrcSnapshot DirBackward) =
  mkst c (if ws_valid p then advance_ws ws DirForward p else seek_ws_first ws)
       (keys_equal_now sn ws c (if ws_valid p then advance_ws ws DirForward p else seek_ws_first ws))
       SrcSnapshot DirForward.
Proof. reflexivity. Qed.
Lemma turn_fwd_other : forall sn ws c p e s, s <> SrcSnapshot ->
  ri_turn_forward sn ws (mkst c p e s DirBackward) =
  mkst (if sn_valid c then sn_step sn c CNext else sn_step sn c CFirst) p
       (keys_equal_now sn ws (if sn_valid c then sn_step sn c CNext else sn_step sn c CFirst) p) s DirForward.
Proof. intros sn ws c p e s H. destruct s; [congruence| |]; unfold ri_turn_forward, mkst; cbn; destruct (sn_valid c); reflexivity. Qed.
Lemma turn_bwd_snap : forall sn ws c p e,
  ri_turn_backward sn ws (mkst c p e SrcSnapshot DirForward) =
  mkst c (if ws_valid p then advance_ws ws DirBackward p else seek_ws_last ws)
       (keys_equal_now sn ws c (if ws_valid p then advance_ws ws DirBackward p else seek_ws_last ws))
       SrcSnapshot DirBackward.
Proof. reflexivity. Qed.
Lemma turn_bwd_other : forall sn ws c p e s, s <> SrcSnapshot ->
  ri_turn_backward sn ws (mkst c p e s DirForward) =
  mkst (if sn_valid c then sn_step sn c CPrev else sn_step sn c CLast) p
       (keys_equal_now sn ws (if sn_valid c then sn_step sn c CPrev else sn_step sn c CLast) p) s DirBackward.
Proof. intros sn ws c p e s H. destruct s; [congruence| |]; unfold ri_turn_backward, mkst; cbn; destruct (sn_valid c); reflexivity. Qed.

Lemma ws_fwd_of_last : forall ws W1 W2, ws = W1 ++ W2 ->
  (if ws_valid (idx_last W1) then advance_ws ws DirForward (idx_last W1) else seek_ws_first ws) = idx_first W1 W2.
Proof. intros ws W1 W2 ->. rewrite ws_valid_ix, advance_ws_fwd, seek_ws_first_ix. apply fwd_of_last. Qed.
Lemma sn_fwd_of_last : forall sn S1 S2, sn = S1 ++ S2 ->
  (if sn_valid (idx_last S1) then sn_step sn (idx_last S1) CNext else sn_step sn (idx_last S1) CFirst) = idx_first S1 S2.
Proof. intros sn S1 S2 ->. rewrite sn_valid_ix, sn_step_next, sn_step_first. apply fwd_of_last. Qed.
Lemma ws_bwd_of_first : forall ws W1 W2, ws = W1 ++ W2 ->
  (if ws_valid (idx_first W1 W2) then advance_ws ws DirBackward (idx_first W1 W2) else seek_ws_last ws) = idx_last W1.
Proof. intros ws W1 W2 ->. rewrite ws_valid_ix, advance_ws_bwd, seek_ws_last_ix. apply bwd_of_first. Qed.
Lemma sn_bwd_of_first : forall sn S1 S2, sn = S1 ++ S2 ->
  (if sn_valid (idx_first S1 S2) then sn_step sn (idx_first S1 S2) CPrev else sn_step sn (idx_first S1 S2) CLast) = idx_last S1.
Proof. intros sn S1 S2 ->. rewrite sn_valid_ix, sn_step_prev, sn_step_last. apply bwd_of_first. Qed.

(* "Check if now at equal keys" at positions given by splits *)
Lemma keq_now_snap_first : forall sn ws S1 k v S2 W1 W2,
  sn = S1 ++ (k, v) :: S2 -> ws = W1 ++ W2 -> kgt_all (map fst W2) k ->
  keys_equal_now sn ws (Some (length S1)) (idx_first W1 W2) = false.
Proof.
  intros sn ws S1 k v S2 W1 [|[wk ow] W2] E1 E2 H; [reflexivity|].
  cbn [idx_first keys_equal_now]. rewrite (sn_key_mid _ _ _ _ _ E1), (ws_key_mid _ _ _ _ _ E2).
  apply lex_lt_neqb. apply Forall_inv in H. exact H.
Qed.
Lemma keq_now_snap_last : forall sn ws S1 k v S2 W1 W2,
  sn = S1 ++ (k, v) :: S2 -> ws = W1 ++ W2 -> klt_all (map fst W1) k ->
  keys_equal_now sn ws (Some (length S1)) (idx_last W1) = false.
Proof.
  intros sn ws S1 k v S2 W1 W2 E1 E2 H. destruct (list_rcases _ W1) as [->|[W1' [[wk ow] ->]]]; [reflexivity|].
  rewrite idx_last_snoc. cbn [keys_equal_now]. rewrite <- app_assoc in E2. cbn [app] in E2.
  rewrite (sn_key_mid _ _ _ _ _ E1), (ws_key_mid _ _ _ _ _ E2).
  apply lex_gt_neqb. rewrite map_app in H. apply Forall_app in H. destruct H as [_ H]. apply Forall_inv in H. exact H.
Qed.
Lemma keq_now_ws_first : forall sn ws SA S2 W1 k o W2,
  sn = SA ++ S2 -> ws = W1 ++ (k, o) :: W2 -> kgt_all (map fst S2) k ->
  keys_equal_now sn ws (idx_first SA S2) (Some (length W1)) = false.
Proof.
  intros sn ws SA [|[sk sv] S2] W1 k o W2 E1 E2 H; [reflexivity|].
  cbn [idx_first keys_equal_now]. rewrite (sn_key_mid _ _ _ _ _ E1), (ws_key_mid _ _ _ _ _ E2).
  apply lex_gt_neqb. apply Forall_inv in H. exact H.
Qed.
Lemma keq_now_ws_last : forall sn ws S1 SB W1 k o W2,
  sn = S1 ++ SB -> ws = W1 ++ (k, o) :: W2 -> klt_all (map fst S1) k ->
  keys_equal_now sn ws (idx_last S1) (Some (length W1)) = false.
Proof.
  intros sn ws S1 SB W1 k o W2 E1 E2 H. destruct (list_rcases _ S1) as [->|[S1' [[sk sv] ->]]]; [reflexivity|].
  rewrite idx_last_snoc. cbn [keys_equal_now]. rewrite <- app_assoc in E1. cbn [app] in E1.
  rewrite (sn_key_mid _ _ _ _ _ E1), (ws_key_mid _ _ _ _ _ E2).
  apply lex_lt_neqb. rewrite map_app in H. apply Forall_app in H. destruct H as [_ H]. apply Forall_inv in H. exact H.
Qed.
Lemma keq_now_same : forall sn ws S1 k sv S2 W1 o W2,
  sn = S1 ++ (k, sv) :: S2 -> ws = W1 ++ (k, o) :: W2 ->
  keys_equal_now sn ws (Some (length S1)) (Some (length W1)) = true.
Proof.
  intros sn ws S1 k sv S2 W1 o W2 E1 E2. cbn [keys_equal_now].
  rewrite (sn_key_mid _ _ _ _ _ E1), (ws_key_mid _ _ _ _ _ E2). apply bytes_eqb_refl.
Qed.

(* an unpositioned overlay stays unpositioned *)
Lemma next_Dead : forall sn ws st, Dead st -> Dead (ri_next sn ws st).
Proof.
  intros sn ws [c p e s d ini] [H1 [H2 [H3 H4]]]. cbn in *. subst.
  unfold ri_next. cbn [ri_initialized negb]. destruct d.
  - cbn. repeat split.
  - unfold ri_turn_forward. cbn [ri_direction ri_current_source ri_source_eqb ri_snap ri_ws_pos ri_initialized].
    destruct (sn_valid c).
    + destruct (sn_step sn c CNext); cbn; repeat split.
    + destruct (sn_step sn c CFirst); cbn; repeat split.
Qed.
Lemma prev_Dead : forall sn ws st, Dead st -> Dead (ri_prev sn ws st).
Proof.
  intros sn ws [c p e s d ini] [H1 [H2 [H3 H4]]]. cbn in *. subst.
  unfold ri_prev. cbn [ri_initialized negb]. destruct d.
  - unfold ri_turn_backward. cbn [ri_direction ri_current_source ri_source_eqb ri_snap ri_ws_pos ri_initialized].
    destruct (sn_valid c).
    + destruct (sn_step sn c CPrev); cbn; repeat split.
    + destruct (sn_step sn c CLast); cbn; repeat split.
  - cbn. repeat split.
Qed.

Section Sim.
Variable SN : list (bytes * bytes).
Variable WS : list (bytes * option bytes).
Hypothesis HS : keys_sorted (map fst SN).
Hypothesis HW : keys_sorted (map fst WS).

(* moving forward at specification position i *)
Inductive FI (st : ri_state) (i : nat) : Prop :=
| FI_snap S1 k v S2 W1 W2 :
    SN = S1 ++ (k, v) :: S2 -> WS = W1 ++ W2 ->
    klt_all (map fst W1) k -> kgt_all (map fst W2) k ->
    i = length (merged_live S1 W1) ->
    st = mkst (Some (length S1)) (idx_first W1 W2) false SrcSnapshot DirForward -> FI st i
| FI_ws S1 Seq S2 W1 k v W2 c e :
    SN = S1 ++ Seq ++ S2 -> WS = W1 ++ (k, Some v) :: W2 ->
    klt_all (map fst S1) k -> kgt_all (map fst S2) k -> seq_shape k Seq ->
    i = length (merged_live S1 W1) ->
    ((e = true /\ Seq <> [] /\ c = Some (length S1)) \/ (e = false /\ c = idx_first (S1 ++ Seq) S2)) ->
    st = mkst c (Some (length W1)) e SrcWriteSet DirForward -> FI st i.

(* moving backward at specification position i *)
Inductive BI (st : ri_state) (i : nat) : Prop :=
| BI_snap S1 k v S2 W1 W2 :
    SN = S1 ++ (k, v) :: S2 -> WS = W1 ++ W2 ->
    klt_all (map fst W1) k -> kgt_all (map fst W2) k ->
    i = length (merged_live S1 W1) ->
    st = mkst (Some (length S1)) (idx_last W1) false SrcSnapshot DirBackward -> BI st i
| BI_ws S1 Seq S2 W1 k v W2 c e :
    SN = S1 ++ Seq ++ S2 -> WS = W1 ++ (k, Some v) :: W2 ->
    klt_all (map fst S1) k -> kgt_all (map fst S2) k -> seq_shape k Seq ->
    i = length (merged_live S1 W1) ->
    ((e = true /\ Seq <> [] /\ c = Some (length S1)) \/ (e = false /\ c = idx_last S1)) ->
    st = mkst c (Some (length W1)) e SrcWriteSet DirBackward -> BI st i.

(* sortedness of the two lists, at a split *)
Lemma SN_mid : forall S1 k v S2, SN = S1 ++ (k, v) :: S2 -> klt_all (map fst S1) k /\ kgt_all (map fst S2) k.
Proof.
  intros S1 k v S2 E. pose proof HS as H. rewrite E, map_fst_mid in H. apply sorted_mid in H. tauto.
Qed.
Lemma WS_mid : forall W1 k o W2, WS = W1 ++ (k, o) :: W2 -> klt_all (map fst W1) k /\ kgt_all (map fst W2) k.
Proof.
  intros W1 k o W2 E. pose proof HW as H. rewrite E, map_fst_mid in H. apply sorted_mid in H. tauto.
Qed.

Lemma klt_pairs : forall V (l : list (bytes * V)) k x, klt_all (map fst l) k -> In x l -> lex_cmp (fst x) k = Lt.
Proof. intros V l k x H Hx. eapply klt_all_in; [exact H|apply in_fst; exact Hx]. Qed.
Lemma kgt_pairs : forall V (l : list (bytes * V)) k x, kgt_all (map fst l) k -> In x l -> lex_cmp k (fst x) = Lt.
Proof. intros V l k x H Hx. eapply kgt_all_in; [exact H|apply in_fst; exact Hx]. Qed.

(* the merged list around a position *)
Lemma items_at_snap : forall S1 k v S2 W1 W2,
  SN = S1 ++ (k, v) :: S2 -> WS = W1 ++ W2 -> klt_all (map fst W1) k -> kgt_all (map fst W2) k ->
  merged_live SN WS = merged_live S1 W1 ++ (k, v) :: merged_live S2 W2.
Proof.
  intros S1 k v S2 W1 W2 E1 E2 B1 B2. destruct (SN_mid _ _ _ _ E1) as [A1 A2].
  rewrite E1, E2. rewrite merge_app.
  - rewrite ml_head_snap by exact B2. reflexivity.
  - apply (compat_lt_ge k); auto.
    + cbn [map fst]. constructor; [apply lex_leb_refl|apply kgt_kge; exact A2].
    + apply kgt_kge; exact B2.
Qed.

Lemma items_at_ws : forall S1 Seq S2 W1 k v W2,
  SN = S1 ++ Seq ++ S2 -> WS = W1 ++ (k, Some v) :: W2 ->
  klt_all (map fst S1) k -> kgt_all (map fst S2) k -> seq_shape k Seq ->
  merged_live SN WS = merged_live S1 W1 ++ (k, v) :: merged_live S2 W2.
Proof.
  intros S1 Seq S2 W1 k v W2 E1 E2 A1 A2 Sh. destruct (WS_mid _ _ _ _ E2) as [B1 B2].
  rewrite E1, E2. rewrite merge_app.
  - f_equal. destruct Sh as [->|[sv ->]]; cbn [app].
    + rewrite ml_head_ws_gt by exact A2. reflexivity.
    + rewrite ml_head_both. reflexivity.
  - apply (compat_lt_ge k); auto.
    + rewrite map_app. apply Forall_app. split; [|apply kgt_kge; exact A2].
      destruct Sh as [->|[sv ->]]; cbn [map fst]; constructor; [apply lex_leb_refl|constructor].
    + cbn [map fst]. constructor; [apply lex_leb_refl|apply kgt_kge; exact B2].
Qed.

(* ---- position_to_min: from a pair of suffixes to FI (or the end) ---- *)
Definition after_min (st : ri_state) (n : nat) (R : list (bytes * bytes)) : Prop :=
  match R with [] => Dead st | _ => FI st n end.

Lemma pos_min_spec : forall fuel S1 S2 W1 W2,
  SN = S1 ++ S2 -> WS = W1 ++ W2 -> compat S1 W1 S2 W2 -> length W2 < fuel ->
  after_min (ri_positioned (position_to_min SN WS fuel (idx_first S1 S2) (idx_first W1 W2)) DirForward)
            (length (merged_live S1 W1)) (merged_live S2 W2).
Proof.
  induction fuel as [|f IH]; intros S1 S2 W1 W2 E1 E2 Cp Hf; [lia|].
  destruct S2 as [|[sk sv] S2]; destruct W2 as [|[wk ow] W2].
  - cbn. repeat split.
  - (* snapshot side exhausted *)
    cbn [idx_first position_to_min]. rewrite (ws_tomb_mid _ _ _ _ _ E2).
    pose proof (compat_klt_S1 _ _ _ _ _ Cp) as A1. cbn [fst] in A1.
    destruct ow as [wv|].
    + rewrite ml_nil_l. cbn [ws_live flat_map fst snd ws_emit app after_min].
      eapply (FI_ws _ _ S1 [] [] W1 wk wv W2 None false); try reflexivity; auto.
      all: try solve [constructor | left; reflexivity | right; split; reflexivity].
    + rewrite (ws_next_mid _ _ _ _ E2).
      specialize (IH S1 [] (W1 ++ [(wk, None)]) W2 E1). cbn [idx_first] in IH.
      rewrite <- app_assoc in IH. specialize (IH E2).
      rewrite merge_snoc_w in IH by (intros x Hx; apply (klt_pairs _ _ _ _ A1 Hx)).
      cbn [fst snd ws_emit] in IH. rewrite app_nil_r in IH.
      rewrite !ml_nil_l. cbn [ws_live flat_map fst snd ws_emit app]. rewrite <- ml_nil_l. apply IH.
      * destruct Cp as [C1 C2]. split; [|intros ? ? ? []]. intros x y Hx Hy. apply C1; [exact Hx|right; exact Hy].
      * cbn [length] in Hf. lia.
  - (* write-set side exhausted *)
    cbn [idx_first position_to_min]. rewrite ml_nil_r. cbn [after_min].
    pose proof (compat_klt_W1 _ _ _ _ _ Cp) as B1. cbn [fst] in B1.
    eapply (FI_snap _ _ S1 sk sv S2 W1 []); try reflexivity; auto.
    all: try solve [constructor].
  - cbn [idx_first position_to_min].
    rewrite (sn_key_mid _ _ _ _ _ E1), (ws_key_mid _ _ _ _ _ E2), (ws_tomb_mid _ _ _ _ _ E2).
    destruct (SN_mid _ _ _ _ E1) as [A1 A2]. destruct (WS_mid _ _ _ _ E2) as [B1 B2].
    pose proof (compat_klt_S1 _ _ _ _ _ Cp) as A1w. cbn [fst] in A1w.
    pose proof (compat_klt_W1 _ _ _ _ _ Cp) as B1s. cbn [fst] in B1s.
    destruct (lex_cmp sk wk) eqn:Ek.
    + (* same key *)
      apply lex_cmp_eq in Ek. subst wk. destruct ow as [wv|].
      * rewrite ml_head_both. cbn [ws_emit app after_min].
        eapply (FI_ws _ _ S1 [(sk, sv)] S2 W1 sk wv W2 (Some (length S1)) true); try reflexivity; auto.
        all: try solve [right; eexists; reflexivity | left; repeat split; discriminate].
      * rewrite (sn_next_mid _ _ _ _ E1), (ws_next_mid _ _ _ _ E2).
        specialize (IH (S1 ++ [(sk, sv)]) S2 (W1 ++ [(sk, None)]) W2).
        rewrite <- !app_assoc in IH. specialize (IH E1 E2).
        rewrite merge_snoc_both in IH by (intros x Hx; eapply klt_pairs; eauto).
        cbn [ws_emit] in IH. rewrite app_nil_r in IH.
        rewrite ml_head_both. cbn [ws_emit app]. apply IH.
        -- destruct Cp as [C1 C2]. split.
           ++ intros x y Hx Hy. apply in_app_or in Hx. destruct Hx as [Hx|[<-|[]]].
              ** apply C1; [exact Hx|right; exact Hy].
              ** cbn [fst]. eapply kgt_pairs; eauto.
           ++ intros y x Hy Hx. apply in_app_or in Hy. destruct Hy as [Hy|[<-|[]]].
              ** apply C2; [exact Hy|right; exact Hx].
              ** cbn [fst]. eapply kgt_pairs; eauto.
        -- cbn [length] in Hf. lia.
    + (* snapshot key first *)
      rewrite ml_cons, Ek. cbn [after_min].
      eapply (FI_snap _ _ S1 sk sv S2 W1 ((wk, ow) :: W2)); try reflexivity; auto.
      all: try solve [cbn [map fst]; constructor; [exact Ek|]; eapply kgt_all_trans; [exact B2|exact Ek]].
    + (* write-set key first *)
      pose proof (lex_cmp_gt_lt _ _ Ek) as Ek'.
      assert (A2w : kgt_all (map fst ((sk, sv) :: S2)) wk).
      { cbn [map fst]. constructor; [exact Ek'|]. eapply kgt_all_trans; [exact A2|exact Ek']. }
      destruct ow as [wv|].
      * rewrite ml_cons, Ek. cbn [ws_emit app after_min].
        eapply (FI_ws _ _ S1 [] ((sk, sv) :: S2) W1 wk wv W2 (Some (length S1)) false); try reflexivity; auto.
        all: try solve [left; reflexivity | right; split; [reflexivity|]; rewrite app_nil_r; reflexivity].
      * rewrite (ws_next_mid _ _ _ _ E2).
        specialize (IH S1 ((sk, sv) :: S2) (W1 ++ [(wk, None)]) W2 E1). cbn [idx_first] in IH.
        rewrite <- app_assoc in IH. specialize (IH E2).
        rewrite merge_snoc_w in IH by (intros x Hx; apply (klt_pairs _ _ _ _ A1w Hx)).
        cbn [fst snd ws_emit] in IH. rewrite app_nil_r in IH.
        rewrite ml_cons, Ek. cbn [ws_emit app]. apply IH.
        -- destruct Cp as [C1 C2]. split.
           ++ intros x y Hx Hy. apply C1; [exact Hx|right; exact Hy].
           ++ intros y x Hy Hx. apply in_app_or in Hy. destruct Hy as [Hy|[<-|[]]].
              ** apply C2; assumption.
              ** cbn [fst]. eapply kgt_pairs; [exact A2w|exact Hx].
        -- cbn [length] in Hf. lia.
Qed.

(* ---- position_to_max: from a pair of prefixes to BI (or the front) ---- *)
Definition after_max (st : ri_state) (P : list (bytes * bytes)) : Prop :=
  (P = [] /\ Dead st) \/ (exists P' x, P = P' ++ [x] /\ BI st (length P')).

Lemma pos_max_spec : forall fuel S1 S2 W1 W2,
  SN = S1 ++ S2 -> WS = W1 ++ W2 -> compat S1 W1 S2 W2 -> length W1 < fuel ->
  after_max (ri_positioned (position_to_max SN WS fuel (idx_last S1) (idx_last W1)) DirBackward)
            (merged_live S1 W1).
Proof.
  induction fuel as [|f IH]; intros S1 S2 W1 W2 E1 E2 Cp Hf; [lia|].
  destruct (list_rcases _ S1) as [->|[S1' [[sk sv] ->]]]; destruct (list_rcases _ W1) as [->|[W1' [[wk ow] ->]]].
  - left. cbn. repeat split.
  - (* snapshot side exhausted *)
    rewrite idx_last_snoc. cbn [idx_last position_to_max].
    pose proof E2 as E2'. rewrite <- app_assoc in E2'. cbn [app] in E2'.
    rewrite (ws_tomb_mid _ _ _ _ _ E2').
    pose proof (compat_kgt_S2r _ _ _ _ _ Cp) as A2. cbn [fst] in A2.
    rewrite merge_snoc_w by (intros x []). cbn [fst snd].
    destruct ow as [wv|].
    + right. exists (merged_live [] W1'), (wk, wv). split; [reflexivity|].
      eapply (BI_ws _ _ [] [] S2 W1' wk wv W2 None false); try reflexivity; auto.
      all: try solve [constructor | left; reflexivity | right; split; reflexivity].
    + rewrite (ws_prev_mid WS). cbn [ws_emit]. rewrite app_nil_r.
      apply (IH [] S2 W1' ((wk, None) :: W2) E1 E2').
      * destruct Cp as [C1 C2]. split; [intros ? ? []|]. intros y x Hy Hx. apply C2; [apply in_or_app; left; exact Hy|exact Hx].
      * rewrite app_length in Hf. cbn [length] in Hf. lia.
  - (* write-set side exhausted *)
    rewrite idx_last_snoc. cbn [idx_last position_to_max].
    pose proof E1 as E1'. rewrite <- app_assoc in E1'. cbn [app] in E1'.
    pose proof (compat_kgt_W2r _ _ _ _ _ Cp) as B2. cbn [fst] in B2.
    right. exists (merged_live S1' []), (sk, sv). split; [apply merge_snoc_s; intros y []|].
    eapply (BI_snap _ _ S1' sk sv S2 [] W2); try reflexivity; auto.
    all: try solve [constructor].
  - rewrite !idx_last_snoc. cbn [position_to_max].
    pose proof E1 as E1'. rewrite <- app_assoc in E1'. cbn [app] in E1'.
    pose proof E2 as E2'. rewrite <- app_assoc in E2'. cbn [app] in E2'.
    rewrite (sn_key_mid _ _ _ _ _ E1'), (ws_key_mid _ _ _ _ _ E2'), (ws_tomb_mid _ _ _ _ _ E2').
    destruct (SN_mid _ _ _ _ E1') as [A1 A2]. destruct (WS_mid _ _ _ _ E2') as [B1 B2].
    pose proof (compat_kgt_S2r _ _ _ _ _ Cp) as A2w. cbn [fst] in A2w.
    pose proof (compat_kgt_W2r _ _ _ _ _ Cp) as B2s. cbn [fst] in B2s.
    destruct (lex_cmp sk wk) eqn:Ek.
    + (* same key *)
      apply lex_cmp_eq in Ek. subst wk.
      rewrite merge_snoc_both by (intros x Hx; eapply klt_pairs; eauto).
      destruct ow as [wv|].
      * right. exists (merged_live S1' W1'), (sk, wv). split; [reflexivity|].
        eapply (BI_ws _ _ S1' [(sk, sv)] S2 W1' sk wv W2 (Some (length S1')) true); try reflexivity; auto.
        all: try solve [right; eexists; reflexivity | left; repeat split; discriminate].
      * rewrite (sn_prev_mid SN), (ws_prev_mid WS). cbn [ws_emit]. rewrite app_nil_r.
        apply (IH S1' ((sk, sv) :: S2) W1' ((sk, None) :: W2) E1' E2').
        -- destruct Cp as [C1 C2]. split.
           ++ intros x y Hx [<-|Hy].
              ** cbn [fst]. eapply klt_pairs; eauto.
              ** apply C1; [apply in_or_app; left; exact Hx|exact Hy].
           ++ intros y x Hy [<-|Hx].
              ** cbn [fst]. eapply klt_pairs; eauto.
              ** apply C2; [apply in_or_app; left; exact Hy|exact Hx].
        -- rewrite app_length in Hf. cbn [length] in Hf. lia.
    + (* write-set key is the greater *)
      assert (A1w : klt_all (map fst (S1' ++ [(sk, sv)])) wk) by (apply klt_all_snoc; assumption).
      rewrite merge_snoc_w by (intros x Hx; apply (klt_pairs _ _ _ _ A1w Hx)). cbn [fst snd].
      destruct ow as [wv|].
      * right. exists (merged_live (S1' ++ [(sk, sv)]) W1'), (wk, wv). split; [reflexivity|].
        eapply (BI_ws _ _ (S1' ++ [(sk, sv)]) [] S2 W1' wk wv W2 (Some (length S1')) false); try reflexivity; auto.
        all: try solve [left; reflexivity | right; split; [reflexivity|]; rewrite idx_last_snoc; reflexivity].
      * rewrite (ws_prev_mid WS). cbn [ws_emit]. rewrite app_nil_r.
        rewrite <- (idx_last_snoc _ S1' (sk, sv)).
        apply (IH (S1' ++ [(sk, sv)]) S2 W1' ((wk, None) :: W2) E1 E2').
        -- destruct Cp as [C1 C2]. split.
           ++ intros x y Hx [<-|Hy].
              ** cbn [fst]. apply (klt_pairs _ _ _ _ A1w Hx).
              ** apply C1; [exact Hx|exact Hy].
           ++ intros y x Hy Hx. apply C2; [apply in_or_app; left; exact Hy|exact Hx].
        -- rewrite app_length in Hf. cbn [length] in Hf. lia.
    + (* snapshot key is the greater *)
      pose proof (lex_cmp_gt_lt _ _ Ek) as Ek'.
      assert (B1s : klt_all (map fst (W1' ++ [(wk, ow)])) sk) by (apply klt_all_snoc; assumption).
      right. exists (merged_live S1' (W1' ++ [(wk, ow)])), (sk, sv).
      split; [apply merge_snoc_s; intros y Hy; apply (klt_pairs _ _ _ _ B1s Hy)|].
      eapply (BI_snap _ _ S1' sk sv S2 (W1' ++ [(wk, ow)]) W2); try reflexivity; auto.
      all: try solve [rewrite idx_last_snoc; reflexivity].
Qed.

(* ---- the simulation relation and the observations ---- *)
Definition sim (st : ri_state) (pos : option nat) : Prop :=
  match pos with Some i => FI st i \/ BI st i | None => Dead st end.

Lemma after_min_sim : forall st P R, after_min st (length P) R -> sim st (idx_first P R).
Proof. intros st P [|x R] H; [exact H|left; exact H]. Qed.

Lemma after_max_sim : forall st P, after_max st P -> sim st (idx_last P).
Proof.
  intros st P [[-> H]|[P' [x [-> H]]]]; [exact H|]. rewrite idx_last_snoc. right. exact H.
Qed.

Lemma FI_get : forall st i, FI st i -> ri_get SN WS st = nth_error (merged_live SN WS) i.
Proof.
  intros st i [S1 k v S2 W1 W2 E1 E2 B1 B2 -> ->|S1 Seq S2 W1 k v W2 c e E1 E2 A1 A2 Sh -> _ ->].
  - rewrite (items_at_snap _ _ _ _ _ _ E1 E2 B1 B2), nth_error_mid.
    unfold ri_get, mkst. cbn [ri_current_source ri_snap cget]. rewrite E1. apply nth_error_mid.
  - rewrite (items_at_ws _ _ _ _ _ _ _ E1 E2 A1 A2 Sh), nth_error_mid.
    unfold ri_get, mkst. cbn [ri_current_source ri_ws_pos]. rewrite E2, nth_error_mid. reflexivity.
Qed.

Lemma BI_get : forall st i, BI st i -> ri_get SN WS st = nth_error (merged_live SN WS) i.
Proof.
  intros st i [S1 k v S2 W1 W2 E1 E2 B1 B2 -> ->|S1 Seq S2 W1 k v W2 c e E1 E2 A1 A2 Sh -> _ ->].
  - rewrite (items_at_snap _ _ _ _ _ _ E1 E2 B1 B2), nth_error_mid.
    unfold ri_get, mkst. cbn [ri_current_source ri_snap cget]. rewrite E1. apply nth_error_mid.
  - rewrite (items_at_ws _ _ _ _ _ _ _ E1 E2 A1 A2 Sh), nth_error_mid.
    unfold ri_get, mkst. cbn [ri_current_source ri_ws_pos]. rewrite E2, nth_error_mid. reflexivity.
Qed.

Lemma sim_get : forall st pos, sim st pos -> ri_get SN WS st = cget (merged_live SN WS) pos.
Proof.
  intros st [i|] H; cbn [sim cget] in *.
  - destruct H as [H|H]; [apply FI_get|apply BI_get]; exact H.
  - destruct H as [H _]. unfold ri_get. rewrite H. reflexivity.
Qed.

Lemma fuel_ok_r : forall W1 W2, WS = W1 ++ W2 -> length W2 < ri_fuel WS.
Proof. intros W1 W2 E. unfold ri_fuel. rewrite E, app_length. lia. Qed.
Lemma fuel_ok_l : forall W1 W2, WS = W1 ++ W2 -> length W1 < ri_fuel WS.
Proof. intros W1 W2 E. unfold ri_fuel. rewrite E, app_length. lia. Qed.

(* ---- seeks ---- *)
Lemma seek_first_sim : forall fresh pos, sim (ri_seek_first SN WS) (cstep (merged_live SN WS) fresh pos CFirst).
Proof.
  intros. rewrite cstep_first. unfold ri_seek_first. rewrite sn_step_first, seek_ws_first_ix, !ix_first_split.
  apply (after_min_sim _ []). apply (pos_min_spec (ri_fuel WS) [] SN [] WS); try reflexivity.
  - split; intros ? ? [].
  - apply (fuel_ok_r []). reflexivity.
Qed.

Lemma seek_last_sim : forall fresh pos, sim (ri_seek_last SN WS) (cstep (merged_live SN WS) fresh pos CLast).
Proof.
  intros. rewrite cstep_last. unfold ri_seek_last. rewrite sn_step_last, seek_ws_last_ix, !ix_last_split.
  apply after_max_sim. apply (pos_max_spec (ri_fuel WS) SN [] WS []).
  - rewrite app_nil_r. reflexivity.
  - rewrite app_nil_r. reflexivity.
  - split; intros ? ? ? [].
  - apply (fuel_ok_l WS []). rewrite app_nil_r. reflexivity.
Qed.

Lemma seek_sim : forall t fresh pos, sim (ri_seek SN WS t) (cstep (merged_live SN WS) fresh pos (CSeek t)).
Proof.
  intros t fresh pos. cbn [cstep]. unfold ri_seek, sn_step, seek_ws. cbn [cstep].
  destruct (split_at _ SN t HS) as [As [Bs [E1 [HA1 HB1]]]].
  destruct (split_at _ WS t HW) as [Aw [Bw [E2 [HA2 HB2]]]].
  assert (Cp : compat As Aw Bs Bw) by (apply (compat_lt_ge t); assumption).
  replace (seek_idx SN t 0) with (idx_first As Bs)
    by (rewrite E1, seek_idx_split by assumption; reflexivity).
  replace (ws_partition_point WS t 0) with (idx_first Aw Bw)
    by (rewrite E2, ws_pp_split by assumption; reflexivity).
  replace (seek_idx (merged_live SN WS) t 0) with (idx_first (merged_live As Aw) (merged_live Bs Bw))
    by (rewrite E1, E2, (merge_app _ _ _ _ Cp), seek_idx_split by (apply merged_bound; assumption); reflexivity).
  apply after_min_sim. apply pos_min_spec; auto. apply (fuel_ok_r Aw). exact E2.
Qed.

(* ---- next from a forward state, prev from a backward state ---- *)
Lemma next_core_FI : forall st i, FI st i ->
  sim (ri_next_core SN WS st) (cstep (merged_live SN WS) false (Some i) CNext).
Proof.
  intros st i [S1 k v S2 W1 W2 E1 E2 B1 B2 -> ->|S1 Seq S2 W1 k v W2 c e E1 E2 A1 A2 Sh -> Hc ->].
  - destruct (SN_mid _ _ _ _ E1) as [A1 A2].
    rewrite (items_at_snap _ _ _ _ _ _ E1 E2 B1 B2), cstep_next_mid.
    unfold ri_next_core, mkst. cbn [ri_is_key_equal ri_current_source ri_snap ri_ws_pos].
    rewrite (sn_next_mid _ _ _ _ E1).
    rewrite <- (merge_snoc_s S1 W1 (k, v)) by (intros y Hy; apply (klt_pairs _ _ _ _ B1 Hy)).
    apply after_min_sim. apply pos_min_spec.
    + rewrite <- app_assoc. exact E1.
    + exact E2.
    + apply (compat_le_gt k); auto. apply kle_all_snoc; exact A1. apply klt_kle; exact B1.
    + apply (fuel_ok_r W1). exact E2.
  - destruct (WS_mid _ _ _ _ E2) as [B1 B2].
    rewrite (items_at_ws _ _ _ _ _ _ _ E1 E2 A1 A2 Sh), cstep_next_mid.
    assert (H : ri_next_core SN WS (mkst c (Some (length W1)) e SrcWriteSet DirForward) =
                ri_positioned (position_to_min SN WS (ri_fuel WS) (idx_first (S1 ++ Seq) S2)
                                               (idx_first (W1 ++ [(k, Some v)]) W2)) DirForward).
    { unfold ri_next_core, mkst. cbn [ri_is_key_equal ri_current_source ri_snap ri_ws_pos].
      destruct Hc as [[-> [Hne ->]]|[-> ->]].
      - destruct Sh as [->|[sv ->]]; [congruence|]. cbn [app] in E1.
        rewrite (sn_next_mid _ _ _ _ E1), (ws_next_mid _ _ _ _ E2). reflexivity.
      - rewrite (ws_next_mid _ _ _ _ E2). reflexivity. }
    rewrite H.
    assert (M : merged_live (S1 ++ Seq) (W1 ++ [(k, Some v)]) = merged_live S1 W1 ++ [(k, v)]).
    { destruct Sh as [->|[sv ->]].
      - rewrite app_nil_r. rewrite merge_snoc_w by (intros x Hx; apply (klt_pairs _ _ _ _ A1 Hx)). reflexivity.
      - rewrite merge_snoc_both by (intros x Hx; eapply klt_pairs; eauto). reflexivity. }
    rewrite <- M. apply after_min_sim. apply pos_min_spec.
    + rewrite <- app_assoc. exact E1.
    + rewrite <- app_assoc. exact E2.
    + apply (compat_le_gt k); auto.
      * rewrite map_app. apply Forall_app. split; [apply klt_kle; exact A1|apply kle_seq; exact Sh].
      * apply kle_all_snoc; exact B1.
    + apply (fuel_ok_r (W1 ++ [(k, Some v)])). rewrite <- app_assoc. exact E2.
Qed.

Lemma prev_core_BI : forall st i, BI st i ->
  sim (ri_prev_core SN WS st) (cstep (merged_live SN WS) false (Some i) CPrev).
Proof.
  intros st i [S1 k v S2 W1 W2 E1 E2 B1 B2 -> ->|S1 Seq S2 W1 k v W2 c e E1 E2 A1 A2 Sh -> Hc ->].
  - destruct (SN_mid _ _ _ _ E1) as [A1 A2].
    rewrite cstep_prev_mid.
    unfold ri_prev_core, mkst. cbn [ri_is_key_equal ri_current_source ri_snap ri_ws_pos].
    rewrite (sn_prev_mid SN).
    apply after_max_sim. apply (pos_max_spec _ S1 ((k, v) :: S2) W1 W2); auto.
    + apply (compat_lt_ge k); auto. apply kge_all_cons; exact A2. apply kgt_kge; exact B2.
    + apply (fuel_ok_l W1 W2). exact E2.
  - destruct (WS_mid _ _ _ _ E2) as [B1 B2].
    rewrite cstep_prev_mid.
    assert (H : ri_prev_core SN WS (mkst c (Some (length W1)) e SrcWriteSet DirBackward) =
                ri_positioned (position_to_max SN WS (ri_fuel WS) (idx_last S1) (idx_last W1)) DirBackward).
    { unfold ri_prev_core, mkst. cbn [ri_is_key_equal ri_current_source ri_snap ri_ws_pos].
      destruct Hc as [[-> [Hne ->]]|[-> ->]].
      - rewrite (sn_prev_mid SN), (ws_prev_mid WS). reflexivity.
      - rewrite (ws_prev_mid WS). reflexivity. }
    rewrite H. apply after_max_sim. apply (pos_max_spec _ S1 (Seq ++ S2) W1 ((k, Some v) :: W2)); auto.
    + apply (compat_lt_ge k); auto.
      * rewrite map_app. apply Forall_app. split; [apply kge_seq; exact Sh|apply kgt_kge; exact A2].
      * apply kge_all_cons; exact B2.
    + apply (fuel_ok_l W1 ((k, Some v) :: W2)). exact E2.
Qed.

(* ---- the direction-change blocks ---- *)
Lemma turn_fwd_BI : forall st i, BI st i -> FI (ri_turn_forward SN WS st) i.
Proof.
  intros st i [S1 k v S2 W1 W2 E1 E2 B1 B2 -> ->|S1 Seq S2 W1 k v W2 c e E1 E2 A1 A2 Sh -> Hc ->].
  - rewrite turn_fwd_snap, (ws_fwd_of_last _ _ _ E2), (keq_now_snap_first _ _ _ _ _ _ _ _ E1 E2 B2).
    eapply (FI_snap _ _ S1 k v S2 W1 W2); eauto.
  - rewrite turn_fwd_other by discriminate.
    destruct Hc as [[-> [Hne ->]]|[-> ->]].
    + destruct Sh as [->|[sv ->]]; [congruence|]. cbn [sn_valid]. cbn [app] in E1.
      rewrite (sn_next_mid _ _ _ _ E1).
      rewrite (keq_now_ws_first SN WS (S1 ++ [(k, sv)]) S2 W1 k (Some v) W2) by (auto; rewrite <- app_assoc; exact E1).
      eapply (FI_ws _ _ S1 [(k, sv)] S2 W1 k v W2 (idx_first (S1 ++ [(k, sv)]) S2) false); try reflexivity; auto.
      all: try solve [right; eexists; reflexivity | right; split; reflexivity].
    + rewrite (sn_fwd_of_last _ _ _ E1).
      destruct Sh as [->|[sv ->]]; cbn [app] in *.
      * rewrite (keq_now_ws_first SN WS S1 S2 W1 k (Some v) W2) by auto.
        eapply (FI_ws _ _ S1 [] S2 W1 k v W2 (idx_first S1 S2) false); try reflexivity; auto.
        all: try solve [left; reflexivity | right; split; [reflexivity|]; rewrite app_nil_r; reflexivity].
      * cbn [idx_first]. rewrite (keq_now_same _ _ _ _ _ _ _ _ _ E1 E2).
        eapply (FI_ws _ _ S1 [(k, sv)] S2 W1 k v W2 (Some (length S1)) true); try reflexivity; auto.
        all: try solve [right; eexists; reflexivity | left; repeat split; discriminate].
Qed.

Lemma turn_bwd_FI : forall st i, FI st i -> BI (ri_turn_backward SN WS st) i.
Proof.
  intros st i [S1 k v S2 W1 W2 E1 E2 B1 B2 -> ->|S1 Seq S2 W1 k v W2 c e E1 E2 A1 A2 Sh -> Hc ->].
  - rewrite turn_bwd_snap, (ws_bwd_of_first _ _ _ E2), (keq_now_snap_last _ _ _ _ _ _ _ _ E1 E2 B1).
    eapply (BI_snap _ _ S1 k v S2 W1 W2); eauto.
  - rewrite turn_bwd_other by discriminate.
    destruct Hc as [[-> [Hne ->]]|[-> ->]].
    + cbn [sn_valid]. rewrite (sn_prev_mid SN).
      rewrite (keq_now_ws_last SN WS S1 (Seq ++ S2) W1 k (Some v) W2) by auto.
      eapply (BI_ws _ _ S1 Seq S2 W1 k v W2 (idx_last S1) false); try reflexivity; auto.
      all: try solve [right; split; reflexivity].
    + rewrite app_assoc in E1. rewrite (sn_bwd_of_first _ _ _ E1). rewrite <- app_assoc in E1.
      destruct Sh as [->|[sv ->]].
      * rewrite app_nil_r. rewrite (keq_now_ws_last SN WS S1 ([] ++ S2) W1 k (Some v) W2) by auto.
        eapply (BI_ws _ _ S1 [] S2 W1 k v W2 (idx_last S1) false); try reflexivity; auto.
        all: try solve [left; reflexivity | right; split; reflexivity].
      * rewrite idx_last_snoc. cbn [app] in E1. rewrite (keq_now_same _ _ _ _ _ _ _ _ _ E1 E2).
        eapply (BI_ws _ _ S1 [(k, sv)] S2 W1 k v W2 (Some (length S1)) true); try reflexivity; auto.
        all: try solve [right; eexists; reflexivity | left; repeat split; discriminate].
Qed.

Lemma FI_shape : forall st i, FI st i -> ri_initialized st = true /\ ri_direction st = DirForward.
Proof. intros st i [? ? ? ? ? ? _ _ _ _ _ ->|? ? ? ? ? ? ? ? ? _ _ _ _ _ _ _ ->]; split; reflexivity. Qed.
Lemma BI_shape : forall st i, BI st i -> ri_initialized st = true /\ ri_direction st = DirBackward.
Proof. intros st i [? ? ? ? ? ? _ _ _ _ _ ->|? ? ? ? ? ? ? ? ? _ _ _ _ _ _ _ ->]; split; reflexivity. Qed.

(* ---- one operation ---- *)
Definition simrel (st : ri_state) (fresh : bool) (pos : option nat) : Prop :=
  if fresh then st = ri_init /\ pos = None else sim st pos.

Lemma next_sim : forall st i, FI st i \/ BI st i ->
  sim (ri_next SN WS st) (cstep (merged_live SN WS) false (Some i) CNext).
Proof.
  intros st i [H|H].
  - destruct (FI_shape _ _ H) as [Hi Hd]. unfold ri_next. rewrite Hi. cbn [negb].
    unfold ri_turn_forward. rewrite Hd. apply next_core_FI. exact H.
  - destruct (BI_shape _ _ H) as [Hi Hd]. unfold ri_next. rewrite Hi. cbn [negb].
    apply next_core_FI. apply turn_fwd_BI. exact H.
Qed.

Lemma prev_sim : forall st i, FI st i \/ BI st i ->
  sim (ri_prev SN WS st) (cstep (merged_live SN WS) false (Some i) CPrev).
Proof.
  intros st i [H|H].
  - destruct (FI_shape _ _ H) as [Hi Hd]. unfold ri_prev. rewrite Hi. cbn [negb].
    apply prev_core_BI. apply turn_bwd_FI. exact H.
  - destruct (BI_shape _ _ H) as [Hi Hd]. unfold ri_prev. rewrite Hi. cbn [negb].
    unfold ri_turn_backward. rewrite Hd. apply prev_core_BI. exact H.
Qed.

Lemma step_sim : forall st fresh pos o, simrel st fresh pos ->
  sim (ri_step SN WS st o) (cstep (merged_live SN WS) fresh pos o).
Proof.
  intros st fresh pos o H. destruct o; cbn [ri_step].
  - apply seek_first_sim.
  - apply seek_last_sim.
  - destruct fresh; cbn [simrel] in H.
    + destruct H as [-> ->]. change (ri_next SN WS ri_init) with (ri_seek_first SN WS).
      change (cstep (merged_live SN WS) true None CNext) with (cstep (merged_live SN WS) true None CFirst).
      apply seek_first_sim.
    + destruct pos as [i|]; cbn [sim] in H.
      * apply next_sim. exact H.
      * cbn [cstep sim]. apply next_Dead. exact H.
  - destruct fresh; cbn [simrel] in H.
    + destruct H as [-> ->]. change (ri_prev SN WS ri_init) with (ri_seek_last SN WS).
      change (cstep (merged_live SN WS) true None CPrev) with (cstep (merged_live SN WS) true None CLast).
      apply seek_last_sim.
    + destruct pos as [i|]; cbn [sim] in H.
      * apply prev_sim. exact H.
      * cbn [cstep sim]. apply prev_Dead. exact H.
  - apply seek_sim.
Qed.

Lemma refines_all : forall prog st fresh pos, simrel st fresh pos -> refines_all_from SN WS st fresh pos prog.
Proof.
  induction prog as [|o r IH]; intros st fresh pos H; cbn [refines_all_from]; [exact I|].
  pose proof (step_sim st fresh pos o H) as H'. split.
  - apply sim_get. exact H'.
  - apply IH. exact H'.
Qed.
End Sim.

(* ------------------------------------------------------------------ *)
(* the statements of Txn/RangeIterSpec.v *)

Theorem overlay_refines_total : overlay_refines_total_stmt.
Proof.
  intros sn ws HS HW prog. apply refines_all; auto. split; reflexivity.
Qed.

Lemma refines_all_from_weaken : forall sn ws prog st fresh pos,
  refines_all_from sn ws st fresh pos prog -> refines_from sn ws st fresh pos prog.
Proof.
  induction prog as [|o r IH]; intros st fresh pos H; cbn [refines_from refines_all_from] in *; [exact I|].
  intros _. destruct H as [H1 H2]. split; [exact H1|apply IH; exact H2].
Qed.

Theorem overlay_refines : overlay_refines_stmt.
Proof.
  intros sn ws HS HW prog. apply refines_all_from_weaken. apply overlay_refines_total; assumption.
Qed.

(* ------------------------------------------------------------------ *)
(* fuel *)

Lemma ws_tomb_in_range : forall ws i, ws_is_tombstone ws i = true -> i < length ws.
Proof.
  intros ws i H. unfold ws_is_tombstone in H. destruct (nth_error ws i) eqn:E; [|discriminate].
  apply nth_error_Some. congruence.
Qed.

Lemma pos_min_fuel : forall sn ws fuel c p,
  match p with Some i => length ws - i | None => 0 end < fuel -> position_to_min sn ws fuel c p <> None.
Proof.
  intros sn ws. induction fuel as [|f IH]; intros c p H; [lia|].
  assert (R : forall c' i, p = Some i -> ws_is_tombstone ws i = true ->
              position_to_min sn ws f c' (advance_ws ws DirForward p) <> None).
  { intros c' i -> Ht. apply ws_tomb_in_range in Ht. apply IH. cbn [advance_ws].
    destruct (Nat.ltb_spec (S i) (length ws)); lia. }
  cbn [position_to_min]. destruct c as [ci|], p as [i|]; try discriminate.
  - destruct (lex_cmp (sn_key sn (Some ci)) (ws_key ws i)); try discriminate;
      destruct (ws_is_tombstone ws i) eqn:Ht; try discriminate; eapply R; eauto.
  - destruct (ws_is_tombstone ws i) eqn:Ht; try discriminate. eapply R; eauto.
Qed.

Lemma pos_max_fuel : forall sn ws fuel c p,
  0 < fuel -> (forall i, p = Some i -> i < length ws -> S i < fuel) -> position_to_max sn ws fuel c p <> None.
Proof.
  intros sn ws. induction fuel as [|f IH]; intros c p H0 H; [lia|].
  assert (R : forall c' i, p = Some i -> ws_is_tombstone ws i = true ->
              position_to_max sn ws f c' (advance_ws ws DirBackward p) <> None).
  { intros c' i -> Ht. apply ws_tomb_in_range in Ht. specialize (H i eq_refl Ht).
    apply IH; [lia|]. intros j Ej Hj. cbn [advance_ws] in Ej. destruct i as [|i']; [discriminate|].
    injection Ej as <-. lia. }
  cbn [position_to_max]. destruct c as [ci|], p as [i|]; try discriminate.
  - destruct (lex_cmp (sn_key sn (Some ci)) (ws_key ws i)); try discriminate;
      destruct (ws_is_tombstone ws i) eqn:Ht; try discriminate; eapply R; eauto.
  - destruct (ws_is_tombstone ws i) eqn:Ht; try discriminate. eapply R; eauto.
Qed.

Theorem position_fuel : position_fuel_stmt.
Proof.
  intros sn ws c p. unfold ri_fuel. split.
  - apply pos_min_fuel. destruct p; lia.
  - apply pos_max_fuel; [lia|]. intros i _ Hi. lia.
Qed.

(* ------------------------------------------------------------------ *)
(* the executable check used for the small-domain validation decides the statement *)

Lemma obs_eqb_eq : forall a b, obs_eqb a b = true <-> a = b.
Proof.
  intros [[k v]|] [[k' v']|]; cbn [obs_eqb]; split; intros H; try discriminate; try reflexivity.
  - apply andb_true_iff in H. destruct H as [H1 H2]. apply bytes_eqb_eq in H1, H2. subst. reflexivity.
  - injection H as <- <-. rewrite !bytes_eqb_refl. reflexivity.
Qed.

Theorem refines_fromb_iff : refines_fromb_iff_stmt.
Proof.
  intros sn ws st fresh pos prog. revert st fresh pos.
  induction prog as [|o r IH]; intros st fresh pos; cbn [refines_fromb refines_from].
  - split; auto.
  - destruct (admissible fresh pos o).
    + rewrite andb_true_iff, obs_eqb_eq, IH. split; [intros H _; exact H|intros H; apply H; reflexivity].
    + split; [intros _ H; discriminate|reflexivity].
Qed.

(* ------------------------------------------------------------------ *)
(* the merged live list is the transaction's view: sorted, and a pair is in it iff the write
   set holds that value for the key, or does not mention the key and the pair is committed *)

Lemma ws_live_cons : forall k ov ws, ws_live ((k, ov) :: ws) = ws_emit k ov ++ ws_live ws.
Proof. reflexivity. Qed.

Lemma sorted_cons_inv : forall k l, keys_sorted (k :: l) -> keys_sorted l /\ kgt_all l k.
Proof. intros k l H. apply StronglySorted_inv in H. exact H. Qed.

Lemma kgt_notin : forall ks k, kgt_all ks k -> ~ In k ks.
Proof. intros ks k H X. apply (kgt_all_in _ _ _ H) in X. rewrite lex_cmp_refl in X. discriminate. Qed.

Lemma emit_sorted : forall kw ow rest, keys_sorted (map fst rest) -> kgt_all (map fst rest) kw ->
  keys_sorted (map fst (ws_emit kw ow ++ rest)).
Proof. intros kw [v|] rest H1 H2; cbn; [constructor; assumption|assumption]. Qed.

Lemma ws_live_sorted : forall ws, keys_sorted (map fst ws) -> keys_sorted (map fst (ws_live ws)).
Proof.
  induction ws as [|[kw ow] ws IH]; intros H; [constructor|].
  cbn [map fst] in H. apply sorted_cons_inv in H. destruct H as [H1 H2].
  rewrite ws_live_cons. apply emit_sorted; [apply IH; exact H1|].
  apply Forall_forall. intros k Hk. apply in_map_iff in Hk. destruct Hk as [x [<- Hx]].
  apply (kgt_all_in _ _ _ H2). apply ws_live_keys. exact Hx.
Qed.

Lemma merged_sorted : forall sn ws, keys_sorted (map fst sn) -> keys_sorted (map fst ws) ->
  keys_sorted (map fst (merged_live sn ws)).
Proof.
  induction sn as [|[ks vs] sn IHS].
  - intros ws _ H. rewrite ml_nil_l. apply ws_live_sorted. exact H.
  - induction ws as [|[kw ow] ws IHW]; intros Hs Hw.
    + rewrite ml_nil_r. exact Hs.
    + pose proof Hs as Hs'. pose proof Hw as Hw'. cbn [map fst] in Hs', Hw'.
      apply sorted_cons_inv in Hs'. apply sorted_cons_inv in Hw'.
      destruct Hs' as [Hs1 Hs2]. destruct Hw' as [Hw1 Hw2].
      rewrite ml_cons. destruct (lex_cmp ks kw) eqn:E.
      * apply lex_cmp_eq in E. subst kw. apply emit_sorted; [apply IHS; assumption|].
        apply merged_bound; assumption.
      * cbn [map fst]. constructor; [apply IHS; assumption|].
        apply (merged_bound (fun x => lex_cmp ks x = Lt)); [exact Hs2|].
        cbn [map fst]. constructor; [exact E|]. eapply kgt_all_trans; eauto.
      * pose proof (lex_cmp_gt_lt _ _ E) as E'.
        apply emit_sorted; [apply IHW; assumption|].
        apply (merged_bound (fun x => lex_cmp kw x = Lt)); [|exact Hw2].
        cbn [map fst]. constructor; [exact E'|]. eapply kgt_all_trans; eauto.
Qed.

Definition view_of (k v : bytes) (sn : list (bytes * bytes)) (ws : list (bytes * option bytes)) : Prop :=
  match ws_lookup k ws with
  | Some (Some v') => v = v'
  | Some None => False
  | None => In (k, v) sn
  end.

Lemma not_in_merged : forall k v sn ws, kgt_all (map fst sn) k -> kgt_all (map fst ws) k ->
  ~ In (k, v) (merged_live sn ws).
Proof.
  intros k v sn ws H1 H2 X.
  pose proof (merged_bound (fun x => lex_cmp k x = Lt) sn ws H1 H2) as B.
  apply (kgt_notin _ _ B). apply (in_map fst) in X. exact X.
Qed.

Lemma in_emit : forall k v kw ow, In (k, v) (ws_emit kw ow) <-> k = kw /\ ow = Some v.
Proof.
  intros k v kw [w|]; cbn; split.
  - intros [X|[]]. injection X as -> ->. split; reflexivity.
  - intros [-> X]. injection X as ->. left. reflexivity.
  - intros [].
  - intros [_ X]. discriminate.
Qed.

Lemma ws_lookup_below : forall ws k, kgt_all (map fst ws) k -> ws_lookup k ws = None.
Proof.
  induction ws as [|[k' o'] ws IH]; intros k H; [reflexivity|]. cbn [ws_lookup map fst] in *.
  pose proof (Forall_inv H) as B1. apply Forall_inv_tail in H. cbn beta in B1.
  rewrite (lex_lt_neqb _ _ B1). apply IH. exact H.
Qed.

Lemma ws_live_char : forall ws k v, keys_sorted (map fst ws) -> (In (k, v) (ws_live ws) <-> view_of k v [] ws).
Proof.
  induction ws as [|[kw ow] ws IH]; intros k v H.
  - cbn. tauto.
  - cbn [map fst] in H. apply sorted_cons_inv in H. destruct H as [H1 H2].
    rewrite ws_live_cons, in_app_iff, in_emit. unfold view_of. cbn [ws_lookup].
    destruct (bytes_eqb k kw) eqn:E.
    + apply bytes_eqb_eq in E. subst k. split.
      * intros [[_ ->]|X]; [reflexivity|]. exfalso. apply (kgt_notin _ _ H2). apply (ws_live_keys _ _ X).
      * destruct ow as [w|]; [intros ->; left; split; reflexivity|intros []].
    + apply bytes_eqb_neq in E. rewrite (IH k v H1). unfold view_of. split.
      * intros [[X _]|X]; [contradiction|exact X].
      * intros X. right. exact X.
Qed.

Lemma merged_char : forall sn ws, keys_sorted (map fst sn) -> keys_sorted (map fst ws) ->
  forall k v, In (k, v) (merged_live sn ws) <-> view_of k v sn ws.
Proof.
  induction sn as [|[ks vs] sn IHS].
  - intros ws _ H k v. rewrite ml_nil_l. apply ws_live_char. exact H.
  - induction ws as [|[kw ow] ws IHW]; intros Hs Hw k v.
    + rewrite ml_nil_r. unfold view_of. cbn [ws_lookup]. tauto.
    + pose proof Hs as Hs'. pose proof Hw as Hw'. cbn [map fst] in Hs', Hw'.
      apply sorted_cons_inv in Hs'. apply sorted_cons_inv in Hw'.
      destruct Hs' as [Hs1 Hs2]. destruct Hw' as [Hw1 Hw2].
      rewrite ml_cons. unfold view_of. cbn [ws_lookup]. destruct (lex_cmp ks kw) eqn:E.
      * (* same key: the write-set entry shadows the committed pair *)
        apply lex_cmp_eq in E. subst kw. rewrite in_app_iff, in_emit.
        destruct (bytes_eqb k ks) eqn:Ek.
        -- apply bytes_eqb_eq in Ek. subst k. split.
           ++ intros [[_ ->]|X]; [reflexivity|]. exfalso. exact (not_in_merged _ _ _ _ Hs2 Hw2 X).
           ++ destruct ow as [w|]; [intros ->; left; split; reflexivity|intros []].
        -- apply bytes_eqb_neq in Ek. rewrite (IHS ws Hs1 Hw1 k v). unfold view_of. split.
           ++ intros [[X _]|X]; [contradiction|]. destruct (ws_lookup k ws) as [[w|]|]; auto. right. exact X.
           ++ intros X. right. destruct (ws_lookup k ws) as [[w|]|]; auto.
              destruct X as [X|X]; [injection X as -> _; congruence|exact X].
      * (* committed key first: it is not in the write set *)
        cbn [In]. rewrite (IHS ((kw, ow) :: ws) Hs1 Hw k v). unfold view_of. cbn [ws_lookup].
        destruct (bytes_eqb k kw) eqn:Ek.
        -- apply bytes_eqb_eq in Ek. subst k. split.
           ++ intros [X|X]; [injection X as -> _; rewrite lex_cmp_refl in E; discriminate|exact X].
           ++ intros X. right. exact X.
        -- destruct (ws_lookup k ws) as [[w|]|] eqn:L.
           ++ split; [intros [X|X]; [|exact X]|intros X; right; exact X].
              injection X as -> ->. exfalso.
              assert (N : ws_lookup k ws = None) by (apply ws_lookup_below; eapply kgt_all_trans; eauto).
              congruence.
           ++ split; [intros [X|X]; [|exact X]|intros []].
              injection X as -> ->.
              assert (N : ws_lookup k ws = None) by (apply ws_lookup_below; eapply kgt_all_trans; eauto).
              congruence.
           ++ tauto.
      * (* write-set key first *)
        pose proof (lex_cmp_gt_lt _ _ E) as E'.
        rewrite in_app_iff, in_emit. rewrite (IHW Hs Hw1 k v). unfold view_of.
        destruct (bytes_eqb k kw) eqn:Ek.
        -- apply bytes_eqb_eq in Ek. subst k.
           assert (N : ws_lookup kw ws = None) by (apply ws_lookup_below; exact Hw2).
           rewrite N. split.
           ++ intros [[_ ->]|X]; [reflexivity|]. exfalso.
              assert (B : kgt_all (map fst ((ks, vs) :: sn)) kw).
              { cbn [map fst]. constructor; [exact E'|]. eapply kgt_all_trans; eauto. }
              apply (kgt_notin _ _ B). apply (in_map fst) in X. exact X.
           ++ destruct ow as [w|]; [intros ->; left; split; reflexivity|intros []].
        -- apply bytes_eqb_neq in Ek. split.
           ++ intros [[X _]|X]; [contradiction|exact X].
           ++ intros X. right. exact X.
Qed.

Theorem merged_live_char : merged_live_char_stmt.
Proof.
  intros sn ws Hs Hw. split; [apply merged_sorted; assumption|].
  intros k v. apply (merged_char sn ws Hs Hw k v).
Qed.

(* ------------------------------------------------------------------ *)
(* all observations of a run; bounds *)

Lemma refines_all_run : forall sn ws prog st fresh pos,
  refines_all_from sn ws st fresh pos prog -> ri_run sn ws st prog = spec_run (merged_live sn ws) fresh pos prog.
Proof.
  induction prog as [|o r IH]; intros st fresh pos H; [reflexivity|].
  cbn [refines_all_from ri_run spec_run] in *. destruct H as [H1 H2]. rewrite H1. f_equal. apply IH. exact H2.
Qed.

Theorem overlay_run : overlay_run_stmt.
Proof. intros sn ws Hs Hw prog. apply refines_all_run. apply overlay_refines_total; assumption. Qed.

Lemma map_fst_restrict : forall V lo hi (l : list (bytes * V)),
  map fst (restrict lo hi l) = filter (in_bounds lo hi) (map fst l).
Proof.
  intros V lo hi. induction l as [|[k v] l IH]; [reflexivity|]. unfold restrict in *. cbn [filter map fst].
  destruct (in_bounds lo hi k); cbn [map fst]; rewrite IH; reflexivity.
Qed.

Lemma keys_sorted_filter : forall P ks, keys_sorted ks -> keys_sorted (filter P ks).
Proof.
  intros P. induction ks as [|k ks IH]; intros H; [constructor|].
  apply sorted_cons_inv in H. destruct H as [H1 H2]. cbn [filter]. destruct (P k); [|apply IH; exact H1].
  constructor; [apply IH; exact H1|]. apply Forall_forall. intros x Hx. apply filter_In in Hx.
  apply (kgt_all_in _ _ _ H2). tauto.
Qed.

Lemma restrict_sorted : forall V lo hi (l : list (bytes * V)), keys_sorted (map fst l) -> keys_sorted (map fst (restrict lo hi l)).
Proof. intros. rewrite map_fst_restrict. apply keys_sorted_filter. assumption. Qed.

(* two lists sorted by distinct keys with the same elements are equal *)
Lemma sorted_ext : forall (l1 l2 : list (bytes * bytes)),
  keys_sorted (map fst l1) -> keys_sorted (map fst l2) -> (forall x, In x l1 <-> In x l2) -> l1 = l2.
Proof.
  induction l1 as [|[k1 v1] l1 IH]; intros l2 H1 H2 HE.
  - destruct l2 as [|x l2]; [reflexivity|]. exfalso. apply (HE x). left. reflexivity.
  - destruct l2 as [|[k2 v2] l2]; [exfalso; apply (HE (k1, v1)); left; reflexivity|].
    cbn [map fst] in H1, H2. apply sorted_cons_inv in H1. apply sorted_cons_inv in H2.
    destruct H1 as [S1 B1]. destruct H2 as [S2 B2].
    assert (Eh : (k1, v1) = (k2, v2)).
    { pose proof (proj1 (HE (k1, v1)) (or_introl eq_refl)) as X1.
      pose proof (proj2 (HE (k2, v2)) (or_introl eq_refl)) as X2.
      destruct X1 as [X1|X1]; [symmetry; exact X1|]. destruct X2 as [X2|X2]; [exact X2|]. exfalso.
      pose proof (kgt_pairs _ _ _ _ B2 X1) as L1. pose proof (kgt_pairs _ _ _ _ B1 X2) as L2. cbn [fst] in L1, L2.
      rewrite (lex_lt_gt _ _ L1) in L2. discriminate. }
    injection Eh as <- <-. f_equal. apply IH; auto. intros x. split; intros Hx.
    + destruct (proj1 (HE x) (or_intror Hx)) as [<-|X]; [|exact X]. exfalso.
      apply (kgt_notin _ _ B1). apply (in_map fst) in Hx. exact Hx.
    + destruct (proj2 (HE x) (or_intror Hx)) as [<-|X]; [|exact X]. exfalso.
      apply (kgt_notin _ _ B2). apply (in_map fst) in Hx. exact Hx.
Qed.

Lemma ws_lookup_restrict : forall lo hi ws k,
  ws_lookup k (restrict lo hi ws) = if in_bounds lo hi k then ws_lookup k ws else None.
Proof.
  intros lo hi. induction ws as [|[k' o'] ws IH]; intros k.
  - cbn. destruct (in_bounds lo hi k); reflexivity.
  - unfold restrict in *. cbn [filter fst]. destruct (in_bounds lo hi k') eqn:B; cbn [ws_lookup].
    + destruct (bytes_eqb k k') eqn:E.
      * apply bytes_eqb_eq in E. subst. rewrite B. reflexivity.
      * apply IH.
    + rewrite IH. destruct (bytes_eqb k k') eqn:E; [|reflexivity].
      apply bytes_eqb_eq in E. subst. rewrite B. reflexivity.
Qed.

Lemma merged_restrict : forall lo hi sn ws, keys_sorted (map fst sn) -> keys_sorted (map fst ws) ->
  merged_live (restrict lo hi sn) (restrict lo hi ws) = restrict lo hi (merged_live sn ws).
Proof.
  intros lo hi sn ws Hs Hw. apply sorted_ext.
  - apply merged_sorted; apply restrict_sorted; assumption.
  - apply restrict_sorted. apply merged_sorted; assumption.
  - intros [k v]. rewrite (merged_char _ _ (restrict_sorted _ lo hi _ Hs) (restrict_sorted _ lo hi _ Hw) k v).
    unfold restrict at 3. rewrite filter_In. cbn [fst]. rewrite (merged_char _ _ Hs Hw k v).
    unfold view_of. rewrite ws_lookup_restrict.
    assert (R : In (k, v) (restrict lo hi sn) <-> In (k, v) sn /\ in_bounds lo hi k = true)
      by (unfold restrict; rewrite filter_In; reflexivity).
    destruct (in_bounds lo hi k).
    + destruct (ws_lookup k ws) as [[w|]|]; tauto.
    + rewrite R. split; [intros [_ X]; discriminate|intros [_ X]; discriminate].
Qed.

Theorem overlay_run_bounded : overlay_run_bounded_stmt.
Proof.
  intros lo hi sn ws Hs Hw prog. unfold ri_run_bounded.
  rewrite overlay_run by (apply restrict_sorted; assumption).
  rewrite merged_restrict by assumption. reflexivity.
Qed.
