(* Txn/RangeIterSpec.v — what the overlay of Txn/RangeIter.v has to do (property C09):
   behave like the specification cursor `Spec.Cursor` over the merged sorted list of live pairs. *)
From Coq Require Import List NArith Arith Bool Sorted.
From SKV Require Import Base.Lex Spec.Cursor Txn.RangeIter.
Import ListNotations.

(* ascending, duplicate-free key lists *)
Definition lex_lt (a b : bytes) : Prop := lex_cmp a b = Lt.
Definition keys_sorted (ks : list bytes) : Prop := StronglySorted lex_lt ks.

(* ---- the transaction's view of the range ----
   committed pairs not shadowed by a write-set entry, plus the write-set values, ascending.
   Defined as the ordinary two-way merge; `merged_live_char_stmt` below pins it down
   independently of the merge (membership + sortedness determine a list uniquely). *)
Definition ws_emit (k : bytes) (ov : option bytes) : list (bytes * bytes) :=
  match ov with Some v => [(k, v)] | None => [] end.

Fixpoint merged_live (sn : list (bytes * bytes)) : list (bytes * option bytes) -> list (bytes * bytes) :=
  fix mw (ws : list (bytes * option bytes)) : list (bytes * bytes) :=
    match sn with
    | [] => match ws with [] => [] | (kw, ow) :: ws' => ws_emit kw ow ++ mw ws' end
    | (ks, vs) :: sn' =>
      match ws with
      | [] => sn
      | (kw, ow) :: ws' =>
        match lex_cmp ks kw with
        | Lt => (ks, vs) :: merged_live sn' ws
        | Gt => ws_emit kw ow ++ mw ws'
        | Eq => ws_emit kw ow ++ merged_live sn' ws'
        end
      end
    end.

(* lookup of a key in the write-set entries *)
Fixpoint ws_lookup (k : bytes) (ws : list (bytes * option bytes)) : option (option bytes) :=
  match ws with
  | [] => None
  | (k', ov) :: r => if bytes_eqb k k' then Some ov else ws_lookup k r
  end.

Definition merged_live_char_stmt : Prop :=
  forall sn ws, keys_sorted (map fst sn) -> keys_sorted (map fst ws) ->
    keys_sorted (map fst (merged_live sn ws)) /\
    forall k v, In (k, v) (merged_live sn ws) <->
                match ws_lookup k ws with
                | Some (Some v') => v = v'          (* written in this transaction *)
                | Some None => False                (* deleted in this transaction *)
                | None => In (k, v) sn              (* untouched: the committed pair *)
                end.

(* ---- programs ---- *)
Definition is_seek (o : cop) : bool := match o with CFirst | CLast | CSeek _ => true | CNext | CPrev => false end.

(* the property's side condition: while the specification cursor is not on an entry after having
   been positioned once (it ran off an end, or a seek found nothing) only seeks are issued.
   On a fresh cursor next / prev are allowed: they act as seek_first / seek_last on both sides. *)
Definition admissible (fresh : bool) (pos : option nat) (o : cop) : bool :=
  is_seek o || fresh || match pos with Some _ => true | None => false end.

Section Refines.
Variable sn : list (bytes * bytes).
Variable ws : list (bytes * option bytes).
Let items := merged_live sn ws.

(* after every operation of an admissible program the overlay's valid/key/value are the
   specification cursor's; an inadmissible operation ends the obligation *)
Fixpoint refines_from (st : ri_state) (fresh : bool) (pos : option nat) (prog : list cop) : Prop :=
  match prog with
  | [] => True
  | o :: r =>
    admissible fresh pos o = true ->
    let st' := ri_step sn ws st o in
    let pos' := cstep items fresh pos o in
    ri_get sn ws st' = cget items pos' /\ refines_from st' false pos' r
  end.

(* without the side condition: every program.  (With the IDEAL snapshot cursor underneath, an
   overlay that ran off an end stays unpositioned under next / prev exactly as the specification
   cursor does, so the side condition is not needed at this layer; it matters for the real
   SnapshotIterator, whose behaviour after running off an end is not part of this model.) *)
Fixpoint refines_all_from (st : ri_state) (fresh : bool) (pos : option nat) (prog : list cop) : Prop :=
  match prog with
  | [] => True
  | o :: r =>
    let st' := ri_step sn ws st o in
    let pos' := cstep items fresh pos o in
    ri_get sn ws st' = cget items pos' /\ refines_all_from st' false pos' r
  end.

(* the same as an executable check (used to validate the statement on small domains) *)
Definition obs_eqb (a b : option (bytes * bytes)) : bool :=
  match a, b with
  | None, None => true
  | Some (k, v), Some (k', v') => bytes_eqb k k' && bytes_eqb v v'
  | _, _ => false
  end.
Fixpoint refines_fromb (st : ri_state) (fresh : bool) (pos : option nat) (prog : list cop) : bool :=
  match prog with
  | [] => true
  | o :: r =>
    if admissible fresh pos o then
      let st' := ri_step sn ws st o in
      let pos' := cstep items fresh pos o in
      obs_eqb (ri_get sn ws st') (cget items pos') && refines_fromb st' false pos' r
    else true
  end.
End Refines.

(* C09, overlay layer: for all committed lists and write-set lists (ascending, duplicate-free
   keys; any sizes) and every admissible program, the overlay refines the specification cursor
   over the merged live list *)
Definition overlay_refines_stmt : Prop :=
  forall sn ws, keys_sorted (map fst sn) -> keys_sorted (map fst ws) ->
    forall prog, refines_from sn ws ri_init true None prog.

(* the stronger form: every program, admissible or not *)
Definition overlay_refines_total_stmt : Prop :=
  forall sn ws, keys_sorted (map fst sn) -> keys_sorted (map fst ws) ->
    forall prog, refines_all_from sn ws ri_init true None prog.

(* the positioning loops never run out of fuel, from any pair of positions: the `None` branch of
   `ri_positioned` is dead code of the model *)
Definition position_fuel_stmt : Prop :=
  forall sn ws c p,
    position_to_min sn ws (ri_fuel ws) c p <> None /\ position_to_max sn ws (ri_fuel ws) c p <> None.

(* the executable check is the statement *)
Definition refines_fromb_iff_stmt : Prop :=
  forall sn ws st fresh pos prog, refines_fromb sn ws st fresh pos prog = true <-> refines_from sn ws st fresh pos prog.

(* what the driver runs (`ri run`): all observations of a program, against all observations of
   the specification cursor; and the same with both lists restricted to the bounds *)
Fixpoint spec_run (items : list (bytes * bytes)) (fresh : bool) (pos : option nat) (prog : list cop)
    : list (option (bytes * bytes)) :=
  match prog with
  | [] => []
  | o :: r => let pos' := cstep items fresh pos o in cget items pos' :: spec_run items false pos' r
  end.

Definition overlay_run_stmt : Prop :=
  forall sn ws, keys_sorted (map fst sn) -> keys_sorted (map fst ws) ->
    forall prog, ri_run sn ws ri_init prog = spec_run (merged_live sn ws) true None prog.

(* restricting both lists to [lo, hi) and merging = merging and restricting: the bounded run is
   the specification cursor over the live pairs of the view that lie inside the bounds *)
Definition overlay_run_bounded_stmt : Prop :=
  forall lo hi sn ws, keys_sorted (map fst sn) -> keys_sorted (map fst ws) ->
    forall prog, ri_run_bounded lo hi sn ws prog = spec_run (restrict lo hi (merged_live sn ws)) true None prog.
