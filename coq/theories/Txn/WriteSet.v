(* Txn/WriteSet.v — model of Transaction's write set (src/transaction.rs: write, set_savepoint,
   rollback_to_savepoint, get's read-your-writes part, commit's flatten + sort by seqno).
   The BTreeMap<Key, Vec<Entry>> is a sorted association list of entry lists. *)
From Coq Require Import List NArith Arith Bool.
From SKV Require Import Base.Lex.
Import ListNotations.

Inductive kind := KSet | KDel | KSoftDel | KReplace.
Definition kind_eqb (a b : kind) : bool :=
  match a, b with KSet, KSet | KDel, KDel | KSoftDel, KSoftDel | KReplace, KReplace => true | _, _ => false end.
(* Entry::is_tombstone: Delete | SoftDelete (RangeDelete is never produced by the API) *)
Definition is_tombstone (k : kind) : bool := match k with KDel | KSoftDel => true | _ => false end.
Definition is_hard_delete (k : kind) : bool := match k with KDel => true | _ => false end.

Record entry := { e_kind : kind; e_val : option bytes; e_sp : nat; e_seqno : nat; e_ts : N }.
(* Entry::COMMIT_TIME = 0: "use the commit timestamp" *)
Definition COMMIT_TIME : N := 0.

Record wset := { ws_map : amap (list entry); ws_savepoints : nat; ws_seqno : nat }.
Definition ws_empty : wset := {| ws_map := []; ws_savepoints := 0; ws_seqno := 0 |}.

(* Transaction::write — replace-or-push *)
Definition ws_write (s : wset) (key : bytes) (k : kind) (v : option bytes) (ts : N) : wset :=
  let q := S (ws_seqno s) in
  let e := {| e_kind := k; e_val := v; e_sp := ws_savepoints s; e_seqno := q; e_ts := ts |} in
  let entries :=
    match amap_get key (ws_map s) with
    | None => [e]
    | Some es =>
      match rev es with
      | [] => [e]
      | l :: before =>
        if Nat.eqb (e_sp l) (e_sp e) then
          if negb (N.eqb (e_ts l) COMMIT_TIME) && negb (N.eqb ts COMMIT_TIME) && negb (N.eqb (e_ts l) ts)
          then es ++ [e]
          else rev before ++ [e]
        else es ++ [e]
      end
    end in
  {| ws_map := amap_set key entries (ws_map s); ws_savepoints := ws_savepoints s; ws_seqno := q |}.

Definition ws_set_savepoint (s : wset) : wset :=
  {| ws_map := ws_map s; ws_savepoints := S (ws_savepoints s); ws_seqno := ws_seqno s |}.

(* rollback_to_savepoint; None = TransactionWithoutSavepoint *)
Definition ws_rollback_to_savepoint (s : wset) : option wset :=
  match ws_savepoints s with
  | O => None
  | S n =>
    let m1 := map (fun '(k, es) => (k, filter (fun e => negb (Nat.eqb (e_sp e) (ws_savepoints s))) es)) (ws_map s) in
    let m2 := filter (fun '(_, es) => match es with [] => false | _ => true end) m1 in
    Some {| ws_map := m2; ws_savepoints := n; ws_seqno := ws_seqno s |}
  end.

(* the pending entry that reads see: the last entry of the key *)
Definition ws_last (s : wset) (key : bytes) : option entry :=
  match amap_get key (ws_map s) with
  | None => None
  | Some es => last (map Some es) None
  end.

(* read-your-writes part of Transaction::get: None = not in the write set;
   Some None = pending delete hides the key; Some (Some v) = pending value *)
Definition ws_get (s : wset) (key : bytes) : option (option bytes) :=
  match ws_last s key with
  | None => None
  | Some e => if is_tombstone (e_kind e) then Some None else Some (e_val e)
  end.

(* commit: flatten, stable sort by seqno; (kind, key, value, timestamp-or-COMMIT_TIME) *)
Record bwrite := { b_kind : kind; b_key : bytes; b_val : option bytes; b_ts : N }.
Fixpoint insert_by_seqno (x : nat * bwrite) (l : list (nat * bwrite)) : list (nat * bwrite) :=
  match l with
  | [] => [x]
  | y :: r => if fst x <? fst y then x :: l else y :: insert_by_seqno x r
  end.
Definition ws_batch (s : wset) : list bwrite :=
  let flat := flat_map (fun '(k, es) => map (fun e => (e_seqno e, {| b_kind := e_kind e; b_key := k; b_val := e_val e; b_ts := e_ts e |})) es) (ws_map s) in
  map snd (fold_left (fun acc x => insert_by_seqno x acc) flat []).

Definition ws_is_empty (s : wset) : bool := match ws_map s with [] => true | _ => false end.
Definition ws_keys (s : wset) : list bytes := map fst (ws_map s).
