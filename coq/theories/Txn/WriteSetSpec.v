(* Txn/WriteSetSpec.v — the specification of a transaction's pending writes: a stack of frames
   (one per open savepoint, plus the base frame), and the statements relating the write-set model
   (Txn/WriteSet.v, a transcription of the implementation) to it.  Proofs: WriteSet_proofs.v. *)
From Coq Require Import List NArith Arith Bool.
From SKV Require Import Base.Lex Txn.WriteSet.
Import ListNotations.

(* a pending write as the transaction issued it *)
Record pw := { p_key : bytes; p_kind : kind; p_val : option bytes; p_ts : N }.

(* frames: head = innermost (current) savepoint frame; each frame in issue order *)
Definition frames := list (list pw).

(* within one frame a later write to the same key supersedes the previous one unless both carry
   different explicit timestamps (two versions) *)
Definition distinct_explicit (a b : N) : bool :=
  negb (N.eqb a COMMIT_TIME) && negb (N.eqb b COMMIT_TIME) && negb (N.eqb a b).

(* remove the last write to key k from a frame *)
Fixpoint remove_last_of (k : bytes) (f : list pw) : list pw :=
  match f with
  | [] => []
  | w :: r => if bytes_eqb (p_key w) k && negb (existsb (fun x => bytes_eqb (p_key x) k) r)
              then r else w :: remove_last_of k r
  end.
Definition last_of (k : bytes) (f : list pw) : option pw :=
  last (map Some (filter (fun x => bytes_eqb (p_key x) k) f)) None.

Definition f_write (fs : frames) (w : pw) : frames :=
  match fs with
  | [] => [[w]]
  | top :: rest =>
    match last_of (p_key w) top with
    | Some l => if distinct_explicit (p_ts l) (p_ts w) then (top ++ [w]) :: rest
                else (remove_last_of (p_key w) top ++ [w]) :: rest
    | None => (top ++ [w]) :: rest
    end
  end.
Definition f_savepoint (fs : frames) : frames := [] :: fs.
Definition f_rollback (fs : frames) : option frames :=
  match fs with
  | top :: (next :: rest) => Some (next :: rest)
  | _ => None
  end.

(* all surviving writes, in issue order *)
Definition f_all (fs : frames) : list pw := concat (rev fs).
Definition f_get (fs : frames) (k : bytes) : option (option bytes) :=
  match last_of k (f_all fs) with
  | None => None
  | Some w => if is_tombstone (p_kind w) then Some None else Some (p_val w)
  end.
Definition f_batch (fs : frames) : list bwrite :=
  map (fun w => {| b_kind := p_kind w; b_key := p_key w; b_val := p_val w; b_ts := p_ts w |}) (f_all fs).

(* programs *)
Inductive wop := OWrite (w : pw) | OSave | ORoll.
Definition m_step (s : wset) (o : wop) : wset :=
  match o with
  | OWrite w => ws_write s (p_key w) (p_kind w) (p_val w) (p_ts w)
  | OSave => ws_set_savepoint s
  | ORoll => match ws_rollback_to_savepoint s with Some s' => s' | None => s end   (* error: unchanged *)
  end.
Definition f_step (fs : frames) (o : wop) : frames :=
  match o with
  | OWrite w => f_write fs w
  | OSave => f_savepoint fs
  | ORoll => match f_rollback fs with Some fs' => fs' | None => fs end
  end.
Definition m_run (p : list wop) (s : wset) : wset := fold_left m_step p s.
Definition f_run (p : list wop) (fs : frames) : frames := fold_left f_step p fs.

(* observables of the model *)
Definition m_obs_eq_frames (s : wset) (fs : frames) : Prop :=
  (forall k, ws_get s k = f_get fs k) /\ ws_batch s = f_batch fs /\ S (ws_savepoints s) = length fs /\
  (ws_rollback_to_savepoint s = None <-> f_rollback fs = None).

(* S1 (refinement): after ANY program from the empty transaction, the write-set model shows exactly
   what the frame specification shows: reads (read-your-writes with pending deletes hiding),
   the batch a commit would apply (surviving writes in issue order), the savepoint depth and
   whether a rollback-to-savepoint is possible. *)
Definition ws_refines_frames_stmt : Prop :=
  forall p : list wop, m_obs_eq_frames (m_run p ws_empty) (f_run p [[]]).

(* balanced programs: every rollback-to-savepoint matches a savepoint set inside the program *)
Fixpoint balanced (d : nat) (p : list wop) : bool :=
  match p with
  | [] => Nat.eqb d 0
  | OSave :: r => balanced (S d) r
  | ORoll :: r => match d with O => false | S n => balanced n r end
  | OWrite _ :: r => balanced d r
  end.

(* S2 (rollback_exact): from any reachable state, set_savepoint; any balanced body; rollback_to_savepoint
   restores exactly the pending writes that existed when the savepoint was set *)
Definition rollback_exact_stmt : Prop :=
  forall (pre body : list wop), balanced 0 body = true ->
    let s0 := m_run pre ws_empty in
    let s1 := m_run (OSave :: body ++ [ORoll]) s0 in
    (forall k, ws_get s1 k = ws_get s0 k) /\ ws_batch s1 = ws_batch s0 /\ ws_savepoints s1 = ws_savepoints s0.
