(* Spec/Store.v — the abstract MVCC store: the committed history is a list of batches in commit
   order; a snapshot is a number of commits; reads are folds over the visible prefix.
   This is the specification the properties are stated against (no levels, no files). *)
From Coq Require Import List NArith Arith Bool.
From SKV Require Import Base.Lex Txn.WriteSet.
Import ListNotations.

Definition batch := list bwrite.
Definition history := list batch.          (* oldest first *)

Definition apply_write (m : amap bytes) (w : bwrite) : amap bytes :=
  match b_kind w, b_val w with
  | KSet, Some v | KReplace, Some v => amap_set (b_key w) v m
  | KSet, None | KReplace, None => amap_set (b_key w) [] m
  | KDel, _ | KSoftDel, _ => amap_del (b_key w) m
  end.
Definition apply_batch (m : amap bytes) (b : batch) : amap bytes := fold_left apply_write b m.

(* the live key/value map seen by a snapshot taken after s commits *)
Definition view (h : history) (s : nat) : amap bytes := fold_left apply_batch (firstn s h) [].
Definition spec_get (h : history) (s : nat) (k : bytes) : option bytes := amap_get k (view h s).

(* a transaction's view: its pending writes (last entry per key; a pending delete hides) over its snapshot *)
Definition overlay (m : amap bytes) (ws : wset) : amap bytes :=
  fold_left (fun acc k => match ws_get ws k with
                          | Some (Some v) => amap_set k v acc
                          | Some None => amap_del k acc
                          | None => acc
                          end) (ws_keys ws) m.

(* keys in [lo, hi): a bound of None is absent *)
Definition in_range (lo hi : option bytes) (k : bytes) : bool :=
  (match lo with None => true | Some l => lex_leb l k end) &&
  (match hi with None => true | Some u => lex_ltb k u end).
Definition range_view (m : amap bytes) (lo hi : option bytes) : list (bytes * bytes) :=
  filter (fun kv => in_range lo hi (fst kv)) m.

(* first-committer-wins: a transaction that began after s commits conflicts iff a later commit
   wrote one of its keys *)
Definition wrote_key (b : batch) (k : bytes) : bool := existsb (fun w => bytes_eqb (b_key w) k) b.
Definition conflicts (h : history) (s : nat) (keys : list bytes) : bool :=
  existsb (fun b => existsb (wrote_key b) keys) (skipn s h).
