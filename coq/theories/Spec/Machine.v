(* Spec/Machine.v — the specification machine that the API-history engine (E2) runs beside the
   implementation: committed history + open transactions (write-set model + snapshot) + cursors.
   Physical operations (rotate, flush, compaction, clean reopen) are identities on it. *)
From Coq Require Import List NArith Arith Bool.
From SKV Require Import Base.Lex Txn.WriteSet Spec.Store Spec.Cursor Spec.Versioned.
Import ListNotations.

Inductive mode := RW | RO | WO.
Inductive err := EClosed | EReadOnly | EWriteOnly | EEmptyKey | EConflict | ENoSavepoint | ENoTxn | EUnsupported | ENoVersioning.

Record txn := { t_mode : mode; t_closed : bool; t_snap : nat; t_ws : wset }.
Record cursor := { c_items : list (bytes * bytes); c_pos : option nat; c_fresh : bool }.

Record mstate := {
  m_hist : history;
  m_txns : list (nat * txn);        (* transaction id -> txn *)
  m_curs : list (nat * cursor);     (* cursor id -> cursor *)
  m_clock : N;                      (* the logical clock: timestamp given to commit-time writes *)
  m_versioning : bool;
  m_ckpts : list (nat * history);   (* checkpoints: the committed history they hold *)
}.
Definition m0 : mstate := {| m_hist := []; m_txns := []; m_curs := []; m_clock := 0; m_versioning := false; m_ckpts := [] |}.

Inductive resp :=
| ROk
| RErr (e : err)
| RVal (v : option bytes)
| RCur (kv : option (bytes * bytes))
| RList (l : list (bytes * bytes))
| RHist (l : list (bytes * version)).

Fixpoint assoc_get {A} (i : nat) (l : list (nat * A)) : option A :=
  match l with [] => None | (j, a) :: r => if Nat.eqb i j then Some a else assoc_get i r end.
Fixpoint assoc_set {A} (i : nat) (a : A) (l : list (nat * A)) : list (nat * A) :=
  match l with [] => [(i, a)] | (j, b) :: r => if Nat.eqb i j then (i, a) :: r else (j, b) :: assoc_set i a r end.
Fixpoint assoc_del {A} (i : nat) (l : list (nat * A)) : list (nat * A) :=
  match l with [] => [] | (j, b) :: r => if Nat.eqb i j then r else (j, b) :: assoc_del i r end.

Definition with_txns (s : mstate) (t : list (nat * txn)) := {| m_hist := m_hist s; m_txns := t; m_curs := m_curs s; m_clock := m_clock s; m_versioning := m_versioning s; m_ckpts := m_ckpts s |}.
Definition with_curs (s : mstate) (c : list (nat * cursor)) := {| m_hist := m_hist s; m_txns := m_txns s; m_curs := c; m_clock := m_clock s; m_versioning := m_versioning s; m_ckpts := m_ckpts s |}.
Definition set_txn (s : mstate) (i : nat) (t : txn) := with_txns s (assoc_set i t (m_txns s)).

Definition mutable (m : mode) : bool := match m with RO => false | _ => true end.

Inductive cmd :=
| Begin (id : nat) (m : mode)
| Write (id : nat) (k : kind) (key : bytes) (v : option bytes) (ts : N)
| Get (id : nat) (key : bytes)
| Savepoint (id : nat)
| RollbackTo (id : nat)
| Commit (id : nat)
| Rollback (id : nat)                 (* also models drop *)
| Range (id cid : nat) (lo hi : option bytes)
| Cur (cid : nat) (o : cop)
| CurClose (cid : nat)
| Scan (id : nat) (lo hi : option bytes) (backward : bool)
| SetClock (t : N)
| SetVersioning (b : bool)
| GetAt (id : nat) (key : bytes) (T : N)
| History (id : nat) (lo hi : option bytes) (tomb : bool) (r : option (N * N)) (limit : option nat) (backward : bool)
| HistoryTsFirst (id : nat) (lo hi : option bytes) (tomb : bool) (r : option (N * N)) (limit : option nat) (backward : bool)
| Checkpoint (c : nat)                (* taken while no commit is in flight *)
| Restore (c : nat)                   (* back to the checkpointed state; open transactions and cursors end *)
| CkptScan (c : nat)                  (* the checkpoint directory opened as a database of its own: full scan *)
| Physical                            (* rotate / flush / compact: no effect *)
| Reopen.                             (* clean close + open: open transactions and cursors end *)

Definition txn_view (s : mstate) (t : txn) : amap bytes := overlay (view (m_hist s) (t_snap t)) (t_ws t).

(* an inverted range (lo > hi) selects nothing; in_range already gives that *)
Definition step (s : mstate) (c : cmd) : mstate * resp :=
  match c with
  | Begin id m =>
    (set_txn s id {| t_mode := m; t_closed := false; t_snap := length (m_hist s); t_ws := ws_empty |}, ROk)
  | Write id k key v ts =>
    match assoc_get id (m_txns s) with
    | None => (s, RErr ENoTxn)
    | Some t =>
      if negb (mutable (t_mode t)) then (s, RErr EReadOnly)
      else if t_closed t then (s, RErr EClosed)
      else match key with
           | [] => (s, RErr EEmptyKey)
           | _ => (set_txn s id {| t_mode := t_mode t; t_closed := false; t_snap := t_snap t;
                                   t_ws := ws_write (t_ws t) key k v ts |}, ROk)
           end
    end
  | Get id key =>
    match assoc_get id (m_txns s) with
    | None => (s, RErr ENoTxn)
    | Some t =>
      if t_closed t then (s, RErr EClosed)
      else match key with
           | [] => (s, RErr EEmptyKey)
           | _ => match t_mode t with
                  | WO => (s, RErr EWriteOnly)
                  | _ => match ws_get (t_ws t) key with
                         | Some r => (s, RVal r)
                         | None => (s, RVal (spec_get (m_hist s) (t_snap t) key))
                         end
                  end
           end
    end
  | Savepoint id =>
    match assoc_get id (m_txns s) with
    | None => (s, RErr ENoTxn)
    | Some t =>
      if negb (mutable (t_mode t)) then (s, RErr EReadOnly)
      else if t_closed t then (s, RErr EClosed)
      else (set_txn s id {| t_mode := t_mode t; t_closed := false; t_snap := t_snap t;
                            t_ws := ws_set_savepoint (t_ws t) |}, ROk)
    end
  | RollbackTo id =>
    match assoc_get id (m_txns s) with
    | None => (s, RErr ENoTxn)
    | Some t =>
      if negb (mutable (t_mode t)) then (s, RErr EReadOnly)
      else if t_closed t then (s, RErr EClosed)
      else match ws_rollback_to_savepoint (t_ws t) with
           | None => (s, RErr ENoSavepoint)
           | Some w => (set_txn s id {| t_mode := t_mode t; t_closed := false; t_snap := t_snap t; t_ws := w |}, ROk)
           end
    end
  | Commit id =>
    match assoc_get id (m_txns s) with
    | None => (s, RErr ENoTxn)
    | Some t =>
      if t_closed t then (s, RErr EClosed)
      else match t_mode t with
           | RO => (s, RErr EReadOnly)
           | _ =>
             if ws_is_empty (t_ws t) then
               (set_txn s id {| t_mode := t_mode t; t_closed := true; t_snap := t_snap t; t_ws := t_ws t |}, ROk)
             else if conflicts (m_hist s) (t_snap t) (ws_keys (t_ws t)) then
               (* the write set has been taken; the transaction stays open and empty *)
               (set_txn s id {| t_mode := t_mode t; t_closed := false; t_snap := t_snap t;
                                t_ws := {| ws_map := []; ws_savepoints := ws_savepoints (t_ws t); ws_seqno := ws_seqno (t_ws t) |} |},
                RErr EConflict)
             else
               (* commit-time writes receive the clock's current timestamp *)
               let stamped := map (fun w => if N.eqb (b_ts w) COMMIT_TIME
                                            then {| b_kind := b_kind w; b_key := b_key w; b_val := b_val w; b_ts := m_clock s |}
                                            else w) (ws_batch (t_ws t)) in
               let s1 := {| m_hist := m_hist s ++ [stamped]; m_txns := m_txns s; m_curs := m_curs s;
                            m_clock := m_clock s; m_versioning := m_versioning s; m_ckpts := m_ckpts s |} in
               (set_txn s1 id {| t_mode := t_mode t; t_closed := true; t_snap := t_snap t;
                                 t_ws := {| ws_map := []; ws_savepoints := ws_savepoints (t_ws t); ws_seqno := ws_seqno (t_ws t) |} |}, ROk)
           end
    end
  | Rollback id =>
    match assoc_get id (m_txns s) with
    | None => (s, RErr ENoTxn)
    | Some t => (set_txn s id {| t_mode := t_mode t; t_closed := true; t_snap := t_snap t; t_ws := ws_empty |}, ROk)
    end
  | Range id cid lo hi =>
    match assoc_get id (m_txns s) with
    | None => (s, RErr ENoTxn)
    | Some t =>
      if t_closed t then (s, RErr EClosed)
      else match t_mode t with
           | WO => (s, RErr EWriteOnly)
           | _ => (with_curs s (assoc_set cid {| c_items := range_view (txn_view s t) lo hi; c_pos := None; c_fresh := true |} (m_curs s)), ROk)
           end
    end
  | Cur cid o =>
    match assoc_get cid (m_curs s) with
    | None => (s, RErr ENoTxn)
    | Some c =>
      let p := cstep (c_items c) (c_fresh c) (c_pos c) o in
      (with_curs s (assoc_set cid {| c_items := c_items c; c_pos := p; c_fresh := false |} (m_curs s)),
       RCur (cget (c_items c) p))
    end
  | CurClose cid => (with_curs s (assoc_del cid (m_curs s)), ROk)
  | Scan id lo hi backward =>
    match assoc_get id (m_txns s) with
    | None => (s, RErr ENoTxn)
    | Some t =>
      if t_closed t then (s, RErr EClosed)
      else match t_mode t with
           | WO => (s, RErr EWriteOnly)
           | _ => let l := range_view (txn_view s t) lo hi in (s, RList (if backward then rev l else l))
           end
    end
  | SetClock t => ({| m_hist := m_hist s; m_txns := m_txns s; m_curs := m_curs s; m_clock := t; m_versioning := m_versioning s; m_ckpts := m_ckpts s |}, ROk)
  | SetVersioning b => ({| m_hist := m_hist s; m_txns := m_txns s; m_curs := m_curs s; m_clock := m_clock s; m_versioning := b; m_ckpts := m_ckpts s |}, ROk)
  | GetAt id key T =>
    match assoc_get id (m_txns s) with
    | None => (s, RErr ENoTxn)
    | Some t =>
      if t_closed t then (s, RErr EClosed)
      else match key with
           | [] => (s, RErr EEmptyKey)
           | _ => match t_mode t with
                  | WO => (s, RErr EWriteOnly)
                  | _ =>
                    if negb (m_versioning s) then (s, RErr ENoVersioning) else
                    (* read-your-writes as Transaction::get_at does it: a pending hard delete hides
                       everything; a pending entry whose timestamp (0 = commit time) is <= T answers *)
                    match ws_last (t_ws t) key with
                    | Some e =>
                      if is_hard_delete (e_kind e) then (s, RVal None)
                      else if N.leb (e_ts e) T then (s, RVal (if is_tombstone (e_kind e) then None else e_val e))
                      else (s, RVal (spec_get_at (m_hist s) (t_snap t) key T))
                    | None => (s, RVal (spec_get_at (m_hist s) (t_snap t) key T))
                    end
                  end
           end
    end
  | History id lo hi tomb r limit backward =>
    match assoc_get id (m_txns s) with
    | None => (s, RErr ENoTxn)
    | Some t =>
      if t_closed t then (s, RErr EClosed)
      else match t_mode t with
           | WO => (s, RErr EWriteOnly)
           | _ => if negb (m_versioning s) then (s, RErr ENoVersioning)
                  else (s, RHist (spec_history (m_hist s) (t_snap t) lo hi tomb r limit backward))
           end
    end
  | HistoryTsFirst id lo hi tomb r limit backward =>
    (* classifier for the known class F22 (not a specification) *)
    match assoc_get id (m_txns s) with
    | None => (s, RErr ENoTxn)
    | Some t => (s, RHist (spec_history_tsfirst (m_hist s) (t_snap t) lo hi tomb r limit backward))
    end
  | Checkpoint c =>
    ({| m_hist := m_hist s; m_txns := m_txns s; m_curs := m_curs s; m_clock := m_clock s;
        m_versioning := m_versioning s; m_ckpts := assoc_set c (m_hist s) (m_ckpts s) |}, ROk)
  | Restore c =>
    match assoc_get c (m_ckpts s) with
    | None => (s, RErr ENoTxn)
    | Some h => ({| m_hist := h; m_txns := []; m_curs := []; m_clock := m_clock s;
                    m_versioning := m_versioning s; m_ckpts := m_ckpts s |}, ROk)
    end
  | CkptScan c =>
    match assoc_get c (m_ckpts s) with
    | None => (s, RErr ENoTxn)
    | Some h => (s, RList (view h (length h)))
    end
  | Physical => (s, ROk)
  | Reopen => ({| m_hist := m_hist s; m_txns := []; m_curs := []; m_clock := m_clock s; m_versioning := m_versioning s; m_ckpts := m_ckpts s |}, ROk)
  end.
