(* Spec/Versioned.v — specification of time-travel reads and version history (C10) over the
   abstract committed history.  A version of a key = one committed write (kind, value, timestamp);
   versions of a key are considered in commit order.  A hard delete or a replace is a BARRIER:
   it erases every earlier version for good (the replace itself stays, the hard delete does not). *)
From Coq Require Import List NArith Arith Bool.
From SKV Require Import Base.Lex Txn.WriteSet Spec.Store.
Import ListNotations.

Record version := { v_ts : N; v_kind : kind; v_val : bytes }.

(* all committed writes to key k visible after s commits, OLDEST first *)
Definition versions_of (h : history) (s : nat) (k : bytes) : list version :=
  flat_map (fun b => flat_map (fun w =>
      if bytes_eqb (b_key w) k
      then [{| v_ts := b_ts w; v_kind := b_kind w; v_val := match b_val w with Some v => v | None => [] end |}]
      else []) b) (firstn s h).

(* what survives the barriers: scan oldest -> newest, a hard delete clears everything, a replace
   clears everything and stays *)
Definition retain_step (acc : list version) (v : version) : list version :=
  match v_kind v with
  | KDel => []
  | KReplace => [v]
  | _ => acc ++ [v]
  end.
Definition retained (vs : list version) : list version := fold_left retain_step vs [].

(* read at timestamp T: the retained version with the greatest timestamp <= T (among equal
   timestamps the later commit); nothing if it is a delete or none exists *)
Definition pick_at (T : N) (best : option version) (v : version) : option version :=
  if N.leb (v_ts v) T then
    match best with
    | Some b => if N.leb (v_ts b) (v_ts v) then Some v else best
    | None => Some v
    end
  else best.
Definition spec_get_at (h : history) (s : nat) (k : bytes) (T : N) : option bytes :=
  match fold_left (pick_at T) (retained (versions_of h s k)) None with
  | Some v => if is_tombstone (v_kind v) then None else Some (v_val v)
  | None => None
  end.

(* history of a key range: keys ascending, per key newest first; tombstones on request; optional
   inclusive timestamp range; optional limit on the number of entries *)
Definition keys_of (h : history) (s : nat) : list bytes :=
  map fst (fold_left (fun m b => fold_left (fun m w => amap_set (b_key w) tt m) b m) (firstn s h) []).
Definition in_ts (r : option (N * N)) (t : N) : bool :=
  match r with None => true | Some (a, b) => N.leb a t && N.leb t b end.
Definition key_history (h : history) (s : nat) (tomb : bool) (r : option (N * N)) (k : bytes) : list (bytes * version) :=
  map (fun v => (k, v))
      (filter (fun v => (tomb || negb (is_tombstone (v_kind v))) && in_ts r (v_ts v))
              (rev (retained (versions_of h s k)))).
Definition spec_history (h : history) (s : nat) (lo hi : option bytes) (tomb : bool) (r : option (N * N))
           (limit : option nat) (backward : bool) : list (bytes * version) :=
  let ks := filter (in_range lo hi) (keys_of h s) in
  let all := flat_map (key_history h s tomb r) ks in
  let dir := if backward then rev all else all in
  match limit with None => dir | Some n => firstn n dir end.

(* ---- known class F22: the pinned implementation applies the timestamp-range filter BEFORE the
   barrier logic (and prunes tables / seeks by timestamp), so a hard delete or replace whose
   timestamp lies outside the requested range does not erase the older versions inside it. *)
Definition key_history_tsfirst (h : history) (s : nat) (tomb : bool) (r : option (N * N)) (k : bytes) : list (bytes * version) :=
  map (fun v => (k, v))
      (filter (fun v => tomb || negb (is_tombstone (v_kind v)))
              (rev (retained (filter (fun v => in_ts r (v_ts v)) (versions_of h s k))))).
Definition spec_history_tsfirst (h : history) (s : nat) (lo hi : option bytes) (tomb : bool) (r : option (N * N))
           (limit : option nat) (backward : bool) : list (bytes * version) :=
  let ks := filter (in_range lo hi) (keys_of h s) in
  let all := flat_map (key_history_tsfirst h s tomb r) ks in
  let dir := if backward then rev all else all in
  match limit with None => dir | Some n => firstn n dir end.
