(* Spec/Cursor.v — a cursor over a sorted list of live (key, value) pairs: the specification of
   range cursors (C09). Position None = not on an entry. *)
From Coq Require Import List NArith Arith Bool.
From SKV Require Import Base.Lex.
Import ListNotations.

Inductive cop := CFirst | CLast | CNext | CPrev | CSeek (target : bytes).

Section Cursor.
Variable items : list (bytes * bytes).      (* ascending by key, keys distinct *)

Fixpoint seek_idx (l : list (bytes * bytes)) (t : bytes) (i : nat) : option nat :=
  match l with
  | [] => None
  | (k, _) :: r => if lex_leb t k then Some i else seek_idx r t (S i)
  end.

(* next/prev on an unpositioned cursor behave as seek_first/seek_last (as the implementation's
   uninitialised iterator does); after running off an end the property only allows seeks *)
Definition cstep (fresh : bool) (pos : option nat) (o : cop) : option nat :=
  match o with
  | CFirst => match items with [] => None | _ => Some 0 end
  | CLast => match items with [] => None | _ => Some (length items - 1) end
  | CSeek t => seek_idx items t 0
  | CNext => match pos with
             | Some i => if S i <? length items then Some (S i) else None
             | None => if fresh then (match items with [] => None | _ => Some 0 end) else None
             end
  | CPrev => match pos with
             | Some i => match i with O => None | S j => Some j end
             | None => if fresh then (match items with [] => None | _ => Some (length items - 1) end) else None
             end
  end.
Definition cget (pos : option nat) : option (bytes * bytes) :=
  match pos with None => None | Some i => nth_error items i end.
End Cursor.
