(* Props/C07.v — the store can reopen what it wrote *)
From Coq Require Import List NArith Arith Bool.
From SKV Require Import Base.Lex Txn.WriteSet Spec.Store.
From SKV Require Import Crash.Proto Crash.ProtoSpec Crash.ProtoRefute Crash.Proto_proofs Crash.ProtoRecovery_proofs.
From SKV Require Import Codec.VlogParams Lsm.VlogOpen Lsm.VlogOpenSpec Lsm.VlogOpen_proofs.
From SKV Require Lsm.ArenaParams Lsm.Arena Lsm.ArenaSpec Lsm.Arena_proofs.
Import ListNotations.

(* recovery as a specification: the state after the first n commits; states of longer prefixes
   extend shorter ones commit by commit (the oracle of the crash engine: "the recovered map equals
   view h n for some n not smaller than the number of acknowledged commits") *)
Theorem C07_prefix_states_compose :
  forall (h : history) (n : nat) (b : batch), n = length h -> view (h ++ [b]) (S n) = apply_batch (view h n) b.
Proof.
  intros h n b Hn. unfold view. subst n.
  replace (S (length h)) with (length (h ++ [b])) by (rewrite app_length; cbn [length]; apply Nat.add_1_r).
  rewrite !firstn_all. rewrite fold_left_app. reflexivity.
Qed.

(* protocol level: every crash image of an accepted trace opens; the recovery's own file operations
   are accepted; a process crash after any number of them recovers the same batches; everything
   recovered is numbered below the next commit *)
Theorem C07_reopen_ok : reopen_ok_stmt.
Proof. exact reopen_ok. Qed.

Theorem C07_generations_compose : generations_compose_stmt.
Proof. exact generations_compose. Qed.

(* recovery's flush of a piece of a replayed segment is accepted after a power loss (everything that
   is left is on disk); before c9fa42b the recovery after a process crash was not: C03_recovery_piece_unsynced_old_recovery_refuted *)
Theorem C07_power_loss_on_disk : power_loss_on_disk_stmt.
Proof. exact power_loss_on_disk. Qed.

Theorem C07_piece_flush_accepted : piece_flush_accepted_stmt.
Proof. exact piece_flush_accepted. Qed.

(* the whole recovery of the repaired code (writer open, fsync of the replayed segments, flush of every
   piece but the last) is accepted after either crash and for every split; the store opens after a
   crash at any point inside it, with the same batches after a process crash *)
Theorem C07_recovery_pieces_accepted : recovery_pieces_accepted_stmt.
Proof. exact recovery_pieces_accepted. Qed.

Theorem C07_generations_compose_pieces : generations_compose_pieces_stmt.
Proof. exact generations_compose_pieces. Qed.

Theorem C07_crash_in_recovery_safe : crash_in_recovery_safe_stmt.
Proof. exact crash_in_recovery_safe. Qed.

(* what the obligations exclude: a table of the manifest that is not on disk / was unlinked, an
   append after a torn tail *)
Theorem C07_compaction_unsynced_refuted : compaction_unsynced_refuted_stmt.
Proof. exact compaction_unsynced_refuted. Qed.

Theorem C07_p4_needed : p4_needed_stmt.
Proof. exact p4_needed. Qed.

Theorem C07_p5_rejected : p5_rejected_stmt.
Proof. exact p5_rejected. Qed.

(* value-log directory: whatever prefix of its header a crash leaves of a new value-log file (nothing, a torn header,
   all of it), the directory opens, the writer completes the header and the next open accepts the file; the open
   changes no file that holds a complete header.  VLOG_OPEN_EMPTIES_TORN_HEADER is generated from src/vlog.rs
   (prefill_file_handles); before the repair a one-byte header refused the directory for good *)
Theorem C07_vlog_open_params : vopen_params_ok = true.
Proof. reflexivity. Qed.

Theorem C07_vlog_header_accepted : header_accepted_stmt.
Proof. exact header_accepted. Qed.

Theorem C07_every_vlog_header_prefix_opens : every_header_prefix_opens_stmt VLOG_OPEN_EMPTIES_TORN_HEADER.
Proof. exact (every_header_prefix_opens VLOG_OPEN_EMPTIES_TORN_HEADER eq_refl). Qed.

Theorem C07_vlog_open_keeps_or_empties_torn : open_keeps_or_empties_torn_stmt.
Proof. exact open_keeps_or_empties_torn. Qed.

Theorem C07_torn_vlog_header_refused_without_repair : torn_header_refused_without_repair_stmt.
Proof. exact torn_header_refused_without_repair. Qed.

(* memtable arena accounting (Lsm/Arena.v; sizes and formulas GENERATED from src/memtable/{skiplist,arena,mod}.rs): a batch that
   the pre-WAL size check admits is accepted by an EMPTY memtable whatever tower heights are drawn — so a logged batch can always
   be applied after a rotation and replayed by recovery; a granted reservation of MemTable::add cannot run out.  Before 99893dd the
   bound lacked the max_unused_tower term: refuted by a closed witness (finding F55) *)
Theorem C07_arena_params : Arena.arena_params_ok = true /\ ArenaParams.ARENA_ANCHORS_OK = true.
Proof. split; reflexivity. Qed.

Theorem C07_reservation_sufficient : ArenaSpec.reservation_sufficient_stmt.
Proof. exact Arena_proofs.reservation_sufficient. Qed.

Theorem C07_admitted_batch_fits_empty_memtable : ArenaSpec.admitted_fits_empty_stmt ArenaParams.ARENA_BOUND_HAS_UNUSED_TOWER.
Proof. exact (Arena_proofs.admitted_fits_empty ArenaParams.ARENA_BOUND_HAS_UNUSED_TOWER eq_refl). Qed.

Theorem C07_admission_bound_height_free : ArenaSpec.bound_height_free_stmt.
Proof. exact Arena_proofs.bound_height_free. Qed.

Theorem C07_old_admission_bound_refuted : ArenaSpec.old_bound_refuted_stmt.
Proof. exact Arena_proofs.old_bound_refuted. Qed.

(* the same accounting for EVERY reachable memtable: through any sequence of batches added to one memtable (accepted or refused,
   any heights) the counter is the start plus the cost of the accepted batches, no allocation fails after a granted reservation,
   an unused tower always still fits, and a batch that was refused stays refused until the memtable is replaced (so the rotation
   that follows ArenaFull is the only way forward, never a retry on the same memtable) *)
Theorem C07_arena_reachable_counter : ArenaSpec.reachable_counter_stmt.
Proof. exact Arena_proofs.reachable_counter. Qed.

Theorem C07_arena_refused_stays_refused : ArenaSpec.refused_stays_refused_stmt.
Proof. exact Arena_proofs.refused_stays_refused. Qed.

Theorem C07_arena_reachable_counter_example : ArenaSpec.reachable_counter_example_stmt.
Proof. exact Arena_proofs.reachable_counter_example. Qed.
